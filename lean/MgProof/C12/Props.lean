import MgProof.C12.LemmasApi
import MgProof.C12.LemmasExtra
/-!
# C12 — property theorems (AES / DES / Triple-DES in ECB, CBC, CFB, OFB, CTR)

Statement (properties.jsonl): for every key, IV or nonce, message and length,
AES-128/192/256, DES and Triple-DES in the five modes produce exactly the output defined
by FIPS-197 / FIPS 46-3 with SP 800-38A chaining (CTR over the library's incrementing
128/64-bit counter), and decryption inverts encryption.  For the streaming modes, feeding
a message in any sequence of chunks while carrying the IV/offset state between calls
gives the same bytes as a single call; lengths that are not a block multiple in ECB/CBC
and other invalid parameters are rejected.

Layout.  The model of `aes.c` / `des.c` / `tdes.c` is `MgModel.C12.{ecb,cbc,cfb,ofb,ctr}`
over a context `Cx` built by `aesSetKey` / `desSetKey` / `tdesSetKey`
(MgModel/C12/Modes.lean, Ciphers.lean); SP 800-38A is `MgModel.C12.Spec.*`; FIPS-197 is
`MgModel.C12.Aes`, FIPS 46-3 is `MgModel.C12.Des`.

* Part A — mode theorems for ANY context that is *standard* for a pair of block
  functions `E`, `D` (`Std cx E D`: both keep the block length, `D ∘ E = id`, wired as
  the set-key functions wire them).  Quantified over every message, every length, every
  IV / nonce / stream_block, every offset, every chunking.
* Part B — the three set-key functions produce standard contexts for the FIPS block
  functions, for every key: in particular `InvCipher ∘ Cipher = id` (AES, all three key
  sizes, all 2^128 blocks) and DES / 3DES deciphering inverts enciphering.
* NOT a theorem (see DESIGN.md §3 C12 and the manifest): that the optimised primitives in
  `crypt/openssl/*.c` compute `Aes.cipher` / `Des.cryptBlock`; this is what the
  correspondence runs and the standards' known-answer vectors check.
-/
namespace MgProof.C12
open MgModel.C12

/-! ## Part A.1 — every mode computes the SP 800-38A definition -/

/-- **ECB = SP 800-38A §6.1**: a whole number of blocks, each through the forward cipher
(encrypting context) or the inverse cipher (decrypting context). -/
theorem ecb_standard {cx : Cx} {E D : Bytes → Bytes} (h : Std cx E D) (input : Bytes)
    (hm : cx.mode = 0) (hl : input.length % cx.bs = 0) :
    ecb cx input = .ok (Spec.ecb (match cx.dir with | .enc => E | .dec => D)
      (chunks cx.bs input)).flatten := by
  rw [ecb_ok cx input hm hl, h.blk (by omega)]; rfl

/-- **CBC = SP 800-38A §6.2**, both directions. -/
theorem cbc_standard {cx : Cx} {E D : Bytes → Bytes} (h : Std cx E D) (iv input : Bytes)
    (hm : cx.mode = 1) (hl : input.length % cx.bs = 0) (hiv : iv.length = cx.bs) :
    (cbc cx iv input).map Prod.fst = .ok (match cx.dir with
      | .enc => (Spec.cbcEnc E iv (chunks cx.bs input)).flatten
      | .dec => (Spec.cbcDec D iv (chunks cx.bs input)).flatten) := by
  rw [cbc_ok cx iv input hm hl hiv, h.blk (by omega)]
  cases cx.dir <;> simp [Except.map, cbcEnc_eq_spec, cbcDec_eq_spec]

/-- **CFB (s = b) = SP 800-38A §6.3**, both directions, EVERY message length (the last
segment may be partial). -/
theorem cfb_standard {cx : Cx} {E D : Bytes → Bytes} (h : Std cx E D) (iv input : Bytes)
    (hm : cx.mode = 2) (hiv : iv.length = cx.bs) :
    (cfb cx ⟨iv, 0⟩ input).map Prod.fst = .ok (match cx.dir with
      | .enc => (Spec.cfbEnc E iv (chunks cx.bs input)).flatten
      | .dec => (Spec.cfbDec E iv (chunks cx.bs input)).flatten) := by
  rw [cfb_ok cx ⟨iv, 0⟩ input hm h.bs_pos hiv, h.str (by omega)]
  have hf : (Dir.dec == Dir.enc) = false := rfl
  cases cx.dir
  · simp [Except.map, hf, cfbDec_eq_spec E cx.bs h.bs_pos h.lenE input iv hiv]
  · simp [Except.map, cfbEnc_eq_spec E cx.bs h.bs_pos h.lenE input iv hiv]

/-- **OFB = SP 800-38A §6.4**, every message length, either direction of the context. -/
theorem ofb_standard {cx : Cx} {E D : Bytes → Bytes} (h : Std cx E D) (iv input : Bytes)
    (hm : cx.mode = 3) (hiv : iv.length = cx.bs) :
    (ofb cx ⟨iv, 0⟩ input).map Prod.fst = .ok (Spec.ofb E iv (chunks cx.bs input)).flatten := by
  rw [ofb_ok cx ⟨iv, 0⟩ input hm h.bs_pos hiv, h.str (by omega)]
  simp [Except.map, ofb_eq_spec E cx.bs h.bs_pos h.lenE input iv hiv]

/-- **CTR = SP 800-38A §6.5** over the library's counter blocks `T_j = LE(nonce) + j`
(little-endian `8·bs`-bit increment, pre-incremented, wrapping), every message length,
whatever the caller left in `stream_block`. -/
theorem ctr_standard {cx : Cx} {E D : Bytes → Bytes} (h : Std cx E D) (nonce sb input : Bytes)
    (hm : cx.mode = 4) (hn : nonce.length = cx.bs) (hsb : sb.length = cx.bs) :
    (ctr cx ⟨nonce, 0, sb⟩ input).map Prod.fst =
      .ok (Spec.ctr E nonce (chunks cx.bs input)).flatten := by
  rw [ctr_ok cx ⟨nonce, 0, sb⟩ input hm h.bs_pos hn hsb, h.str (by omega)]
  simp [Except.map, ctr_eq_spec E cx.bs h.bs_pos h.lenE input nonce sb hn]

/-- the counter the CTR loop uses really is "+1 modulo 2^(8·bs), little endian" -/
theorem incLE_value : ∀ b : Bytes, leVal (incLE b) = (leVal b + 1) % 2 ^ (8 * b.length)
  | [] => by simp [incLE, leVal]
  | x :: xs => by
    have hx := x.isLt
    have hv : leVal xs < 2 ^ (8 * xs.length) := by
      clear hx
      induction xs with
      | nil => simp [leVal]
      | cons y ys ih =>
        have := y.isLt
        simp only [leVal, List.length_cons, Nat.mul_add, Nat.pow_add]
        omega
    have hp : 2 ^ (8 * (xs.length + 1)) = 256 * 2 ^ (8 * xs.length) := by
      rw [Nat.mul_add, Nat.pow_add]; omega
    simp only [incLE, List.length_cons, hp]
    split
    · rename_i h
      subst h
      simp only [leVal, incLE_value xs]
      have : (0xff#8).toNat = 255 := rfl
      have z : (0x00#8).toNat = 0 := rfl
      rw [this, z]
      have e : 255 + 256 * leVal xs + 1 = 256 * (leVal xs + 1) := by omega
      rw [e, Nat.mul_mod_mul_left]; omega
    · rename_i h
      have hne : x.toNat ≠ 255 := by
        intro h'; apply h
        apply BitVec.eq_of_toNat_eq; simpa using h'
      have hlt : x.toNat + 1 < 256 := by omega
      have h1 : (x + 1).toNat = x.toNat + 1 := by
        simp [BitVec.toNat_add, Nat.mod_eq_of_lt hlt]
      simp only [leVal, h1]
      rw [Nat.mod_eq_of_lt (by omega)]; omega

/-! ## Part A.2 — decryption inverts encryption -/

/-- two contexts for the same key and mode, one encrypting, one decrypting -/
structure Pair (cxe cxd : Cx) (E D : Bytes → Bytes) : Prop where
  e : Std cxe E D
  d : Std cxd E D
  bs : cxd.bs = cxe.bs
  mode : cxd.mode = cxe.mode
  de : cxe.dir = .enc
  dd : cxd.dir = .dec

/-- **ECB: decrypt ∘ encrypt = id** on every whole number of blocks. -/
theorem ecb_roundtrip {cxe cxd : Cx} {E D : Bytes → Bytes} (p : Pair cxe cxd E D) (m : Bytes)
    (hm : cxe.mode = 0) (hl : m.length % cxe.bs = 0) :
    ∃ c, ecb cxe m = .ok c ∧ ecb cxd c = .ok m := by
  have hbe : cxe.blkF = E := by rw [p.e.blk (by omega), p.de]
  have hbd : cxd.blkF = D := by rw [p.d.blk (by rw [p.mode]; omega), p.dd]
  refine ⟨_, ecb_ok cxe m hm hl, ?_⟩
  have hlen := ecbLoop_length cxe.blkF cxe.bs p.e.bs_pos (by rw [hbe]; exact p.e.lenE) m hl
  rw [ecb_ok cxd _ (by rw [p.mode]; exact hm) (by rw [p.bs, hlen]; exact hl), p.bs, hbe, hbd,
    ecbLoop_roundtrip E D cxe.bs p.e.bs_pos p.e.lenE p.e.inv m hl]

/-- **CBC: decrypt ∘ encrypt = id** on every whole number of blocks, every IV. -/
theorem cbc_roundtrip {cxe cxd : Cx} {E D : Bytes → Bytes} (p : Pair cxe cxd E D) (iv m : Bytes)
    (hm : cxe.mode = 1) (hl : m.length % cxe.bs = 0) (hiv : iv.length = cxe.bs) :
    ∃ c ive ivd, cbc cxe iv m = .ok (c, ive) ∧ cbc cxd iv c = .ok (m, ivd) := by
  have hbe : cxe.blkF = E := by rw [p.e.blk (by omega), p.de]
  have hbd : cxd.blkF = D := by rw [p.d.blk (by rw [p.mode]; omega), p.dd]
  have hpos := p.e.bs_pos
  have hblocks := chunks_all_len cxe.bs hpos m hl
  have hcl := specCbcEnc_len E cxe.bs p.e.lenE (chunks cxe.bs m) iv hiv hblocks
  have hclen : (Spec.cbcEnc E iv (chunks cxe.bs m)).flatten.length % cxe.bs = 0 :=
    flatten_len_mod cxe.bs _ hcl
  refine ⟨(Spec.cbcEnc E iv (chunks cxe.bs m)).flatten, (cbcEncBlocks E iv (chunks cxe.bs m)).2,
    (cbcDecBlocks D iv (Spec.cbcEnc E iv (chunks cxe.bs m))).2, ?_, ?_⟩
  · rw [cbc_ok cxe iv m hm hl hiv, p.de, hbe]
    simp only []
    rw [← cbcEnc_eq_spec]
  · rw [cbc_ok cxd iv _ (by rw [p.mode]; exact hm) (by rw [p.bs]; exact hclen) (by rw [p.bs]; exact hiv),
      p.dd, hbd, p.bs]
    simp only []
    rw [chunks_of_flatten cxe.bs hpos _ hcl]
    congr 1
    apply Prod.ext
    · simp only []
      rw [cbcDec_eq_spec, specCbc_roundtrip E D cxe.bs p.e.lenE p.e.inv _ iv hiv hblocks,
        chunks_flatten cxe.bs hpos m hl]
    · rfl

/-- **CFB: decrypt ∘ encrypt = id for every length, from every carried state**, and both
sides end in the same caller-held state (so they stay in step over further calls). -/
theorem cfb_roundtrip {cxe cxd : Cx} {E D : Bytes → Bytes} (p : Pair cxe cxd E D) (s : IvState)
    (m : Bytes) (hm : cxe.mode = 2) (ho : s.off < cxe.bs) (hiv : s.iv.length = cxe.bs) :
    ∃ c s', cfb cxe s m = .ok (c, s') ∧ cfb cxd s c = .ok (m, s') := by
  have hse : cxe.strF = E := p.e.str (by omega)
  have hsd : cxd.strF = E := p.d.str (by rw [p.mode]; omega)
  refine ⟨_, _, cfb_ok cxe s m hm ho hiv, ?_⟩
  rw [cfb_ok cxd s _ (by rw [p.mode]; exact hm) (by rw [p.bs]; exact ho) (by rw [p.bs]; exact hiv),
    p.bs, hse, hsd, p.de, p.dd]
  exact congrArg Except.ok (cfbLoop_roundtrip E cxe.bs m s)

/-- **OFB: applying the function twice from the same state = id**, every length, every state. -/
theorem ofb_roundtrip {cxe cxd : Cx} {E D : Bytes → Bytes} (p : Pair cxe cxd E D) (s : IvState)
    (m : Bytes) (hm : cxe.mode = 3) (ho : s.off < cxe.bs) (hiv : s.iv.length = cxe.bs) :
    ∃ c s', ofb cxe s m = .ok (c, s') ∧ ofb cxd s c = .ok (m, s') := by
  have hse : cxe.strF = E := p.e.str (by omega)
  have hsd : cxd.strF = E := p.d.str (by rw [p.mode]; omega)
  refine ⟨_, _, ofb_ok cxe s m hm ho hiv, ?_⟩
  rw [ofb_ok cxd s _ (by rw [p.mode]; exact hm) (by rw [p.bs]; exact ho) (by rw [p.bs]; exact hiv),
    p.bs, hse, hsd]
  exact congrArg Except.ok (ofbLoop_roundtrip E cxe.bs m s)

/-- **CTR: applying the function twice from the same state = id**, every length, every state. -/
theorem ctr_roundtrip {cxe cxd : Cx} {E D : Bytes → Bytes} (p : Pair cxe cxd E D) (s : CtrState)
    (m : Bytes) (hm : cxe.mode = 4) (ho : s.off < cxe.bs) (hn : s.nonce.length = cxe.bs)
    (hsb : s.sb.length = cxe.bs) :
    ∃ c s', ctr cxe s m = .ok (c, s') ∧ ctr cxd s c = .ok (m, s') := by
  have hse : cxe.strF = E := p.e.str (by omega)
  have hsd : cxd.strF = E := p.d.str (by rw [p.mode]; omega)
  refine ⟨_, _, ctr_ok cxe s m hm ho hn hsb, ?_⟩
  rw [ctr_ok cxd s _ (by rw [p.mode]; exact hm) (by rw [p.bs]; exact ho) (by rw [p.bs]; exact hn)
    (by rw [p.bs]; exact hsb), p.bs, hse, hsd]
  exact congrArg Except.ok (ctrLoop_roundtrip E cxe.bs m s)

/-! ## Part A.3 — any sequence of chunks = one call -/

/-- feeding a list of chunks to a stream-mode function, carrying the state -/
def feed {σ : Type} (call : σ → Bytes → Except Err (Bytes × σ)) : σ → List Bytes → Except Err (Bytes × σ)
  | s, [] => .ok ([], s)
  | s, p :: ps =>
    match call s p with
    | .error e => .error e
    | .ok (o1, s1) =>
      match feed call s1 ps with
      | .error e => .error e
      | .ok (o2, s2) => .ok (o1 ++ o2, s2)

/-- **CFB chunking**: every partition of the message into chunks (of any sizes, empty ones
included), fed call by call with the carried `iv` / `iv_offset`, gives the bytes AND the
final state of a single call — from every starting state, in both directions. -/
theorem cfb_chunking {cx : Cx} {E D : Bytes → Bytes} (h : Std cx E D) (hm : cx.mode = 2)
    (parts : List Bytes) : ∀ s : IvState, s.off < cx.bs → s.iv.length = cx.bs →
    feed (cfb cx) s parts = cfb cx s parts.flatten := by
  induction parts with
  | nil => intro s ho hiv; rw [List.flatten_nil, cfb_ok cx s [] hm ho hiv]; rfl
  | cons p ps ih =>
    intro s ho hiv
    have hF : ∀ b, b.length = cx.bs → (cx.strF b).length = cx.bs := by
      rw [h.str (by omega)]; exact h.lenE
    obtain ⟨h1, h2⟩ := cfbLoop_inv cx.strF cx.bs h.bs_pos (cx.dir == .enc) hF p s hiv ho
    rw [List.flatten_cons, cfb_ok cx s _ hm ho hiv, cfbLoop_append]
    simp only [feed]
    rw [cfb_ok cx s p hm ho hiv]
    simp only []
    rw [ih _ h2 h1, cfb_ok cx _ _ hm h2 h1]

/-- **OFB chunking** (same statement). -/
theorem ofb_chunking {cx : Cx} {E D : Bytes → Bytes} (h : Std cx E D) (hm : cx.mode = 3)
    (parts : List Bytes) : ∀ s : IvState, s.off < cx.bs → s.iv.length = cx.bs →
    feed (ofb cx) s parts = ofb cx s parts.flatten := by
  induction parts with
  | nil => intro s ho hiv; rw [List.flatten_nil, ofb_ok cx s [] hm ho hiv]; rfl
  | cons p ps ih =>
    intro s ho hiv
    have hF : ∀ b, b.length = cx.bs → (cx.strF b).length = cx.bs := by
      rw [h.str (by omega)]; exact h.lenE
    obtain ⟨h1, h2⟩ := ofbLoop_inv cx.strF cx.bs h.bs_pos hF p s hiv ho
    rw [List.flatten_cons, ofb_ok cx s _ hm ho hiv, ofbLoop_append]
    simp only [feed]
    rw [ofb_ok cx s p hm ho hiv]
    simp only []
    rw [ih _ h2 h1, ofb_ok cx _ _ hm h2 h1]

/-- **CTR chunking**: with the carried `nonce` / `nonce_offset` / `stream_block`. -/
theorem ctr_chunking {cx : Cx} {E D : Bytes → Bytes} (h : Std cx E D) (hm : cx.mode = 4)
    (parts : List Bytes) : ∀ s : CtrState, s.off < cx.bs → s.nonce.length = cx.bs →
    s.sb.length = cx.bs → feed (ctr cx) s parts = ctr cx s parts.flatten := by
  induction parts with
  | nil => intro s ho hn hsb; rw [List.flatten_nil, ctr_ok cx s [] hm ho hn hsb]; rfl
  | cons p ps ih =>
    intro s ho hn hsb
    have hF : ∀ b, b.length = cx.bs → (cx.strF b).length = cx.bs := by
      rw [h.str (by omega)]; exact h.lenE
    obtain ⟨h1, h2, h3⟩ := ctrLoop_inv cx.strF cx.bs h.bs_pos hF p s hn hsb ho
    rw [List.flatten_cons, ctr_ok cx s _ hm ho hn hsb, ctrLoop_append]
    simp only [feed]
    rw [ctr_ok cx s p hm ho hn hsb]
    simp only []
    rw [ih _ h3 h1 h2, ctr_ok cx _ _ hm h3 h1 h2]

/-- **ECB chunking**: chunks that are whole numbers of blocks. -/
theorem ecb_chunking {cx : Cx} {E D : Bytes → Bytes} (h : Std cx E D) (hm : cx.mode = 0)
    (a b : Bytes) (ha : a.length % cx.bs = 0) (hb : b.length % cx.bs = 0) :
    ∃ oa ob, ecb cx a = .ok oa ∧ ecb cx b = .ok ob ∧ ecb cx (a ++ b) = .ok (oa ++ ob) := by
  refine ⟨_, _, ecb_ok cx a hm ha, ecb_ok cx b hm hb, ?_⟩
  rw [ecb_ok cx (a ++ b) hm (by rw [List.length_append, Nat.add_mod, ha, hb]; simp),
    ecbLoop_append _ _ h.bs_pos a b ha]

/-- **CBC chunking**: chunks that are whole numbers of blocks, carrying the `iv`. -/
theorem cbc_chunking {cx : Cx} {E D : Bytes → Bytes} (h : Std cx E D) (hm : cx.mode = 1)
    (iv a b : Bytes) (hiv : iv.length = cx.bs) (ha : a.length % cx.bs = 0)
    (hb : b.length % cx.bs = 0) :
    ∃ oa iva ob ivb, cbc cx iv a = .ok (oa, iva) ∧ cbc cx iva b = .ok (ob, ivb) ∧
      cbc cx iv (a ++ b) = .ok (oa ++ ob, ivb) := by
  have hab : (a ++ b).length % cx.bs = 0 := by rw [List.length_append, Nat.add_mod, ha, hb]; simp
  have hF : ∀ x, x.length = cx.bs → (cx.blkF x).length = cx.bs := by
    rw [h.blk (by omega)]; cases cx.dir
    · exact h.lenD
    · exact h.lenE
  have hblocks := chunks_all_len cx.bs h.bs_pos a ha
  rw [cbc_ok cx iv a hm ha hiv, cbc_ok cx iv (a ++ b) hm hab hiv, chunks_append cx.bs h.bs_pos a b ha]
  cases hd : cx.dir
  · -- decrypting: the carried iv is the last input block
    have hiva : ∀ (bl : List Bytes) (iv : Bytes), iv.length = cx.bs → (∀ x ∈ bl, x.length = cx.bs) →
        (cbcDecBlocks cx.blkF iv bl).2.length = cx.bs := by
      intro bl
      induction bl with
      | nil => intro iv h _; exact h
      | cons x xs ih => intro iv _ hx; exact ih x (hx x (by simp)) (fun y hy => hx y (by simp [hy]))
    have := hiva _ iv hiv hblocks
    refine ⟨(cbcDecBlocks cx.blkF iv (chunks cx.bs a)).1, (cbcDecBlocks cx.blkF iv (chunks cx.bs a)).2,
      (cbcDecBlocks cx.blkF (cbcDecBlocks cx.blkF iv (chunks cx.bs a)).2 (chunks cx.bs b)).1,
      (cbcDecBlocks cx.blkF (cbcDecBlocks cx.blkF iv (chunks cx.bs a)).2 (chunks cx.bs b)).2, rfl, ?_, ?_⟩
    · rw [cbc_ok cx _ b hm hb this, hd]
    · simp only []; rw [cbcDecBlocks_append]
  · have hiva : ∀ (bl : List Bytes) (iv : Bytes), iv.length = cx.bs → (∀ x ∈ bl, x.length = cx.bs) →
        (cbcEncBlocks cx.blkF iv bl).2.length = cx.bs := by
      intro bl
      induction bl with
      | nil => intro iv h _; exact h
      | cons x xs ih =>
        intro iv hi hx
        exact ih _ (hF _ (by simp [xorBytes_length, hi, hx x (by simp)])) (fun y hy => hx y (by simp [hy]))
    have := hiva _ iv hiv hblocks
    refine ⟨(cbcEncBlocks cx.blkF iv (chunks cx.bs a)).1, (cbcEncBlocks cx.blkF iv (chunks cx.bs a)).2,
      (cbcEncBlocks cx.blkF (cbcEncBlocks cx.blkF iv (chunks cx.bs a)).2 (chunks cx.bs b)).1,
      (cbcEncBlocks cx.blkF (cbcEncBlocks cx.blkF iv (chunks cx.bs a)).2 (chunks cx.bs b)).2, rfl, ?_, ?_⟩
    · rw [cbc_ok cx _ b hm hb this, hd]
    · simp only []; rw [cbcEncBlocks_append]

/-- the `iv` a CBC encryption call leaves behind is the last ciphertext block (the caller's
`iv` if there was no block) -/
theorem cbcEnc_final_iv (F : Bytes → Bytes) : ∀ (blocks : List Bytes) (iv : Bytes),
    (cbcEncBlocks F iv blocks).2 = (Spec.cbcEnc F iv blocks).getLastD iv
  | [], _ => rfl
  | p :: ps, iv => by
    simp only [cbcEncBlocks, Spec.cbcEnc, xorBytes_comm iv p]
    rw [cbcEnc_final_iv F ps]
    cases h : Spec.cbcEnc F (F (xorBytes p iv)) ps <;> simp [List.getLastD]

/-- the `iv` a CBC decryption call leaves behind is the last input (ciphertext) block -/
theorem cbcDec_final_iv (F : Bytes → Bytes) : ∀ (blocks : List Bytes) (iv : Bytes),
    (cbcDecBlocks F iv blocks).2 = blocks.getLastD iv
  | [], _ => rfl
  | c :: cs, iv => by
    simp only [cbcDecBlocks]
    rw [cbcDec_final_iv F cs]
    cases cs <;> simp [List.getLastD]

/-- **CBC: the updated `iv`** after a successful call, both directions. -/
theorem cbc_final_iv {cx : Cx} {E D : Bytes → Bytes} (h : Std cx E D) (iv input : Bytes)
    (hm : cx.mode = 1) (hl : input.length % cx.bs = 0) (hiv : iv.length = cx.bs) :
    (cbc cx iv input).map Prod.snd = .ok (match cx.dir with
      | .enc => (Spec.cbcEnc E iv (chunks cx.bs input)).getLastD iv
      | .dec => (chunks cx.bs input).getLastD iv) := by
  rw [cbc_ok cx iv input hm hl hiv, h.blk (by omega)]
  cases cx.dir <;> simp [Except.map, cbcEnc_final_iv, cbcDec_final_iv]

/-- **CBC: any sequence of whole-block chunks = one call**, carrying the `iv`. -/
theorem cbc_chunking_list {cx : Cx} {E D : Bytes → Bytes} (h : Std cx E D) (hm : cx.mode = 1)
    (parts : List Bytes) (hp : ∀ p ∈ parts, p.length % cx.bs = 0) : ∀ iv : Bytes, iv.length = cx.bs →
    feed (fun iv p => cbc cx iv p) iv parts = cbc cx iv parts.flatten := by
  induction parts with
  | nil =>
    intro iv hiv
    rw [List.flatten_nil, cbc_ok cx iv [] hm (by simp) hiv]
    cases cx.dir <;> rfl
  | cons p ps ih =>
    intro iv hiv
    have hp0 := hp p (by simp)
    have hrest : ps.flatten.length % cx.bs = 0 := by
      have : ∀ (l : List Bytes), (∀ q ∈ l, q.length % cx.bs = 0) → l.flatten.length % cx.bs = 0 := by
        intro l
        induction l with
        | nil => intro _; simp
        | cons q l ihl =>
          intro hq
          rw [List.flatten_cons, List.length_append, Nat.add_mod, hq q (by simp),
            ihl (fun r hr => hq r (by simp [hr]))]
          simp
      exact this ps (fun q hq => hp q (by simp [hq]))
    obtain ⟨oa, iva, ob, ivb, h1, h2, h3⟩ := cbc_chunking h hm iv p ps.flatten hiv hp0 hrest
    have hiva : iva.length = cx.bs := by
      have hc := cbc_ok cx iv p hm hp0 hiv
      rw [h1] at hc
      injection hc with hc
      have hF : ∀ x, x.length = cx.bs → (cx.blkF x).length = cx.bs := by
        rw [h.blk (by omega)]; cases cx.dir
        · exact h.lenD
        · exact h.lenE
      have hblocks := chunks_all_len cx.bs h.bs_pos p hp0
      have e : iva = (match cx.dir with
          | .enc => cbcEncBlocks cx.blkF iv (chunks cx.bs p)
          | .dec => cbcDecBlocks cx.blkF iv (chunks cx.bs p)).2 := (congrArg Prod.snd hc)
      rw [e]
      cases cx.dir
      · simp only []
        rw [cbcDec_final_iv]
        cases hq : (chunks cx.bs p).getLast? with
        | none =>
          have : chunks cx.bs p = [] := List.getLast?_eq_none_iff.mp hq
          simp [this, List.getLastD, hiv]
        | some b =>
          have hb := hblocks b (List.mem_of_getLast? hq)
          rw [List.getLastD_eq_getLast?, hq]; exact hb
      · simp only []
        have : ∀ (bl : List Bytes) (iv : Bytes), iv.length = cx.bs → (∀ x ∈ bl, x.length = cx.bs) →
            (cbcEncBlocks cx.blkF iv bl).2.length = cx.bs := by
          intro bl
          induction bl with
          | nil => intro iv h _; exact h
          | cons x xs ih' =>
            intro iv hi hx
            exact ih' _ (hF _ (by simp [xorBytes_length, hi, hx x (by simp)]))
              (fun y hy => hx y (by simp [hy]))
        exact this _ iv hiv hblocks
    simp only [feed, List.flatten_cons]
    rw [h1]
    simp only []
    rw [ih (fun q hq => hp q (by simp [hq])) iva hiva, h2, h3]

/-! ## Part A.4 — invalid parameters are rejected -/

/-- **ECB / CBC reject a length that is not a block multiple** (`MUGGLE_ERR_INVALID_PARAM`),
for every context, IV and message — nothing is written. -/
theorem ecb_rejects_length (cx : Cx) (input : Bytes) (hl : input.length % cx.bs ≠ 0) :
    ecb cx input = .error .invalidParam := by
  simp [ecb, checks_ecb, hl, bind, Except.bind]

theorem cbc_rejects_length (cx : Cx) (iv input : Bytes) (hl : input.length % cx.bs ≠ 0) :
    cbc cx iv input = .error .invalidParam := by
  simp [cbc, checks_cbc, hl, bind, Except.bind]

/-- **an offset outside the block is rejected** by CFB / OFB / CTR. -/
theorem stream_rejects_offset (cx : Cx) (iv sb input : Bytes) (off : Nat) (ho : cx.bs ≤ off) :
    cfb cx ⟨iv, off⟩ input = .error .invalidParam ∧ ofb cx ⟨iv, off⟩ input = .error .invalidParam ∧
    ctr cx ⟨iv, off, sb⟩ input = .error .invalidParam := by
  have : ¬ off < cx.bs := by omega
  simp [cfb, ofb, ctr, checks_cfb, checks_ofb, checks_ctr, this, bind, Except.bind]

/-- **a context set up for one mode is rejected by the functions of the other modes**. -/
theorem rejects_wrong_mode (cx : Cx) (iv sb input : Bytes) (off : Nat) :
    (cx.mode ≠ 0 → ecb cx input = .error .invalidParam) ∧
    (cx.mode ≠ 1 → cbc cx iv input = .error .invalidParam) ∧
    (cx.mode ≠ 2 → cfb cx ⟨iv, off⟩ input = .error .invalidParam) ∧
    (cx.mode ≠ 3 → ofb cx ⟨iv, off⟩ input = .error .invalidParam) ∧
    (cx.mode ≠ 4 → ctr cx ⟨iv, off, sb⟩ input = .error .invalidParam) := by
  refine ⟨?_, ?_, ?_, ?_, ?_⟩ <;> intro h <;>
    simp [ecb, cbc, cfb, ofb, ctr, checks_ecb, checks_cbc, checks_cfb, checks_ofb, checks_ctr, h,
      bind, Except.bind]

/-- the pointer parameters a mode function takes -/
def paramsOf : Fn → List Param
  | .ecb => [.ctx, .input, .output]
  | .cbc => [.ctx, .input, .iv, .output]
  | .cfb => [.ctx, .input, .iv, .off, .output]
  | .ofb => [.ctx, .input, .iv, .off, .output]
  | .ctr => [.ctx, .input, .iv, .off, .sb, .output]

/-- **NULL pointers are rejected, never dereferenced** (the checks of des.c / tdes.c and
of aes.c with fixes/C12-aes-null-checks.patch): whatever else is wrong with the call, if
one of the function's pointer parameters is NULL the call returns an error code and does
not crash. -/
theorem null_rejected (fn : Fn) (p : Param) (hp : p ∈ paramsOf fn) (c : Call) (hn : c.isNull p = true) :
    runChecks c (checksOf fn) = .error .nullParam ∨ runChecks c (checksOf fn) = .error .invalidParam := by
  cases fn <;> simp only [paramsOf, List.mem_cons, List.not_mem_nil, or_false] at hp <;>
    rcases hp with rfl | rfl | rfl | rfl | rfl | rfl <;>
    simp only [checksOf, runChecks] <;>
    (repeat' split) <;> simp_all

/-- no call of any mode function can reach a NULL dereference -/
theorem never_null_deref (fn : Fn) (c : Call) : runChecks c (checksOf fn) ≠ .error .nullDeref := by
  cases fn <;> simp only [checksOf, runChecks] <;> (repeat' split) <;> simp

/-- **negation witness for the pinned aes.c** (before the fix): `muggle_aes_cfb128` with
`iv_offset == NULL` dereferences it; replayed on the implementation by
corpus/C12/aes-cfb-null-iv_offset.ops (and -ofb-, -ctr-). -/
theorem pinned_aes_null_deref :
    runChecks { isNull := fun q => q == .off, modeOk := true, lenOk := true, offOk := true }
      (checksOfAesPinned .cfb) = .error .nullDeref ∧
    runChecks { isNull := fun q => q == .off, modeOk := true, lenOk := true, offOk := true }
      (checksOfAesPinned .ofb) = .error .nullDeref ∧
    runChecks { isNull := fun q => q == .iv, modeOk := true, lenOk := true, offOk := true }
      (checksOfAesPinned .ctr) = .error .nullDeref := ⟨rfl, rfl, rfl⟩

/-! ## Part B — the three set-key functions yield standard contexts for the FIPS ciphers -/

/-- **FIPS-197: `InvCipher(Cipher(b, KeyExpansion(key)), KeyExpansion(key)) = b`** for every
16-, 24- or 32-byte key and every 16-byte block. -/
theorem aes_decrypt_encrypt (key b : Bytes) (hk : key.length = 16 ∨ key.length = 24 ∨ key.length = 32)
    (hb : b.length = 16) : Aes.decryptBlock key (Aes.encryptBlock key b) = b :=
  invCipher_cipher _ b (keyExpansion_len key hk) hb

theorem aesSetKey_ok {op mode bits : Int} {key : Bytes} {cx : Cx} (h : aesSetKey op mode bits key = .ok cx) :
    ∃ dir, dirOfNat op = some dir ∧ 0 ≤ mode ∧ mode < 5 ∧ (bits = 128 ∨ bits = 192 ∨ bits = 256) ∧
      bits.toNat / 8 ≤ key.length ∧
      cx = { bs := 16, dir := dir, mode := mode.toNat,
             blkF := (match dir with
               | .enc => Aes.cipher (Aes.keyExpansion (key.take (bits.toNat / 8)))
               | .dec => Aes.invCipher (Aes.keyExpansion (key.take (bits.toNat / 8)))),
             strF := Aes.cipher (Aes.keyExpansion (key.take (bits.toNat / 8))) } := by
  unfold aesSetKey at h
  split at h
  · cases h
  · rename_i dir hd
    split at h
    · cases h
    · split at h
      · cases h
      · split at h
        · cases h
        · rename_i h1 h2 h3
          injection h with h
          exact ⟨dir, hd, by omega, by omega, by omega, by omega, h.symm⟩

/-- **`muggle_aes_set_key` yields a standard context** for `E = Cipher`, `D = InvCipher` under
the FIPS-197 key expansion of the first `bits/8` key bytes — for every key. -/
theorem aes_context_standard {op mode bits : Int} {key : Bytes} {cx : Cx}
    (h : aesSetKey op mode bits key = .ok cx) :
    cx.bs = 16 ∧ Std cx (Aes.encryptBlock (key.take (bits.toNat / 8)))
      (Aes.decryptBlock (key.take (bits.toNat / 8))) := by
  obtain ⟨dir, _, _, _, hb, hl, rfl⟩ := aesSetKey_ok h
  have hk : (key.take (bits.toNat / 8)).length = 16 ∨ (key.take (bits.toNat / 8)).length = 24 ∨
      (key.take (bits.toNat / 8)).length = 32 := by
    rw [List.length_take, Nat.min_eq_left hl]
    rcases hb with rfl | rfl | rfl <;> decide
  have hks := keyExpansion_len _ hk
  refine ⟨rfl, ⟨Nat.zero_lt_succ 15, ?_, ?_, ?_, ?_, ?_⟩⟩
  · intro _; cases dir <;> rfl
  · intro _; rfl
  · intro b hb'; exact cipher_length _ b hks hb'
  · intro b hb'; exact invCipher_length _ b hks hb'
  · intro b hb'; exact aes_decrypt_encrypt _ b hk hb'

theorem desSetKey_ok {op mode : Int} {key : Bytes} {cx : Cx} (h : desSetKey op mode key = .ok cx) :
    ∃ dir, dirOfNat op = some dir ∧ key.length = 8 ∧ 0 ≤ mode ∧ mode < 5 ∧
      cx = { bs := 8, dir := dir, mode := mode.toNat,
             blkF := Des.cryptBlock (desSchedule dir mode.toNat key),
             strF := Des.cryptBlock (desSchedule dir mode.toNat key) } := by
  unfold desSetKey at h
  split at h
  · cases h
  · rename_i dir hd
    split at h
    · cases h
    · split at h
      · cases h
      · rename_i h1 h2
        injection h with h
        exact ⟨dir, hd, by simpa using h1, by omega, by omega, h.symm⟩

/-- **`muggle_des_set_key` yields a standard context** for FIPS 46-3 enciphering /
deciphering under the key: the schedule is reversed exactly for a decrypting ECB / CBC
context, and CFB / OFB / CTR contexts get the enciphering schedule in both directions. -/
theorem des_context_standard {op mode : Int} {key : Bytes} {cx : Cx}
    (h : desSetKey op mode key = .ok cx) :
    cx.bs = 8 ∧ Std cx (Des.encryptBlock key) (Des.decryptBlock key) := by
  obtain ⟨dir, _, _, _, _, rfl⟩ := desSetKey_ok h
  refine ⟨rfl, ⟨Nat.zero_lt_succ 7, ?_, ?_, ?_, ?_, ?_⟩⟩
  · intro hm
    have hm' : mode.toNat ≤ 1 := hm
    cases dir <;> simp [desSchedule, hm'] <;> rfl
  · intro hm
    have hm' : ¬ mode.toNat ≤ 1 := by have : 2 ≤ mode.toNat := hm; omega
    simp [desSchedule, hm']; rfl
  · intro b _; exact encryptBlock_length key b
  · intro b _; exact decryptBlock_length key b
  · intro b hb; exact des_decrypt_encrypt key b hb

theorem tdesSetKey_ok {op mode : Int} {k1 k2 k3 : Bytes} {cx : Cx}
    (h : tdesSetKey op mode k1 k2 k3 = .ok cx) :
    ∃ dir, dirOfNat op = some dir ∧ 0 ≤ mode ∧ mode < 5 ∧
      cx = { bs := 8, dir := dir, mode := mode.toNat,
             blkF := (if mode ≤ 1 then
                match dir with
                | .enc => tdesCrypt (desSchedule .enc 0 k1) (desSchedule .dec 0 k2) (desSchedule .enc 0 k3)
                | .dec => tdesCrypt (desSchedule .dec 0 k3) (desSchedule .enc 0 k2) (desSchedule .dec 0 k1)
              else tdesCrypt (desSchedule .enc 0 k1) (desSchedule .dec 0 k2) (desSchedule .enc 0 k3)),
             strF := (if mode ≤ 1 then
                match dir with
                | .enc => tdesCrypt (desSchedule .enc 0 k1) (desSchedule .dec 0 k2) (desSchedule .enc 0 k3)
                | .dec => tdesCrypt (desSchedule .dec 0 k3) (desSchedule .enc 0 k2) (desSchedule .dec 0 k1)
              else tdesCrypt (desSchedule .enc 0 k1) (desSchedule .dec 0 k2) (desSchedule .enc 0 k3)) } := by
  unfold tdesSetKey at h
  split at h
  · cases h
  · rename_i dir hd
    split at h
    · cases h
    · split at h
      · cases h
      · rename_i h1 h2
        injection h with h
        exact ⟨dir, hd, by omega, by omega, h.symm⟩

/-- **`muggle_tdes_set_key` yields a standard context** for TDEA (EDE) encryption
`E_K3(D_K2(E_K1(·)))` and its inverse `D_K1(E_K2(D_K3(·)))`, for all three keys. -/
theorem tdes_context_standard {op mode : Int} {k1 k2 k3 : Bytes} {cx : Cx}
    (h : tdesSetKey op mode k1 k2 k3 = .ok cx) :
    cx.bs = 8 ∧ Std cx (Des.tdesEncryptBlock k1 k2 k3) (Des.tdesDecryptBlock k1 k2 k3) := by
  obtain ⟨dir, _, h0, _, rfl⟩ := tdesSetKey_ok h
  have hE : tdesCrypt (desSchedule .enc 0 k1) (desSchedule .dec 0 k2) (desSchedule .enc 0 k3) =
      Des.tdesEncryptBlock k1 k2 k3 := rfl
  have hD : tdesCrypt (desSchedule .dec 0 k3) (desSchedule .enc 0 k2) (desSchedule .dec 0 k1) =
      Des.tdesDecryptBlock k1 k2 k3 := rfl
  refine ⟨rfl, ⟨Nat.zero_lt_succ 7, ?_, ?_, ?_, ?_, ?_⟩⟩
  · intro hm
    have hm' : mode ≤ 1 := by have : mode.toNat ≤ 1 := hm; omega
    cases dir <;> simp [hm', hE, hD]
  · intro hm
    have hm' : ¬ mode ≤ 1 := by have : 2 ≤ mode.toNat := hm; omega
    simp [hm', hE]
  · intro b _; exact encryptBlock_length _ _
  · intro b _; exact decryptBlock_length _ _
  · intro b hb; exact tdes_decrypt_encrypt k1 k2 k3 b hb

/-! ### key set-up rejects invalid parameters -/

/-- `muggle_aes_set_key`: an operation other than 0/1, a mode outside 0..4, or a key size
other than 128/192/256 bits is rejected. -/
theorem aes_setkey_rejects (op mode bits : Int) (key : Bytes) :
    ((op ≠ 0 ∧ op ≠ 1) → aesSetKey op mode bits key = .error .invalidParam) ∧
    ((op = 0 ∨ op = 1) → (mode < 0 ∨ 5 ≤ mode) → aesSetKey op mode bits key = .error .invalidParam) ∧
    ((op = 0 ∨ op = 1) → (0 ≤ mode ∧ mode < 5) → (bits ≠ 128 ∧ bits ≠ 192 ∧ bits ≠ 256) →
      aesSetKey op mode bits key = .error .keySize) := by
  refine ⟨?_, ?_, ?_⟩
  · intro ⟨h0, h1⟩
    have : dirOfNat op = none := by unfold dirOfNat; split <;> simp_all
    simp [aesSetKey, this]
  · intro ho hm
    rcases ho with rfl | rfl <;> simp [aesSetKey, dirOfNat] <;> omega
  · intro ho hm hb
    have h1 : ¬ (mode < 0 ∨ mode ≥ 5) := by omega
    have h2 : ¬ (bits = 128 ∨ bits = 192 ∨ bits = 256) := by omega
    rcases ho with rfl | rfl <;> simp [aesSetKey, dirOfNat, h1, h2]

/-- `muggle_des_set_key` / `muggle_tdes_set_key`: bad operation or mode is rejected. -/
theorem des_setkey_rejects (op mode : Int) (key k1 k2 k3 : Bytes) (hk : key.length = 8)
    (h1 : k1.length = 8) (h2 : k2.length = 8) (h3 : k3.length = 8) :
    ((op ≠ 0 ∧ op ≠ 1) → desSetKey op mode key = .error .invalidParam ∧
        tdesSetKey op mode k1 k2 k3 = .error .invalidParam) ∧
    ((op = 0 ∨ op = 1) → (mode < 0 ∨ 5 ≤ mode) → desSetKey op mode key = .error .invalidParam ∧
        tdesSetKey op mode k1 k2 k3 = .error .invalidParam) := by
  refine ⟨?_, ?_⟩
  · intro ⟨h0, h1'⟩
    have : dirOfNat op = none := by unfold dirOfNat; split <;> simp_all
    simp [desSetKey, tdesSetKey, this]
  · intro ho hm
    have hm' : mode < 0 ∨ mode ≥ 5 := by omega
    rcases ho with rfl | rfl <;> simp [desSetKey, tdesSetKey, dirOfNat, hk, h1, h2, h3, hm']

/-! ### pairs of contexts (same key, same mode, opposite directions) -/

theorem aes_pair {mode bits : Int} {key : Bytes} {cxe cxd : Cx}
    (he : aesSetKey 1 mode bits key = .ok cxe) (hd : aesSetKey 0 mode bits key = .ok cxd) :
    Pair cxe cxd (Aes.encryptBlock (key.take (bits.toNat / 8))) (Aes.decryptBlock (key.take (bits.toNat / 8))) := by
  have se := (aes_context_standard he).2
  have sd := (aes_context_standard hd).2
  obtain ⟨de, hde, _, _, _, _, rfl⟩ := aesSetKey_ok he
  obtain ⟨dd, hdd, _, _, _, _, rfl⟩ := aesSetKey_ok hd
  have : de = .enc := by simp [dirOfNat] at hde; exact hde.symm
  have : dd = .dec := by simp [dirOfNat] at hdd; exact hdd.symm
  subst_vars
  exact ⟨se, sd, rfl, rfl, rfl, rfl⟩

theorem des_pair {mode : Int} {key : Bytes} {cxe cxd : Cx}
    (he : desSetKey 1 mode key = .ok cxe) (hd : desSetKey 0 mode key = .ok cxd) :
    Pair cxe cxd (Des.encryptBlock key) (Des.decryptBlock key) := by
  have se := (des_context_standard he).2
  have sd := (des_context_standard hd).2
  obtain ⟨de, hde, _, _, _, rfl⟩ := desSetKey_ok he
  obtain ⟨dd, hdd, _, _, _, rfl⟩ := desSetKey_ok hd
  have : de = .enc := by simp [dirOfNat] at hde; exact hde.symm
  have : dd = .dec := by simp [dirOfNat] at hdd; exact hdd.symm
  subst_vars
  exact ⟨se, sd, rfl, rfl, rfl, rfl⟩

theorem tdes_pair {mode : Int} {k1 k2 k3 : Bytes} {cxe cxd : Cx}
    (he : tdesSetKey 1 mode k1 k2 k3 = .ok cxe) (hd : tdesSetKey 0 mode k1 k2 k3 = .ok cxd) :
    Pair cxe cxd (Des.tdesEncryptBlock k1 k2 k3) (Des.tdesDecryptBlock k1 k2 k3) := by
  have se := (tdes_context_standard he).2
  have sd := (tdes_context_standard hd).2
  obtain ⟨de, hde, _, _, rfl⟩ := tdesSetKey_ok he
  obtain ⟨dd, hdd, _, _, rfl⟩ := tdesSetKey_ok hd
  have : de = .enc := by simp [dirOfNat] at hde; exact hde.symm
  have : dd = .dec := by simp [dirOfNat] at hdd; exact hdd.symm
  subst_vars
  exact ⟨se, sd, rfl, rfl, rfl, rfl⟩

/-! ## Part C — end to end: from `set_key` to the standards, for every key (instances of A ∘ B) -/

theorem aesSetKey_succeeds (op mode bits : Int) (key : Bytes) (ho : op = 0 ∨ op = 1)
    (hm : 0 ≤ mode ∧ mode < 5) (hb : bits = 128 ∨ bits = 192 ∨ bits = 256)
    (hk : bits.toNat / 8 ≤ key.length) : ∃ cx, aesSetKey op mode bits key = .ok cx := by
  have h1 : ¬ (mode < 0 ∨ mode ≥ 5) := by omega
  have h2 : ¬ key.length < bits.toNat / 8 := by omega
  rcases ho with rfl | rfl <;> simp [aesSetKey, dirOfNat, h1, hb, h2]

theorem desSetKey_succeeds (op mode : Int) (key : Bytes) (ho : op = 0 ∨ op = 1)
    (hm : 0 ≤ mode ∧ mode < 5) (hk : key.length = 8) : ∃ cx, desSetKey op mode key = .ok cx := by
  have h1 : ¬ (mode < 0 ∨ mode ≥ 5) := by omega
  rcases ho with rfl | rfl <;> simp [desSetKey, dirOfNat, h1, hk]

theorem tdesSetKey_succeeds (op mode : Int) (k1 k2 k3 : Bytes) (ho : op = 0 ∨ op = 1)
    (hm : 0 ≤ mode ∧ mode < 5) (h1 : k1.length = 8) (h2 : k2.length = 8) (h3 : k3.length = 8) :
    ∃ cx, tdesSetKey op mode k1 k2 k3 = .ok cx := by
  have h : ¬ (mode < 0 ∨ mode ≥ 5) := by omega
  rcases ho with rfl | rfl <;> simp [tdesSetKey, dirOfNat, h, h1, h2, h3]

/-- **AES-CBC, end to end**: for every key size, key, IV and whole-block message the
encrypting context produces exactly SP 800-38A CBC over the FIPS-197 cipher, and the
decrypting context maps that ciphertext back to the message. -/
theorem aes_cbc_end_to_end (bits : Int) (key iv m : Bytes)
    (hb : bits = 128 ∨ bits = 192 ∨ bits = 256) (hk : key.length = bits.toNat / 8)
    (hiv : iv.length = 16) (hm : m.length % 16 = 0) :
    ∃ cxe cxd c, aesSetKey 1 1 bits key = .ok cxe ∧ aesSetKey 0 1 bits key = .ok cxd ∧
      c = (Spec.cbcEnc (Aes.encryptBlock key) iv (chunks 16 m)).flatten ∧
      (cbc cxe iv m).map Prod.fst = .ok c ∧ (cbc cxd iv c).map Prod.fst = .ok m := by
  obtain ⟨cxe, he⟩ := aesSetKey_succeeds 1 1 bits key (by omega) (by omega) hb (by omega)
  obtain ⟨cxd, hd⟩ := aesSetKey_succeeds 0 1 bits key (by omega) (by omega) hb (by omega)
  have htake : key.take (bits.toNat / 8) = key := List.take_of_length_le (by omega)
  have p := aes_pair he hd
  rw [htake] at p
  have hbs : cxe.bs = 16 := (aes_context_standard he).1
  have hmode : cxe.mode = 1 := by
    obtain ⟨_, _, _, _, _, _, rfl⟩ := aesSetKey_ok he; rfl
  have hstd := cbc_standard p.e iv m hmode (by rw [hbs]; exact hm) (by rw [hbs]; exact hiv)
  obtain ⟨c, ive, ivd, h1, h2⟩ := cbc_roundtrip p iv m hmode (by rw [hbs]; exact hm) (by rw [hbs]; exact hiv)
  refine ⟨cxe, cxd, c, he, hd, ?_, ?_, ?_⟩
  · rw [h1, p.de, hbs] at hstd
    simpa [Except.map] using hstd
  · rw [h1]; rfl
  · rw [h2]; rfl

/-- **Triple-DES CFB, end to end, chunked**: for all three keys, every IV, every message
of every length and every way of cutting it into chunks, feeding the chunks to the
encrypting context gives SP 800-38A CFB-64 over TDEA, and the decrypting context fed the
whole ciphertext in one call returns the message. -/
theorem tdes_cfb_end_to_end (k1 k2 k3 iv : Bytes) (parts : List Bytes)
    (h1 : k1.length = 8) (h2 : k2.length = 8) (h3 : k3.length = 8) (hiv : iv.length = 8) :
    ∃ cxe cxd c s', tdesSetKey 1 2 k1 k2 k3 = .ok cxe ∧ tdesSetKey 0 2 k1 k2 k3 = .ok cxd ∧
      c = (Spec.cfbEnc (Des.tdesEncryptBlock k1 k2 k3) iv (chunks 8 parts.flatten)).flatten ∧
      feed (cfb cxe) ⟨iv, 0⟩ parts = .ok (c, s') ∧ cfb cxd ⟨iv, 0⟩ c = .ok (parts.flatten, s') := by
  obtain ⟨cxe, he⟩ := tdesSetKey_succeeds 1 2 k1 k2 k3 (by omega) (by omega) h1 h2 h3
  obtain ⟨cxd, hd⟩ := tdesSetKey_succeeds 0 2 k1 k2 k3 (by omega) (by omega) h1 h2 h3
  have p := tdes_pair he hd
  have hbs : cxe.bs = 8 := (tdes_context_standard he).1
  have hmode : cxe.mode = 2 := by
    obtain ⟨_, _, _, _, rfl⟩ := tdesSetKey_ok he; rfl
  have hchunk := cfb_chunking p.e hmode parts ⟨iv, 0⟩ (by rw [hbs]; exact Nat.zero_lt_succ 7) (by rw [hbs]; exact hiv)
  have hstd := cfb_standard p.e iv parts.flatten hmode (by rw [hbs]; exact hiv)
  obtain ⟨c, s', hc1, hc2⟩ := cfb_roundtrip p ⟨iv, 0⟩ parts.flatten hmode (by rw [hbs]; exact Nat.zero_lt_succ 7)
    (by rw [hbs]; exact hiv)
  refine ⟨cxe, cxd, c, s', he, hd, ?_, ?_, hc2⟩
  · rw [hc1, p.de, hbs] at hstd
    simpa [Except.map] using hstd
  · rw [hchunk, hc1]

/-! ## non-vacuity: concrete contexts satisfy the hypotheses used above -/

/-- a standard AES-256 CTR context exists (all-zero key) -/
example : ∃ cx, aesSetKey 1 4 256 (List.replicate 32 0) = .ok cx ∧ cx.bs = 16 ∧ cx.mode = 4 ∧
    Std cx (Aes.encryptBlock (List.replicate 32 0)) (Aes.decryptBlock (List.replicate 32 0)) := by
  obtain ⟨cx, h⟩ := aesSetKey_succeeds 1 4 256 (List.replicate 32 0) (by omega) (by omega) (by omega)
    (by decide)
  have hs := aes_context_standard h
  obtain ⟨_, _, _, _, _, _, hcx⟩ := aesSetKey_ok h
  exact ⟨cx, h, hs.1, by rw [hcx]; rfl, by simpa using hs.2⟩

/-- a DES pair (weak key 0101..01, CBC) exists -/
example : ∃ cxe cxd, desSetKey 1 1 (List.replicate 8 1) = .ok cxe ∧ desSetKey 0 1 (List.replicate 8 1) = .ok cxd ∧
    Pair cxe cxd (Des.encryptBlock (List.replicate 8 1)) (Des.decryptBlock (List.replicate 8 1)) := by
  obtain ⟨cxe, he⟩ := desSetKey_succeeds 1 1 (List.replicate 8 1) (by omega) (by omega) (by decide)
  obtain ⟨cxd, hd⟩ := desSetKey_succeeds 0 1 (List.replicate 8 1) (by omega) (by omega) (by decide)
  exact ⟨cxe, cxd, he, hd, des_pair he hd⟩

/-- a non-trivial chunking: three chunks of sizes 3, 0, 18 starting in the middle of a block -/
example : (([[1, 2, 3], [], List.replicate 18 7] : List Bytes).flatten.length = 21) := by decide

/-- the counter wraps: incrementing the all-ones 64-bit nonce gives zero -/
example : incLE (List.replicate 8 0xff#8) = List.replicate 8 0x00#8 := by decide

end MgProof.C12
