import MgProof.C12.Lemmas
import MgProof.C12.LemmasAes
import MgProof.C12.LemmasDes
namespace MgProof.C12
end MgProof.C12
