import MgModel.C12.Ciphers
/-!
# C12 — lemmas about the mode loops (parametric in the block function)
-/
namespace MgProof.C12
open MgModel.C12

/-! ## xorBytes -/

theorem xorBytes_length (a b : Bytes) : (xorBytes a b).length = min a.length b.length := by
  simp [xorBytes]

theorem xorBytes_cancel : ∀ (a b : Bytes), a.length ≤ b.length → xorBytes (xorBytes a b) b = a
  | [], _, _ => by simp [xorBytes]
  | _ :: _, [], h => by simp at h
  | a :: as, b :: bs, h => by
    have := xorBytes_cancel as bs (by simpa using h)
    simp [xorBytes] at this ⊢
    refine ⟨?_, this⟩
    rw [BitVec.xor_assoc]; simp

theorem xorBytes_comm (a b : Bytes) : xorBytes a b = xorBytes b a := by
  induction a generalizing b with
  | nil => cases b <;> simp [xorBytes]
  | cons x xs ih =>
    cases b with
    | nil => simp [xorBytes]
    | cons y ys =>
      have := ih ys
      simp [xorBytes] at this ⊢
      exact ⟨BitVec.xor_comm _ _, this⟩

/-- `a ⊕ (a ⊕ b) = b` -/
theorem xorBytes_cancel_left (a b : Bytes) (h : b.length ≤ a.length) :
    xorBytes a (xorBytes a b) = b := by
  rw [xorBytes_comm a b, xorBytes_comm a, xorBytes_cancel b a h]

theorem xorBytes_append (a₁ a₂ b₁ b₂ : Bytes) (h : a₁.length = b₁.length) :
    xorBytes (a₁ ++ a₂) (b₁ ++ b₂) = xorBytes a₁ b₁ ++ xorBytes a₂ b₂ := by
  simp [xorBytes, List.zipWith_append h]

/-! ## chunks -/

theorem chunksAux_cons (n : Nat) (hn : 0 < n) (a rest : Bytes) (ha : a.length = n) :
    ∀ fuel, rest.length ≤ fuel → chunksAux n (fuel + 1) (a ++ rest) = a :: chunksAux n fuel rest := by
  intro fuel _
  cases a with
  | nil => simp at ha; omega
  | cons x xs =>
    simp only [List.cons_append, chunksAux]
    have h1 : (x :: (xs ++ rest)).take n = x :: xs := by
      rw [← List.cons_append, List.take_append_of_le_length (by simp [ha])]
      simp [← ha]
    have h2 : (x :: (xs ++ rest)).drop n = rest := by
      rw [← List.cons_append, List.drop_append_of_le_length (by simp [ha])]
      simp [← ha]
    rw [h1, h2]

/-- more fuel than bytes changes nothing -/
theorem chunksAux_fuel2 (n : Nat) (hn : 0 < n) : ∀ (f1 f2 : Nat) (l : Bytes), l.length ≤ f1 →
    l.length ≤ f2 → chunksAux n f1 l = chunksAux n f2 l := by
  intro f1
  induction f1 with
  | zero =>
    intro f2 l h _
    have : l = [] := by simpa using h
    subst this
    cases f2 <;> rfl
  | succ f ih =>
    intro f2 l h1 h2
    cases l with
    | nil => cases f2 <;> rfl
    | cons x xs =>
      cases f2 with
      | zero => simp at h2
      | succ g =>
        have hd : ((x :: xs).drop n).length ≤ xs.length := by simp; omega
        simp only [chunksAux]
        rw [ih g ((x :: xs).drop n) (by simp at h1 hd ⊢; omega) (by simp at h2 hd ⊢; omega)]

theorem chunksAux_fuel (n : Nat) (hn : 0 < n) (fuel : Nat) (l : Bytes) (h : l.length ≤ fuel) :
    chunksAux n fuel l = chunksAux n l.length l :=
  chunksAux_fuel2 n hn fuel l.length l h (Nat.le_refl _)

theorem chunks_cons (n : Nat) (hn : 0 < n) (a rest : Bytes) (ha : a.length = n) :
    chunks n (a ++ rest) = a :: chunks n rest := by
  unfold chunks
  have : (a ++ rest).length = (rest.length + (n - 1)) + 1 := by simp [ha]; omega
  rw [this, chunksAux_cons n hn a rest ha _ (by omega), chunksAux_fuel n hn _ rest (by omega)]

theorem chunks_nil (n : Nat) : chunks n [] = [] := rfl

/-- a buffer whose length is a multiple of `n` splits into a first block and a rest
that is again a multiple -/
theorem split_block (n : Nat) (hn : 0 < n) (l : Bytes) (hl : l.length % n = 0) (hne : l ≠ []) :
    ∃ a rest, l = a ++ rest ∧ a.length = n ∧ rest.length % n = 0 ∧ rest.length < l.length := by
  have hlen : n ≤ l.length := by
    have : 0 < l.length := List.length_pos_iff.mpr hne
    rcases Nat.lt_or_ge l.length n with h | h
    · rw [Nat.mod_eq_of_lt h] at hl; omega
    · exact h
  refine ⟨l.take n, l.drop n, (List.take_append_drop n l).symm, by simp; omega, ?_, by simp; omega⟩
  simp only [List.length_drop]
  have := Nat.sub_mod_eq_zero_of_mod_eq (m := l.length) (n := n) (k := n) (by simp [hl])
  simpa using this

/-- induction principle: buffers that are a whole number of blocks -/
theorem blocks_induction (n : Nat) (hn : 0 < n) (P : Bytes → Prop) (h0 : P [])
    (hstep : ∀ a rest, a.length = n → rest.length % n = 0 → P rest → P (a ++ rest)) :
    ∀ l : Bytes, l.length % n = 0 → P l := by
  have key : ∀ k : Nat, ∀ l : Bytes, l.length = k → l.length % n = 0 → P l := by
    intro k
    induction k using Nat.strongRecOn with
    | ind k ih =>
      intro l hk hl
      by_cases hne : l = []
      · subst hne; exact h0
      · obtain ⟨a, rest, rfl, ha, hr, hlt⟩ := split_block n hn l hl hne
        exact hstep a rest ha hr (ih rest.length (by omega) rest rfl hr)
  intro l hl
  exact key l.length l rfl hl

theorem chunks_flatten (n : Nat) (hn : 0 < n) (l : Bytes) (hl : l.length % n = 0) :
    (chunks n l).flatten = l := by
  refine blocks_induction n hn (fun l => (chunks n l).flatten = l) rfl ?_ l hl
  intro a rest ha _ ih
  simp [chunks_cons n hn a rest ha, ih]

theorem chunks_all_len (n : Nat) (hn : 0 < n) (l : Bytes) (hl : l.length % n = 0) :
    ∀ c ∈ chunks n l, c.length = n := by
  refine blocks_induction n hn (fun l => ∀ c ∈ chunks n l, c.length = n) (by simp [chunks_nil]) ?_ l hl
  intro a rest ha _ ih c hc
  rw [chunks_cons n hn a rest ha] at hc
  rcases List.mem_cons.mp hc with rfl | h
  · exact ha
  · exact ih c h

theorem chunks_append (n : Nat) (hn : 0 < n) (a b : Bytes) (ha : a.length % n = 0) :
    chunks n (a ++ b) = chunks n a ++ chunks n b := by
  refine blocks_induction n hn (fun a => chunks n (a ++ b) = chunks n a ++ chunks n b) (by simp [chunks_nil]) ?_ a ha
  intro x rest hx _ ih
  rw [List.append_assoc, chunks_cons n hn x _ hx, chunks_cons n hn x _ hx, ih]
  rfl

/-- cutting a list of full blocks back into blocks gives the list -/
theorem chunks_of_flatten (n : Nat) (hn : 0 < n) : ∀ (bl : List Bytes), (∀ b ∈ bl, b.length = n) →
    chunks n bl.flatten = bl
  | [], _ => rfl
  | b :: bl, h => by
    rw [List.flatten_cons, chunks_cons n hn b _ (h b (by simp)),
      chunks_of_flatten n hn bl (fun c hc => h c (by simp [hc]))]

theorem flatten_len_mod (n : Nat) : ∀ (bl : List Bytes), (∀ b ∈ bl, b.length = n) →
    bl.flatten.length % n = 0
  | [], _ => by simp
  | b :: bl, h => by
    have := flatten_len_mod n bl (fun c hc => h c (by simp [hc]))
    rw [List.flatten_cons, List.length_append, h b (by simp), Nat.add_mod_left]
    exact this

/-! ## ECB -/

theorem ecbLoop_append (F : Bytes → Bytes) (bs : Nat) (hbs : 0 < bs) (a b : Bytes)
    (ha : a.length % bs = 0) : ecbLoop F bs (a ++ b) = ecbLoop F bs a ++ ecbLoop F bs b := by
  simp [ecbLoop, chunks_append bs hbs a b ha]

theorem ecbLoop_length (F : Bytes → Bytes) (bs : Nat) (hbs : 0 < bs)
    (hF : ∀ b, b.length = bs → (F b).length = bs) (l : Bytes) (hl : l.length % bs = 0) :
    (ecbLoop F bs l).length = l.length := by
  refine blocks_induction bs hbs (fun l => (ecbLoop F bs l).length = l.length) (by simp [ecbLoop, chunks_nil]) ?_ l hl
  intro a rest ha hr ih
  rw [ecbLoop_append F bs hbs a rest (by simp [ha])]
  have : ecbLoop F bs a = F a := by
    have := chunks_cons bs hbs a [] ha
    simp [chunks_nil] at this
    simp [ecbLoop, this]
  simp [this, hF a ha, ha, ih]

theorem ecbLoop_block (F : Bytes → Bytes) (bs : Nat) (hbs : 0 < bs) (a : Bytes) (ha : a.length = bs) :
    ecbLoop F bs a = F a := by
  have := chunks_cons bs hbs a [] ha
  simp [chunks_nil] at this
  simp [ecbLoop, this]

theorem ecbLoop_roundtrip (E D : Bytes → Bytes) (bs : Nat) (hbs : 0 < bs)
    (hE : ∀ b, b.length = bs → (E b).length = bs)
    (hDE : ∀ b, b.length = bs → D (E b) = b) (l : Bytes) (hl : l.length % bs = 0) :
    ecbLoop D bs (ecbLoop E bs l) = l := by
  refine blocks_induction bs hbs (fun l => ecbLoop D bs (ecbLoop E bs l) = l) (by simp [ecbLoop, chunks_nil]) ?_ l hl
  intro a rest ha hr ih
  rw [ecbLoop_append E bs hbs a rest (by simp [ha]), ecbLoop_block E bs hbs a ha,
    ecbLoop_append D bs hbs _ _ (by simp [hE a ha]), ecbLoop_block D bs hbs _ (hE a ha), hDE a ha, ih]

/-! ## CBC -/

theorem cbcEncBlocks_append (F : Bytes → Bytes) (xs ys : List Bytes) : ∀ iv,
    cbcEncBlocks F iv (xs ++ ys) =
      ((cbcEncBlocks F iv xs).1 ++ (cbcEncBlocks F (cbcEncBlocks F iv xs).2 ys).1,
       (cbcEncBlocks F (cbcEncBlocks F iv xs).2 ys).2) := by
  induction xs with
  | nil => intro iv; simp [cbcEncBlocks]
  | cons x xs ih => intro iv; simp [cbcEncBlocks, ih]

theorem cbcDecBlocks_append (F : Bytes → Bytes) (xs ys : List Bytes) : ∀ iv,
    cbcDecBlocks F iv (xs ++ ys) =
      ((cbcDecBlocks F iv xs).1 ++ (cbcDecBlocks F (cbcDecBlocks F iv xs).2 ys).1,
       (cbcDecBlocks F (cbcDecBlocks F iv xs).2 ys).2) := by
  induction xs with
  | nil => intro iv; simp [cbcDecBlocks]
  | cons x xs ih => intro iv; simp [cbcDecBlocks, ih]

/-- the model's CBC encryption loop is SP 800-38A §6.2 -/
theorem cbcEnc_eq_spec (E : Bytes → Bytes) : ∀ (blocks : List Bytes) (iv : Bytes),
    (cbcEncBlocks E iv blocks).1 = (Spec.cbcEnc E iv blocks).flatten
  | [], _ => rfl
  | p :: ps, iv => by
    simp [cbcEncBlocks, Spec.cbcEnc, xorBytes_comm iv p, cbcEnc_eq_spec E ps]

theorem cbcDec_eq_spec (D : Bytes → Bytes) : ∀ (blocks : List Bytes) (iv : Bytes),
    (cbcDecBlocks D iv blocks).1 = (Spec.cbcDec D iv blocks).flatten
  | [], _ => rfl
  | c :: cs, iv => by
    simp [cbcDecBlocks, Spec.cbcDec, cbcDec_eq_spec D cs]

/-- the ciphertext blocks of a CBC encryption all have the block length -/
theorem specCbcEnc_len (E : Bytes → Bytes) (bs : Nat)
    (hE : ∀ b, b.length = bs → (E b).length = bs) : ∀ (blocks : List Bytes) (iv : Bytes),
    iv.length = bs → (∀ b ∈ blocks, b.length = bs) → ∀ c ∈ Spec.cbcEnc E iv blocks, c.length = bs
  | [], _, _, _ => by simp [Spec.cbcEnc]
  | p :: ps, iv, hiv, h => by
    have hp := h p (by simp)
    have hc : (E (xorBytes p iv)).length = bs := hE _ (by simp [xorBytes_length, hp, hiv])
    intro c hcm
    simp only [Spec.cbcEnc, List.mem_cons] at hcm
    rcases hcm with rfl | hcm
    · exact hc
    · exact specCbcEnc_len E bs hE ps _ hc (fun b hb => h b (by simp [hb])) c hcm

/-- block-level CBC round trip, with the final chaining value -/
theorem specCbc_roundtrip (E D : Bytes → Bytes) (bs : Nat)
    (hE : ∀ b, b.length = bs → (E b).length = bs)
    (hDE : ∀ b, b.length = bs → D (E b) = b) : ∀ (blocks : List Bytes) (iv : Bytes),
    iv.length = bs → (∀ b ∈ blocks, b.length = bs) →
    Spec.cbcDec D iv (Spec.cbcEnc E iv blocks) = blocks
  | [], _, _, _ => rfl
  | p :: ps, iv, hiv, h => by
    have hp := h p (by simp)
    have hx : (xorBytes p iv).length = bs := by simp [xorBytes_length, hp, hiv]
    simp only [Spec.cbcEnc, Spec.cbcDec]
    rw [hDE _ hx, xorBytes_cancel p iv (by omega),
      specCbc_roundtrip E D bs hE hDE ps _ (hE _ hx) (fun b hb => h b (by simp [hb]))]

/-! ## CFB / OFB / CTR: chunking -/

theorem cfbLoop_append (F : Bytes → Bytes) (bs : Nat) (enc : Bool) (xs ys : Bytes) : ∀ s,
    cfbLoop F bs enc s (xs ++ ys) =
      ((cfbLoop F bs enc s xs).1 ++ (cfbLoop F bs enc (cfbLoop F bs enc s xs).2 ys).1,
       (cfbLoop F bs enc (cfbLoop F bs enc s xs).2 ys).2) := by
  induction xs with
  | nil => intro s; simp [cfbLoop]
  | cons x xs ih => intro s; simp [cfbLoop, ih]

theorem ofbLoop_append (F : Bytes → Bytes) (bs : Nat) (xs ys : Bytes) : ∀ s,
    ofbLoop F bs s (xs ++ ys) =
      ((ofbLoop F bs s xs).1 ++ (ofbLoop F bs (ofbLoop F bs s xs).2 ys).1,
       (ofbLoop F bs (ofbLoop F bs s xs).2 ys).2) := by
  induction xs with
  | nil => intro s; simp [ofbLoop]
  | cons x xs ih => intro s; simp [ofbLoop, ih]

theorem ctrLoop_append (F : Bytes → Bytes) (bs : Nat) (xs ys : Bytes) : ∀ s,
    ctrLoop F bs s (xs ++ ys) =
      ((ctrLoop F bs s xs).1 ++ (ctrLoop F bs (ctrLoop F bs s xs).2 ys).1,
       (ctrLoop F bs (ctrLoop F bs s xs).2 ys).2) := by
  induction xs with
  | nil => intro s; simp [ctrLoop]
  | cons x xs ih => intro s; simp [ctrLoop, ih]

/-! ## CFB / OFB / CTR: decryption inverts encryption, from ANY state, and ends in the same state -/

theorem cfbLoop_roundtrip (F : Bytes → Bytes) (bs : Nat) (xs : Bytes) : ∀ s,
    cfbLoop F bs false s (cfbLoop F bs true s xs).1 = (xs, (cfbLoop F bs true s xs).2) := by
  induction xs with
  | nil => intro s; simp [cfbLoop]
  | cons x xs ih =>
    intro s
    have h1 : (cfbByte F bs false s (cfbByte F bs true s x).2).1 = (cfbByte F bs true s x).1 := by
      simp [cfbByte]
    have h2 : (cfbByte F bs false s (cfbByte F bs true s x).2).2 = x := by
      simp [cfbByte, BitVec.xor_assoc]
    simp [cfbLoop, h1, h2, ih]

/-- and the other way round: encrypting what CFB decryption produced gives the input back -/
theorem cfbLoop_roundtrip' (F : Bytes → Bytes) (bs : Nat) (xs : Bytes) : ∀ s,
    cfbLoop F bs true s (cfbLoop F bs false s xs).1 = (xs, (cfbLoop F bs false s xs).2) := by
  induction xs with
  | nil => intro s; simp [cfbLoop]
  | cons x xs ih =>
    intro s
    have h1 : (cfbByte F bs true s (cfbByte F bs false s x).2).1 = (cfbByte F bs false s x).1 := by
      simp [cfbByte, BitVec.xor_assoc]
    have h2 : (cfbByte F bs true s (cfbByte F bs false s x).2).2 = x := by
      simp [cfbByte, BitVec.xor_assoc]
    simp [cfbLoop, h1, h2, ih]

theorem ofbLoop_roundtrip (F : Bytes → Bytes) (bs : Nat) (xs : Bytes) : ∀ s,
    ofbLoop F bs s (ofbLoop F bs s xs).1 = (xs, (ofbLoop F bs s xs).2) := by
  induction xs with
  | nil => intro s; simp [ofbLoop]
  | cons x xs ih =>
    intro s
    have h1 : (ofbByte F bs s (ofbByte F bs s x).2).1 = (ofbByte F bs s x).1 := by simp [ofbByte]
    have h2 : (ofbByte F bs s (ofbByte F bs s x).2).2 = x := by simp [ofbByte, BitVec.xor_assoc]
    simp [ofbLoop, h1, h2, ih]

theorem ctrLoop_roundtrip (F : Bytes → Bytes) (bs : Nat) (xs : Bytes) : ∀ s,
    ctrLoop F bs s (ctrLoop F bs s xs).1 = (xs, (ctrLoop F bs s xs).2) := by
  induction xs with
  | nil => intro s; simp [ctrLoop]
  | cons x xs ih =>
    intro s
    have h1 : (ctrByte F bs s (ctrByte F bs s x).2).1 = (ctrByte F bs s x).1 := by simp [ctrByte]
    have h2 : (ctrByte F bs s (ctrByte F bs s x).2).2 = x := by simp [ctrByte, BitVec.xor_assoc]
    simp [ctrLoop, h1, h2, ih]

theorem cfbLoop_length (F : Bytes → Bytes) (bs : Nat) (enc : Bool) (xs : Bytes) : ∀ s,
    (cfbLoop F bs enc s xs).1.length = xs.length := by
  induction xs with
  | nil => intro s; simp [cfbLoop]
  | cons x xs ih => intro s; simp [cfbLoop, ih]

theorem ofbLoop_length (F : Bytes → Bytes) (bs : Nat) (xs : Bytes) : ∀ s,
    (ofbLoop F bs s xs).1.length = xs.length := by
  induction xs with
  | nil => intro s; simp [ofbLoop]
  | cons x xs ih => intro s; simp [ofbLoop, ih]

theorem ctrLoop_length (F : Bytes → Bytes) (bs : Nat) (xs : Bytes) : ∀ s,
    (ctrLoop F bs s xs).1.length = xs.length := by
  induction xs with
  | nil => intro s; simp [ctrLoop]
  | cons x xs ih => intro s; simp [ctrLoop, ih]

end MgProof.C12
