import MgModel.C12.Ciphers
namespace MgProof.C12
end MgProof.C12
