import MgModel.C12.Ciphers
import MgProof.C12.Lemmas
/-!
# C12 — AES (FIPS-197): `InvCipher ∘ Cipher = id` for every key schedule

Ingredients: `InvSubBytes ∘ SubBytes = id` (the two 256-entry tables, `decide`),
`InvShiftRows ∘ ShiftRows = id` (16 positions), `InvMixColumns ∘ MixColumns = id`
(GF(2)-linearity of `xtime` + four byte identities checked on all 256 bytes),
`AddRoundKey` is an involution, and an induction over the list of round keys.
-/
namespace MgProof.C12
open MgModel.C12 MgModel.C12.Aes

/-! ## SubBytes -/

set_option maxRecDepth 100000 in
theorem invSub_sub_nat : ∀ n, n < 256 → invSub (sub (BitVec.ofNat 8 n)) = BitVec.ofNat 8 n := by
  decide

theorem invSub_sub (b : Byte) : invSub (sub b) = b := by
  have := invSub_sub_nat b.toNat b.isLt
  simpa using this

set_option maxRecDepth 100000 in
theorem sub_invSub_nat : ∀ n, n < 256 → sub (invSub (BitVec.ofNat 8 n)) = BitVec.ofNat 8 n := by
  decide

theorem sub_invSub (b : Byte) : sub (invSub b) = b := by
  have := sub_invSub_nat b.toNat b.isLt
  simpa using this

theorem invSubBytes_subBytes (s : Bytes) : invSubBytes (subBytes s) = s := by
  simp [invSubBytes, subBytes, Function.comp_def, invSub_sub]

/-! ## MixColumns -/

theorem xtime_xor (a b : Byte) : xtime (a ^^^ b) = xtime a ^^^ xtime b := by
  unfold xtime
  rw [BitVec.msb_xor, BitVec.shiftLeft_xor_distrib]
  cases a.msb <;> cases b.msb <;> simp
  · ac_rfl
  · ac_rfl
  · rw [show ∀ p q k : Byte, p ^^^ k ^^^ (q ^^^ k) = p ^^^ q ^^^ (k ^^^ k) from by intros; ac_rfl]
    simp

theorem gmulAux_xor (fuel a : Nat) : ∀ x y : Byte,
    gmulAux fuel a (x ^^^ y) = gmulAux fuel a x ^^^ gmulAux fuel a y := by
  induction fuel generalizing a with
  | zero => intro x y; simp [gmulAux]
  | succ f ih =>
    intro x y
    simp only [gmulAux, xtime_xor, ih]
    split
    · ac_rfl
    · simp

/-- multiplication by a constant of GF(2^8) is additive -/
theorem gmul_xor (a : Nat) (x y : Byte) : gmul a (x ^^^ y) = gmul a x ^^^ gmul a y :=
  gmulAux_xor 8 a x y

/-- regrouping a 4x4 matrix-vector product: additive `f`s applied to rows -/
theorem regroup (f0 f1 f2 f3 : Byte → Byte)
    (h0 : ∀ x y, f0 (x ^^^ y) = f0 x ^^^ f0 y) (h1 : ∀ x y, f1 (x ^^^ y) = f1 x ^^^ f1 y)
    (h2 : ∀ x y, f2 (x ^^^ y) = f2 x ^^^ f2 y) (h3 : ∀ x y, f3 (x ^^^ y) = f3 x ^^^ f3 y)
    (p0 p1 p2 p3 q0 q1 q2 q3 r0 r1 r2 r3 s0 s1 s2 s3 : Byte) :
    f0 (p0 ^^^ p1 ^^^ p2 ^^^ p3) ^^^ f1 (q0 ^^^ q1 ^^^ q2 ^^^ q3) ^^^ f2 (r0 ^^^ r1 ^^^ r2 ^^^ r3)
      ^^^ f3 (s0 ^^^ s1 ^^^ s2 ^^^ s3) =
    (f0 p0 ^^^ f1 q0 ^^^ f2 r0 ^^^ f3 s0) ^^^ (f0 p1 ^^^ f1 q1 ^^^ f2 r1 ^^^ f3 s1) ^^^
    (f0 p2 ^^^ f1 q2 ^^^ f2 r2 ^^^ f3 s2) ^^^ (f0 p3 ^^^ f1 q3 ^^^ f2 r3 ^^^ f3 s3) := by
  simp only [h0, h1, h2, h3]
  ac_rfl

set_option maxRecDepth 100000 in
/-- the four entries of one row of `M⁻¹ · M` over GF(2^8), on every byte: the products
`{0e·02, 0b, 0d, 09·03}` sum to the identity, the three others to zero (FIPS-197 §5.3.3) -/
theorem mixid_nat : ∀ n, n < 256 →
    (let x := BitVec.ofNat 8 n
     gmul 14 (gmul 2 x) ^^^ gmul 11 x ^^^ gmul 13 x ^^^ gmul 9 (gmul 3 x) = x ∧
     gmul 14 (gmul 3 x) ^^^ gmul 11 (gmul 2 x) ^^^ gmul 13 x ^^^ gmul 9 x = 0 ∧
     gmul 14 x ^^^ gmul 11 (gmul 3 x) ^^^ gmul 13 (gmul 2 x) ^^^ gmul 9 x = 0 ∧
     gmul 14 x ^^^ gmul 11 x ^^^ gmul 13 (gmul 3 x) ^^^ gmul 9 (gmul 2 x) = 0) := by
  decide

theorem S1 (x : Byte) : gmul 14 (gmul 2 x) ^^^ gmul 11 x ^^^ gmul 13 x ^^^ gmul 9 (gmul 3 x) = x := by
  have := (mixid_nat x.toNat x.isLt).1; simpa using this
theorem S2 (x : Byte) : gmul 14 (gmul 3 x) ^^^ gmul 11 (gmul 2 x) ^^^ gmul 13 x ^^^ gmul 9 x = 0 := by
  have := (mixid_nat x.toNat x.isLt).2.1; simpa using this
theorem S3 (x : Byte) : gmul 14 x ^^^ gmul 11 (gmul 3 x) ^^^ gmul 13 (gmul 2 x) ^^^ gmul 9 x = 0 := by
  have := (mixid_nat x.toNat x.isLt).2.2.1; simpa using this
theorem S4 (x : Byte) : gmul 14 x ^^^ gmul 11 x ^^^ gmul 13 (gmul 3 x) ^^^ gmul 9 (gmul 2 x) = 0 := by
  have := (mixid_nat x.toNat x.isLt).2.2.2; simpa using this

/-- `InvMixColumns ∘ MixColumns = id` on one column, for all 2^32 columns -/
theorem invMixCol_mixCol (a0 a1 a2 a3 : Byte) :
    invMixCol (gmul 2 a0 ^^^ gmul 3 a1 ^^^ a2 ^^^ a3)
      (a0 ^^^ gmul 2 a1 ^^^ gmul 3 a2 ^^^ a3)
      (a0 ^^^ a1 ^^^ gmul 2 a2 ^^^ gmul 3 a3)
      (gmul 3 a0 ^^^ a1 ^^^ a2 ^^^ gmul 2 a3) = [a0, a1, a2, a3] := by
  unfold invMixCol
  rw [regroup (gmul 14) (gmul 11) (gmul 13) (gmul 9) (gmul_xor _) (gmul_xor _) (gmul_xor _) (gmul_xor _)]
  have g00 : gmul 14 (gmul 2 a0) ^^^ gmul 11 a0 ^^^ gmul 13 a0 ^^^ gmul 9 (gmul 3 a0) = a0 := by
    rw [show gmul 14 (gmul 2 a0) ^^^ gmul 11 a0 ^^^ gmul 13 a0 ^^^ gmul 9 (gmul 3 a0) = gmul 14 (gmul 2 a0) ^^^ gmul 11 a0 ^^^ gmul 13 a0 ^^^ gmul 9 (gmul 3 a0) from by ac_rfl]; exact S1 a0
  have g01 : gmul 14 (gmul 3 a1) ^^^ gmul 11 (gmul 2 a1) ^^^ gmul 13 a1 ^^^ gmul 9 a1 = 0 := by
    rw [show gmul 14 (gmul 3 a1) ^^^ gmul 11 (gmul 2 a1) ^^^ gmul 13 a1 ^^^ gmul 9 a1 = gmul 14 (gmul 3 a1) ^^^ gmul 11 (gmul 2 a1) ^^^ gmul 13 a1 ^^^ gmul 9 a1 from by ac_rfl]; exact S2 a1
  have g02 : gmul 14 a2 ^^^ gmul 11 (gmul 3 a2) ^^^ gmul 13 (gmul 2 a2) ^^^ gmul 9 a2 = 0 := by
    rw [show gmul 14 a2 ^^^ gmul 11 (gmul 3 a2) ^^^ gmul 13 (gmul 2 a2) ^^^ gmul 9 a2 = gmul 14 a2 ^^^ gmul 11 (gmul 3 a2) ^^^ gmul 13 (gmul 2 a2) ^^^ gmul 9 a2 from by ac_rfl]; exact S3 a2
  have g03 : gmul 14 a3 ^^^ gmul 11 a3 ^^^ gmul 13 (gmul 3 a3) ^^^ gmul 9 (gmul 2 a3) = 0 := by
    rw [show gmul 14 a3 ^^^ gmul 11 a3 ^^^ gmul 13 (gmul 3 a3) ^^^ gmul 9 (gmul 2 a3) = gmul 14 a3 ^^^ gmul 11 a3 ^^^ gmul 13 (gmul 3 a3) ^^^ gmul 9 (gmul 2 a3) from by ac_rfl]; exact S4 a3
  rw [g00, g01, g02, g03]
  rw [regroup (gmul 9) (gmul 14) (gmul 11) (gmul 13) (gmul_xor _) (gmul_xor _) (gmul_xor _) (gmul_xor _)]
  have g10 : gmul 9 (gmul 2 a0) ^^^ gmul 14 a0 ^^^ gmul 11 a0 ^^^ gmul 13 (gmul 3 a0) = 0 := by
    rw [show gmul 9 (gmul 2 a0) ^^^ gmul 14 a0 ^^^ gmul 11 a0 ^^^ gmul 13 (gmul 3 a0) = gmul 14 a0 ^^^ gmul 11 a0 ^^^ gmul 13 (gmul 3 a0) ^^^ gmul 9 (gmul 2 a0) from by ac_rfl]; exact S4 a0
  have g11 : gmul 9 (gmul 3 a1) ^^^ gmul 14 (gmul 2 a1) ^^^ gmul 11 a1 ^^^ gmul 13 a1 = a1 := by
    rw [show gmul 9 (gmul 3 a1) ^^^ gmul 14 (gmul 2 a1) ^^^ gmul 11 a1 ^^^ gmul 13 a1 = gmul 14 (gmul 2 a1) ^^^ gmul 11 a1 ^^^ gmul 13 a1 ^^^ gmul 9 (gmul 3 a1) from by ac_rfl]; exact S1 a1
  have g12 : gmul 9 a2 ^^^ gmul 14 (gmul 3 a2) ^^^ gmul 11 (gmul 2 a2) ^^^ gmul 13 a2 = 0 := by
    rw [show gmul 9 a2 ^^^ gmul 14 (gmul 3 a2) ^^^ gmul 11 (gmul 2 a2) ^^^ gmul 13 a2 = gmul 14 (gmul 3 a2) ^^^ gmul 11 (gmul 2 a2) ^^^ gmul 13 a2 ^^^ gmul 9 a2 from by ac_rfl]; exact S2 a2
  have g13 : gmul 9 a3 ^^^ gmul 14 a3 ^^^ gmul 11 (gmul 3 a3) ^^^ gmul 13 (gmul 2 a3) = 0 := by
    rw [show gmul 9 a3 ^^^ gmul 14 a3 ^^^ gmul 11 (gmul 3 a3) ^^^ gmul 13 (gmul 2 a3) = gmul 14 a3 ^^^ gmul 11 (gmul 3 a3) ^^^ gmul 13 (gmul 2 a3) ^^^ gmul 9 a3 from by ac_rfl]; exact S3 a3
  rw [g10, g11, g12, g13]
  rw [regroup (gmul 13) (gmul 9) (gmul 14) (gmul 11) (gmul_xor _) (gmul_xor _) (gmul_xor _) (gmul_xor _)]
  have g20 : gmul 13 (gmul 2 a0) ^^^ gmul 9 a0 ^^^ gmul 14 a0 ^^^ gmul 11 (gmul 3 a0) = 0 := by
    rw [show gmul 13 (gmul 2 a0) ^^^ gmul 9 a0 ^^^ gmul 14 a0 ^^^ gmul 11 (gmul 3 a0) = gmul 14 a0 ^^^ gmul 11 (gmul 3 a0) ^^^ gmul 13 (gmul 2 a0) ^^^ gmul 9 a0 from by ac_rfl]; exact S3 a0
  have g21 : gmul 13 (gmul 3 a1) ^^^ gmul 9 (gmul 2 a1) ^^^ gmul 14 a1 ^^^ gmul 11 a1 = 0 := by
    rw [show gmul 13 (gmul 3 a1) ^^^ gmul 9 (gmul 2 a1) ^^^ gmul 14 a1 ^^^ gmul 11 a1 = gmul 14 a1 ^^^ gmul 11 a1 ^^^ gmul 13 (gmul 3 a1) ^^^ gmul 9 (gmul 2 a1) from by ac_rfl]; exact S4 a1
  have g22 : gmul 13 a2 ^^^ gmul 9 (gmul 3 a2) ^^^ gmul 14 (gmul 2 a2) ^^^ gmul 11 a2 = a2 := by
    rw [show gmul 13 a2 ^^^ gmul 9 (gmul 3 a2) ^^^ gmul 14 (gmul 2 a2) ^^^ gmul 11 a2 = gmul 14 (gmul 2 a2) ^^^ gmul 11 a2 ^^^ gmul 13 a2 ^^^ gmul 9 (gmul 3 a2) from by ac_rfl]; exact S1 a2
  have g23 : gmul 13 a3 ^^^ gmul 9 a3 ^^^ gmul 14 (gmul 3 a3) ^^^ gmul 11 (gmul 2 a3) = 0 := by
    rw [show gmul 13 a3 ^^^ gmul 9 a3 ^^^ gmul 14 (gmul 3 a3) ^^^ gmul 11 (gmul 2 a3) = gmul 14 (gmul 3 a3) ^^^ gmul 11 (gmul 2 a3) ^^^ gmul 13 a3 ^^^ gmul 9 a3 from by ac_rfl]; exact S2 a3
  rw [g20, g21, g22, g23]
  rw [regroup (gmul 11) (gmul 13) (gmul 9) (gmul 14) (gmul_xor _) (gmul_xor _) (gmul_xor _) (gmul_xor _)]
  have g30 : gmul 11 (gmul 2 a0) ^^^ gmul 13 a0 ^^^ gmul 9 a0 ^^^ gmul 14 (gmul 3 a0) = 0 := by
    rw [show gmul 11 (gmul 2 a0) ^^^ gmul 13 a0 ^^^ gmul 9 a0 ^^^ gmul 14 (gmul 3 a0) = gmul 14 (gmul 3 a0) ^^^ gmul 11 (gmul 2 a0) ^^^ gmul 13 a0 ^^^ gmul 9 a0 from by ac_rfl]; exact S2 a0
  have g31 : gmul 11 (gmul 3 a1) ^^^ gmul 13 (gmul 2 a1) ^^^ gmul 9 a1 ^^^ gmul 14 a1 = 0 := by
    rw [show gmul 11 (gmul 3 a1) ^^^ gmul 13 (gmul 2 a1) ^^^ gmul 9 a1 ^^^ gmul 14 a1 = gmul 14 a1 ^^^ gmul 11 (gmul 3 a1) ^^^ gmul 13 (gmul 2 a1) ^^^ gmul 9 a1 from by ac_rfl]; exact S3 a1
  have g32 : gmul 11 a2 ^^^ gmul 13 (gmul 3 a2) ^^^ gmul 9 (gmul 2 a2) ^^^ gmul 14 a2 = 0 := by
    rw [show gmul 11 a2 ^^^ gmul 13 (gmul 3 a2) ^^^ gmul 9 (gmul 2 a2) ^^^ gmul 14 a2 = gmul 14 a2 ^^^ gmul 11 a2 ^^^ gmul 13 (gmul 3 a2) ^^^ gmul 9 (gmul 2 a2) from by ac_rfl]; exact S4 a2
  have g33 : gmul 11 a3 ^^^ gmul 13 a3 ^^^ gmul 9 (gmul 3 a3) ^^^ gmul 14 (gmul 2 a3) = a3 := by
    rw [show gmul 11 a3 ^^^ gmul 13 a3 ^^^ gmul 9 (gmul 3 a3) ^^^ gmul 14 (gmul 2 a3) = gmul 14 (gmul 2 a3) ^^^ gmul 11 a3 ^^^ gmul 13 a3 ^^^ gmul 9 (gmul 3 a3) from by ac_rfl]; exact S1 a3
  rw [g30, g31, g32, g33]
  simp

theorem invMixColumns_mixColumns16 (a0 a1 a2 a3 a4 a5 a6 a7 a8 a9 a10 a11 a12 a13 a14 a15 : Byte) :
    invMixColumns (mixColumns [a0, a1, a2, a3, a4, a5, a6, a7, a8, a9, a10, a11, a12, a13, a14, a15]) =
      [a0, a1, a2, a3, a4, a5, a6, a7, a8, a9, a10, a11, a12, a13, a14, a15] := by
  simp only [mixColumns, mixCol, List.cons_append, List.nil_append, invMixColumns, invMixCol_mixCol]

/-! ## destructuring a 16-byte state -/

theorem list16 {α} (s : List α) (h : s.length = 16) :
    ∃ a0 a1 a2 a3 a4 a5 a6 a7 a8 a9 a10 a11 a12 a13 a14 a15,
      s = [a0, a1, a2, a3, a4, a5, a6, a7, a8, a9, a10, a11, a12, a13, a14, a15] := by
  match s, h with
  | [a0, a1, a2, a3, a4, a5, a6, a7, a8, a9, a10, a11, a12, a13, a14, a15], _ =>
    exact ⟨a0, a1, a2, a3, a4, a5, a6, a7, a8, a9, a10, a11, a12, a13, a14, a15, rfl⟩

theorem invMixColumns_mixColumns (s : Bytes) (h : s.length = 16) :
    invMixColumns (mixColumns s) = s := by
  obtain ⟨a0, a1, a2, a3, a4, a5, a6, a7, a8, a9, a10, a11, a12, a13, a14, a15, rfl⟩ := list16 s h
  exact invMixColumns_mixColumns16 ..

theorem mixColumns_length (s : Bytes) (h : s.length = 16) : (mixColumns s).length = 16 := by
  obtain ⟨a0, a1, a2, a3, a4, a5, a6, a7, a8, a9, a10, a11, a12, a13, a14, a15, rfl⟩ := list16 s h
  simp [mixColumns, mixCol]

/-! ## ShiftRows -/

theorem invShiftRows_shiftRows (s : Bytes) (h : s.length = 16) : invShiftRows (shiftRows s) = s := by
  obtain ⟨a0, a1, a2, a3, a4, a5, a6, a7, a8, a9, a10, a11, a12, a13, a14, a15, rfl⟩ := list16 s h
  rfl

theorem shiftRows_length (s : Bytes) : (shiftRows s).length = 16 := by
  simp [shiftRows, shiftIdx]

theorem subBytes_length (s : Bytes) : (subBytes s).length = s.length := by simp [subBytes]

theorem addRoundKey_length (k s : Bytes) (hk : k.length = 16) (hs : s.length = 16) :
    (addRoundKey k s).length = 16 := by simp [addRoundKey, xorBytes_length, hk, hs]

theorem addRoundKey_cancel (k s : Bytes) (hk : k.length = 16) (hs : s.length = 16) :
    addRoundKey k (addRoundKey k s) = s := by
  simp only [addRoundKey]; exact xorBytes_cancel s k (by omega)

/-! ## Cipher / InvCipher -/

/-- one full round / its inverse -/
def fullRound (k s : Bytes) : Bytes := addRoundKey k (mixColumns (shiftRows (subBytes s)))
def invFullRound (k t : Bytes) : Bytes := invMixColumns (addRoundKey k (invSubBytes (invShiftRows t)))

/-- rounds 1..Nr-1 -/
def mid : List Bytes → Bytes → Bytes
  | [], s => s
  | k :: ks, s => mid ks (fullRound k s)

def dmid : List Bytes → Bytes → Bytes
  | [], t => t
  | k :: ks, t => dmid ks (invFullRound k t)

theorem encRounds_cons (k : Bytes) (ks : List Bytes) (hks : ks ≠ []) (s : Bytes) :
    encRounds (k :: ks) s = encRounds ks (fullRound k s) := by
  cases ks with
  | nil => exact absurd rfl hks
  | cons k' ks' => rfl

theorem decRounds_cons (k : Bytes) (ks : List Bytes) (hks : ks ≠ []) (s : Bytes) :
    decRounds (k :: ks) s = decRounds ks (invFullRound k s) := by
  cases ks with
  | nil => exact absurd rfl hks
  | cons k' ks' => rfl

theorem encRounds_snoc (ks : List Bytes) (kN : Bytes) : ∀ s,
    encRounds (ks ++ [kN]) s = addRoundKey kN (shiftRows (subBytes (mid ks s))) := by
  induction ks with
  | nil => intro s; rfl
  | cons k ks ih =>
    intro s
    rw [List.cons_append, encRounds_cons k _ (by simp), ih]; rfl

theorem decRounds_snoc (ks : List Bytes) (k0 : Bytes) : ∀ t,
    decRounds (ks ++ [k0]) t = addRoundKey k0 (invSubBytes (invShiftRows (dmid ks t))) := by
  induction ks with
  | nil => intro t; rfl
  | cons k ks ih =>
    intro t
    rw [List.cons_append, decRounds_cons k _ (by simp), ih]; rfl

theorem dmid_append (a b : List Bytes) : ∀ t, dmid (a ++ b) t = dmid b (dmid a t) := by
  induction a with
  | nil => intro t; rfl
  | cons k a ih => intro t; simp [dmid, ih]

theorem fullRound_length (k s : Bytes) (hk : k.length = 16) : (fullRound k s).length = 16 :=
  addRoundKey_length k _ hk (mixColumns_length _ (shiftRows_length _))

theorem invFullRound_fullRound (k s : Bytes) (hk : k.length = 16) (hs : s.length = 16) :
    invSubBytes (invShiftRows (invMixColumns (addRoundKey k (fullRound k s)))) = s := by
  unfold fullRound
  rw [addRoundKey_cancel k _ hk (mixColumns_length _ (shiftRows_length _)),
    invMixColumns_mixColumns _ (shiftRows_length _),
    invShiftRows_shiftRows _ (by rw [subBytes_length]; exact hs), invSubBytes_subBytes]

theorem mid_undo : ∀ (ks : List Bytes) (s : Bytes), (∀ k ∈ ks, k.length = 16) → s.length = 16 →
    invSubBytes (invShiftRows (dmid ks.reverse (shiftRows (subBytes (mid ks s))))) = s := by
  intro ks
  induction ks with
  | nil =>
    intro s _ hs
    simp only [mid, List.reverse_nil, dmid]
    rw [invShiftRows_shiftRows _ (by rw [subBytes_length]; exact hs), invSubBytes_subBytes]
  | cons k ks ih =>
    intro s hks hs
    have hk : k.length = 16 := hks k (by simp)
    simp only [mid, List.reverse_cons, dmid_append, dmid, invFullRound]
    rw [ih (fullRound k s) (fun k' h => hks k' (by simp [h])) (fullRound_length k s hk)]
    exact invFullRound_fullRound k s hk hs

/-- **FIPS-197: `InvCipher(Cipher(in, w), w) = in`** for every list of 16-byte round keys -/
theorem invCipher_cipher (rks : List Bytes) (b : Bytes) (hk : ∀ k ∈ rks, k.length = 16)
    (hb : b.length = 16) : invCipher rks (cipher rks b) = b := by
  cases rks with
  | nil => rfl
  | cons k0 ks =>
    have hk0 : k0.length = 16 := hk k0 (by simp)
    rcases List.eq_nil_or_concat ks with rfl | ⟨ks', kN, rfl⟩
    · simp only [cipher, encRounds, invCipher, List.reverse_cons, List.reverse_nil, List.nil_append, decRounds]
      exact addRoundKey_cancel k0 b hk0 hb
    · have hkN : kN.length = 16 := hk kN (by simp)
      have hks' : ∀ k ∈ ks', k.length = 16 := fun k h => hk k (by simp [h])
      simp only [cipher, invCipher, List.concat_eq_append, encRounds_snoc, List.reverse_cons,
        List.reverse_append, List.reverse_nil, List.nil_append, List.cons_append]
      show decRounds (ks'.reverse ++ [k0]) _ = b
      rw [decRounds_snoc, addRoundKey_cancel kN _ hkN (shiftRows_length _),
        mid_undo ks' _ hks' (addRoundKey_length k0 b hk0 hb)]
      exact addRoundKey_cancel k0 b hk0 hb

end MgProof.C12
