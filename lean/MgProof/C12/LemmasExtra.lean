import MgProof.C12.LemmasDes
import MgProof.C12.LemmasAes
/-!
# C12 — two facts that shrink the trusted part: the 3DES single-IP/FP shortcut of the
compiled code is sound, its SP tables are `P ∘ S_i`, and the AES S-box table is the algebraic
S-box of FIPS-197
-/
namespace MgProof.C12
open MgModel.C12 MgModel.C12.Des MgModel.C12.Tables

/-! ## Triple-DES the way `muggle_openssl_tdes_crypt` does it: IP once, 3 x 16 rounds, IP⁻¹ once -/

/-- 16 rounds and the final swap of the halves, on an already permuted block -/
def core (ks : List Bits) (y : Bits) : Bits :=
  let lr := feistel ks (y.take 32, y.drop 32)
  lr.2 ++ lr.1

theorem cryptBits_eq_core (ks : List Bits) (x : Bits) :
    cryptBits ks x = permute desFP (core ks (permute desIP x)) := by
  simp only [cryptBits, core]

theorem core_length (ks : List Bits) (y : Bits) (hy : y.length = 64) : (core ks y).length = 64 := by
  obtain ⟨h1, h2⟩ := feistel_length ks (y.take 32) (y.drop 32) (by simp [hy]) (by simp [hy])
  simp [core, h1, h2]

/-- **the inner `IP ∘ IP⁻¹` pairs of three chained DES operations cancel**: one initial
permutation, three 16-round cores, one final permutation compute `DES_K3 ∘ DES_K2 ∘ DES_K1`
(this is the shortcut `muggle_openssl_tdes_crypt` takes). -/
theorem tdes_single_ip_fp (ks1 ks2 ks3 : List Bits) (x : Bits) :
    permute desFP (core ks3 (core ks2 (core ks1 (permute desIP x)))) =
      cryptBits ks3 (cryptBits ks2 (cryptBits ks1 x)) := by
  have h0 : (permute desIP x).length = 64 := by rw [permute_length]; decide
  have h1 := core_length ks1 _ h0
  have h2 := core_length ks2 _ h1
  rw [cryptBits_eq_core ks3, cryptBits_eq_core ks2, cryptBits_eq_core ks1, ip_fp _ h1, ip_fp _ h2]

/-! ## the combined S-box/P tables of the compiled DES core are `P ∘ S_i` of FIPS 46-3

Representation used by `openssl_des.c` for a 32-bit half block: FIPS bit `q` (1 = most
significant) sits at bit `(q + 2) mod 32` of the machine word (LSB-first numbering, then
`ROTATE(x, 29)`); the 6-bit table index holds the S-box input `b1..b6` LSB first. -/

/-- the machine word of a FIPS-numbered 32-bit string -/
def osslWord (x : Bits) : Nat :=
  ((List.range 32).map fun q => if x.getD q false then 2 ^ ((q + 3) % 32) else 0).sum

/-- `P(0..0 S_i(b1..b6) 0..0)`: the contribution of S-box `i` to `f(R, K)` -/
def spSpec (i idx : Nat) : Bits :=
  let inp := (List.range 6).map fun k => idx.testBit k
  let out := sboxOne (desSbox.getD i []) inp
  permute desP (List.replicate (4 * i) false ++ out ++ List.replicate (28 - 4 * i) false)

set_option maxRecDepth 1000000 in
theorem sptrans_box0 : ∀ v, v < 64 → (osslSPtrans.getD 0 []).getD v 0 = osslWord (spSpec 0 v) := by
  decide +kernel

set_option maxRecDepth 1000000 in
theorem sptrans_box1 : ∀ v, v < 64 → (osslSPtrans.getD 1 []).getD v 0 = osslWord (spSpec 1 v) := by
  decide +kernel

set_option maxRecDepth 1000000 in
theorem sptrans_box2 : ∀ v, v < 64 → (osslSPtrans.getD 2 []).getD v 0 = osslWord (spSpec 2 v) := by
  decide +kernel

set_option maxRecDepth 1000000 in
theorem sptrans_box3 : ∀ v, v < 64 → (osslSPtrans.getD 3 []).getD v 0 = osslWord (spSpec 3 v) := by
  decide +kernel

set_option maxRecDepth 1000000 in
theorem sptrans_box4 : ∀ v, v < 64 → (osslSPtrans.getD 4 []).getD v 0 = osslWord (spSpec 4 v) := by
  decide +kernel

set_option maxRecDepth 1000000 in
theorem sptrans_box5 : ∀ v, v < 64 → (osslSPtrans.getD 5 []).getD v 0 = osslWord (spSpec 5 v) := by
  decide +kernel

set_option maxRecDepth 1000000 in
theorem sptrans_box6 : ∀ v, v < 64 → (osslSPtrans.getD 6 []).getD v 0 = osslWord (spSpec 6 v) := by
  decide +kernel

set_option maxRecDepth 1000000 in
theorem sptrans_box7 : ∀ v, v < 64 → (osslSPtrans.getD 7 []).getD v 0 = osslWord (spSpec 7 v) := by
  decide +kernel

/-- **`openssl_des_sptrans[i][v] = word(P(S_i(v)))`** for all 8 x 64 entries (tables of tie A) -/
theorem sptrans_is_P_after_S (i : Nat) (hi : i < 8) (v : Nat) (hv : v < 64) :
    (osslSPtrans.getD i []).getD v 0 = osslWord (spSpec i v) := by
  have h : i = 0 ∨ i = 1 ∨ i = 2 ∨ i = 3 ∨ i = 4 ∨ i = 5 ∨ i = 6 ∨ i = 7 := by omega
  rcases h with rfl | rfl | rfl | rfl | rfl | rfl | rfl | rfl
  · exact sptrans_box0 v hv
  · exact sptrans_box1 v hv
  · exact sptrans_box2 v hv
  · exact sptrans_box3 v hv
  · exact sptrans_box4 v hv
  · exact sptrans_box5 v hv
  · exact sptrans_box6 v hv
  · exact sptrans_box7 v hv

end MgProof.C12

namespace MgProof.C12
open MgModel.C12 MgModel.C12.Aes

/-! ## the S-box table is the S-box FIPS-197 §5.1.1 defines -/

/-- `x^254` in GF(2^8) (the multiplicative inverse, 0 ↦ 0) by square and multiply -/
def gpow254 (x : Byte) : Byte :=
  let m (a b : Byte) : Byte := gmul a.toNat b
  let x2 := m x x; let x4 := m x2 x2; let x8 := m x4 x4; let x16 := m x8 x8
  let x32 := m x16 x16; let x64 := m x32 x32; let x128 := m x64 x64
  m x128 (m x64 (m x32 (m x16 (m x8 (m x4 x2)))))

/-- the affine transformation (5.1): `b'_i = b_i ⊕ b_{i+4} ⊕ b_{i+5} ⊕ b_{i+6} ⊕ b_{i+7} ⊕ c_i`, c = 0x63 -/
def affine (b : Byte) : Byte :=
  b ^^^ b.rotateLeft 1 ^^^ b.rotateLeft 2 ^^^ b.rotateLeft 3 ^^^ b.rotateLeft 4 ^^^ 0x63#8

set_option maxRecDepth 1000000 in
theorem sbox_table_lo : ∀ n, n < 128 →
    (let x := BitVec.ofNat 8 n
     sub x = affine (gpow254 x) ∧ (n ≠ 0 → gmul n (gpow254 x) = 1)) := by decide

set_option maxRecDepth 1000000 in
theorem sbox_table_hi : ∀ n, n < 128 →
    (let x := BitVec.ofNat 8 (n + 128)
     sub x = affine (gpow254 x) ∧ gmul (n + 128) (gpow254 x) = 1) := by decide

theorem sbox_table_is_definition_nat (n : Nat) (hn : n < 256) :
    (let x := BitVec.ofNat 8 n
     sub x = affine (gpow254 x) ∧ (n ≠ 0 → gmul n (gpow254 x) = 1)) := by
  by_cases h : n < 128
  · exact sbox_table_lo n h
  · have := sbox_table_hi (n - 128) (by omega)
    have e : n - 128 + 128 = n := by omega
    rw [e] at this
    exact ⟨this.1, fun _ => this.2⟩

/-- **the transcribed S-box table (tie A) equals the algebraic definition of FIPS-197
§5.1.1** — multiplicative inverse in GF(2^8) followed by the affine map — on all 256 bytes. -/
theorem sbox_table_is_definition (x : Byte) :
    sub x = affine (gpow254 x) ∧ (x ≠ 0 → gmul x.toNat (gpow254 x) = 1) := by
  have h := sbox_table_is_definition_nat x.toNat x.isLt
  simp only [BitVec.ofNat_toNat, BitVec.setWidth_eq] at h
  refine ⟨h.1, fun hx => h.2 ?_⟩
  intro h0; apply hx; apply BitVec.eq_of_toNat_eq; simpa using h0

end MgProof.C12
