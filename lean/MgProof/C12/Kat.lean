import MgModel.C12.Ciphers
/-!
# C12 — known-answer vectors of the standards, evaluated by the kernel

These are TESTS (finitely many inputs), not part of the property theorems: they pin the
Lean transcription of FIPS-197 / FIPS 46-3 in `MgModel/C12/{Aes,Des}.lean` to the
standards' published examples.  (`decide` = kernel evaluation, no `native_decide`.)
-/
namespace MgProof.C12.Kat
open MgModel.C12

def hexb (s : String) : Bytes := (bytesOfHex s).getD []

set_option maxRecDepth 1000000

/-- FIPS-197 Appendix C.1 (AES-128) -/
theorem kat_aes128 : Aes.encryptBlock (hexb "000102030405060708090a0b0c0d0e0f")
    (hexb "00112233445566778899aabbccddeeff") = hexb "69c4e0d86a7b0430d8cdb78070b4c55a" := by decide

/-- FIPS-197 Appendix C.2 (AES-192) -/
theorem kat_aes192 : Aes.encryptBlock (hexb "000102030405060708090a0b0c0d0e0f1011121314151617")
    (hexb "00112233445566778899aabbccddeeff") = hexb "dda97ca4864cdfe06eaf70a0ec0d7191" := by decide

/-- FIPS-197 Appendix C.3 (AES-256) -/
theorem kat_aes256 :
    Aes.encryptBlock (hexb "000102030405060708090a0b0c0d0e0f101112131415161718191a1b1c1d1e1f")
    (hexb "00112233445566778899aabbccddeeff") = hexb "8ea2b7ca516745bfeafc49904b496089" := by decide

/-- FIPS-197 Appendix C.1, inverse cipher -/
theorem kat_aes128_inv : Aes.decryptBlock (hexb "000102030405060708090a0b0c0d0e0f")
    (hexb "69c4e0d86a7b0430d8cdb78070b4c55a") = hexb "00112233445566778899aabbccddeeff" := by decide

/-- FIPS-197 Appendix A.1: last round key of the AES-128 key expansion example -/
theorem kat_aes128_keyexp :
    (Aes.keyExpansion (hexb "2b7e151628aed2a6abf7158809cf4f3c")).getLast? =
      some (hexb "d014f9a8c9ee2589e13f0cc8b6630ca6") := by decide

/-- the classic DES worked example (key 133457799BBCDFF1) -/
theorem kat_des : Des.encryptBlock (hexb "133457799bbcdff1") (hexb "0123456789abcdef")
    = hexb "85e813540f0ab405" := by decide

/-- DES "Now is t" under 0123456789ABCDEF (FIPS 81 example) -/
theorem kat_des2 : Des.encryptBlock (hexb "0123456789abcdef") (hexb "4e6f772069732074")
    = hexb "3fa40e8a984d4815" := by decide

/-- TDEA three-key sample (SP 800-67): "The quic" -/
theorem kat_tdes : Des.tdesEncryptBlock (hexb "0123456789abcdef") (hexb "23456789abcdef01")
    (hexb "456789abcdef0123") (hexb "5468652071756663") = hexb "a826fd8ce53b855f" := by decide

end MgProof.C12.Kat
