import MgProof.C17.LemmasSize
import MgProof.C17.LemmasTime
import MgModel.C17.Civil
/-!
# C17 — property theorems (log rotation never loses, splits or misfiles a line)

Statement (properties.jsonl): with the size-rotating handler, for any sequence of
message sizes, size limits, backup counts and handler restarts, the backup files from
oldest to newest followed by the live file concatenate to a contiguous suffix of
everything written (whole lines, original order, no duplicates), and only lines older
than the configured number of backups are ever discarded.  With the time-rotating
handler every line is stored whole in the file named for the period (in the configured
time zone mode) that contains the line's timestamp.

Models: `MgModel.C17.Size` (log_file_rotate_handler.c, pinned tree = fixed tree) and
`MgModel.C17.Time` (log_file_time_rot_handler.c **with fixes/C17-time-rot-write-order.patch and fixes/C17-time-rot-local-time-init.patch**;
the pinned tree is `twriteLegacy`/`tinitLegacy`, for which the time clause is *false*:
see the two `…_legacy_…` theorems at the end).

Quantifiers.  Size: every line type and length function, every directory found at the
start (pre-existing live file and backups, gaps, oversize files), every history of
`init(max_bytes, backup_count) / write / close` of every length; `max_bytes` and
`backup_count` may change at every restart; `k` is any number with `k ≤ max(backup_count,1)`
at every init (`Keeps k`): with one configuration it is the number of backups the code
really keeps (`backup_count`, but 1 for 0), with several it is the smallest of them — the
files `path.j`, `j > k`, may then be stale leftovers of an earlier, larger configuration
and are not claimed to be contiguous with the rest.
Time: every zone function `toTm` (so UTC and every local zone, DST included), every
unit and `rotate_mod ≥ 1`, every history of `init / write / close` with
reconfiguration at restarts, message times non-decreasing since the last init
(`Timely`; an older message is by design appended to the current file).

A file is a list of whole lines in the models: a line is written by one `fwrite` and
files are only renamed/removed as a whole; that no line is split on disk is checked by
the harness (every file must parse into whole self-describing lines).
-/
namespace MgProof.C17
open MgModel.C17
variable {α β : Type}

/-! ## Size rotation -/

/-- the segment history started from the directory as found -/
def spec0 (fs0 : FS α) (k : Nat) : Spec α := { segs := segsOf fs0 k, isOpen := false, maxBytes := 0 }

/-- **C17, size clause 1 (contiguous suffix).**  For every directory `fs0` found at the
start, every `k` and every history whose inits keep at least `k` backups: the `k` newest
backups oldest → newest followed by the live file are a suffix of (what those files held at the start
followed by every line written) — a list of whole lines, so original order, nothing
duplicated, nothing missing in the middle. -/
theorem size_view_is_suffix (len : α → Nat) (k : Nat) (fs0 : FS α) (ops : List (Op α))
    (hk : Keeps k ops) :
    view k (run len ⟨{}, fs0⟩ ops).fs <:+ view k fs0 ++ written false ops := by
  have r : Rel len k _ (specRun len (spec0 fs0 k) ops) :=
    rel_run ops (rel_initial len k {} fs0 rfl 0) hk
  have hall : specAll (specRun len (spec0 fs0 k) ops).segs = view k fs0 ++ written false ops := by
    rw [← view_segsOf fs0 k]; exact specAll_run len ops (spec0 fs0 k)
  rw [view_eq_specView r, ← hall]
  exact specView_suffix k _

/-- **C17, size clause 1, "no duplicates".**  If what was there plus what was written has no
duplicate line, neither has what is on disk. -/
theorem size_no_duplicates (len : α → Nat) (k : Nat) (fs0 : FS α) (ops : List (Op α))
    (hk : Keeps k ops) (hnd : (view k fs0 ++ written false ops).Nodup) :
    (view k (run len ⟨{}, fs0⟩ ops).fs).Nodup :=
  (size_view_is_suffix len k fs0 ops hk).sublist.nodup hnd

/-- **C17, size clause 2 (what is kept, file by file).**  The files on disk are exactly
the newest `k+1` segments of the history cut at the points where the live file had
reached `max_bytes` (`specRun`): `path` is the newest segment, `path.j` the `j`-th newest;
all segments together are everything that was there plus everything written; hence
everything = (segments older than the `k` newest backups) ++ (what is on disk). -/
theorem size_files_are_newest_segments (len : α → Nat) (k : Nat) (fs0 : FS α) (ops : List (Op α))
    (hk : Keeps k ops) :
    let S := (specRun len (spec0 fs0 k) ops).segs
    let fin := (run len ⟨{}, fs0⟩ ops).fs
    cont fin.live = seg S 0 ∧
    (∀ j, 1 ≤ j → j ≤ k → cont (bget fin.bak j) = seg S j) ∧
    specAll S = view k fs0 ++ written false ops ∧
    view k fs0 ++ written false ops = ((S.drop (k + 1)).reverse).flatten ++ view k fin := by
  intro S fin
  have r : Rel len k _ (specRun len (spec0 fs0 k) ops) :=
    rel_run ops (rel_initial len k {} fs0 rfl 0) hk
  have hall : specAll S = view k fs0 ++ written false ops := by
    have := specAll_run len ops (spec0 fs0 k)
    rw [← view_segsOf fs0 k]; exact this
  refine ⟨r.live, r.bak, hall, ?_⟩
  rw [← hall, view_eq_specView r]
  exact specView_split k S

/-- **C17, size clause 3 (only lines older than the backups are discarded).**  As long as
the policy has rotated at most `k` times, *nothing written during the history is
discarded*: each rotation only pushed out the then-oldest pre-existing backup.  (With
more than `k` rotations the files are the newest `k+1` segments — clause 2.) -/
theorem size_nothing_written_lost_within_k_rotations (len : α → Nat) (k : Nat) (fs0 : FS α)
    (ops : List (Op α)) (hk : Keeps k ops) (hr : rotations len (spec0 fs0 k) ops ≤ k) :
    view k (run len ⟨{}, fs0⟩ ops).fs
      = view (k - rotations len (spec0 fs0 k) ops) fs0 ++ written false ops := by
  have r : Rel len k _ (specRun len (spec0 fs0 k) ops) :=
    rel_run ops (rel_initial len k {} fs0 rfl 0) hk
  rw [view_eq_specView r]
  exact specView_few_rotations len k fs0 0 ops hr

/-- **C17, size: the newest line is never discarded** (`max_bytes ≥ 1`): after any
history in which a line was written, that line is the last line of the live file, or
the live file is empty (just rotated) and it is the last line of `path.1`. -/
theorem size_newest_line_kept (len : α → Nat) (k : Nat) (hk1 : 1 ≤ k) (fs0 : FS α)
    (ops : List (Op α)) (hk : Keeps k ops) (hp : PosLimit ops) (hw : written false ops ≠ []) :
    let fin := (run len ⟨{}, fs0⟩ ops).fs
    (cont fin.live).getLast? = (written false ops).getLast? ∨
    (cont fin.live = [] ∧ (cont (bget fin.bak 1)).getLast? = (written false ops).getLast?) := by
  intro fin
  have r : Rel len k _ (specRun len (spec0 fs0 k) ops) :=
    rel_run ops (rel_initial len k {} fs0 rfl 0) hk
  have h := nl_run len ops (spec0 fs0 k) [] (fun h => absurd rfl h) hp
  rw [show (spec0 fs0 k).isOpen = false from rfl, List.nil_append] at h
  have := h hw
  rw [← r.live, ← r.bak 1 (Nat.le_refl 1) hk1] at this
  exact this

/-- **C17, size: the live file stays below the limit** (`max_bytes ≥ 1`): whenever the
handler is open after a history, `offset` is the size of the live file and is smaller
than `max_bytes` — a file is closed as soon as it reaches the limit, never earlier
(clause 2: cuts happen only at `size ≥ max_bytes`). -/
theorem size_live_below_limit (len : α → Nat) (fs0 : FS α) (ops : List (Op α)) (hp : PosLimit ops) :
    let s := run len ⟨{}, fs0⟩ ops
    s.h.isOpen = true →
      s.h.offset = fsize len (cont s.fs.live) ∧ fsize len (cont s.fs.live) < s.h.maxBytes := by
  intro s ho
  have inv : OffInv len (⟨{}, fs0⟩ : St α) := by intro h; simp at h
  obtain ⟨_, h1, _, h2⟩ := offInv_run ops inv hp ho
  exact ⟨h1, h1 ▸ h2⟩

/-- **C17, size: a backup is a full file.**  If every init has `max_bytes ≥ M`, then after a
history with `r` rotations each of the `min r k` newest backups `path.1 … path.(min r k)`
holds at least `M` bytes: a file is set aside only once it has reached the limit.  So
when a written line has been discarded (`r > k`, clause 3), at least `k·M` bytes of newer
lines are on disk in the `k` backups. -/
theorem size_backups_are_full (len : α → Nat) (k M : Nat) (fs0 : FS α) (ops : List (Op α))
    (hk : Keeps k ops) (hl : LowLimit M ops) (j : Nat) (hj1 : 1 ≤ j) (hjk : j ≤ k)
    (hjr : j ≤ rotations len (spec0 fs0 k) ops) :
    M ≤ fsize len (cont (bget (run len ⟨{}, fs0⟩ ops).fs.bak j)) := by
  have r : Rel len k _ (specRun len (spec0 fs0 k) ops) :=
    rel_run ops (rel_initial len k {} fs0 rfl 0) hk
  rw [r.bak j hj1 hjk]
  exact seg_closed_full len M ops (spec0 fs0 k) _ _ rfl rfl hl j hj1 hjr

/-- **C17, size: nothing else is touched.**  A file `path.j` with `j` above every configured
`max(backup_count,1)` is left exactly as it was found (existence and content). -/
theorem size_files_beyond_backups_untouched (len : α → Nat) (K j : Nat) (hj : K < j) (fs0 : FS α)
    (ops : List (Op α)) (ha : AtMost K ops) :
    bget (run len ⟨{}, fs0⟩ ops).fs.bak j = bget fs0.bak j :=
  untouched_run len K j hj ops ⟨{}, fs0⟩ (by intro h; simp at h) ha

/-! ### The literal clause under arbitrary reconfiguration is false (recorded finding)

The property text quantifies over "any sequence of … backup counts and handler
restarts".  Read literally — the view taken with the `backup_count` *in force at the
end*, `backup_count` changing freely at restarts — the statement is `SizeViewLiteral`
below, and it is **false** for the real code (known_findings.jsonl, signature
`C17-stale-backups-after-backup-count-shrank`): when the count shrinks at one restart and
grows again at a later one, the backups numbered above the smaller count were not
shifted in between and are stale. -/

/-- the literal full statement: for every directory, every history with arbitrary
`max_bytes` / `backup_count` at every init, the `max(backup_count,1)` newest backups (count
of the last init) oldest → newest followed by the live file are a suffix of what those
files held at the start followed by everything written -/
def SizeViewLiteral : Prop :=
  ∀ (α : Type) (len : α → Nat) (fs0 : FS α) (ops : List (Op α)),
    let fin := run len ⟨{}, fs0⟩ ops
    view (eff fin.h.backupCount) fin.fs <:+ view (eff fin.h.backupCount) fs0 ++ written false ops

/-- the recorded history: limit 5, every line 6 bytes (so every write rotates);
3 backups, then 0 (keeps `path.1` only), then 3 again.  Ends with
`path.3 = [2]`, `path.2 = [4]`, `path.1 = [5]`: line 3 is missing in between. -/
def literalWitness : List (Op Nat) :=
  [.init 5 3, .write 1, .write 2, .write 3, .close, .init 5 0, .write 4, .close, .init 5 3, .write 5]

/-- **the literal clause fails** (negation witness, replayed on the implementation by the
check's `literal` family: `rinit 5 3; w 6 ×3; close; rinit 5 0; w 6; close; rinit 5 3; w 6`) -/
theorem size_view_literal_fails : ¬ SizeViewLiteral := by
  intro h
  have := h Nat (fun _ => 6) {} literalWitness
  revert this
  decide

/-- **what is proved of the literal clause** (= `size_view_is_suffix`).  Missing for the full
statement `SizeViewLiteral`: the view may only reach down to `k` backups with
`k ≤ max(backup_count,1)` at *every* init of the history (`Keeps k`), i.e. the smallest count
configured — for a history with one configuration (or a count that never drops below the
one in force at the end) that is the literal view; after the count has shrunk and grown
again the files `path.j`, `k < j`, are stale and not covered (`size_view_literal_fails`). -/
theorem size_view_is_suffix_partial (len : α → Nat) (k : Nat) (fs0 : FS α) (ops : List (Op α))
    (hk : Keeps k ops) :
    view k (run len ⟨{}, fs0⟩ ops).fs <:+ view k fs0 ++ written false ops :=
  size_view_is_suffix len k fs0 ops hk

/-- Non-vacuity (size): a pre-existing directory with a gap, limit 10, two backups, a
restart with another limit and another backup count, four rotations; hypotheses hold, something was discarded,
and the view is the expected suffix. -/
def exampleOps : List (Op Nat) := [.init 10 2, .write 4, .write 7, .write 12, .close, .init 5 3,
  .write 3, .write 3, .write 9, .write 2]
def exampleDir : FS Nat := { live := some [5], bak := [none, none, some [6, 6]] }
example :
    Keeps 2 exampleOps ∧ PosLimit exampleOps ∧
    view 2 (run id ⟨{}, exampleDir⟩ exampleOps).fs = [3, 3, 9, 2] ∧
    view 2 exampleDir ++ written false exampleOps = [6, 6, 5, 4, 7, 12, 3, 3, 9, 2] ∧
    rotations id (spec0 exampleDir 2) exampleOps = 4 ∧ LowLimit 5 exampleOps :=
  ⟨by simp [Keeps, exampleOps, eff], by simp [PosLimit, exampleOps], by decide, by decide,
   by decide, by simp [LowLimit, exampleOps]⟩

/-! ## Time rotation (code with fixes/C17-time-rot-write-order.patch and fixes/C17-time-rot-local-time-init.patch) -/

/-- **C17, time clause, one write.**  From every state satisfying the representation
invariant (every reachable state does: `time_every_line_in_its_period_file_reconf`),
for every zone function, a message whose effective time is not older than the newest
one seen is appended — one whole record — to exactly one file, and that file is named
for the period (unit, `rotate_mod`, zone mode of the open handler) containing the
message's time. -/
theorem time_write_files_line_in_its_period (toTm : Bool → Int → Tm) (s : TSt β) (lo : Int)
    (inv : TInv toTm s lo) (clock ts : Int) (l : β) (hopen : s.h.cur.isSome)
    (hlo : lo ≤ effSec clock ts) :
    ∃ h' fs' n, twrite toTm clock s.h s.fs ts l = .ok (h', fs') ∧
      fs'.recs = s.fs.recs ++ [⟨n, effSec clock ts, l⟩] ∧
      Filed toTm s.h.unit s.h.mod s.h.useLocal ⟨n, effSec clock ts, l⟩ := by
  obtain ⟨h', fs', n, h1, h2, h3, _⟩ := twrite_spec inv clock ts l hopen hlo
  exact ⟨h', fs', n, h1, h2, h3.1⟩

/-- **C17, time clause, whole histories, one configuration.**  Starting from an empty
directory, for every zone function, unit, `rotate_mod ≥ 1`, zone mode and every history
of init/write/close (restarts included) that is `Timely`: the run never fails, the
records in the directory are exactly the lines handed to the open handler, in order
(nothing lost, nothing duplicated), and every one is in the file named for the period
containing its timestamp. -/
theorem time_every_line_in_its_period_file (toTm : Bool → Int → Tm) (u : RotUnit) (m : Nat)
    (loc : Bool) (ops : List (TOp β)) (lo : Int) (ht : Timely lo ops) (hc : CfgConst u m loc ops) :
    ∃ s', trun toTm {} ops = .ok s' ∧
      (∀ r ∈ s'.fs.recs, Filed toTm u m loc r) ∧
      s'.fs.recs.map (·.line) = twritten false ops := by
  have inv : TInv toTm ({} : TSt β) lo :=
    ⟨fun n hn => by simp at hn, fun ho => by simp at ho⟩
  obtain ⟨s', h1, new, h2, h3, h4⟩ := trun_filed toTm u m loc ops {} lo inv ht hc
    (fun ho => by simp at ho)
  refine ⟨s', h1, ?_, ?_⟩
  · intro r hr; rw [h2] at hr; exact (h3 r (by simpa using hr)).1
  · rw [h2]; simpa using h4

/-- for `rotate_mod = 1` a period has exactly one possible file name -/
theorem nameOf_eq_of_period_one (u : RotUnit) (a b : Tm)
    (h : periodOf u 1 a = periodOf u 1 b) : nameOf u a = nameOf u b := by
  cases u <;> simp_all [periodOf, nameOf]

/-- **C17, time clause, `rotate_mod = 1`: the file is *the* file of the period.**  With
`rotate_mod = 1` every record is in the file whose name is exactly its timestamp
truncated to the unit (in the zone mode) — also across restarts.  (For `rotate_mod > 1`
the code names a file after the first message of the period, so a restart inside a
period starts a second file for it; both are "named for the period".) -/
theorem time_file_name_is_truncated_timestamp (toTm : Bool → Int → Tm) (u : RotUnit)
    (loc : Bool) (ops : List (TOp β)) (lo : Int) (ht : Timely lo ops) (hc : CfgConst u 1 loc ops) :
    ∃ s', trun toTm {} ops = .ok s' ∧
      ∀ r ∈ s'.fs.recs, r.name = nameOf u (toTm loc r.sec) := by
  have inv : TInv toTm ({} : TSt β) lo :=
    ⟨fun n hn => by simp at hn, fun ho => by simp at ho⟩
  obtain ⟨s', h1, new, h2, h3, _⟩ := trun_filed toTm u 1 loc ops {} lo inv ht hc
    (fun ho => by simp at ho)
  refine ⟨s', h1, ?_⟩
  intro r hr
  rw [h2] at hr
  obtain ⟨⟨_, hp⟩, hid⟩ := h3 r (by simpa using hr)
  rw [← hid]
  exact nameOf_eq_of_period_one u _ _ hp

/-- **C17, time clause, whole histories, reconfiguration at restarts.**  As above, but
every init may choose another unit / `rotate_mod ≥ 1` / zone mode: record by record,
the directory holds the line handed in, filed under the configuration of the handler
that was open when it was written. -/
theorem time_every_line_in_its_period_file_reconf (toTm : Bool → Int → Tm) (ops : List (TOp β))
    (lo : Int) (ht : Timely lo ops) :
    ∃ s', trun toTm {} ops = .ok s' ∧ FiledAs toTm s'.fs.recs (twrittenCfg none ops) := by
  have inv : TInv toTm ({} : TSt β) lo :=
    ⟨fun n hn => by simp at hn, fun ho => by simp at ho⟩
  obtain ⟨s', h1, new, h2, h3⟩ := trun_filed_cfg toTm ops {} lo inv ht
  refine ⟨s', h1, ?_⟩
  have : s'.fs.recs = new := by rw [h2]; rfl
  rw [this]
  exact h3

/-- Non-vacuity (time): UTC+5:30, 5-minute files, local mode; init at 2024-02-29
23:59:59 UTC (= 05:29:59 local, March 1st), messages crossing the 05:30 boundary, a
restart; the hypotheses hold and three different files are used. -/
def exampleTOps : List (TOp Nat) := [.init 1709251199 .min 5 true, .write 0 1709251199 1,
  .write 0 1709251200 2, .write 0 1709251200 3, .close, .init 1709251500 .min 5 true,
  .write 1709251501 0 4]
example :
    Timely 0 exampleTOps ∧ CfgConst .min 5 true exampleTOps ∧
    ∃ s, trun (toTmFixed 330) {} exampleTOps = .ok s ∧
      s.fs.created.length = 3 ∧ s.fs.recs.map (·.line) = [1, 2, 3, 4] :=
  ⟨by simp [Timely, exampleTOps, effSec], by simp [CfgConst, exampleTOps], _, rfl, by decide⟩

/-! ## The pinned tree violates the time clause (negation witnesses)

`trunLegacy` is the code as pinned (before the fix).  Both witnesses are `Timely`
histories with one configuration, evaluated with the real calendar; they are replayed
on the implementation by the check (corpus/C17). -/

/-- history 1: init at the epoch (UTC, 1-second files), one message stamped
2024-02-29 23:59:58 -/
def legacyWitness1 : List (TOp Nat) := [.init 0 .sec 1 false, .write 0 1709251198 7]

/-- **defect 1 (line written before the period change is detected).**  On the pinned
code the message of history 1 ends up in the file named for 1970-01-01 00:00:00. -/
theorem time_legacy_first_line_of_period_misfiled :
    Timely 0 legacyWitness1 ∧ CfgConst .sec 1 false legacyWitness1 ∧
    ∃ s', trunLegacy (toTmFixed 0) {} legacyWitness1 = .ok s' ∧
      ∃ r ∈ s'.fs.recs, ¬ Filed (toTmFixed 0) .sec 1 false r := by
  refine ⟨by simp [Timely, legacyWitness1, effSec], by simp [CfgConst, legacyWitness1], _, rfl, ?_⟩
  decide

/-- history 2: zone UTC+5:30, daily files in local mode, init at 2024-02-29 23:59:59 UTC
(05:29:59 on March 1st local) and a message in the same second -/
def legacyWitness2 : List (TOp Nat) := [.init 1709251199 .day 1 true, .write 0 1709251199 7]

/-- **defect 2 (`use_local_time` read before it is assigned).**  On the pinned code the
first file is named in UTC (20240229) although local mode was requested, so the message
of history 2 — local date March 1st — is misfiled; no period change is involved. -/
theorem time_legacy_local_init_misfiled :
    Timely 0 legacyWitness2 ∧ CfgConst .day 1 true legacyWitness2 ∧
    ∃ s', trunLegacy (toTmFixed 330) {} legacyWitness2 = .ok s' ∧
      ∃ r ∈ s'.fs.recs, ¬ Filed (toTmFixed 330) .day 1 true r := by
  refine ⟨by simp [Timely, legacyWitness2, effSec], by simp [CfgConst, legacyWitness2], _, rfl, ?_⟩
  decide

/-- the fixed code files both witness histories correctly (instance of the theorem) -/
example : ∃ s', trun (toTmFixed 330) {} legacyWitness2 = .ok s' ∧
    ∀ r ∈ s'.fs.recs, Filed (toTmFixed 330) .day 1 true r := by
  obtain ⟨s', h1, h2, _⟩ := time_every_line_in_its_period_file (toTmFixed 330) .day 1 true
    legacyWitness2 0 (by simp [Timely, legacyWitness2, effSec]) (by simp [CfgConst, legacyWitness2])
  exact ⟨s', h1, h2⟩

end MgProof.C17
