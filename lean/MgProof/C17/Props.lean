import MgProof.C17.LemmasSize
import MgProof.C17.LemmasTime
namespace MgProof.C17
end MgProof.C17
