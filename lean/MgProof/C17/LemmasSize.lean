import MgModel.C17.Size
namespace MgProof.C17
end MgProof.C17
