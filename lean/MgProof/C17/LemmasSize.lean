import MgModel.C17.Size
/-!
# C17 — lemmas for the size-rotating handler

1. the backup table (`bget`/`bset`) and what `remove`, `rename`, the rename loop and
   `rotate` do to each file;
2. the refinement relation `Rel` between the model state and the segment history
   (`MgModel.C17.Spec`), preserved by every call;
3. pure list facts about the segment history.
-/
namespace MgProof.C17
open MgModel.C17
variable {α : Type}

theorem bget_bset (b : Bak α) (i j : Nat) (v : Option (List α)) :
    bget (bset b i v) j = if j = i then v else bget b j := by
  unfold bget bset
  split
  · simp only [List.getD_eq_getElem?_getD, List.getElem?_set]
    grind
  · simp only [List.getD_eq_getElem?_getD]
    grind

theorem bget_remove (b : Bak α) (i j : Nat) :
    bget (osRemoveIfExists b i) j = if j = i then none else bget b j := by
  unfold osRemoveIfExists
  split
  · exact bget_bset ..
  · split
    · rename_i h1 h2; subst h2; cases h : bget b j <;> simp_all
    · rfl

theorem bget_rename (b : Bak α) (i j k : Nat) (hj : bget b j = none) :
    bget (osRename b i j) k = if k = j then bget b i else if k = i then none else bget b k := by
  unfold osRename
  cases h : bget b i with
  | none => grind
  | some c => simp only [bget_bset]

theorem bget_renameLoop : ∀ (i : Nat) (b : Bak α) (j : Nat), bget b (i + 1) = none →
    bget (renameLoop i b) j =
      if i = 0 then bget b j else if j = 1 then none
      else if 2 ≤ j ∧ j ≤ i + 1 then bget b (j - 1) else bget b j := by
  intro i
  induction i with
  | zero => intro b j _; simp [renameLoop]
  | succ i ih =>
    intro b j hb
    have hr := fun k => bget_rename b (i + 1) (i + 2) k hb
    rw [renameLoop, ih _ j (by rw [hr]; simp)]
    simp only [hr]
    grind

/-- what `rotate` does to the directory, file by file -/
theorem rotate_spec (h : RH) (fs : FS α) (c : List α) (hl : fs.live = some c) :
    (rotate h fs).1 = { h with isOpen := true, offset := 0 } ∧
    (rotate h fs).2.live = some [] ∧
    ∀ j, bget (rotate h fs).2.bak j =
      if j = 1 then some c
      else if 2 ≤ j ∧ j ≤ eff h.backupCount then bget fs.bak (j - 1)
      else if j = 0 ∧ h.backupCount = 0 then none
      else bget fs.bak j := by
  refine ⟨rfl, rfl, ?_⟩
  intro j
  simp only [rotate, hl, bget_bset]
  by_cases h1 : j = 1
  · simp [h1]
  · simp only [h1, if_false]
    rcases Nat.eq_zero_or_pos h.backupCount with h0 | hpos
    · simp only [h0, Nat.zero_sub, renameLoop, bget_remove, eff]
      grind
    · have hb : bget (osRemoveIfExists fs.bak h.backupCount) (h.backupCount - 1 + 1) = none := by
        rw [bget_remove]; simp; omega
      rw [bget_renameLoop _ _ _ hb]
      simp only [bget_remove, eff]
      grind

@[simp] theorem seg_cons_zero (a : List α) (S : List (List α)) : seg (a :: S) 0 = a := rfl
@[simp] theorem seg_cons_succ (a : List α) (S : List (List α)) (j : Nat) :
    seg (a :: S) (j + 1) = seg S j := by simp [seg]
theorem seg_drop_one (S : List (List α)) (j : Nat) : seg (S.drop 1) j = seg S (j + 1) := by
  cases S <;> simp [seg]

/-- the refinement relation between the model state and the segment history -/
structure Rel (len : α → Nat) (k : Nat) (s : St α) (sp : Spec α) : Prop where
  live : cont s.fs.live = seg sp.segs 0
  bak : ∀ j, 1 ≤ j → j ≤ k → cont (bget s.fs.bak j) = seg sp.segs j
  isOpen : s.h.isOpen = sp.isOpen
  whenOpen : s.h.isOpen = true → s.fs.live.isSome ∧ s.h.offset = fsize len (cont s.fs.live) ∧
    s.h.maxBytes = sp.maxBytes ∧ k ≤ eff s.h.backupCount

theorem rel_rotate {len : α → Nat} {k : Nat} {h : RH} {fs : FS α} {sp : Spec α}
    (hl : fs.live.isSome) (hk : k ≤ eff h.backupCount)
    (rl : cont fs.live = seg sp.segs 0)
    (rb : ∀ j, 1 ≤ j → j ≤ k → cont (bget fs.bak j) = seg sp.segs j)
    (ho : sp.isOpen = true) (hm : h.maxBytes = sp.maxBytes) :
    Rel len k ⟨(rotate h fs).1, (rotate h fs).2⟩ { sp with segs := [] :: sp.segs } := by
  obtain ⟨c, hc⟩ := Option.isSome_iff_exists.mp hl
  obtain ⟨h1, h2, h3⟩ := rotate_spec h fs c hc
  refine ⟨by simp [h2, cont], ?_, by simp [h1, ho], ?_⟩
  · intro j hj1 hjk
    simp only [h3]
    by_cases e : j = 1
    · subst e; simp [cont, ← rl, hc]
    · obtain ⟨j', rfl⟩ : ∃ j', j = j' + 1 := ⟨j - 1, by omega⟩
      have : 2 ≤ j' + 1 ∧ j' + 1 ≤ eff h.backupCount := by omega
      simp only [e, this, if_true, if_false, and_self, seg_cons_succ]
      exact rb j' (by omega) (by omega)
  · intro _
    simp [h1, h2, cont, fsize, hm, hk]

theorem fsize_append (len : α → Nat) (a b : List α) : fsize len (a ++ b) = fsize len a + fsize len b := by
  simp [fsize]

/-- every init of the history keeps at least `k` backups (`k ≤ max(backup_count,1)`);
with one configuration, `k` is the number of backups kept -/
def Keeps (k : Nat) : List (Op α) → Prop
  | [] => True
  | .init _ bc :: ops => k ≤ eff bc ∧ Keeps k ops
  | _ :: ops => Keeps k ops

theorem rel_step {len : α → Nat} {k : Nat} {s : St α} {sp : Spec α} (r : Rel len k s sp)
    (op : Op α) (hop : ∀ mb bc, op = .init mb bc → k ≤ eff bc) :
    Rel len k (step len s op) (specStep len sp op) := by
  cases op with
  | close =>
    exact ⟨r.live, r.bak, by simp [step, specStep, close], by simp [step, close]⟩
  | init mb bc =>
    have hk := hop mb bc rfl
    simp only [step, init, specStep, specRotateIf]
    by_cases hge : fsize len (cont s.fs.live) ≥ mb
    · simp only [hge, ← r.live, if_true]
      exact rel_rotate (sp := { sp with isOpen := true, maxBytes := mb })
        (h := { isOpen := true, offset := fsize len (cont s.fs.live), maxBytes := mb, backupCount := bc })
        (fs := { s.fs with live := some (cont s.fs.live) }) (by simp) hk
        (by simpa [cont] using r.live) r.bak rfl rfl
    · simp only [hge, ← r.live, if_false]
      exact ⟨by simpa [cont] using r.live, r.bak, rfl, by intro _; simp [cont, hk]⟩
  | write l =>
    simp only [step, write, specStep]
    by_cases ho : s.h.isOpen = true
    · obtain ⟨hsome, hoff, hmb, hk⟩ := r.whenOpen ho
      have ho' : sp.isOpen = true := by rw [← r.isOpen]; exact ho
      simp only [ho, ho', if_true, specRotateIf, seg_cons_zero, ← r.live, fsize_append, ← hoff, ← hmb]
      have hsz : fsize len [l] = len l := by simp [fsize]
      rw [hsz]
      have rb : ∀ j, 1 ≤ j → j ≤ k → cont (bget s.fs.bak j)
          = seg ((cont s.fs.live ++ [l]) :: sp.segs.drop 1) j := by
        intro j hj1 hjk
        obtain ⟨j', rfl⟩ : ∃ j', j = j' + 1 := ⟨j - 1, by omega⟩
        rw [seg_cons_succ, seg_drop_one]; exact r.bak _ hj1 hjk
      by_cases hge : s.h.offset + len l ≥ s.h.maxBytes
      · simp only [hge, if_true]
        exact rel_rotate
          (sp := { segs := (cont s.fs.live ++ [l]) :: sp.segs.drop 1, isOpen := true,
                   maxBytes := s.h.maxBytes })
          (h := { isOpen := true, offset := s.h.offset + len l, maxBytes := s.h.maxBytes,
                  backupCount := s.h.backupCount })
          (fs := { live := some (cont s.fs.live ++ [l]), bak := s.fs.bak }) (by simp) hk
          (by simp [cont]) rb rfl rfl
      · simp only [hge, if_false]
        exact ⟨by simp [cont], rb, rfl,
          by intro _; simp [cont, fsize_append, hsz, hoff, hmb, hk]⟩
    · have ho' : sp.isOpen = false := by rw [← r.isOpen]; simpa using ho
      simp only [ho, ho']
      exact ⟨r.live, r.bak, r.isOpen, r.whenOpen⟩

theorem keeps_cons {k : Nat} {op : Op α} {ops : List (Op α)} (h : Keeps k (op :: ops)) :
    (∀ mb bc, op = .init mb bc → k ≤ eff bc) ∧ Keeps k ops := by
  cases op with
  | init mb bc => exact ⟨fun _ _ e => by cases e; exact h.1, h.2⟩
  | write l => exact ⟨fun _ _ e => (nomatch e), h⟩
  | close => exact ⟨fun _ _ e => (nomatch e), h⟩

theorem rel_run {len : α → Nat} {k : Nat} (ops : List (Op α)) : ∀ {s : St α} {sp : Spec α},
    Rel len k s sp → Keeps k ops → Rel len k (run len s ops) (specRun len sp ops) := by
  induction ops with
  | nil => intro s sp r _; exact r
  | cons op ops ih =>
    intro s sp r hc
    obtain ⟨h1, h2⟩ := keeps_cons hc
    exact ih (rel_step r op h1) h2

/-- a directory as found, with no handler open, is related to its own segmentation -/
theorem rel_initial (len : α → Nat) (k : Nat) (h0 : RH) (fs0 : FS α) (hc : h0.isOpen = false)
    (mb0 : Nat) :
    Rel len k ⟨h0, fs0⟩ { segs := segsOf fs0 k, isOpen := false, maxBytes := mb0 } := by
  refine ⟨rfl, ?_, hc, by simp [hc]⟩
  intro j hj1 hjk
  obtain ⟨j', rfl⟩ : ∃ j', j = j' + 1 := ⟨j - 1, by omega⟩
  rw [segsOf, seg_cons_succ, seg, List.getD_eq_getElem?_getD, List.getElem?_map,
    List.getElem?_range (by omega)]
  rfl

/-! ### the segment history itself (pure list facts) -/

theorem specAll_cons (a : List α) (S : List (List α)) : specAll (a :: S) = specAll S ++ a := by
  simp [specAll]

theorem specAll_head (S : List (List α)) : specAll S = specAll (S.drop 1) ++ seg S 0 := by
  cases S with
  | nil => simp [specAll, seg]
  | cons a t => simp [specAll_cons]

theorem specAll_rotateIf (len : α → Nat) (sp : Spec α) :
    specAll (specRotateIf len sp).segs = specAll sp.segs := by
  unfold specRotateIf; split <;> simp [specAll_cons]

theorem specRotateIf_isOpen (len : α → Nat) (sp : Spec α) :
    (specRotateIf len sp).isOpen = sp.isOpen := by
  unfold specRotateIf; split <;> rfl

/-- nothing is ever forgotten by the segment history: all segments, oldest first,
are everything that was there plus everything written -/
theorem specAll_run (len : α → Nat) (ops : List (Op α)) : ∀ (sp : Spec α),
    specAll (specRun len sp ops).segs = specAll sp.segs ++ written sp.isOpen ops := by
  induction ops with
  | nil => intro sp; simp [specRun, written]
  | cons op ops ih =>
    intro sp
    rw [specRun, ih]
    cases op with
    | init mb bc =>
      simp [specStep, specAll_rotateIf, specRotateIf_isOpen, written]
    | close => simp [specStep, written]
    | write l =>
      simp only [specStep, written]
      by_cases ho : sp.isOpen = true
      · simp only [ho, if_true, specAll_rotateIf, specRotateIf_isOpen, specAll_cons]
        rw [specAll_head sp.segs]; simp
      · simp [ho]

theorem specView_split (k : Nat) (S : List (List α)) :
    specAll S = ((S.drop (k + 1)).reverse).flatten ++ specView k S := by
  unfold specAll specView
  rw [← List.flatten_append, ← List.reverse_append, List.take_append_drop]

theorem specView_suffix (k : Nat) (S : List (List α)) : specView k S <:+ specAll S :=
  ⟨_, (specView_split k S).symm⟩

/-- `specView` unfolded file by file -/
def specBackups (S : List (List α)) : Nat → List α
  | 0 => []
  | k + 1 => seg S (k + 1) ++ specBackups S k

theorem specView_eq (S : List (List α)) : ∀ k, specView k S = specBackups S k ++ seg S 0 := by
  intro k
  induction k with
  | zero => cases S <;> simp [specView, specBackups, seg]
  | succ k ih =>
    unfold specView at *
    rw [List.take_add_one, List.reverse_append, List.flatten_append, ih, specBackups, List.append_assoc]
    congr 1
    simp only [seg, List.getD_eq_getElem?_getD]
    cases S[k + 1]? <;> simp

theorem view_eq_specView {len : α → Nat} {k : Nat} {s : St α} {sp : Spec α} (r : Rel len k s sp) :
    view k s.fs = specView k sp.segs := by
  rw [specView_eq, view, r.live]
  congr 1
  have : ∀ n, n ≤ k → backups s.fs n = specBackups sp.segs n := by
    intro n
    induction n with
    | zero => intro _; rfl
    | succ n ih => intro hn; rw [backups, specBackups, r.bak _ (by omega) hn, ih (by omega)]
  exact this k (Nat.le_refl k)

theorem view_segsOf (fs : FS α) (k : Nat) : specAll (segsOf fs k) = view k fs := by
  have h : specView k (segsOf fs k) = specAll (segsOf fs k) := by
    unfold specView specAll
    rw [List.take_of_length_le (by simp [segsOf])]
  rw [← h]
  exact (view_eq_specView (rel_initial (fun _ => 0) k {} fs rfl 0)).symm

/-! ### how a run extends the segment history -/

theorem specRotateIf_segs (len : α → Nat) (sp : Spec α) :
    (specRotateIf len sp).segs = sp.segs ∨ (specRotateIf len sp).segs = [] :: sp.segs := by
  unfold specRotateIf; split <;> simp

/-- a run only extends the history at its head: the older segments `T` are never
touched, and the new head segments contain the old head followed by what was written -/
theorem specRun_head (len : α → Nat) (ops : List (Op α)) : ∀ (sp : Spec α) (a : List α)
    (T : List (List α)), sp.segs = a :: T →
    ∃ news, (specRun len sp ops).segs = news ++ T ∧
      news.length = rotations len sp ops + 1 ∧
      specAll news = a ++ written sp.isOpen ops := by
  induction ops with
  | nil =>
    intro sp a T h
    exact ⟨[a], by simp [specRun, h], by simp [rotations, specRun], by simp [specAll, written]⟩
  | cons op ops ih =>
    intro sp a T h
    -- one step turns the head `a` into `a'` or `[] :: a'`
    have key : ∃ a', ((specStep len sp op).segs = a' :: T ∨ (specStep len sp op).segs = [] :: a' :: T) ∧
        a' ++ written (specStep len sp op).isOpen ops = a ++ written sp.isOpen (op :: ops) := by
      cases op with
      | close => exact ⟨a, Or.inl h, by simp [specStep, written]⟩
      | init mb bc =>
        refine ⟨a, ?_, by simp [specStep, specRotateIf_isOpen, written]⟩
        rcases specRotateIf_segs len { sp with isOpen := true, maxBytes := mb } with e | e
        · left; simp only [specStep]; rw [e]; exact h
        · right; simp only [specStep]; rw [e]; simp [h]
      | write l =>
        by_cases ho : sp.isOpen = true
        · have hstep : specStep len sp (.write l) = specRotateIf len
              { sp with segs := (seg sp.segs 0 ++ [l]) :: sp.segs.drop 1 } := by
            simp only [specStep]; rw [if_pos ho]
          refine ⟨a ++ [l], ?_, by rw [hstep]; simp [ho, specRotateIf_isOpen, written]⟩
          rw [hstep]
          rcases specRotateIf_segs len { sp with segs := (seg sp.segs 0 ++ [l]) :: sp.segs.drop 1 }
            with e | e
          · left; rw [e]; simp [h]
          · right; rw [e]; simp [h]
        · exact ⟨a, Or.inl (by simp [specStep, ho, h]), by simp [specStep, ho, written]⟩
    obtain ⟨a', hs, hw⟩ := key
    have hlen : (specRun len sp (op :: ops)).segs.length
        = (specRun len (specStep len sp op) ops).segs.length := rfl
    rcases hs with hs | hs
    · obtain ⟨news, h1, h2, h3⟩ := ih _ a' T hs
      refine ⟨news, by simpa [specRun] using h1, ?_, by rw [h3, hw]⟩
      simp only [rotations, hlen, hs, h, List.length_cons] at h2 ⊢
      exact h2
    · obtain ⟨news, h1, h2, h3⟩ := ih _ [] (a' :: T) hs
      refine ⟨news ++ [a'], by simpa [specRun] using h1, ?_, ?_⟩
      · have hL := congrArg List.length h1
        simp only [rotations, hlen, hs, h, List.length_append, List.length_cons, List.length_nil]
          at h2 hL ⊢
        omega
      · rw [← hw]; simp only [specAll, List.reverse_append] at h3 ⊢
        simp [h3]

theorem segsOf_tail_take (fs : FS α) (k n : Nat) (hn : n ≤ k) :
    cont fs.live :: ((segsOf fs k).drop 1).take n = segsOf fs n := by
  simp only [segsOf, List.drop_one, List.tail_cons, ← List.map_take, List.take_range]
  rw [Nat.min_eq_left hn]

/-- with at most `k` rotations nothing written is discarded; each rotation only pushes out
the oldest pre-existing backup -/
theorem specView_few_rotations (len : α → Nat) (k : Nat) (fs0 : FS α) (mb0 : Nat) (ops : List (Op α))
    (hr : rotations len { segs := segsOf fs0 k, isOpen := false, maxBytes := mb0 } ops ≤ k) :
    specView k (specRun len { segs := segsOf fs0 k, isOpen := false, maxBytes := mb0 } ops).segs
      = view (k - rotations len { segs := segsOf fs0 k, isOpen := false, maxBytes := mb0 } ops) fs0
        ++ written false ops := by
  generalize hsp : ({ segs := segsOf fs0 k, isOpen := false, maxBytes := mb0 } : Spec α) = sp at *
  have hsegs : sp.segs = cont fs0.live :: (segsOf fs0 k).drop 1 := by rw [← hsp]; rfl
  have hopen : sp.isOpen = false := by rw [← hsp]
  obtain ⟨news, h1, h2, h3⟩ := specRun_head len ops sp _ _ hsegs
  rw [hopen] at h3
  have hT : ((segsOf fs0 k).drop 1).length = k := by simp [segsOf]
  unfold specView
  rw [h1, List.take_append, h2, List.take_of_length_le (by omega), List.reverse_append,
    List.flatten_append]
  have : k + 1 - (rotations len sp ops + 1) = k - rotations len sp ops := by omega
  rw [this]
  have h4 := view_segsOf fs0 (k - rotations len sp ops)
  rw [← segsOf_tail_take fs0 k _ (Nat.sub_le ..), specAll_cons] at h4
  change _ ++ specAll news = _
  rw [h3, ← h4, specAll, List.append_assoc]

/-! ### the live file stays below the limit -/

/-- every init of the history has `max_bytes ≥ 1` -/
def PosLimit : List (Op α) → Prop
  | [] => True
  | .init mb _ :: ops => 1 ≤ mb ∧ PosLimit ops
  | _ :: ops => PosLimit ops

/-- while the handler is open: the live file exists, `offset` is its size, and it is
below the limit (so the next line is the one that may take it over) -/
def OffInv (len : α → Nat) (s : St α) : Prop :=
  s.h.isOpen = true → s.fs.live.isSome ∧ s.h.offset = fsize len (cont s.fs.live) ∧
    1 ≤ s.h.maxBytes ∧ s.h.offset < s.h.maxBytes

theorem offInv_step {len : α → Nat} {s : St α} (inv : OffInv len s) (op : Op α)
    (hop : ∀ mb bc, op = .init mb bc → 1 ≤ mb) : OffInv len (step len s op) := by
  cases op with
  | close => intro h; simp [step, close] at h
  | init mb bc =>
    have hmb := hop mb bc rfl
    intro _
    simp only [step, init]
    split
    · simp [rotate, cont, fsize]; omega
    · rename_i hlt
      simp only [ge_iff_le, Nat.not_le, cont] at hlt
      simp [cont]; omega
  | write l =>
    intro ho
    simp only [step, write] at ho ⊢
    by_cases hopen : s.h.isOpen = true
    · obtain ⟨_, hoff, hpos, _⟩ := inv hopen
      simp only [hopen, if_true] at ho ⊢
      split
      · simp [rotate, cont, fsize]; omega
      · rename_i hlt
        simp only [ge_iff_le, Nat.not_le] at hlt
        simp [cont, fsize, hoff] at hlt ⊢
        omega
    · simp [hopen] at ho

theorem posLimit_cons {op : Op α} {ops : List (Op α)} (h : PosLimit (op :: ops)) :
    (∀ mb bc, op = .init mb bc → 1 ≤ mb) ∧ PosLimit ops := by
  cases op with
  | init mb bc => exact ⟨fun _ _ e => by cases e; exact h.1, h.2⟩
  | write l => exact ⟨fun _ _ e => (nomatch e), h⟩
  | close => exact ⟨fun _ _ e => (nomatch e), h⟩

theorem offInv_run {len : α → Nat} (ops : List (Op α)) : ∀ {s : St α}, OffInv len s → PosLimit ops →
    OffInv len (run len s ops) := by
  induction ops with
  | nil => intro s i _; exact i
  | cons op ops ih =>
    intro s i hp
    obtain ⟨h1, h2⟩ := posLimit_cons hp
    exact ih (offInv_step i op h1) h2

/-! ### the newest line is never the one that is discarded -/

/-- the newest line of `w` is the last line of the head segment, or the head is empty
(just rotated) and it is the last line of the segment before -/
def NL (S : List (List α)) (w : List α) : Prop :=
  w ≠ [] → (seg S 0).getLast? = w.getLast? ∨ (seg S 0 = [] ∧ (seg S 1).getLast? = w.getLast?)

theorem nl_rotateIf (len : α → Nat) (sp : Spec α) (w : List α) (h : NL sp.segs w)
    (hpos : 1 ≤ sp.maxBytes ∨ (seg sp.segs 0).getLast? = w.getLast?) :
    NL (specRotateIf len sp).segs w := by
  unfold specRotateIf
  split
  · rename_i hge
    intro hw
    right
    refine ⟨rfl, ?_⟩
    rw [seg_cons_succ]
    rcases hpos with hpos | hpos
    · rcases h hw with h' | ⟨h', _⟩
      · exact h'
      · rw [h'] at hge; simp [fsize] at hge; omega
    · exact hpos
  · exact h

theorem nl_run (len : α → Nat) (ops : List (Op α)) : ∀ (sp : Spec α) (w : List α),
    NL sp.segs w → PosLimit ops → NL (specRun len sp ops).segs (w ++ written sp.isOpen ops) := by
  induction ops with
  | nil => intro sp w h _; simpa [specRun, written] using h
  | cons op ops ih =>
    intro sp w h hp
    obtain ⟨h1, h2⟩ := posLimit_cons hp
    cases op with
    | close => simpa [specRun, specStep, written] using ih { sp with isOpen := false } w h h2
    | init mb bc =>
      have := ih (specStep len sp (.init mb bc)) w
        (nl_rotateIf len _ w h (Or.inl (h1 mb bc rfl))) h2
      simpa [specRun, specStep, specRotateIf_isOpen, written] using this
    | write l =>
      by_cases ho : sp.isOpen = true
      · have hstep : specStep len sp (.write l) = specRotateIf len
            { sp with segs := (seg sp.segs 0 ++ [l]) :: sp.segs.drop 1 } := by
          simp only [specStep]; rw [if_pos ho]
        have hnl : NL ((seg sp.segs 0 ++ [l]) :: sp.segs.drop 1) (w ++ [l]) := by
          intro _; left; simp
        have := ih (specStep len sp (.write l)) (w ++ [l])
          (by rw [hstep]; exact nl_rotateIf len _ _ hnl (Or.inr (by simp))) h2
        rw [hstep, specRotateIf_isOpen] at this
        simpa [specRun, hstep, written, ho] using this
      · have := ih sp w h h2
        simpa [specRun, specStep, written, ho] using this

/-! ### segments are closed only at the limit -/

/-- every init of the history has `max_bytes ≥ M` -/
def LowLimit (M : Nat) : List (Op α) → Prop
  | [] => True
  | .init mb _ :: ops => M ≤ mb ∧ LowLimit M ops
  | _ :: ops => LowLimit M ops

theorem specRotateIf_cases (len : α → Nat) (sp : Spec α) :
    (specRotateIf len sp).segs = sp.segs ∨
    ((specRotateIf len sp).segs = [] :: sp.segs ∧ sp.maxBytes ≤ fsize len (seg sp.segs 0)) := by
  unfold specRotateIf; split
  · right; exact ⟨rfl, by assumption⟩
  · left; rfl

theorem specRotateIf_maxBytes (len : α → Nat) (sp : Spec α) :
    (specRotateIf len sp).maxBytes = sp.maxBytes := by
  unfold specRotateIf; split <;> rfl

/-- every segment closed during a run had reached the limit: all new segments except
the newest hold at least `M` bytes -/
theorem specRun_closed_full (len : α → Nat) (M : Nat) (ops : List (Op α)) : ∀ (sp : Spec α)
    (a : List α) (T : List (List α)), sp.segs = a :: T → (sp.isOpen = true → M ≤ sp.maxBytes) →
    LowLimit M ops →
    ∃ news, (specRun len sp ops).segs = news ++ T ∧ news ≠ [] ∧
      ∀ x ∈ news.drop 1, M ≤ fsize len x := by
  induction ops with
  | nil => intro sp a T h _ _; exact ⟨[a], by simp [specRun, h], by simp, by simp⟩
  | cons op ops ih =>
    intro sp a T h hmb hl
    have key : ∃ a', ((specStep len sp op).segs = a' :: T ∨
          ((specStep len sp op).segs = [] :: a' :: T ∧ M ≤ fsize len a')) ∧
        ((specStep len sp op).isOpen = true → M ≤ (specStep len sp op).maxBytes) ∧
        LowLimit M ops := by
      cases op with
      | close => exact ⟨a, Or.inl h, by simp [specStep], hl⟩
      | init mb bc =>
        obtain ⟨hM, hl'⟩ := hl
        refine ⟨a, ?_, by simp [specStep, specRotateIf_maxBytes, hM], hl'⟩
        rcases specRotateIf_cases len { sp with isOpen := true, maxBytes := mb } with e | ⟨e, hge⟩
        · left; simp only [specStep]; rw [e]; exact h
        · right; simp only [specStep]; rw [e]
          refine ⟨by simp [h], ?_⟩
          simp only [h, seg_cons_zero] at hge; omega
      | write l =>
        by_cases ho : sp.isOpen = true
        · have hstep : specStep len sp (.write l) = specRotateIf len
              { sp with segs := (seg sp.segs 0 ++ [l]) :: sp.segs.drop 1 } := by
            simp only [specStep]; rw [if_pos ho]
          refine ⟨a ++ [l], ?_, by rw [hstep, specRotateIf_isOpen, specRotateIf_maxBytes]; exact hmb, hl⟩
          rw [hstep]
          rcases specRotateIf_cases len { sp with segs := (seg sp.segs 0 ++ [l]) :: sp.segs.drop 1 }
            with e | ⟨e, hge⟩
          · left; rw [e]; simp [h]
          · right; rw [e]
            refine ⟨by simp [h], ?_⟩
            have := hmb ho
            simp only [h, seg_cons_zero] at hge; omega
        · exact ⟨a, Or.inl (by simp [specStep, ho, h]), by simp [specStep, ho], hl⟩
    obtain ⟨a', hs, hmb', hl'⟩ := key
    rcases hs with hs | ⟨hs, hbig⟩
    · obtain ⟨news, h1, h2, h3⟩ := ih _ a' T hs hmb' hl'
      exact ⟨news, by simpa [specRun] using h1, h2, h3⟩
    · obtain ⟨news, h1, h2, h3⟩ := ih _ [] (a' :: T) hs hmb' hl'
      refine ⟨news ++ [a'], by simpa [specRun] using h1, by simp, ?_⟩
      intro x hx
      cases news with
      | nil => exact absurd rfl h2
      | cons n ns =>
        simp only [List.cons_append, List.drop_one, List.tail_cons, List.mem_append,
          List.mem_singleton] at hx h3
        rcases hx with hx | rfl
        · exact h3 x hx
        · exact hbig

/-- the `j`-th newest segment, for `1 ≤ j ≤ rotations`, was closed at the limit -/
theorem seg_closed_full (len : α → Nat) (M : Nat) (ops : List (Op α)) (sp : Spec α)
    (a : List α) (T : List (List α)) (h : sp.segs = a :: T) (ho : sp.isOpen = false)
    (hl : LowLimit M ops) (j : Nat) (hj1 : 1 ≤ j) (hjr : j ≤ rotations len sp ops) :
    M ≤ fsize len (seg (specRun len sp ops).segs j) := by
  obtain ⟨news, h1, h2, _⟩ := specRun_head len ops sp a T h
  obtain ⟨news', h1', _, h3'⟩ := specRun_closed_full len M ops sp a T h (by simp [ho]) hl
  have : news = news' := List.append_cancel_right (h1.symm.trans h1')
  subst this
  have hlt : j < news.length := by omega
  have hseg : seg (specRun len sp ops).segs j = news[j] := by
    rw [h1, seg, List.getD_eq_getElem?_getD, List.getElem?_append_left hlt,
      List.getElem?_eq_getElem hlt]; rfl
  rw [hseg]
  apply h3'
  obtain ⟨j', rfl⟩ : ∃ j', j = j' + 1 := ⟨j - 1, by omega⟩
  rw [List.drop_one]
  cases news with
  | nil => simp at hlt
  | cons n ns => simp

/-! ### files outside the rotation chain -/

/-- every init of the history keeps at most `K` backups (`max(backup_count,1) ≤ K`) -/
def AtMost (K : Nat) : List (Op α) → Prop
  | [] => True
  | .init _ bc :: ops => eff bc ≤ K ∧ AtMost K ops
  | _ :: ops => AtMost K ops

theorem rotate_untouched (h : RH) (fs : FS α) (j : Nat) (hl : fs.live.isSome)
    (hj : eff h.backupCount < j) : bget (rotate h fs).2.bak j = bget fs.bak j := by
  obtain ⟨c, hc⟩ := Option.isSome_iff_exists.mp hl
  obtain ⟨_, _, h3⟩ := rotate_spec h fs c hc
  rw [h3]
  have : 1 ≤ eff h.backupCount := by simp [eff]; omega
  grind

/-- files above the largest configured backup index are never touched -/
theorem untouched_run (len : α → Nat) (K j : Nat) (hj : K < j) (ops : List (Op α)) :
    ∀ (s : St α), (s.h.isOpen = true → s.fs.live.isSome ∧ eff s.h.backupCount ≤ K) → AtMost K ops →
    bget (run len s ops).fs.bak j = bget s.fs.bak j := by
  induction ops with
  | nil => intro s _ _; rfl
  | cons op ops ih =>
    intro s hs ha
    cases op with
    | close =>
      rw [run, ih _ (by simp [step, close]) ha]; rfl
    | init mb bc =>
      obtain ⟨hb, ha'⟩ := ha
      rw [run, ih _ ?_ ha']
      · simp only [step, init]
        split
        · exact rotate_untouched _ _ j (by simp) (by simpa using Nat.lt_of_le_of_lt hb hj)
        · rfl
      · intro _
        simp only [step, init]
        split <;> simp [rotate, hb]
    | write l =>
      rw [run, ih _ ?_ ha]
      · simp only [step, write]
        by_cases ho : s.h.isOpen = true
        · obtain ⟨_, hb⟩ := hs ho
          simp only [ho, if_true]
          split
          · exact rotate_untouched _ _ j (by simp) (by simpa using Nat.lt_of_le_of_lt hb hj)
          · rfl
        · simp [ho]
      · intro ho'
        simp only [step, write] at ho' ⊢
        by_cases ho : s.h.isOpen = true
        · obtain ⟨_, hb⟩ := hs ho
          simp only [ho, if_true]
          split <;> simp [rotate, hb]
        · simp [ho] at ho'

end MgProof.C17
