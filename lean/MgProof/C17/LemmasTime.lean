import MgModel.C17.Time
namespace MgProof.C17
end MgProof.C17
