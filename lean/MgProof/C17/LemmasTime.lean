import MgModel.C17.Time
/-!
# C17 — lemmas for the time-rotating handler (fixed order: detect, rotate, write)

`needRot` (the `switch` of `detect`) is the negation of "same period"; a file name
stands for the period of the time it was made from; the representation invariant
`TInv`; one `write` files its line correctly (`twrite_spec`); whole histories
(`trun_filed`).
-/
namespace MgProof.C17
open MgModel.C17
variable {β : Type}

/-- the `switch` of `detect` asks for a rotation exactly when the period changes -/
theorem needRot_eq_false_iff (u : RotUnit) (m : Nat) (c l : Tm) :
    needRot u m c l = false ↔ periodOf u m c = periodOf u m l := by
  cases u <;> simp [needRot, periodOf] <;> grind

/-- a file name stands for the period of the time it was made from -/
theorem periodOf_nameOf (u : RotUnit) (m : Nat) (t : Tm) :
    periodOf u m (nameOf u t).tm = periodOf u m t := by
  cases u <;> simp [periodOf, nameOf, Name.tm]

theorem nameOf_unit (u : RotUnit) (t : Tm) : (nameOf u t).unit = u := by
  cases u <;> rfl

/-- a name made by `rotate` is its own truncation (the fields below the unit are absent) -/
theorem nameOf_idem (u : RotUnit) (t : Tm) : nameOf u (nameOf u t).tm = nameOf u t := by
  cases u <;> rfl

/-- representation invariant of the time handler, with `lo` an upper bound of `last_sec`
(the newest effective time seen so far) -/
structure TInv (toTm : Bool → Int → Tm) (s : TSt β) (lo : Int) : Prop where
  cur : ∀ n, s.h.cur = some n → n.unit = s.h.unit ∧
    periodOf s.h.unit s.h.mod n.tm = periodOf s.h.unit s.h.mod s.h.lastTm ∧
    nameOf s.h.unit n.tm = n
  tm : s.h.cur.isSome → s.h.lastTm = toTm s.h.useLocal s.h.lastSec ∧ 1 ≤ s.h.mod ∧ s.h.lastSec ≤ lo

theorem tinv_mono {toTm : Bool → Int → Tm} {s : TSt β} {lo lo' : Int} (inv : TInv toTm s lo)
    (h : lo ≤ lo') : TInv toTm s lo' :=
  ⟨inv.cur, fun ho => let ⟨a, b, c⟩ := inv.tm ho; ⟨a, b, Int.le_trans c h⟩⟩

/-- `init` establishes the invariant whatever was there before -/
theorem tinit_inv (toTm : Bool → Int → Tm) (clock : Int) (fs : TFS β) (u : RotUnit) (m : Nat)
    (loc : Bool) (hm : 1 ≤ m) :
    TInv toTm ⟨(tinit toTm clock fs u m loc).1, (tinit toTm clock fs u m loc).2⟩ clock ∧
    (tinit toTm clock fs u m loc).2.recs = fs.recs ∧
    (tinit toTm clock fs u m loc).1.cur = some (nameOf u (toTm loc clock)) := by
  refine ⟨⟨?_, ?_⟩, rfl, rfl⟩
  · intro n hn
    simp only [tinit, trotate, Option.some.injEq] at hn
    subst hn
    exact ⟨nameOf_unit .., periodOf_nameOf .., nameOf_idem ..⟩
  · intro _
    exact ⟨rfl, hm, Int.le_refl _⟩

/-- **one write** (fixed code): from a state satisfying the invariant, a message whose
effective time is not older than the newest one seen is appended, whole, to exactly
one file, and that file is named for the period containing the message's time -/
theorem twrite_spec {toTm : Bool → Int → Tm} {s : TSt β} {lo : Int} (inv : TInv toTm s lo)
    (clock ts : Int) (l : β) (hopen : s.h.cur.isSome) (hlo : lo ≤ effSec clock ts) :
    ∃ h' fs' n, twrite toTm clock s.h s.fs ts l = .ok (h', fs') ∧
      fs'.recs = s.fs.recs ++ [⟨n, effSec clock ts, l⟩] ∧
      (Filed toTm s.h.unit s.h.mod s.h.useLocal ⟨n, effSec clock ts, l⟩ ∧
        nameOf s.h.unit n.tm = n) ∧
      h'.unit = s.h.unit ∧ h'.mod = s.h.mod ∧ h'.useLocal = s.h.useLocal ∧ h'.cur = some n ∧
      TInv toTm ⟨h', fs'⟩ (effSec clock ts) := by
  obtain ⟨n0, hn0⟩ := Option.isSome_iff_exists.mp hopen
  obtain ⟨htm, hmod, hls⟩ := inv.tm hopen
  obtain ⟨hu0, hp0, hid0⟩ := inv.cur n0 hn0
  generalize hsec : effSec clock ts = sec at *
  have hm0 : s.h.mod ≠ 0 := by omega
  by_cases hge : s.h.lastSec ≥ sec
  · -- same second as the newest message: no detection, current file
    have hEq : sec = s.h.lastSec := by omega
    refine ⟨s.h, { s.fs with recs := s.fs.recs ++ [⟨n0, sec, l⟩] }, n0, ?_, rfl, ?_, rfl, rfl, rfl, hn0, ?_⟩
    · simp [twrite, hn0, hsec, detect, hge, bind, Except.bind]
    · exact ⟨⟨hu0, by rw [hp0, htm, hEq]⟩, hid0⟩
    · exact ⟨inv.cur, fun ho => ⟨htm, hmod, by show s.h.lastSec ≤ sec; omega⟩⟩
  · by_cases hrot : needRot s.h.unit s.h.mod (toTm s.h.useLocal sec) s.h.lastTm = true
    · -- a new period: switch to its file first
      let n := nameOf s.h.unit (toTm s.h.useLocal sec)
      refine ⟨{ s.h with lastSec := sec, lastTm := toTm s.h.useLocal sec, cur := some n },
        { created := if s.fs.created.contains n then s.fs.created else s.fs.created ++ [n],
          recs := s.fs.recs ++ [⟨n, sec, l⟩] }, n, ?_, rfl, ?_, rfl, rfl, rfl, rfl, ?_⟩
      · simp [twrite, hn0, hsec, detect, hge, hm0, hrot, trotate, bind, Except.bind, n]
      · exact ⟨⟨nameOf_unit .., periodOf_nameOf ..⟩, nameOf_idem ..⟩
      · refine ⟨?_, fun _ => ⟨rfl, hmod, Int.le_refl _⟩⟩
        intro n' hn'
        simp only [Option.some.injEq] at hn'
        subst hn'
        exact ⟨nameOf_unit .., periodOf_nameOf .., nameOf_idem ..⟩
    · -- same period: current file
      have hsame := (needRot_eq_false_iff _ _ _ _).mp (by simpa using hrot)
      refine ⟨{ s.h with lastSec := sec, lastTm := toTm s.h.useLocal sec },
        { s.fs with recs := s.fs.recs ++ [⟨n0, sec, l⟩] }, n0, ?_, rfl, ?_, rfl, rfl, rfl, hn0, ?_⟩
      · simp [twrite, hn0, hsec, detect, hge, hm0, hrot, bind, Except.bind]
      · exact ⟨⟨hu0, by rw [hp0, hsame]⟩, hid0⟩
      · refine ⟨?_, fun _ => ⟨rfl, hmod, Int.le_refl _⟩⟩
        intro n' hn'
        have : n' = n0 := by simpa [hn0] using hn'.symm
        subst this
        exact ⟨hu0, by rw [hp0, hsame], hid0⟩

/-- hypothesis on a history: `rotate_mod ≥ 1` at every init, and every message's
effective time is at least the newest time seen since (and including) the last init -/
def Timely : Int → List (TOp β) → Prop
  | _, [] => True
  | _, .init c _ m _ :: ops => 1 ≤ m ∧ Timely c ops
  | lo, .write c ts _ :: ops => lo ≤ effSec c ts ∧ Timely (effSec c ts) ops
  | lo, .close :: ops => Timely lo ops

/-- every init of the history uses the configuration `u m loc` -/
def CfgConst (u : RotUnit) (m : Nat) (loc : Bool) : List (TOp β) → Prop
  | [] => True
  | .init _ u' m' loc' :: ops => (u' = u ∧ m' = m ∧ loc' = loc) ∧ CfgConst u m loc ops
  | _ :: ops => CfgConst u m loc ops

theorem twrite_closed (toTm : Bool → Int → Tm) (clock : Int) (h : TH) (fs : TFS β) (ts : Int) (l : β)
    (hc : h.cur = none) : twrite toTm clock h fs ts l = .ok (h, fs) := by
  simp [twrite, hc]

/-- **whole histories, one configuration** (fixed code): the run never fails, every
record appended during it is filed in the file named for its period, and the appended
lines are exactly the lines handed to the open handler, in order. -/
theorem trun_filed (toTm : Bool → Int → Tm) (u : RotUnit) (m : Nat) (loc : Bool)
    (ops : List (TOp β)) : ∀ (s : TSt β) (lo : Int), TInv toTm s lo → Timely lo ops →
    CfgConst u m loc ops →
    (s.h.cur.isSome → s.h.unit = u ∧ s.h.mod = m ∧ s.h.useLocal = loc) →
    ∃ s', trun toTm s ops = .ok s' ∧ ∃ new : List (Rec β),
      s'.fs.recs = s.fs.recs ++ new ∧
      (∀ r ∈ new, Filed toTm u m loc r ∧ nameOf u r.name.tm = r.name) ∧
      new.map (·.line) = twritten s.h.cur.isSome ops := by
  induction ops with
  | nil => intro s lo _ _ _ _; exact ⟨s, rfl, [], by simp, by simp, rfl⟩
  | cons op ops ih =>
    intro s lo inv ht hc hcfg
    cases op with
    | init c u' m' loc' =>
      obtain ⟨hm, ht'⟩ := ht
      obtain ⟨⟨rfl, rfl, rfl⟩, hc'⟩ := hc
      obtain ⟨inv', hrecs, hcur⟩ := tinit_inv toTm c s.fs u' m' loc' hm
      obtain ⟨s', hs', new, h1, h2, h3⟩ := ih _ c inv' ht' hc' (fun _ => ⟨rfl, rfl, rfl⟩)
      refine ⟨s', by simpa [trun, tstep, bind, Except.bind] using hs', new, ?_, h2, ?_⟩
      · rw [h1]; exact congrArg (· ++ new) hrecs
      · rw [h3]; simp [hcur, twritten]
    | close =>
      have inv' : TInv toTm { s with h := tclose s.h } lo :=
        ⟨fun n hn => by simp [tclose] at hn, fun ho => by simp [tclose] at ho⟩
      obtain ⟨s', hs', new, h1, h2, h3⟩ := ih _ lo inv' ht hc (fun ho => by simp [tclose] at ho)
      refine ⟨s', by simpa [trun, tstep, bind, Except.bind] using hs', new, h1, h2, ?_⟩
      rw [h3]; simp [tclose, twritten]
    | write c ts l =>
      obtain ⟨hlo, ht'⟩ := ht
      by_cases ho : s.h.cur.isSome
      · obtain ⟨h', fs', n, hw, hr, ⟨hf, hcanon⟩, e1, e2, e3, e4, inv'⟩ := twrite_spec inv c ts l ho hlo
        obtain ⟨hu, hm, hl⟩ := hcfg ho
        obtain ⟨s', hs', new, h1, h2, h3⟩ := ih ⟨h', fs'⟩ _ inv' ht' hc
          (fun _ => ⟨by rw [e1, hu], by rw [e2, hm], by rw [e3, hl]⟩)
        refine ⟨s', by simpa [trun, tstep, hw, bind, Except.bind] using hs',
          ⟨n, effSec c ts, l⟩ :: new, ?_, ?_, ?_⟩
        · rw [h1, hr]; simp
        · intro r hr'
          rcases List.mem_cons.mp hr' with rfl | hr'
          · rw [← hu, ← hm, ← hl]; exact ⟨hf, hcanon⟩
          · exact h2 r hr'
        · simp [h3, twritten, ho, e4]
      · have hn : s.h.cur = none := by simpa using ho
        have inv' : TInv toTm s (effSec c ts) :=
          ⟨fun n hn' => by simp [hn] at hn', fun ho' => by simp [hn] at ho'⟩
        obtain ⟨s', hs', new, h1, h2, h3⟩ := ih s _ inv' ht' hc (fun ho' => by simp [hn] at ho')
        refine ⟨s', by simpa [trun, tstep, twrite_closed _ _ _ _ _ _ hn, bind, Except.bind] using hs',
          new, h1, h2, ?_⟩
        rw [h3]; simp [twritten, hn]

/-! ### reconfiguration at restarts -/

/-- configuration of an open handler -/
structure Cfg where
  unit : RotUnit
  mod  : Nat
  loc  : Bool

def cfgOf (h : TH) : Option Cfg := if h.cur.isSome then some ⟨h.unit, h.mod, h.useLocal⟩ else none

/-- the lines accepted by the handler, each with the configuration in force -/
def twrittenCfg : Option Cfg → List (TOp β) → List (β × Cfg)
  | _, [] => []
  | _, .init _ u m loc :: ops => twrittenCfg (some ⟨u, m, loc⟩) ops
  | some c, .write _ _ l :: ops => (l, c) :: twrittenCfg (some c) ops
  | none, .write _ _ _ :: ops => twrittenCfg none ops
  | _, .close :: ops => twrittenCfg none ops

/-- record by record: the line handed in, filed under the configuration in force -/
def FiledAs (toTm : Bool → Int → Tm) : List (Rec β) → List (β × Cfg) → Prop
  | [], [] => True
  | r :: rs, p :: ps =>
    (r.line = p.1 ∧ Filed toTm p.2.unit p.2.mod p.2.loc r) ∧ FiledAs toTm rs ps
  | _, _ => False

/-- **whole histories with reconfiguration at restarts** (fixed code): every appended
record carries the line handed in and is filed under the configuration of the handler
that was open at the time. -/
theorem trun_filed_cfg (toTm : Bool → Int → Tm) (ops : List (TOp β)) :
    ∀ (s : TSt β) (lo : Int), TInv toTm s lo → Timely lo ops →
    ∃ s', trun toTm s ops = .ok s' ∧ ∃ new : List (Rec β),
      s'.fs.recs = s.fs.recs ++ new ∧
      FiledAs toTm new (twrittenCfg (cfgOf s.h) ops) := by
  induction ops with
  | nil => intro s lo _ _; exact ⟨s, rfl, [], by simp, by simp [twrittenCfg, FiledAs]⟩
  | cons op ops ih =>
    intro s lo inv ht
    cases op with
    | init c u m loc =>
      obtain ⟨hm, ht'⟩ := ht
      obtain ⟨inv', hrecs, hcur⟩ := tinit_inv toTm c s.fs u m loc hm
      obtain ⟨s', hs', new, h1, h2⟩ := ih _ c inv' ht'
      refine ⟨s', by simpa [trun, tstep, bind, Except.bind] using hs', new, ?_, ?_⟩
      · rw [h1]; exact congrArg (· ++ new) hrecs
      · have : cfgOf (tinit toTm c s.fs u m loc).1 = some ⟨u, m, loc⟩ := by
          simp [cfgOf, hcur]; simp [tinit, trotate]
        rw [this] at h2
        simpa [twrittenCfg] using h2
    | close =>
      have inv' : TInv toTm { s with h := tclose s.h } lo :=
        ⟨fun n hn => by simp [tclose] at hn, fun ho => by simp [tclose] at ho⟩
      obtain ⟨s', hs', new, h1, h2⟩ := ih _ lo inv' ht
      refine ⟨s', by simpa [trun, tstep, bind, Except.bind] using hs', new, h1, ?_⟩
      have : cfgOf (tclose s.h) = none := by simp [cfgOf, tclose]
      rw [this] at h2
      simpa [twrittenCfg] using h2
    | write c ts l =>
      obtain ⟨hlo, ht'⟩ := ht
      by_cases ho : s.h.cur.isSome
      · obtain ⟨h', fs', n, hw, hr, ⟨hf, hcanon⟩, e1, e2, e3, e4, inv'⟩ := twrite_spec inv c ts l ho hlo
        obtain ⟨s', hs', new, h1, h2⟩ := ih ⟨h', fs'⟩ _ inv' ht'
        refine ⟨s', by simpa [trun, tstep, hw, bind, Except.bind] using hs',
          ⟨n, effSec c ts, l⟩ :: new, by rw [h1, hr]; simp, ?_⟩
        have hc1 : cfgOf s.h = some ⟨s.h.unit, s.h.mod, s.h.useLocal⟩ := by simp [cfgOf, ho]
        have hc2 : cfgOf h' = some ⟨s.h.unit, s.h.mod, s.h.useLocal⟩ := by
          simp [cfgOf, e1, e2, e3, e4]
        rw [hc1, twrittenCfg]
        rw [hc2] at h2
        exact ⟨⟨rfl, hf⟩, h2⟩
      · have hn : s.h.cur = none := by simpa using ho
        have inv' : TInv toTm s (effSec c ts) :=
          ⟨fun n hn' => by simp [hn] at hn', fun ho' => by simp [hn] at ho'⟩
        obtain ⟨s', hs', new, h1, h2⟩ := ih s _ inv' ht'
        refine ⟨s', by simpa [trun, tstep, twrite_closed _ _ _ _ _ _ hn, bind, Except.bind] using hs',
          new, h1, ?_⟩
        have : cfgOf s.h = none := by simp [cfgOf, hn]
        rw [this] at h2 ⊢
        simpa [twrittenCfg] using h2

end MgProof.C17
