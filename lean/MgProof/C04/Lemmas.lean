import MgModel.C04.Locks
import MgModel.C04.Once
import MgModel.C04.RefCnt
namespace MgProof.C04
end MgProof.C04
