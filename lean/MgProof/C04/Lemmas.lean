import MgModel.C04.Locks
import MgModel.C04.Once
import MgModel.C04.RefCnt
/-! Invariants and their preservation for the C04 models. Property theorems: `Props.lean`. -/
namespace MgProof.C04
open MgModel.Conc MgModel.C04

/-! ## Locks -/

/-- thread `t` holds the lock: between a successful acquire and its release -/
def holds (s : St) (t : Nat) : Prop :=
  s.pc t = .csRead ∨ (∃ tmp, s.pc t = .csWrite tmp) ∨ s.pc t = .rel

/-- thread `t` is inside the harness's ghost critical-section window -/
def inCS (s : St) (t : Nat) : Prop :=
  s.pc t = .csRead ∨ (∃ tmp, s.pc t = .csWrite tmp)

structure LockInv (k : Kind) (s : St) : Prop where
  kind   : s.kind = k
  locked : ∀ t, holds s t → s.lock = 1
  excl   : ∀ t u, holds s t → holds s u → t = u
  cnt1   : s.inCs ≤ 1
  cnt0   : s.inCs ≠ 0 → ∃ t, inCS s t
  viol   : s.viol = 0
  hb     : s.dataW = 0 ∨ ((s.lock = 0 → s.dataW ∈ s.relSet) ∧ ∀ t, holds s t → s.dataW ∈ s.know t)
  stale  : s.staleReads = 0

theorem lockInv_init (k : Kind) (n r : Nat) : LockInv k (mkInit k n r) := by
  refine ⟨rfl, ?_, ?_, by simp [mkInit], by simp [mkInit], rfl, Or.inl rfl, rfl⟩
  · intro t h
    simp only [holds, mkInit] at h
    split at h <;> simp at h
  · intro t u h
    simp only [holds, mkInit] at h
    split at h <;> simp at h

theorem firstBlocked_blocked {pc : Nat → Pc} {k i w : Nat} (h : firstBlocked pc k i = some w) :
    pc w = .blocked := by
  induction k generalizing i with
  | zero => simp [firstBlocked] at h
  | succ k ih =>
    simp only [firstBlocked] at h
    split at h
    · injection h with h; subst h; assumption
    · exact ih h

/-- entering the critical section from a state where the lock was free -/
theorem enterCs_inv {k : Kind} {s : St} {t : Nat} (inv : LockInv k s)
    (hfree : s.lock = 0) (hnot : ¬ holds s t) :
    LockInv k (enterCs { s with lock := 1 } t).1 := by
  have nobody : ∀ u, ¬ holds s u := fun u hu => by have := inv.locked u hu; omega
  have hc0 : s.inCs = 0 := by
    by_cases h : s.inCs = 0
    · exact h
    · obtain ⟨u, hu⟩ := inv.cnt0 h
      exact absurd (by rcases hu with hu | hu; exact Or.inl hu; exact Or.inr (Or.inl hu)) (nobody u)
  have hone : ¬ (s.inCs + 1 ≠ 1) := by omega
  unfold enterCs
  simp only [hone, if_false]
  refine ⟨inv.kind, fun _ _ => rfl, ?_, by simp [hc0], ?_, inv.viol, ?_, inv.stale⟩
  · intro a b ha hb
    have ha' : a = t := by
      by_cases h : a = t
      · exact h
      · exfalso; apply nobody a
        simpa [holds, upd, h] using ha
    have hb' : b = t := by
      by_cases h : b = t
      · exact h
      · exfalso; apply nobody b
        simpa [holds, upd, h] using hb
    omega
  · intro _
    exact ⟨t, Or.inl (by simp)⟩
  · rcases inv.hb with h | ⟨h1, _⟩
    · exact Or.inl h
    · refine Or.inr ⟨by simp, ?_⟩
      intro u hu
      have hut : u = t := by
        by_cases h : u = t
        · exact h
        · exfalso; apply nobody u
          simpa [holds, upd, h] using hu
      subst hut
      simp only [upd_same]
      exact mem_kmerge_right _ (h1 hfree)

/-- a step that changes only the pc of `t` to a value outside the lock-holding set,
from a pc outside it -/
theorem pcOnly_inv {k : Kind} {s : St} {t : Nat} {p : Pc} (inv : LockInv k s)
    (hold : ¬ holds s t)
    (hp : p ≠ .csRead ∧ (∀ tmp, p ≠ .csWrite tmp) ∧ p ≠ .rel) :
    LockInv k { s with pc := upd s.pc t p } := by
  have key : ∀ u, holds { s with pc := upd s.pc t p } u → holds s u ∧ u ≠ t := by
    intro u hu
    by_cases h : u = t
    · subst h
      simp only [holds, upd_same] at hu
      rcases hu with hu | ⟨tmp, hu⟩ | hu
      · exact absurd hu hp.1
      · exact absurd hu (hp.2.1 tmp)
      · exact absurd hu hp.2.2
    · exact ⟨by simpa [holds, upd, h] using hu, h⟩
  refine ⟨inv.kind, fun u hu => inv.locked u (key u hu).1,
    fun a b ha hb => inv.excl a b (key a ha).1 (key b hb).1, inv.cnt1, ?_, inv.viol, ?_, inv.stale⟩
  · intro h
    obtain ⟨u, hu⟩ := inv.cnt0 h
    have hut : u ≠ t := by
      intro e; subst e
      exact hold (by rcases hu with hu | hu; exact Or.inl hu; exact Or.inr (Or.inl hu))
    exact ⟨u, by simpa [inCS, upd, hut] using hu⟩
  · rcases inv.hb with h | ⟨h1, h2⟩
    · exact Or.inl h
    · exact Or.inr ⟨h1, fun u hu => h2 u (key u hu).1⟩


theorem lockInv_congr {k : Kind} {s s' : St} (inv : LockInv k s)
    (h1 : s'.kind = s.kind) (h2 : s'.lock = s.lock) (h3 : s'.pc = s.pc) (h4 : s'.inCs = s.inCs)
    (h5 : s'.viol = s.viol) (h6 : s'.dataW = s.dataW) (h7 : s'.relSet = s.relSet)
    (h8 : s'.know = s.know) (h9 : s'.staleReads = s.staleReads) : LockInv k s' := by
  obtain ⟨a, b, c, d, e, f, g, h⟩ := inv
  refine ⟨by rw [h1]; exact a, ?_, ?_, by rw [h4]; exact d, ?_, by rw [h5]; exact f, ?_, by rw [h9]; exact h⟩
  · intro t ht; rw [h2]; apply b t; simpa [holds, h3] using ht
  · intro t u ht hu
    exact c t u (by simpa [holds, h3] using ht) (by simpa [holds, h3] using hu)
  · intro hh; rw [h4] at hh; obtain ⟨t, ht⟩ := e hh; exact ⟨t, by simpa [inCS, h3] using ht⟩
  · rw [h6, h2, h7, h8]
    rcases g with g | ⟨g1, g2⟩
    · exact Or.inl g
    · exact Or.inr ⟨g1, fun t ht => g2 t (by simpa [holds, h3] using ht)⟩

/-- the holder reads `data`: it is guaranteed to see the latest write -/
theorem csRead_inv {k : Kind} {s : St} {t : Nat} (inv : LockInv k s) (hpc : s.pc t = .csRead) :
    LockInv k { s with pc := upd s.pc t (.csWrite s.data),
                       staleReads := s.staleReads +
                         (if s.dataW = 0 ∨ s.dataW ∈ s.know t then 0 else 1) } := by
  have ht : holds s t := Or.inl hpc
  have key : ∀ u, holds { s with pc := upd s.pc t (.csWrite s.data) } u → holds s u := by
    intro u hu
    by_cases h : u = t
    · subst h; exact ht
    · simpa [holds, upd, h] using hu
  have hseen : s.dataW = 0 ∨ s.dataW ∈ s.know t := by
    rcases inv.hb with h | ⟨_, h2⟩
    · exact Or.inl h
    · exact Or.inr (h2 t ht)
  refine ⟨inv.kind, fun u hu => inv.locked u (key u hu),
    fun a b ha hb => inv.excl a b (key a ha) (key b hb), inv.cnt1, ?_, inv.viol, ?_, ?_⟩
  · intro _
    exact ⟨t, Or.inr ⟨s.data, by simp⟩⟩
  · rcases inv.hb with h | ⟨h1, h2⟩
    · exact Or.inl h
    · exact Or.inr ⟨h1, fun u hu => h2 u (key u hu)⟩
  · simp [hseen, inv.stale]

/-- the holder writes `data` and leaves the ghost window -/
theorem csWrite_inv {k : Kind} {s : St} {t tmp : Nat} (inv : LockInv k s)
    (hpc : s.pc t = .csWrite tmp) :
    LockInv k { s with data := tmp + 1, pc := upd s.pc t .rel, inCs := s.inCs - 1,
                       dataW := s.nextW, nextW := s.nextW + 1,
                       know := upd s.know t (s.nextW :: s.know t) } := by
  have ht : holds s t := Or.inr (Or.inl ⟨tmp, hpc⟩)
  have key : ∀ u, holds { s with pc := upd s.pc t Pc.rel } u → holds s u := by
    intro u hu
    by_cases h : u = t
    · subst h; exact ht
    · simpa [holds, upd, h] using hu
  refine ⟨inv.kind, fun u hu => inv.locked u (key u hu),
    fun a b ha hb => inv.excl a b (key a ha) (key b hb), ?_, ?_, inv.viol, ?_, inv.stale⟩
  · have := inv.cnt1; show s.inCs - 1 ≤ 1; omega
  · intro h
    have := inv.cnt1
    exfalso; apply h; show s.inCs - 1 = 0; omega
  · refine Or.inr ⟨?_, ?_⟩
    · intro h0
      have := inv.locked t ht
      simp at h0; omega
    · intro u hu
      have hut : u = t := inv.excl u t (key u hu) ht
      subst hut
      simp

/-- the holder releases the lock -/
theorem release_inv {k : Kind} {s : St} {t : Nat} {p : Pc} (inv : LockInv k s)
    (hpc : s.pc t = .rel)
    (hp : p ≠ .csRead ∧ (∀ tmp, p ≠ .csWrite tmp) ∧ p ≠ .rel) :
    LockInv k { s with lock := 0, relSet := s.know t, pc := upd s.pc t p } := by
  have ht : holds s t := Or.inr (Or.inr hpc)
  have nobody : ∀ u, ¬ holds { s with pc := upd s.pc t p } u := by
    intro u hu
    by_cases h : u = t
    · subst h
      simp only [holds, upd_same] at hu
      rcases hu with hu | ⟨tmp, hu⟩ | hu
      · exact hp.1 hu
      · exact hp.2.1 tmp hu
      · exact hp.2.2 hu
    · have hu' : holds s u := by simpa [holds, upd, h] using hu
      exact h (inv.excl u t hu' ht)
  refine ⟨inv.kind, fun u hu => absurd hu (nobody u), fun a _ ha _ => absurd ha (nobody a),
    inv.cnt1, ?_, inv.viol, ?_, inv.stale⟩
  · intro h
    obtain ⟨u, hu⟩ := inv.cnt0 h
    have hu' : holds s u := by rcases hu with hu | hu; exact Or.inl hu; exact Or.inr (Or.inl hu)
    have hut : u = t := inv.excl u t hu' ht
    subst hut
    rcases hu with hu | ⟨tmp, hu⟩ <;> rw [hpc] at hu <;> simp at hu
  · rcases inv.hb with h | ⟨_, h2⟩
    · exact Or.inl h
    · exact Or.inr ⟨fun _ => h2 t ht, fun u hu => absurd hu (nobody u)⟩

/-! ## call_once -/

namespace OnceP
open MgModel.C04.Once

def running (p : Once.Pc) : Prop :=
  p = .b1 ∨ (∃ tmp, p = .b2 tmp) ∨ p = .b3 ∨ p = .pub

structure Inv (s : Once.St) : Prop where
  f0 : s.flag = 0 → s.bodyRuns = 0 ∧ s.bodyDone = 0 ∧ ∀ t, s.pc t = .cas
  f1 : s.flag = 1 → ∃ r, running (s.pc r) ∧ (∀ t, t ≠ r → s.pc t = .cas ∨ s.pc t = .spin) ∧
        (s.pc r = .b1 → s.bodyRuns = 0 ∧ s.bodyDone = 0) ∧
        (∀ tmp, s.pc r = .b2 tmp → tmp = 0 ∧ s.bodyRuns = 0 ∧ s.bodyDone = 0) ∧
        (s.pc r = .b3 → s.bodyRuns = 1 ∧ s.bodyDone = 0) ∧
        (s.pc r = .pub → s.bodyRuns = 1 ∧ s.bodyDone = 1 ∧ 1 ∈ s.know r)
  f2 : s.flag = 2 → s.bodyRuns = 1 ∧ s.bodyDone = 1 ∧ 1 ∈ s.relSet ∧
        (∀ t, s.pc t = .cas ∨ s.pc t = .spin ∨ s.pc t = .ret ∨ s.pc t = .done) ∧
        (∀ t, s.pc t = .ret → 1 ∈ s.know t)
  fle : s.flag ≤ 2
  early : s.early = 0
  stale : s.staleReads = 0

end OnceP

/-! ## ref_cnt -/

namespace RefP
open MgModel.C04.RefCnt

/-- the sequential specification: a counter that saturates at zero -/
def specApply (c : Nat) : Op → Nat × Option Nat
  | .retain => if c = 0 then (0, none) else (c + 1, some (c + 1))
  | .release => if c = 0 then (0, none) else (c - 1, some (c - 1))

def specRun : Nat → List Op → Nat × List (Option Nat)
  | c, [] => (c, [])
  | c, op :: ops =>
    let (c1, r) := specApply c op
    let (c2, rs) := specRun c1 ops
    (c2, r :: rs)

theorem specRun_append (c : Nat) (a b : List Op) :
    specRun c (a ++ b) =
      ((specRun (specRun c a).1 b).1, (specRun c a).2 ++ (specRun (specRun c a).1 b).2) := by
  induction a generalizing c with
  | nil => simp [specRun]
  | cons op a ih => simp [specRun, ih]

structure Inv (init : Nat) (s : RefCnt.St) : Prop where
  lin : specRun init (s.log.map Prod.fst) = (s.ref, s.log.map Prod.snd)
  casNz : ∀ t v, s.pc t = .cas v → v ≠ 0

end RefP

end MgProof.C04
