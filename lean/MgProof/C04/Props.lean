import MgProof.C04.Lemmas
namespace MgProof.C04
end MgProof.C04
