import MgProof.C04.LockStep
import MgProof.C04.OnceStep
import MgProof.C04.RefStep
/-!
# C04 — property theorems

Property (properties.jsonl): spinlock, synclock and mutex admit at most one holder at a
time and what one holder wrote inside the critical section is visible to the next
holder; call_once runs the function exactly once however many threads race, and no
caller returns before that run has completed; a reference counter behaves as a
linearizable counter that can never be incremented or decremented again once it has
reached zero, so for any mix of concurrent retains and releases exactly one release
observes zero.

Quantifiers: every number of threads, every number of rounds / every program, every
schedule of every length (`Conc.Reach` = closure of the step relation under all tokens),
at the granularity of single shared-memory accesses of the compiled code.
-/
namespace MgProof.C04
open MgModel.Conc MgModel.C04

/-! ## Locks -/

/-- **Mutual exclusion + visibility** for spinlock, synclock (strong CAS, as in the
repaired `synclock.c`) and mutex: in every reachable state of `n` threads doing any
number of rounds, at most one thread holds the lock, the harness's ghost check never
fires, and no reader of the protected data can miss the latest write
(`staleReads = 0`: the latest write id is in the reader's acquire knowledge). -/
theorem lock_exclusion_and_visibility (k : Kind) (hk : k ≠ .sync true) (n rounds : Nat)
    (s : St) (hr : Reach step (mkInit k n rounds) s) :
    (∀ t u, holds s t → holds s u → t = u) ∧ s.viol = 0 ∧ s.staleReads = 0 ∧
    (∀ t, holds s t → s.lock = 1) := by
  have inv : LockInv k s :=
    Reach.inv (LockInv k) (lockInv_init k n rounds)
      (fun _ _ _ _ h hs => lock_step_inv hk h hs) s hr
  exact ⟨inv.excl, inv.viol, inv.stale, inv.locked⟩

/-- the same, phrased for the run of any concrete schedule -/
theorem lock_exclusion_run (k : Kind) (hk : k ≠ .sync true) (n rounds : Nat) (sched : List Tok) :
    (runSched step (mkInit k n rounds) sched).1.viol = 0 ∧
    (runSched step (mkInit k n rounds) sched).1.staleReads = 0 := by
  have := lock_exclusion_and_visibility k hk n rounds _
    (reach_runSched step _ _ Reach.init sched)
  exact ⟨this.2.1, this.2.2.1⟩

/-- **Why the weak CAS had to go** (the defect repaired in /repo by `fix: synclock lock must
use a strong compare-exchange`): with a weak compare-exchange that fails spuriously the
full statement is false — the schedule `1! 0 …` replayed on the real object code puts
two threads inside the critical section. -/
theorem synclock_weak_cas_fails :
    ∃ sched : List Tok, (runSched step (mkInit (.sync true) 2 1) sched).1.viol ≠ 0 := by
  refine ⟨[⟨1, .spur⟩, ⟨0, .none⟩], ?_⟩
  decide

/-- the witness also loses an update: both threads complete, `data = 1` -/
example : (runSched step (mkInit (.sync true) 2 1)
    [⟨1, .spur⟩, ⟨0, .none⟩, ⟨0, .none⟩, ⟨1, .none⟩, ⟨1, .none⟩, ⟨1, .none⟩, ⟨0, .none⟩,
     ⟨1, .none⟩, ⟨0, .none⟩, ⟨0, .none⟩]).1.data = 1 := by decide

/-- non-vacuity: a concrete contended schedule of the spinlock reaches a state with a
holder while another thread spins -/
example : holds (runSched step (mkInit .spin 2 1) [⟨1, .none⟩, ⟨0, .none⟩]).1 1 ∧
    (runSched step (mkInit .spin 2 1) [⟨1, .none⟩, ⟨0, .none⟩]).1.pc 0 = .yld := by
  constructor
  · left; decide
  · decide

/-! ## call_once -/

/-- **call_once**: in every reachable state of `n` racing callers the body has run at most
once, every caller that has returned did so after the body completed (`early = 0`) and is
guaranteed to see the body's writes (`staleReads = 0`), and a returned caller implies
the body ran exactly once. -/
theorem call_once_once (n : Nat) (s : Once.St) (hr : Reach Once.step (Once.mkInit n) s) :
    s.bodyRuns ≤ 1 ∧ s.early = 0 ∧ s.staleReads = 0 ∧
    (∀ t, s.pc t = .done → s.bodyRuns = 1 ∧ s.bodyDone = 1) := by
  have inv : OnceP.Inv s :=
    Reach.inv OnceP.Inv (OnceP.inv_init n) (fun _ _ _ _ h hs => OnceP.step_inv h hs) s hr
  obtain ⟨f0, f1, f2, fle, he, hst⟩ := inv
  refine ⟨?_, he, hst, ?_⟩
  · by_cases h0 : s.flag = 0
    · rw [(f0 h0).1]; omega
    · by_cases h1 : s.flag = 1
      · obtain ⟨r, hr, _, a, b, c, d⟩ := f1 h1
        rcases hr with h | ⟨tmp, h⟩ | h | h
        · rw [(a h).1]; omega
        · rw [(b tmp h).2.1]; omega
        · rw [(c h).1]; omega
        · rw [(d h).1]; omega
      · have h2 : s.flag = 2 := by omega
        rw [(f2 h2).1]; omega
  · intro t ht
    have h2 : s.flag = 2 := by
      by_cases h0 : s.flag = 0
      · have := (f0 h0).2.2 t; rw [this] at ht; simp at ht
      · by_cases h1 : s.flag = 1
        · obtain ⟨r, hr, ho, _⟩ := f1 h1
          by_cases h : t = r
          · subst h; rw [ht] at hr; simp [OnceP.running] at hr
          · rcases ho t h with h' | h' <;> rw [h'] at ht <;> simp at ht
        · omega
    exact ⟨(f2 h2).1, (f2 h2).2.1⟩

/-- non-vacuity: three callers, a schedule in which a loser spins while the body runs -/
example : (runSched Once.step (Once.mkInit 3)
    [⟨1, .none⟩, ⟨0, .none⟩, ⟨0, .none⟩, ⟨1, .none⟩, ⟨1, .none⟩, ⟨1, .none⟩, ⟨1, .none⟩,
     ⟨0, .none⟩, ⟨0, .none⟩]).1.pc 0 = .done := by decide

/-! ## ref_cnt -/

open RefP in
/-- **ref_cnt is linearizable to a counter saturating at zero**: in every reachable state
of any number of threads running any retain/release programs, the completed operations,
in completion order, with the results they returned, are exactly a sequential run of the
specification counter from the initial value, ending at the current value. -/
theorem ref_cnt_linearizable (init : Nat) (progs : List (List RefCnt.Op)) (s : RefCnt.St)
    (hr : Reach RefCnt.step (RefCnt.mkInit init progs) s) :
    specRun init (s.log.map Prod.fst) = (s.ref, s.log.map Prod.snd) :=
  (Reach.inv (Inv init) (inv_init init progs) (fun _ _ _ _ h hs => step_inv h hs) s hr).lin

open RefP in
/-- **at most one operation observes zero, and it is a release; exactly one if the counter
ended at zero**; after zero every operation fails (`specRun_zero`). -/
theorem ref_cnt_one_zero (init : Nat) (progs : List (List RefCnt.Op)) (s : RefCnt.St)
    (hr : Reach RefCnt.step (RefCnt.mkInit init progs) s) :
    (s.log.map Prod.snd).count (some 0) ≤ 1 ∧
    (init ≠ 0 → s.ref = 0 → (s.log.map Prod.snd).count (some 0) = 1) ∧
    (∀ i : Nat, (s.log.map Prod.snd)[i]? = some (some 0) → (s.log.map Prod.fst)[i]? = some RefCnt.Op.release) := by
  have lin := ref_cnt_linearizable init progs s hr
  have h2 : (specRun init (s.log.map Prod.fst)).2 = s.log.map Prod.snd := by rw [lin]
  have h1 : (specRun init (s.log.map Prod.fst)).1 = s.ref := by rw [lin]
  refine ⟨?_, ?_, ?_⟩
  · rw [← h2]; exact specRun_count_zero _ _
  · intro hi hz
    rw [← h2]
    exact specRun_reaches_zero _ _ hi (by rw [h1]; exact hz)
  · intro i hi
    rw [← h2] at hi
    exact specRun_zero_is_release _ _ i hi

open RefP in
/-- zero is absorbing in the specification: from zero every retain and release fails and
the value stays zero (so, by `ref_cnt_linearizable`, also in the implementation model) -/
theorem ref_cnt_zero_absorbing (ops : List RefCnt.Op) :
    specRun 0 ops = (0, ops.map (fun _ => none)) := specRun_zero ops

/-- non-vacuity: two threads, `release` racing `retain; release` from 1 -/
example : (runSched RefCnt.step (RefCnt.mkInit 1 [[.retain, .release], [.release]])
    [⟨1, .none⟩, ⟨0, .none⟩, ⟨0, .none⟩, ⟨1, .none⟩, ⟨0, .none⟩, ⟨0, .none⟩, ⟨1, .none⟩, ⟨1, .none⟩]).1.ref
    = 0 := by decide

end MgProof.C04
