import MgProof.C04.Lemmas
/-! ref_cnt: every step preserves linearizability against the saturating counter. -/
namespace MgProof.C04.RefP
open MgModel.Conc MgModel.C04 MgModel.C04.RefCnt

theorem inv_init (init : Nat) (progs : List (List Op)) : Inv init (RefCnt.mkInit init progs) := by
  refine ⟨by simp [RefCnt.mkInit, specRun], ?_⟩
  intro t v h
  simp [RefCnt.mkInit] at h

theorem specRun_snoc (c : Nat) (ops : List Op) (op : Op) :
    specRun c (ops ++ [op]) =
      ((specApply (specRun c ops).1 op).1, (specRun c ops).2 ++ [(specApply (specRun c ops).1 op).2]) := by
  rw [specRun_append]
  simp [specRun]

theorem step_inv {init : Nat} {s s' : RefCnt.St} {tok : Tok} {ev : List String}
    (inv : Inv init s) (hs : RefCnt.step s tok = some (s', ev)) : Inv init s' := by
  obtain ⟨lin, casNz⟩ := inv
  unfold RefCnt.step at hs
  simp only [] at hs
  split at hs
  · simp at hs
  · split at hs
    · simp at hs
    · rename_i op rest hprog
      split at hs
      · -- read
        rename_i hpc
        split at hs
        · rename_i h0
          injection hs with hs; injection hs with hs _; subst hs
          refine ⟨?_, casNz⟩
          simp only [List.map_append, List.map_cons, List.map_nil]
          rw [specRun_snoc, lin]
          cases op <;> simp [specApply, h0]
        · rename_i h0
          injection hs with hs; injection hs with hs _; subst hs
          refine ⟨lin, ?_⟩
          intro t v h
          by_cases ht : t = tok.tid
          · subst ht
            simp at h
            omega
          · exact casNz t v (by simpa [upd, ht] using h)
      · -- cas
        rename_i v hpc
        have hv := casNz _ v hpc
        split at hs
        · rename_i hr
          injection hs with hs; injection hs with hs _; subst hs
          refine ⟨?_, ?_⟩
          · simp only [List.map_append, List.map_cons, List.map_nil]
            rw [specRun_snoc, lin]
            cases op <;> simp [specApply, hr, hv]
          · intro t w h
            by_cases ht : t = tok.tid
            · subst ht; simp at h
            · exact casNz t w (by simpa [upd, ht] using h)
        · injection hs with hs; injection hs with hs _; subst hs
          refine ⟨lin, ?_⟩
          intro t w h
          by_cases ht : t = tok.tid
          · subst ht; simp at h
          · exact casNz t w (by simpa [upd, ht] using h)

/-! ### facts about the sequential specification -/

theorem specRun_zero (ops : List Op) : specRun 0 ops = (0, ops.map (fun _ => none)) := by
  induction ops with
  | nil => rfl
  | cons op ops ih => cases op <;> simp [specRun, specApply, ih]

theorem count_none (ops : List Op) :
    (ops.map (fun _ => (none : Option Nat))).count (some 0) = 0 := by
  induction ops with
  | nil => rfl
  | cons op ops ih => simp [ih]

/-- at most one operation of any history returns 0 -/
theorem specRun_count_zero (c : Nat) (ops : List Op) :
    (specRun c ops).2.count (some 0) ≤ 1 := by
  induction ops generalizing c with
  | nil => simp [specRun]
  | cons op ops ih =>
    by_cases hc : c = 0
    · subst hc
      rw [specRun_zero]
      simp [count_none]
    · cases op with
      | retain =>
        simp only [specRun, specApply, hc, if_false]
        rw [List.count_cons]
        have := ih (c + 1)
        simp
        exact this
      | release =>
        simp only [specRun, specApply, hc, if_false]
        rw [List.count_cons]
        by_cases h1 : c - 1 = 0
        · rw [h1, specRun_zero]
          simp [count_none]
        · have := ih (c - 1)
          have : (some (c - 1) == some 0) = false := by simp [h1]
          simp [this]
          exact ih (c - 1)

/-- a history from a positive value that ends at zero contains exactly one operation
returning 0, and it is a release -/
theorem specRun_reaches_zero (c : Nat) (ops : List Op) (hc : c ≠ 0)
    (hz : (specRun c ops).1 = 0) : (specRun c ops).2.count (some 0) = 1 := by
  induction ops generalizing c with
  | nil => simp [specRun] at hz; exact absurd hz hc
  | cons op ops ih =>
    cases op with
    | retain =>
      simp only [specRun, specApply, hc, if_false] at hz ⊢
      rw [List.count_cons]
      have := ih (c + 1) (by omega) hz
      simp [this]
    | release =>
      simp only [specRun, specApply, hc, if_false] at hz ⊢
      rw [List.count_cons]
      by_cases h1 : c - 1 = 0
      · rw [h1, specRun_zero]
        simp [count_none]
      · have := ih (c - 1) h1 hz
        have h2 : (some (c - 1) == some 0) = false := by simp [h1]
        simp [this, h2]

/-- results of retains are never 0 -/
theorem specRun_zero_is_release (c : Nat) (ops : List Op) (i : Nat)
    (h : (specRun c ops).2[i]? = some (some 0)) : ops[i]? = some .release := by
  induction ops generalizing c i with
  | nil => simp [specRun] at h
  | cons op ops ih =>
    cases i with
    | zero =>
      cases op with
      | retain =>
        simp only [specRun, specApply] at h
        split at h <;> simp at h
      | release => rfl
    | succ i =>
      simp only [specRun] at h
      simp at h
      simp
      exact ih _ i h

end MgProof.C04.RefP
