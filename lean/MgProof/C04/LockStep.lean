import MgProof.C04.Lemmas
/-! Every step of the lock model preserves `LockInv` (all lock kinds except a weak-CAS synclock). -/
namespace MgProof.C04
open MgModel.Conc MgModel.C04

theorem not_holds_of_pc {s : St} {t : Nat} {p : Pc} (h : s.pc t = p)
    (hp : p ≠ .csRead ∧ (∀ tmp, p ≠ .csWrite tmp) ∧ p ≠ .rel) : ¬ holds s t := by
  intro hh
  rcases hh with hh | ⟨tmp, hh⟩ | hh
  · exact hp.1 (h ▸ hh)
  · exact hp.2.1 tmp (h ▸ hh)
  · exact hp.2.2 (h ▸ hh)

theorem lock_step_inv {k : Kind} (hk : k ≠ .sync true) {s s' : St} {tok : Tok} {ev : List String}
    (inv : LockInv k s) (hs : step s tok = some (s', ev)) : LockInv k s' := by
  unfold step at hs
  simp only [] at hs
  split at hs
  · -- the interrupted futex wait: the parked thread holds nothing, only its pc changes
    rename_i hint
    have hpc : s.pc tok.tid = .blocked := by
      simp only [isInterrupt, Bool.and_eq_true, beq_iff_eq] at hint
      exact hint.2
    injection hs with hs; injection hs with hs _; subst hs
    exact pcOnly_inv inv (not_holds_of_pc hpc (by simp)) (by simp)
  split at hs
  · simp at hs
  · rename_i hen
    have hen' : s.enabled tok.tid = true := by simpa using hen
    split at hs
    · -- acq
      rename_i hpc
      have hnh : ¬ holds s tok.tid := not_holds_of_pc hpc (by simp)
      split at hs
      · -- spin
        split at hs
        · rename_i hl
          injection hs with hs; injection hs with hs _; subst hs
          exact enterCs_inv inv hl hnh
        · injection hs with hs; injection hs with hs _; subst hs
          exact pcOnly_inv inv hnh (by simp)
      · -- sync
        rename_i weak hkind
        have hw : weak = false := by
          cases weak with
          | false => rfl
          | true => exact absurd (inv.kind.symm.trans hkind) hk
        subst hw
        simp only [Bool.false_and, Bool.false_eq_true, if_false] at hs
        split at hs
        · rename_i hl
          injection hs with hs; injection hs with hs _; subst hs
          exact enterCs_inv inv hl hnh
        · injection hs with hs; injection hs with hs _; subst hs
          exact pcOnly_inv inv hnh (by simp)
      · -- mutex
        rename_i hkind
        have hl : s.lock = 0 := by
          simp only [St.enabled, hpc, hkind] at hen'
          simp at hen'
          exact hen'.2
        injection hs with hs; injection hs with hs _; subst hs
        exact enterCs_inv inv hl hnh
    · -- yld
      rename_i hpc
      injection hs with hs; injection hs with hs _; subst hs
      exact pcOnly_inv inv (not_holds_of_pc hpc (by simp)) (by simp)
    · -- fwait
      rename_i e hpc
      have hnh : ¬ holds s tok.tid := not_holds_of_pc hpc (by simp)
      split at hs <;>
        (injection hs with hs; injection hs with hs _; subst hs
         exact pcOnly_inv inv hnh (by simp))
    · -- woken
      rename_i hpc
      injection hs with hs; injection hs with hs _; subst hs
      exact pcOnly_inv inv (not_holds_of_pc hpc (by simp)) (by simp)
    · -- csRead
      rename_i hpc
      injection hs with hs; injection hs with hs _; subst hs
      exact csRead_inv inv hpc
    · -- csWrite
      rename_i tmp hpc
      injection hs with hs; injection hs with hs _; subst hs
      exact csWrite_inv inv hpc
    · -- rel
      rename_i hpc
      have hnext : ∀ r, (if r < s.rounds then Pc.acq else Pc.done) ≠ .csRead ∧
          (∀ tmp, (if r < s.rounds then Pc.acq else Pc.done) ≠ .csWrite tmp) ∧
          (if r < s.rounds then Pc.acq else Pc.done) ≠ .rel := by
        intro r; split <;> simp
      split at hs
      · injection hs with hs; injection hs with hs _; subst hs
        exact lockInv_congr (release_inv inv hpc (hnext (s.round tok.tid + 1)))
          rfl rfl rfl rfl rfl rfl rfl rfl rfl
      · injection hs with hs; injection hs with hs _; subst hs
        exact release_inv inv hpc (p := .wake) (by simp)
      · injection hs with hs; injection hs with hs _; subst hs
        exact lockInv_congr (release_inv inv hpc (hnext (s.round tok.tid + 1)))
          rfl rfl rfl rfl rfl rfl rfl rfl rfl
    · -- wake
      rename_i hpc
      have hnh : ¬ holds s tok.tid := not_holds_of_pc hpc (by simp)
      generalize hq : (if s.round tok.tid + 1 < s.rounds then Pc.acq else Pc.done) = q at hs
      have hnext : q ≠ .csRead ∧ (∀ tmp, q ≠ .csWrite tmp) ∧ q ≠ .rel := by
        subst hq; split <;> simp
      have inv1 := pcOnly_inv inv hnh hnext
      split at hs
      · rename_i w hw
        injection hs with hs; injection hs with hs _; subst hs
        have hwb := firstBlocked_blocked hw
        have hwt : w ≠ tok.tid := by
          intro e; rw [e, hpc] at hwb; simp at hwb
        have hnw : ¬ holds { s with pc := upd s.pc tok.tid q } w :=
          not_holds_of_pc (p := .blocked) (by simp [upd, hwt, hwb]) (by simp)
        exact lockInv_congr (pcOnly_inv inv1 hnw (p := .woken) (by simp))
          rfl rfl rfl rfl rfl rfl rfl rfl rfl
      · injection hs with hs; injection hs with hs _; subst hs
        exact lockInv_congr inv1 rfl rfl rfl rfl rfl rfl rfl rfl rfl
    · simp at hs
    · simp at hs

end MgProof.C04
