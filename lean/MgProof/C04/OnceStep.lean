import MgProof.C04.Lemmas
/-! Every step of the call_once model preserves `OnceP.Inv`. -/
namespace MgProof.C04.OnceP
open MgModel.Conc MgModel.C04 MgModel.C04.Once

theorem inv_init (n : Nat) : Inv (Once.mkInit n) := by
  refine ⟨?_, ?_, ?_, ?_, rfl, rfl⟩ <;> simp [Once.mkInit]


theorem runner_facts {s : Once.St} (inv : Inv s) {t : Nat} (hr : running (s.pc t)) :
    s.flag = 1 ∧ (∀ u, u ≠ t → s.pc u = .cas ∨ s.pc u = .spin) ∧
    (s.pc t = .b1 → s.bodyRuns = 0 ∧ s.bodyDone = 0) ∧
    (∀ tmp, s.pc t = .b2 tmp → tmp = 0 ∧ s.bodyRuns = 0 ∧ s.bodyDone = 0) ∧
    (s.pc t = .b3 → s.bodyRuns = 1 ∧ s.bodyDone = 0) ∧
    (s.pc t = .pub → s.bodyRuns = 1 ∧ s.bodyDone = 1 ∧ 1 ∈ s.know t) := by
  obtain ⟨f0, f1, f2, fle, _, _⟩ := inv
  have h1 : s.flag = 1 := by
    by_cases h0 : s.flag = 0
    · have := (f0 h0).2.2 t; rw [this] at hr; simp [running] at hr
    · by_cases h2 : s.flag = 2
      · have := (f2 h2).2.2.2.1 t
        rcases this with h | h | h | h <;> rw [h] at hr <;> simp [running] at hr
      · omega
  obtain ⟨r, hrr, ho, a, b, c, d⟩ := f1 h1
  have hrt : r = t := by
    by_cases h : t = r
    · exact h.symm
    · rcases ho t h with h' | h' <;> rw [h'] at hr <;> simp [running] at hr
  subst hrt
  exact ⟨h1, ho, a, b, c, d⟩

/-- a step of the runner that stays inside the body -/
theorem runner_step {s : Once.St} (inv : Inv s) {t : Nat} (hr : running (s.pc t))
    {s' : Once.St} (hflag : s'.flag = 1) (hearly : s'.early = s.early)
    (hstale : s'.staleReads = s.staleReads)
    (hpc : ∀ u, u ≠ t → s'.pc u = s.pc u) (hrun : running (s'.pc t))
    (a : s'.pc t = .b1 → s'.bodyRuns = 0 ∧ s'.bodyDone = 0)
    (b : ∀ tmp, s'.pc t = .b2 tmp → tmp = 0 ∧ s'.bodyRuns = 0 ∧ s'.bodyDone = 0)
    (c : s'.pc t = .b3 → s'.bodyRuns = 1 ∧ s'.bodyDone = 0)
    (d : s'.pc t = .pub → s'.bodyRuns = 1 ∧ s'.bodyDone = 1 ∧ 1 ∈ s'.know t) : Inv s' := by
  obtain ⟨h1, ho, _⟩ := runner_facts inv hr
  refine ⟨by omega, ?_, by omega, by omega, by rw [hearly]; exact inv.early,
    by rw [hstale]; exact inv.stale⟩
  intro _
  exact ⟨t, hrun, fun u hu => by rw [hpc u hu]; exact ho u hu, a, b, c, d⟩

theorem step_inv {s s' : Once.St} {tok : Tok} {ev : List String}
    (inv : Inv s) (hs : Once.step s tok = some (s', ev)) : Inv s' := by
  have inv0 := inv
  obtain ⟨f0, f1, f2, fle, hearly, hstale⟩ := inv
  unfold Once.step at hs
  simp only [] at hs
  split at hs
  · simp at hs
  · split at hs
    · -- cas
      rename_i hpc
      split at hs
      · rename_i hf
        injection hs with hs; injection hs with hs _; subst hs
        obtain ⟨h1, h2, h3⟩ := f0 hf
        refine ⟨by simp, ?_, by simp, by simp, hearly, hstale⟩
        intro _
        refine ⟨tok.tid, Or.inl (by simp), ?_, ?_, ?_, ?_, ?_⟩
        · intro t ht; left; simp [upd, ht, h3 t]
        · intro _; exact ⟨h1, h2⟩
        · intro tmp h; simp at h
        · intro h; simp at h
        · intro h; simp at h
      · rename_i hf
        injection hs with hs; injection hs with hs _; subst hs
        have hne : s.flag = 1 ∨ s.flag = 2 := by omega
        refine ⟨fun h => absurd h hf, ?_, ?_, fle, hearly, hstale⟩
        · intro h1
          obtain ⟨r, hr, ho, a, b, c, d⟩ := f1 h1
          have hrt : r ≠ tok.tid := by
            intro e; subst e; rw [hpc] at hr; simp [running] at hr
          refine ⟨r, by simpa [upd, hrt] using hr, ?_, ?_, ?_, ?_, ?_⟩
          · intro t ht
            by_cases h : t = tok.tid
            · subst h; right; simp
            · simpa [upd, h] using ho t ht
          · simpa [upd, hrt] using a
          · simpa [upd, hrt] using b
          · simpa [upd, hrt] using c
          · simpa [upd, hrt] using d
        · intro h2
          obtain ⟨a, b, c, d, e⟩ := f2 h2
          refine ⟨a, b, c, ?_, ?_⟩
          · intro t
            by_cases h : t = tok.tid
            · subst h; simp
            · simpa [upd, h] using d t
          · intro t
            by_cases h : t = tok.tid
            · subst h; simp
            · simpa [upd, h] using e t
    · -- b1
      rename_i hpc
      injection hs with hs; injection hs with hs _; subst hs
      have hr : running (s.pc tok.tid) := Or.inl hpc
      obtain ⟨hf1, _, a, _⟩ := runner_facts inv0 hr
      refine runner_step inv0 hr hf1 rfl rfl (fun u hu => by simp [upd, hu])
        (Or.inr (Or.inl ⟨s.bodyRuns, by simp⟩)) (by simp) ?_ (by simp) (by simp)
      intro tmp h
      simp at h
      exact ⟨by rw [← h]; exact (a hpc).1, (a hpc).1, (a hpc).2⟩
    · -- b2
      rename_i tmp hpc
      injection hs with hs; injection hs with hs _; subst hs
      have hr : running (s.pc tok.tid) := Or.inr (Or.inl ⟨tmp, hpc⟩)
      obtain ⟨hf1, _, _, b, _⟩ := runner_facts inv0 hr
      obtain ⟨b1, _, b3⟩ := b tmp hpc
      refine runner_step inv0 hr hf1 rfl rfl (fun u hu => by simp [upd, hu])
        (Or.inr (Or.inr (Or.inl (by simp)))) (by simp) (by simp) ?_ (by simp)
      intro _
      exact ⟨by simp [b1], b3⟩
    · -- b3
      rename_i hpc
      injection hs with hs; injection hs with hs _; subst hs
      have hr : running (s.pc tok.tid) := Or.inr (Or.inr (Or.inl hpc))
      obtain ⟨hf1, _, _, _, c, _⟩ := runner_facts inv0 hr
      refine runner_step inv0 hr hf1 rfl rfl (fun u hu => by simp [upd, hu])
        (Or.inr (Or.inr (Or.inr (by simp)))) (by simp) (by simp) (by simp) ?_
      intro _
      exact ⟨(c hpc).1, rfl, by simp⟩
    · -- pub
      rename_i hpc
      injection hs with hs; injection hs with hs _; subst hs
      have hr : running (s.pc tok.tid) := Or.inr (Or.inr (Or.inr hpc))
      obtain ⟨_, ho, _, _, _, d⟩ := runner_facts inv0 hr
      obtain ⟨d1, d2, d3⟩ := d hpc
      refine ⟨by simp, by simp, ?_, by simp, hearly, hstale⟩
      intro _
      refine ⟨d1, d2, d3, ?_, ?_⟩
      · intro t
        by_cases h : t = tok.tid
        · subst h; simp
        · rcases ho t h with h' | h' <;> simp [upd, h, h']
      · intro t
        by_cases h : t = tok.tid
        · subst h; intro _; exact d3
        · rcases ho t h with h' | h' <;> simp [upd, h, h']
    · -- spin
      rename_i hpc
      split at hs
      · rename_i hf
        injection hs with hs; injection hs with hs _; subst hs
        obtain ⟨a, b, c, d, e⟩ := f2 hf
        refine ⟨fun h => by simp [hf] at h, fun h => by simp [hf] at h, ?_, fle, hearly, hstale⟩
        intro _
        refine ⟨a, b, c, ?_, ?_⟩
        · intro t
          by_cases h : t = tok.tid
          · subst h; simp
          · simpa [upd, h] using d t
        · intro t
          by_cases h : t = tok.tid
          · subst h; intro _; simp; right; exact c
          · simpa [upd, h] using e t
      · injection hs with hs; injection hs with hs _; subst hs
        exact inv0
    · -- ret
      rename_i hpc
      injection hs with hs; injection hs with hs _; subst hs
      have hf : s.flag = 2 := by
        by_cases h0 : s.flag = 0
        · have := (f0 h0).2.2 tok.tid; rw [this] at hpc; simp at hpc
        · by_cases h1 : s.flag = 1
          · obtain ⟨r, hr, ho, _⟩ := f1 h1
            by_cases h : tok.tid = r
            · subst h; rw [hpc] at hr; simp [running] at hr
            · rcases ho _ h with h' | h' <;> rw [h'] at hpc <;> simp at hpc
          · omega
      obtain ⟨a, b, c, d, e⟩ := f2 hf
      have hk := e _ hpc
      refine ⟨fun h => by simp [hf] at h, fun h => by simp [hf] at h, ?_, fle, ?_, ?_⟩
      · intro _
        refine ⟨a, b, c, ?_, ?_⟩
        · intro t
          by_cases h : t = tok.tid
          · subst h; simp
          · simpa [upd, h] using d t
        · intro t
          by_cases h : t = tok.tid
          · subst h; simp
          · simpa [upd, h] using e t
      · simp [b, hearly]
      · simp [b, hk, hstale]
    · simp at hs
