import MgProof.C10.HeapHistory
import MgProof.C10.HeapSortLemmas
import MgProof.C10.MergeLemmas
import MgProof.C10.QuickLemmas
/-!
# C10 — property theorems (heap order; the five sorts)

Statement (properties.jsonl): the heap always yields its entries in non-decreasing key
order: root/extract return a minimum of the current contents, and inserting, extracting or
removing any entry (located by find, wherever it sits, including the last slot) leaves
exactly the expected multiset of entries and a valid heap.  Each sort routine (insertion,
shell, heap, merge, quick) returns the input pointers rearranged into non-decreasing order,
the same multiset with nothing lost or duplicated, for every array length including 0 and 1
and every pattern of equal keys.

All theorems are about the executable models `MgModel.C10.Heap` / `MgModel.C10.Sort`, which
mirror `muggle/c/dsaa/heap.c` / `sort.c` loop for loop and are tied to the real code by the
exact-output correspondence of `checks/C10/check.py`.  The models are the code *with*
`fixes/C10-heap-remove-last-slot.patch` and `fixes/C10-sort-count-zero.patch`; the unpatched
entry points are modelled too (`removeOrig`, `mergeSortOrig`, `quickSortOrig`) and proved to
fail exactly where the property says they must not.

Quantifiers: every array (every length ≥ 0, every key pattern, `Int` keys = any consistent
comparison callback); every heap satisfying the representation invariant (established by
`init`, preserved by every call), every node index, every operation history.  `.ok` in a
conclusion also says: no out-of-bounds access, no NULL key compared, no `size_t` wrap.
-/
namespace MgProof.C10
open MgModel.C10

/-! ## The sorts: `Sorted (sort a) ∧ (sort a) ~ a` for every input -/

/-- **C10, insertion sort.** For every array: the routine succeeds without leaving the
array, the result is in non-decreasing key order and is a permutation of the input
(same multiset of pointers: nothing lost, nothing duplicated). -/
theorem insertion_sort_sorted_perm (a : Array Elem) :
    ∃ r, insertionSort a = .ok r ∧ Sorted r.toList ∧ r.toList.Perm a.toList := by
  obtain ⟨r, e1, e2, e3, e4, _⟩ := insertionSortAt_spec (a := a) (base := 0) (count := a.size)
    (by omega)
  refine ⟨r, e1, sorted_of_sortedOn ?_, e4.toList⟩
  rw [e2]; simpa using e3

/-- **C10, shell sort** (gaps `n/2, n/4, …, 1`): every pass permutes, the last pass is an
insertion sort.  Every array, every length. -/
theorem shell_sort_sorted_perm (a : Array Elem) :
    ∃ r, shellSort a = .ok r ∧ Sorted r.toList ∧ r.toList.Perm a.toList := by
  unfold shellSort
  by_cases h : 0 < a.size / 2
  · obtain ⟨r, e1, e2, e3, e4⟩ := shellOuter_spec a.size (a.size / 2) a h rfl
    exact ⟨r, e1, sorted_of_sortedOn (e2 ▸ e3), e4.toList⟩
  · unfold shellOuter
    simp only [h, dite_false]
    refine ⟨a, rfl, sorted_of_sortedOn ?_, List.Perm.refl _⟩
    intro p q _ _ _
    omega

/-- **C10, heap sort** (insert all into a `muggle_heap_t`, extract all).  Every array with
`count + 1 < 2^31` (beyond that `muggle_heap_init` refuses the capacity and the routine
returns false by design). -/
theorem heap_sort_sorted_perm (a : Array Elem) (h : a.size + 1 < 2147483648) :
    ∃ r, heapSort a = .ok (some r) ∧ Sorted r.toList ∧ r.toList.Perm a.toList :=
  heapSort_spec a h

/-- the documented capacity limit of heap sort: for `2^31 - 1 ≤ count < 2^32 - 1`
`muggle_heap_init` refuses the capacity `(uint32_t)count + 1` and the routine returns false
without touching the array (this is why `heap_sort_sorted_perm` carries the size bound). -/
theorem heap_sort_refuses_beyond_capacity (a : Array Elem) (h1 : 2147483648 ≤ a.size + 1)
    (h2 : a.size + 1 < 4294967296) : heapSort a = .ok none := by
  unfold heapSort
  have hcap : (a.size % 4294967296 + 1) % 4294967296 = a.size + 1 := by omega
  rw [hcap, (init_none_iff (a.size + 1)).mpr h1]

/-- **C10, merge sort** (top-down over `[0, count-1]`, `center = (l+r)/2`, `≤` takes the
left run; patched entry point).  Every array, including lengths 0 and 1. -/
theorem merge_sort_sorted_perm (a : Array Elem) :
    ∃ r, mergeSort a = .ok r ∧ Sorted r.toList ∧ r.toList.Perm a.toList :=
  mergeSort_spec a

/-- **C10, quick sort** (median of three, `++i` … `--j` partition with sentinels, insertion-sort
cutoff 10; patched entry point).  Every array: in particular both scans stay inside the
range (the sentinel argument), the partition index stays strictly inside `(left, right)`,
and all-equal keys at and above the cutoff are handled. -/
theorem quick_sort_sorted_perm (a : Array Elem) :
    ∃ r, quickSort a = .ok r ∧ Sorted r.toList ∧ r.toList.Perm a.toList :=
  quickSort_spec a

/-- the executable `isSorted` of the specification is `Sorted` -/
theorem isSorted_iff (l : List Elem) : isSorted l = true ↔ Sorted l := by
  unfold Sorted
  induction l with
  | nil => simp [isSorted]
  | cons x l ih =>
    cases l with
    | nil => simp [isSorted]
    | cons y l =>
      simp only [isSorted, Bool.and_eq_true, decide_eq_true_eq, ih]
      constructor
      · rintro ⟨h1, h2⟩
        refine List.Pairwise.cons ?_ h2
        intro z hz
        rcases List.mem_cons.mp hz with rfl | hz
        · exact h1
        · exact Int.le_trans h1 (List.rel_of_pairwise_cons h2 hz)
      · intro h
        exact ⟨List.rel_of_pairwise_cons h List.mem_cons_self, h.tail⟩

/-- **the specification's answer is forced**: every sorted permutation of the input has
exactly the key sequence `sortedKeys a` that the driver prints as the specification column
(so the five theorems above determine the keys of the output; only the order of equal-key
pointers is left to the implementation, and that is compared exactly against the model). -/
theorem sorted_perm_keys (a : Array Elem) (r : List Elem) (hs : Sorted r)
    (hp : r.Perm a.toList) : r.map (·.1) = sortedKeys a := by
  unfold sortedKeys
  have h1 : (r.map (·.1)).Pairwise (fun x y : Int => decide (x ≤ y) = true) := by
    rw [List.pairwise_map]
    exact hs.imp (by intro x y h; simpa using h)
  have h2 := List.pairwise_mergeSort (le := fun x y : Int => decide (x ≤ y))
    (fun a b c h1 h2 => by simp only [decide_eq_true_eq] at *; omega)
    (fun a b => by simp only [Bool.or_eq_true, decide_eq_true_eq]; omega)
    (a.toList.map (·.1))
  have h3 : (r.map (·.1)).Perm ((a.toList.map (·.1)).mergeSort (fun x y => decide (x ≤ y))) :=
    (hp.map _).trans (List.mergeSort_perm _ _).symm
  exact List.Perm.eq_of_pairwise (le := fun x y : Int => decide (x ≤ y) = true)
    (fun x y _ _ h1 h2 => by simp only [decide_eq_true_eq] at *; omega) h1 h2 h3

/-! ## The heap -/

/-- **C10, heap creation.** `muggle_heap_init` succeeds exactly for capacities `< 2^31`
(`0` means 8) and yields a valid empty heap. -/
theorem heap_init_valid {c : Nat} {h : Heap} (hi : Heap.init c = some h) :
    HeapInv h ∧ entries h = [] :=
  ⟨(init_inv hi).1, (init_inv hi).2.1⟩

/-- **C10, insert.** On a valid heap whose size is below `2^30` (so that doubling the
capacity is always accepted) insert succeeds, the result is a valid heap and its contents
are exactly the old contents plus the new entry. -/
theorem heap_insert_multiset {h : Heap} (x : Elem) (inv : HeapInv h) (hsz : h.size < 1073741824) :
    ∃ h', h.insert x = .ok (some h') ∧ HeapInv h' ∧ (entries h').Perm (x :: entries h) := by
  obtain ⟨h', e1, e2, e3, _⟩ := insert_spec x inv (by omega)
  exact ⟨h', e1, e2, e3⟩

/-- insert returns false exactly when the heap is full and the doubled capacity is refused
by `MUGGLE_DS_CAP_IS_VALID` (then nothing changed: the model returns no new heap) -/
theorem heap_insert_refuses_iff {h : Heap} (x : Elem) (inv : HeapInv h) (hcap : 1 ≤ h.cap) :
    h.insert x = .ok none ↔ (h.cap = h.size ∧ 2147483648 ≤ h.cap * 2) :=
  insert_none_iff x inv hcap

/-- `muggle_heap_clear` leaves a valid empty heap; `muggle_heap_ensure_capacity` never touches
the contents -/
theorem heap_clear_ensure {h : Heap} (c : Nat) :
    HeapInv h.clear ∧ entries h.clear = [] ∧
    (∀ h', h.ensureCapacity c = some h' → h'.nodes = h.nodes ∧ h.cap ≤ h'.cap) := by
  refine ⟨⟨by simp [Heap.clear], ?_⟩, by simp [Heap.clear, entries], ?_⟩
  · intro i h1 h2
    simp [Heap.clear] at h2
    omega
  · intro h' he
    unfold Heap.ensureCapacity at he
    split at he
    · injection he with he; subst he; exact ⟨rfl, Nat.le_refl _⟩
    · split at he
      · cases he
      · injection he with he; subst he; exact ⟨rfl, by simp; omega⟩

/-- **C10, root.** `muggle_heap_root` returns NULL exactly on the empty heap and otherwise
an entry of the heap whose key is a minimum of the current contents. -/
theorem heap_root_is_min {h : Heap} (inv : HeapInv h) :
    (entries h = [] ∧ h.root = .ok none) ∨
    (∃ r, h.root = .ok (some r) ∧ r ∈ entries h ∧ ∀ e ∈ entries h, r.1 ≤ e.1) := by
  rcases root_spec inv with ⟨h0, e⟩ | ⟨r, e1, _, e3, e4⟩
  · exact Or.inl ⟨entries_nil_iff.mpr h0, e⟩
  · exact Or.inr ⟨r, e1, e3, e4⟩

/-- **C10, extract.** On a non-empty valid heap extract returns a minimum of the current
contents, removes exactly that entry, and leaves a valid heap; on the empty heap it returns
false. -/
theorem heap_extract_min {h : Heap} (inv : HeapInv h) :
    (entries h = [] ∧ h.extract = .ok none) ∨
    (∃ r h', h.extract = .ok (some (r, h')) ∧ (∀ e ∈ entries h, r.1 ≤ e.1) ∧
      (entries h).Perm (r :: entries h') ∧ HeapInv h') := by
  by_cases h0 : h.size = 0
  · exact Or.inl ⟨entries_nil_iff.mpr h0, extract_empty h0⟩
  · obtain ⟨r, h', e1, _, e3, e4, e5, _⟩ := extract_spec inv h0
    exact Or.inr ⟨r, h', e1, e5, e4, e3⟩

/-- **C10, remove — every position, including the last slot.** For every node index
`1 ≤ idx ≤ size` of a valid heap, `muggle_heap_remove(&nodes[idx])` (patched) succeeds,
releases exactly the entry stored in that node, the remaining contents are exactly the old
contents minus that entry, and the heap is valid.  Any other node pointer is refused. -/
theorem heap_remove_any_position {h : Heap} (inv : HeapInv h) (idx : Nat) :
    ((idx = 0 ∨ h.size < idx) ∧ h.remove idx = .ok none) ∨
    (∃ e h', h.remove idx = .ok (some (e, h')) ∧ h.nodes[idx]? = some e ∧
      (entries h).Perm (e :: entries h') ∧ HeapInv h') := by
  by_cases hv : 1 ≤ idx ∧ idx ≤ h.size
  · obtain ⟨e, h', e1, e2, e3, e4, _⟩ := remove_spec inv hv.1 hv.2
    exact Or.inr ⟨e, h', e1, e2, e4, e3⟩
  · have hbad : idx = 0 ∨ h.size < idx := by omega
    exact Or.inl ⟨hbad, remove_invalid hbad⟩

/-- **C10, find.** `muggle_heap_find` returns the first node (in array order) whose key
equals the searched key — a live node — or NULL when no entry has that key. -/
theorem heap_find_locates {h : Heap} (inv : HeapInv h) (key : Int) :
    (∃ j e, h.find key = .ok (some j) ∧ 1 ≤ j ∧ j ≤ h.size ∧ h.nodes[j]? = some e ∧ e.1 = key) ∨
    (h.find key = .ok none ∧ ∀ e ∈ entries h, e.1 ≠ key) := by
  rcases find_spec inv key with ⟨j, f1, f2, f3, f4, _⟩ | ⟨f1, f2⟩
  · have hj : j < h.nodes.size := by have := inv.size_pos; unfold Heap.size at f3; omega
    obtain ⟨e, he⟩ := exists_getElem? hj
    exact Or.inl ⟨j, e, f1, f2, f3, he, by rw [← K_of_getElem? he]; exact f4⟩
  · exact Or.inr ⟨f1, f2⟩

/-- **C10, all operation histories.** Starting from any valid heap (in particular a fresh
one of any initial capacity, so growth past the initial capacity is included), every history
of insert / extract / remove-by-key (find + remove) / remove-by-node-index calls — any
length below `2^30`, any keys, any node indices valid or not — runs without error, keeps the
heap valid, and every call does to the multiset of entries exactly what `SpecStep` says:
extract hands back a minimum of the current contents, removal removes exactly the entry it
located, nothing else changes. -/
theorem heap_history_refines_multiset {h : Heap} (inv : HeapInv h) (ops : List HOp)
    (hlen : h.size + ops.length < 1073741824) :
    ∃ h' rets, hrun h ops = .ok (h', rets) ∧ HeapInv h' ∧
      SpecRun (entries h) ops rets (entries h') :=
  hrun_refines ops inv hlen

/-- **C10, the heap yields its entries in non-decreasing key order.** Extracting until the
heap is empty returns all entries (the same multiset) in non-decreasing key order. -/
theorem heap_drain_sorted {h : Heap} (inv : HeapInv h) :
    ∃ l, drain h.size h = .ok l ∧ Sorted l ∧ l.Perm (entries h) :=
  drain_spec h.size inv (Nat.le_refl _)

/-! ## The defects of the pinned tree (negation witnesses for the unpatched entry points) -/

/-- **Expected-false on the unpatched code: remove of the last slot.** On *every* valid heap
with at least two entries the unpatched `muggle_heap_remove(&nodes[size])` hands a NULL key
to the comparison callback (`Err.null`), whereas the patched code succeeds
(`heap_remove_any_position`).  For every other index both agree (`removeOrig_eq_remove`). -/
theorem heap_removeOrig_last_slot_fails {h : Heap} (inv : HeapInv h) (h2 : 2 ≤ h.size) :
    h.removeOrig h.size = .error .null ∧
    (∀ idx, idx ≠ h.size → h.removeOrig idx = h.remove idx) :=
  ⟨removeOrig_last_fails inv h2, fun _ hne => removeOrig_eq_remove hne⟩

/-- **Expected-false on the unpatched code: `count == 0`.** The unpatched merge sort and
quick sort read outside the (empty) array; for `2 ≤ count < 2^64` they are the patched
routines. -/
theorem sortsOrig_count_zero_fail :
    mergeSortOrig #[] = .error .oob ∧ quickSortOrig #[] = .error .oob ∧
    (∀ a : Array Elem, 2 ≤ a.size → a.size < sizeMod →
      mergeSortOrig a = mergeSort a ∧ quickSortOrig a = quickSort a) :=
  ⟨mergeSortOrig_empty_fails, quickSortOrig_empty_fails,
    fun _ h1 h2 => ⟨mergeSortOrig_eq_mergeSort h1 h2, quickSortOrig_eq_quickSort h1 h2⟩⟩

/-! ## Non-vacuity: the hypotheses are met by concrete, non-trivial objects -/

/-- a fresh heap of capacity 1 satisfies `HeapInv`; a 4-call history (growth past the
initial capacity, equal keys, removal of the node in the last slot) meets the hypotheses
of `heap_history_refines_multiset` -/
example : ∃ h, Heap.init 1 = some h ∧ HeapInv h ∧
    h.size + [HOp.ins (5, 0), .ins (3, 1), .ins (3, 2), .rmi 3, .ext].length < 1073741824 := by
  have hi : Heap.init 1 = some { cap := 1, nodes := #[dummy] } := by
    simp [Heap.init, capValid]
  exact ⟨_, hi, (init_inv hi).1, by decide⟩

/-- the sort theorems have no hypotheses besides the size bound of heap sort; a concrete
array with equal keys satisfies it -/
example : (#[(2, 0), (1, 1), (2, 2), (1, 3)] : Array Elem).size + 1 < 2147483648 := by decide

end MgProof.C10
