import MgModel.C10.Spec
namespace MgProof.C10
open MgModel.C10
theorem placeholder_cmp_self (a : Elem) : cmp a a = 0 := by simp [cmp]
end MgProof.C10
