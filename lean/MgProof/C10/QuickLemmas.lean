import MgProof.C10.SortLemmas
/-! C10 — quick sort: median of three, the partition loop (sentinel argument), the recursion. -/
namespace MgProof.C10
open MgModel.C10

theorem K_set2' {a : Array Elem} {i j : Nat} {v w : Elem} (hi : i < a.size) (hj : j < a.size)
    (p : Nat) :
    K ((a.setIfInBounds i v).setIfInBounds j w) p =
      if p = j then w.1 else if p = i then v.1 else K a p := by
  rw [K_set (by simpa using hj), K_set hi]

/-- a property of the keys of a segment survives a permutation that fixes everything
outside the segment -/
theorem range_forall_of_perm {a a' : Array Elem} {lo hi : Nat} (hp : a'.Perm a)
    (hout : ∀ p, p < lo ∨ hi ≤ p → a'[p]? = a[p]?) (P : Int → Prop)
    (h : ∀ p, lo ≤ p → p < hi → p < a.size → P (K a p)) :
    ∀ p, lo ≤ p → p < hi → p < a'.size → P (K a' p) := by
  intro p h1 h2 h3
  have hext := Array.Perm.extract hp (lo := lo) (hi := hi) (fun i hi' => hout i (Or.inl hi'))
    (fun i hi' => hout i (Or.inr hi'))
  have hm : a'[p] ∈ a'.extract lo hi := by
    rw [Array.mem_iff_getElem]
    refine ⟨p - lo, by simp; omega, ?_⟩
    simp only [Array.getElem_extract]
    congr 1
    omega
  have hm2 := (hext.mem_iff).mp hm
  rw [Array.mem_iff_getElem] at hm2
  obtain ⟨k, hk, he⟩ := hm2
  simp only [Array.size_extract] at hk
  simp only [Array.getElem_extract] at he
  have := h (lo + k) (by omega) (by omega) (by omega)
  rw [← K_getElem (by omega), he, K_getElem h3] at this
  exact this

/-! ### median of three -/

theorem condSwap_spec {a : Array Elem} {i j : Nat} (hi : i < a.size) (hj : j < a.size)
    (hne : i ≠ j) :
    ∃ a', condSwap a i j = .ok a' ∧ a'.size = a.size ∧ a'.Perm a ∧
      (∀ p, p ≠ i → p ≠ j → a'[p]? = a[p]?) ∧
      K a' i = min (K a i) (K a j) ∧ K a' j = max (K a i) (K a j) ∧
      (∀ p, p ≠ i → p ≠ j → K a' p = K a p) := by
  unfold condSwap
  simp only [rd_of_lt hi, rd_of_lt hj, cmp_gt, K_getElem hi, K_getElem hj]
  by_cases hc : K a j < K a i
  · simp only [hc, if_true, swp_eq_ok hi hj]
    refine ⟨_, rfl, by simp, swp_perm hi hj, ?_, ?_, ?_, ?_⟩
    · intro p h1 h2
      rw [Array.getElem?_setIfInBounds_ne (Ne.symm h2), Array.getElem?_setIfInBounds_ne (Ne.symm h1)]
    · rw [K_set2' hi hj, K_getElem hj]; simp [hne]; omega
    · rw [K_set2' hi hj, K_getElem hi]; simp; omega
    · intro p h1 h2
      rw [K_set2' hi hj]; simp [h1, h2]
  · simp only [hc, if_false]
    refine ⟨a, rfl, rfl, .rfl, fun _ _ _ => rfl, by omega, by omega, fun _ _ _ => rfl⟩

theorem median3_spec {a : Array Elem} {left right : Nat} (h1 : left + 10 ≤ right)
    (h2 : right < a.size) :
    ∃ a' pivot, median3 a left right = .ok (a', pivot) ∧ a'.size = a.size ∧ a'.Perm a ∧
      (∀ p, p < left ∨ right < p → a'[p]? = a[p]?) ∧
      K a' left ≤ pivot.1 ∧ K a' (right - 1) = pivot.1 ∧ pivot.1 ≤ K a' right := by
  unfold median3
  have hc1 : left < (left + right) / 2 := by omega
  have hc2 : (left + right) / 2 < right - 1 := by omega
  obtain ⟨a1, e1, s1, p1, o1, m1, x1, r1⟩ :=
    condSwap_spec (a := a) (i := left) (j := (left + right) / 2) (by omega) (by omega) (by omega)
  simp only [e1]
  obtain ⟨a2, e2, s2, p2, o2, m2, x2, r2⟩ :=
    condSwap_spec (a := a1) (i := left) (j := right) (by omega) (by omega) (by omega)
  simp only [e2]
  obtain ⟨a3, e3, s3, p3, o3, m3, x3, r3⟩ :=
    condSwap_spec (a := a2) (i := (left + right) / 2) (j := right) (by omega) (by omega) (by omega)
  simp only [e3]
  have hci : (left + right) / 2 < a3.size := by omega
  have hri : right - 1 < a3.size := by omega
  simp only [swp_eq_ok hci hri]
  have hsz4 : ((a3.setIfInBounds ((left + right) / 2) a3[right - 1]).setIfInBounds (right - 1)
      a3[(left + right) / 2]).size = a.size := by simp; omega
  rw [rd_of_lt (by rw [hsz4]; omega)]
  refine ⟨_, _, rfl, hsz4, ((swp_perm hci hri).trans p3).trans (p2.trans p1), ?_, ?_, ?_, ?_⟩
  · intro p hp
    rw [Array.getElem?_setIfInBounds_ne (by omega), Array.getElem?_setIfInBounds_ne (by omega),
      o3 p (by omega) (by omega), o2 p (by omega) (by omega), o1 p (by omega) (by omega)]
  · rw [K_getElem (by rw [hsz4]; omega), K_set2' hci hri, K_set2' hci hri, K_getElem hci]
    simp only [show left ≠ right - 1 by omega, show left ≠ (left + right) / 2 by omega, if_false,
      if_true]
    have a1l := r3 left (by omega) (by omega)
    have a2c := r2 ((left + right) / 2) (by omega) (by omega)
    omega
  · rw [K_getElem (by rw [hsz4]; omega)]
  · rw [K_getElem (by rw [hsz4]; omega), K_set2' hci hri, K_set2' hci hri, K_getElem hci]
    simp only [show right ≠ right - 1 by omega, show right ≠ (left + right) / 2 by omega, if_false,
      if_true]
    omega

/-! ### the two scans (sentinel argument: they stop inside the range) -/

theorem scanUp_spec (a : Array Elem) (pivot : Elem) (j : Nat) : ∀ (n i : Nat), n = j - i →
    i < j → j < a.size → pivot.1 ≤ K a j →
    ∃ i', scanUp a pivot i = .ok i' ∧ i < i' ∧ i' ≤ j ∧ pivot.1 ≤ K a i' ∧
      ∀ p, i < p → p < i' → K a p < pivot.1 := by
  intro n
  induction n with
  | zero => intro i hn hij; omega
  | succ n ih =>
    intro i hn hij hj hs
    unfold scanUp
    have hlt : i + 1 < a.size := by omega
    simp only [hlt, dite_true, cmp_neg, K_getElem hlt]
    by_cases hc : K a (i + 1) < pivot.1
    · simp only [hc, if_true]
      have hne : i + 1 ≠ j := by intro h; rw [h] at hc; omega
      obtain ⟨i', e1, e2, e3, e4, e5⟩ := ih (i + 1) (by omega) (by omega) hj hs
      refine ⟨i', e1, by omega, e3, e4, ?_⟩
      intro p hp1 hp2
      by_cases hp : p = i + 1
      · subst hp; exact hc
      · exact e5 p (by omega) hp2
    · simp only [hc, if_false]
      exact ⟨i + 1, rfl, by omega, by omega, by omega, fun p _ _ => by omega⟩

theorem scanDown_spec (a : Array Elem) (pivot : Elem) (i : Nat) : ∀ (j : Nat),
    i < j → j ≤ a.size → K a i ≤ pivot.1 →
    ∃ j', scanDown a pivot j = .ok j' ∧ i ≤ j' ∧ j' < j ∧ K a j' ≤ pivot.1 ∧
      ∀ p, j' < p → p < j → pivot.1 < K a p := by
  intro j
  induction j with
  | zero => intro hij; omega
  | succ j ih =>
    intro hij hj hs
    unfold scanDown
    have hlt : j < a.size := by omega
    simp only [rd_of_lt hlt, cmp_gt, K_getElem hlt]
    by_cases hc : pivot.1 < K a j
    · simp only [hc, if_true]
      have hne : i ≠ j := by intro h; rw [h] at hs; omega
      obtain ⟨j', e1, e2, e3, e4, e5⟩ := ih (by omega) (by omega) hs
      refine ⟨j', e1, e2, by omega, e4, ?_⟩
      intro p hp1 hp2
      by_cases hp : p = j
      · subst hp; exact hc
      · exact e5 p hp1 (by omega)
    · simp only [hc, if_false]
      exact ⟨j, rfl, by omega, by omega, by omega, fun p _ _ => by omega⟩

/-! ### the partition loop -/

theorem partLoop_unfold {a : Array Elem} {pivot : Elem} {i j i' j' : Nat}
    (hu : scanUp a pivot i = .ok i') (hd : scanDown a pivot j = .ok j') :
    partLoop a pivot i j =
      if i' < j' then
        match swp a i' j' with
        | .error e => .error e
        | .ok a' => partLoop a' pivot i' j'
      else .ok (a, i') := by
  conv => lhs; unfold partLoop
  split
  · rename_i h; rw [hu] at h; cases h
  · rename_i h; rw [hu] at h; injection h with h; subst h
    split
    · rename_i h2; rw [hd] at h2; cases h2
    · rename_i h2; rw [hd] at h2; injection h2 with h2; subst h2; rfl

theorem partLoop_spec (pivot : Elem) (left right : Nat) : ∀ (n i j : Nat) (a : Array Elem),
    n = j - i → left ≤ i → i < j → j ≤ right - 1 → right < a.size →
    (∀ p, left ≤ p → p ≤ i → K a p ≤ pivot.1) →
    (∀ p, j ≤ p → p ≤ right → pivot.1 ≤ K a p) →
    ∃ a' i', partLoop a pivot i j = .ok (a', i') ∧ a'.size = a.size ∧ a'.Perm a ∧
      (∀ p, p ≤ i ∨ j ≤ p → a'[p]? = a[p]?) ∧ i < i' ∧ i' ≤ j ∧
      (∀ p, left ≤ p → p < i' → K a' p ≤ pivot.1) ∧
      (∀ p, i' ≤ p → p ≤ right → pivot.1 ≤ K a' p) := by
  intro n
  induction n using Nat.strongRecOn with
  | _ n ih =>
    intro i j a hn hli hij hjr hra hlo hhi
    obtain ⟨i', u1, u2, u3, u4, u5⟩ := scanUp_spec a pivot j (j - i) i rfl hij (by omega)
      (hhi j (Nat.le_refl _) (by omega))
    obtain ⟨j', d1, d2, d3, d4, d5⟩ := scanDown_spec a pivot i j hij (by omega)
      (hlo i hli (Nat.le_refl _))
    rw [partLoop_unfold u1 d1]
    by_cases hlt : i' < j'
    · have hi' : i' < a.size := by omega
      have hj' : j' < a.size := by omega
      simp only [hlt, if_true, swp_eq_ok hi' hj']
      obtain ⟨a', i'', e1, e2, e3, e4, e5, e6, e7, e8⟩ := ih (j' - i') (by omega) i' j'
        ((a.setIfInBounds i' a[j']).setIfInBounds j' a[i']) rfl (by omega) hlt (by omega)
        (by simp; omega)
        (by
          intro p hp1 hp2
          rw [K_set2' hi' hj', K_getElem hj', K_getElem hi']
          by_cases hpi : p = i'
          · simp only [hpi, show i' ≠ j' by omega, if_false, if_true]; exact d4
          · simp only [show p ≠ j' by omega, hpi, if_false]
            by_cases hpi2 : p ≤ i
            · exact hlo p hp1 hpi2
            · have := u5 p (by omega) (by omega); omega)
        (by
          intro p hp1 hp2
          rw [K_set2' hi' hj', K_getElem hj', K_getElem hi']
          by_cases hpj : p = j'
          · simp only [hpj, if_true]; exact u4
          · simp only [hpj, show p ≠ i' by omega, if_false]
            by_cases hpj2 : j ≤ p
            · exact hhi p hpj2 hp2
            · have := d5 p (by omega) (by omega); omega)
      refine ⟨a', i'', e1, by simpa using e2, e3.trans (swp_perm hi' hj'), ?_, by omega, by omega,
        e7, e8⟩
      intro p hp
      rw [e4 p (by omega), Array.getElem?_setIfInBounds_ne (by omega),
        Array.getElem?_setIfInBounds_ne (by omega)]
    · simp only [hlt, if_false]
      refine ⟨a, i', rfl, rfl, .rfl, fun _ _ => rfl, u2, u3, ?_, ?_⟩
      · intro p hp1 hp2
        by_cases hpi2 : p ≤ i
        · exact hlo p hp1 hpi2
        · have := u5 p (by omega) hp2; omega
      · intro p hp1 hp2
        by_cases hpi : p = i'
        · subst hpi; exact u4
        · by_cases hpj2 : j ≤ p
          · exact hhi p hpj2 hp2
          · have := d5 p (by omega) (by omega); omega


theorem K_congr {a a' : Array Elem} {p : Nat} (h : a'[p]? = a[p]?) : K a' p = K a p := by
  unfold K
  simp only [Array.getD_eq_getD_getElem?, h]

/-! ### the recursion -/

theorem quickRec_spec : ∀ (n left right : Nat) (a : Array Elem), n = right - left →
    left ≤ right → right < a.size →
    ∃ a', quickRec a left right = .ok a' ∧ a'.size = a.size ∧ SortedOn a' left (right + 1) ∧
      a'.Perm a ∧ (∀ p, p < left ∨ right < p → a'[p]? = a[p]?) := by
  intro n
  induction n using Nat.strongRecOn with
  | _ n ih =>
    intro left right a hn hle hra
    unfold quickRec
    by_cases h10 : left + 10 ≤ right
    · simp only [h10, if_true]
      obtain ⟨a1, pivot, e1, s1, p1, o1, m1, m2, m3⟩ := median3_spec h10 hra
      simp only [e1]
      obtain ⟨a2, i, e2, s2, p2, o2, i1, i2, lo2, hi2⟩ := partLoop_spec pivot left right
        (right - 1 - left) left (right - 1) a1 rfl (Nat.le_refl _) (by omega) (Nat.le_refl _)
        (by omega)
        (by intro p hp1 hp2; have : p = left := by omega
            subst this; exact m1)
        (by intro p hp1 hp2
            by_cases hp : p = right
            · subst hp; exact m3
            · have : p = right - 1 := by omega
              subst this; omega)
      simp only [e2]
      have hi : i < a2.size := by omega
      have hr1 : right - 1 < a2.size := by omega
      simp only [swp_eq_ok hi hr1, show left < i ∧ i < right by omega]
      have kpiv : K a2 (right - 1) = pivot.1 := by
        rw [K_congr (o2 (right - 1) (Or.inr (Nat.le_refl _)))]; exact m2
      -- the array after restoring the pivot
      generalize ha3 : (a2.setIfInBounds i a2[right - 1]).setIfInBounds (right - 1) a2[i] = a3
      have s3 : a3.size = a2.size := by rw [← ha3]; simp
      have k3 : ∀ p, K a3 p = if p = right - 1 then K a2 i else if p = i then K a2 (right - 1)
          else K a2 p := by
        intro p; rw [← ha3, K_set2' hi hr1, K_getElem hi, K_getElem hr1]
      have p3 : a3.Perm a2 := by rw [← ha3]; exact swp_perm hi hr1
      have o3 : ∀ p, p < left ∨ right < p → a3[p]? = a2[p]? := by
        intro p hp
        rw [← ha3, Array.getElem?_setIfInBounds_ne (by omega),
          Array.getElem?_setIfInBounds_ne (by omega)]
      have A3 : ∀ p, left ≤ p → p < i → p < a3.size → K a3 p ≤ pivot.1 := by
        intro p h1 h2 _
        rw [k3 p]
        simp only [show p ≠ right - 1 by omega, show p ≠ i by omega, if_false]
        exact lo2 p h1 h2
      have B3 : K a3 i = pivot.1 := by
        rw [k3 i]
        by_cases h : i = right - 1
        · simp only [h, if_true]; exact kpiv
        · simp only [h, if_false, if_true]; exact kpiv
      have C3 : ∀ p, i + 1 ≤ p → p < right + 1 → p < a3.size → pivot.1 ≤ K a3 p := by
        intro p h1 h2 _
        rw [k3 p]
        by_cases h : p = right - 1
        · simp only [h, if_true]; exact hi2 i (Nat.le_refl _) (by omega)
        · simp only [h, show p ≠ i by omega, if_false]; exact hi2 p (by omega) (by omega)
      obtain ⟨a4, f1, f2, f3, f4, f5⟩ := ih (i - 1 - left) (by omega) left (i - 1) a3 rfl (by omega)
        (by omega)
      simp only [f1]
      have f5' : ∀ p, p < left ∨ i ≤ p → a4[p]? = a3[p]? := fun p hp => f5 p (by omega)
      have A4 : ∀ p, left ≤ p → p < i → p < a4.size → K a4 p ≤ pivot.1 :=
        range_forall_of_perm f4 f5' (fun k => k ≤ pivot.1) A3
      obtain ⟨a5, g1, g2, g3, g4, g5⟩ := ih (right - (i + 1)) (by omega) (i + 1) right a4 rfl
        (by omega) (by omega)
      have g5' : ∀ p, p < i + 1 ∨ right + 1 ≤ p → a5[p]? = a4[p]? := fun p hp => g5 p (by omega)
      have C4 : ∀ p, i + 1 ≤ p → p < right + 1 → p < a4.size → pivot.1 ≤ K a4 p := by
        intro p h1 h2 h3
        rw [K_congr (f5 p (by omega))]
        exact C3 p h1 h2 (by omega)
      have C5 : ∀ p, i + 1 ≤ p → p < right + 1 → p < a5.size → pivot.1 ≤ K a5 p :=
        range_forall_of_perm g4 g5' (fun k => pivot.1 ≤ k) C4
      have B4 : K a4 i = pivot.1 := by rw [K_congr (f5 i (by omega))]; exact B3
      refine ⟨a5, g1, by omega, ?_, g4.trans (f4.trans (p3.trans (p2.trans p1))), ?_⟩
      · intro p q hp hpq hq
        have E1 : ∀ t, t ≤ i → K a5 t = K a4 t := fun t ht => K_congr (g5 t (by omega))
        have hi1 : i - 1 + 1 = i := by omega
        rw [hi1] at f3
        by_cases hqi : q < i
        · rw [E1 p (by omega), E1 q (by omega)]
          exact f3 p q hp hpq hqi
        · by_cases hqe : q = i
          · rw [E1 p (by omega), E1 q (by omega), hqe, B4]
            exact A4 p hp (by omega) (by omega)
          · have hcq := C5 q (by omega) hq (by omega)
            by_cases hpi : p < i
            · rw [E1 p (by omega)]
              have := A4 p hp hpi (by omega)
              omega
            · by_cases hpe : p = i
              · rw [E1 p (by omega), hpe, B4]; exact hcq
              · exact g3 p q (by omega) hpq hq
      · intro p hp
        rw [g5 p (by omega), f5 p (by omega), o3 p hp, o2 p (by omega), o1 p hp]
    · simp only [h10, if_false]
      obtain ⟨a', e1, e2, e3, e4, e5⟩ := insertionSortAt_spec (a := a) (base := left)
        (count := right + 1 - left) (by omega)
      refine ⟨a', e1, e2, ?_, e4, ?_⟩
      · rw [show left + (right + 1 - left) = right + 1 by omega] at e3; exact e3
      · intro p hp; exact e5 p (by omega)

theorem quickSort_spec (a : Array Elem) :
    ∃ r, quickSort a = .ok r ∧ Sorted r.toList ∧ r.toList.Perm a.toList := by
  unfold quickSort
  by_cases h : a.size < 2
  · simp only [h, if_true]
    refine ⟨a, rfl, ?_, List.Perm.refl _⟩
    apply sorted_of_sortedOn
    intro p q _ _ _
    omega
  · simp only [h, if_false]
    obtain ⟨a', e1, e2, e3, e4, _⟩ := quickRec_spec (a.size - 1 - 0) 0 (a.size - 1) a rfl
      (Nat.zero_le _) (by omega)
    refine ⟨a', e1, ?_, e4.toList⟩
    apply sorted_of_sortedOn
    rw [e2]
    rw [show a.size - 1 + 1 = a.size by omega] at e3
    exact e3

theorem quickRec_empty_oob (right : Nat) (h : 10 ≤ right) :
    quickRec #[] 0 right = .error .oob := by
  unfold quickRec
  simp only [show 0 + 10 ≤ right by omega, if_true]
  unfold median3 condSwap rd
  simp

/-- **defect of the pinned tree**: `count - 1` wraps for the empty array and the median of
three reads `ptr[0]` -/
theorem quickSortOrig_empty_fails : quickSortOrig #[] = .error .oob := by
  unfold quickSortOrig
  exact quickRec_empty_oob _ (by simpa using ten_le_wrapSub1_zero)

/-- the unpatched entry point agrees with the patched one on arrays with at least two
elements (`count - 1` does not wrap) -/
theorem quickSortOrig_eq_quickSort {a : Array Elem} (h : 2 ≤ a.size)
    (h64 : a.size < sizeMod) : quickSortOrig a = quickSort a := by
  unfold quickSortOrig quickSort
  rw [wrapSub1_of_pos (by omega) h64]
  simp [show ¬ a.size < 2 by omega]

end MgProof.C10
