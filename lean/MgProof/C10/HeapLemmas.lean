import MgProof.C10.Basic
/-! C10 — heap: invariants of the sift loops (hole technique), multiset bookkeeping. -/
namespace MgProof.C10
open MgModel.C10

theorem K_set2 {a : Array Elem} {i j : Nat} {v w : Elem} (hi : i < a.size) (hj : j < a.size)
    (p : Nat) :
    K ((a.setIfInBounds i v).setIfInBounds j w) p =
      if p = j then w.1 else if p = i then v.1 else K a p := by
  rw [K_set (by simpa using hj), K_set hi]

theorem rdN_of_lt {a : Array Elem} {i : Nat} (h0 : 0 < i) (h : i < a.size) :
    rdN a i = .ok a[i] := by
  simp [rdN, show i ≠ 0 by omega, rd_of_lt h]

theorem wrN_of_lt {a : Array Elem} {i : Nat} {v : Elem} (h0 : 0 < i) (h : i < a.size) :
    wrN a i v = .ok (a.setIfInBounds i v) := by
  simp [wrN, show i ≠ 0 by omega, wr_of_lt h]

/-- heap order on the live nodes `a[1 .. a.size-1]` -/
def HeapOrd (a : Array Elem) : Prop := ∀ i, 2 ≤ i → i < a.size → K a (i / 2) ≤ K a i

/-- the root is a minimum -/
theorem heapOrd_root_min {a : Array Elem} (ho : HeapOrd a) :
    ∀ i, 1 ≤ i → i < a.size → K a 1 ≤ K a i := by
  intro i
  induction i using Nat.strongRecOn with
  | _ i ih =>
    intro h1 h2
    by_cases hi : i = 1
    · subst hi; exact Int.le_refl _
    · have := ih (i / 2) (by omega) (by omega) (by omega)
      have := ho i (by omega) h2
      omega

theorem heapOrd_pop {a : Array Elem} (ho : HeapOrd a) : HeapOrd a.pop := by
  intro i h1 h2
  simp only [Array.size_pop] at h2
  rw [K_pop (by omega), K_pop (by omega)]
  exact ho i h1 (by omega)

/-- sift-up invariant on the virtual array: every parent/child pair is ordered except
(parent(idx), idx); grandparent(idx) ≤ children(idx) -/
def UpInv (V : Array Elem) (idx : Nat) : Prop :=
  (∀ i, 2 ≤ i → i < V.size → i ≠ idx → K V (i / 2) ≤ K V i) ∧
  (∀ c, c < V.size → c / 2 = idx → 2 ≤ idx → K V (idx / 2) ≤ K V c)

/-- sift-down invariant: every pair is ordered except (idx, children(idx)) -/
def DownInv (V : Array Elem) (idx : Nat) : Prop :=
  (∀ c, 2 ≤ c → c < V.size → c / 2 ≠ idx → K V (c / 2) ≤ K V c) ∧
  (∀ c, c < V.size → c / 2 = idx → 2 ≤ idx → K V (idx / 2) ≤ K V c)

/-- invariant of `muggle_heap_remove`'s loop at entry: only pairs involving `idx` may be broken -/
def BothInv (V : Array Elem) (idx : Nat) : Prop :=
  (∀ c, 2 ≤ c → c < V.size → c ≠ idx → c / 2 ≠ idx → K V (c / 2) ≤ K V c) ∧
  (∀ c, c < V.size → c / 2 = idx → 2 ≤ idx → K V (idx / 2) ≤ K V c)

/-! ### sift-up (`muggle_heap_insert`) -/

/-- one up-move keeps / establishes the sift-up invariant -/
theorem upInv_step {a : Array Elem} {idx : Nat} {x : Elem} (h1 : 2 ≤ idx) (hsz : idx < a.size)
    (inv : BothInv (a.setIfInBounds idx x) idx) (hc : x.1 < K a (idx / 2)) :
    UpInv ((a.setIfInBounds idx a[idx / 2]).setIfInBounds (idx / 2) x) (idx / 2) := by
  have hpl : idx / 2 < a.size := by omega
  obtain ⟨i1, i2⟩ := inv
  constructor
  · intro i hi1 hi2 hi3
    have e1 := i1 i
    have e2 := i2 i
    have e3 := i1 (idx / 2)
    simp only [K_set2 hsz hpl, K_set hsz, Array.size_setIfInBounds, K_getElem hpl] at *
    grind
  · intro c hc1 hc2 hc3
    have e1 := i1 c
    have e3 := i1 (idx / 2)
    simp only [K_set2 hsz hpl, K_set hsz, Array.size_setIfInBounds, K_getElem hpl] at *
    grind

theorem upInv_both {V : Array Elem} {idx : Nat} (h : UpInv V idx) : BothInv V idx :=
  ⟨fun c a1 a2 a3 _ => h.1 c a1 a2 a3, h.2⟩

theorem downInv_both {V : Array Elem} {idx : Nat} (h : DownInv V idx) : BothInv V idx :=
  ⟨fun c a1 a2 _ a4 => h.1 c a1 a2 a4, h.2⟩

theorem siftUp_spec (x : Elem) : ∀ (idx : Nat) (a : Array Elem), 1 ≤ idx → idx < a.size →
    UpInv (a.setIfInBounds idx x) idx →
    ∃ a', siftUp a x idx = .ok a' ∧ a'.size = a.size ∧ HeapOrd a' ∧
      a'.Perm (a.setIfInBounds idx x) ∧ a'[0]? = a[0]? := by
  intro idx
  induction idx using Nat.strongRecOn with
  | _ idx ih =>
    intro a h1 hsz inv
    unfold siftUp
    by_cases hp : idx / 2 = 0
    · simp only [hp, if_true, wrN_of_lt h1 hsz]
      refine ⟨_, rfl, by simp, ?_, .rfl, Array.getElem?_setIfInBounds_ne (by omega)⟩
      intro i hi1 hi2
      exact inv.1 i hi1 hi2 (by omega)
    · have hp0 : 0 < idx / 2 := by omega
      have hpl : idx / 2 < a.size := by omega
      simp only [hp, if_false, rdN_of_lt hp0 hpl]
      by_cases hc : cmp a[idx / 2] x ≤ 0
      · simp only [hc, if_true, wrN_of_lt h1 hsz]
        refine ⟨_, rfl, by simp, ?_, .rfl, Array.getElem?_setIfInBounds_ne (by omega)⟩
        simp only [cmp_nonpos, K_getElem hpl] at hc
        intro i hi1 hi2
        have e1 := inv.1 i hi1 hi2
        simp only [K_set hsz, Array.size_setIfInBounds] at *
        grind
      · simp only [hc, if_false, wrN_of_lt h1 hsz]
        simp only [cmp_nonpos, K_getElem hpl, Int.not_le] at hc
        have inv' := upInv_step (by omega) hsz (upInv_both inv) hc
        obtain ⟨a', e1, e2, e3, e4, e5⟩ := ih (idx / 2) (by omega) (a.setIfInBounds idx a[idx / 2])
          (by omega) (by simpa using hpl) inv'
        refine ⟨a', e1, by simpa using e2, e3, e4.trans (hole_perm hsz hpl (by omega)), ?_⟩
        rw [e5, Array.getElem?_setIfInBounds_ne (by omega)]

/-! ### sift-down (`muggle_heap_extract`, second half of `muggle_heap_remove`) -/

/-- one down-move to the smaller child keeps the sift-down invariant -/
theorem downInv_step {a : Array Elem} {i child n : Nat} {l : Elem} (h1 : 1 ≤ i)
    (hsz : a.size = n + 1) (hch : child = i * 2 ∨ child = i * 2 + 1) (hcn : child ≤ n)
    (hcl : child < a.size)
    (hsm : ∀ c, c / 2 = i → c ≤ n → K a child ≤ K a c)
    (inv : DownInv (a.setIfInBounds i l) i) (hc : K a child ≤ l.1) :
    DownInv ((a.setIfInBounds i a[child]).setIfInBounds child l) child := by
  have hi : i < a.size := by omega
  obtain ⟨i1, i2⟩ := inv
  constructor
  · intro c hc1 hc2 hc3
    have e1 := i1 c
    have e2 := i2 c
    have e3 := i2 child
    have e4 := hsm c
    simp only [K_set2 hi hcl, K_set hi, Array.size_setIfInBounds, K_getElem hcl] at *
    grind
  · intro c hc1 hc2 hc3
    have e1 := i1 c
    simp only [K_set2 hi hcl, K_set hi, Array.size_setIfInBounds, K_getElem hcl] at *
    grind

/-- the hole has no child, or the smaller child is larger than the filler: heap order holds -/
theorem downInv_exit {a : Array Elem} {i n : Nat} {l : Elem} (h1 : 1 ≤ i) (hi : i ≤ n)
    (hsz : a.size = n + 1) (inv : DownInv (a.setIfInBounds i l) i)
    (hch : ∀ c, c / 2 = i → c ≤ n → l.1 ≤ K a c) :
    HeapOrd (a.setIfInBounds i l) := by
  intro c hc1 hc2
  have e1 := inv.1 c
  have e2 := hch c
  simp only [K_set (show i < a.size by omega), Array.size_setIfInBounds] at *
  grind

theorem pickChildExt_spec {a : Array Elem} {n c : Nat} (h1 : 1 ≤ c) (hc : c ≤ n)
    (hsz : a.size = n + 1) :
    ∃ b, pickChildExt a n c = .ok b ∧ (b = true → c + 1 ≤ n ∧ K a (c + 1) < K a c) ∧
      (b = false → c = n ∨ K a c ≤ K a (c + 1)) := by
  unfold pickChildExt
  by_cases h : c = n
  · simp [h]
  · have h2 : c + 1 < a.size := by omega
    have h3 : c < a.size := by omega
    simp only [ne_eq, h, not_false_eq_true, if_true, rdN_of_lt (show 0 < c + 1 by omega) h2,
      rdN_of_lt h1 h3]
    refine ⟨_, rfl, ?_, ?_⟩
    · intro hb
      simp only [decide_eq_true_eq, cmp_neg, K_getElem h2, K_getElem h3] at hb
      exact ⟨by omega, hb⟩
    · intro hb
      simp only [decide_eq_false_iff_not, cmp_neg, K_getElem h2, K_getElem h3] at hb
      right; omega

theorem pickChildRm_eq {a : Array Elem} {n c : Nat} (hc : c ≤ n) :
    pickChildRm a n c = pickChildExt a n c := by
  unfold pickChildRm pickChildExt
  by_cases h : c = n
  · simp [h]
  · simp [h, show c < n by omega]

/-- facts about the child chosen by "find smaller child" -/
theorem child_facts {a : Array Elem} {n i : Nat} {b : Bool} (h1 : 1 ≤ i) (h2 : i * 2 ≤ n)
    (hb1 : b = true → i * 2 + 1 ≤ n ∧ K a (i * 2 + 1) < K a (i * 2))
    (hb2 : b = false → i * 2 = n ∨ K a (i * 2) ≤ K a (i * 2 + 1)) :
    let child := if b then i * 2 + 1 else i * 2
    (child = i * 2 ∨ child = i * 2 + 1) ∧ child ≤ n ∧ i < child ∧
      (∀ c, c / 2 = i → c ≤ n → K a child ≤ K a c) := by
  cases b with
  | true =>
    obtain ⟨h3, h4⟩ := hb1 rfl
    refine ⟨Or.inr rfl, h3, by simp; omega, ?_⟩
    intro c hc1 hc2
    have : c = i * 2 ∨ c = i * 2 + 1 := by omega
    rcases this with rfl | rfl
    · simp; omega
    · simp
  | false =>
    have h4 := hb2 rfl
    refine ⟨Or.inl rfl, h2, by simp; omega, ?_⟩
    intro c hc1 hc2
    have : c = i * 2 ∨ c = i * 2 + 1 := by omega
    rcases this with rfl | rfl
    · simp
    · simp; omega

theorem extLoop_spec (last : Elem) (n : Nat) : ∀ (m i : Nat) (a : Array Elem), m = n + 1 - i →
    1 ≤ i → i ≤ n → a.size = n + 1 → DownInv (a.setIfInBounds i last) i →
    ∃ a' i', extLoop a last n i = .ok (a', i') ∧ a'.size = a.size ∧ 1 ≤ i' ∧ i' ≤ n ∧
      HeapOrd (a'.setIfInBounds i' last) ∧
      (a'.setIfInBounds i' last).Perm (a.setIfInBounds i last) ∧ a'[0]? = a[0]? := by
  intro m
  induction m using Nat.strongRecOn with
  | _ m ih =>
    intro i a hm h1 hin hsz inv
    unfold extLoop
    simp only [show i ≠ 0 by omega, if_false]
    by_cases h2 : i * 2 ≤ n
    · simp only [h2, if_true]
      obtain ⟨b, hb, hb1, hb2⟩ := pickChildExt_spec (a := a) (n := n) (c := i * 2) (by omega) h2 hsz
      simp only [hb]
      obtain ⟨f1, f2, f3, f4⟩ := child_facts (a := a) h1 h2 hb1 hb2
      generalize (if b = true then i * 2 + 1 else i * 2) = child at f1 f2 f3 f4
      have hcl : child < a.size := by omega
      simp only [rdN_of_lt (show 0 < child by omega) hcl]
      by_cases hc : cmp last a[child] ≥ 0
      · simp only [hc, if_true, wrN_of_lt h1 (show i < a.size by omega)]
        simp only [cmp_ge, K_getElem hcl] at hc
        have inv' := downInv_step h1 hsz f1 f2 hcl f4 inv hc
        obtain ⟨a', i', e1, e2, e3, e4, e5, e6, e7⟩ := ih (n + 1 - child) (by omega) child
          (a.setIfInBounds i a[child]) rfl (by omega) f2 (by simpa using hsz) inv'
        refine ⟨a', i', e1, by simpa using e2, e3, e4, e5,
          e6.trans (hole_perm (by omega) hcl (by omega)), ?_⟩
        rw [e7, Array.getElem?_setIfInBounds_ne (by omega)]
      · simp only [hc, if_false]
        simp only [cmp_ge, K_getElem hcl, Int.not_le] at hc
        refine ⟨a, i, rfl, rfl, h1, hin, ?_, .rfl, rfl⟩
        refine downInv_exit h1 hin hsz inv ?_
        intro c hc1 hc2
        have := f4 c hc1 hc2
        omega
    · simp only [h2, if_false]
      refine ⟨a, i, rfl, rfl, h1, hin, ?_, .rfl, rfl⟩
      refine downInv_exit h1 hin hsz inv ?_
      intro c hc1 hc2
      omega

/-! ### `muggle_heap_remove`'s loop -/

theorem rmDown_spec {a : Array Elem} {l : Elem} {n idx : Nat} (h1 : 1 ≤ idx) (hin : idx ≤ n)
    (hsz : a.size = n + 1) (inv : DownInv (a.setIfInBounds idx l) idx) :
    (rmDown a (some l) n idx = .ok none ∧ HeapOrd (a.setIfInBounds idx l)) ∨
    (∃ c, ∃ hc : c < a.size, rmDown a (some l) n idx = .ok (some (a.setIfInBounds idx a[c], c)) ∧
      idx < c ∧ c ≤ n ∧ DownInv ((a.setIfInBounds idx a[c]).setIfInBounds c l) c) := by
  unfold rmDown
  by_cases h2 : idx * 2 ≤ n
  · simp only [h2, if_true, pickChildRm_eq h2]
    obtain ⟨b, hb, hb1, hb2⟩ := pickChildExt_spec (a := a) (n := n) (c := idx * 2) (by omega) h2 hsz
    simp only [hb, derefKey]
    obtain ⟨f1, f2, f3, f4⟩ := child_facts (a := a) h1 h2 hb1 hb2
    generalize (if b = true then idx * 2 + 1 else idx * 2) = child at f1 f2 f3 f4
    have hcl : child < a.size := by omega
    simp only [rdN_of_lt (show 0 < child by omega) hcl]
    by_cases hc : cmp l a[child] ≥ 0
    · simp only [hc, if_true, wrN_of_lt h1 (show idx < a.size by omega)]
      simp only [cmp_ge, K_getElem hcl] at hc
      right
      exact ⟨child, hcl, rfl, f3, f2, downInv_step h1 hsz f1 f2 hcl f4 inv hc⟩
    · simp only [hc, if_false]
      simp only [cmp_ge, K_getElem hcl, Int.not_le] at hc
      left
      refine ⟨trivial, downInv_exit h1 hin hsz inv ?_⟩
      intro c hc1 hc2
      have := f4 c hc1 hc2
      omega
  · simp only [h2, if_false]
    left
    refine ⟨trivial, downInv_exit h1 hin hsz inv ?_⟩
    intro c hc1 hc2
    omega

/-- the result every successful run of the remove loop delivers -/
def RmPost (a : Array Elem) (l : Elem) (n idx : Nat) (r : Array Elem × Nat) : Prop :=
  r.1.size = a.size ∧ 1 ≤ r.2 ∧ r.2 ≤ n ∧ HeapOrd (r.1.setIfInBounds r.2 l) ∧
    (r.1.setIfInBounds r.2 l).Perm (a.setIfInBounds idx l) ∧ r.1[0]? = a[0]?

/-- under the sift-down invariant the up-test of an iteration fails -/
theorem rm_up_none {a : Array Elem} {l : Elem} {idx : Nat} (h1 : 1 ≤ idx) (hsz : idx < a.size)
    (hle : idx / 2 ≠ 0 → K a (idx / 2) ≤ l.1) : rmUp a (some l) idx = .ok none := by
  unfold rmUp
  by_cases hp : idx / 2 = 0
  · simp [hp]
  · have hpl : idx / 2 < a.size := by omega
    have := hle hp
    simp only [ne_eq, hp, not_false_eq_true, if_true, rdN_of_lt (show 0 < idx / 2 by omega) hpl,
      derefKey, cmp_neg, K_getElem hpl]
    simp [show ¬ l.1 < K a (idx / 2) by omega]

theorem rm_up_some {a : Array Elem} {l : Elem} {idx : Nat} (h1 : 1 ≤ idx) (hsz : idx < a.size)
    (hp : idx / 2 ≠ 0) (hlt : l.1 < K a (idx / 2)) :
    rmUp a (some l) idx = .ok (some (a.setIfInBounds idx (a[idx / 2]'(by omega)))) := by
  unfold rmUp
  have hpl : idx / 2 < a.size := by omega
  simp only [ne_eq, hp, not_false_eq_true, if_true, rdN_of_lt (show 0 < idx / 2 by omega) hpl,
    derefKey, cmp_neg, K_getElem hpl, hlt, wrN_of_lt h1 hsz]

theorem rmLoop_down (l : Elem) (n : Nat) : ∀ (fuel idx : Nat) (a : Array Elem),
    n + 1 - idx < fuel → 1 ≤ idx → idx ≤ n → a.size = n + 1 →
    DownInv (a.setIfInBounds idx l) idx →
    ∃ r, rmLoop fuel a (some l) n idx = .ok r ∧ RmPost a l n idx r := by
  intro fuel
  induction fuel with
  | zero => intro idx a h; omega
  | succ fuel ih =>
    intro idx a hf h1 hin hsz inv
    have hle : idx / 2 ≠ 0 → K a (idx / 2) ≤ l.1 := by
      intro hp
      have := inv.1 idx (by omega) (by simp; omega) (by omega)
      simp only [K_set (show idx < a.size by omega)] at this
      grind
    unfold rmLoop
    simp only [rm_up_none h1 (show idx < a.size by omega) hle]
    rcases rmDown_spec h1 hin hsz inv with ⟨e, ho⟩ | ⟨c, hc, e, c1, c2, inv'⟩
    · simp only [e]
      exact ⟨(a, idx), rfl, rfl, h1, hin, ho, .rfl, rfl⟩
    · simp only [e]
      obtain ⟨r, r1, r2, r3, r4, r5, r6, r7⟩ := ih c (a.setIfInBounds idx a[c]) (by omega) (by omega) c2
        (by simpa using hsz) inv'
      refine ⟨r, r1, by simpa using r2, r3, r4, r5,
        r6.trans (hole_perm (by omega) hc (by omega)), ?_⟩
      rw [r7, Array.getElem?_setIfInBounds_ne (by omega)]

theorem rmLoop_spec (l : Elem) (n : Nat) : ∀ (idx fuel : Nat) (a : Array Elem),
    idx + n + 2 ≤ fuel → 1 ≤ idx → idx ≤ n → a.size = n + 1 →
    BothInv (a.setIfInBounds idx l) idx →
    ∃ r, rmLoop fuel a (some l) n idx = .ok r ∧ RmPost a l n idx r := by
  intro idx
  induction idx using Nat.strongRecOn with
  | _ idx ih =>
    intro fuel a hf h1 hin hsz inv
    have hil : idx < a.size := by omega
    by_cases hup : idx / 2 ≠ 0 ∧ l.1 < K a (idx / 2)
    · obtain ⟨hp, hlt⟩ := hup
      have hpl : idx / 2 < a.size := by omega
      obtain ⟨fuel', rfl⟩ : ∃ f, fuel = f + 1 := ⟨fuel - 1, by omega⟩
      unfold rmLoop
      simp only [rm_up_some h1 hil hp hlt]
      have inv' := upInv_both (upInv_step (by omega) hil inv hlt)
      obtain ⟨r, r1, r2, r3, r4, r5, r6, r7⟩ := ih (idx / 2) (by omega) fuel'
        (a.setIfInBounds idx a[idx / 2]) (by omega) (by omega) (by omega) (by simpa using hsz) inv'
      refine ⟨r, r1, by simpa using r2, r3, r4, r5,
        r6.trans (hole_perm hil hpl (by omega)), ?_⟩
      rw [r7, Array.getElem?_setIfInBounds_ne (by omega)]
    · have hle : idx / 2 ≠ 0 → K a (idx / 2) ≤ l.1 := by
        intro hp
        by_cases h : l.1 < K a (idx / 2)
        · exact absurd ⟨hp, h⟩ hup
        · omega
      have invd : DownInv (a.setIfInBounds idx l) idx := by
        refine ⟨?_, inv.2⟩
        intro c hc1 hc2 hc3
        by_cases hci : c = idx
        · subst hci
          have := hle (by omega)
          simp only [K_set hil]
          grind
        · exact inv.1 c hc1 hc2 hci hc3
      exact rmLoop_down l n fuel idx a (by omega) h1 hin hsz invd

/-! ### multiset bookkeeping for extract / remove -/

/-- removing `a[idx]` by moving the last element into its slot: same multiset -/
theorem pop_set_push_perm {a : Array Elem} {idx : Nat} {l e : Elem} (h1 : idx + 1 < a.size)
    (hl : a[a.size - 1]? = some l) (he : a[idx]? = some e) :
    ((a.pop.setIfInBounds idx l).push e).Perm a := by
  have : (a.pop.setIfInBounds idx l).push e =
      a.swap idx (a.size - 1) (by omega) (by omega) := by
    apply Array.ext_getElem?
    intro i
    simp only [Array.getElem?_push, Array.size_setIfInBounds, Array.size_pop,
      Array.getElem?_setIfInBounds, Array.getElem?_pop, Array.getElem?_swap]
    rw [Array.getElem?_eq_getElem (by omega)] at hl he
    grind
  rw [this]
  exact Array.swap_perm _ _

theorem pop_push_last {a : Array Elem} {l : Elem} (hl : a[a.size - 1]? = some l) (h : 0 < a.size) :
    a.pop.push l = a := by
  apply Array.ext_getElem?
  intro i
  simp only [Array.getElem?_push, Array.size_pop, Array.getElem?_pop]
  grind

theorem rdN_eq_ok {a : Array Elem} {i : Nat} {v : Elem} (h0 : 0 < i) (h : a[i]? = some v) :
    rdN a i = .ok v := by
  simp [rdN, show i ≠ 0 by omega, rd_eq_ok, h]

theorem exists_getElem? {a : Array Elem} {i : Nat} (h : i < a.size) : ∃ v, a[i]? = some v :=
  ⟨a[i], by simp [h]⟩

theorem lt_of_getElem? {a : Array Elem} {i : Nat} {v : Elem} (h : a[i]? = some v) : i < a.size := by
  by_cases hh : i < a.size
  · exact hh
  · rw [Array.getElem?_eq_none (by omega)] at h; cases h

/-! ### find -/

theorem findLoop_spec (a : Array Elem) (key : Int) (n : Nat) : ∀ (m i : Nat), m = n + 1 - i →
    1 ≤ i → a.size = n + 1 →
    (∃ j, findLoop a key n i = .ok (some j) ∧ i ≤ j ∧ j ≤ n ∧ K a j = key ∧
        ∀ p, i ≤ p → p < j → K a p ≠ key) ∨
    (findLoop a key n i = .ok none ∧ ∀ p, i ≤ p → p ≤ n → K a p ≠ key) := by
  intro m
  induction m with
  | zero =>
    intro i hm h1 hsz
    unfold findLoop
    simp only [show ¬ i ≤ n by omega, if_false]
    right
    exact ⟨trivial, fun p _ _ => by omega⟩
  | succ m ih =>
    intro i hm h1 hsz
    unfold findLoop
    have hil : i < a.size := by omega
    simp only [show i ≤ n by omega, if_true, rdN_of_lt h1 hil, cmp_eq_zero, K_getElem hil]
    by_cases hk : K a i = key
    · simp only [hk, if_true]
      left
      exact ⟨i, rfl, Nat.le_refl _, by omega, hk, fun p _ _ => by omega⟩
    · simp only [hk, if_false]
      rcases ih (i + 1) (by omega) (by omega) hsz with ⟨j, e1, e2, e3, e4, e5⟩ | ⟨e1, e2⟩
      · left
        refine ⟨j, e1, by omega, e3, e4, ?_⟩
        intro p hp1 hp2
        by_cases hpi : p = i
        · subst hpi; exact hk
        · exact e5 p (by omega) hp2
      · right
        refine ⟨e1, ?_⟩
        intro p hp1 hp2
        by_cases hpi : p = i
        · subst hpi; exact hk
        · exact e2 p (by omega) hp2

end MgProof.C10
