import MgModel.C10.Spec
/-! Helper lemmas shared by the C10 proofs: the comparison callback, bounds-checked
reads/writes, the "hole" technique as a swap on the virtual array. -/
namespace MgProof.C10
open MgModel.C10

/-! ### the comparison callback -/

@[simp] theorem cmp_pos {a b : Elem} : 0 < cmp a b ↔ b.1 < a.1 := by
  unfold cmp; split <;> (try split) <;> omega
@[simp] theorem cmp_gt {a b : Elem} : cmp a b > 0 ↔ b.1 < a.1 := cmp_pos
@[simp] theorem cmp_neg {a b : Elem} : cmp a b < 0 ↔ a.1 < b.1 := by
  unfold cmp; split <;> (try split) <;> omega
@[simp] theorem cmp_nonpos {a b : Elem} : cmp a b ≤ 0 ↔ a.1 ≤ b.1 := by
  unfold cmp; split <;> (try split) <;> omega
@[simp] theorem cmp_nonneg {a b : Elem} : 0 ≤ cmp a b ↔ b.1 ≤ a.1 := by
  unfold cmp; split <;> (try split) <;> omega
@[simp] theorem cmp_ge {a b : Elem} : cmp a b ≥ 0 ↔ b.1 ≤ a.1 := cmp_nonneg
@[simp] theorem cmp_eq_zero {a b : Elem} : cmp a b = 0 ↔ a.1 = b.1 := by
  unfold cmp; split <;> (try split) <;> omega

/-! ### reads and writes -/

theorem rd_eq_ok {a : Array Elem} {i : Nat} {v : Elem} : rd a i = .ok v ↔ a[i]? = some v := by
  unfold rd; split <;> simp_all

theorem rd_of_lt {a : Array Elem} {i : Nat} (h : i < a.size) : rd a i = .ok a[i] := by
  simp [rd_eq_ok, h]

theorem rd_eq_error {a : Array Elem} {i : Nat} {e : Err} : rd a i = .error e → a.size ≤ i := by
  unfold rd; split <;> simp_all

theorem wr_eq_ok {a a' : Array Elem} {i : Nat} {v : Elem} :
    wr a i v = .ok a' ↔ i < a.size ∧ a' = a.setIfInBounds i v := by
  unfold wr
  split
  · simp_all [eq_comm]
  · simp; omega

theorem wr_of_lt {a : Array Elem} {i : Nat} {v : Elem} (h : i < a.size) :
    wr a i v = .ok (a.setIfInBounds i v) := by
  simp [wr, h]


theorem size_of_wr {a a' : Array Elem} {i : Nat} {v : Elem} (h : wr a i v = .ok a') :
    a'.size = a.size := by
  obtain ⟨_, rfl⟩ := wr_eq_ok.mp h
  simp

/-! ### keys by index (total accessor used by all order invariants) -/

/-- key at index `i`; `0` outside the array (never relied upon) -/
def K (a : Array Elem) (i : Nat) : Int := (a.getD i (0, 0)).1

theorem K_set {a : Array Elem} {i : Nat} {v : Elem} (h : i < a.size) (p : Nat) :
    K (a.setIfInBounds i v) p = if p = i then v.1 else K a p := by
  unfold K
  by_cases hp : p = i
  · subst hp; simp [h]
  · simp [hp, Array.getD_eq_getD_getElem?, Ne.symm hp]

theorem K_getElem {a : Array Elem} {i : Nat} (h : i < a.size) : a[i].1 = K a i := by
  simp [K, h]

theorem K_of_getElem? {a : Array Elem} {i : Nat} {x : Elem} (h : a[i]? = some x) : K a i = x.1 := by
  simp [K, Array.getD_eq_getD_getElem?, h]

theorem K_push {a : Array Elem} {x : Elem} (p : Nat) :
    K (a.push x) p = if p = a.size then x.1 else K a p := by
  unfold K
  simp only [Array.getD_eq_getD_getElem?, Array.getElem?_push]
  by_cases hp : p = a.size <;> simp [hp]

theorem K_pop {a : Array Elem} {p : Nat} (h : p + 1 < a.size) : K a.pop p = K a p := by
  unfold K
  simp only [Array.getD_eq_getD_getElem?, Array.getElem?_pop]
  simp [show p < a.size - 1 by omega]

/-- keys non-decreasing on the index range `[lo, hi)` -/
def SortedOn (a : Array Elem) (lo hi : Nat) : Prop :=
  ∀ p q, lo ≤ p → p < q → q < hi → K a p ≤ K a q

/-- keys non-decreasing (the specification's `Sorted`) -/
def Sorted (l : List Elem) : Prop := l.Pairwise (fun x y => x.1 ≤ y.1)

theorem sorted_of_sortedOn {a : Array Elem} (h : SortedOn a 0 a.size) : Sorted a.toList := by
  unfold Sorted
  rw [List.pairwise_iff_getElem]
  intro i j hi hj hij
  have := h i j (Nat.zero_le _) hij (by simpa using hj)
  simp only [Array.length_toList] at hi hj
  rw [← K_getElem hi, ← K_getElem hj] at this
  simpa using this

theorem sortedOn_of_sorted {a : Array Elem} (h : Sorted a.toList) : SortedOn a 0 a.size := by
  unfold Sorted at h
  rw [List.pairwise_iff_getElem] at h
  intro p q _ hpq hq
  have := h p q (by simp; omega) (by simpa using hq) hpq
  rw [← K_getElem (show p < a.size by omega), ← K_getElem hq]
  simpa using this

theorem sortedOn_mono {a : Array Elem} {lo hi lo' hi' : Nat} (h : SortedOn a lo hi)
    (h1 : lo ≤ lo') (h2 : hi' ≤ hi) : SortedOn a lo' hi' :=
  fun p q a1 a2 a3 => h p q (by omega) a2 (by omega)

/-! ### the "hole" technique: moving `a[k]` into the hole `h` is a swap on the virtual
array `a.set h x` (the array with the held element put into the hole) -/

theorem hole_perm {a : Array Elem} {h k : Nat} {x : Elem} (hh : h < a.size) (hk : k < a.size)
    (hne : h ≠ k) :
    ((a.setIfInBounds h a[k]).setIfInBounds k x).Perm (a.setIfInBounds h x) := by
  have : ((a.setIfInBounds h a[k]).setIfInBounds k x) =
      ((a.setIfInBounds h x).swap h k (by simp; omega) (by simp; omega)) := by
    apply Array.ext_getElem?
    intro i
    simp [Array.getElem?_swap, Array.getElem?_setIfInBounds]
    grind
  rw [this]
  exact Array.swap_perm _ _

theorem set_self_eq {a : Array Elem} {i : Nat} (h : i < a.size) : a.setIfInBounds i a[i] = a := by
  apply Array.ext_getElem?
  intro j
  rw [Array.getElem?_setIfInBounds]
  split
  · subst_vars; simp [h]
  · rfl

/-- `swp` is `Array.swap` -/
theorem swp_eq_ok {a : Array Elem} {i j : Nat} (hi : i < a.size) (hj : j < a.size) :
    swp a i j = .ok ((a.setIfInBounds i a[j]).setIfInBounds j a[i]) := by
  simp only [swp, rd_of_lt hi, rd_of_lt hj, bind, Except.bind, wr_of_lt hi]
  rw [wr_of_lt (by simpa using hj)]

theorem swp_perm {a : Array Elem} {i j : Nat} (hi : i < a.size) (hj : j < a.size) :
    ((a.setIfInBounds i a[j]).setIfInBounds j a[i]).Perm a := by
  by_cases h : i = j
  · subst h
    simp [set_self_eq hi]
  · have := hole_perm (x := a[i]) hi hj h
    rw [set_self_eq hi] at this
    exact this


/-! ### `count - 1` in `size_t` -/

theorem wrapSub1_of_pos {n : Nat} (h1 : 1 ≤ n) (h2 : n < sizeMod) : wrapSub1 n = n - 1 := by
  unfold wrapSub1
  rw [show n + sizeMod - 1 = (n - 1) + sizeMod by omega, Nat.add_mod_right,
    Nat.mod_eq_of_lt (by omega)]

theorem wrapSub1_zero : wrapSub1 0 = sizeMod - 1 := by
  unfold wrapSub1
  have : 0 < sizeMod := by unfold sizeMod; omega
  rw [Nat.zero_add, Nat.mod_eq_of_lt (by omega)]

theorem ten_le_wrapSub1_zero : 10 ≤ wrapSub1 0 := by
  rw [wrapSub1_zero]; unfold sizeMod; omega

end MgProof.C10
