import MgModel.C10.Spec
/-! Helper lemmas shared by the C10 proofs: the comparison callback, bounds-checked
reads/writes, the "hole" technique as a swap on the virtual array. -/
namespace MgProof.C10
open MgModel.C10

/-! ### the comparison callback -/

@[simp] theorem cmp_pos {a b : Elem} : 0 < cmp a b ↔ b.1 < a.1 := by
  unfold cmp; split <;> (try split) <;> omega
@[simp] theorem cmp_gt {a b : Elem} : cmp a b > 0 ↔ b.1 < a.1 := cmp_pos
@[simp] theorem cmp_neg {a b : Elem} : cmp a b < 0 ↔ a.1 < b.1 := by
  unfold cmp; split <;> (try split) <;> omega
@[simp] theorem cmp_nonpos {a b : Elem} : cmp a b ≤ 0 ↔ a.1 ≤ b.1 := by
  unfold cmp; split <;> (try split) <;> omega
@[simp] theorem cmp_nonneg {a b : Elem} : 0 ≤ cmp a b ↔ b.1 ≤ a.1 := by
  unfold cmp; split <;> (try split) <;> omega
@[simp] theorem cmp_ge {a b : Elem} : cmp a b ≥ 0 ↔ b.1 ≤ a.1 := cmp_nonneg
@[simp] theorem cmp_eq_zero {a b : Elem} : cmp a b = 0 ↔ a.1 = b.1 := by
  unfold cmp; split <;> (try split) <;> omega

/-! ### reads and writes -/

theorem rd_eq_ok {a : Array Elem} {i : Nat} {v : Elem} : rd a i = .ok v ↔ a[i]? = some v := by
  unfold rd; split <;> simp_all

theorem rd_of_lt {a : Array Elem} {i : Nat} (h : i < a.size) : rd a i = .ok a[i] := by
  simp [rd_eq_ok, h]

theorem rd_eq_error {a : Array Elem} {i : Nat} {e : Err} : rd a i = .error e → a.size ≤ i := by
  unfold rd; split <;> simp_all

theorem wr_eq_ok {a a' : Array Elem} {i : Nat} {v : Elem} :
    wr a i v = .ok a' ↔ i < a.size ∧ a' = a.setIfInBounds i v := by
  unfold wr
  split
  · simp_all [eq_comm]
  · simp; omega

theorem wr_of_lt {a : Array Elem} {i : Nat} {v : Elem} (h : i < a.size) :
    wr a i v = .ok (a.setIfInBounds i v) := by
  simp [wr, h]

end MgProof.C10
