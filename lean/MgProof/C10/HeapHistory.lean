import MgProof.C10.HeapOps
/-! C10 — heap: whole operation histories against the multiset specification; draining. -/
namespace MgProof.C10
open MgModel.C10

/-- what the property says one call does to the multiset `E` of entries and which entry it
hands back (`ret`): insert adds the entry; extract hands back a minimum and removes exactly
it; remove-by-key hands back an entry with that key and removes exactly it; remove-by-node
removes exactly one entry for every live node index `1..size` and refuses everything else -/
def SpecStep (E : List Elem) (op : HOp) (ret : Option Elem) (E' : List Elem) : Prop :=
  match op with
  | .ins x => ret = some x ∧ E'.Perm (x :: E)
  | .ext => (E = [] ∧ ret = none ∧ E' = E) ∨
      (∃ r, ret = some r ∧ (∀ e ∈ E, r.1 ≤ e.1) ∧ E.Perm (r :: E'))
  | .rm key => ((∀ e ∈ E, e.1 ≠ key) ∧ ret = none ∧ E' = E) ∨
      (∃ r, ret = some r ∧ r.1 = key ∧ E.Perm (r :: E'))
  | .rmi idx => ((idx = 0 ∨ E.length < idx) ∧ ret = none ∧ E' = E) ∨
      (1 ≤ idx ∧ idx ≤ E.length ∧ ∃ r, ret = some r ∧ E.Perm (r :: E'))

/-- the specification of a whole history -/
def SpecRun : List Elem → List HOp → List (Option Elem) → List Elem → Prop
  | E, [], rets, E' => rets = [] ∧ E' = E
  | E, op :: ops, rets, E' =>
    ∃ r rs E1, rets = r :: rs ∧ SpecStep E op r E1 ∧ SpecRun E1 ops rs E'

theorem entries_nil_iff {h : Heap} : entries h = [] ↔ h.size = 0 := by
  rw [← entries_length]
  constructor
  · intro e; rw [e]; rfl
  · exact List.eq_nil_of_length_eq_zero

theorem hstep_refines {h : Heap} (op : HOp) (inv : HeapInv h) (hsz : h.size < 1073741824) :
    ∃ h' ret, hstep h op = .ok (h', ret) ∧ HeapInv h' ∧
      SpecStep (entries h) op ret (entries h') ∧ h'.size ≤ h.size + 1 := by
  cases op with
  | ins x =>
    obtain ⟨h', e1, e2, e3, e4, _⟩ := insert_spec x inv (by omega)
    exact ⟨h', some x, by simp [hstep, e1], e2, ⟨rfl, e3⟩, by omega⟩
  | ext =>
    by_cases h0 : h.size = 0
    · refine ⟨h, none, by simp [hstep, extract_empty h0], inv, ?_, by omega⟩
      exact Or.inl ⟨entries_nil_iff.mpr h0, rfl, rfl⟩
    · obtain ⟨r, h', e1, _, e3, e4, e5, e6, _⟩ := extract_spec inv h0
      exact ⟨h', some r, by simp [hstep, e1], e3, Or.inr ⟨r, rfl, e5, e4⟩, by omega⟩
  | rm key =>
    rcases find_spec inv key with ⟨j, f1, f2, f3, f4, _⟩ | ⟨f1, f2⟩
    · obtain ⟨e, h', e1, e2, e3, e4, e5, _⟩ := remove_spec inv f2 f3
      refine ⟨h', some e, by simp [hstep, f1, e1], e3, Or.inr ⟨e, rfl, ?_, e4⟩, by omega⟩
      rw [← K_of_getElem? e2]; exact f4
    · exact ⟨h, none, by simp [hstep, f1], inv, Or.inl ⟨f2, rfl, rfl⟩, by omega⟩
  | rmi idx =>
    by_cases hv : 1 ≤ idx ∧ idx ≤ h.size
    · obtain ⟨e, h', e1, _, e3, e4, e5, _⟩ := remove_spec inv hv.1 hv.2
      refine ⟨h', some e, by simp [hstep, e1], e3, Or.inr ⟨hv.1, ?_, e, rfl, e4⟩, by omega⟩
      rw [entries_length]; exact hv.2
    · have hbad : idx = 0 ∨ h.size < idx := by omega
      refine ⟨h, none, by simp [hstep, remove_invalid hbad], inv, Or.inl ⟨?_, rfl, rfl⟩, by omega⟩
      rw [entries_length]; exact hbad

theorem hrun_refines (ops : List HOp) : ∀ {h : Heap}, HeapInv h →
    h.size + ops.length < 1073741824 →
    ∃ h' rets, hrun h ops = .ok (h', rets) ∧ HeapInv h' ∧
      SpecRun (entries h) ops rets (entries h') := by
  induction ops with
  | nil => intro h inv _; exact ⟨h, [], rfl, inv, rfl, rfl⟩
  | cons op ops ih =>
    intro h inv hsz
    simp only [List.length_cons] at hsz
    obtain ⟨h1, r, e1, e2, e3, e4⟩ := hstep_refines op inv (by omega)
    obtain ⟨h2, rs, f1, f2, f3⟩ := ih e2 (by omega)
    exact ⟨h2, r :: rs, by simp [hrun, e1, f1], f2, r, rs, entries h1, rfl, e3, f3⟩

theorem drain_spec : ∀ (n : Nat) {h : Heap}, HeapInv h → h.size ≤ n →
    ∃ l, drain n h = .ok l ∧ Sorted l ∧ l.Perm (entries h) := by
  intro n
  induction n with
  | zero =>
    intro h inv hn
    refine ⟨[], rfl, List.Pairwise.nil, ?_⟩
    rw [entries_nil_iff.mpr (by omega)]
  | succ n ih =>
    intro h inv hn
    by_cases h0 : h.size = 0
    · refine ⟨[], by simp [drain, extract_empty h0], List.Pairwise.nil, ?_⟩
      rw [entries_nil_iff.mpr h0]
    · obtain ⟨r, h', e1, _, e3, e4, e5, e6, _⟩ := extract_spec inv h0
      obtain ⟨l, f1, f2, f3⟩ := ih e3 (by omega)
      refine ⟨r :: l, by simp [drain, e1, f1], ?_, (List.Perm.cons r f3).trans e4.symm⟩
      refine List.Pairwise.cons ?_ f2
      intro e he
      exact e5 e (e4.symm.subset (List.mem_cons_of_mem _ (f3.subset he)))

end MgProof.C10
