import MgProof.C10.HeapLemmas
/-! C10 — heap: the API functions (`insert`, `root`, `extract`, `find`, `remove`) against
the multiset specification. -/
namespace MgProof.C10
open MgModel.C10

/-- representation invariant of `muggle_heap_t`: slot 0 exists, live nodes are heap-ordered -/
structure HeapInv (h : Heap) : Prop where
  size_pos : 1 ≤ h.nodes.size
  ord : HeapOrd h.nodes

/-- the contents of the heap: the live nodes `nodes[1..size]` (as a list; used up to `Perm`) -/
def entries (h : Heap) : List Elem := h.nodes.toList.drop 1

theorem entries_length (h : Heap) : (entries h).length = h.size := by
  simp [entries, Heap.size]

theorem entries_perm_of {A B : Array Elem} (hp : A.Perm B) (h0 : A[0]? = B[0]?) :
    (A.toList.drop 1).Perm (B.toList.drop 1) := by
  refine List.Perm.drop_of_getElem? hp.toList ?_
  intro j hj
  have : j = 0 := by omega
  subst this
  simpa using h0

theorem drop_one_push {A : Array Elem} {x : Elem} (h : 1 ≤ A.size) :
    (A.push x).toList.drop 1 = A.toList.drop 1 ++ [x] := by
  simp only [Array.toList_push]
  rw [List.drop_append_of_le_length (by simpa using h)]

theorem mem_entries_iff {h : Heap} {e : Elem} :
    e ∈ entries h ↔ ∃ i, 1 ≤ i ∧ h.nodes[i]? = some e := by
  unfold entries
  constructor
  · intro hm
    obtain ⟨i, hi, he⟩ := List.getElem_of_mem hm
    refine ⟨i + 1, by omega, ?_⟩
    simp only [List.getElem_drop] at he
    rw [← he, Array.getElem?_eq_getElem (by simp at hi; omega)]
    simp [Nat.add_comm]
  · rintro ⟨i, hi, he⟩
    have hlt : i < h.nodes.size := by
      by_cases hh : i < h.nodes.size
      · exact hh
      · rw [Array.getElem?_eq_none (by omega)] at he; cases he
    rw [Array.getElem?_eq_getElem hlt] at he
    injection he with he
    rw [List.mem_iff_getElem]
    refine ⟨i - 1, by simp; omega, ?_⟩
    simp only [List.getElem_drop, Array.getElem_toList]
    rw [← he]
    congr 1
    omega

theorem size_mk (c : Nat) (a : Array Elem) : (Heap.mk c a).size = a.size - 1 := rfl

theorem init_inv {c : Nat} {h : Heap} (hi : Heap.init c = some h) :
    HeapInv h ∧ entries h = [] ∧ 1 ≤ h.cap := by
  unfold Heap.init at hi
  by_cases hv : capValid (if c = 0 then 8 else c) = true
  · simp only [hv, if_true] at hi
    injection hi with hi
    subst hi
    refine ⟨⟨by simp, ?_⟩, by simp [entries], ?_⟩
    · intro i h1 h2
      simp at h2
      omega
    · simp only []
      split <;> omega
  · simp [hv] at hi

/-- `muggle_heap_init` fails exactly on capacities `≥ 2^31` -/
theorem init_none_iff (c : Nat) : Heap.init c = none ↔ 2147483648 ≤ c := by
  unfold Heap.init capValid
  by_cases h0 : c = 0
  · simp [h0]
  · simp [h0]

/-! ### insert -/

theorem insert_spec {h : Heap} (x : Elem) (inv : HeapInv h)
    (hc : h.cap = h.size → h.cap * 2 < 2147483648) :
    ∃ h', h.insert x = .ok (some h') ∧ HeapInv h' ∧ (entries h').Perm (x :: entries h) ∧
      h'.size = h.size + 1 ∧ h.cap ≤ h'.cap := by
  obtain ⟨hs, ho⟩ := inv
  have hg : ∃ c, (if h.cap = h.size then h.ensureCapacity (h.cap * 2) else some h) =
      some { cap := c, nodes := h.nodes } ∧ h.cap ≤ c := by
    by_cases he : h.cap = h.size
    · simp only [he, if_true, Heap.ensureCapacity]
      rw [← he]
      by_cases h2 : h.cap ≥ h.cap * 2
      · exact ⟨h.cap, by simp [h2], Nat.le_refl _⟩
      · have := hc he
        refine ⟨h.cap * 2, ?_, by omega⟩
        simp [h2, capValid, this]
    · exact ⟨h.cap, by simp [he], Nat.le_refl _⟩
  obtain ⟨c, hg1, hg2⟩ := hg
  unfold Heap.insert
  simp only [hg1]
  have hn : (h.nodes.push x).size - 1 = h.nodes.size := by simp
  have hlt : h.nodes.size < (h.nodes.push x).size := by simp
  have inv0 : UpInv ((h.nodes.push x).setIfInBounds h.nodes.size x) h.nodes.size := by
    have : (h.nodes.push x).setIfInBounds h.nodes.size x = h.nodes.push x := by
      have := set_self_eq (a := h.nodes.push x) (i := h.nodes.size) hlt
      simpa using this
    rw [this]
    constructor
    · intro i h1 h2 h3
      simp only [Array.size_push] at h2
      rw [K_push, K_push]
      simp only [show i / 2 ≠ h.nodes.size by omega, show i ≠ h.nodes.size by omega, if_false]
      exact ho i h1 (by omega)
    · intro c' h1 h2 h3
      simp only [Array.size_push] at h1
      omega
  obtain ⟨a', e1, e2, e3, e4, e5⟩ := siftUp_spec x h.nodes.size (h.nodes.push x) hs hlt inv0
  rw [hn]
  simp only [e1]
  have hself : (h.nodes.push x).setIfInBounds h.nodes.size x = h.nodes.push x := by
    have := set_self_eq (a := h.nodes.push x) (i := h.nodes.size) hlt
    simpa using this
  rw [hself] at e4
  refine ⟨_, rfl, ⟨by simp [e2], e3⟩, ?_, by rw [size_mk, e2]; simp [Heap.size]; omega, hg2⟩
  have h0 : a'[0]? = (h.nodes.push x)[0]? := e5
  have := entries_perm_of e4 h0
  simp only [entries]
  rw [drop_one_push hs] at this
  exact this.trans (List.perm_append_singleton _ _)

/-- `muggle_heap_insert` returns false exactly when the capacity cannot be doubled -/
theorem insert_none_iff {h : Heap} (x : Elem) (inv : HeapInv h) (hcap : 1 ≤ h.cap) :
    h.insert x = .ok none ↔ (h.cap = h.size ∧ 2147483648 ≤ h.cap * 2) := by
  constructor
  · intro hn
    by_cases hc : h.cap = h.size → h.cap * 2 < 2147483648
    · obtain ⟨h', e, _⟩ := insert_spec x inv hc
      rw [e] at hn
      cases hn
    · omega
  · rintro ⟨h1, h2⟩
    unfold Heap.insert
    simp only [h1, if_true, Heap.ensureCapacity, capValid]
    rw [← h1]
    simp [show ¬ h.cap * 2 ≤ h.cap by omega, h2]

/-! ### root -/

theorem root_spec {h : Heap} (inv : HeapInv h) :
    (h.size = 0 ∧ h.root = .ok none) ∨
    (∃ r, h.root = .ok (some r) ∧ h.nodes[1]? = some r ∧ r ∈ entries h ∧
      ∀ e ∈ entries h, r.1 ≤ e.1) := by
  unfold Heap.root
  by_cases h0 : h.size = 0
  · left; simp [h0]
  · right
    have hlt : 1 < h.nodes.size := by unfold Heap.size at h0; omega
    obtain ⟨root, hroot⟩ := exists_getElem? hlt
    simp only [h0, if_false, rdN_eq_ok Nat.one_pos hroot]
    refine ⟨root, rfl, hroot, mem_entries_iff.mpr ⟨1, Nat.le_refl _, hroot⟩, ?_⟩
    intro e he
    obtain ⟨i, hi, hie⟩ := mem_entries_iff.mp he
    have := heapOrd_root_min inv.ord i hi (lt_of_getElem? hie)
    rwa [K_of_getElem? hie, K_of_getElem? hroot] at this

/-! ### extract -/

theorem extract_empty {h : Heap} (h0 : h.size = 0) : h.extract = .ok none := by
  simp [Heap.extract, h0]

theorem root_min_entries {h : Heap} (inv : HeapInv h) {r : Elem} (hr : h.nodes[1]? = some r) :
    ∀ e ∈ entries h, r.1 ≤ e.1 := by
  intro e he
  obtain ⟨i, hi, hie⟩ := mem_entries_iff.mp he
  have := heapOrd_root_min inv.ord i hi (lt_of_getElem? hie)
  rwa [K_of_getElem? hie, K_of_getElem? hr] at this

theorem extract_spec {h : Heap} (inv : HeapInv h) (hne : h.size ≠ 0) :
    ∃ r h', h.extract = .ok (some (r, h')) ∧ h.nodes[1]? = some r ∧ HeapInv h' ∧
      (entries h).Perm (r :: entries h') ∧ (∀ e ∈ entries h, r.1 ≤ e.1) ∧
      h'.size + 1 = h.size ∧ h'.cap = h.cap := by
  have hmin := fun r (hr : h.nodes[1]? = some r) => root_min_entries inv hr
  obtain ⟨hs, ho⟩ := inv
  have hsz : h.size = h.nodes.size - 1 := rfl
  have hlt1 : 1 < h.nodes.size := by omega
  have hlast : h.size < h.nodes.size := by omega
  obtain ⟨root, hroot⟩ := exists_getElem? hlt1
  obtain ⟨last, hlastv⟩ := exists_getElem? hlast
  have hlastv' : h.nodes[h.nodes.size - 1]? = some last := by rw [← hsz]; exact hlastv
  unfold Heap.extract
  simp only [hne, if_false, rdN_eq_ok Nat.one_pos hroot, rdN_eq_ok (show 0 < h.size by omega) hlastv]
  by_cases hn0 : h.size - 1 = 0
  · -- single node
    have hl : extLoop h.nodes.pop last 0 1 = .ok (h.nodes.pop, 1) := by
      unfold extLoop
      simp
    simp only [hn0, hl, if_true]
    have hidx : h.size = 1 := by omega
    have hrl : root = last := by
      rw [hidx] at hlastv
      rw [hroot] at hlastv
      injection hlastv
    refine ⟨_, _, rfl, hroot, ⟨by simp; omega, heapOrd_pop ho⟩, ?_, hmin root hroot,
      by rw [size_mk]; simp; omega, rfl⟩
    have e := pop_push_last hlastv' (by omega)
    simp only [entries]
    conv => lhs; rw [← e]
    rw [drop_one_push (by simp; omega), hrl]
    exact List.perm_append_singleton _ _
  · have hsz' : h.nodes.pop.size = (h.size - 1) + 1 := by simp; omega
    have inv0 : DownInv (h.nodes.pop.setIfInBounds 1 last) 1 := by
      constructor
      · intro c h1 h2 h3
        simp only [Array.size_setIfInBounds, Array.size_pop] at h2
        rw [K_set (by simp; omega), K_set (by simp; omega)]
        simp only [show c / 2 ≠ 1 by omega, show c ≠ 1 by omega, if_false]
        rw [K_pop (by omega), K_pop (by omega)]
        exact ho c h1 (by omega)
      · intro c _ _ h3
        omega
    obtain ⟨a', i', e1, e2, e3, e4, e5, e6, e7⟩ := extLoop_spec last (h.size - 1)
      (h.size - 1 + 1 - 1) 1 h.nodes.pop rfl (Nat.le_refl _) (by omega) hsz' inv0
    simp only [e1, hn0, if_false, wrN_of_lt e3 (show i' < a'.size by omega)]
    refine ⟨_, _, rfl, hroot, ⟨by simp; omega, e5⟩, ?_, hmin root hroot,
      by rw [size_mk]; simp; omega, rfl⟩
    have hp := pop_set_push_perm (a := h.nodes) (idx := 1) (by omega) hlastv' hroot
    have hp2 : ((a'.setIfInBounds i' last).push root).Perm h.nodes :=
      (Array.Perm.push _ e6).trans hp
    have h0 : ((a'.setIfInBounds i' last).push root)[0]? = h.nodes[0]? := by
      rw [Array.getElem?_push]
      simp only [Array.size_setIfInBounds, show ¬ 0 = a'.size by omega, if_false]
      rw [Array.getElem?_setIfInBounds_ne (by omega), e7, Array.getElem?_pop]
      simp [show 0 < h.nodes.size - 1 by omega]
    have := entries_perm_of hp2 h0
    rw [drop_one_push (by simp; omega)] at this
    simp only [entries]
    exact this.symm.trans (List.perm_append_singleton _ _)

/-! ### find -/

theorem find_spec {h : Heap} (inv : HeapInv h) (key : Int) :
    (∃ j, h.find key = .ok (some j) ∧ 1 ≤ j ∧ j ≤ h.size ∧ K h.nodes j = key ∧
        ∀ p, 1 ≤ p → p < j → K h.nodes p ≠ key) ∨
    (h.find key = .ok none ∧ ∀ e ∈ entries h, e.1 ≠ key) := by
  unfold Heap.find
  have hsz : h.nodes.size = h.size + 1 := by have := inv.size_pos; unfold Heap.size; omega
  rcases findLoop_spec h.nodes key h.size (h.size + 1 - 1) 1 rfl (Nat.le_refl _) hsz with
    ⟨j, e1, e2, e3, e4, e5⟩ | ⟨e1, e2⟩
  · left; exact ⟨j, e1, e2, e3, e4, e5⟩
  · right
    refine ⟨e1, ?_⟩
    intro e he
    obtain ⟨i, hi, hie⟩ := mem_entries_iff.mp he
    have hil : i < h.nodes.size := lt_of_getElem? hie
    have := e2 i hi (by omega)
    rwa [K_of_getElem? hie] at this

/-! ### remove -/

theorem remove_invalid {h : Heap} {idx : Nat} (hbad : idx = 0 ∨ h.size < idx) :
    h.remove idx = .ok none := by
  unfold Heap.remove Heap.removeCore
  by_cases h0 : h.size = 0
  · simp [h0]
  · simp only [h0, if_false]
    have : idx = 0 ∨ idx > h.size := hbad
    simp [this]

theorem remove_spec {h : Heap} {idx : Nat} (inv : HeapInv h) (h1 : 1 ≤ idx) (h2 : idx ≤ h.size) :
    ∃ e h', h.remove idx = .ok (some (e, h')) ∧ h.nodes[idx]? = some e ∧ HeapInv h' ∧
      (entries h).Perm (e :: entries h') ∧ h'.size + 1 = h.size ∧ h'.cap = h.cap := by
  obtain ⟨hs, ho⟩ := inv
  have hsz : h.size = h.nodes.size - 1 := rfl
  have hil : idx < h.nodes.size := by omega
  have hlast : h.size < h.nodes.size := by omega
  obtain ⟨rem, hrem⟩ := exists_getElem? hil
  obtain ⟨last, hlastv⟩ := exists_getElem? hlast
  have hlastv' : h.nodes[h.nodes.size - 1]? = some last := by rw [← hsz]; exact hlastv
  unfold Heap.remove Heap.removeCore
  simp only [show h.size ≠ 0 by omega, if_false, show ¬ (idx = 0 ∨ idx > h.size) by omega,
    rdN_eq_ok h1 hrem, rdN_eq_ok (show 0 < h.size by omega) hlastv, Bool.true_and]
  by_cases hl : idx = h.size
  · simp only [hl, decide_true, if_true]
    have hrl : rem = last := by
      rw [hl, hlastv] at hrem
      injection hrem with hrem
      exact hrem.symm
    refine ⟨_, _, rfl, by rw [← hl]; exact hrem, ⟨by simp; omega, heapOrd_pop ho⟩, ?_,
      by rw [size_mk]; simp; omega, rfl⟩
    have e := pop_push_last hlastv' (by omega)
    simp only [entries]
    conv => lhs; rw [← e]
    rw [drop_one_push (by simp; omega), hrl]
    exact List.perm_append_singleton _ _
  · have hin : idx ≤ h.size - 1 := by omega
    have hsz' : h.nodes.pop.size = (h.size - 1) + 1 := by simp; omega
    simp only [hl, decide_false, if_false, Bool.false_eq_true]
    have klast : K h.nodes h.size = last.1 := K_of_getElem? hlastv
    have inv0 : BothInv (h.nodes.pop.setIfInBounds idx last) idx := by
      constructor
      · intro c c1 c2 c3 c4
        simp only [Array.size_setIfInBounds, Array.size_pop] at c2
        rw [K_set (by simp; omega), K_set (by simp; omega)]
        simp only [c4, c3, if_false]
        rw [K_pop (by omega), K_pop (by omega)]
        exact ho c c1 (by omega)
      · intro c c1 c2 c3
        simp only [Array.size_setIfInBounds, Array.size_pop] at c1
        rw [K_set (by simp; omega), K_set (by simp; omega)]
        simp only [show idx / 2 ≠ idx by omega, show c ≠ idx by omega, if_false]
        rw [K_pop (by omega), K_pop (by omega)]
        have a1 := ho idx (by omega) (by omega)
        have a2 := ho c (by omega) (by omega)
        rw [c2] at a2
        omega
    obtain ⟨r, r1, r2, r3, r4, r5, r6, r7⟩ := rmLoop_spec last (h.size - 1) idx
      (2 * (h.size - 1) + 2) h.nodes.pop (by omega) h1 hin hsz' inv0
    obtain ⟨a', i'⟩ := r
    simp only at r2 r3 r4 r5 r6 r7
    simp only [r1, wrN_of_lt r3 (show i' < a'.size by omega)]
    refine ⟨_, _, rfl, hrem, ⟨by simp; omega, r5⟩, ?_, by rw [size_mk]; simp; omega, rfl⟩
    have hp := pop_set_push_perm (a := h.nodes) (idx := idx) (by omega) hlastv' hrem
    have hp2 : ((a'.setIfInBounds i' last).push rem).Perm h.nodes :=
      (Array.Perm.push _ r6).trans hp
    have h0 : ((a'.setIfInBounds i' last).push rem)[0]? = h.nodes[0]? := by
      rw [Array.getElem?_push]
      simp only [Array.size_setIfInBounds, show ¬ 0 = a'.size by omega, if_false]
      rw [Array.getElem?_setIfInBounds_ne (by omega), r7, Array.getElem?_pop]
      simp [show 0 < h.nodes.size - 1 by omega]
    have := entries_perm_of hp2 h0
    rw [drop_one_push (by simp; omega)] at this
    simp only [entries]
    exact this.symm.trans (List.perm_append_singleton _ _)

/-- the unpatched `muggle_heap_remove` agrees with the patched one except on the last slot -/
theorem removeOrig_eq_remove {h : Heap} {idx : Nat} (hne : idx ≠ h.size) :
    h.removeOrig idx = h.remove idx := by
  unfold Heap.removeOrig Heap.remove Heap.removeCore
  simp [hne]

/-- **defect of the pinned tree**: removing the node in the last slot of a heap with at
least two nodes hands a NULL key to the comparison callback -/
theorem removeOrig_last_fails {h : Heap} (inv : HeapInv h) (h2 : 2 ≤ h.size) :
    -- `inv` is not needed for the failure; it is kept to show a *valid* heap fails
   
    h.removeOrig h.size = .error .null := by
  have hsz : h.size = h.nodes.size - 1 := rfl
  have _ := inv.size_pos
  have hlast : h.size < h.nodes.size := by omega
  obtain ⟨last, hlastv⟩ := exists_getElem? hlast
  unfold Heap.removeOrig Heap.removeCore
  simp only [show h.size ≠ 0 by omega, if_false,
    rdN_eq_ok (show 0 < h.size by omega) hlastv, Bool.false_and, Bool.false_eq_true, if_true]
  have : 2 * (h.size - 1) + 2 = (2 * (h.size - 1) + 1) + 1 := by omega
  rw [this]
  unfold rmLoop rmUp
  have hp : h.size / 2 ≠ 0 := by omega
  have hpl : h.size / 2 < h.nodes.pop.size := by simp; omega
  simp [hp, rdN_of_lt (show 0 < h.size / 2 by omega) hpl, derefKey]

end MgProof.C10
