import MgProof.C10.HeapOps
/-! C10 — heap sort: insert all, extract all. -/
namespace MgProof.C10
open MgModel.C10

theorem hsInsert_spec (a : Array Elem) : ∀ (m i : Nat) (h : Heap), m = a.size - i →
    HeapInv h → h.size + (a.size - i) < h.cap →
    ∃ h', hsInsert a a.size h i = .ok h' ∧ HeapInv h' ∧
      (entries h').Perm (a.toList.drop i ++ entries h) ∧ h'.size = h.size + (a.size - i) := by
  intro m
  induction m with
  | zero =>
    intro i h hm inv hc
    unfold hsInsert
    simp only [show ¬ i < a.size by omega, if_false]
    refine ⟨h, rfl, inv, ?_, by omega⟩
    rw [List.drop_eq_nil_of_le (by simp; omega)]
    exact List.Perm.refl _
  | succ m ih =>
    intro i h hm inv hc
    have hlt : i < a.size := by omega
    unfold hsInsert
    simp only [hlt, if_true, rd_of_lt hlt]
    obtain ⟨h1, e1, e2, e3, e4, e5⟩ := insert_spec a[i] inv (by omega)
    simp only [e1]
    obtain ⟨h2, f1, f2, f3, f4⟩ := ih (i + 1) h1 (by omega) e2 (by omega)
    refine ⟨h2, f1, f2, ?_, by omega⟩
    have hd : a.toList.drop i = a[i] :: a.toList.drop (i + 1) := by
      rw [List.drop_eq_getElem_cons (by simpa using hlt)]
      simp
    rw [hd]
    refine f3.trans ?_
    refine (List.Perm.append_left _ e3).trans ?_
    simp

theorem take_succ_set {l : List Elem} {i : Nat} {r : Elem} (h : i < l.length) :
    (l.set i r).take (i + 1) = l.take i ++ [r] := by
  rw [List.take_succ_eq_append_getElem (by simpa using h), List.take_set_of_le (Nat.le_refl _)]
  simp

theorem hsExtract_spec (count : Nat) : ∀ (m i : Nat) (a : Array Elem) (h : Heap), m = count - i →
    a.size = count → HeapInv h → h.size = count - i → i ≤ count → SortedOn a 0 i →
    (∀ p, p < i → ∀ e ∈ entries h, K a p ≤ e.1) →
    ∃ a', hsExtract a count h i = .ok a' ∧ a'.size = count ∧ SortedOn a' 0 count ∧
      a'.toList.Perm (a.toList.take i ++ entries h) := by
  intro m
  induction m with
  | zero =>
    intro i a h hm hsz inv hs hi hso hb
    unfold hsExtract
    simp only [show ¬ i < count by omega, if_false]
    have hi' : i = count := by omega
    refine ⟨a, rfl, hsz, hi' ▸ hso, ?_⟩
    have he : entries h = [] := by
      apply List.eq_nil_of_length_eq_zero
      rw [entries_length]; omega
    rw [he, List.append_nil, List.take_of_length_le (by simp; omega)]
  | succ m ih =>
    intro i a h hm hsz inv hs hi hso hb
    have hlt : i < count := by omega
    unfold hsExtract
    simp only [hlt, if_true]
    obtain ⟨r, h1, e1, e2, e3, e4, e5, e6, e7⟩ := extract_spec inv (by omega)
    simp only [e1, wr_of_lt (show i < a.size by omega)]
    have hrmem : r ∈ entries h := e4.symm.subset (List.mem_cons_self)
    have hsub : ∀ e ∈ entries h1, e ∈ entries h := fun e he => e4.symm.subset (List.mem_cons_of_mem _ he)
    have hil : i < a.size := by omega
    obtain ⟨a', f1, f2, f3, f4⟩ := ih (i + 1) (a.setIfInBounds i r) h1 (by omega) (by simpa using hsz)
      e3 (by omega) (by omega)
      (by
        intro p q _ hpq hq
        rw [K_set hil, K_set hil]
        by_cases hqi : q = i
        · subst hqi
          simp only [show p ≠ q by omega, if_false, if_true]
          exact hb p hpq r hrmem
        · simp only [show p ≠ i by omega, hqi, if_false]
          exact hso p q (Nat.zero_le _) hpq (by omega))
      (by
        intro p hp e he
        rw [K_set hil]
        by_cases hpi : p = i
        · simp only [hpi, if_true]
          exact e5 e (hsub e he)
        · simp only [hpi, if_false]
          exact hb p (by omega) e (hsub e he))
    refine ⟨a', f1, f2, f3, f4.trans ?_⟩
    simp only [Array.toList_setIfInBounds]
    rw [take_succ_set (by simpa using hil), List.append_assoc]
    exact List.Perm.append_left _ (by simpa using e4.symm)

theorem heapSort_spec (a : Array Elem) (hsz : a.size + 1 < 2147483648) :
    ∃ r, heapSort a = .ok (some r) ∧ Sorted r.toList ∧ r.toList.Perm a.toList := by
  unfold heapSort
  have hcap : (a.size % 4294967296 + 1) % 4294967296 = a.size + 1 := by omega
  rw [hcap]
  have hinit : Heap.init (a.size + 1) = some { cap := a.size + 1, nodes := #[dummy] } := by
    unfold Heap.init capValid
    simp [hsz]
  obtain ⟨inv, hent, _⟩ := init_inv hinit
  simp only [hinit]
  obtain ⟨h1, e1, e2, e3, e4⟩ := hsInsert_spec a (a.size - 0) 0 _ rfl inv
    (by rw [size_mk]; simp)
  simp only [e1]
  rw [hent, List.append_nil, List.drop_zero] at e3
  have e4' : h1.size = a.size - 0 := by rw [e4, size_mk]; simp
  obtain ⟨a', f1, f2, f3, f4⟩ := hsExtract_spec a.size (a.size - 0) 0 a h1 rfl rfl e2 e4'
    (Nat.zero_le _) (fun p q _ _ hq => by omega) (fun p hp => by omega)
  simp only [f1]
  refine ⟨a', rfl, ?_, ?_⟩
  · exact sorted_of_sortedOn (f2 ▸ f3)
  · simp only [List.take_zero, List.nil_append] at f4
    exact f4.trans e3

end MgProof.C10
