import MgProof.C10.Basic
/-! C10 — merge sort: the filling loops compute `List.merge`; the recursion sorts a segment. -/
namespace MgProof.C10
open MgModel.C10

/-- the order used by the merge step: `cmp x y ≤ 0` -/
def le (x y : Elem) : Bool := decide (x.1 ≤ y.1)

/-! ### arrays as list decompositions -/

theorem getElem?_decomp {a : Array Elem} {P S : List Elem} {x : Elem} {i : Nat}
    (h : a.toList = P ++ x :: S) (hi : P.length = i) : a[i]? = some x := by
  rw [← Array.getElem?_toList, h, ← hi]
  simp

theorem set_decomp {a : Array Elem} {P S : List Elem} {x y : Elem} {i : Nat}
    (h : a.toList = P ++ x :: S) (hi : P.length = i) :
    i < a.size ∧ (a.setIfInBounds i y).toList = P ++ y :: S := by
  have hl : a.size = P.length + (S.length + 1) := by
    rw [← Array.length_toList, h]; simp
  refine ⟨by omega, ?_⟩
  rw [Array.toList_setIfInBounds, h, ← hi]
  simp

/-- reading the list `L` from `p` at offset `l` -/
def Reads (p : Array Elem) (l : Nat) (L : List Elem) : Prop :=
  ∀ k x, L[k]? = some x → p[l + k]? = some x

theorem reads_head {p : Array Elem} {l : Nat} {x : Elem} {L : List Elem} (h : Reads p l (x :: L)) :
    p[l]? = some x := by
  simpa using h 0 x (by simp)

theorem reads_tail {p : Array Elem} {l : Nat} {x : Elem} {L : List Elem} (h : Reads p l (x :: L)) :
    Reads p (l + 1) L := by
  intro k y hy
  have := h (k + 1) y (by simpa using hy)
  rwa [show l + (k + 1) = l + 1 + k by omega] at this

theorem reads_of_decomp {p : Array Elem} {P L Q : List Elem} {l : Nat}
    (h : p.toList = P ++ L ++ Q) (hl : P.length = l) : Reads p l L := by
  intro k x hx
  have hk : k < L.length := by
    by_cases hh : k < L.length
    · exact hh
    · rw [List.getElem?_eq_none (by omega)] at hx; cases hx
  rw [← Array.getElem?_toList, h, List.append_assoc,
    List.getElem?_append_right (by omega), ← hl, Nat.add_sub_cancel_left,
    List.getElem?_append_left hk]
  exact hx

/-! ### the copy loops -/

theorem copyTail_list (p : Array Elem) (hi : Nat) : ∀ (S : List Elem) (l idx : Nat)
    (arr : Array Elem) (A B C : List Elem),
    l + S.length = hi + 1 → Reads p l S → arr.toList = A ++ B ++ C → A.length = idx →
    B.length = S.length →
    ∃ arr', copyTail p arr hi l idx = .ok (arr', idx + S.length) ∧ arr'.toList = A ++ S ++ C := by
  intro S
  induction S with
  | nil =>
    intro l idx arr A B C hl _ harr hA hB
    unfold copyTail
    simp only [List.length_nil, Nat.add_zero] at hl hB ⊢
    simp only [show ¬ l ≤ hi by omega, if_false]
    have : B = [] := List.eq_nil_of_length_eq_zero hB
    subst this
    exact ⟨arr, rfl, by simpa using harr⟩
  | cons x S ih =>
    intro l idx arr A B C hl hr harr hA hB
    unfold copyTail
    simp only [List.length_cons] at hl hB
    simp only [show l ≤ hi by omega, if_true, rd_eq_ok.mpr (reads_head hr)]
    obtain ⟨b, B', rfl⟩ : ∃ b B', B = b :: B' := by
      cases B with
      | nil => simp at hB
      | cons b B' => exact ⟨b, B', rfl⟩
    have harr' : arr.toList = A ++ b :: (B' ++ C) := by simpa using harr
    obtain ⟨hlt, hset⟩ := set_decomp (y := x) harr' hA
    simp only [wr_of_lt hlt]
    obtain ⟨arr', e1, e2⟩ := ih (l + 1) (idx + 1) (arr.setIfInBounds idx x) (A ++ [x]) B' C
      (by omega) (reads_tail hr) (by simpa using hset) (by simp [hA]) (by simpa using hB)
    refine ⟨arr', ?_, by simpa using e2⟩
    rw [e1]
    simp only [List.length_cons]
    congr 2
    omega

theorem copyBack_list (arr : Array Elem) (right : Nat) : ∀ (S : List Elem) (idx : Nat)
    (p : Array Elem) (A B C : List Elem),
    idx + S.length = right + 1 → Reads arr idx S → p.toList = A ++ B ++ C → A.length = idx →
    B.length = S.length →
    ∃ p', copyBack p arr right idx = .ok p' ∧ p'.toList = A ++ S ++ C := by
  intro S
  induction S with
  | nil =>
    intro idx p A B C hl _ hp hA hB
    unfold copyBack
    simp only [List.length_nil, Nat.add_zero] at hl hB
    simp only [show ¬ idx ≤ right by omega, if_false]
    have : B = [] := List.eq_nil_of_length_eq_zero hB
    subst this
    exact ⟨p, rfl, by simpa using hp⟩
  | cons x S ih =>
    intro idx p A B C hl hr hp hA hB
    unfold copyBack
    simp only [List.length_cons] at hl hB
    simp only [show idx ≤ right by omega, if_true, rd_eq_ok.mpr (reads_head hr)]
    obtain ⟨b, B', rfl⟩ : ∃ b B', B = b :: B' := by
      cases B with
      | nil => simp at hB
      | cons b B' => exact ⟨b, B', rfl⟩
    have hp' : p.toList = A ++ b :: (B' ++ C) := by simpa using hp
    obtain ⟨hlt, hset⟩ := set_decomp (y := x) hp' hA
    simp only [wr_of_lt hlt]
    obtain ⟨p', e1, e2⟩ := ih (idx + 1) (p.setIfInBounds idx x) (A ++ [x]) B' C
      (by omega) (reads_tail hr) (by simpa using hset) (by simp [hA]) (by simpa using hB)
    exact ⟨p', e1, by simpa using e2⟩

/-! ### the merge loop followed by the two tail loops computes `List.merge` -/

theorem mergeFill_list (p : Array Elem) (center right : Nat) : ∀ (n : Nat) (L R : List Elem)
    (l r idx : Nat) (arr : Array Elem) (A B C : List Elem), n = L.length + R.length →
    l + L.length = center + 1 → r + R.length = right + 1 → Reads p l L → Reads p r R →
    arr.toList = A ++ B ++ C → A.length = idx → B.length = L.length + R.length →
    ∃ arr', mergeFill p arr center right l r idx = .ok arr' ∧
      arr'.toList = A ++ List.merge L R le ++ C := by
  intro n
  induction n with
  | zero =>
    intro L R l r idx arr A B C hn hl hr _ _ harr hA hB
    have hL : L = [] := List.eq_nil_of_length_eq_zero (by omega)
    have hR : R = [] := List.eq_nil_of_length_eq_zero (by omega)
    subst hL hR
    simp only [List.length_nil, Nat.add_zero] at hl hr hB
    have : B = [] := List.eq_nil_of_length_eq_zero hB
    subst this
    unfold mergeFill mergeLoop
    simp only [show ¬ (l ≤ center ∧ r ≤ right) by omega, if_false]
    unfold copyTail
    simp only [show ¬ l ≤ center by omega, if_false]
    unfold copyTail
    simp only [show ¬ r ≤ right by omega, if_false]
    exact ⟨arr, rfl, by simpa using harr⟩
  | succ n ih =>
    intro L R l r idx arr A B C hn hl hr hrl hrr harr hA hB
    cases L with
    | nil =>
      simp only [List.length_nil, Nat.add_zero, Nat.zero_add] at hl hB hn
      unfold mergeFill mergeLoop
      simp only [show ¬ (l ≤ center ∧ r ≤ right) by omega, if_false]
      have h1 : copyTail p arr center l idx = .ok (arr, idx) := by
        unfold copyTail
        simp [show ¬ l ≤ center by omega]
      simp only [h1]
      obtain ⟨arr', e1, e2⟩ := copyTail_list p right R r idx arr A B C hr hrr harr hA hB
      simp only [e1]
      exact ⟨arr', rfl, by simpa using e2⟩
    | cons x L' =>
      cases R with
      | nil =>
        simp only [List.length_nil, Nat.add_zero] at hr hB hn
        unfold mergeFill mergeLoop
        simp only [show ¬ (l ≤ center ∧ r ≤ right) by omega, if_false]
        obtain ⟨arr', e1, e2⟩ := copyTail_list p center (x :: L') l idx arr A B C hl hrl harr hA hB
        simp only [e1]
        have h2 : copyTail p arr' right r (idx + (x :: L').length) =
            .ok (arr', idx + (x :: L').length) := by
          unfold copyTail
          simp [show ¬ r ≤ right by omega]
        simp only [h2]
        exact ⟨arr', rfl, by simpa using e2⟩
      | cons y R' =>
        simp only [List.length_cons] at hl hr hB hn
        obtain ⟨b, B', rfl⟩ : ∃ b B', B = b :: B' := by
          cases B with
          | nil => simp at hB
          | cons b B' => exact ⟨b, B', rfl⟩
        have harr' : arr.toList = A ++ b :: (B' ++ C) := by simpa using harr
        unfold mergeFill mergeLoop
        simp only [show l ≤ center ∧ r ≤ right by omega,
          rd_eq_ok.mpr (reads_head hrl), rd_eq_ok.mpr (reads_head hrr), cmp_nonpos]
        by_cases hc : x.1 ≤ y.1
        · obtain ⟨hlt, hset⟩ := set_decomp (y := x) harr' hA
          simp only [hc, if_true, wr_of_lt hlt]
          obtain ⟨arr', e1, e2⟩ := ih L' (y :: R') (l + 1) r (idx + 1) (arr.setIfInBounds idx x)
            (A ++ [x]) B' C (by simp; omega) (by omega) (by simp; omega) (reads_tail hrl) hrr
            (by simpa using hset) (by simp [hA]) (by simp at hB ⊢; omega)
          unfold mergeFill at e1
          refine ⟨arr', e1, ?_⟩
          rw [e2]
          simp [le, hc]
        · obtain ⟨hlt, hset⟩ := set_decomp (y := y) harr' hA
          simp only [hc, if_false, wr_of_lt hlt]
          obtain ⟨arr', e1, e2⟩ := ih (x :: L') R' l (r + 1) (idx + 1) (arr.setIfInBounds idx y)
            (A ++ [y]) B' C (by simp; omega) (by simp; omega) (by omega) hrl (reads_tail hrr)
            (by simpa using hset) (by simp [hA]) (by simp at hB ⊢; omega)
          unfold mergeFill at e1
          refine ⟨arr', e1, ?_⟩
          rw [e2]
          simp [le, hc]

theorem sorted_merge {L R : List Elem} (hL : Sorted L) (hR : Sorted R) :
    Sorted (List.merge L R le) := by
  have h := List.pairwise_merge (le := le)
    (fun a b c h1 h2 => by simp only [le, decide_eq_true_eq] at *; omega)
    (fun a b => by simp only [le, Bool.or_eq_true, decide_eq_true_eq]; omega) L R
    (hL.imp (by intro a b h; simpa [le] using h)) (hR.imp (by intro a b h; simpa [le] using h))
  exact h.imp (by intro a b h; simpa [le] using h)


theorem sorted_of_length_le_one {l : List Elem} (h : l.length ≤ 1) : Sorted l := by
  cases l with
  | nil => exact List.Pairwise.nil
  | cons x l =>
    cases l with
    | nil => exact List.pairwise_singleton _ _
    | cons y l => simp at h

theorem size_of_toList_eq {a : Array Elem} {l : List Elem} (h : a.toList = l) : a.size = l.length := by
  rw [← Array.length_toList, h]

/-- the merge step: two adjacent sorted runs become their `List.merge` -/
theorem mergeStep_list {p arr : Array Elem} {left center right : Nat} {pre L R post : List Elem}
    (hp : p.toList = pre ++ L ++ R ++ post) (h1 : pre.length = left)
    (h2 : left + L.length = center + 1) (h3 : center + 1 + R.length = right + 1)
    (hsz : arr.size = p.size) :
    ∃ p' arr', mergeStep p arr left center right = .ok (p', arr') ∧
      p'.toList = pre ++ List.merge L R le ++ post ∧ arr'.size = p'.size := by
  have hpsz : p.size = left + L.length + R.length + post.length := by
    rw [size_of_toList_eq hp]; simp; omega
  have harr : arr.toList = arr.toList.take left ++
      (arr.toList.drop left).take (L.length + R.length) ++
      (arr.toList.drop left).drop (L.length + R.length) := by
    rw [List.append_assoc, List.take_append_drop, List.take_append_drop]
  have hA : (arr.toList.take left).length = left := by simp; omega
  have hB : ((arr.toList.drop left).take (L.length + R.length)).length = L.length + R.length := by
    simp; omega
  have hrl : Reads p left L := reads_of_decomp (Q := R ++ post) (by simpa using hp) h1
  have hrr : Reads p (center + 1) R :=
    reads_of_decomp (P := pre ++ L) (Q := post) (by simpa using hp) (by simp; omega)
  obtain ⟨arr3, e1, e2⟩ := mergeFill_list p center right (L.length + R.length) L R left
    (center + 1) left arr _ _ _ rfl h2 h3 hrl hrr harr hA hB
  unfold mergeStep
  simp only [e1]
  have hml : (List.merge L R le).length = L.length + R.length := List.length_merge le L R
  have hra : Reads arr3 left (List.merge L R le) := reads_of_decomp e2 hA
  obtain ⟨p', f1, f2⟩ := copyBack_list arr3 right (List.merge L R le) left p pre (L ++ R) post
    (by omega) hra (by simpa using hp) h1 (by simp [hml])
  simp only [f1]
  refine ⟨p', arr3, rfl, f2, ?_⟩
  rw [size_of_toList_eq e2, size_of_toList_eq f2]
  simp [hml]
  omega

theorem mergeRec_spec : ∀ (n left right : Nat) (p arr : Array Elem) (pre mid post : List Elem),
    n = right - left → left ≤ right → p.toList = pre ++ mid ++ post → pre.length = left →
    mid.length = right - left + 1 → arr.size = p.size →
    ∃ p' arr' mid', mergeRec p arr left right = .ok (p', arr') ∧
      p'.toList = pre ++ mid' ++ post ∧ Sorted mid' ∧ mid'.Perm mid ∧ arr'.size = p'.size := by
  intro n
  induction n using Nat.strongRecOn with
  | _ n ih =>
    intro left right p arr pre mid post hn hle hp hpre hmid hsz
    unfold mergeRec
    by_cases hlt : left < right
    · simp only [hlt, if_true]
      have hc1 : left ≤ (left + right) / 2 := by omega
      have hc2 : (left + right) / 2 < right := by omega
      obtain ⟨k, hkdef⟩ : ∃ k, k = (left + right) / 2 + 1 - left := ⟨_, rfl⟩
      have hk : k ≤ mid.length := by omega
      have hmidsplit : mid = mid.take k ++ mid.drop k := (List.take_append_drop k mid).symm
      have hLlen : (mid.take k).length = k := by simp; omega
      have hRlen : (mid.drop k).length = right - (left + right) / 2 := by simp; omega
      obtain ⟨p1, arr1, L', e1, e2, e3, e4, e5⟩ := ih ((left + right) / 2 - left) (by omega) left
        ((left + right) / 2) p arr pre (mid.take k) (mid.drop k ++ post) rfl hc1
        (by rw [hp]; simp only [List.append_assoc]
            rw [← List.append_assoc (mid.take k), List.take_append_drop])
        hpre (by omega) hsz
      simp only [e1]
      have hL'len : L'.length = k := by rw [e4.length_eq]; exact hLlen
      obtain ⟨p2, arr2, R', f1, f2, f3, f4, f5⟩ := ih (right - ((left + right) / 2 + 1)) (by omega)
        ((left + right) / 2 + 1) right p1 arr1 (pre ++ L') (mid.drop k) post rfl (by omega)
        (by rw [e2]; simp) (by simp; omega) (by omega) e5
      simp only [f1]
      have hR'len : R'.length = right - (left + right) / 2 := by rw [f4.length_eq]; exact hRlen
      obtain ⟨p3, arr3, g1, g2, g3⟩ := mergeStep_list (p := p2) (arr := arr2) (left := left)
        (center := (left + right) / 2) (right := right) (pre := pre) (L := L') (R := R') (post := post)
        (by rw [f2]) hpre (by omega) (by omega) f5
      refine ⟨p3, arr3, List.merge L' R' le, g1, g2, sorted_merge e3 f3, ?_, g3⟩
      refine (List.merge_perm_append le).trans ?_
      conv => rhs; rw [hmidsplit]
      exact List.Perm.append e4 f4
    · simp only [hlt, if_false]
      exact ⟨p, arr, mid, rfl, hp, sorted_of_length_le_one (by omega), List.Perm.refl _, hsz⟩

theorem mergeSort_spec (a : Array Elem) :
    ∃ r, mergeSort a = .ok r ∧ Sorted r.toList ∧ r.toList.Perm a.toList := by
  unfold mergeSort mergeSortTo
  by_cases h : a.size < 2
  · simp only [h, if_true]
    exact ⟨a, rfl, sorted_of_length_le_one (by simp; omega), List.Perm.refl _⟩
  · simp only [h, if_false]
    obtain ⟨p', arr', mid', e1, e2, e3, e4, _⟩ := mergeRec_spec (a.size - 1 - 0) 0 (a.size - 1)
      a a [] a.toList [] rfl (Nat.zero_le _) (by simp) rfl (by simp; omega) rfl
    simp only [e1]
    refine ⟨p', rfl, ?_, ?_⟩
    · rw [e2]; simpa using e3
    · rw [e2]; simpa using e4


/-- the unpatched recursion on the empty array: every range `[0, right]` with `right > 0`
ends in a read of `ptr[0]` -/
theorem mergeRec_empty_oob : ∀ (right : Nat), 0 < right →
    mergeRec #[] #[] 0 right = .error .oob := by
  intro right
  induction right using Nat.strongRecOn with
  | _ right ih =>
    intro h
    unfold mergeRec
    simp only [h, if_true, Nat.zero_add]
    by_cases h2 : 0 < right / 2
    · rw [ih (right / 2) (by omega) h2]
    · have h1 : right = 1 := by omega
      subst h1
      have e1 : mergeRec #[] #[] 0 (1 / 2) = .ok (#[], #[]) := by
        unfold mergeRec; simp
      have e2 : mergeRec #[] #[] (1 / 2 + 1) 1 = .ok (#[], #[]) := by
        unfold mergeRec; simp
      simp only [e1, e2]
      unfold mergeStep mergeFill mergeLoop rd
      simp

/-- **defect of the pinned tree**: `count - 1` wraps for the empty array -/
theorem mergeSortOrig_empty_fails : mergeSortOrig #[] = .error .oob := by
  unfold mergeSortOrig mergeSortTo
  have h : 0 < wrapSub1 (#[] : Array Elem).size := by
    have := ten_le_wrapSub1_zero
    simp only [Array.size_empty]
    omega
  rw [mergeRec_empty_oob _ h]

/-- the unpatched entry point agrees with the patched one on arrays with at least two
elements (for `count = 1` both do nothing) -/
theorem mergeSortOrig_eq_mergeSort {a : Array Elem} (h : 2 ≤ a.size)
    (h64 : a.size < sizeMod) : mergeSortOrig a = mergeSort a := by
  unfold mergeSortOrig mergeSort
  rw [wrapSub1_of_pos (by omega) h64]
  simp [show ¬ a.size < 2 by omega]

end MgProof.C10
