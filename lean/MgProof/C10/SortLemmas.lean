import MgProof.C10.Basic
/-! C10 — insertion sort and shell sort: loop invariants. -/
namespace MgProof.C10
open MgModel.C10

/-! ### insertion sort -/

/-- window `[base, base+i]` of the virtual array `V` is ordered except for pairs whose
right index is the hole `base + j` -/
def InsInv (V : Array Elem) (base i j : Nat) : Prop :=
  ∀ p q, base ≤ p → p < q → q ≤ base + i → q ≠ base + j → K V p ≤ K V q

theorem insInner_spec (base i : Nat) (tmp : Elem) : ∀ (j : Nat) (a : Array Elem),
    j ≤ i → base + i < a.size →
    InsInv (a.setIfInBounds (base + j) tmp) base i j →
    ∃ a', insInner a base tmp j = .ok a' ∧ a'.size = a.size ∧ SortedOn a' base (base + i + 1) ∧
      a'.Perm (a.setIfInBounds (base + j) tmp) ∧
      (∀ p, p < base ∨ base + i < p → a'[p]? = a[p]?) := by
  intro j
  induction j with
  | zero =>
    intro a hj hsz inv
    refine ⟨a.setIfInBounds base tmp, by simp [insInner, wr]; omega, by simp, ?_, by simp, ?_⟩
    · intro p q h1 h2 h3
      exact inv p q h1 h2 (by omega) (by omega)
    · intro p hp
      rw [Array.getElem?_setIfInBounds_ne (by omega)]
  | succ j ih =>
    intro a hj hsz inv
    have hx : (base + j) < a.size := by omega
    have hx1 : base + (j + 1) < a.size := by omega
    simp only [insInner, rd_of_lt hx]
    by_cases hc : cmp a[base + j] tmp > 0
    · simp only [hc, if_true, wr_of_lt hx1]
      have inv' : InsInv ((a.setIfInBounds (base + (j + 1)) a[base + j]).setIfInBounds
          (base + j) tmp) base i j := by
        simp only [cmp_gt, K_getElem hx] at hc
        intro p q h1 h2 h3 h4
        have e1 := inv p q
        have e2 := inv p (base + j)
        have e3 := inv (base + j) q
        have e4 := inv (base + (j + 1)) q
        simp only [K_set hx1, K_set (show base + j <
          (a.setIfInBounds (base + (j + 1)) a[base + j]).size by simpa using hx),
          K_getElem hx] at *
        grind
      obtain ⟨a', h1, h2, h3, h4, h5⟩ :=
        ih (a.setIfInBounds (base + (j+1)) a[base+j]) (by omega) (by simp; omega) inv'
      refine ⟨a', h1, by simpa using h2, h3, ?_, ?_⟩
      · exact h4.trans (hole_perm hx1 hx (by omega))
      · intro p hp
        rw [h5 p hp, Array.getElem?_setIfInBounds_ne (by omega)]
    · simp only [hc, if_false, wr_of_lt hx1]
      refine ⟨_, rfl, by simp, ?_, .rfl, ?_⟩
      · simp only [cmp_gt, K_getElem hx] at hc
        intro p q h1 h2 h3
        have e1 := inv p q
        have e2 := inv p (base + j)
        simp only [K_set hx1] at *
        grind
      · intro p hp
        rw [Array.getElem?_setIfInBounds_ne (by omega)]

theorem insOuter_spec (base count : Nat) : ∀ (n i : Nat) (a : Array Elem), n = count - i →
    1 ≤ i → base + count ≤ a.size → SortedOn a base (base + i) →
    ∃ a', insOuter a base count i = .ok a' ∧ a'.size = a.size ∧
      SortedOn a' base (base + count) ∧ a'.Perm a ∧
      (∀ p, p < base ∨ base + count ≤ p → a'[p]? = a[p]?) := by
  intro n
  induction n with
  | zero =>
    intro i a hn hi hsz hs
    unfold insOuter
    simp only [show ¬ i < count by omega, if_false]
    exact ⟨a, rfl, rfl, sortedOn_mono hs (Nat.le_refl _) (by omega), .rfl, fun _ _ => rfl⟩
  | succ n ih =>
    intro i a hn hi hsz hs
    have hlt : i < count := by omega
    have hx : base + i < a.size := by omega
    unfold insOuter
    simp only [hlt, if_true, rd_of_lt hx]
    have inv : InsInv (a.setIfInBounds (base + i) a[base + i]) base i i := by
      rw [set_self_eq hx]
      intro p q h1 h2 h3 h4
      exact hs p q h1 h2 (by omega)
    obtain ⟨a1, e1, e2, e3, e4, e5⟩ := insInner_spec base i a[base + i] i a (Nat.le_refl _) hx inv
    rw [set_self_eq hx] at e4
    simp only [e1]
    obtain ⟨a2, f1, f2, f3, f4, f5⟩ := ih (i + 1) a1 (by omega) (by omega) (by omega) e3
    refine ⟨a2, f1, by omega, f3, f4.trans e4, ?_⟩
    intro p hp
    rw [f5 p hp, e5 p (by omega)]

theorem insertionSortAt_spec {a : Array Elem} {base count : Nat} (h : base + count ≤ a.size) :
    ∃ a', insertionSortAt a base count = .ok a' ∧ a'.size = a.size ∧
      SortedOn a' base (base + count) ∧ a'.Perm a ∧
      (∀ p, p < base ∨ base + count ≤ p → a'[p]? = a[p]?) := by
  unfold insertionSortAt
  refine insOuter_spec base count (count - 1) 1 a rfl (Nat.le_refl _) h ?_
  intro p q h1 h2 h3
  omega

/-! ### shell sort -/

/-- one gapped insertion: never out of bounds, permutes the virtual array -/
theorem shellInner_perm (h : Nat) (hpos : 0 < h) (tmp : Elem) : ∀ (j : Nat) (a : Array Elem),
    j < a.size →
    ∃ a', shellInner a h hpos tmp j = .ok a' ∧ a'.size = a.size ∧
      a'.Perm (a.setIfInBounds j tmp) := by
  intro j
  induction j using Nat.strongRecOn with
  | _ j ih =>
    intro a hj
    unfold shellInner
    by_cases hle : h ≤ j
    · have hx : j - h < a.size := by omega
      simp only [hle, if_true, rd_of_lt hx]
      by_cases hc : cmp tmp a[j - h] < 0
      · simp only [hc, if_true, wr_of_lt hj]
        obtain ⟨a', e1, e2, e3⟩ := ih (j - h) (by omega) (a.setIfInBounds j a[j - h]) (by simpa using hx)
        refine ⟨a', e1, by simpa using e2, e3.trans (hole_perm hj hx (by omega))⟩
      · simp only [hc, if_false, wr_of_lt hj]
        exact ⟨_, rfl, by simp, .rfl⟩
    · simp only [hle, if_false, wr_of_lt hj]
      exact ⟨_, rfl, by simp, .rfl⟩

theorem shellMid_perm (h : Nat) (hpos : 0 < h) (count : Nat) : ∀ (n i : Nat) (a : Array Elem),
    n = count - i → count ≤ a.size →
    ∃ a', shellMid a h hpos count i = .ok a' ∧ a'.size = a.size ∧ a'.Perm a := by
  intro n
  induction n with
  | zero =>
    intro i a hn hsz
    unfold shellMid
    simp only [show ¬ i < count by omega, if_false]
    exact ⟨a, rfl, rfl, .rfl⟩
  | succ n ih =>
    intro i a hn hsz
    have hlt : i < count := by omega
    have hx : i < a.size := by omega
    unfold shellMid
    simp only [hlt, if_true, rd_of_lt hx]
    obtain ⟨a1, e1, e2, e3⟩ := shellInner_perm h hpos a[i] i a hx
    rw [set_self_eq hx] at e3
    simp only [e1]
    obtain ⟨a2, f1, f2, f3⟩ := ih (i + 1) a1 (by omega) (by omega)
    exact ⟨a2, f1, by omega, f3.trans e3⟩

/-- with gap 1 the gapped insertion *is* the insertion-sort inner loop -/
theorem shellInner_one (tmp : Elem) : ∀ (j : Nat) (a : Array Elem),
    shellInner a 1 Nat.one_pos tmp j = insInner a 0 tmp j := by
  intro j
  induction j with
  | zero =>
    intro a
    unfold shellInner
    simp [insInner]
  | succ j ih =>
    intro a
    unfold shellInner
    simp only [show 1 ≤ j + 1 by omega, if_true, insInner, Nat.add_sub_cancel, Nat.zero_add]
    cases hr : rd a j with
    | error e => rfl
    | ok x =>
      simp only []
      have : (cmp tmp x < 0) = (cmp x tmp > 0) := by simp
      simp only [this]
      split
      · cases hw : wr a (j + 1) x with
        | error e => rfl
        | ok a' => simp only []; exact ih a'
      · rfl

theorem shellMid_one (count : Nat) : ∀ (n i : Nat) (a : Array Elem), n = count - i →
    shellMid a 1 Nat.one_pos count i = insOuter a 0 count i := by
  intro n
  induction n with
  | zero =>
    intro i a hn
    unfold shellMid insOuter
    simp [show ¬ i < count by omega]
  | succ n ih =>
    intro i a hn
    unfold shellMid insOuter
    simp only [show i < count by omega, if_true, Nat.zero_add, shellInner_one]
    cases rd a i with
    | error e => rfl
    | ok tmp =>
      simp only []
      cases insInner a 0 tmp i with
      | error e => rfl
      | ok a' => simp only []; exact ih (i + 1) a' (by omega)

theorem shellOuter_spec (count : Nat) : ∀ (inc : Nat) (a : Array Elem), 0 < inc →
    count = a.size →
    ∃ a', shellOuter a count inc = .ok a' ∧ a'.size = a.size ∧ SortedOn a' 0 count ∧ a'.Perm a := by
  intro inc
  induction inc using Nat.strongRecOn with
  | _ inc ih =>
    intro a hpos hsz
    unfold shellOuter
    simp only [hpos, dite_true]
    by_cases h1 : inc = 1
    · subst h1
      rw [shellMid_one count (count - 1) 1 a rfl]
      obtain ⟨a1, e1, e2, e3, e4, _⟩ :=
        insOuter_spec 0 count (count - 1) 1 a rfl (Nat.le_refl _) (by omega)
          (fun p q _ _ _ => by omega)
      simp only [e1]
      unfold shellOuter
      simp only [show ¬ 0 < 1 / 2 by omega, dite_false]
      exact ⟨a1, rfl, e2, by simpa using e3, e4⟩
    · obtain ⟨a1, e1, e2, e3⟩ := shellMid_perm inc hpos count (count - inc) inc a rfl (by omega)
      simp only [e1]
      obtain ⟨a2, f1, f2, f3, f4⟩ := ih (inc / 2) (by omega) a1 (by omega) (by omega)
      exact ⟨a2, f1, by omega, f3, f4.trans e3⟩

end MgProof.C10
