import MgProof.C06.Steps
/-!
# C06 — vocabulary of the property theorems

`Reachable` (the quantifier "every sequence of operations from init"), `liveAfter`,
`allocN` / `runOps` / `runChecked` (finite runs used in statements and witnesses) and a few
small facts about them. The property theorems themselves are in `Props.lean`.
-/
namespace MgProof.C06
open MgModel.C06

/-- States reachable from `init` by valid operations; `r` is the reference state that has
    accepted every result so far. -/
inductive Reachable (E : Env) : Pool → Ref → Prop
  | init (c b : Nat) (p : Pool) (r : Ref) :
      init E c b = some p → Ref.init E.mal c b = some r → Reachable E p r
  | step (p : Pool) (r : Ref) (op : Op) (p' : Pool) (res : Res) (r' : Ref) :
      Reachable E p r → Valid r op → step E p op = .ok (p', res) →
      Ref.step E.mal r op res = some r' → Reachable E p' r'

/-- the live list after an operation with a given result -/
def liveAfter (live : List BlockId) : Op → Res → List BlockId
  | .alloc, .blk (some b) => live ++ [b]
  | .free b, _ => live.erase b
  | _, _ => live

theorem ref_ensure_const {mal : Nat → Bool} {r : Ref} (hc : r.flag % 2 = 1) (n : Nat) :
    Ref.ensure mal r n = (r, decide (n ≤ r.cap)) := by
  simp only [Ref.ensure]
  split
  · next h => simp [h]
  · next h => simp [Ref.canGrow, hc, h]

/-- a successful `init` of the repaired source returns exactly `initPool` -/
theorem init_some_eq {E : Env} (hB : E.fixBytes = true) {c b : Nat} {p : Pool}
    (hp : init E c b = some p) : p = initPool (if c = 0 then 8 else c) b := by
  unfold init at hp
  simp only [slabRequest, hB, if_true] at hp
  by_cases hb : b = 0
  · simp [hb] at hp
  · simp only [hb, if_false] at hp
    by_cases hov : (if c = 0 then 8 else c) > SIZE_MAX / b
    · simp [hov] at hp
    · simp only [hov, if_false] at hp
      cases h1 : E.mal PTR <;> simp only [h1, Bool.not_false, Bool.not_true, if_true,
        Bool.false_eq_true, if_false] at hp
      · cases hp
      cases h2 : E.mal (PTR * (if c = 0 then 8 else c)) <;> simp only [h2, Bool.not_false,
        Bool.not_true, if_true, Bool.false_eq_true, if_false] at hp
      · cases hp
      cases h3 : E.mal (b * (if c = 0 then 8 else c)) <;> simp only [h3, Bool.not_false,
        Bool.not_true, if_true, Bool.false_eq_true, if_false] at hp
      · cases hp
      cases hp; rfl

/-- `k` consecutive `alloc` calls; the list of results -/
def allocN (E : Env) : Nat → Pool → Except Err (Pool × List (Option BlockId))
  | 0, p => .ok (p, [])
  | k+1, p =>
    match alloc E p with
    | .error e => .error e
    | .ok (q, b) =>
      match allocN E k q with
      | .error e => .error e
      | .ok (q', bs) => .ok (q', b :: bs)

/-- a small history runner for the witnesses: results of `alloc` (block), `free` of the
    k-th entry of an explicit list, `ensure` -/
def runOps (E : Env) (p : Pool) : List Op → Except Err (Pool × List Res)
  | [] => .ok (p, [])
  | op :: t =>
    match step E p op with
    | .error e => .error e
    | .ok (q, res) =>
      match runOps E q t with
      | .error e => .error e
      | .ok (q', rs) => .ok (q', res :: rs)

/-- decidable form of `Valid` -/
def validOp (r : Ref) : Op → Bool
  | .free b => r.live.contains b
  | .alloc => decide (r.used = r.cap → r.cap + r.growStep < U32)
  | _ => true

theorem validOp_sound {r : Ref} {op : Op} (h : validOp r op = true) : Valid r op := by
  cases op with
  | alloc => simp only [validOp, decide_eq_true_eq] at h; exact h
  | free b => simpa [validOp, Valid] using h
  | ensure n => trivial
  | setFlag f => trivial
  | setMaxDelta d => trivial

/-- run a list of operations, checking `Valid` and the reference acceptor at every step -/
def runChecked (E : Env) : Pool → Ref → List Op → Option (Pool × Ref)
  | p, r, [] => some (p, r)
  | p, r, op :: t =>
    if validOp r op then
      match step E p op with
      | .ok (q, res) =>
        match Ref.step E.mal r op res with
        | some r' => runChecked E q r' t
        | none => none
      | .error _ => none
    else none

theorem runChecked_reachable {E : Env} {p : Pool} {r : Ref} (h : Reachable E p r) (ops : List Op)
    {p' : Pool} {r' : Ref} (hr : runChecked E p r ops = some (p', r')) : Reachable E p' r' := by
  induction ops generalizing p r with
  | nil => simp only [runChecked, Option.some.injEq, Prod.mk.injEq] at hr; rw [← hr.1, ← hr.2]; exact h
  | cons op t ih =>
    simp only [runChecked] at hr
    split at hr
    · next hv =>
      split at hr
      · next q res hs =>
        split at hr
        · next r1 hr1 =>
          exact ih (Reachable.step p r op q res r1 h (validOp_sound hv) hs hr1) hr
        · cases hr
      · cases hr
    · cases hr

end MgProof.C06
