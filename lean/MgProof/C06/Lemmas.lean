import MgModel.C06.MemoryPool
/-!
# C06 — list / ring lemmas used by the step proofs

`rot l m` is the ring `l` read from position `m` once around. `allBlocks slabs`
enumerates every block of every data buffer (the universe the invariant speaks
about).
-/
namespace MgProof.C06
open MgModel.C06

/-- the ring `l` read once around starting at position `m` -/
def rot {α} (l : List α) (m : Nat) : List α := l.drop m ++ l.take m
theorem rot_length {α} (l : List α) (m : Nat) : (rot l m).length = l.length := by
  simp [rot]; omega

theorem rot_zero {α} (l : List α) : rot l 0 = l := by simp [rot]

theorem rot_full {α} (l : List α) : rot l l.length = l := by simp [rot]

theorem rot_head {α} (l : List α) (m : Nat) (h : m < l.length) :
    rot l m = l[m] :: (l.drop (m+1) ++ l.take m) := by
  unfold rot
  rw [List.drop_eq_getElem_cons h]; rfl

theorem rot_succ {α} (l : List α) (m : Nat) (h : m < l.length) :
    rot l (m+1) = l.drop (m+1) ++ l.take m ++ [l[m]] := by
  unfold rot
  rw [List.take_succ_eq_append_getElem h, List.append_assoc]

theorem rot_set {α} (l : List α) (m k : Nat) (b : α) (hm : m < l.length) (hk : k < l.length) :
    rot (l.set (if m + k < l.length then m + k else m + k - l.length) b) m = (rot l m).set k b := by
  apply List.ext_getElem
  · simp [rot_length]
  · intro i h1 h2
    have hi : i < l.length := by simpa [rot_length] using h2
    simp only [rot]
    simp only [List.getElem_set, List.getElem_append, List.getElem_drop, List.getElem_take,
      List.length_drop, List.length_set]
    grind



theorem length_newBlocks (s n : Nat) : (newBlocks s n).length = n := by simp [newBlocks]

theorem mem_newBlocks (s n : Nat) (b : BlockId) : b ∈ newBlocks s n ↔ b.1 = s ∧ b.2 < n := by
  simp only [newBlocks, List.mem_map, List.mem_range]
  constructor
  · rintro ⟨i, hi, rfl⟩; exact ⟨rfl, hi⟩
  · rintro ⟨h1, h2⟩; exact ⟨b.2, h2, by cases b; simp_all⟩

theorem nodup_newBlocks (s n : Nat) : (newBlocks s n).Nodup := by
  unfold newBlocks
  rw [List.nodup_iff_pairwise_ne, List.pairwise_map]
  have := List.nodup_iff_pairwise_ne.mp (List.nodup_range (n := n))
  exact this.imp (fun h h' => h (by simpa using h'))

/-- every block of the data buffers `slabs`, the first one being number `s` -/
def blocksFrom (s : Nat) : List Nat → List BlockId
  | [] => []
  | n :: t => newBlocks s n ++ blocksFrom (s+1) t

/-- every block of every data buffer -/
def allBlocks (slabs : List Nat) : List BlockId := blocksFrom 0 slabs

theorem blocksFrom_append (s : Nat) (l : List Nat) (d : Nat) :
    blocksFrom s (l ++ [d]) = blocksFrom s l ++ newBlocks (s + l.length) d := by
  induction l generalizing s with
  | nil => simp [blocksFrom]
  | cons n t ih => simp [blocksFrom, ih, Nat.add_assoc, Nat.add_comm 1]

theorem length_blocksFrom (s : Nat) (l : List Nat) : (blocksFrom s l).length = l.sum := by
  induction l generalizing s with
  | nil => simp [blocksFrom]
  | cons n t ih => simp [blocksFrom, ih, length_newBlocks]

theorem mem_blocksFrom (s : Nat) (l : List Nat) (b : BlockId) :
    b ∈ blocksFrom s l ↔ s ≤ b.1 ∧ ∃ n, l[b.1 - s]? = some n ∧ b.2 < n := by
  induction l generalizing s with
  | nil => simp [blocksFrom]
  | cons n t ih =>
    simp only [blocksFrom, List.mem_append, mem_newBlocks, ih]
    constructor
    · rintro (⟨h1, h2⟩ | ⟨h1, m, h2, h3⟩)
      · exact ⟨by omega, n, by simp [h1], h2⟩
      · refine ⟨by omega, m, ?_, h3⟩
        have : b.1 - s = (b.1 - (s+1)) + 1 := by omega
        rw [this]; simpa using h2
    · rintro ⟨h1, m, h2, h3⟩
      by_cases hb : b.1 = s
      · left; simp [hb] at h2; exact ⟨hb, by omega⟩
      · right
        have : b.1 - s = (b.1 - (s+1)) + 1 := by omega
        rw [this] at h2
        exact ⟨by omega, m, by simpa using h2, h3⟩

theorem nodup_blocksFrom (s : Nat) (l : List Nat) : (blocksFrom s l).Nodup := by
  induction l generalizing s with
  | nil => simp [blocksFrom]
  | cons n t ih =>
    simp only [blocksFrom]
    rw [List.nodup_append]
    refine ⟨nodup_newBlocks s n, ih (s+1), ?_⟩
    intro a ha b hb hab
    rw [mem_newBlocks] at ha
    rw [mem_blocksFrom] at hb
    subst hab
    omega

theorem mem_allBlocks (slabs : List Nat) (b : BlockId) :
    b ∈ allBlocks slabs ↔ validB slabs b = true := by
  simp only [allBlocks, mem_blocksFrom, validB, Nat.zero_le, true_and, Nat.sub_zero]
  cases h : slabs[b.1]? <;> simp


end MgProof.C06
