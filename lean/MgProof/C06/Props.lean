import MgProof.C06.Reach
/-!
# C06 — property theorems (growable memory pool, `muggle/c/memory/memory_pool.c`)

Property text: *For every sequence of alloc, free and ensure-space calls on the growable
memory pool, the blocks currently allocated are pairwise disjoint, lie wholly inside
memory owned by the pool, and keep their address and contents across any number of
growths until freed, and the used/capacity counters equal a reference model's. A pool
flagged constant-size never grows and reports exhaustion instead, automatic growth never
exceeds the configured maximum step, and for every capacity and block size init either
fails or yields that many distinct usable blocks.*

Everything below is about the model `MgModel.C06` of the **repaired** source
(`E.fixEmpty = true`, `E.fixBytes = true`; patches in `/verif/fixes/C06-*.patch`), for an
arbitrary allocator behaviour `E.mal`, and unbounded: any capacity, block size, number
of operations. The last section proves, by concrete witnesses, that the source *as found*
violates the property (`*_fails`).

Quantifier. `Reachable E p r` = the pool state `p` and the reference state `r` (list of
live blocks, data-buffer sizes, configuration) are reached from a successful `init` by any
finite sequence of operations that respects the API contract (`Valid`: a block that is
freed is live; the 32-bit sum `capacity + delta_cap` of an automatic growth does not wrap,
i.e. capacity < 2^31).
-/
namespace MgProof.C06
open MgModel.C06

/-! ## The refinement: every history is accepted by the reference model -/

/-- Clause "for every capacity and block size init either fails or …": `init` fails exactly
    when the reference `init` fails (block size 0, size not representable, `malloc` refuses),
    otherwise the invariant holds with no live block. All `c`, `b`, all allocators. -/
theorem init_refines {E : Env} (hB : E.fixBytes = true) (c b : Nat) :
    match init E c b, Ref.init E.mal c b with
    | some p, some r => Inv p r ∧ r.live = []
    | none, none => True
    | _, _ => False :=
  init_ok hB c b

/-- Every reachable state satisfies the invariant `Inv` (ring/cursor consistency; available
    pointers ++ live blocks is a permutation of all blocks of all data buffers). All histories. -/
theorem reachable_inv {E : Env} (hE : E.fixEmpty = true) (hB : E.fixBytes = true)
    {p : Pool} {r : Ref} (h : Reachable E p r) : Inv p r := by
  induction h with
  | init c b p r hp hr =>
    have := init_ok (E := E) hB c b
    rw [hp, hr] at this
    exact this.1
  | step p r op p' res r' _ hv hs hr ih =>
    obtain ⟨p'', res'', r'', h1, h2, h3⟩ := step_ok hE hB ih op hv
    rw [hs] at h1
    cases h1
    rw [hr] at h2
    cases h2
    exact h3

/-- Progress: from every reachable state every valid operation runs without error (no access
    outside the pointer ring, no failed assertion, no counter underflow) and its result is
    accepted by the reference model — so `Reachable` really contains *all* valid histories. -/
theorem reachable_progress {E : Env} (hE : E.fixEmpty = true) (hB : E.fixBytes = true)
    {p : Pool} {r : Ref} (h : Reachable E p r) (op : Op) (hv : Valid r op) :
    ∃ p' res r', step E p op = .ok (p', res) ∧ Ref.step E.mal r op res = some r' ∧
      Reachable E p' r' := by
  obtain ⟨p', res, r', h1, h2, _⟩ := step_ok hE hB (reachable_inv hE hB h) op hv
  exact ⟨p', res, r', h1, h2, Reachable.step p r op p' res r' h hv h1 h2⟩

/-- The arithmetic hypothesis in `Valid r .alloc` is implied by `capacity < 2^31` (the
    automatic growth step never exceeds the capacity), i.e. by a pointer ring below 16 GiB. -/
theorem valid_alloc_of_small {r : Ref} (h : r.cap < 2147483648) : Valid r .alloc := by
  intro _
  have : r.growStep ≤ r.cap := by unfold Ref.growStep; split <;> omega
  show r.cap + r.growStep < 4294967296
  omega

/-! ## Clause: counters equal the reference model's -/

/-- `used` is the number of live blocks and `capacity` the total number of blocks of the
    data buffers obtained so far, in every reachable state. -/
theorem counters_eq_reference {E : Env} (hE : E.fixEmpty = true) (hB : E.fixBytes = true)
    {p : Pool} {r : Ref} (h : Reachable E p r) :
    p.used = r.used ∧ p.capacity = r.cap ∧ p.used ≤ p.capacity := by
  have hi := reachable_inv hE hB h
  exact ⟨(ref_used hi).symm, (ref_cap hi).symm, hi.used_le⟩

/-! ## Clause: live blocks are pairwise disjoint and wholly inside pool memory -/

/-- Live blocks are pairwise distinct, and each is block `i` of an existing data buffer `s`
    with `i` below that buffer's block count; its byte range `[i*bs, (i+1)*bs)` lies inside
    the `bytes` requested from `malloc` for that buffer. -/
theorem live_distinct_inside {E : Env} (hE : E.fixEmpty = true) (hB : E.fixBytes = true)
    {p : Pool} {r : Ref} (h : Reachable E p r) :
    r.live.Nodup ∧ ∀ b ∈ r.live, ∃ n bytes, p.slabs[b.1]? = some n ∧ b.2 < n ∧
      p.slabBytes[b.1]? = some bytes ∧ (b.2 + 1) * p.blockSize ≤ bytes := by
  have hi := reachable_inv hE hB h
  refine ⟨(nodup_parts hi).2.1, ?_⟩
  intro b hb
  have hmem : b ∈ allBlocks p.slabs := (hi.perm.mem_iff).mp (by simp [hb])
  rw [mem_allBlocks, validB] at hmem
  cases hs : p.slabs[b.1]? with
  | none => simp [hs] at hmem
  | some n =>
    simp only [hs, decide_eq_true_eq] at hmem
    refine ⟨n, p.blockSize * n, rfl, hmem, ?_, ?_⟩
    · rw [hi.bytes]; simp [hs]
    · rw [Nat.mul_comm]; exact Nat.mul_le_mul_left _ hmem

/-- Every block of every data buffer is, at any time, either live or available in the ring —
    never both, never neither (no block is lost or duplicated by any growth), and each at
    most once. -/
theorem every_block_accounted {E : Env} (hE : E.fixEmpty = true) (hB : E.fixBytes = true)
    {p : Pool} {r : Ref} (h : Reachable E p r) (b : BlockId) :
    (validB p.slabs b = true ↔ (b ∈ r.live ∨ b ∈ avail p)) ∧ ¬ (b ∈ r.live ∧ b ∈ avail p) ∧
    (avail p).Nodup ∧ (avail p).length = p.capacity - p.used := by
  have hi := reachable_inv hE hB h
  have hnd := nodup_parts hi
  refine ⟨?_, fun hh => hnd.2.2 b hh.2 hh.1, hnd.1, avail_length hi⟩
  rw [← mem_allBlocks, ← hi.perm.mem_iff, List.mem_append]
  exact Or.comm

/-- Address form. Let `base s` be the address `malloc` returned for data buffer `s`; assume
    what `malloc` guarantees: the buffers (with the sizes requested) do not overlap. Then the
    byte ranges `[addr b, addr b + blockSize)` of two different live blocks do not overlap. -/
theorem live_ranges_disjoint {E : Env} (hE : E.fixEmpty = true) (hB : E.fixBytes = true)
    {p : Pool} {r : Ref} (h : Reachable E p r) (base : Nat → Nat)
    (hmalloc : ∀ s s' n n', s ≠ s' → p.slabBytes[s]? = some n → p.slabBytes[s']? = some n' →
        base s + n ≤ base s' ∨ base s' + n' ≤ base s)
    (b b' : BlockId) (hb : b ∈ r.live) (hb' : b' ∈ r.live) (hne : b ≠ b') :
    (base b.1 + b.2 * p.blockSize) + p.blockSize ≤ base b'.1 + b'.2 * p.blockSize ∨
    (base b'.1 + b'.2 * p.blockSize) + p.blockSize ≤ base b.1 + b.2 * p.blockSize := by
  obtain ⟨_, hin⟩ := live_distinct_inside hE hB h
  obtain ⟨n, bytes, _, _, hsb, hle⟩ := hin b hb
  obtain ⟨n', bytes', _, _, hsb', hle'⟩ := hin b' hb'
  rw [Nat.add_mul, Nat.one_mul] at hle hle'
  by_cases hs : b.1 = b'.1
  · -- same data buffer: different indices
    have hi : b.2 ≠ b'.2 := fun h2 => hne (Prod.ext hs h2)
    rw [hs]
    rcases Nat.lt_or_gt_of_ne hi with hlt | hlt
    · left
      have := Nat.mul_le_mul_right p.blockSize (Nat.succ_le_of_lt hlt)
      rw [Nat.succ_mul] at this; omega
    · right
      have := Nat.mul_le_mul_right p.blockSize (Nat.succ_le_of_lt hlt)
      rw [Nat.succ_mul] at this; omega
  · rcases hmalloc b.1 b'.1 bytes bytes' hs hsb hsb' with hd | hd
    · left; omega
    · right; omega

/-- What `alloc` returns is never a live block, and is a block of the pool (this is the
    ownership monitor as a theorem): stated on the reference acceptor, which every reachable
    step satisfies by `reachable_progress`. -/
theorem alloc_returns_fresh {mal : Nat → Bool} {r r' : Ref} {b : BlockId}
    (h : Ref.step mal r .alloc (.blk (some b)) = some r') :
    b ∉ r.live ∧ validB r'.slabs b = true ∧ r'.live = r.live ++ [b] := by
  obtain ⟨r1, ok, he, hc⟩ := ref_alloc_cases h
  have hlive : r1.live = r.live := by
    split at he
    · rcases ref_ensure_cases mal r ((r.cap + r.growStep) % U32) with h1 | h1 | h1
      · rw [h1.2] at he; cases he; rfl
      · rw [h1.2.2] at he; cases he; rfl
      · rw [h1.2.2] at he; cases he; rfl
    · cases he; rfl
  rcases hc with ⟨_, hn, _⟩ | ⟨_, b', hb', _, hval, hnl, hr'⟩
  · cases hn
  · cases hb'
    subst hr'
    exact ⟨by rw [← hlive]; exact hnl, hval, by simp [hlive]⟩

/-! ## Clause: blocks keep their address across growth until freed -/

/-- No operation (of any source variant) removes, renumbers or resizes a data buffer: the
    lists of block counts and byte sizes only ever get longer at the end. With block
    identity = (buffer, index) this is address stability: an identity denotes the same
    offset of the same buffer for ever. (That the *base address* of a buffer does not change
    is a fact about `malloc`/the copied `memory_pool_data_bufs` array and is checked by the
    harness on every run.) -/
theorem buffers_only_grow {E : Env} {p p' : Pool} {op : Op} {res : Res}
    (h : step E p op = .ok (p', res)) :
    p.slabs <+: p'.slabs ∧ p.slabBytes <+: p'.slabBytes :=
  step_frame h

/-- The live list changes only by the operation's own effect: `alloc` appends the returned
    block, `free b` removes `b`, nothing else — in particular `ensure_space` and the growth
    inside `alloc` keep every live block live (it is not handed out again: `alloc_returns_fresh`). -/
theorem live_changes_only_by_alloc_free {mal : Nat → Bool} {r r' : Ref} {op : Op} {res : Res}
    (h : Ref.step mal r op res = some r') :
    r'.live = liveAfter r.live op res := by
  have hens : ∀ n, (Ref.ensure mal r n).1.live = r.live := by
    intro n; simp only [Ref.ensure]; split
    · rfl
    · split <;> rfl
  cases op with
  | alloc =>
    cases res with
    | blk ob =>
      cases ob with
      | some b => exact (alloc_returns_fresh h).2.2
      | none =>
        obtain ⟨r1, ok, he, hc⟩ := ref_alloc_cases h
        have hlive : r1.live = r.live := by
          split at he
          · rw [← hens ((r.cap + r.growStep) % U32), he]
          · cases he; rfl
        rcases hc with ⟨_, _, hr'⟩ | ⟨_, b', hb', _⟩
        · rw [hr']; exact hlive
        · cases hb'
    | bool _ => simp [Ref.step] at h
    | unit => simp [Ref.step] at h
  | free b =>
    cases res with
    | unit =>
      simp only [Ref.step] at h
      split at h
      · cases h; rfl
      · cases h
    | blk _ => simp [Ref.step] at h
    | bool _ => simp [Ref.step] at h
  | ensure n =>
    cases res with
    | bool ok =>
      simp only [Ref.step] at h
      split at h
      · cases h; exact hens n
      · cases h
    | blk _ => simp [Ref.step] at h
    | unit => simp [Ref.step] at h
  | setFlag f =>
    cases res with
    | unit => simp only [Ref.step] at h; cases h; rfl
    | blk _ => simp [Ref.step] at h
    | bool _ => simp [Ref.step] at h
  | setMaxDelta d =>
    cases res with
    | unit => simp only [Ref.step] at h; cases h; rfl
    | blk _ => simp [Ref.step] at h
    | bool _ => simp [Ref.step] at h

/-- Growth in one statement: after `ensure_space n` from a reachable state the invariant
    holds again **with the same live list**, old data buffers are untouched, `used` is
    unchanged, and on success the capacity is at least `n`. Any cursor layout, any fullness
    (including `used = 0` and `used = capacity`). -/
theorem growth_keeps_live {E : Env} (hE : E.fixEmpty = true) (hB : E.fixBytes = true)
    {p : Pool} {r : Ref} (h : Reachable E p r) (n : Nat) :
    ∃ p' ok r', ensureSpace E p n = .ok (p', ok) ∧ Inv p' r' ∧ r'.live = r.live ∧
      p.slabs <+: p'.slabs ∧ p.slabBytes <+: p'.slabBytes ∧ p'.used = p.used ∧
      (ok = true → n ≤ p'.capacity) ∧ (ok = false → p' = p) := by
  obtain ⟨p', h1, h2, h3, h4, h5⟩ := ensure_ok hE hB (reachable_inv hE hB h) n
  have hf := ensureSpace_frame h1
  refine ⟨p', _, _, h1, h2, ?_, hf.1, hf.2.1, h3, h4, h5⟩
  simp only [Ref.ensure]; split
  · rfl
  · split <;> rfl

/-! ## Clause: a constant-size pool never grows and reports exhaustion instead -/

/-- While `MUGGLE_MEMORY_POOL_CONSTANT_SIZE` is set, no operation changes the capacity, and
    `alloc` returns NULL exactly when the pool is full (`used = capacity`). Every reachable
    state, every valid operation. -/
theorem const_never_grows {E : Env} (hE : E.fixEmpty = true) (hB : E.fixBytes = true)
    {p : Pool} {r : Ref} (h : Reachable E p r) (hc : p.flag % 2 = 1)
    (op : Op) (hv : Valid r op) {p' : Pool} {res : Res} (hs : step E p op = .ok (p', res)) :
    p'.capacity = p.capacity ∧
      (op = .alloc → (res = .blk none ↔ p.used = p.capacity)) := by
  have hi := reachable_inv hE hB h
  obtain ⟨p'', res'', r', h1, h2, h3⟩ := step_ok hE hB hi op hv
  rw [hs] at h1; cases h1
  have hcap := ref_cap hi
  have husd := ref_used hi
  have hcap' := ref_cap h3
  have hrc : r.flag % 2 = 1 := by rw [hi.flag]; exact hc
  cases op with
  | alloc =>
    have hv' : r.used = r.cap → r.cap + r.growStep < U32 := hv
    have hpos : 0 < r.growStep := by rw [growStep_eq hi]; exact growStep_pos hi
    cases res with
    | blk ob =>
      obtain ⟨r1, ok, he, hcs⟩ := ref_alloc_cases h2
      by_cases hfull : r.used = r.cap
      · have hlt := hv' hfull
        have hnle : ¬ (r.cap + r.growStep ≤ r.cap) := by omega
        simp only [hfull, if_true, ref_ensure_const hrc, Nat.mod_eq_of_lt hlt, hnle, decide_false,
          Prod.mk.injEq] at he
        obtain ⟨hr1, hok⟩ := he
        subst hr1; subst hok
        rcases hcs with ⟨_, hres, hr'⟩ | ⟨hok, _⟩
        · subst hres; subst hr'
          exact ⟨by rw [← hcap', hcap], fun _ => ⟨fun _ => (by omega), fun _ => rfl⟩⟩
        · cases hok
      · simp only [hfull, if_false, Prod.mk.injEq] at he
        obtain ⟨hr1, hok⟩ := he
        subst hr1; subst hok
        rcases hcs with ⟨hok, _⟩ | ⟨_, b, hres, _, _, _, hr'⟩
        · cases hok
        · subst hres; subst hr'
          refine ⟨by rw [← hcap', ← hcap]; rfl, fun _ => ⟨fun hh => (by cases hh), fun hh => ?_⟩⟩
          exact absurd (by rw [husd, hcap]; exact hh) hfull
    | bool _ => simp [Ref.step] at h2
    | unit => simp [Ref.step] at h2
  | free b =>
    refine ⟨?_, fun hh => by cases hh⟩
    cases res with
    | unit =>
      simp only [Ref.step] at h2
      split at h2
      · cases h2; rw [← hcap', ← hcap]; rfl
      · cases h2
    | blk _ => simp [Ref.step] at h2
    | bool _ => simp [Ref.step] at h2
  | ensure n =>
    refine ⟨?_, fun hh => by cases hh⟩
    cases res with
    | bool ok =>
      simp only [Ref.step, ref_ensure_const hrc] at h2
      split at h2
      · cases h2; rw [← hcap', ← hcap]
      · cases h2
    | blk _ => simp [Ref.step] at h2
    | unit => simp [Ref.step] at h2
  | setFlag f =>
    refine ⟨?_, fun hh => by cases hh⟩
    cases hs; rfl
  | setMaxDelta d =>
    refine ⟨?_, fun hh => by cases hh⟩
    cases hs; rfl

/-! ## Clause: automatic growth never exceeds the configured maximum step -/

/-- An `alloc` from a reachable state either leaves the capacity alone or — only when the
    pool is full — adds exactly `growStep = min(capacity, max_delta_cap)` blocks
    (`capacity` when `max_delta_cap = 0`); so an automatic growth step is at most
    `max_delta_cap` whenever that is non-zero, and never more than the capacity. -/
theorem auto_growth_bounded {E : Env} (hE : E.fixEmpty = true) (hB : E.fixBytes = true)
    {p : Pool} {r : Ref} (h : Reachable E p r) (hv : Valid r .alloc)
    {p' : Pool} {res : Res} (hs : step E p .alloc = .ok (p', res)) :
    (p'.capacity = p.capacity ∨
      (p.used = p.capacity ∧ p'.capacity = p.capacity + growStep p)) ∧
    growStep p ≤ p.capacity ∧ (0 < p.maxDelta → growStep p ≤ p.maxDelta) := by
  have hi := reachable_inv hE hB h
  refine ⟨?_, ?_, ?_⟩
  · obtain ⟨p'', res'', r', h1, h2, h3⟩ := step_ok hE hB hi .alloc hv
    rw [hs] at h1; cases h1
    have hcap := ref_cap hi
    have husd := ref_used hi
    have hcap' := ref_cap h3
    have hgs := growStep_eq hi
    have hv' : r.used = r.cap → r.cap + r.growStep < U32 := hv
    cases res with
    | blk ob =>
      obtain ⟨r1, ok, he, hcs⟩ := ref_alloc_cases h2
      have hr' : r'.cap = r1.cap := by
        rcases hcs with ⟨_, _, hr'⟩ | ⟨_, b, _, _, _, _, hr'⟩ <;> (subst hr'; rfl)
      by_cases hfull : r.used = r.cap
      · have hlt := hv' hfull
        simp only [hfull, if_true, Nat.mod_eq_of_lt hlt] at he
        rcases ref_ensure_cases E.mal r (r.cap + r.growStep) with h1 | h1 | h1
        · rw [h1.2] at he; cases he
          left; rw [← hcap', hr', hcap]
        · rw [h1.2.2] at he; cases he
          right
          refine ⟨by rw [← husd, ← hcap]; exact hfull, ?_⟩
          rw [← hcap', hr', ref_cap_grown r _ h1.1, hcap, hgs]
        · rw [h1.2.2] at he; cases he
          left; rw [← hcap', hr', hcap]
      · simp only [hfull, if_false] at he
        cases he
        left; rw [← hcap', hr', hcap]
    | bool _ => simp [Ref.step] at h2
    | unit => simp [Ref.step] at h2
  · unfold growStep; split <;> omega
  · intro hm; unfold growStep; split <;> omega

/-! ## Clause: init either fails or yields that many distinct usable blocks -/

/-- From a state with at least `k` blocks not in use, `k` allocations succeed without any
    growth and return `k` pairwise different blocks of the pool, none of which was live. -/
theorem allocN_fresh {E : Env} (k : Nat) {p : Pool} {r : Ref} (h : Inv p r)
    (hroom : p.used + k ≤ p.capacity) :
    ∃ (q : Pool) (bs : List BlockId), allocN E k p = .ok (q, bs.map some) ∧ bs.length = k ∧ bs.Nodup ∧
      (∀ b ∈ bs, validB p.slabs b = true ∧ b ∉ r.live) ∧
      q.capacity = p.capacity ∧ q.slabs = p.slabs ∧ q.slabBytes = p.slabBytes ∧
      Inv q { r with live := r.live ++ bs } := by
  induction k generalizing p r with
  | zero => exact ⟨p, [], rfl, rfl, List.nodup_nil, by simp, rfl, rfl, rfl, by simpa using h⟩
  | succ k ih =>
    have hlt : p.used < p.capacity := by omega
    obtain ⟨b, htk, hval, hnl, hinv⟩ := take_ok h hlt
    have hne : ¬ p.used = p.capacity := by omega
    have hal : alloc E p = .ok (took p, some b) := by simp [alloc, hne, htk]
    obtain ⟨q, bs, h1, h2, h3, h4, h5, h6, h7, h8⟩ :=
      ih (p := took p) (r := { r with live := r.live ++ [b] }) hinv
        (by show p.used + 1 + k ≤ p.capacity; omega)
    refine ⟨q, b :: bs, ?_, by simp [h2], ?_, ?_, h5, h6, h7, ?_⟩
    · simp [allocN, hal, h1]
    · rw [List.nodup_cons]
      refine ⟨fun hb => ?_, h3⟩
      have := (h4 b hb).2
      simp at this
    · intro x hx
      rcases List.mem_cons.mp hx with rfl | hx
      · exact ⟨hval, hnl⟩
      · have := h4 x hx
        refine ⟨this.1, fun hl => this.2 ?_⟩
        simp [hl]
    · simpa [List.append_assoc] using h8

/-- `init c b` either fails or yields a pool from which `c` (8 when `c = 0`) allocations
    succeed without growth and return that many pairwise distinct blocks, each wholly inside
    the single data buffer of `b * c` bytes that was requested. Every `c`, `b`, allocator. -/
theorem init_yields_blocks {E : Env} (hB : E.fixBytes = true) (c b : Nat) (p : Pool)
    (hp : init E c b = some p) :
    let cap := if c = 0 then 8 else c
    p.capacity = cap ∧ p.used = 0 ∧ p.slabBytes = [b * cap] ∧ p.blockSize = b ∧
    ∃ (q : Pool) (bs : List BlockId), allocN E cap p = .ok (q, bs.map some) ∧ bs.length = cap ∧ bs.Nodup ∧
      (∀ x ∈ bs, x.1 = 0 ∧ (x.2 + 1) * b ≤ b * cap) ∧ q.capacity = cap ∧ q.used = cap := by
  intro cap
  have hi := init_ok (E := E) hB c b
  rw [hp] at hi
  cases hr : Ref.init E.mal c b with
  | none => rw [hr] at hi; exact hi.elim
  | some r =>
    rw [hr] at hi
    obtain ⟨hinv, hlive⟩ := hi
    -- the shape of the initial pool
    have hshape : p.capacity = cap ∧ p.used = 0 ∧ p.slabBytes = [b * cap] ∧ p.blockSize = b ∧
        p.slabs = [cap] := by
      have := init_some_eq hB hp
      rw [this]; exact ⟨rfl, rfl, rfl, rfl, rfl⟩
    obtain ⟨hc, hu, hsb, hbs, hsl⟩ := hshape
    obtain ⟨q, bs, h1, h2, h3, h4, h5, _, _, h8⟩ :=
      allocN_fresh (E := E) cap hinv (by rw [hu, hc]; omega)
    refine ⟨hc, hu, hsb, hbs, q, bs, h1, h2, h3, ?_, by rw [h5, hc], ?_⟩
    · intro x hx
      have hv := (h4 x hx).1
      rw [hsl, validB] at hv
      have hx0 : x.1 = 0 := by
        cases hx1 : x.1 with
        | zero => rfl
        | succ k => rw [hx1] at hv; simp at hv
      rw [hx0] at hv
      simp only [List.getElem?_cons_zero, decide_eq_true_eq] at hv
      refine ⟨hx0, ?_⟩
      rw [Nat.mul_comm]; exact Nat.mul_le_mul_left _ hv
    · have := h8.used_eq
      rw [this, hlive]; simp [h2]

/-! ## The source as found violates the property (negation witnesses)

The three statements below are about `Env.orig`, the model of `memory_pool.c` as found
(`variant orig` in the driver). The same histories are `corpus/C06/*.ops`; on the unpatched
tree the harness gives the same answers, plus the monitor flags `DUP` / `OOB`. -/

/-- As found, growing a pool with nothing in use breaks it: after
    `init(2,8); ensure_space(4); a = alloc(); free(a); alloc() x4` block `(1,0)` is returned
    by the 1st and by the 3rd of the last four allocs — it is handed out twice while live
    (and `(0,0)` is never handed out again). The repaired source returns four different blocks. -/
theorem ensure_space_empty_fails :
    let ops := [Op.ensure 4, .alloc, .free (1, 0), .alloc, .alloc, .alloc, .alloc]
    (∃ p q, init (Env.orig fun _ => true) 2 8 = some p ∧
      runOps (Env.orig fun _ => true) p ops =
        .ok (q, [.bool true, .blk (some (1, 0)), .unit, .blk (some (1, 1)), .blk (some (1, 0)),
                 .blk (some (0, 1)), .blk (some (1, 0))])) ∧
    (∃ p q, init (Env.fixed fun _ => true) 2 8 = some p ∧
      runOps (Env.fixed fun _ => true) p [Op.ensure 4, .alloc, .free (0, 0), .alloc, .alloc,
          .alloc, .alloc] =
        .ok (q, [.bool true, .blk (some (0, 0)), .unit, .blk (some (0, 1)), .blk (some (1, 0)),
                 .blk (some (1, 1)), .blk (some (0, 0))])) := by
  intro ops
  exact ⟨⟨_, _, rfl, rfl⟩, ⟨_, _, rfl, rfl⟩⟩

/-- As found, `init(2, 2^31)` "succeeds" with a data buffer of `(2 * 2^31) mod 2^32 = 0`
    bytes: neither of its two blocks lies inside it. The repaired source requests `2^32`
    bytes (and fails if `malloc` does). -/
theorem init_overflow_fails :
    (∃ p, init (Env.orig fun _ => true) 2 2147483648 = some p ∧ p.slabBytes = [0] ∧
      p.capacity = 2 ∧ ¬ ((0 + 1) * p.blockSize ≤ 0)) ∧
    (∃ p, init (Env.fixed fun _ => true) 2 2147483648 = some p ∧ p.slabBytes = [4294967296]) ∧
    init (Env.fixed fun n => decide (n ≤ 67108864)) 2 2147483648 = none := by
  refine ⟨⟨_, rfl, rfl, rfl, by decide⟩, ⟨_, rfl, rfl⟩, by decide⟩

/-- As found, `init(1, 2^20); ensure_space(4097)` reports success and a capacity of 4097
    with a new data buffer of `(4096 * 2^20) mod 2^32 = 0` bytes. -/
theorem ensure_overflow_fails :
    ∃ p q, init (Env.orig fun _ => true) 1 1048576 = some p ∧
      ensureSpace (Env.orig fun _ => true) p 4097 = .ok (q, true) ∧
      q.capacity = 4097 ∧ q.slabs = [1, 4096] ∧ q.slabBytes = [1048576, 0] := by
  refine ⟨_, _, rfl, rfl, rfl, rfl, rfl⟩

/-! ## Non-vacuity -/

/-- A concrete non-trivial reachable state: capacity 2; two allocations, a free, an explicit
    growth with one block live (cursors apart), two allocations up to full, an automatic
    growth — capacity 6 with 4 live blocks. The hypotheses of every theorem above are
    satisfiable and the history passes through full, partly used and wrapped ring layouts. -/
example : ∃ p r, Reachable (Env.fixed fun _ => true) p r ∧ p.capacity = 6 ∧ r.live.length = 4 := by
  have h0 : Reachable (Env.fixed fun _ => true) (initPool 2 8) (initRef 2 8) :=
    Reachable.init 2 8 _ _ (by decide) (by decide)
  have hr : runChecked (Env.fixed fun _ => true) (initPool 2 8) (initRef 2 8)
      [.alloc, .alloc, .free (0, 0), .ensure 3, .alloc, .alloc, .alloc] = some
        ({ ptrBuf := [(0, 1), (0, 0), (1, 0), (2, 0), (2, 1), (2, 2)], allocIdx := 4, freeIdx := 0,
           capacity := 6, used := 4, blockSize := 8, slabs := [2, 1, 3], slabBytes := [16, 8, 24],
           flag := 0, maxDelta := 524288 },
         { live := [(0, 1), (0, 0), (1, 0), (2, 0)], slabs := [2, 1, 3], blockSize := 8, flag := 0,
           maxDelta := 524288 }) := by decide
  exact ⟨_, _, runChecked_reachable h0 _ hr, rfl, rfl⟩

end MgProof.C06
