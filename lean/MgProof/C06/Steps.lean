import MgProof.C06.Lemmas
/-!
# C06 — the invariant and its preservation by every operation of the (repaired) pool

`Inv p r` ties the concrete pool `p` (ring, cursors, counters) to the reference state
`r` (list of live blocks, data-buffer sizes, configuration). Its heart is
`(avail p ++ r.live).Perm (allBlocks p.slabs)`: the pointers available in the ring
together with the live blocks are exactly all blocks of all data buffers, each once.
-/
set_option linter.unusedSimpArgs false
namespace MgProof.C06
open MgModel.C06

/-- the pointers available for allocation: `capacity - used` ring entries from `alloc_index` -/
def avail (p : Pool) : List BlockId := (rot p.ptrBuf p.allocIdx).take (p.capacity - p.used)

/-- position `m + k` on a ring of `c` slots (no `%`: the code only ever increments and resets) -/
def wrapAdd (m k c : Nat) : Nat := if m + k < c then m + k else m + k - c

/-- The invariant tying the pool to the reference state `r`. -/
structure Inv (p : Pool) (r : Ref) : Prop where
  len : p.ptrBuf.length = p.capacity
  used_le : p.used ≤ p.capacity
  ai : p.allocIdx < p.capacity
  fi : p.freeIdx = wrapAdd p.allocIdx (p.capacity - p.used) p.capacity
  perm : (avail p ++ r.live).Perm (allBlocks p.slabs)
  used_eq : p.used = r.live.length
  slabs : r.slabs = p.slabs
  bs : r.blockSize = p.blockSize
  bs_pos : 0 < p.blockSize
  flag : r.flag = p.flag
  md : r.maxDelta = p.maxDelta
  bytes : p.slabBytes = p.slabs.map (p.blockSize * ·)

/-- `fi` in a form `omega` can use -/
theorem fi_cases {p r} (h : Inv p r) :
    (p.allocIdx + (p.capacity - p.used) < p.capacity ∧
        p.freeIdx = p.allocIdx + (p.capacity - p.used)) ∨
    (¬ p.allocIdx + (p.capacity - p.used) < p.capacity ∧
        p.freeIdx = p.allocIdx + (p.capacity - p.used) - p.capacity) := by
  have := h.fi
  unfold wrapAdd at this
  split at this
  · left; exact ⟨‹_›, this⟩
  · right; exact ⟨‹_›, this⟩

theorem avail_length {p r} (h : Inv p r) : (avail p).length = p.capacity - p.used := by
  simp [avail, rot_length, h.len]

theorem cap_eq {p r} (h : Inv p r) : p.capacity = p.slabs.sum := by
  have h1 := h.perm.length_eq
  have h2 := avail_length h
  have h3 := h.used_le
  have h4 := h.used_eq
  simp only [List.length_append, allBlocks, length_blocksFrom] at h1
  omega

theorem nodup_parts {p r} (h : Inv p r) :
    (avail p).Nodup ∧ r.live.Nodup ∧ ∀ b, b ∈ avail p → b ∉ r.live := by
  have := (h.perm.nodup_iff).mpr (nodup_blocksFrom 0 p.slabs)
  rw [List.nodup_append] at this
  exact ⟨this.1, this.2.1, fun b hb hl => this.2.2 b hb b hl rfl⟩

theorem take_set_succ {α} (l : List α) (k : Nat) (b : α) (hk : k < l.length) :
    (l.set k b).take (k+1) = l.take k ++ [b] := by
  apply List.ext_getElem
  · simp; omega
  · intro i h1 h2
    simp only [List.getElem_take, List.getElem_set, List.getElem_append, List.length_take]
    grind

/-- the pool after `take` -/
def took (p : Pool) : Pool :=
  { p with used := p.used + 1,
           allocIdx := if p.allocIdx + 1 = p.capacity then 0 else p.allocIdx + 1 }

/-- the pool after `free b` -/
def freed (p : Pool) (b : BlockId) : Pool :=
  { p with ptrBuf := p.ptrBuf.set p.freeIdx b,
           freeIdx := if p.freeIdx + 1 = p.capacity then 0 else p.freeIdx + 1,
           used := p.used - 1 }

theorem take_take_step {p r} (h : Inv p r) (hlt : p.used < p.capacity) :
    ∃ b, p.ptrBuf[p.allocIdx]? = some b ∧
      avail p = b :: avail (took p) := by
  have hm : p.allocIdx < p.ptrBuf.length := by rw [h.len]; exact h.ai
  refine ⟨p.ptrBuf[p.allocIdx], by simp [hm], ?_⟩
  have hrot : rot p.ptrBuf (if p.allocIdx + 1 = p.capacity then 0 else p.allocIdx + 1)
      = rot p.ptrBuf (p.allocIdx + 1) := by
    split
    · next heq => rw [heq, ← h.len, rot_full, rot_zero]
    · rfl
  simp only [avail, took, hrot]
  rw [rot_head _ _ hm, rot_succ _ _ hm]
  have hk : p.capacity - p.used = (p.capacity - (p.used + 1)) + 1 := by omega
  rw [hk, List.take_succ_cons]
  congr 1
  have hsnoc : ∀ (X : List BlockId) (y : BlockId) (k : Nat), k ≤ X.length →
      (X ++ [y]).take k = X.take k := fun X y k hk => List.take_append_of_le_length hk
  rw [hsnoc]
  have := h.len
  simp only [List.length_append, List.length_drop, List.length_take]
  omega

theorem free_avail {p r} (h : Inv p r) (hpos : 0 < p.used) (b : BlockId) :
    p.freeIdx < p.ptrBuf.length ∧
    avail (freed p b) = avail p ++ [b] := by
  have hl := h.len
  have hu := h.used_le
  have hai := h.ai
  have hfi := h.fi
  refine ⟨by rw [hfi, wrapAdd]; split <;> omega, ?_⟩
  simp only [avail, freed]
  have hset := rot_set p.ptrBuf p.allocIdx (p.capacity - p.used) b (by omega) (by omega)
  rw [hl] at hset
  rw [hfi]; unfold wrapAdd
  rw [hset]
  have hk : p.capacity - (p.used - 1) = (p.capacity - p.used) + 1 := by omega
  rw [hk, take_set_succ]
  rw [rot_length]; omega


theorem usub_eq {a b : Nat} (h : b ≤ a) : usub a b = .ok (a - b) := by simp [usub, h]

theorem slice_eq {l : List BlockId} {s n : Nat} (h : s + n ≤ l.length) :
    slice l s n = .ok ((l.drop s).take n) := by simp [slice, h]

/-- the section computation of the repaired `ensure_space`: under the invariant it never
    leaves the ring, the copied alloc sections are exactly the available pointers (in ring
    order) and the copied free sections are the `used` stale slots. -/
theorem sections_spec {E : Env} {p r} (h : Inv p r) (hE : E.fixEmpty = true) :
    ∃ fr, sections E p = .ok (fr, avail p) ∧ fr.length = p.used := by
  have hl := h.len
  have hu := h.used_le
  have hai := h.ai
  have hfi := fi_cases h
  unfold sections
  by_cases h1 : p.used = p.capacity
  · -- full: nothing available
    have hf : p.freeIdx = p.allocIdx := by omega
    simp only [h1, if_true, hf, ne_eq, not_true_eq_false, if_false]
    simp (disch := omega) only [usub_eq, slice_eq, bind, Except.bind, pure, Except.pure]
    have hav : avail p = [] := by simp [avail, h1]
    rw [hav]
    exact ⟨_, rfl, by simp; omega⟩
  · simp only [h1, if_false]
    by_cases h2 : (decide (p.allocIdx > p.freeIdx) || (E.fixEmpty && decide (p.used = 0))) = true
    · simp only [h2, if_true]
      simp only [hE, Bool.true_and, Bool.or_eq_true, decide_eq_true_eq] at h2
      have hfm : p.freeIdx ≤ p.allocIdx := by omega
      have hused : p.used = p.allocIdx - p.freeIdx := by omega
      have hna : p.capacity - p.allocIdx > 0 := by omega
      simp (disch := omega) only [usub_eq, slice_eq, bind, Except.bind, pure, Except.pure, hna,
        if_true]
      have hav : avail p = List.take (p.capacity - p.allocIdx) (List.drop p.allocIdx p.ptrBuf) ++
          List.take p.freeIdx (List.drop 0 p.ptrBuf) := by
        simp only [avail, rot, List.drop_zero]
        apply List.ext_getElem
        · simp; omega
        · intro i hi1 hi2
          simp only [List.getElem_take, List.getElem_append, List.getElem_drop, List.length_take,
            List.length_drop]
          grind
      rw [hav]
      exact ⟨_, rfl, by simp; omega⟩
    · simp only [h2, Bool.false_eq_true, if_false]
      simp only [hE, Bool.true_and, Bool.or_eq_true, decide_eq_true_eq, not_or] at h2
      have hf : p.freeIdx = p.allocIdx + (p.capacity - p.used) := by omega
      simp (disch := omega) only [usub_eq, slice_eq, bind, Except.bind, pure, Except.pure]
      have hav : avail p = List.take (p.freeIdx - p.allocIdx) (List.drop p.allocIdx p.ptrBuf) := by
        simp only [avail, rot]
        have : p.freeIdx - p.allocIdx = p.capacity - p.used := by omega
        rw [this, List.take_append_of_le_length]
        simp; omega
      rw [hav]
      exact ⟨_, rfl, by simp; omega⟩


/-! ## Preservation, operation by operation -/

theorem ref_cap {p r} (h : Inv p r) : r.cap = p.capacity := by
  rw [Ref.cap, h.slabs, cap_eq h]

theorem ref_used {p r} (h : Inv p r) : r.used = p.used := by
  rw [Ref.used, h.used_eq]

/-- `take` (second half of alloc) with room: hands out the first available pointer -/
theorem take_ok {p r} (h : Inv p r) (hlt : p.used < p.capacity) :
    ∃ b, take p = .ok (took p, some b) ∧ validB p.slabs b = true ∧ b ∉ r.live ∧
      Inv (took p) { r with live := r.live ++ [b] } := by
  obtain ⟨b, hb, hav⟩ := take_take_step h hlt
  have hmem : b ∈ avail p := by rw [hav]; simp
  have hnd := nodup_parts h
  refine ⟨b, ?_, ?_, hnd.2.2 b hmem, ?_⟩
  · simp [take, hb, took]
  · rw [← mem_allBlocks]; exact (h.perm.mem_iff).mp (by simp [hmem])
  · have hai := h.ai
    have hfi := fi_cases h
    constructor
    · exact h.len
    · show p.used + 1 ≤ p.capacity; omega
    · show (if p.allocIdx + 1 = p.capacity then 0 else p.allocIdx + 1) < p.capacity
      split <;> omega
    · show p.freeIdx = wrapAdd (if p.allocIdx + 1 = p.capacity then 0 else p.allocIdx + 1)
        (p.capacity - (p.used + 1)) p.capacity
      unfold wrapAdd; split <;> split <;> omega
    · show (avail (took p) ++ (r.live ++ [b])).Perm (allBlocks p.slabs)
      refine List.Perm.trans ?_ h.perm
      rw [hav]
      have : (avail (took p) ++ (r.live ++ [b])) = (avail (took p) ++ r.live) ++ [b] := by simp
      rw [this]
      exact List.perm_append_singleton b _
    · show p.used + 1 = (r.live ++ [b]).length
      simp [h.used_eq]
    · exact h.slabs
    · exact h.bs
    · exact h.bs_pos
    · exact h.flag
    · exact h.md
    · exact h.bytes

/-- `free` of a live block: the pointer is appended to the available section -/
theorem free_ok {p r} (h : Inv p r) (b : BlockId) (hb : b ∈ r.live) :
    free p b = .ok (freed p b) ∧ Inv (freed p b) { r with live := r.live.erase b } := by
  have hpos : 0 < p.used := by
    rw [h.used_eq]; exact List.length_pos_of_mem hb
  obtain ⟨hf, hav⟩ := free_avail h hpos b
  have hai := h.ai
  have hu := h.used_le
  have hfi := fi_cases h
  refine ⟨?_, ?_⟩
  · have : ¬ p.used = 0 := by omega
    simp [free, this, hf, freed]
  · constructor
    · show (p.ptrBuf.set p.freeIdx b).length = p.capacity
      simp [h.len]
    · show p.used - 1 ≤ p.capacity; omega
    · exact hai
    · show (if p.freeIdx + 1 = p.capacity then 0 else p.freeIdx + 1)
        = wrapAdd p.allocIdx (p.capacity - (p.used - 1)) p.capacity
      unfold wrapAdd; split <;> split <;> omega
    · show (avail (freed p b) ++ r.live.erase b).Perm (allBlocks p.slabs)
      refine List.Perm.trans ?_ h.perm
      rw [hav, List.append_assoc]
      refine List.Perm.append_left _ ?_
      exact (List.perm_cons_erase hb).symm
    · show p.used - 1 = (r.live.erase b).length
      rw [List.length_erase_of_mem hb, h.used_eq]
    · exact h.slabs
    · exact h.bs
    · exact h.bs_pos
    · exact h.flag
    · exact h.md
    · exact h.bytes


/-- the pool after a successful growth to `n` blocks; `fr` = the copied stale slots -/
def grown (p : Pool) (fr : List BlockId) (n : Nat) : Pool :=
  { p with ptrBuf := fr ++ avail p ++ newBlocks p.slabs.length (n - p.capacity),
           freeIdx := 0, allocIdx := fr.length, capacity := n,
           slabs := p.slabs ++ [n - p.capacity],
           slabBytes := p.slabBytes ++ [p.blockSize * (n - p.capacity)] }

theorem grown_avail {p r} (h : Inv p r) (fr : List BlockId) (n : Nat)
    (hn : p.capacity < n) :
    avail (grown p fr n) = avail p ++ newBlocks p.slabs.length (n - p.capacity) := by
  have hal := avail_length h
  have hu := h.used_le
  show ((rot (fr ++ avail p ++ newBlocks p.slabs.length (n - p.capacity)) fr.length).take
      (n - p.used)) = _
  have : rot (fr ++ avail p ++ newBlocks p.slabs.length (n - p.capacity)) fr.length
      = (avail p ++ newBlocks p.slabs.length (n - p.capacity)) ++ fr := by
    simp [rot, List.append_assoc]
  rw [this, List.take_append_of_le_length (by simp [hal, length_newBlocks]; omega)]
  apply List.take_of_length_le
  simp [hal, length_newBlocks]; omega

/-- growth keeps every live block live and every available pointer available, and adds
    exactly the blocks of the new data buffer -/
theorem grown_inv {p r} (h : Inv p r) (fr : List BlockId) (hfr : fr.length = p.used) (n : Nat)
    (hn : p.capacity < n) :
    Inv (grown p fr n) { r with slabs := r.slabs ++ [n - r.cap] } := by
  have hal := avail_length h
  have hu := h.used_le
  have hav := grown_avail h fr n hn
  have hcap := ref_cap h
  constructor
  · show (fr ++ avail p ++ newBlocks p.slabs.length (n - p.capacity)).length = n
    simp [hal, length_newBlocks, hfr]; omega
  · show p.used ≤ n; omega
  · show fr.length < n; omega
  · show 0 = wrapAdd fr.length (n - p.used) n
    unfold wrapAdd; split <;> omega
  · show (avail (grown p fr n) ++ r.live).Perm (allBlocks (p.slabs ++ [n - p.capacity]))
    rw [hav, allBlocks, blocksFrom_append, Nat.zero_add, List.append_assoc]
    refine List.Perm.trans (List.Perm.append_left _ List.perm_append_comm) ?_
    rw [← List.append_assoc]
    exact List.Perm.append_right _ h.perm
  · exact h.used_eq
  · show r.slabs ++ [n - r.cap] = p.slabs ++ [n - p.capacity]
    rw [h.slabs, hcap]
  · exact h.bs
  · exact h.bs_pos
  · exact h.flag
  · exact h.md
  · show p.slabBytes ++ [p.blockSize * (n - p.capacity)]
        = (p.slabs ++ [n - p.capacity]).map (p.blockSize * ·)
    simp [h.bytes]


/-- `ensure_space` of the repaired source: never an error, agrees with the reference
    `ensure`, keeps the invariant (so: the live list is untouched, old data buffers keep
    their number and size). -/
theorem ensure_ok {E : Env} {p r} (hE1 : E.fixEmpty = true) (hE2 : E.fixBytes = true)
    (h : Inv p r) (n : Nat) :
    ∃ p', ensureSpace E p n = .ok (p', (Ref.ensure E.mal r n).2) ∧
      Inv p' (Ref.ensure E.mal r n).1 ∧ p'.used = p.used ∧
      ((Ref.ensure E.mal r n).2 = true → n ≤ p'.capacity) ∧
      ((Ref.ensure E.mal r n).2 = false → p' = p) := by
  have hcap := ref_cap h
  unfold ensureSpace Ref.ensure
  rw [hcap]
  by_cases h1 : n ≤ p.capacity
  · simp only [h1, if_true]
    exact ⟨p, rfl, h, rfl, fun _ => h1, fun hf => by simp at hf⟩
  · simp only [h1, if_false]
    have hn : p.capacity < n := by omega
    unfold Ref.canGrow
    rw [hcap, h.flag, h.bs, h.slabs]
    by_cases h2 : p.flag % 2 = 1
    · have : p.isConst = true := by simp [Pool.isConst, h2]
      simp only [this, if_true]
      have hc : (decide (p.flag % 2 ≠ 1) && decide (n - p.capacity ≤ SIZE_MAX / p.blockSize) &&
          E.mal (PTR * (p.slabs.length + 1)) && E.mal (p.blockSize * (n - p.capacity)) &&
          E.mal (PTR * n)) = false := by simp [h2]
      rw [hc]; simp only [Bool.false_eq_true, if_false]
      exact ⟨p, rfl, h, rfl, fun hf => by simp at hf, fun _ => rfl⟩
    · have : p.isConst = false := by simp [Pool.isConst, h2]
      simp only [this, Bool.false_eq_true, if_false, slabRequest, hE2, if_true]
      by_cases h3 : n - p.capacity > SIZE_MAX / p.blockSize
      · have h3' : ¬ (n - p.capacity ≤ SIZE_MAX / p.blockSize) := by omega
        simp only [h3, if_true, h3', decide_false, Bool.and_false, Bool.false_and,
          Bool.false_eq_true, if_false]
        exact ⟨p, rfl, h, rfl, fun hf => by simp at hf, fun _ => rfl⟩
      · have h3' : (n - p.capacity ≤ SIZE_MAX / p.blockSize) := by omega
        simp only [h3, if_false, h3', decide_true, Bool.and_true, h2, ne_eq, not_false_eq_true,
          Bool.true_and]
        cases hm1 : E.mal (PTR * (p.slabs.length + 1))
        · simp only [Bool.not_false, if_true, Bool.false_and, Bool.false_eq_true, if_false]
          exact ⟨p, rfl, h, rfl, fun hf => by simp at hf, fun _ => rfl⟩
        · cases hm2 : E.mal (p.blockSize * (n - p.capacity))
          · simp only [Bool.not_true, Bool.false_eq_true, if_false, Bool.not_false, if_true,
              Bool.true_and, Bool.false_and]
            exact ⟨p, rfl, h, rfl, fun hf => by simp at hf, fun _ => rfl⟩
          · cases hm3 : E.mal (PTR * n)
            · simp only [Bool.not_true, Bool.false_eq_true, if_false, Bool.not_false, if_true,
                Bool.true_and, Bool.and_false]
              exact ⟨p, rfl, h, rfl, fun hf => by simp at hf, fun _ => rfl⟩
            · simp only [Bool.not_true, Bool.false_eq_true, if_false, Bool.true_and, if_true]
              obtain ⟨fr, hsec, hfr⟩ := sections_spec (E := E) h hE1
              have hal := avail_length h
              have hu := h.used_le
              have hlen : ¬ (fr.length + (avail p).length ≠ p.capacity) := by
                rw [hal, hfr]; omega
              simp only [hsec, bind, Except.bind, hlen, if_false, pure, Except.pure]
              refine ⟨grown p fr n, rfl, ?_, rfl, fun _ => Nat.le_refl _, fun hf => by simp at hf⟩
              have := grown_inv h fr hfr n hn
              rw [hcap, h.slabs, h.bs, h.flag] at this
              exact this


theorem growStep_eq {p r} (h : Inv p r) : r.growStep = growStep p := by
  simp [Ref.growStep, growStep, ref_cap h, h.md]

theorem growStep_pos {p r} (h : Inv p r) : 0 < growStep p := by
  have := h.ai
  unfold growStep; split <;> omega

/-- what the reference accepts after a `take` -/
theorem ref_accepts_take {r1 : Ref} {b : BlockId} (h1 : r1.used < r1.cap)
    (h2 : validB r1.slabs b = true) (h3 : b ∉ r1.live) :
    (if r1.used < r1.cap && validB r1.slabs b && !r1.live.contains b then
        some { r1 with live := r1.live ++ [b] } else none)
      = some { r1 with live := r1.live ++ [b] } := by
  simp [h1, h2, h3]

/-- `alloc` of the repaired source refines the reference `alloc`. Hypothesis: the `uint32_t`
    sum `capacity + delta_cap` does not wrap (capacity below 2^31 suffices). -/
theorem alloc_ok {E : Env} {p r} (hE1 : E.fixEmpty = true) (hE2 : E.fixBytes = true)
    (h : Inv p r) (hv : r.used = r.cap → r.cap + r.growStep < U32) :
    ∃ p' res r', alloc E p = .ok (p', res) ∧ Ref.step E.mal r .alloc (.blk res) = some r' ∧
      Inv p' r' := by
  have hcap := ref_cap h
  have husd := ref_used h
  have hgs := growStep_eq h
  unfold alloc
  simp only [Ref.step, husd, hcap, hgs]
  by_cases hfull : p.used = p.capacity
  · simp only [hfull, if_true]
    have hlt : p.capacity + growStep p < U32 := by
      have := hv (by rw [husd, hcap]; exact hfull)
      rw [hcap, hgs] at this; exact this
    rw [Nat.mod_eq_of_lt hlt]
    obtain ⟨p1, heq, hinv1, hu1, hok, hfalse⟩ := ensure_ok hE1 hE2 h (p.capacity + growStep p)
    rw [heq]
    cases hb : (Ref.ensure E.mal r (p.capacity + growStep p)).2
    · -- growth refused: NULL, nothing changes
      have hpp := hfalse hb
      subst hpp
      refine ⟨p1, none, (Ref.ensure E.mal r (p1.capacity + growStep p1)).1, rfl, ?_, hinv1⟩
      rw [show Ref.ensure E.mal r (p1.capacity + growStep p1)
        = ((Ref.ensure E.mal r (p1.capacity + growStep p1)).1, false) from by rw [← hb]]
    · have hle := hok hb
      have hpos := growStep_pos h
      have hlt1 : p1.used < p1.capacity := by omega
      obtain ⟨b, htk, hval, hnl, hinv2⟩ := take_ok hinv1 hlt1
      refine ⟨took p1, some b, _, htk, ?_, hinv2⟩
      rw [show Ref.ensure E.mal r (p.capacity + growStep p)
        = ((Ref.ensure E.mal r (p.capacity + growStep p)).1, true) from by rw [← hb]]
      simp only
      apply ref_accepts_take
      · rw [ref_used hinv1, ref_cap hinv1]; exact hlt1
      · rw [hinv1.slabs]; exact hval
      · exact hnl
  · simp only [hfull, if_false]
    have hlt : p.used < p.capacity := by have := h.used_le; omega
    obtain ⟨b, htk, hval, hnl, hinv2⟩ := take_ok h hlt
    refine ⟨took p, some b, _, htk, ?_, hinv2⟩
    simp only
    apply ref_accepts_take
    · rw [husd, hcap]; exact hlt
    · rw [h.slabs]; exact hval
    · exact hnl


/-- which operations the theorems speak about: frees of live blocks only (the API contract),
    and no wrap-around of the `uint32_t` sum `capacity + delta_cap` at an automatic growth -/
def Valid (r : Ref) : Op → Prop
  | .free b => b ∈ r.live
  | .alloc => r.used = r.cap → r.cap + r.growStep < U32
  | _ => True

/-- every valid operation of the repaired source: no error, result accepted by the reference,
    invariant kept -/
theorem step_ok {E : Env} {p r} (hE1 : E.fixEmpty = true) (hE2 : E.fixBytes = true)
    (h : Inv p r) (op : Op) (hv : Valid r op) :
    ∃ p' res r', step E p op = .ok (p', res) ∧ Ref.step E.mal r op res = some r' ∧ Inv p' r' := by
  cases op with
  | alloc =>
    obtain ⟨p', res, r', h1, h2, h3⟩ := alloc_ok hE1 hE2 h hv
    exact ⟨p', .blk res, r', by simp [step, h1, Except.map], h2, h3⟩
  | free b =>
    have hb : b ∈ r.live := hv
    obtain ⟨h1, h2⟩ := free_ok h b hb
    refine ⟨freed p b, .unit, _, by simp [step, h1, Except.map], ?_, h2⟩
    simp [Ref.step, hb]
  | ensure n =>
    obtain ⟨p', h1, h2, _, _, _⟩ := ensure_ok hE1 hE2 h n
    refine ⟨p', .bool (Ref.ensure E.mal r n).2, (Ref.ensure E.mal r n).1,
      by simp [step, h1, Except.map], ?_, h2⟩
    simp [Ref.step]
  | setFlag f =>
    refine ⟨setFlag p f, .unit, { r with flag := f }, rfl, rfl, ?_⟩
    exact { h with flag := rfl }
  | setMaxDelta d =>
    refine ⟨setMaxDelta p d, .unit, { r with maxDelta := d }, rfl, rfl, ?_⟩
    exact { h with md := rfl }

/-- the pool right after a successful `init` -/
def initPool (cap b : Nat) : Pool :=
  { ptrBuf := newBlocks 0 cap, allocIdx := 0, freeIdx := 0, capacity := cap, used := 0,
    blockSize := b, slabs := [cap], slabBytes := [b * cap], flag := 0,
    maxDelta := if b > 8 * 1024 then cap else 512 * 1024 }

/-- the reference state right after a successful `init` -/
def initRef (cap b : Nat) : Ref :=
  { live := [], slabs := [cap], blockSize := b, flag := 0,
    maxDelta := if b > 8 * 1024 then cap else 512 * 1024 }

theorem initPool_inv (cap b : Nat) (hc : 0 < cap) (hb : 0 < b) :
    Inv (initPool cap b) (initRef cap b) := by
  have hav : avail (initPool cap b) = newBlocks 0 cap := by
    simp only [avail, initPool, rot_zero, Nat.sub_zero]
    apply List.take_of_length_le; simp [length_newBlocks]
  constructor
  · exact length_newBlocks 0 cap
  · exact Nat.zero_le _
  · exact hc
  · show 0 = wrapAdd 0 (cap - 0) cap
    unfold wrapAdd; split <;> omega
  · rw [hav]; simp [allBlocks, blocksFrom, initPool, initRef]
  · rfl
  · rfl
  · rfl
  · exact hb
  · rfl
  · rfl
  · simp [initPool]

/-- `init` of the repaired source fails exactly when the reference `init` fails, and
    otherwise establishes the invariant with no live block -/
theorem init_ok {E : Env} (hE2 : E.fixBytes = true) (c b : Nat) :
    match init E c b, Ref.init E.mal c b with
    | some p, some r => Inv p r ∧ r.live = []
    | none, none => True
    | _, _ => False := by
  unfold init Ref.init
  simp only [slabRequest, hE2, if_true]
  by_cases hb : b = 0
  · simp [hb]
  · simp only [hb, if_false, false_or]
    by_cases hov : (if c = 0 then 8 else c) > SIZE_MAX / b
    · simp [hov]
    · simp only [hov, if_false, false_or]
      cases h1 : E.mal PTR <;> simp only [Bool.not_false, Bool.not_true, if_true,
        Bool.false_eq_true, if_false, true_or]
      cases h2 : E.mal (PTR * (if c = 0 then 8 else c)) <;> simp only [Bool.not_false,
        Bool.not_true, if_true, Bool.false_eq_true, if_false, true_or, false_or]
      cases h3 : E.mal (b * (if c = 0 then 8 else c)) <;> simp only [Bool.not_false,
        Bool.not_true, if_true, Bool.false_eq_true, if_false, true_or, false_or]
      have hc : 0 < (if c = 0 then 8 else c) := by split <;> omega
      exact ⟨initPool_inv _ b hc (Nat.pos_of_ne_zero hb), trivial⟩


/-! ## Frame facts that hold for every variant of the source (no invariant needed) -/

/-- `ensure_space` never removes, renumbers or resizes a data buffer, and touches neither
    `used` nor the configuration -/
theorem ensureSpace_frame {E : Env} {p p' : Pool} {n : Nat} {ok : Bool}
    (h : ensureSpace E p n = .ok (p', ok)) :
    p.slabs <+: p'.slabs ∧ p.slabBytes <+: p'.slabBytes ∧ p'.used = p.used ∧
      p'.flag = p.flag ∧ p'.maxDelta = p.maxDelta ∧ p'.blockSize = p.blockSize := by
  unfold ensureSpace at h
  by_cases h1 : n ≤ p.capacity
  · simp only [h1, if_true] at h; cases h; simp
  simp only [h1, if_false] at h
  by_cases h2 : p.isConst = true
  · simp only [h2, if_true] at h; cases h; simp
  simp only [h2, Bool.false_eq_true, if_false] at h
  cases hreq : slabRequest E p.blockSize (n - p.capacity) with
  | none => simp only [hreq] at h; cases h; simp
  | some bytes =>
  simp only [hreq] at h
  by_cases h3 : (!E.mal (PTR * (p.slabs.length + 1))) = true
  · simp only [h3, if_true] at h; cases h; simp
  simp only [h3, Bool.false_eq_true, if_false] at h
  by_cases h4 : (!E.mal bytes) = true
  · simp only [h4, if_true] at h; cases h; simp
  simp only [h4, Bool.false_eq_true, if_false] at h
  by_cases h5 : (!E.mal (PTR * n)) = true
  · simp only [h5, if_true] at h; cases h; simp
  simp only [h5, Bool.false_eq_true, if_false] at h
  cases hs : sections E p with
  | error e => simp [hs, bind, Except.bind] at h
  | ok v =>
    obtain ⟨fr, al⟩ := v
    simp only [hs, bind, Except.bind] at h
    split at h
    · cases h
    · simp only [pure, Except.pure, Except.ok.injEq, Prod.mk.injEq] at h
      obtain ⟨h, _⟩ := h
      subst h
      simp

/-- `alloc` never removes, renumbers or resizes a data buffer -/
theorem alloc_frame {E : Env} {p p' : Pool} {res : Option BlockId}
    (h : alloc E p = .ok (p', res)) :
    p.slabs <+: p'.slabs ∧ p.slabBytes <+: p'.slabBytes := by
  have htake : ∀ q q' : Pool, ∀ res, take q = .ok (q', res) →
      q'.slabs = q.slabs ∧ q'.slabBytes = q.slabBytes := by
    intro q q' res hq
    unfold take at hq
    split at hq
    · cases hq
    · cases hq; simp
  unfold alloc at h
  split at h
  · split at h
    · cases h
    · next q hq =>
      have := ensureSpace_frame hq
      obtain ⟨h1, h2⟩ := htake _ _ _ h
      rw [h1, h2]; exact ⟨this.1, this.2.1⟩
    · next q hq =>
      have := ensureSpace_frame hq
      cases h; exact ⟨this.1, this.2.1⟩
  · obtain ⟨h1, h2⟩ := htake _ _ _ h
    rw [h1, h2]; exact ⟨List.prefix_refl _, List.prefix_refl _⟩

/-- no operation ever removes, renumbers or resizes a data buffer -/
theorem step_frame {E : Env} {p p' : Pool} {op : Op} {res : Res}
    (h : step E p op = .ok (p', res)) :
    p.slabs <+: p'.slabs ∧ p.slabBytes <+: p'.slabBytes := by
  cases op with
  | alloc =>
    simp only [step, Except.map] at h
    split at h
    · cases h
    · next v hv => cases h; exact alloc_frame hv
  | free b =>
    simp only [step, Except.map] at h
    split at h
    · cases h
    · next v hv =>
      cases h
      unfold free at hv
      split at hv
      · cases hv
      · split at hv
        · cases hv; exact ⟨List.prefix_refl _, List.prefix_refl _⟩
        · cases hv
  | ensure n =>
    simp only [step, Except.map] at h
    split at h
    · cases h
    · next v hv =>
      cases h
      have := ensureSpace_frame hv
      exact ⟨this.1, this.2.1⟩
  | setFlag f => cases h; exact ⟨List.prefix_refl _, List.prefix_refl _⟩
  | setMaxDelta d => cases h; exact ⟨List.prefix_refl _, List.prefix_refl _⟩

/-! ## Facts about the reference model alone -/

theorem ref_ensure_cases (mal : Nat → Bool) (r : Ref) (n : Nat) :
    (n ≤ r.cap ∧ Ref.ensure mal r n = (r, true)) ∨
    (r.cap < n ∧ r.canGrow mal n = true ∧
      Ref.ensure mal r n = ({ r with slabs := r.slabs ++ [n - r.cap] }, true)) ∨
    (r.cap < n ∧ r.canGrow mal n = false ∧ Ref.ensure mal r n = (r, false)) := by
  simp only [Ref.ensure]
  by_cases h1 : n ≤ r.cap
  · left; simp [h1]
  · right
    cases h2 : r.canGrow mal n
    · right; simp [h1]; omega
    · left; simp [h1]; omega

theorem ref_cap_grown (r : Ref) (n : Nat) (h : r.cap < n) :
    Ref.cap { r with slabs := r.slabs ++ [n - r.cap] } = n := by
  simp only [Ref.cap, List.sum_append, List.sum_cons, List.sum_nil]
  simp only [Ref.cap] at h; omega

/-- the reference `alloc` step, case by case -/
theorem ref_alloc_cases {mal : Nat → Bool} {r r' : Ref} {res : Option BlockId}
    (h : Ref.step mal r .alloc (.blk res) = some r') :
    ∃ r1 ok, (if r.used = r.cap then r.ensure mal ((r.cap + r.growStep) % U32) else (r, true))
        = (r1, ok) ∧
      ((ok = false ∧ res = none ∧ r' = r1) ∨
       (ok = true ∧ ∃ b, res = some b ∧ r1.used < r1.cap ∧ validB r1.slabs b = true ∧
          b ∉ r1.live ∧ r' = { r1 with live := r1.live ++ [b] })) := by
  simp only [Ref.step] at h
  generalize (if r.used = r.cap then Ref.ensure mal r ((r.cap + r.growStep) % U32) else (r, true))
    = e at h
  obtain ⟨r1, ok⟩ := e
  refine ⟨r1, ok, rfl, ?_⟩
  cases ok <;> cases res <;> simp only at h
  · left; cases h; exact ⟨rfl, rfl, rfl⟩
  · cases h
  · cases h
  · next b =>
    right
    split at h
    · next hc =>
      cases h
      simp only [Bool.and_eq_true, Bool.not_eq_true', decide_eq_true_eq] at hc
      exact ⟨rfl, b, rfl, hc.1.1, hc.1.2, by simpa using hc.2, rfl⟩
    · cases h

end MgProof.C06
