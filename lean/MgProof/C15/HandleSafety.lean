import MgProof.C15.HandleLoop
/-!
# C15 — legal histories of the socket-handle model: every act is safe and keeps the invariant
-/
namespace MgProof.C15
open MgModel.C15 MgModel.Conc

/-- What makes an act a legal move of the environment (peers, worker threads, the back-end
that drives the loop). Peers may do anything at any time. A thread may shut down or retain a
context only while it may touch it at all: it holds a reference, or it runs inside a callback
of the loop for that registered context, or it created the context and the loop has not yet
taken it over from the hand-over queue. A worker releases only a reference it holds. The
loop's own acts happen only while the loop runs; a context gets a turn only while it is
registered and the loop is not already inside `cb_close` for it; `closeEnd c` is the return of
that callback; the loop does not leave `run` from inside a callback. Acts of other threads
(`retain`, `workerRelease`, `shutdown`, peers) are legal at *any* point, in particular between
`closeBegin c` and `closeEnd c`, i.e. while the loop is inside the user's `cb_close`. -/
def Legal (s : St) : Act → Prop
  | .connect _ => True
  | .send _ _ => True
  | .peerClose _ => True
  | .shutdown c => 0 < (s.ctx c).held ∨ c ∈ s.reg ∨ c ∈ s.queue
  | .retain c => 0 < (s.ctx c).held ∨ c ∈ s.reg ∨ c ∈ s.queue
  | .workerRelease c => 0 < (s.ctx c).held
  | .handOver => s.exited = false
  | .wake => s.exited = false
  | .dispatch c _ => s.exited = false ∧ c ∈ s.reg ∧ (s.ctx c).closing = false
  | .turnRead c _ => s.exited = false ∧ c ∈ s.reg ∧ (s.ctx c).closing = false
  | .closeBegin c => s.exited = false ∧ c ∈ s.reg ∧ (s.ctx c).closing = false
  | .closeEnd c => s.exited = false ∧ (s.ctx c).closing = true
  | .exit => s.exited = false ∧ ∀ c ∈ s.reg, (s.ctx c).closing = false

theorem live_of_may_touch {s : St} (hi : Inv s) {c : Nat}
    (h : 0 < (s.ctx c).held ∨ c ∈ s.reg ∨ c ∈ s.queue) : (s.ctx c).mem = .live := by
  rcases h with h | h | h
  · exact live_of_held hi h
  · exact live_of_reg hi h
  · exact live_of_queue hi h

/-- **Safety of one act**: from a state satisfying the ownership invariant every legal act
runs without touching freed or unallocated memory and re-establishes the invariant. -/
theorem apply_inv {s : St} (hi : Inv s) (a : Act) (hl : Legal s a) :
    ∃ s', apply s a = .ok s' ∧ Inv s' := by
  cases a with
  | connect ok => exact ⟨_, rfl, connect_inv hi ok⟩
  | send c b => exact ⟨_, rfl, send_inv hi c b⟩
  | peerClose c => exact ⟨_, rfl, peerClose_inv hi c⟩
  | shutdown c =>
    obtain ⟨s', h, hi', _⟩ := userShutdown_inv hi (live_of_may_touch hi hl)
    exact ⟨s', h, hi'⟩
  | retain c =>
    obtain ⟨s', h, hi', _⟩ := retain_inv hi (live_of_may_touch hi hl)
    exact ⟨s', h, hi'⟩
  | workerRelease c =>
    obtain ⟨s', h, hi', _⟩ := workerRelease_inv hi hl
    exact ⟨s', h, hi'⟩
  | handOver => exact ⟨_, rfl, handOver_inv hi hl⟩
  | wake =>
    obtain ⟨s', h, hi', _⟩ := onWake_inv s.queue.length hi hl (Nat.le_refl _)
    exact ⟨s', h, hi'⟩
  | dispatch c k =>
    obtain ⟨s', h, hi', _⟩ := dispatchCtx_inv hi hl.1 hl.2.1 hl.2.2 k
    exact ⟨s', h, hi'⟩
  | turnRead c k =>
    obtain ⟨s', h, hi', _⟩ := turnRead_inv hi hl.1 hl.2.1 k
    exact ⟨s', h, hi'⟩
  | closeBegin c =>
    obtain ⟨s', h, hi', _⟩ := closeBegin_inv hi hl.2.1 hl.2.2
    exact ⟨s', h, hi'⟩
  | closeEnd c =>
    obtain ⟨s', h, hi', _⟩ := closeEnd_inv hi hl.1 hl.2
    exact ⟨s', h, hi'⟩
  | exit =>
    obtain ⟨s', h, hi', _⟩ := runExit_inv hi hl.1 hl.2
    exact ⟨s', h, hi'⟩

/-- a history all of whose acts are legal at the point where they happen -/
def LegalRun : St → List Act → Prop
  | _, [] => True
  | s, a :: as => Legal s a ∧ ∀ s', apply s a = .ok s' → LegalRun s' as

theorem run_inv : ∀ (as : List Act) {s : St}, Inv s → LegalRun s as → ∃ s', run s as = .ok s' ∧ Inv s' := by
  intro as
  induction as with
  | nil => intro s hi _; exact ⟨s, rfl, hi⟩
  | cons a as ih =>
    intro s hi hl
    obtain ⟨s1, h1, hi1⟩ := apply_inv hi a hl.1
    obtain ⟨s2, h2, hi2⟩ := ih hi1 (hl.2 s1 h1)
    exact ⟨s2, by simp [run, h1, bind, Except.bind, h2], hi2⟩

theorem init_inv (cap : Option Nat) : Inv (init cap true) := by
  constructor
  · intro c
    by_cases h : c = 0
    · subst h
      simp only [init, upd_same]
      constructor <;> simp [b2n]
    · simp only [init, upd, h, if_false]
      exact good_congr (r := false) (q := false) (by constructor <;> simp) (by simp [h]) (by simp)
  · simp [init]
  · simp [init]
  · simp [init]
  · simp [init]
  · simp [init]
  · intro c hc
    have : c ≠ 0 := by simp [init] at hc; omega
    simp [init, upd, this]
  · simp [init]
  · rfl

/-! ## the byte path through one turn -/

theorem relRec_bytes (x : Ctx) : (relRec x).inq = x.inq ∧ (relRec x).got = x.got ∧ (relRec x).sent = x.sent := by
  unfold relRec
  split
  · exact ⟨rfl, rfl, rfl⟩
  · split <;> exact ⟨rfl, rfl, rfl⟩

theorem dispatchTail_bytes {s s' : St} (hi : Inv s) {c : Nat} (hc : c ∈ s.reg) (h : dispatchTail s c = .ok s') :
    (s'.ctx c).inq = (s.ctx c).inq ∧ (s'.ctx c).got = (s.ctx c).got ∧ (s'.ctx c).sent = (s.ctx c).sent := by
  have hl := live_of_reg hi hc
  unfold dispatchTail at h
  simp only [live_ok hl, bind, Except.bind] at h
  by_cases hf : (s.ctx c).flagClosed
  · rw [if_pos hf] at h
    simp only [onClose_spec s c hl, pure, Except.pure] at h
    injection h with h
    subst h
    show ((s.set c _).ctx c).inq = _ ∧ ((s.set c _).ctx c).got = _ ∧ ((s.set c _).ctx c).sent = _
    rw [set_ctx]
    exact relRec_bytes _
  · rw [if_neg hf] at h
    injection h with h
    subst h
    exact ⟨rfl, rfl, rfl⟩


end MgProof.C15
