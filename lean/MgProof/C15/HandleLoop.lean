import MgProof.C15.HandleSteps
/-!
# C15 — the acts of the event loop preserve the ownership invariant and cannot fail
(accept loop, dispatch of one context, wake-up, exit)
-/
namespace MgProof.C15
open MgModel.C15 MgModel.Conc

@[simp] theorem full_set (s : St) (c : Nat) (y : Ctx) : full (s.set c y) = full s := rfl

/-- `acceptOne` for a connection whose `cb_alloc` succeeds, after `accept()` took it from the backlog -/
def acceptBody (s0 : St) (c : Nat) : Except Err (St × Bool) := do
  let x := s0.ctx c
  let s := s0.set c { x with mem := .live, ref := 1, flagClosed := false }
  let (s, ok) ← evloopAddCtx s c
  if !ok then
    let s ← cbFree s c
    let y := s.ctx c
    return (closeFd (s.set c { y with regFailed := true }) c, false)
  else
    let s ← cbConn s c
    return (s, true)

theorem acceptOne_eq (s : St) : acceptOne s =
    match s.backlog with
    | [] => .ok (s, false)
    | (c, allocOk) :: rest =>
      if !allocOk then .ok (closeFd { s with backlog := rest } c, false)
      else acceptBody { s with backlog := rest } c := by
  unfold acceptOne acceptBody
  cases s.backlog with
  | nil => rfl
  | cons p rest => obtain ⟨c, ok⟩ := p; cases ok <;> rfl

theorem acceptBody_spec (s0 : St) (c : Nat) (hfd : (s0.ctx c).fdOpen = true) :
    acceptBody s0 c =
      if full s0 then
        .ok (s0.set c { s0.ctx c with mem := .freed, ref := 1, flagClosed := false, nFree := (s0.ctx c).nFree + 1,
                                      regFailed := true, fdOpen := false, nFdc := (s0.ctx c).nFdc + 1 }, false)
      else
        .ok (({ s0 with reg := s0.reg ++ [c] } : St).set c
              { s0.ctx c with mem := .live, ref := 1, flagClosed := false, nConn := (s0.ctx c).nConn + 1, oConn := 1 }, true) := by
  unfold acceptBody
  have hl : ((s0.set c { s0.ctx c with mem := .live, ref := 1, flagClosed := false }).ctx c).mem = .live := by simp
  have hfd' : ((s0.set c { s0.ctx c with mem := .live, ref := 1, flagClosed := false }).ctx c).fdOpen = true := by
    simp [hfd]
  simp only []
  rw [evloopAddCtx_spec _ c hl hfd']
  by_cases hf : full s0
  · simp [hf, bind, Except.bind, pure, Except.pure, cbFree, St.live, closeFd, hfd]
  · simp [hf, bind, Except.bind, pure, Except.pure, cbConn, St.live]
    simp [St.set]

theorem closeFd_spec (s0 : St) (c : Nat) (hfd : (s0.ctx c).fdOpen = true) :
    closeFd s0 c = s0.set c { s0.ctx c with fdOpen := false, nFdc := (s0.ctx c).nFdc + 1 } := by
  simp [closeFd, hfd]

theorem good_allocfail {x : Ctx} (h : Good x false false) (hm : x.mem = .none) (hfd : x.fdOpen = true)
    (ho : x.origin = .accepted) : Good { x with fdOpen := false, nFdc := x.nFdc + 1 } false false := by
  obtain ⟨h1, h2, h3, h4, h5, h5a, h5b, h6, h7, h8, h9, h10, h11⟩ := h
  have := h1 hm
  constructor <;> (simp only [b2n] at *) <;> grind

theorem good_regfail {x : Ctx} (h : Good x false false) (hm : x.mem = .none) (hfd : x.fdOpen = true)
    (ho : x.origin = .accepted) :
    Good { x with mem := .freed, ref := 1, flagClosed := false, nFree := x.nFree + 1,
                  regFailed := true, fdOpen := false, nFdc := x.nFdc + 1 } false false := by
  obtain ⟨h1, h2, h3, h4, h5, h5a, h5b, h6, h7, h8, h9, h10, h11⟩ := h
  have := h1 hm
  constructor <;> (simp only [b2n] at *) <;> grind

theorem good_accept {x : Ctx} (h : Good x false false) (hm : x.mem = .none) (hfd : x.fdOpen = true)
    (ho : x.origin = .accepted) :
    Good { x with mem := .live, ref := 1, flagClosed := false, nConn := x.nConn + 1, oConn := 1 } true false := by
  obtain ⟨h1, h2, h3, h4, h5, h5a, h5b, h6, h7, h8, h9, h10, h11⟩ := h
  have := h1 hm
  constructor <;> (simp only [b2n] at *) <;> grind

theorem acceptOne_inv {s : St} (hi : Inv s) (hex : s.exited = false) :
    ∃ s' b, acceptOne s = .ok (s', b) ∧ Inv s' ∧ s'.exited = s.exited ∧ (∀ c, c ∈ s.reg → c ∈ s'.reg) ∧
      s'.backlog = s.backlog.tail ∧ (∀ c, (s.ctx c).mem = .live → s'.ctx c = s.ctx c) := by
  rw [acceptOne_eq]
  cases hb : s.backlog with
  | nil => exact ⟨s, false, rfl, hi, rfl, fun _ h => h, by simp [hb], fun _ _ => rfl⟩
  | cons p rest =>
    obtain ⟨c, ok⟩ := p
    have hp : (c, ok) ∈ s.backlog := by simp [hb]
    obtain ⟨hm, hfd, hfdc, ho, _, hcn⟩ := hi.backlog _ hp
    have g := hi.good c
    have hn := g.none_ hm
    have hcr : c ∉ s.reg := by have := hn.2.2.1; simpa using this
    have hcq : c ∉ s.queue := by have := hn.2.2.2.1; simpa using this
    have g' : Good (s.ctx c) false false := good_congr g (by simp [hcr]) (by simp [hcq])
    have hnd : ((c, ok) :: rest).map Prod.fst |>.Nodup := hb ▸ hi.backlogNd
    simp only [List.map_cons, List.nodup_cons] at hnd
    have hB : ∀ p ∈ rest, p ∈ s.backlog ∧ p.1 ≠ c := by
      intro p hp'
      refine ⟨by simp [hb, hp'], ?_⟩
      intro e
      exact hnd.1 (by rw [← e]; exact List.mem_map_of_mem hp')
    have hex' : s.exited = true → False := by intro h; rw [hex] at h; cases h
    have hframe : ∀ (R : List Nat) (y : Ctx) (c' : Nat), (s.ctx c').mem = .live →
        (({ s with backlog := rest, reg := R } : St).set c y).ctx c' = s.ctx c' := by
      intro R y c' hl'
      have hne : c' ≠ c := by intro e; subst e; rw [hm] at hl'; cases hl'
      exact set_ctx_ne _ _ _ _ hne
    cases ok with
    | false =>
      simp only [Bool.not_false, if_true]
      rw [closeFd_spec { s with backlog := rest } c hfd]
      refine ⟨_, false, rfl, ?_, rfl, fun _ h => h, rfl, hframe s.reg _⟩
      exact inv_update' hi c _ s.reg s.queue rest hcn hB hnd.2 (fun _ _ => Iff.rfl) (fun _ _ => Iff.rfl)
        hi.regNd hi.queueNd (hi.disj c)
        (good_congr (good_allocfail g' hm hfd ho) (by simp [hcr]) (by simp [hcq])) hi.exited
    | true =>
      simp only [Bool.not_true, Bool.false_eq_true, if_false]
      rw [acceptBody_spec { s with backlog := rest } c hfd]
      by_cases hf : full { s with backlog := rest }
      · rw [if_pos hf]
        refine ⟨_, false, rfl, ?_, rfl, fun _ h => h, rfl, hframe s.reg _⟩
        exact inv_update' hi c _ s.reg s.queue rest hcn hB hnd.2 (fun _ _ => Iff.rfl) (fun _ _ => Iff.rfl)
          hi.regNd hi.queueNd (hi.disj c)
          (good_congr (good_regfail g' hm hfd ho) (by simp [hcr]) (by simp [hcq])) hi.exited
      · rw [if_neg hf]
        have hRn : (s.reg ++ [c]).Nodup := by
          rw [List.nodup_append]
          refine ⟨hi.regNd, by simp, ?_⟩
          intro a ha b hb'
          simp at hb'; subst hb'
          intro e; subst e; exact hcr ha
        refine ⟨_, true, rfl, ?_, rfl, fun _ h => by simp [h], rfl, hframe (s.reg ++ [c]) _⟩
        exact inv_update' hi c _ (s.reg ++ [c]) s.queue rest hcn hB hnd.2 (fun c' h => by simp [h])
          (fun _ _ => Iff.rfl) hRn hi.queueNd (fun _ => hcq)
          (good_congr (good_accept g' hm hfd ho) (by simp) (by simp [hcq])) (fun h => (hex' h).elim)

theorem acceptLoop_inv : ∀ (fuel : Nat) {s : St}, Inv s → s.exited = false →
    ∃ s', acceptLoop fuel s = .ok s' ∧ Inv s' ∧ s'.exited = s.exited ∧ (∀ c, c ∈ s.reg → c ∈ s'.reg) ∧
      (∀ c, (s.ctx c).mem = .live → s'.ctx c = s.ctx c) := by
  intro fuel
  induction fuel with
  | zero => intro s hi _; exact ⟨s, rfl, hi, rfl, fun _ h => h, fun _ _ => rfl⟩
  | succ k ih =>
    intro s hi hex
    obtain ⟨s1, b, h1, hi1, hex1, hreg1, _, hf1⟩ := acceptOne_inv hi hex
    unfold acceptLoop
    simp only [h1, bind, Except.bind]
    cases b with
    | false => exact ⟨s1, rfl, hi1, hex1, hreg1, hf1⟩
    | true =>
      obtain ⟨s2, h2, hi2, hex2, hreg2, hf2⟩ := ih hi1 (hex1 ▸ hex)
      refine ⟨s2, by simpa using h2, hi2, hex2.trans hex1, fun c h => hreg2 c (hreg1 c h), ?_⟩
      intro c hl
      have e1 := hf1 c hl
      rw [hf2 c (by rw [e1]; exact hl), e1]

/-! ## wake-up, clear, exit -/

theorem onWake_inv : ∀ (fuel : Nat) {s : St}, Inv s → s.exited = false → s.queue.length ≤ fuel →
    ∃ s', onWake fuel s = .ok s' ∧ Inv s' ∧ s'.exited = s.exited ∧ s'.queue = [] := by
  intro fuel
  induction fuel with
  | zero =>
    intro s hi _ hl
    exact ⟨s, rfl, hi, rfl, List.length_eq_zero_iff.mp (by omega)⟩
  | succ k ih =>
    intro s hi hex hl
    unfold onWake
    by_cases hq : s.queue.isEmpty
    · simp only [hq, if_true]
      exact ⟨s, rfl, hi, rfl, by simpa using hq⟩
    · simp only [hq]
      obtain ⟨s1, h1, hi1, hex1, hq1⟩ := wakeOne_inv hi hex
      have hl1 : s1.queue.length ≤ k := by rw [hq1]; simp; omega
      obtain ⟨s2, h2, hi2, hex2, hq2⟩ := ih hi1 (hex1 ▸ hex) hl1
      refine ⟨s2, ?_, hi2, hex2.trans hex1, hq2⟩
      simp [h1, bind, Except.bind, h2]

/-- `clearOne` after the context was taken from the list -/
theorem clearOne_inv {s : St} (hi : Inv s) (hex : s.exited = false)
    (hnc : ∀ c ∈ s.reg, (s.ctx c).closing = false) :
    ∃ s', clearOne s = .ok s' ∧ Inv s' ∧ s'.exited = s.exited ∧ s'.reg = s.reg.tail ∧ s'.queue = s.queue ∧
      (∀ c ∈ s'.reg, (s'.ctx c).closing = false) := by
  unfold clearOne
  cases hr : s.reg with
  | nil => exact ⟨s, rfl, hi, rfl, by simp [hr], rfl, hnc⟩
  | cons c rest =>
    have hcr : c ∈ s.reg := by simp [hr]
    have hl := live_of_reg hi hcr
    have g := hi.good c
    have hcq : c ∉ s.queue := hi.disj c hcr
    have hnd : (c :: rest).Nodup := hr ▸ hi.regNd
    have hcrest : c ∉ rest := (List.nodup_cons.mp hnd).1
    have hR : ∀ c', c' ≠ c → (c' ∈ rest ↔ c' ∈ s.reg) := by intro c' h; rw [hr]; simp [h]
    have hex' : s.exited = true → False := by intro h; rw [hex] at h; cases h
    have g' : Good (s.ctx c) true false := good_congr g (by simp [hcr]) (by simp [hcq])
    have hl0 : (({ s with reg := rest } : St).ctx c).mem = .live := hl
    simp only []
    rw [releaseCtx_spec { s with reg := rest } c hl0]
    refine ⟨_, rfl, ?_, rfl, rfl, rfl, ?_⟩
    · exact inv_update hi c (relRec (s.ctx c)) rest s.queue hl hR (fun _ _ => Iff.rfl) (List.nodup_cons.mp hnd).2
        hi.queueNd (fun h => absurd h hcrest)
        (good_congr (good_release g' hl (Or.inl ⟨rfl, rfl⟩) (hnc c hcr)) (by simp [hcrest]) (by simp [hcq]))
        (fun h => (hex' h).elim)
    · intro c' hc'
      have hne : c' ≠ c := by intro e; subst e; exact hcrest hc'
      show ((St.set _ c _).ctx c').closing = false
      rw [set_ctx_ne _ _ _ _ hne]
      exact hnc c' ((hR c' hne).mp hc')

theorem exitOne_inv {s : St} (hi : Inv s) (hex : s.exited = false) :
    ∃ s', exitOne s = .ok s' ∧ Inv s' ∧ s'.exited = s.exited ∧ s'.queue = s.queue.tail ∧ s'.reg = s.reg := by
  unfold exitOne
  cases hq : s.queue with
  | nil => exact ⟨s, rfl, hi, rfl, by simp [hq], rfl⟩
  | cons c rest =>
    have hcq : c ∈ s.queue := by simp [hq]
    have hl := live_of_queue hi hcq
    have g := hi.good c
    have hcr : c ∉ s.reg := fun h => hi.disj c h hcq
    have hnd : (c :: rest).Nodup := hq ▸ hi.queueNd
    have hcrest : c ∉ rest := (List.nodup_cons.mp hnd).1
    have hQ : ∀ c', c' ≠ c → (c' ∈ rest ↔ c' ∈ s.queue) := by intro c' h; rw [hq]; simp [h]
    have hex' : s.exited = true → False := by intro h; rw [hex] at h; cases h
    have g' : Good (s.ctx c) false true := good_congr g (by simp [hcr]) (by simp [hcq])
    have hl0 : (({ s with queue := rest } : St).ctx c).mem = .live := hl
    simp only []
    rw [releaseCtx_spec { s with queue := rest } c hl0]
    refine ⟨_, rfl, ?_, rfl, rfl, rfl⟩
    exact inv_update hi c (relRec (s.ctx c)) s.reg rest hl (fun _ _ => Iff.rfl) hQ hi.regNd
      (List.nodup_cons.mp hnd).2 (fun h => absurd h hcr)
      (good_congr (good_release g' hl (Or.inr ⟨rfl, rfl⟩) (not_closing_of_not_reg g')) (by simp [hcr]) (by simp [hcrest]))
      (fun h => (hex' h).elim)

theorem clearAll_inv : ∀ (fuel : Nat) {s : St}, Inv s → s.exited = false → s.reg.length ≤ fuel →
    (∀ c ∈ s.reg, (s.ctx c).closing = false) →
    ∃ s', clearAll fuel s = .ok s' ∧ Inv s' ∧ s'.exited = s.exited ∧ s'.reg = [] ∧ s'.queue = s.queue := by
  intro fuel
  induction fuel with
  | zero =>
    intro s hi _ hl _
    exact ⟨s, rfl, hi, rfl, List.length_eq_zero_iff.mp (by omega), rfl⟩
  | succ k ih =>
    intro s hi hex hl hnc
    unfold clearAll
    by_cases hq : s.reg.isEmpty
    · simp only [hq, if_true]
      exact ⟨s, rfl, hi, rfl, by simpa using hq, rfl⟩
    · simp only [hq]
      obtain ⟨s1, h1, hi1, hex1, hr1, hq1, hnc1⟩ := clearOne_inv hi hex hnc
      have hl1 : s1.reg.length ≤ k := by rw [hr1]; simp; omega
      obtain ⟨s2, h2, hi2, hex2, hr2, hq2⟩ := ih hi1 (hex1 ▸ hex) hl1 hnc1
      refine ⟨s2, ?_, hi2, hex2.trans hex1, hr2, hq2.trans hq1⟩
      simp [h1, bind, Except.bind, h2]

theorem exitAll_inv : ∀ (fuel : Nat) {s : St}, Inv s → s.exited = false → s.queue.length ≤ fuel →
    ∃ s', exitAll fuel s = .ok s' ∧ Inv s' ∧ s'.exited = s.exited ∧ s'.queue = [] ∧ s'.reg = s.reg := by
  intro fuel
  induction fuel with
  | zero =>
    intro s hi _ hl
    exact ⟨s, rfl, hi, rfl, List.length_eq_zero_iff.mp (by omega), rfl⟩
  | succ k ih =>
    intro s hi hex hl
    unfold exitAll
    by_cases hq : s.queue.isEmpty
    · simp only [hq, if_true]
      exact ⟨s, rfl, hi, rfl, by simpa using hq, rfl⟩
    · simp only [hq]
      obtain ⟨s1, h1, hi1, hex1, hq1, hr1⟩ := exitOne_inv hi hex
      have hl1 : s1.queue.length ≤ k := by rw [hq1]; simp; omega
      obtain ⟨s2, h2, hi2, hex2, hq2, hr2⟩ := ih hi1 (hex1 ▸ hex) hl1
      refine ⟨s2, ?_, hi2, hex2.trans hex1, hq2, hr2.trans hr1⟩
      simp [h1, bind, Except.bind, h2]

theorem runExit_inv {s : St} (hi : Inv s) (hex : s.exited = false)
    (hnc : ∀ c ∈ s.reg, (s.ctx c).closing = false) :
    ∃ s', runExit s = .ok s' ∧ Inv s' ∧ s'.exited = true := by
  obtain ⟨s1, h1, hi1, hex1, hr1, _⟩ := clearAll_inv s.reg.length hi hex (Nat.le_refl _) hnc
  obtain ⟨s2, h2, hi2, hex2, hq2, hr2⟩ := exitAll_inv s1.queue.length hi1 (hex1 ▸ hex) (Nat.le_refl _)
  refine ⟨{ s2 with exited := true }, ?_, ?_, rfl⟩
  · simp [runExit, h1, h2, bind, Except.bind, pure, Except.pure]
  · exact { good := hi2.good, regNd := hi2.regNd, queueNd := hi2.queueNd, disj := hi2.disj,
            backlog := hi2.backlog, backlogNd := hi2.backlogNd, fresh := hi2.fresh,
            exited := fun _ => ⟨hr2.trans hr1, hq2⟩, fixed := hi2.fixed }

/-! ## one context gets its turn -/

/-- first half of `dispatchCtx`: the read callback when the context is readable -/
def dispatchHead (s : St) (x : Ctx) (c chunk : Nat) : Except Err St :=
  if x.isListener then
    (if s.backlog.isEmpty then pure s else acceptLoop (s.backlog.length + 1) s)
  else if !x.inq.isEmpty || x.eof then onReadClient s c chunk
  else pure s

/-- second half: close callback and removal when the context is flagged closed -/
def dispatchTail (s : St) (c : Nat) : Except Err St := do
  let y ← s.live c
  if y.flagClosed then
    let s ← onClose s c
    return { s with reg := s.reg.erase c }
  else return s

theorem dispatchCtx_eq (s : St) (c k : Nat) : dispatchCtx s c k = (do
    let x ← s.live c
    let s1 ← dispatchHead s x c k
    dispatchTail s1 c) := by
  unfold dispatchCtx dispatchHead dispatchTail
  cases s.live c with
  | error e => rfl
  | ok x =>
    simp only [bind, Except.bind]
    split <;> (try split) <;> rfl

theorem dispatchHead_inv {s : St} (hi : Inv s) (hex : s.exited = false) {c : Nat} (hc : c ∈ s.reg) (k : Nat) :
    ∃ s', dispatchHead s (s.ctx c) c k = .ok s' ∧ Inv s' ∧ s'.exited = s.exited ∧ c ∈ s'.reg ∧
      (s'.ctx c).closing = (s.ctx c).closing := by
  have hl := live_of_reg hi hc
  unfold dispatchHead
  split
  · split
    · exact ⟨s, rfl, hi, rfl, hc, rfl⟩
    · obtain ⟨s', h, hi', hex', hreg, hfr⟩ := acceptLoop_inv (s.backlog.length + 1) hi hex
      exact ⟨s', h, hi', hex', hreg c hc, by rw [hfr c hl]⟩
  · split
    · rw [onReadClient_spec s c k hl]
      exact ⟨_, rfl, inv_set hi c _ hl (good_read (hi.good c) k), rfl, hc, by rw [set_ctx]; rfl⟩
    · exact ⟨s, rfl, hi, rfl, hc, rfl⟩

theorem dispatchTail_inv {s : St} (hi : Inv s) (hex : s.exited = false) {c : Nat} (hc : c ∈ s.reg)
    (hnc : (s.ctx c).closing = false) :
    ∃ s', dispatchTail s c = .ok s' ∧ Inv s' ∧ s'.exited = s.exited := by
  have hl := live_of_reg hi hc
  have g := hi.good c
  have hcq : c ∉ s.queue := hi.disj c hc
  have g' : Good (s.ctx c) true false := good_congr g (by simp [hc]) (by simp [hcq])
  have hex' : s.exited = true → False := by intro h; rw [hex] at h; cases h
  unfold dispatchTail
  simp only [live_ok hl, bind, Except.bind]
  by_cases hf : (s.ctx c).flagClosed
  · rw [if_pos hf]
    simp only [onClose_spec s c hl, pure, Except.pure]
    refine ⟨_, rfl, ?_, rfl⟩
    have hne : c ∉ s.reg.erase c := fun h => (List.Nodup.mem_erase_iff hi.regNd).mp h |>.1 rfl
    exact inv_update hi c _ (s.reg.erase c) s.queue hl
      (fun c' h => by simp [List.mem_erase_of_ne h]) (fun _ _ => Iff.rfl)
      (List.Nodup.erase _ hi.regNd) hi.queueNd (fun h => absurd h hne)
      (good_congr (good_close g' hl hnc) (by simp [hne]) (by simp [hcq])) (fun h => (hex' h).elim)
  · rw [if_neg hf]
    exact ⟨s, rfl, hi, rfl⟩

theorem dispatchCtx_inv {s : St} (hi : Inv s) (hex : s.exited = false) {c : Nat} (hc : c ∈ s.reg)
    (hnc : (s.ctx c).closing = false) (k : Nat) :
    ∃ s', dispatchCtx s c k = .ok s' ∧ Inv s' ∧ s'.exited = s.exited := by
  have hl := live_of_reg hi hc
  obtain ⟨s1, h1, hi1, hex1, hc1, hcl1⟩ := dispatchHead_inv hi hex hc k
  obtain ⟨s2, h2, hi2, hex2⟩ := dispatchTail_inv hi1 (hex1 ▸ hex) hc1 (hcl1.trans hnc)
  refine ⟨s2, ?_, hi2, hex2.trans hex1⟩
  rw [dispatchCtx_eq]
  simp [live_ok hl, bind, Except.bind, h1, h2]

/-! ## the turn in pieces: acts of other threads may come in between -/

theorem turnRead_eq (s : St) (c k : Nat) : turnRead s c k = (do
    let x ← s.live c
    dispatchHead s x c k) := by
  unfold turnRead dispatchHead
  rfl

theorem turnRead_inv {s : St} (hi : Inv s) (hex : s.exited = false) {c : Nat} (hc : c ∈ s.reg) (k : Nat) :
    ∃ s', turnRead s c k = .ok s' ∧ Inv s' ∧ s'.exited = s.exited := by
  have hl := live_of_reg hi hc
  obtain ⟨s1, h1, hi1, hex1, _, _⟩ := dispatchHead_inv hi hex hc k
  refine ⟨s1, ?_, hi1, hex1⟩
  rw [turnRead_eq]
  simp [live_ok hl, bind, Except.bind, h1]

theorem closeBegin_spec (s : St) (c : Nat) (hl : (s.ctx c).mem = .live) :
    closeBegin s c = .ok (s.set c { s.ctx c with nCls := (s.ctx c).nCls + 1, oCls := (s.ctx c).ref, closing := true }) := by
  simp [closeBegin, cbClose, St.live, hl, bind, Except.bind, pure, Except.pure]

theorem closeBegin_inv {s : St} (hi : Inv s) {c : Nat} (hc : c ∈ s.reg) (hnc : (s.ctx c).closing = false) :
    ∃ s', closeBegin s c = .ok s' ∧ Inv s' ∧ s'.exited = s.exited ∧ (s'.ctx c).closing = true ∧ c ∈ s'.reg := by
  have hl := live_of_reg hi hc
  have hcq : c ∉ s.queue := hi.disj c hc
  have g' : Good (s.ctx c) true false := good_congr (hi.good c) (by simp [hc]) (by simp [hcq])
  refine ⟨_, closeBegin_spec s c hl, ?_, rfl, by simp, hc⟩
  exact inv_set hi c _ hl (good_congr (good_closeBegin g' hl hnc) (by simp [hc]) (by simp [hcq]))

theorem closeEnd_spec (s : St) (c : Nat) (hl : (s.ctx c).mem = .live) :
    closeEnd s c = .ok { s.set c (relRec { s.ctx c with closing := false }) with reg := s.reg.erase c } := by
  have h2 : ((s.set c { s.ctx c with closing := false }).ctx c).mem = .live := by simp [hl]
  simp only [closeEnd, live_ok hl, bind, Except.bind, pure, Except.pure]
  rw [releaseCtx_spec _ _ h2]
  simp

theorem closeEnd_inv {s : St} (hi : Inv s) (hex : s.exited = false) {c : Nat} (hcl : (s.ctx c).closing = true) :
    ∃ s', closeEnd s c = .ok s' ∧ Inv s' ∧ s'.exited = s.exited := by
  have g := hi.good c
  obtain ⟨hr, hl, _⟩ := g.cl hcl
  have hc : c ∈ s.reg := by simpa using hr
  have hcq : c ∉ s.queue := hi.disj c hc
  have g' : Good (s.ctx c) true false := good_congr g (by simp [hc]) (by simp [hcq])
  have hex' : s.exited = true → False := by intro h; rw [hex] at h; cases h
  have hne : c ∉ s.reg.erase c := fun h => (List.Nodup.mem_erase_iff hi.regNd).mp h |>.1 rfl
  refine ⟨_, closeEnd_spec s c hl, ?_, rfl⟩
  exact inv_update hi c _ (s.reg.erase c) s.queue hl
    (fun c' h => by simp [List.mem_erase_of_ne h]) (fun _ _ => Iff.rfl)
    (List.Nodup.erase _ hi.regNd) hi.queueNd (fun h => absurd h hne)
    (good_congr (good_closeEnd g' hl hcl) (by simp [hne]) (by simp [hcq])) (fun h => (hex' h).elim)

end MgProof.C15
