import MgModel.C15.Handle
/-!
# C15 — lemmas about the socket-handle model (`MgModel.C15.Handle`)

* record-level specifications of the C functions of the model (`releaseCtx_spec`, …): what a
  call does to the record of the context it is applied to, provided that context is live;
* the ownership invariant `Inv` and its preservation by every act of a history.
-/
namespace MgProof.C15
open MgModel.C15 MgModel.Conc

/-! ## `upd` / `St.set` algebra -/

@[simp] theorem upd_upd {α : Type} (f : Nat → α) (c : Nat) (a b : α) :
    upd (upd f c a) c b = upd f c b := by
  funext j; simp only [upd]; split <;> rfl

@[simp] theorem upd_self {α : Type} (f : Nat → α) (c : Nat) : upd f c (f c) = f := by
  funext j; simp only [upd]; split <;> simp_all

@[simp] theorem set_self (s : St) (c : Nat) : s.set c (s.ctx c) = s := by simp [St.set]
@[simp] theorem set_ctx (s : St) (c : Nat) (x : Ctx) : (s.set c x).ctx c = x := by simp [St.set]
@[simp] theorem set_set (s : St) (c : Nat) (x y : Ctx) : (s.set c x).set c y = s.set c y := by
  simp [St.set]
theorem set_ctx_ne (s : St) (c c' : Nat) (x : Ctx) (h : c' ≠ c) : (s.set c x).ctx c' = s.ctx c' := by
  simp [St.set, upd, h]
@[simp] theorem set_reg (s : St) (c : Nat) (x : Ctx) : (s.set c x).reg = s.reg := rfl
@[simp] theorem set_queue (s : St) (c : Nat) (x : Ctx) : (s.set c x).queue = s.queue := rfl
@[simp] theorem set_backlog (s : St) (c : Nat) (x : Ctx) : (s.set c x).backlog = s.backlog := rfl
@[simp] theorem set_n (s : St) (c : Nat) (x : Ctx) : (s.set c x).n = s.n := rfl
@[simp] theorem set_cap (s : St) (c : Nat) (x : Ctx) : (s.set c x).cap = s.cap := rfl
@[simp] theorem set_exited (s : St) (c : Nat) (x : Ctx) : (s.set c x).exited = s.exited := rfl
@[simp] theorem set_fixed (s : St) (c : Nat) (x : Ctx) : (s.set c x).fixed = s.fixed := rfl

theorem live_ok {s : St} {c : Nat} (h : (s.ctx c).mem = .live) : s.live c = .ok (s.ctx c) := by
  simp [St.live, h]

theorem live_inv {s : St} {c : Nat} {x : Ctx} (h : s.live c = .ok x) : (s.ctx c).mem = .live ∧ x = s.ctx c := by
  unfold St.live at h
  split at h <;> simp_all

/-! ## record-level specifications -/

/-- what `muggle_socket_evloop_release_ctx` does to the record of a live context -/
def relRec (x : Ctx) : Ctx :=
  if x.ref = 0 then x
  else if x.ref = 1 then
    { x with ref := 0, nRel := x.nRel + 1, oRel := 0, flagClosed := true, fdOpen := false,
             nFdc := if x.fdOpen then x.nFdc + 1 else x.nFdc, mem := .freed, nFree := x.nFree + 1 }
  else { x with ref := x.ref - 1 }

theorem releaseCtx_spec (s : St) (c : Nat) (h : (s.ctx c).mem = .live) :
    releaseCtx s c = .ok (s.set c (relRec (s.ctx c))) := by
  by_cases h0 : (s.ctx c).ref = 0
  · simp [releaseCtx, refRelease, St.live, h, bind, Except.bind, pure, Except.pure, relRec, h0]
  · by_cases h1 : (s.ctx c).ref = 1
    · cases hfd : (s.ctx c).fdOpen <;>
      simp [releaseCtx, refRelease, St.live, h, bind, Except.bind, pure, Except.pure, relRec, h1, hfd,
            cbRelease, ctxClose, closeFd, cbFree]
    · have : (s.ctx c).ref - 1 ≠ 0 := by omega
      simp [releaseCtx, refRelease, St.live, h, bind, Except.bind, pure, Except.pure, relRec, h0, h1, this]

theorem releaseCtx_err (s : St) (c : Nat) (h : (s.ctx c).mem ≠ .live) : ∃ e, releaseCtx s c = .error e := by
  unfold releaseCtx refRelease St.live
  cases hm : (s.ctx c).mem <;> simp_all [bind, Except.bind]

theorem onClose_spec (s : St) (c : Nat) (h : (s.ctx c).mem = .live) :
    onClose s c = .ok (s.set c (relRec { s.ctx c with nCls := (s.ctx c).nCls + 1, oCls := (s.ctx c).ref })) := by
  have h2 : ((s.set c { s.ctx c with nCls := (s.ctx c).nCls + 1, oCls := (s.ctx c).ref }).ctx c).mem = .live := by simp [h]
  simp only [onClose, cbClose, live_ok h, bind, Except.bind, pure, Except.pure]
  rw [releaseCtx_spec _ _ h2]
  simp

/-- the worker's own release (`workerRelease`) on the record -/
def wrelRec (x : Ctx) : Ctx := relRec { x with held := x.held - 1 }

theorem workerRelease_spec (s : St) (c : Nat) (h : (s.ctx c).mem = .live) :
    workerRelease s c = .ok (s.set c (wrelRec (s.ctx c))) := by
  by_cases h0 : (s.ctx c).ref = 0
  · simp [workerRelease, refRelease, St.live, h, bind, Except.bind, pure, Except.pure, wrelRec, relRec, h0]
  · by_cases h1 : (s.ctx c).ref = 1
    · cases hfd : (s.ctx c).fdOpen <;>
      simp [workerRelease, refRelease, St.live, h, bind, Except.bind, pure, Except.pure, wrelRec, relRec, h1, hfd,
            cbRelease, ctxClose, closeFd, cbFree]
    · have : (s.ctx c).ref - 1 ≠ 0 := by omega
      simp [workerRelease, refRelease, St.live, h, bind, Except.bind, pure, Except.pure, wrelRec, relRec, h0, h1, this]

theorem retain_spec (s : St) (c : Nat) (h : (s.ctx c).mem = .live) (hr : 1 ≤ (s.ctx c).ref) :
    retain s c = .ok (s.set c { s.ctx c with ref := (s.ctx c).ref + 1, held := (s.ctx c).held + 1 }) := by
  have h0 : (s.ctx c).ref ≠ 0 := by omega
  have h1 : ((((s.ctx c).ref + 1 : Nat) : Int) > 0) := by omega
  simp [retain, refRetain, St.live, h, bind, Except.bind, pure, Except.pure, h0, h1]

theorem userShutdown_spec (s : St) (c : Nat) (h : (s.ctx c).mem = .live) :
    userShutdown s c = .ok (s.set c { s.ctx c with flagClosed := true, eof := true }) := by
  simp [userShutdown, St.live, h, bind, Except.bind, pure, Except.pure]

/-! ## the byte path -/

theorem drain_append (chunk : Nat) : ∀ (fuel : Nat) (inq acc : List Nat),
    (drain chunk fuel inq acc).1 ++ (drain chunk fuel inq acc).2 = acc ++ inq := by
  intro fuel
  induction fuel with
  | zero => intro inq acc; simp [drain]
  | succ k ih =>
    intro inq acc
    unfold drain
    split
    · rfl
    · rw [ih]; simp [List.append_assoc]

theorem drain_empties (chunk : Nat) (hc : 1 ≤ chunk) : ∀ (fuel : Nat) (inq acc : List Nat),
    inq.length ≤ fuel → (drain chunk fuel inq acc).2 = [] := by
  intro fuel
  induction fuel with
  | zero => intro inq acc h; simp [drain]; exact List.length_eq_zero_iff.mp (by omega)
  | succ k ih =>
    intro inq acc h
    unfold drain
    split
    · rename_i h1
      rcases h1 with h1 | h1
      · simpa using h1
      · omega
    · rename_i h1
      apply ih
      have : inq ≠ [] := by intro e; simp [e] at h1
      have : 0 < inq.length := List.length_pos_iff.mpr this
      simp [List.length_drop]; omega

/-- the record after `muggle_socket_evloop_on_read` for a client context -/
def readRec (x : Ctx) (chunk : Nat) : Ctx :=
  let r := drain chunk x.inq.length x.inq x.got
  { x with got := r.1, inq := r.2,
           flagClosed := x.flagClosed || ((chunk = 0) || (r.2.isEmpty && x.eof)) }

theorem onReadClient_spec (s : St) (c : Nat) (k : Nat) (h : (s.ctx c).mem = .live) :
    onReadClient s c k = .ok (s.set c (readRec (s.ctx c) k)) := by
  simp [onReadClient, St.live, h, bind, Except.bind, pure, Except.pure, readRec]

end MgProof.C15
