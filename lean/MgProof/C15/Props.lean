import MgProof.C15.HandleSafety
import MgProof.C15.PipeLemmas
/-!
# C15 — property theorems

Statement (properties.jsonl): for every history of connections being accepted, data
arriving in arbitrary fragmentation, either side closing, contexts being added from other
threads and the loop exiting, each socket context is announced once, its bytes reach the
message callback in order without loss or duplication, and it is closed, released and freed
exactly once when its reference count drops to zero, never used after release and never
leaked, including contexts still queued at exit. The event-loop pipe delivers every pointer
written by any thread exactly once, in per-writer order.

Part 1 is about `MgModel.C15.Handle` (model of `socket_evloop_handle.c` with the repaired
`on_wake`, tied to the real code on the three back-ends by `harness/c15/seq_socket.c`).
Quantifiers: every registration capacity (`cap`: poll's `hints_max_fd`, `none` for select /
epoll), every history = every finite list of acts (connect with alloc success or failure,
send of any bytes, peer close, shutdown, retain, worker release, hand-over, wake, a
registered context's turn with any read size, exit) in **every order** in which the
environment may legally issue them (`Legal`) — in particular every dispatch order of every
back-end and every interleaving of worker acts with loop acts.

Part 2 is about `MgModel.C15.Pipe` (model of `socket_evloop_pipe.c`, tied to the real
object code by `harness/c15/conc_pipe.c` under the deterministic scheduler). Quantifiers:
every number of writers, every pointer sequence per writer, every FIFO capacity, every
script of partial-write and partial-read sizes, every schedule of every length.
-/
namespace MgProof.C15
open MgModel.C15 MgModel.Conc

/-! ## Part 1 — socket contexts -/

/-- **Never used after release, no wild access** (clause "never used after release").
Every legal history, of any length, from the initial state (listener registered) runs to
the end without the model ever reading or writing a freed or never-allocated context
(`Err.uaf` / `Err.wild` are the only errors of the model), and ends in a state satisfying
the ownership invariant `Inv`. All `cap`, all histories. -/
theorem history_safe (cap : Option Nat) (as : List Act) (h : LegalRun (init cap true) as) :
    ∃ s, run (init cap true) as = .ok s ∧ Inv s :=
  run_inv as (init_inv cap) h

/-- one more legal act from any state reached so far: it cannot fail either -/
theorem next_act_safe {s : St} (hi : Inv s) (a : Act) (hl : Legal s a) : ∃ s', apply s a = .ok s' ∧ Inv s' :=
  apply_inv hi a hl

/-- **Announced once** (clause "each socket context is announced once"). In every state
reached by a legal history: `cb_conn` and `cb_add_ctx` are each called at most once per
context and never both; an accepted context that was registered got exactly one `cb_conn`
(none if registration failed at accept time — it was never visible to the user); a handed-
over context that is registered got exactly one `cb_add_ctx`, one that is still queued none. -/
theorem announced_once {s : St} (hi : Inv s) (c : Nat) :
    (s.ctx c).nConn ≤ 1 ∧ (s.ctx c).nAdd ≤ 1 ∧ (s.ctx c).nConn + (s.ctx c).nAdd ≤ 1 ∧
    ((s.ctx c).origin = .accepted → (s.ctx c).mem ≠ .none →
        (s.ctx c).nConn = if (s.ctx c).regFailed then 0 else 1) ∧
    ((s.ctx c).origin = .handed → (c ∈ s.reg → (s.ctx c).nAdd = 1) ∧ (c ∈ s.queue → (s.ctx c).nAdd = 0)) := by
  have g := hi.good c
  obtain ⟨h1, h2, _⟩ := g.once
  refine ⟨h1, h2, ?_, ?_, ?_⟩
  · cases ho : (s.ctx c).origin
    · have := g.none_ (g.oNone ho); omega
    · have := g.oLis ho; omega
    · have := g.oAcc ho; omega
    · have := g.oHand ho; omega
  · intro ho hm; exact (g.oAcc ho).2.2.1 hm
  · intro ho
    have := g.oHand ho
    exact ⟨fun h => this.2.2.2.2 (by simp [h]), fun h => this.2.2.2.1 (by simp [h])⟩

/-- **The reference count is the number of owners.** For a live context the count equals
(1 if the loop has it registered) + (1 if it sits in the hand-over queue) + (retains held by
worker threads), and it is at least 1. -/
theorem refcount_counts_owners {s : St} (hi : Inv s) (c : Nat) (hl : (s.ctx c).mem = .live) :
    (s.ctx c).ref = (if c ∈ s.reg then 1 else 0) + (if c ∈ s.queue then 1 else 0) + (s.ctx c).held ∧
    1 ≤ (s.ctx c).ref := by
  have := (hi.good c).live_ hl
  refine ⟨?_, this.2.1⟩
  have h := this.1
  simp only [b2n, decide_eq_true_eq] at h
  exact h

/-- **Closed, released and freed exactly once, exactly when the count drops to zero**
(clause "closed, released and freed exactly once when its reference count drops to zero").
In every reachable state, for every context: the close callback ran at most once; while the
context is live (count ≥ 1) its descriptor has not been closed, `cb_release` has not run and
it has not been freed; once it is freed the count is zero, no owner is left (not registered,
not queued, no worker retain), and the descriptor was closed exactly once, `cb_release`
(or the releasing worker's own release) ran exactly once and `cb_free` exactly once. (The
accept-time registration-failure path frees a context nobody ever saw: freed and closed
once, no release callback, count untouched.) Since freed contexts are never touched again
(`history_safe`), none of these counters can change afterwards. -/
theorem closed_released_freed_exactly_once {s : St} (hi : Inv s) (c : Nat) :
    (s.ctx c).nCls ≤ 1 ∧
    ((s.ctx c).mem = .live → 1 ≤ (s.ctx c).ref ∧ (s.ctx c).fdOpen = true ∧ (s.ctx c).nFdc = 0 ∧
        (s.ctx c).nRel = 0 ∧ (s.ctx c).nFree = 0) ∧
    ((s.ctx c).mem = .freed → (s.ctx c).held = 0 ∧ c ∉ s.reg ∧ c ∉ s.queue ∧ (s.ctx c).fdOpen = false ∧
        (s.ctx c).nFdc = 1 ∧ (s.ctx c).nFree = 1 ∧
        ((s.ctx c).regFailed = false → (s.ctx c).ref = 0 ∧ (s.ctx c).nRel = 1) ∧
        ((s.ctx c).regFailed = true → (s.ctx c).nRel = 0 ∧ (s.ctx c).nConn = 0 ∧ (s.ctx c).nCls = 0)) := by
  have g := hi.good c
  refine ⟨g.once.2.2, ?_, ?_⟩
  · intro hl
    have := g.live_ hl
    exact ⟨this.2.1, this.2.2.1, this.2.2.2.1, this.2.2.2.2.2.1, this.2.2.2.2.1⟩
  · intro hf
    have := g.freed_ hf
    refine ⟨this.2.1, by simpa using this.2.2.1, by simpa using this.2.2.2.1, this.2.2.2.2.1,
      this.2.2.2.2.2.1, this.2.2.2.2.2.2.1, ?_, ?_⟩
    · intro hr
      have href := this.1
      have hrel := this.2.2.2.2.2.2.2
      rw [hr] at href hrel
      exact ⟨by simpa using href, by simpa using hrel⟩
    · intro hr
      have h2 := g.rf hr
      have hrel := this.2.2.2.2.2.2.2
      rw [hr] at hrel
      exact ⟨by simpa using hrel, h2.2, h2.1⟩

/-- **The loop still owns its reference while a callback runs on the context** (clauses
"never used after release", "closed, released and freed exactly once when its reference
count drops to zero"). In every reachable state in which the loop is inside the user's
`cb_close` for `c` (between `closeBegin c` and `closeEnd c`, with any legal acts of worker
threads and peers in between): the context is live, still registered, its count is the
loop's own reference plus the workers' retains (so at least 1 + held), and the count the
callback observed on entry was at least 1. The other callbacks (`cb_conn`, `cb_add_ctx`,
`cb_msg`) only ever run on a registered context (`Legal` for `turnRead`; `acceptBody` /
`wakeBody` register before they call back), for which `refcount_counts_owners` gives the same. -/
theorem callback_runs_on_owned_ctx {s : St} (hi : Inv s) (c : Nat) (hcl : (s.ctx c).closing = true) :
    (s.ctx c).mem = .live ∧ c ∈ s.reg ∧ c ∉ s.queue ∧ (s.ctx c).ref = 1 + (s.ctx c).held ∧
    1 ≤ (s.ctx c).oCls ∧ (s.ctx c).nRel = 0 ∧ (s.ctx c).nFree = 0 ∧ (s.ctx c).fdOpen = true := by
  have g := hi.good c
  obtain ⟨hr, hl, hn⟩ := g.cl hcl
  have hc : c ∈ s.reg := by simpa using hr
  have hq : c ∉ s.queue := hi.disj c hc
  have h := g.live_ hl
  refine ⟨hl, hc, hq, ?_, g.obs.1 hn, h.2.2.2.2.2.1, h.2.2.2.2.1, h.2.2.1⟩
  have h1 := h.1
  simp only [b2n, hc, hq, decide_true, decide_false, if_true] at h1
  simpa using h1

/-- **A worker that drops its reference while the loop is inside `cb_close` never frees the
context** (the loop's reference is still counted): the release succeeds, the context stays
live and registered and the loop is still inside its callback on valid memory; the free
happens later, in `closeEnd`, by whoever brings the count to zero. -/
theorem worker_release_during_close_keeps_ctx {s : St} (hi : Inv s) (c : Nat)
    (hcl : (s.ctx c).closing = true) (hh : 0 < (s.ctx c).held) :
    ∃ s', workerRelease s c = .ok s' ∧ Inv s' ∧ (s'.ctx c).mem = .live ∧ (s'.ctx c).closing = true ∧
      c ∈ s'.reg ∧ (s'.ctx c).ref = (s.ctx c).ref - 1 := by
  obtain ⟨hl, hc, _, href, _⟩ := callback_runs_on_owned_ctx hi c hcl
  have h2 : 2 ≤ (s.ctx c).ref := by omega
  refine ⟨_, workerRelease_spec s c hl, inv_set hi c _ hl (good_wrel (hi.good c) hl hh), ?_, ?_, hc, ?_⟩ <;>
    (rw [set_ctx]; unfold wrelRec; rw [relRec_many (x := { s.ctx c with held := (s.ctx c).held - 1 }) h2])
  · exact hl
  · exact hcl

/-- **What the callbacks see**: the reference count observed inside `cb_close` is at least 1
(the loop's own reference), inside `cb_conn` exactly 1, inside `cb_add_ctx` at least 1, and
inside `cb_release` 0 (nobody else can reach the context any more). Compared with the real
code on every callback of every generated history (harness snapshot fields). -/
theorem callbacks_see_the_loops_reference {s : St} (hi : Inv s) (c : Nat) :
    ((s.ctx c).nCls = 1 → 1 ≤ (s.ctx c).oCls) ∧ ((s.ctx c).nConn = 1 → (s.ctx c).oConn = 1) ∧
    ((s.ctx c).nAdd = 1 → 1 ≤ (s.ctx c).oAdd) ∧ ((s.ctx c).nRel = 1 → (s.ctx c).oRel = 0) :=
  (hi.good c).obs

/-- **Never leaked, including contexts still queued at exit** (clause "never leaked,
including contexts still queued at exit"). After the loop has exited (in whatever state:
contexts registered, contexts still in the hand-over queue, connections not yet accepted)
and the worker threads have dropped the references they held, no context is live: every
context that was ever allocated has been closed, released and freed. -/
theorem no_leak_after_exit {s : St} (hi : Inv s) (hex : s.exited = true)
    (hw : ∀ c, (s.ctx c).held = 0) (c : Nat) :
    (s.ctx c).mem ≠ .live ∧ ((s.ctx c).mem ≠ .none → (s.ctx c).mem = .freed ∧ (s.ctx c).nFree = 1 ∧ (s.ctx c).nFdc = 1) := by
  have g := hi.good c
  obtain ⟨hr, hq⟩ := hi.exited hex
  have hnl : (s.ctx c).mem ≠ .live := by
    intro hl
    have := g.live_ hl
    rw [hr, hq, hw c] at this
    simp [b2n] at this
    omega
  refine ⟨hnl, ?_⟩
  intro hn
  cases hm : (s.ctx c).mem
  · exact absurd hm hn
  · exact absurd hm hnl
  · have := g.freed_ hm
    exact ⟨rfl, this.2.2.2.2.2.2.1, this.2.2.2.2.2.1⟩

/-- the loop itself leaves nothing behind at exit: right after `exit` the registration list
and the hand-over queue are empty, so every context that is still live is owned by a worker -/
theorem exit_releases_everything {s : St} (hi : Inv s) (hex : s.exited = true) (c : Nat)
    (hl : (s.ctx c).mem = .live) : (s.ctx c).ref = (s.ctx c).held ∧ 0 < (s.ctx c).held := by
  have := (hi.good c).live_ hl
  obtain ⟨hr, hq⟩ := hi.exited hex
  rw [hr, hq] at this
  simp [b2n] at this
  omega

/-- **Bytes in order, no duplication** (clause "its bytes reach the message callback in
order without ... duplication"). In every reachable state, what `cb_msg` has been given so
far, followed by what is still unread in the kernel, is exactly what the peer has sent, in
order — for every fragmentation by the sender and every read size of the callback. -/
theorem bytes_in_order {s : St} (hi : Inv s) (c : Nat) :
    (s.ctx c).got ++ (s.ctx c).inq = (s.ctx c).sent :=
  (hi.good c).bytes

/-- **No loss** (clause "without loss"): when a registered client context gets its turn
and the message callback reads with a buffer of at least one byte, every byte the peer has
sent so far has been handed to `cb_msg` when the turn is over — also when the turn ends with
the close callback (peer closed after sending: the data is delivered before `cb_close`). -/
theorem no_loss_at_turn {s s' : St} (hi : Inv s) {c k : Nat} (hc : c ∈ s.reg)
    (hnl : (s.ctx c).isListener = false) (hk : 1 ≤ k) (h : dispatchCtx s c k = .ok s') :
    (s'.ctx c).inq = [] ∧ (s'.ctx c).got = (s.ctx c).sent ∧ (s'.ctx c).sent = (s.ctx c).sent := by
  have hl := live_of_reg hi hc
  have hb := (hi.good c).bytes
  rw [dispatchCtx_eq] at h
  simp only [live_ok hl, bind, Except.bind] at h
  unfold dispatchHead at h
  simp only [hnl, Bool.false_eq_true, if_false] at h
  by_cases hr : (!(s.ctx c).inq.isEmpty || (s.ctx c).eof) = true
  · rw [if_pos hr, onReadClient_spec s c k hl] at h
    simp only [] at h
    have hi1 : Inv (s.set c (readRec (s.ctx c) k)) := inv_set hi c _ hl (good_read (hi.good c) k)
    obtain ⟨h1, h2, h3⟩ := dispatchTail_bytes hi1 (by simpa using hc) h
    rw [set_ctx] at h1 h2 h3
    have he : (readRec (s.ctx c) k).inq = [] := drain_empties k hk _ _ _ (Nat.le_refl _)
    have ha := drain_append k (s.ctx c).inq.length (s.ctx c).inq (s.ctx c).got
    refine ⟨h1.trans he, ?_, h3⟩
    rw [h2]
    show (drain k (s.ctx c).inq.length (s.ctx c).inq (s.ctx c).got).1 = _
    have he' : (drain k (s.ctx c).inq.length (s.ctx c).inq (s.ctx c).got).2 = [] := he
    rw [he', List.append_nil] at ha
    rw [ha, hb]
  · rw [if_neg hr] at h
    simp only [pure, Except.pure] at h
    obtain ⟨h1, h2, h3⟩ := dispatchTail_bytes hi hc h
    have he : (s.ctx c).inq = [] := by
      simp only [Bool.or_eq_true, Bool.not_eq_true', not_or] at hr
      have := hr.1
      simpa using this
    refine ⟨h1.trans he, ?_, h3⟩
    rw [h2, ← hb, he, List.append_nil]

/-- **Accept-time failures are clean** (quantifier "accept-time allocation or registration
failure"): one turn of the accept loop on a connection whose `cb_alloc` fails closes the
accepted descriptor exactly once and creates no context; the ownership invariant (which
covers the registration-failure path: freed once, closed once, never announced) is kept. -/
theorem alloc_failure_closes_descriptor {s : St} (hi : Inv s) (hex : s.exited = false) {c : Nat}
    {rest : List (Nat × Bool)} (hb : s.backlog = (c, false) :: rest) :
    ∃ s', acceptOne s = .ok (s', false) ∧ Inv s' ∧ (s'.ctx c).mem = .none ∧ (s'.ctx c).nFdc = 1 ∧
      (s'.ctx c).fdOpen = false := by
  obtain ⟨s', b, h, hi', _, _, _⟩ := acceptOne_inv hi hex
  obtain ⟨hm, hfd, h0, _⟩ := hi.backlog (c, false) (by simp [hb])
  have hfd' : ((({ s with backlog := rest } : MgModel.C15.St)).ctx c).fdOpen = true := hfd
  have he : acceptOne s = .ok (({ s with backlog := rest } : MgModel.C15.St).set c
      { s.ctx c with fdOpen := false, nFdc := (s.ctx c).nFdc + 1 }, false) := by
    rw [acceptOne_eq]
    simp only [hb, Bool.not_false, if_true]
    rw [closeFd_spec _ c hfd']
  rw [he] at h
  injection h with h
  injection h with h1 h2
  subst h1
  refine ⟨_, he, hi', ?_, ?_, ?_⟩
  · rw [set_ctx]; exact hm
  · rw [set_ctx]; show (s.ctx c).nFdc + 1 = 1; rw [h0]
  · rw [set_ctx]

/-! ### the defect of the code as found, and its repair -/

/-- the history of the defect: poll back-end with room for the listener only; another thread
hands a connected context over; the loop wakes up; the loop exits -/
def leakHistory : List Act := [.handOver, .wake, .exit]

def leakedAt (r : Except Err St) (c : Nat) : Bool :=
  match r with
  | .ok s => s.exited && (s.ctx c).mem == .live && (s.ctx c).held == 0 && (s.ctx c).nAdd == 1 &&
             (s.ctx c).nFree == 0 && (s.ctx c).nFdc == 0 && (s.ctx c).nRel == 0
  | .error _ => false

/-- **The property is false for `on_wake` as found** (`fixed = false`: the result of
`muggle_evloop_add_ctx` is ignored): after this legal history the handed-over context got
`cb_add_ctx`, is live, has no owner (not registered, not queued, no worker retain) and was
never closed, released or freed — it is leaked. Replayed on the real code by
`corpus/C15/on-wake-add-failure.ops`. -/
theorem unfixed_on_wake_leaks : leakedAt (run (init (some 1) false) leakHistory) 1 = true := by decide

/-- the same history on the repaired `on_wake`: the context is released, closed and freed
exactly once and `cb_add_ctx` is not called for a context that was not added -/
theorem fixed_on_wake_releases :
    (match run (init (some 1) true) leakHistory with
     | .ok s => (s.ctx 1).mem == .freed && (s.ctx 1).nFree == 1 && (s.ctx 1).nFdc == 1 &&
                (s.ctx 1).nRel == 1 && (s.ctx 1).nAdd == 0
     | .error _ => false) = true := by decide

/-- non-vacuity: a concrete legal history with an accepted connection that sends, is retained
by a worker, closed by its peer, released by the worker, a hand-over, and the exit; it runs
without error and ends with every context freed -/
example :
    (match run (init (some 3) true)
        [.connect true, .dispatch 0 4, .send 1 [1, 2, 3], .dispatch 1 2, .retain 1, .peerClose 1,
         .dispatch 1 2, .workerRelease 1, .handOver, .wake, .connect false, .dispatch 0 1, .exit] with
     | .ok s => (s.ctx 1).mem == .freed && (s.ctx 1).got == [1, 2, 3] && (s.ctx 1).nCls == 1 &&
                (s.ctx 2).mem == .freed && (s.ctx 2).nAdd == 1 && (s.ctx 3).mem == .none &&
                (s.ctx 3).nFdc == 1 && (s.ctx 0).mem == .freed && s.exited
     | .error _ => false) = true := by decide

example : Legal (init none true) (.dispatch 0 1) := ⟨rfl, by simp [init], by simp [init, upd]⟩

/-- non-vacuity for the split turn: a worker holding a retain drops it while the loop is inside
`cb_close`; the callback saw count 2, the loop frees the context afterwards -/
example :
    (match run (init none true)
        [.connect true, .dispatch 0 1, .retain 1, .peerClose 1, .turnRead 1 8, .closeBegin 1,
         .workerRelease 1, .closeEnd 1] with
     | .ok s => (s.ctx 1).mem == .freed && (s.ctx 1).oCls == 2 && (s.ctx 1).nRel == 1 &&
                (s.ctx 1).nFree == 1 && (s.ctx 1).oRel == 0 && (s.ctx 1).oConn == 1
     | .error _ => false) = true := by decide

/-! ## Part 2 — the event-loop pipe -/

namespace Pipe
open MgModel.C15.Pipe

/-- **Mutual exclusion of the writers**: in every reachable state at most one writer is
between a successful `test_and_set` and the `clear` of the spin lock, and exactly then the
lock word is set. All schedules. -/
theorem writers_exclude (c : Conf) (s : MgModel.C15.Pipe.St) (hr : Reach step (mkInit c) s) (w w' : Nat)
    (h : inCs (s.wpc w) = true) (h' : inCs (s.wpc w') = true) : w = w' ∧ s.lock = 1 := by
  have hi := reach_pinv c s hr
  have e1 := (hi.cs w).mp h
  have e2 := (hi.cs w').mp h'
  rw [e1] at e2
  injection e2 with e2
  exact ⟨e2, hi.lockHolder.mpr (by simp [e1])⟩

/-- **Every pointer read is a pointer written, whole, in commit order, never twice**
(clause "delivers every pointer written ... exactly once"). In every reachable state — every
schedule, every FIFO capacity, every split of the byte stream into partial writes and
partial reads — the sequence of 8-byte values returned by `pipe_read` so far is a prefix of
the sequence of pointers in the order in which their writers held the lock (`committed` =
completed writes followed by the write in progress): no value is torn or assembled from two
writes, none is duplicated, none is skipped. -/
theorem reads_are_committed_writes (c : Conf) (s : MgModel.C15.Pipe.St) (hr : Reach step (mkInit c) s) :
    s.delivered = ((committed s).map msgBytes).take s.delivered.length :=
  delivered_prefix (reach_pinv c s hr)

/-- **Per-writer order, each pointer once** (clause "in per-writer order"): in every
reachable state, for every writer, the pointers it has committed so far (in commit order)
followed by the pointers it still has to write are exactly the sequence it was given. -/
theorem per_writer_order (c : Conf) (s : MgModel.C15.Pipe.St) (hr : Reach step (mkInit c) s) (w : Nat) :
    proj s.doneLog w ++ s.todo w = c.progs.getD w [] := by
  have h := (reach_pinv c s hr).order w
  rw [(reach_const c s hr).1] at h
  exact h

/-- **Nothing is lost**: in every reachable state in which all writers have returned and the
reader has emptied the pipe, the values read are exactly the committed pointers, in commit
order, and the commit order restricted to any writer is that writer's whole sequence — the
read sequence is an interleaving of the writers' sequences with every pointer exactly once. -/
theorem all_delivered_when_drained (c : Conf) (s : MgModel.C15.Pipe.St) (hr : Reach step (mkInit c) s)
    (hd : ∀ w, w < s.nw → s.wpc w = .done) (hf : s.fifo = []) (hb : s.buf = []) :
    s.delivered = (s.doneLog.map Prod.snd).map msgBytes ∧
    ∀ w, proj s.doneLog w = c.progs.getD w [] := by
  have hi := reach_pinv c s hr
  refine ⟨delivered_complete hi hd hf hb, ?_⟩
  intro w
  have h := per_writer_order c s hr w
  have ht : s.todo w = [] := by
    by_cases hw : w < s.nw
    · exact hi.fin w (hd w hw)
    · exact hi.fin w (hi.outside w (Nat.le_of_not_lt hw))
  rw [ht, List.append_nil] at h
  exact h

/-- the same for the end of any schedule -/
theorem after_any_schedule (c : Conf) (sched : List Tok) :
    let s := (runSched step (mkInit c) sched).1
    s.delivered = ((committed s).map msgBytes).take s.delivered.length ∧
    ∀ w, proj s.doneLog w ++ s.todo w = c.progs.getD w [] := by
  have hr := reach_runSched step (mkInit c) (mkInit c) Reach.init sched
  exact ⟨reads_are_committed_writes c _ hr, per_writer_order c _ hr⟩

/-- non-vacuity: two writers, capacity 5, partial writes of ≤ 3 and partial reads of ≤ 2
bytes; under this schedule the reader has assembled pointer 1 from four partial reads while
writer 0 already holds the lock again -/
example :
    let s := (runSched step (mkInit { cap := 5, wchunks := [3], rchunks := [2], progs := [[1, 2], [3]] })
      ([0, 0, 0, 1, 0, 2, 2, 0, 2, 2, 0, 0, 2].map fun t => { tid := t })).1
    s.delivered = [msgBytes 1] ∧ s.doneLog = [(0, 1)] ∧ s.wpc 1 = .yld := by decide

end Pipe
end MgProof.C15
