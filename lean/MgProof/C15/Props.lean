import MgProof.C15.HandleLemmas
import MgProof.C15.PipeLemmas
namespace MgProof.C15
end MgProof.C15
