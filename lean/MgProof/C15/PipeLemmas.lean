import MgModel.C15.Pipe
namespace MgProof.C15
end MgProof.C15
