import MgModel.C15.Pipe
/-!
# C15 — lemmas about the event-loop pipe model (`MgModel.C15.Pipe`)

The invariant `PInv` of the N-writers / 1-reader program and its preservation by every
step of every thread (hence for every schedule, every FIFO capacity, every split of the
byte stream into partial writes and partial reads).
-/
namespace MgProof.C15.Pipe
open MgModel.C15.Pipe MgModel.Conc

theorem msgBytes_length (m : Nat) : (msgBytes m).length = 8 := by simp [msgBytes]

theorem xfer_le_req (a b c : Nat) : xfer a b c ≤ a := by
  unfold xfer; simp only []; split <;> omega

theorem xfer_le_avail (a b c : Nat) : xfer a b c ≤ b := by
  unfold xfer; simp only []; split <;> omega

/-- the writer is inside the locked section -/
def inCs : WPc → Bool
  | .fence => true | .wr _ => true | .slp _ => true | .unl => true
  | _ => false

/-- the pointer whose write is in progress -/
def cur (s : St) : List Nat :=
  match s.holder with
  | some w => [(s.todo w).headD 0]
  | none => []

/-- pointers written by writer `w` so far, in order -/
def proj (l : List (Nat × Nat)) (w : Nat) : List Nat := (l.filter (fun p => p.1 == w)).map Prod.snd

structure PInv (s : St) : Prop where
  lock01 : s.lock = 0 ∨ s.lock = 1
  lockHolder : s.lock = 1 ↔ s.holder ≠ none
  cs : ∀ w, inCs (s.wpc w) = true ↔ s.holder = some w
  /-- what the holder still has to put into the pipe, by program counter -/
  link : ∀ w, s.holder = some w → ∃ m rest, s.todo w = m :: rest ∧
            (s.wpc w = .fence → s.unsent = msgBytes m) ∧
            (∀ rem, (s.wpc w = .wr rem ∨ s.wpc w = .slp rem) →
                s.unsent = (msgBytes m).drop (8 - rem) ∧ 0 < rem ∧ rem ≤ 8) ∧
            (s.wpc w = .unl → s.unsent = [])
  idle : s.holder = none → s.unsent = []
  /-- conservation of the byte stream -/
  stream : s.delivered.flatten ++ (s.buf ++ s.fifo ++ s.unsent) =
             ((s.doneLog.map Prod.snd) ++ cur s).flatMap msgBytes
  order : ∀ w, proj s.doneLog w ++ s.todo w = s.progs w
  busy : ∀ w, (s.wpc w = .acq ∨ s.wpc w = .yld) → s.todo w ≠ []
  fin : ∀ w, s.wpc w = .done → s.todo w = []
  rbuf : (∀ off, (s.rpc = .rd off ∨ s.rpc = .slp off) → s.buf.length = off ∧ off < 8) ∧
         (s.rpc = .fence → s.buf.length = 8) ∧ ((s.rpc = .yld ∨ s.rpc = .done) → s.buf = [])
  groups : ∀ g ∈ s.delivered, g.length = 8
  outside : ∀ w, s.nw ≤ w → s.wpc w = .done

/-! ## preservation, by kind of step -/

theorem cur_congr {s s' : St} (h1 : s'.holder = s.holder) (h2 : s'.todo = s.todo) : cur s' = cur s := by
  unfold cur; rw [h1, h2]

/-- steps that only move a writer's program counter between `acq` and `yld` -/
theorem pinv_spin {s : St} (hi : PInv s) (t : Nat) (ht : t < s.nw) (pc : WPc)
    (hold : s.wpc t = .acq ∨ s.wpc t = .yld) (hnew : pc = .acq ∨ pc = .yld) :
    PInv { s with wpc := upd s.wpc t pc } := by
  have hcs := hi.cs t
  have hnot : s.holder ≠ some t := by
    intro h; have := (hcs.mpr h); rcases hold with h' | h' <;> simp [h', inCs] at this
  constructor
  · exact hi.lock01
  · exact hi.lockHolder
  · intro w
    by_cases hw : w = t
    · subst hw
      simp only [upd_same]
      constructor
      · intro h; rcases hnew with h' | h' <;> simp [h', inCs] at h
      · intro h; exact absurd h hnot
    · simp only [upd, hw, if_false]; exact hi.cs w
  · intro w hw
    have hne : w ≠ t := by intro e; subst e; exact hnot hw
    obtain ⟨m, rest, h1, h2, h3, h4⟩ := hi.link w hw
    refine ⟨m, rest, h1, ?_, ?_, ?_⟩ <;> simp only [upd, hne, if_false] <;> assumption
  · exact hi.idle
  · exact hi.stream
  · exact hi.order
  · intro w hw
    by_cases hwt : w = t
    · subst hwt; exact hi.busy w hold
    · simp only [upd, hwt, if_false] at hw; exact hi.busy w hw
  · intro w hw
    by_cases hwt : w = t
    · subst hwt; simp only [upd_same] at hw; rcases hnew with h' | h' <;> simp [h'] at hw
    · simp only [upd, hwt, if_false] at hw; exact hi.fin w hw
  · exact hi.rbuf
  · exact hi.groups
  · intro w hw
    have hw' : s.nw ≤ w := hw
    have hwt : w ≠ t := by omega
    simp only [upd, hwt, if_false]; exact hi.outside w hw'

/-- a step of the lock holder inside the locked section -/
theorem pinv_holder_step {s : St} (hi : PInv s) (t : Nat) (ht : t < s.nw) (hh : s.holder = some t) (pc : WPc)
    (hcs : inCs pc = true) (fifo' unsent' : List Nat) (wi' : Nat)
    (hstream : fifo' ++ unsent' = s.fifo ++ s.unsent)
    (hlink : ∀ m rest, s.todo t = m :: rest →
        (pc = .fence → unsent' = msgBytes m) ∧
        (∀ rem, (pc = .wr rem ∨ pc = .slp rem) → unsent' = (msgBytes m).drop (8 - rem) ∧ 0 < rem ∧ rem ≤ 8) ∧
        (pc = .unl → unsent' = [])) :
    PInv { s with wpc := upd s.wpc t pc, fifo := fifo', unsent := unsent', wi := wi' } := by
  have hin : inCs (s.wpc t) = true := (hi.cs t).mpr hh
  constructor
  · exact hi.lock01
  · exact hi.lockHolder
  · intro w
    by_cases hw : w = t
    · subst hw; simp only [upd_same, hcs, true_iff]; exact hh
    · simp only [upd, hw, if_false]; exact hi.cs w
  · intro w hw
    have hwt : w = t := by
      have : s.holder = some w := hw
      rw [hh] at this; injection this with this; exact this.symm
    subst hwt
    obtain ⟨m, rest, h1, _⟩ := hi.link w hh
    obtain ⟨a, b, c⟩ := hlink m rest h1
    refine ⟨m, rest, h1, ?_, ?_, ?_⟩ <;> simp only [upd_same] <;> assumption
  · intro h
    have : s.holder = none := h
    rw [hh] at this; cases this
  · have := hi.stream
    show s.delivered.flatten ++ (s.buf ++ fifo' ++ unsent') = _
    rw [List.append_assoc s.buf, hstream, ← List.append_assoc s.buf]
    exact this
  · exact hi.order
  · intro w hw
    by_cases hwt : w = t
    · subst hwt; simp only [upd_same] at hw; rcases hw with h | h <;> simp [h, inCs] at hcs
    · simp only [upd, hwt, if_false] at hw; exact hi.busy w hw
  · intro w hw
    by_cases hwt : w = t
    · subst hwt; simp only [upd_same] at hw; simp [hw, inCs] at hcs
    · simp only [upd, hwt, if_false] at hw; exact hi.fin w hw
  · exact hi.rbuf
  · exact hi.groups
  · intro w hw
    have hw' : s.nw ≤ w := hw
    have hwt : w ≠ t := by omega
    simp only [upd, hwt, if_false]; exact hi.outside w hw'

theorem holder_none_of_unlocked {s : St} (hi : PInv s) (h : s.lock = 0) : s.holder = none := by
  cases hh : s.holder with
  | none => rfl
  | some w =>
    have := hi.lockHolder.mpr (by simp [hh])
    omega

/-- the test_and_set succeeds -/
theorem pinv_acquire {s : St} (hi : PInv s) (t : Nat) (ht : t < s.nw) (hpc : s.wpc t = .acq) (hl : s.lock = 0) :
    PInv { s with lock := 1, wpc := upd s.wpc t .fence, holder := some t,
                  unsent := msgBytes ((s.todo t).headD 0) } := by
  have hn := holder_none_of_unlocked hi hl
  have hne := hi.busy t (Or.inl hpc)
  obtain ⟨m, rest, hm⟩ : ∃ m rest, s.todo t = m :: rest := by
    cases h : s.todo t with
    | nil => exact absurd h hne
    | cons m rest => exact ⟨m, rest, rfl⟩
  have hu := hi.idle hn
  constructor
  · exact Or.inr rfl
  · simp
  · intro w
    by_cases hw : w = t
    · subst hw; simp [inCs]
    · simp only [upd, hw, if_false]
      have := hi.cs w
      rw [hn] at this
      constructor
      · intro h; exact absurd (this.mp h) (by simp)
      · intro h; injection h with h; exact absurd h.symm hw
  · intro w hw
    have hwt : w = t := by injection hw with hw; exact hw.symm
    subst hwt
    refine ⟨m, rest, hm, ?_, ?_, ?_⟩
    · intro _; simp [hm]
    · intro rem h; simp only [upd_same] at h; rcases h with h | h <;> cases h
    · intro h; simp only [upd_same] at h; cases h
  · intro h; cases h
  · have := hi.stream
    simp only [cur, hn, hu, List.append_nil] at this
    show s.delivered.flatten ++ (s.buf ++ s.fifo ++ msgBytes ((s.todo t).headD 0)) =
      ((s.doneLog.map Prod.snd) ++ [(s.todo t).headD 0]).flatMap msgBytes
    rw [List.flatMap_append, ← this]
    simp [List.append_assoc]
  · exact hi.order
  · intro w hw
    by_cases hwt : w = t
    · subst hwt; simp only [upd_same] at hw; rcases hw with h | h <;> cases h
    · simp only [upd, hwt, if_false] at hw; exact hi.busy w hw
  · intro w hw
    by_cases hwt : w = t
    · subst hwt; simp only [upd_same] at hw; cases hw
    · simp only [upd, hwt, if_false] at hw; exact hi.fin w hw
  · exact hi.rbuf
  · exact hi.groups
  · intro w hw
    have hw' : s.nw ≤ w := hw
    have hwt : w ≠ t := by omega
    simp only [upd, hwt, if_false]; exact hi.outside w hw'

theorem proj_append (l : List (Nat × Nat)) (t m w : Nat) :
    proj (l ++ [(t, m)]) w = if t = w then proj l w ++ [m] else proj l w := by
  unfold proj
  by_cases h : t = w
  · simp [h, List.filter_append]
  · have : (t == w) = false := by simp [h]
    simp [h, List.filter_append, this]

/-- the holder clears the lock: its pointer is committed -/
theorem pinv_unlock {s : St} (hi : PInv s) (t : Nat) (ht : t < s.nw) (hpc : s.wpc t = .unl) :
    PInv { s with lock := 0, holder := none, doneLog := s.doneLog ++ [(t, (s.todo t).headD 0)],
                  todo := upd s.todo t (s.todo t).tail,
                  wpc := upd s.wpc t (if (s.todo t).tail.isEmpty then .done else .acq) } := by
  have hh : s.holder = some t := (hi.cs t).mp (by simp [hpc, inCs])
  obtain ⟨m, rest, hm, _, _, hu⟩ := hi.link t hh
  have hu := hu hpc
  constructor
  · exact Or.inl rfl
  · simp
  · intro w
    by_cases hw : w = t
    · subst hw
      simp only [upd_same]
      constructor
      · intro h; split at h <;> simp [inCs] at h
      · intro h; cases h
    · simp only [upd, hw, if_false]
      have := hi.cs w
      rw [hh] at this
      constructor
      · intro h; have := this.mp h; injection this with this; exact absurd this.symm hw
      · intro h; cases h
  · intro w hw; cases hw
  · intro _; exact hu
  · have := hi.stream
    simp only [cur, hh] at this
    show s.delivered.flatten ++ (s.buf ++ s.fifo ++ s.unsent) =
      (((s.doneLog ++ [(t, (s.todo t).headD 0)]).map Prod.snd) ++ []).flatMap msgBytes
    rw [this]
    simp
  · intro w
    show proj (s.doneLog ++ [(t, (s.todo t).headD 0)]) w ++ upd s.todo t (s.todo t).tail w = s.progs w
    rw [proj_append]
    by_cases hw : t = w
    · subst hw
      have := hi.order t
      simp only [if_true, upd_same, hm, List.headD_cons, List.tail_cons] at this ⊢
      rw [← this]; simp
    · have hw' : w ≠ t := fun e => hw e.symm
      simp only [hw, if_false, upd, hw']
      exact hi.order w
  · intro w hw
    by_cases hwt : w = t
    · subst hwt
      simp only [upd_same] at hw ⊢
      split at hw
      · rcases hw with h | h <;> cases h
      · rename_i hne; intro e; rw [e] at hne; simp at hne
    · simp only [upd, hwt, if_false] at hw ⊢; exact hi.busy w hw
  · intro w hw
    by_cases hwt : w = t
    · subst hwt
      simp only [upd_same] at hw ⊢
      split at hw
      · rename_i he; simpa using he
      · cases hw
    · simp only [upd, hwt, if_false] at hw ⊢; exact hi.fin w hw
  · exact hi.rbuf
  · exact hi.groups
  · intro w hw
    have hw' : s.nw ≤ w := hw
    have hwt : w ≠ t := by omega
    simp only [upd, hwt, if_false]; exact hi.outside w hw'

/-- a step of the reader -/
theorem pinv_reader {s : St} (hi : PInv s) (buf' fifo' : List Nat) (del' : List (List Nat)) (rpc' : RPc) (ri' : Nat)
    (hstream : del'.flatten ++ (buf' ++ fifo') = s.delivered.flatten ++ (s.buf ++ s.fifo))
    (hr : (∀ off, (rpc' = .rd off ∨ rpc' = .slp off) → buf'.length = off ∧ off < 8) ∧
          (rpc' = .fence → buf'.length = 8) ∧ ((rpc' = .yld ∨ rpc' = .done) → buf' = []))
    (hg : ∀ g ∈ del', g.length = 8) :
    PInv { s with buf := buf', fifo := fifo', delivered := del', rpc := rpc', ri := ri' } := by
  constructor
  · exact hi.lock01
  · exact hi.lockHolder
  · exact hi.cs
  · exact hi.link
  · exact hi.idle
  · have := hi.stream
    show del'.flatten ++ (buf' ++ fifo' ++ s.unsent) = ((s.doneLog.map Prod.snd) ++ cur s).flatMap msgBytes
    rw [← List.append_assoc, hstream, List.append_assoc]
    simpa [List.append_assoc] using this
  · exact hi.order
  · exact hi.busy
  · exact hi.fin
  · exact hr
  · exact hg
  · exact hi.outside

/-! ## every step of every thread -/

theorem writerStep_inv {s s' : St} {ev : List String} (hi : PInv s) (t : Nat) (ht : t < s.nw)
    (h : writerStep s t = some (s', ev)) : PInv s' := by
  unfold writerStep at h
  split at h
  · cases h
  · -- acq
    rename_i hpc
    split at h
    · rename_i hl
      injection h with h; injection h with h _; subst h
      exact pinv_acquire hi t ht hpc hl
    · injection h with h; injection h with h _; subst h
      exact pinv_spin hi t ht .yld (Or.inl hpc) (Or.inr rfl)
  · rename_i hpc
    injection h with h; injection h with h _; subst h
    exact pinv_spin hi t ht .acq (Or.inr hpc) (Or.inl rfl)
  · -- fence
    rename_i hpc
    injection h with h; injection h with h _; subst h
    have hh : s.holder = some t := (hi.cs t).mp (by simp [hpc, inCs])
    obtain ⟨m, rest, hm, hf, _, _⟩ := hi.link t hh
    have hu := hf hpc
    refine pinv_holder_step hi t ht hh (.wr 8) rfl s.fifo s.unsent s.wi rfl ?_
    intro m' rest' hm'
    rw [hm] at hm'; injection hm' with e1 e2; subst e1
    refine ⟨?_, ?_, ?_⟩
    · intro h; cases h
    · intro rem hr
      rcases hr with hr | hr
      · injection hr with hr; subst hr; simp [hu]
      · cases hr
    · intro h; cases h
  · -- wr rem
    rename_i rem hpc
    have hh : s.holder = some t := (hi.cs t).mp (by simp [hpc, inCs])
    obtain ⟨m, rest, hm, _, hw, _⟩ := hi.link t hh
    obtain ⟨hu, hr0, hr8⟩ := hw rem (Or.inl hpc)
    simp only [] at h
    split at h
    · injection h with h; injection h with h _; subst h
      refine pinv_holder_step hi t ht hh (.slp rem) rfl s.fifo s.unsent s.wi rfl ?_
      intro m' rest' hm'
      rw [hm] at hm'; injection hm' with e1 e2; subst e1
      refine ⟨?_, ?_, ?_⟩
      · intro h; cases h
      · intro rem' hr
        rcases hr with hr | hr
        · cases hr
        · injection hr with hr; subst hr; exact ⟨hu, hr0, hr8⟩
      · intro h; cases h
    · injection h with h; injection h with h _; subst h
      have hn := xfer_le_req rem (s.cap - s.fifo.length) (script s.wchunks s.wi)
      generalize xfer rem (s.cap - s.fifo.length) (script s.wchunks s.wi) = n at hn ⊢
      have hbytes : ((msgBytes ((s.todo t).headD 0)).drop (8 - rem)).take n = s.unsent.take n := by
        rw [hm, hu]; rfl
      have hlen : s.unsent.length = rem := by rw [hu]; simp [msgBytes_length]; omega
      refine pinv_holder_step hi t ht hh _ ?_ _ (s.unsent.drop n) (s.wi + 1) ?_ ?_
      · split <;> rfl
      · rw [hbytes, List.append_assoc, List.take_append_drop]
      · intro m' rest' hm'
        rw [hm] at hm'; injection hm' with e1 e2; subst e1
        refine ⟨?_, ?_, ?_⟩
        · intro h; split at h <;> cases h
        · intro rem' hr
          split at hr
          · rcases hr with hr | hr <;> cases hr
          · rename_i hne
            rcases hr with hr | hr
            · injection hr with hr; subst hr
              refine ⟨?_, by omega, by omega⟩
              rw [hu, List.drop_drop]
              congr 1; omega
            · cases hr
        · intro h
          split at h
          · rename_i he
            apply List.drop_eq_nil_of_le; omega
          · cases h
  · -- slp rem
    rename_i rem hpc
    injection h with h; injection h with h _; subst h
    have hh : s.holder = some t := (hi.cs t).mp (by simp [hpc, inCs])
    obtain ⟨m, rest, hm, _, hw, _⟩ := hi.link t hh
    obtain ⟨hu, hr0, hr8⟩ := hw rem (Or.inr hpc)
    refine pinv_holder_step hi t ht hh (.wr rem) rfl s.fifo s.unsent s.wi rfl ?_
    intro m' rest' hm'
    rw [hm] at hm'; injection hm' with e1 e2; subst e1
    refine ⟨?_, ?_, ?_⟩
    · intro h; cases h
    · intro rem' hr
      rcases hr with hr | hr
      · injection hr with hr; subst hr; exact ⟨hu, hr0, hr8⟩
      · cases hr
    · intro h; cases h
  · -- unl
    rename_i hpc
    injection h with h; injection h with h _; subst h
    exact pinv_unlock hi t ht hpc

theorem readerStep_inv {s s' : St} {ev : List String} (hi : PInv s) (t : Nat)
    (h : readerStep s t = some (s', ev)) : PInv s' := by
  obtain ⟨hrd, hfe, hyd⟩ := hi.rbuf
  unfold readerStep at h
  split at h
  · cases h
  · -- rd off
    rename_i off hpc
    obtain ⟨hbl, ho8⟩ := hrd off (Or.inl hpc)
    split at h
    · split at h
      · rename_i h0
        injection h with h; injection h with h _; subst h
        refine pinv_reader hi s.buf s.fifo s.delivered .yld s.ri rfl ⟨?_, ?_, ?_⟩ hi.groups
        · intro o ho; rcases ho with ho | ho <;> cases ho
        · intro ho; cases ho
        · intro _; exact List.length_eq_zero_iff.mp (by omega)
      · injection h with h; injection h with h _; subst h
        refine pinv_reader hi s.buf s.fifo s.delivered (.slp off) s.ri rfl ⟨?_, ?_, ?_⟩ hi.groups
        · intro o ho
          rcases ho with ho | ho
          · cases ho
          · injection ho with ho; subst ho; exact ⟨hbl, ho8⟩
        · intro ho; cases ho
        · intro ho; rcases ho with ho | ho <;> cases ho
    · simp only [] at h
      injection h with h; injection h with h _; subst h
      have hn1 := xfer_le_req (8 - off) s.fifo.length (script s.rchunks s.ri)
      have hn2 := xfer_le_avail (8 - off) s.fifo.length (script s.rchunks s.ri)
      generalize xfer (8 - off) s.fifo.length (script s.rchunks s.ri) = n at hn1 hn2 ⊢
      have hlen : (s.buf ++ s.fifo.take n).length = off + n := by
        simp [List.length_take]; omega
      refine pinv_reader hi _ _ s.delivered _ (s.ri + 1) ?_ ⟨?_, ?_, ?_⟩ hi.groups
      · rw [List.append_assoc, List.take_append_drop]
      · intro o ho
        split at ho
        · rcases ho with ho | ho <;> cases ho
        · rcases ho with ho | ho
          · injection ho with ho; subst ho; exact ⟨hlen, by omega⟩
          · cases ho
      · intro ho
        split at ho
        · rename_i he; rw [hlen]; exact he
        · cases ho
      · intro ho
        split at ho <;> (rcases ho with ho | ho <;> cases ho)
  · -- slp off
    rename_i off hpc
    obtain ⟨hbl, ho8⟩ := hrd off (Or.inr hpc)
    injection h with h; injection h with h _; subst h
    refine pinv_reader hi s.buf s.fifo s.delivered (.rd off) s.ri rfl ⟨?_, ?_, ?_⟩ hi.groups
    · intro o ho
      rcases ho with ho | ho
      · injection ho with ho; subst ho; exact ⟨hbl, ho8⟩
      · cases ho
    · intro ho; cases ho
    · intro ho; rcases ho with ho | ho <;> cases ho
  · -- yld
    rename_i hpc
    have hb := hyd (Or.inl hpc)
    injection h with h; injection h with h _; subst h
    refine pinv_reader hi s.buf s.fifo s.delivered (.rd 0) s.ri rfl ⟨?_, ?_, ?_⟩ hi.groups
    · intro o ho
      rcases ho with ho | ho
      · injection ho with ho; subst ho; simp [hb]
      · cases ho
    · intro ho; cases ho
    · intro ho; rcases ho with ho | ho <;> cases ho
  · -- fence
    rename_i hpc
    have hb := hfe hpc
    simp only [] at h
    injection h with h; injection h with h _; subst h
    refine pinv_reader hi [] s.fifo (s.delivered ++ [s.buf]) _ s.ri ?_ ⟨?_, ?_, ?_⟩ ?_
    · simp [List.append_assoc]
    · intro o ho
      split at ho
      · rcases ho with ho | ho <;> cases ho
      · rcases ho with ho | ho
        · injection ho with ho; subst ho; simp
        · cases ho
    · intro ho; split at ho <;> cases ho
    · intro _; rfl
    · intro g hg
      simp only [List.mem_append, List.mem_singleton] at hg
      rcases hg with hg | hg
      · exact hi.groups g hg
      · subst hg; exact hb

theorem step_inv {s s' : St} {ev : List String} (hi : PInv s) (tok : Tok)
    (h : step s tok = some (s', ev)) : PInv s' := by
  unfold step at h
  split at h
  · rename_i ht; exact writerStep_inv hi _ ht h
  · split at h
    · exact readerStep_inv hi _ h
    · cases h

/-! ## initial state, reachable states, the stream argument -/

theorem init_pinv (c : Conf) : PInv (mkInit c) := by
  constructor
  · exact Or.inl rfl
  · simp [mkInit]
  · intro w
    simp only [mkInit]
    split <;> simp [inCs]
  · intro w hw; simp [mkInit] at hw
  · intro _; rfl
  · simp [mkInit, cur]
  · intro w; simp [mkInit, proj]
  · intro w hw
    simp only [mkInit] at hw ⊢
    split at hw
    · rename_i h; intro e; simp only [List.getD_eq_getElem?_getD] at e; simp [e] at h
    · rcases hw with hw | hw <;> cases hw
  · intro w hw
    simp only [mkInit] at hw ⊢
    split at hw
    · cases hw
    · rename_i h
      by_cases hlt : w < c.progs.length
      · simp only [hlt, true_and, Decidable.not_not] at h
        simpa using h
      · have : c.progs[w]? = none := List.getElem?_eq_none (Nat.le_of_not_lt hlt)
        simp [this]
  · refine ⟨?_, ?_, ?_⟩
    · intro off ho
      simp only [mkInit] at ho ⊢
      split at ho
      · rcases ho with ho | ho <;> cases ho
      · rcases ho with ho | ho
        · injection ho with ho; subst ho; simp
        · cases ho
    · intro ho; simp only [mkInit] at ho; split at ho <;> cases ho
    · intro _; rfl
  · intro g hg; simp [mkInit] at hg
  · intro w hw
    simp only [mkInit] at hw ⊢
    have : ¬ w < c.progs.length := by omega
    simp [this]

/-- two lists of 8-byte groups whose concatenations agree up to a tail: the shorter list of
groups is a prefix of the other -/
theorem aligned : ∀ (A B : List (List Nat)) (r : List Nat),
    (∀ a ∈ A, a.length = 8) → (∀ b ∈ B, b.length = 8) → A.flatten ++ r = B.flatten →
    A = B.take A.length := by
  intro A
  induction A with
  | nil => intro B r _ _ _; simp
  | cons a A ih =>
    intro B r hA hB h
    have ha : a.length = 8 := hA a (by simp)
    cases B with
    | nil =>
      simp at h
      have := h.1
      rw [this] at ha; simp at ha
    | cons b B =>
      have hb : b.length = 8 := hB b (by simp)
      simp only [List.flatten_cons, List.append_assoc] at h
      have := List.append_inj h (by rw [ha, hb])
      obtain ⟨e1, e2⟩ := this
      subst e1
      have := ih B r (fun x hx => hA x (by simp [hx])) (fun x hx => hB x (by simp [hx])) e2
      simp only [List.length_cons, List.take_succ_cons]
      rw [← this]

theorem reach_pinv (c : Conf) : ∀ s, Reach step (mkInit c) s → PInv s :=
  Reach.inv PInv (init_pinv c) (fun _ tok _ _ hi h => step_inv hi tok h)

/-- the committed pointers (lock order), followed by the pointer whose write is in progress -/
def committed (s : St) : List Nat := s.doneLog.map Prod.snd ++ cur s

theorem delivered_prefix {s : St} (hi : PInv s) :
    s.delivered = ((committed s).map msgBytes).take s.delivered.length := by
  have h := hi.stream
  have : ((committed s).flatMap msgBytes) = ((committed s).map msgBytes).flatten := by
    rw [List.flatMap_def]
  unfold committed at this
  rw [this] at h
  exact aligned s.delivered ((s.doneLog.map Prod.snd ++ cur s).map msgBytes) _ hi.groups (by
    intro b hb
    simp only [List.mem_map] at hb
    obtain ⟨m, _, rfl⟩ := hb
    exact msgBytes_length m) h

theorem holder_none_of_done {s : St} (hi : PInv s) (hd : ∀ w, w < s.nw → s.wpc w = .done) : s.holder = none := by
  cases hh : s.holder with
  | none => rfl
  | some w =>
    have h1 := (hi.cs w).mpr hh
    have h2 : s.wpc w = .done := by
      by_cases hw : w < s.nw
      · exact hd w hw
      · exact hi.outside w (Nat.le_of_not_lt hw)
    rw [h2] at h1; simp [inCs] at h1

theorem delivered_complete {s : St} (hi : PInv s) (hd : ∀ w, w < s.nw → s.wpc w = .done)
    (hf : s.fifo = []) (hb : s.buf = []) :
    s.delivered = (s.doneLog.map Prod.snd).map msgBytes := by
  have hn := holder_none_of_done hi hd
  have hu := hi.idle hn
  have h := hi.stream
  simp only [hf, hb, hu, cur, hn, List.append_nil] at h
  rw [List.flatMap_def] at h
  have := aligned s.delivered ((s.doneLog.map Prod.snd).map msgBytes) [] hi.groups (by
    intro b hb
    simp only [List.mem_map] at hb
    obtain ⟨m, _, rfl⟩ := hb
    exact msgBytes_length m) (by simpa using h)
  have hlen : s.delivered.length = ((s.doneLog.map Prod.snd).map msgBytes).length := by
    have h1 : s.delivered.flatten.length = 8 * s.delivered.length := by
      rw [List.length_flatten]
      have : s.delivered.map List.length = List.replicate s.delivered.length 8 := by
        apply List.eq_replicate_iff.mpr
        refine ⟨by simp, ?_⟩
        intro x hx
        simp only [List.mem_map] at hx
        obtain ⟨g, hg, rfl⟩ := hx
        exact hi.groups g hg
      rw [this]; simp [Nat.mul_comm]
    have h2 : (((s.doneLog.map Prod.snd).map msgBytes).flatten).length = 8 * ((s.doneLog.map Prod.snd).map msgBytes).length := by
      rw [List.length_flatten]
      have : ((s.doneLog.map Prod.snd).map msgBytes).map List.length = List.replicate ((s.doneLog.map Prod.snd).map msgBytes).length 8 := by
        apply List.eq_replicate_iff.mpr
        refine ⟨by simp, ?_⟩
        intro x hx
        simp only [List.mem_map] at hx
        obtain ⟨g, ⟨m, _, rfl⟩, rfl⟩ := hx
        exact msgBytes_length m
      rw [this]; simp [Nat.mul_comm]
    rw [h] at h1
    omega
  rw [this, hlen, List.take_length]

theorem step_const {s s' : St} {ev : List String} {tok : Tok} (h : step s tok = some (s', ev)) :
    s'.progs = s.progs ∧ s'.nw = s.nw := by
  unfold step at h
  split at h
  · unfold writerStep at h
    simp only [] at h
    split at h <;> (try split at h) <;> (try cases h) <;> (try exact ⟨rfl, rfl⟩)
    all_goals (injection h with h; injection h with h _; subst h; exact ⟨rfl, rfl⟩)
  · split at h
    · unfold readerStep at h
      simp only [] at h
      split at h <;> (try split at h) <;> (try split at h) <;> (try cases h) <;> (try exact ⟨rfl, rfl⟩)
      all_goals (injection h with h; injection h with h _; subst h; exact ⟨rfl, rfl⟩)
    · cases h

theorem reach_const (c : Conf) : ∀ s, Reach step (mkInit c) s → s.progs = (mkInit c).progs ∧ s.nw = (mkInit c).nw :=
  Reach.inv (fun s => s.progs = (mkInit c).progs ∧ s.nw = (mkInit c).nw) ⟨rfl, rfl⟩
    (fun _ _ _ _ hi h => ⟨(step_const h).1.trans hi.1, (step_const h).2.trans hi.2⟩)

end MgProof.C15.Pipe
