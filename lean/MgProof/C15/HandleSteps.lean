import MgProof.C15.HandleInv
/-!
# C15 — every act of a history preserves the ownership invariant and cannot fail
-/
namespace MgProof.C15
open MgModel.C15 MgModel.Conc

theorem good_congr {x : Ctx} {r q r' q' : Bool} (h : Good x r q) (hr : r' = r) (hq : q' = q) : Good x r' q' := by
  subst hr; subst hq; exact h

theorem decide_mem_congr {c : Nat} {l l' : List Nat} (h : c ∈ l' ↔ c ∈ l) : decide (c ∈ l') = decide (c ∈ l) := by
  simp [h]

/-- the generic step: the record of one context `c` is replaced, `c` (only `c`) possibly
enters or leaves the registration list / the queue, the backlog possibly shrinks -/
theorem inv_update' {s : St} (hi : Inv s) (c : Nat) (y : Ctx) (R Q : List Nat) (B : List (Nat × Bool))
    (hcn : c < s.n)
    (hB : ∀ p ∈ B, p ∈ s.backlog ∧ p.1 ≠ c) (hBn : (B.map Prod.fst).Nodup)
    (hR : ∀ c', c' ≠ c → (c' ∈ R ↔ c' ∈ s.reg)) (hQ : ∀ c', c' ≠ c → (c' ∈ Q ↔ c' ∈ s.queue))
    (hRn : R.Nodup) (hQn : Q.Nodup) (hd : c ∈ R → c ∉ Q)
    (hg : Good y (decide (c ∈ R)) (decide (c ∈ Q)))
    (hex : s.exited = true → R = [] ∧ Q = []) :
    Inv { s.set c y with reg := R, queue := Q, backlog := B } := by
  constructor
  · intro c'
    by_cases h : c' = c
    · subst h; simpa using hg
    · have hg' := hi.good c'
      show Good ((s.set c y).ctx c') (decide (c' ∈ R)) (decide (c' ∈ Q))
      rw [set_ctx_ne _ _ _ _ h]
      exact good_congr hg' (decide_mem_congr (hR c' h)) (decide_mem_congr (hQ c' h))
  · exact hRn
  · exact hQn
  · intro c' h1
    by_cases h : c' = c
    · subst h; exact hd h1
    · have := hi.disj c' ((hR c' h).mp h1)
      intro h2; exact this ((hQ c' h).mp h2)
  · intro p hp
    have hb := hi.backlog p (hB p hp).1
    show ((s.set c y).ctx p.1).mem = .none ∧ _
    rw [set_ctx_ne _ _ _ _ (hB p hp).2]
    exact hb
  · exact hBn
  · intro c' hc'
    have hne : c' ≠ c := by intro e; subst e; simp at hc'; omega
    have hf := hi.fresh c' hc'
    show ((s.set c y).ctx c').mem = .none ∧ c' ∉ R ∧ c' ∉ Q
    rw [set_ctx_ne _ _ _ _ hne]
    exact ⟨hf.1, fun h => hf.2.1 ((hR c' hne).mp h), fun h => hf.2.2 ((hQ c' hne).mp h)⟩
  · exact hex
  · exact hi.fixed

theorem lt_n_of_live {s : St} (hi : Inv s) {c : Nat} (h : (s.ctx c).mem ≠ .none) : c < s.n := by
  apply Nat.lt_of_not_le
  intro h'
  exact h (hi.fresh c h').1

theorem backlog_ne_of_live {s : St} (hi : Inv s) {c : Nat} (h : (s.ctx c).mem ≠ .none) :
    ∀ p ∈ s.backlog, p ∈ s.backlog ∧ p.1 ≠ c := by
  intro p hp
  refine ⟨hp, ?_⟩
  intro e
  have := (hi.backlog p hp).1
  rw [e] at this
  exact h this

theorem inv_update {s : St} (hi : Inv s) (c : Nat) (y : Ctx) (R Q : List Nat)
    (hlive : (s.ctx c).mem = .live)
    (hR : ∀ c', c' ≠ c → (c' ∈ R ↔ c' ∈ s.reg)) (hQ : ∀ c', c' ≠ c → (c' ∈ Q ↔ c' ∈ s.queue))
    (hRn : R.Nodup) (hQn : Q.Nodup) (hd : c ∈ R → c ∉ Q)
    (hg : Good y (decide (c ∈ R)) (decide (c ∈ Q)))
    (hex : s.exited = true → R = [] ∧ Q = []) :
    Inv { s.set c y with reg := R, queue := Q } :=
  inv_update' hi c y R Q s.backlog (lt_n_of_live hi (by simp [hlive]))
    (backlog_ne_of_live hi (by simp [hlive])) hi.backlogNd hR hQ hRn hQn hd hg hex

theorem inv_set {s : St} (hi : Inv s) (c : Nat) (y : Ctx) (hlive : (s.ctx c).mem = .live)
    (hg : Good y (decide (c ∈ s.reg)) (decide (c ∈ s.queue))) : Inv (s.set c y) :=
  inv_update hi c y s.reg s.queue hlive (fun _ _ => Iff.rfl) (fun _ _ => Iff.rfl) hi.regNd hi.queueNd
    (hi.disj c) hg hi.exited

/-- registered and queued contexts are live -/
theorem live_of_reg {s : St} (hi : Inv s) {c : Nat} (h : c ∈ s.reg) : (s.ctx c).mem = .live := by
  have g := hi.good c
  cases hm : (s.ctx c).mem
  · have := (g.none_ hm).2.2.1; simp [h] at this
  · rfl
  · have := (g.freed_ hm).2.2.1; simp [h] at this

theorem live_of_queue {s : St} (hi : Inv s) {c : Nat} (h : c ∈ s.queue) : (s.ctx c).mem = .live := by
  have g := hi.good c
  cases hm : (s.ctx c).mem
  · have := (g.none_ hm).2.2.2.1; simp [h] at this
  · rfl
  · have := (g.freed_ hm).2.2.2.1; simp [h] at this

theorem live_of_held {s : St} (hi : Inv s) {c : Nat} (h : 0 < (s.ctx c).held) : (s.ctx c).mem = .live := by
  have g := hi.good c
  cases hm : (s.ctx c).mem
  · have := (g.none_ hm).2.1; omega
  · rfl
  · have := (g.freed_ hm).2.1; omega

/-! ## acts of worker threads and of the peers -/

theorem retain_inv {s : St} (hi : Inv s) {c : Nat} (hl : (s.ctx c).mem = .live) :
    ∃ s', retain s c = .ok s' ∧ Inv s' ∧ s'.exited = s.exited := by
  have g := hi.good c
  have hr := (g.live_ hl).2.1
  exact ⟨_, retain_spec s c hl hr, inv_set hi c _ hl (good_retain g hl), rfl⟩

theorem workerRelease_inv {s : St} (hi : Inv s) {c : Nat} (hh : 0 < (s.ctx c).held) :
    ∃ s', workerRelease s c = .ok s' ∧ Inv s' ∧ s'.exited = s.exited := by
  have hl := live_of_held hi hh
  exact ⟨_, workerRelease_spec s c hl, inv_set hi c _ hl (good_wrel (hi.good c) hl hh), rfl⟩

theorem userShutdown_inv {s : St} (hi : Inv s) {c : Nat} (hl : (s.ctx c).mem = .live) :
    ∃ s', userShutdown s c = .ok s' ∧ Inv s' ∧ s'.exited = s.exited :=
  ⟨_, userShutdown_spec s c hl, inv_set hi c _ hl (good_shutdown (hi.good c)), rfl⟩

/-- a kernel-side change of the record of any connection (bytes arrive, the peer closes) -/
theorem inv_set_kernel {s : St} (hi : Inv s) (c : Nat) (y : Ctx)
    (h1 : y.mem = (s.ctx c).mem) (h2 : y.fdOpen = (s.ctx c).fdOpen) (h3 : y.nFdc = (s.ctx c).nFdc)
    (h4 : y.origin = (s.ctx c).origin) (h5 : y.got = (s.ctx c).got)
    (hg : Good y (decide (c ∈ s.reg)) (decide (c ∈ s.queue))) : Inv (s.set c y) := by
  constructor
  · intro c'
    by_cases h : c' = c
    · subst h
      show Good ((s.set c' y).ctx c') (decide (c' ∈ s.reg)) (decide (c' ∈ s.queue))
      rw [set_ctx]; exact hg
    · show Good ((s.set c y).ctx c') _ _
      rw [set_ctx_ne _ _ _ _ h]; exact hi.good c'
  · exact hi.regNd
  · exact hi.queueNd
  · exact hi.disj
  · intro p hp
    have hb := hi.backlog p hp
    by_cases h : p.1 = c
    · show ((s.set c y).ctx p.1).mem = .none ∧ _
      rw [h] at hb ⊢
      simp only [set_ctx, set_n]
      rw [h1, h2, h3, h4, h5]; exact hb
    · show ((s.set c y).ctx p.1).mem = .none ∧ _
      rw [set_ctx_ne _ _ _ _ h]; exact hb
  · exact hi.backlogNd
  · intro c' hc'
    have hf := hi.fresh c' hc'
    by_cases h : c' = c
    · subst h; simp only [set_ctx, set_reg, set_queue]; rw [h1]; exact hf
    · show ((s.set c y).ctx c').mem = .none ∧ _
      rw [set_ctx_ne _ _ _ _ h]; exact hf
  · exact hi.exited
  · exact hi.fixed

theorem send_inv {s : St} (hi : Inv s) (c : Nat) (b : List Nat) : Inv (send s c b) := by
  unfold send
  simp only []
  split
  · exact inv_set_kernel hi c _ rfl rfl rfl rfl rfl (good_send (hi.good c) b)
  · exact hi

theorem peerClose_inv {s : St} (hi : Inv s) (c : Nat) : Inv (peerClose s c) :=
  inv_set_kernel hi c _ rfl rfl rfl rfl rfl (good_eof (hi.good c))

/-! ## new identities -/

theorem connect_ctx_ne (s : St) (ok : Bool) {c : Nat} (h : c ≠ s.n) : (connect s ok).ctx c = s.ctx c := by
  simp [connect, St.set, upd, h]
theorem handOver_ctx_ne (s : St) {c : Nat} (h : c ≠ s.n) : (handOver s).ctx c = s.ctx c := by
  simp [handOver, St.set, upd, h]

theorem connect_inv {s : St} (hi : Inv s) (ok : Bool) : Inv (connect s ok) := by
  have hf := hi.fresh s.n (Nat.le_refl _)
  constructor
  · intro c'
    by_cases h : c' = s.n
    · subst h
      show Good ((s.set s.n _).ctx s.n) (decide (s.n ∈ s.reg)) (decide (s.n ∈ s.queue))
      rw [set_ctx]
      have h1 : decide (s.n ∈ s.reg) = false := by simp [hf.2.1]
      have h2 : decide (s.n ∈ s.queue) = false := by simp [hf.2.2]
      rw [h1, h2]
      constructor <;> simp
    · show Good ((s.set s.n _).ctx c') _ _
      rw [set_ctx_ne _ _ _ _ h]; exact hi.good c'
  · exact hi.regNd
  · exact hi.queueNd
  · exact hi.disj
  · intro p hp
    simp only [connect, List.mem_append, List.mem_singleton] at hp
    rcases hp with hp | hp
    · have hb := hi.backlog p hp
      have hne : p.1 ≠ s.n := by omega
      rw [connect_ctx_ne s ok hne]
      refine ⟨hb.1, hb.2.1, hb.2.2.1, hb.2.2.2.1, hb.2.2.2.2.1, ?_⟩
      show p.1 < s.n + 1
      omega
    · subst hp
      show ((s.set s.n _).ctx s.n).mem = .none ∧ _
      rw [set_ctx]
      simp [connect]
  · show ((s.backlog ++ [(s.n, ok)]).map Prod.fst).Nodup
    rw [List.map_append, List.nodup_append]
    refine ⟨hi.backlogNd, by simp, ?_⟩
    intro a ha b hb
    simp at hb
    subst hb
    simp only [List.mem_map] at ha
    obtain ⟨p, hp, rfl⟩ := ha
    have := (hi.backlog p hp).2.2.2.2.2
    omega
  · intro c' hc'
    have hc2 : s.n + 1 ≤ c' := hc'
    have hne : c' ≠ s.n := by omega
    show ((s.set s.n _).ctx c').mem = .none ∧ _
    rw [set_ctx_ne _ _ _ _ hne]
    exact hi.fresh c' (by omega)
  · exact hi.exited
  · exact hi.fixed

theorem handOver_inv {s : St} (hi : Inv s) (hex : s.exited = false) : Inv (handOver s) := by
  have hf := hi.fresh s.n (Nat.le_refl _)
  constructor
  · intro c'
    by_cases h : c' = s.n
    · subst h
      show Good ((s.set s.n _).ctx s.n) (decide (s.n ∈ s.reg)) (decide (s.n ∈ s.queue ++ [s.n]))
      rw [set_ctx]
      have h1 : decide (s.n ∈ s.reg) = false := by simp [hf.2.1]
      have h2 : decide (s.n ∈ s.queue ++ [s.n]) = true := by simp
      rw [h1, h2]
      constructor <;> simp [b2n]
    · show Good ((s.set s.n _).ctx c') (decide (c' ∈ s.reg)) (decide (c' ∈ s.queue ++ [s.n]))
      rw [set_ctx_ne _ _ _ _ h]
      have : decide (c' ∈ s.queue ++ [s.n]) = decide (c' ∈ s.queue) := by simp [h]
      rw [this]; exact hi.good c'
  · exact hi.regNd
  · show (s.queue ++ [s.n]).Nodup
    rw [List.nodup_append]
    refine ⟨hi.queueNd, by simp, ?_⟩
    intro a ha b hb
    simp at hb; subst hb
    intro e; subst e; exact hf.2.2 ha
  · intro c' h1
    show c' ∉ s.queue ++ [s.n]
    intro h2
    simp only [List.mem_append, List.mem_singleton] at h2
    rcases h2 with h2 | h2
    · exact hi.disj c' h1 h2
    · subst h2; exact hf.2.1 h1
  · intro p hp
    have hb := hi.backlog p hp
    have hne : p.1 ≠ s.n := by omega
    rw [handOver_ctx_ne s hne]
    refine ⟨hb.1, hb.2.1, hb.2.2.1, hb.2.2.2.1, hb.2.2.2.2.1, ?_⟩
    show p.1 < s.n + 1
    omega
  · exact hi.backlogNd
  · intro c' hc'
    have hc2 : s.n + 1 ≤ c' := hc'
    have hne : c' ≠ s.n := by omega
    have hf' := hi.fresh c' (by omega)
    show ((s.set s.n _).ctx c').mem = .none ∧ c' ∉ s.reg ∧ c' ∉ s.queue ++ [s.n]
    rw [set_ctx_ne _ _ _ _ hne]
    refine ⟨hf'.1, hf'.2.1, ?_⟩
    simp [hf'.2.2, hne]
  · intro h
    have : s.exited = true := h
    rw [hex] at this; cases this
  · exact hi.fixed

/-! ## the loop: hand-over queue -/

/-- the poll back-end has no free slot -/
def full (s : St) : Bool :=
  match s.cap with
  | some k => decide (s.reg.length ≥ k)
  | none => false

theorem evloopAddCtx_spec (s : St) (c : Nat) (hl : (s.ctx c).mem = .live) (hfd : (s.ctx c).fdOpen = true) :
    evloopAddCtx s c = .ok (if full s then (s, false) else ({ s with reg := s.reg ++ [c] }, true)) := by
  unfold evloopAddCtx full
  simp only [live_ok hl, bind, Except.bind, hfd]
  cases s.cap with
  | none => simp [pure, Except.pure]
  | some k => by_cases h : s.reg.length ≥ k <;> simp [h, pure, Except.pure]

theorem cbAddCtx_spec (s : St) (c : Nat) (hl : (s.ctx c).mem = .live) :
    cbAddCtx s c = .ok (s.set c { s.ctx c with nAdd := (s.ctx c).nAdd + 1, oAdd := (s.ctx c).ref }) := by
  simp [cbAddCtx, live_ok hl, bind, Except.bind, pure, Except.pure]


/-- `wakeOne` after the dequeue -/
def wakeBody (s0 : St) (c : Nat) : Except Err St := do
  let (s, ok) ← evloopAddCtx s0 c
  if s.fixed then
    if ok then cbAddCtx s c else releaseCtx s c
  else cbAddCtx s c

theorem wakeOne_eq (s : St) : wakeOne s =
    match s.queue with
    | [] => .ok s
    | c :: rest => wakeBody { s with queue := rest } c := by
  unfold wakeOne wakeBody
  cases s.queue <;> rfl

theorem wakeBody_spec (s0 : St) (c : Nat) (hl : (s0.ctx c).mem = .live) (hfd : (s0.ctx c).fdOpen = true)
    (hfix : s0.fixed = true) :
    wakeBody s0 c = if full s0 then .ok (s0.set c (relRec (s0.ctx c)))
      else .ok (({ s0 with reg := s0.reg ++ [c] } : St).set c { s0.ctx c with nAdd := (s0.ctx c).nAdd + 1, oAdd := (s0.ctx c).ref }) := by
  unfold wakeBody
  rw [evloopAddCtx_spec s0 c hl hfd]
  by_cases hf : full s0
  · simp only [hf, if_true, bind, Except.bind, hfix]
    simp [releaseCtx_spec s0 c hl]
  · have hl1 : ((({ s0 with reg := s0.reg ++ [c] } : St)).ctx c).mem = .live := hl
    simp only [hf, bind, Except.bind]
    simp only [hfix, if_true]
    exact cbAddCtx_spec _ c hl

theorem wakeOne_inv {s : St} (hi : Inv s) (hex : s.exited = false) :
    ∃ s', wakeOne s = .ok s' ∧ Inv s' ∧ s'.exited = s.exited ∧ s'.queue = s.queue.tail := by
  rw [wakeOne_eq]
  cases hq : s.queue with
  | nil => exact ⟨s, rfl, hi, rfl, by simp [hq]⟩
  | cons c rest =>
    have hcq : c ∈ s.queue := by simp [hq]
    have hl := live_of_queue hi hcq
    have g := hi.good c
    have hfd := (g.live_ hl).2.2.1
    have hcr : c ∉ s.reg := fun h => hi.disj c h hcq
    have hnd : (c :: rest).Nodup := hq ▸ hi.queueNd
    have hcrest : c ∉ rest := (List.nodup_cons.mp hnd).1
    have hQ : ∀ c', c' ≠ c → (c' ∈ rest ↔ c' ∈ s.queue) := by intro c' h; rw [hq]; simp [h]
    have hex' : s.exited = true → False := by intro h; rw [hex] at h; cases h
    have g' : Good (s.ctx c) false true := good_congr g (by simp [hcr]) (by simp [hcq])
    simp only []
    rw [wakeBody_spec { s with queue := rest } c hl hfd hi.fixed]
    by_cases hf : full { s with queue := rest }
    · rw [if_pos hf]
      refine ⟨_, rfl, ?_, rfl, rfl⟩
      exact inv_update hi c (relRec (s.ctx c)) s.reg rest hl (fun _ _ => Iff.rfl) hQ hi.regNd
        (List.nodup_cons.mp hnd).2 (fun h => absurd h hcr)
        (good_congr (good_release g' hl (Or.inr ⟨rfl, rfl⟩) (not_closing_of_not_reg g')) (by simp [hcr]) (by simp [hcrest]))
        (fun h => (hex' h).elim)
    · rw [if_neg hf]
      refine ⟨_, rfl, ?_, rfl, rfl⟩
      have hRn : (s.reg ++ [c]).Nodup := by
        rw [List.nodup_append]
        refine ⟨hi.regNd, by simp, ?_⟩
        intro a ha b hb
        simp at hb; subst hb
        intro e; subst e; exact hcr ha
      exact inv_update hi c { s.ctx c with nAdd := (s.ctx c).nAdd + 1, oAdd := (s.ctx c).ref } (s.reg ++ [c]) rest hl
        (fun c' h => by simp [h]) hQ hRn (List.nodup_cons.mp hnd).2 (fun _ => hcrest)
        (good_congr (good_add g' hl) (by simp) (by simp [hcrest]))
        (fun h => (hex' h).elim)

end MgProof.C15
