import MgProof.C15.HandleLemmas
/-!
# C15 — the ownership invariant of the socket-handle model and its preservation

`Good x r q` is what must hold of the record `x` of one context, given whether the
context is registered in the loop (`r`) and whether it sits in the hand-over queue (`q`).
`Inv s` = every context is `Good` + the lists are duplicate-free and disjoint + the
backlog holds only connections without a context.
-/
namespace MgProof.C15
open MgModel.C15 MgModel.Conc

def b2n (b : Bool) : Nat := if b then 1 else 0

structure Good (x : Ctx) (r q : Bool) : Prop where
  /-- never allocated: nothing happened to it, nobody refers to it -/
  none_ : x.mem = .none → x.ref = 0 ∧ x.held = 0 ∧ r = false ∧ q = false ∧ x.nConn = 0 ∧ x.nAdd = 0 ∧
            x.nCls = 0 ∧ x.nRel = 0 ∧ x.nFree = 0 ∧ x.nFdc ≤ 1 ∧ (x.fdOpen = true → x.nFdc = 0) ∧ x.regFailed = false
  /-- live: the count is exactly the number of owners (loop registration, queue slot, worker
  retains), there is at least one, nothing was closed, released or freed yet -/
  live_ : x.mem = .live → x.ref = b2n r + b2n q + x.held ∧ 1 ≤ x.ref ∧ x.fdOpen = true ∧ x.nFdc = 0 ∧
            x.nFree = 0 ∧ x.nRel = 0 ∧ x.regFailed = false
  /-- freed: the count is zero (or the untouched initial 1 when the context was freed on the
  accept-time registration-failure path, before anybody could see it), no owner is left, closed / freed exactly once, released exactly
  once (never, if it was never announced: accept-time registration failure) -/
  freed_ : x.mem = .freed → x.ref = (if x.regFailed then 1 else 0) ∧ x.held = 0 ∧ r = false ∧ q = false ∧ x.fdOpen = false ∧ x.nFdc = 1 ∧
            x.nFree = 1 ∧ x.nRel = (if x.regFailed then 0 else 1)
  once : x.nConn ≤ 1 ∧ x.nAdd ≤ 1 ∧ x.nCls ≤ 1
  clsReg : x.nCls = 1 → (r = false ∨ x.closing = true) ∧ q = false
  /-- while the loop is inside `cb_close` the context is still registered, i.e. the loop's own
  reference is still counted -/
  cl : x.closing = true → r = true ∧ x.mem = .live ∧ x.nCls = 1
  /-- the reference count the user callbacks saw -/
  obs : (x.nCls = 1 → 1 ≤ x.oCls) ∧ (x.nConn = 1 → x.oConn = 1) ∧ (x.nAdd = 1 → 1 ≤ x.oAdd) ∧
          (x.nRel = 1 → x.oRel = 0)
  bytes : x.got ++ x.inq = x.sent
  rf : x.regFailed = true → x.nCls = 0 ∧ x.nConn = 0
  oAcc : x.origin = .accepted → x.nAdd = 0 ∧ q = false ∧
            (x.mem ≠ .none → x.nConn = if x.regFailed then 0 else 1) ∧ (x.mem = .none → x.nConn = 0)
  oHand : x.origin = .handed → x.nConn = 0 ∧ x.mem ≠ .none ∧ x.regFailed = false ∧ (q = true → x.nAdd = 0) ∧
            (r = true → x.nAdd = 1)
  oLis : x.origin = .listener → x.nConn = 0 ∧ x.nAdd = 0 ∧ q = false
  oNone : x.origin = .none → x.mem = .none

structure Inv (s : St) : Prop where
  good : ∀ c, Good (s.ctx c) (decide (c ∈ s.reg)) (decide (c ∈ s.queue))
  regNd : s.reg.Nodup
  queueNd : s.queue.Nodup
  disj : ∀ c, c ∈ s.reg → c ∉ s.queue
  backlog : ∀ p ∈ s.backlog, (s.ctx p.1).mem = .none ∧ (s.ctx p.1).fdOpen = true ∧ (s.ctx p.1).nFdc = 0 ∧
              (s.ctx p.1).origin = .accepted ∧ (s.ctx p.1).got = [] ∧ p.1 < s.n
  backlogNd : (s.backlog.map Prod.fst).Nodup
  fresh : ∀ c, s.n ≤ c → (s.ctx c).mem = .none ∧ c ∉ s.reg ∧ c ∉ s.queue
  exited : s.exited = true → s.reg = [] ∧ s.queue = []
  fixed : s.fixed = true

/-! ## record level -/

theorem relRec_one {x : Ctx} (h : x.ref = 1) : relRec x =
    { x with ref := 0, nRel := x.nRel + 1, oRel := 0, flagClosed := true, fdOpen := false,
             nFdc := if x.fdOpen then x.nFdc + 1 else x.nFdc, mem := .freed, nFree := x.nFree + 1 } := by
  simp [relRec, h]

theorem relRec_many {x : Ctx} (h : 2 ≤ x.ref) : relRec x = { x with ref := x.ref - 1 } := by
  have h0 : x.ref ≠ 0 := by omega
  have h1 : x.ref ≠ 1 := by omega
  simp [relRec, h0, h1]

theorem good_release {x : Ctx} {r q : Bool} (h : Good x r q) (hl : x.mem = .live)
    (hrq : (r = true ∧ q = false) ∨ (r = false ∧ q = true)) (hc : x.closing = false) :
    Good (relRec x) false false := by
  obtain ⟨h1, h2, h3, h4, h5, h5a, h5b, h6, h7, h8, h9, h10, h11⟩ := h
  have := h2 hl
  have hr : x.ref = 1 ∨ 2 ≤ x.ref := by omega
  rcases hr with hr | hr
  · rw [relRec_one hr]
    constructor <;> (simp only [b2n] at *) <;> grind
  · rw [relRec_many hr]
    constructor <;> (simp only [b2n] at *) <;> grind

theorem good_close {x : Ctx} (h : Good x true false) (hl : x.mem = .live) (hc : x.closing = false) :
    Good (relRec { x with nCls := x.nCls + 1, oCls := x.ref }) false false := by
  obtain ⟨h1, h2, h3, h4, h5, h5a, h5b, h6, h7, h8, h9, h10, h11⟩ := h
  have := h2 hl
  have hr : x.ref = 1 ∨ 2 ≤ x.ref := by omega
  rcases hr with hr | hr
  · rw [relRec_one (x := { x with nCls := x.nCls + 1, oCls := x.ref }) hr]
    constructor <;> (simp only [b2n] at *) <;> grind
  · rw [relRec_many (x := { x with nCls := x.nCls + 1, oCls := x.ref }) hr]
    constructor <;> (simp only [b2n] at *) <;> grind

/-- the loop enters the user's `cb_close` -/
theorem good_closeBegin {x : Ctx} (h : Good x true false) (hl : x.mem = .live) (hc : x.closing = false) :
    Good { x with nCls := x.nCls + 1, oCls := x.ref, closing := true } true false := by
  obtain ⟨h1, h2, h3, h4, h5, h5a, h5b, h6, h7, h8, h9, h10, h11⟩ := h
  have := h2 hl
  constructor <;> (simp only [b2n] at *) <;> grind

/-- `cb_close` has returned: the loop drops its reference -/
theorem good_closeEnd {x : Ctx} (h : Good x true false) (hl : x.mem = .live) (hc : x.closing = true) :
    Good (relRec { x with closing := false }) false false := by
  obtain ⟨h1, h2, h3, h4, h5, h5a, h5b, h6, h7, h8, h9, h10, h11⟩ := h
  have := h2 hl
  have := h5a hc
  have hr : x.ref = 1 ∨ 2 ≤ x.ref := by omega
  rcases hr with hr | hr
  · rw [relRec_one (x := { x with closing := false }) hr]
    constructor <;> (simp only [b2n] at *) <;> grind
  · rw [relRec_many (x := { x with closing := false }) hr]
    constructor <;> (simp only [b2n] at *) <;> grind

theorem good_wrel {x : Ctx} {r q : Bool} (h : Good x r q) (hl : x.mem = .live) (hh : 0 < x.held) :
    Good (wrelRec x) r q := by
  obtain ⟨h1, h2, h3, h4, h5, h5a, h5b, h6, h7, h8, h9, h10, h11⟩ := h
  have := h2 hl
  have hr : x.ref = 1 ∨ 2 ≤ x.ref := by omega
  unfold wrelRec
  rcases hr with hr | hr
  · rw [relRec_one (x := { x with held := x.held - 1 }) hr]
    constructor <;> (simp only [b2n] at *) <;> grind
  · rw [relRec_many (x := { x with held := x.held - 1 }) hr]
    constructor <;> (simp only [b2n] at *) <;> grind

theorem good_retain {x : Ctx} {r q : Bool} (h : Good x r q) (hl : x.mem = .live) :
    Good { x with ref := x.ref + 1, held := x.held + 1 } r q := by
  obtain ⟨h1, h2, h3, h4, h5, h5a, h5b, h6, h7, h8, h9, h10, h11⟩ := h
  have := h2 hl
  constructor <;> (simp only [b2n] at *) <;> grind

theorem good_shutdown {x : Ctx} {r q : Bool} (h : Good x r q) :
    Good { x with flagClosed := true, eof := true } r q := by
  obtain ⟨h1, h2, h3, h4, h5, h5a, h5b, h6, h7, h8, h9, h10, h11⟩ := h
  constructor <;> grind

theorem good_read {x : Ctx} {r q : Bool} (h : Good x r q) (k : Nat) : Good (readRec x k) r q := by
  obtain ⟨h1, h2, h3, h4, h5, h5a, h5b, h6, h7, h8, h9, h10, h11⟩ := h
  have hb := drain_append k x.inq.length x.inq x.got
  unfold readRec
  constructor <;> (try simp only []) <;> (try grind)

theorem good_eof {x : Ctx} {r q : Bool} (h : Good x r q) : Good { x with eof := true } r q := by
  obtain ⟨h1, h2, h3, h4, h5, h5a, h5b, h6, h7, h8, h9, h10, h11⟩ := h
  constructor <;> grind

theorem good_send {x : Ctx} {r q : Bool} (h : Good x r q) (b : List Nat) :
    Good { x with inq := x.inq ++ b, sent := x.sent ++ b } r q := by
  obtain ⟨h1, h2, h3, h4, h5, h5a, h5b, h6, h7, h8, h9, h10, h11⟩ := h
  constructor <;> grind

/-- the loop takes a queued context into the registration list and announces it -/
theorem good_add {x : Ctx} (h : Good x false true) (hl : x.mem = .live) :
    Good { x with nAdd := x.nAdd + 1, oAdd := x.ref } true false := by
  obtain ⟨h1, h2, h3, h4, h5, h5a, h5b, h6, h7, h8, h9, h10, h11⟩ := h
  have := h2 hl
  cases ho : x.origin <;> simp only [ho] at * <;>
  (constructor <;> (simp only [b2n] at *) <;> grind)

theorem not_closing_of_not_reg {x : Ctx} {q : Bool} (h : Good x false q) : x.closing = false := by
  cases hc : x.closing
  · rfl
  · have := (h.cl hc).1; cases this

end MgProof.C15
