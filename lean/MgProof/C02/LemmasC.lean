import MgProof.C02.LemmasB
/-! Layer C: readers in the wait / single-wait / busy-loop modes. The throttle keeps the
writers less than a capacity ahead of every unfinished reader (no lapping), a reader never
runs ahead of the writers, and what it was handed is the segment of the write order it
asked for. -/
namespace MgProof.C02
open MgModel.Conc MgModel.C02

/-- pcs of reader threads in the wait / busy modes -/
@[grind] def isRd : Pc → Bool
  | .rLdCur | .rSlot | .rFwait _ | .rBlocked | .rWoken => true
  | .start | .thr | .wSpin | .wYield | .wRdCur1 | .wSlot _ | .wRdCur2 | .wStCur _ | .wUnlock | .wWake
  | .oLock | .oLdCur | .oRc1 _ | .oRc2 | .oSlot _ | .oRc3 _ | .oWrRc _ _ | .oUnlock _ | .done => false

/-- pcs of reader threads in read-once mode (the futex pcs are shared) -/
@[grind] def isOnce : Pc → Bool
  | .oLock | .oLdCur | .oRc1 _ | .oRc2 | .oSlot _ | .oRc3 _ | .oWrRc _ _ | .oUnlock _ => true
  | .start | .thr | .wSpin | .wYield | .wRdCur1 | .wSlot _ | .wRdCur2 | .wStCur _ | .wUnlock | .wWake
  | .rLdCur | .rSlot | .rFwait _ | .rBlocked | .rWoken | .done => false

theorem mem_readers {c : Cfg} {u : Nat} (h1 : c.nW ≤ u) (h2 : u < c.nT) :
    u ∈ (List.range c.nT).filter (isReader c) := by
  simp [isReader, h1, h2]

/-- what a successful throttle check guarantees, wait / busy modes -/
theorem canWrite_spec {c : Cfg} {s : St} (hm : c.rm ≠ .once) (h : canWrite c s = true) :
    ∀ u, c.nW ≤ u → u < c.nT → s.rk u < c.nr → s.started < c.pre + s.rk u + c.lim := by
  intro u h1 h2 h3
  have hu := mem_readers h1 h2
  unfold canWrite at h
  simp only [] at h
  split at h
  · rename_i hall
    have := List.all_eq_true.mp hall u hu
    simp at this; omega
  · try rw [if_neg hm] at h
    have := List.all_eq_true.mp h u hu
    simp at this; omega

/-- what a successful throttle check guarantees, read-once mode -/
theorem canWrite_spec_once {c : Cfg} {s : St} (hm : c.rm = .once) (h : canWrite c s = true) :
    (∃ u, c.nW ≤ u ∧ u < c.nT ∧ s.rk u < c.nr) → s.started < s.totalDone + c.lim := by
  rintro ⟨u, h1, h2, h3⟩
  have hu := mem_readers h1 h2
  unfold canWrite at h
  simp only [] at h
  split at h
  · rename_i hall
    have := List.all_eq_true.mp hall u hu
    simp at this; omega
  · simpa [hm] using h

theorem rposOf_eq {c : Cfg} {e : Nat} (wf : WF c e) (hm : c.rm ≠ .once) (s : St) (t : Nat) :
    rposOf c s t = (c.pre + s.rk t) % c.cap := by
  simp only [rposOf, Cfg.pre, hm, if_false, wf.hcap, ringIdx_pow2, Nat.mod_mod]
  exact idx_wrap c.base (s.rk t) e wf.he

theorem take_drop_append {α : Type} (l : List α) (x : α) (p k : Nat) (h : p + k ≤ l.length) :
    ((l ++ [x]).drop p).take k = (l.drop p).take k := by
  rw [List.drop_append_of_le_length (by omega), List.take_append_of_le_length (by simp; omega)]

theorem take_drop_succ {α : Type} (l : List α) (x : α) (p k : Nat) (h : l[p + k]? = some x) :
    (l.drop p).take (k + 1) = (l.drop p).take k ++ [x] :=
  take_succ_of_getElem? (by rw [List.getElem?_drop]; exact h)

structure InvC (c : Cfg) (s : St) : Prop where
  roleR : ∀ t, isRd (s.pc t) = true → c.nW ≤ t
  act   : ∀ t, isRd (s.pc t) = true → s.rk t < c.nr
  noOnce : ∀ t, isOnce (s.pc t) = false
  nolap : ∀ t, c.nW ≤ t → t < c.nT → s.rk t < c.nr → s.started ≤ c.pre + s.rk t + c.lim
  le    : ∀ t, c.pre + s.rk t ≤ s.written.length
  rsl   : ∀ t, s.pc t = .rSlot → c.pre + s.rk t < s.written.length
  got   : ∀ t, s.got t = (s.written.drop c.pre).take (s.rk t)

theorem invC_init (c : Cfg) : InvC c (mkInit c) := by
  refine ⟨?_, ?_, ?_, ?_, ?_, ?_, ?_⟩
  all_goals (intros; simp only [mkInit, preMsgs, List.length_map, List.length_range] at *)
  all_goals (first | omega | (simp; done) | (split at * <;> simp_all [isRd, isOnce]))

theorem invC_step_a {c : Cfg} (hm : c.rm ≠ .once) {s s' : St} {t : Nat}
    (k : InvC c s) (hs : stepSt c s t = some s') :
    (∀ t, isRd (s'.pc t) = true → c.nW ≤ t) ∧ (∀ t, isRd (s'.pc t) = true → s'.rk t < c.nr) ∧
    (∀ t, isOnce (s'.pc t) = false) := by
  obtain ⟨k1, k2, k3, _, _, _, _⟩ := k
  step_split
  all_goals (refine ⟨?_, ?_, ?_⟩ <;> grind)

theorem invC_step_b {c : Cfg} {e : Nat} (wf : WF c e) (hm : c.rm ≠ .once) {s s' : St} {t : Nat}
    (b : InvB c s) (k : InvC c s) (hs : stepSt c s t = some s') :
    (∀ t, c.nW ≤ t → t < c.nT → s'.rk t < c.nr → s'.started ≤ c.pre + s'.rk t + c.lim) ∧
    (∀ t, c.pre + s'.rk t ≤ s'.written.length) := by
  have hcw := fun s1 => canWrite_spec (c := c) (s := s1) hm
  have htl := step_tid_lt b hs
  obtain ⟨k1, k2, k3, k4, k5, k6, _⟩ := k
  step_split
  all_goals (refine ⟨?_, ?_⟩ <;> grind)

theorem invC_step_c {c : Cfg} {e : Nat} (wf : WF c e) (hm : c.rm ≠ .once) {s s' : St} {t : Nat}
    (a1 : InvA1 c s) (a2 : InvA2 c s) (b : InvB c s) (k : InvC c s) (hs : stepSt c s t = some s') :
    (∀ t, s'.pc t = .rSlot → c.pre + s'.rk t < s'.written.length) ∧
    (∀ t, s'.got t = (s'.written.drop c.pre).take (s'.rk t)) := by
  have hrp := rposOf_eq wf hm s t
  have hns : s.written.length ≤ s.started := by have := b.cntS; omega
  have hrl : (c.pre + s.rk t) % c.cap < c.cap := Nat.mod_lt _ wf.cap_pos
  have hlim := wf.hlim
  have hblk := a2.blk (c.pre + s.rk t)
  have hgs := fun x => take_drop_succ s.written x c.pre (s.rk t)
  have hga := fun m u => take_drop_append s.written m c.pre (s.rk u) (k.le u)
  have htl := step_tid_lt b hs
  have hcur := a1.cur
  obtain ⟨k1, k2, k3, k4, k5, k6, k7⟩ := k
  step_split
  all_goals (refine ⟨?_, ?_⟩ <;> grind)

theorem invC_step {c : Cfg} {e : Nat} (wf : WF c e) (hm : c.rm ≠ .once) {s s' : St} {t : Nat}
    (a1 : InvA1 c s) (a2 : InvA2 c s) (b : InvB c s) (k : InvC c s) (hs : stepSt c s t = some s') :
    InvC c s' := by
  obtain ⟨x1, x2, x3⟩ := invC_step_a hm k hs
  obtain ⟨y1, y2⟩ := invC_step_b wf hm b k hs
  obtain ⟨z1, z2⟩ := invC_step_c wf hm a1 a2 b k hs
  exact ⟨x1, x2, x3, y1, y2, z1, z2⟩

end MgProof.C02
