import MgProof.C02.LemmasG
import MgProof.C02.Assemble
/-! Layer H: a thread that has finished has performed all its calls; and `muggle_ring_buffer_init`
produces a power-of-two capacity (so `WF.hcap` is what the real initialisation guarantees). -/
namespace MgProof.C02
open MgModel.Conc MgModel.C02

structure InvH (c : Cfg) (s : St) : Prop where
  fin : ∀ t, s.pc t = .done → t < c.nT → (t < c.nW → s.wk t = c.nw) ∧ (c.nW ≤ t → s.rk t = c.nr)
  st  : ∀ t, s.pc t = .start → s.wk t = 0 ∧ s.rk t = 0
  thr : ∀ t, s.pc t = .thr → s.wk t < c.nw

theorem invH_init (c : Cfg) : InvH c (mkInit c) := by
  refine ⟨?_, ?_, ?_⟩
  · intro t h ht; simp only [mkInit] at h; split at h <;> simp_all
  · intro t _; simp [mkInit]
  · intro t h; simp only [mkInit] at h; split at h <;> simp_all

theorem invH_step_once {c : Cfg} (hm : c.rm = .once) {s s' : St} {t : Nat} (i : InvAll c s)
    (g : InvG c s) (h : InvH c s) (hs : stepSt c s t = some s') : InvH c s' := by
  have h2 := i.a1.role
  have g1 := g.wklt
  obtain ⟨h1, h3, h4⟩ := h
  have x1 := (i.d hm).1.roleO; have x2 := (i.d hm).1.actO; have x4 := (i.d hm).1.noRd
  clear i g
  step_split
  all_goals (refine ⟨?_, ?_, ?_⟩ <;> grind)

theorem invH_step_nonce {c : Cfg} (hm : c.rm ≠ .once) {s s' : St} {t : Nat} (i : InvAll c s)
    (g : InvG c s) (h : InvH c s) (hs : stepSt c s t = some s') : InvH c s' := by
  have h2 := i.a1.role
  have g1 := g.wklt
  obtain ⟨h1, h3, h4⟩ := h
  have x1 := (i.k hm).roleR; have x2 := (i.k hm).act; have x3 := (i.k hm).noOnce
  clear i g
  step_split
  all_goals (refine ⟨?_, ?_, ?_⟩ <;> grind)

theorem invH_step {c : Cfg} {s s' : St} {t : Nat} (i : InvAll c s) (g : InvG c s)
    (h : InvH c s) (hs : stepSt c s t = some s') : InvH c s' := by
  by_cases hm : c.rm = .once
  · exact invH_step_once hm i g h hs
  · exact invH_step_nonce hm i g h hs

theorem invH_spur {c : Cfg} {s s' : St} {t : Nat} (h : InvH c s)
    (hs : spurSt c s t = some s') : InvH c s' := by
  obtain ⟨hb, rfl⟩ := spur_eq hs
  obtain ⟨h1, h2, h3⟩ := h
  simp only [afterFutex]
  refine ⟨?_, ?_, ?_⟩ <;> (split <;> grind)

/-! ## `muggle_ring_buffer_init` yields a power of two -/

theorem nextPow2Aux_pow2 (x : Nat) : ∀ (fuel e : Nat), ∃ e', nextPow2Aux x fuel (2 ^ e) = 2 ^ e' ∧ e' ≤ e + fuel
  | 0, e => ⟨e, rfl, by omega⟩
  | fuel + 1, e => by
    simp only [nextPow2Aux]
    split
    · exact ⟨e, rfl, by omega⟩
    · obtain ⟨e', h1, h2⟩ := nextPow2Aux_pow2 x fuel (e + 1)
      refine ⟨e', ?_, by omega⟩
      rw [← h1, Nat.pow_succ, Nat.mul_comm]

/-- the capacity stored by a successful `muggle_ring_buffer_init` is `2^e` with `e ≤ 32` -/
theorem initRing_pow2 {capreq flag cap : Nat} {w : WMode} {r : RMode}
    (h : initRing capreq flag = .ok (cap, w, r)) : ∃ e, e ≤ 32 ∧ cap = 2 ^ e := by
  unfold initRing at h
  split at h
  · cases h
  · simp only [] at h
    split at h
    · cases h
    · split at h
      · cases h
      · injection h with h
        injection h with h1 _
        obtain ⟨e', h2, h3⟩ := nextPow2Aux_pow2 capreq 32 0
        exact ⟨e', by omega, by rw [← h1]; exact h2⟩

end MgProof.C02
