import MgProof.C02.LemmasD
/-! Layer E: happens-before. Release/acquire knowledge sets: the release store of `cursor`
publishes every message written so far (the writers pass their knowledge on through the
spinlock), the reader's acquire load of `cursor` joins it, so every message handed to a reader
is known to it (`hbViol = 0`). Mode-independent; the mode-specific layers provide what value a
slot read returns. -/
namespace MgProof.C02
open MgModel.Conc MgModel.C02

/-- read-once pcs strictly inside the `read_mutex` critical section -/
@[grind] def onceIn : Pc → Bool
  | .oLdCur | .oRc1 _ | .oRc2 | .oSlot _ | .oRc3 _ | .oWrRc _ _ | .oUnlock _ => true
  | .start | .thr | .wSpin | .wYield | .wRdCur1 | .wSlot _ | .wRdCur2 | .wStCur _ | .wUnlock | .wWake
  | .rLdCur | .rSlot | .rFwait _ | .rBlocked | .rWoken | .oLock | .done => false

theorem holder_of_onceIn {p : Pc} (h : onceIn p = true) : holder p = true := by
  cases p <;> simp_all [onceIn, holder]

theorem isOnce_of_onceIn {p : Pc} (h : onceIn p = true) : isOnce p = true := by
  cases p <;> simp_all [onceIn, isOnce]

structure InvE (c : Cfg) (s : St) : Prop where
  wr   : ∀ m, m ∈ s.written → m ∈ s.relCursor
  lk0  : c.wm = .lock → s.spin = 0 → ∀ m, m ∈ s.written → m ∈ s.relSpin
  lkW  : c.wm = .lock → ∀ t, inW (s.pc t) = true → ∀ m, m ∈ s.written → m ∈ s.know t
  sgl  : c.wm = .single → ∀ t, t < c.nW → ∀ m, m ∈ s.written → m ∈ s.know t
  msg  : ∀ t, inflight (s.pc t) = true → msgId t (s.wk t) ∈ s.know t
  rd   : ∀ t, s.pc t = .rSlot → c.pre + s.rk t < s.written.length ∧
           ∀ m, s.written[c.pre + s.rk t]? = some m → m ∈ s.know t
  o1   : ∀ t v, s.pc t = .oRc1 v → v = s.delivered.length % c.cap ∨
           (s.delivered.length < s.written.length ∧
            ∀ m, s.written[s.delivered.length]? = some m → m ∈ s.know t)
  o2   : ∀ t, (s.pc t = .oRc2 ∨ ∃ i, s.pc t = .oSlot i) →
           s.delivered.length < s.written.length ∧
           ∀ m, s.written[s.delivered.length]? = some m → m ∈ s.know t
  o3   : ∀ t m, (s.pc t = .oRc3 m ∨ (∃ i, s.pc t = .oWrRc m i) ∨ s.pc t = .oUnlock m) → m ∈ s.know t
  hb   : s.hbViol = 0

theorem invE_init (c : Cfg) : InvE c (mkInit c) := by
  refine ⟨?_, ?_, ?_, ?_, ?_, ?_, ?_, ?_, ?_, ?_⟩
  all_goals (intros; simp only [mkInit] at *)
  all_goals (first | assumption | rfl | (split at * <;> simp_all [inW, inflight]) | simp_all)

attribute [local grind =] mem_join

/-- what the mode-specific layers provide to the happens-before layer -/
structure EHyp (c : Cfg) (s : St) (t : Nat) : Prop where
  exO  : ∀ t u, onceIn (s.pc t) = true → onceIn (s.pc u) = true → t = u
  dle  : s.pc t = .oLdCur → s.delivered.length ≤ s.written.length
  rcv  : ∀ v, s.pc t = .oRc1 v → s.readCursor = s.delivered.length % c.cap
  rdv  : s.pc t = .rSlot → rposOf c s t < c.cap ∧
           s.written[c.pre + s.rk t]? = some (s.blocks (rposOf c s t))
  rdlt : s.pc t = .rLdCur → s.cursor ≠ rposOf c s t → c.pre + s.rk t < s.written.length
  ov   : ∀ i, s.pc t = .oSlot i → i < c.cap ∧ s.written[s.delivered.length]? = some (s.blocks i)

theorem invE_step_a {c : Cfg} {s s' : St} {t : Nat}
    (a1 : InvA1 c s) (x : InvE c s) (hs : stepSt c s t = some s') :
    (∀ m, m ∈ s'.written → m ∈ s'.relCursor) ∧
    (c.wm = .lock → s'.spin = 0 → ∀ m, m ∈ s'.written → m ∈ s'.relSpin) := by
  have h2 := a1.role; have h3 := a1.excl; have h4 := a1.spin1
  have x1 := x.wr; have x2 := x.lk0; have x3 := x.lkW; have x4 := x.sgl; have x5 := x.msg
  clear a1 x
  step_split
  all_goals (refine ⟨?_, ?_⟩ <;> grind)

theorem invE_step_b {c : Cfg} {e : Nat} (wf : WF c e) {s s' : St} {t : Nat}
    (a1 : InvA1 c s) (x : InvE c s) (hs : stepSt c s t = some s') :
    (c.wm = .lock → ∀ t, inW (s'.pc t) = true → ∀ m, m ∈ s'.written → m ∈ s'.know t) ∧
    (c.wm = .single → ∀ t, t < c.nW → ∀ m, m ∈ s'.written → m ∈ s'.know t) ∧
    (∀ t, inflight (s'.pc t) = true → msgId t (s'.wk t) ∈ s'.know t) := by
  have hsw := wf.hsw
  have h2 := a1.role; have h3 := a1.excl; have h4 := a1.spin1; have h5 := a1.modeS
  have x2 := x.lk0; have x3 := x.lkW; have x4 := x.sgl; have x5 := x.msg
  clear a1 x
  step_split
  all_goals (refine ⟨?_, ?_, ?_⟩ <;> grind)

theorem invE_step_c {c : Cfg} {s s' : St} {t : Nat}
    (x : InvE c s) (y : EHyp c s t) (hs : stepSt c s t = some s') :
    ∀ t, s'.pc t = .rSlot → c.pre + s'.rk t < s'.written.length ∧
      ∀ m, s'.written[c.pre + s'.rk t]? = some m → m ∈ s'.know t := by
  have hex : ∀ (i m : Nat), s.written[i]? = some m → m ∈ s.written := fun i m h => List.mem_of_getElem? h
  have hga : ∀ (x i : Nat), i < s.written.length → (s.written ++ [x])[i]? = s.written[i]? :=
    fun x i h => List.getElem?_append_left h
  have x1 := x.wr; have x6 := x.rd
  have y4 := y.rdlt
  clear x y
  step_split
  all_goals grind

theorem invE_step_d {c : Cfg} {s s' : St} {t : Nat}
    (a1 : InvA1 c s) (x : InvE c s) (y : EHyp c s t) (hs : stepSt c s t = some s') :
    (∀ t v, s'.pc t = .oRc1 v → v = s'.delivered.length % c.cap ∨
           (s'.delivered.length < s'.written.length ∧
            ∀ m, s'.written[s'.delivered.length]? = some m → m ∈ s'.know t)) ∧
    (∀ t, (s'.pc t = .oRc2 ∨ ∃ i, s'.pc t = .oSlot i) →
           s'.delivered.length < s'.written.length ∧
           ∀ m, s'.written[s'.delivered.length]? = some m → m ∈ s'.know t) := by
  have hex : ∀ (i m : Nat), s.written[i]? = some m → m ∈ s.written := fun i m h => List.mem_of_getElem? h
  have hga : ∀ (x i : Nat), i < s.written.length → (s.written ++ [x])[i]? = s.written[i]? :=
    fun x i h => List.getElem?_append_left h
  have hcur := a1.cur
  have x1 := x.wr; have x7 := x.o1; have x8 := x.o2
  have y1 := y.exO; have y2 := y.dle; have y6 := y.rcv
  clear x y a1
  step_split
  all_goals (refine ⟨?_, ?_⟩ <;> grind)

theorem invE_step_e {c : Cfg} {s s' : St} {t : Nat}
    (x : InvE c s) (y : EHyp c s t) (hs : stepSt c s t = some s') :
    (∀ t m, (s'.pc t = .oRc3 m ∨ (∃ i, s'.pc t = .oWrRc m i) ∨ s'.pc t = .oUnlock m) → m ∈ s'.know t) ∧
    s'.hbViol = 0 := by
  have x6 := x.rd; have x8 := x.o2; have x9 := x.o3; have x10 := x.hb
  have y3 := y.rdv; have y5 := y.ov
  clear x y
  step_split
  all_goals (refine ⟨?_, ?_⟩ <;> grind)

theorem invE_step {c : Cfg} {e : Nat} (wf : WF c e) {s s' : St} {t : Nat}
    (a1 : InvA1 c s) (x : InvE c s) (y : EHyp c s t) (hs : stepSt c s t = some s') : InvE c s' := by
  obtain ⟨z1, z2⟩ := invE_step_a a1 x hs
  obtain ⟨z3, z4, z5⟩ := invE_step_b wf a1 x hs
  have z6 := invE_step_c x y hs
  obtain ⟨z7, z8⟩ := invE_step_d a1 x y hs
  obtain ⟨z9, z10⟩ := invE_step_e x y hs
  exact ⟨z1, z2, z3, z4, z5, z6, z7, z8, z9, z10⟩

end MgProof.C02
