import MgProof.C02.Arith
/-! Invariants of the ring-buffer model and their preservation by every step, layer A:
the writers' side (cursor = number of published messages modulo capacity, mutual exclusion of
the writers on the write position, slot contents). Property theorems: `Props.lean`. -/
namespace MgProof.C02
open MgModel.Conc MgModel.C02

/-- pcs at which a writer owns the write position (from entering the critical section to
leaving it) -/
@[grind] def inW : Pc → Bool
  | .wRdCur1 | .wSlot _ | .wRdCur2 | .wStCur _ | .wUnlock => true
  | .start | .thr | .wSpin | .wYield | .wWake | .rLdCur | .rSlot | .rFwait _ | .rBlocked | .rWoken
  | .oLock | .oLdCur | .oRc1 _ | .oRc2 | .oSlot _ | .oRc3 _ | .oWrRc _ _ | .oUnlock _ | .done => false

/-- pcs of writer threads (after the start step) -/
@[grind] def isW : Pc → Bool
  | .thr | .wSpin | .wYield | .wRdCur1 | .wSlot _ | .wRdCur2 | .wStCur _ | .wUnlock | .wWake => true
  | .start | .rLdCur | .rSlot | .rFwait _ | .rBlocked | .rWoken
  | .oLock | .oLdCur | .oRc1 _ | .oRc2 | .oSlot _ | .oRc3 _ | .oWrRc _ _ | .oUnlock _ | .done => false

/-- a write call has started and its message is not yet published -/
@[grind] def inflight : Pc → Bool
  | .wSpin | .wYield | .wRdCur1 | .wSlot _ | .wRdCur2 | .wStCur _ => true
  | .start | .thr | .wUnlock | .wWake | .rLdCur | .rSlot | .rFwait _ | .rBlocked | .rWoken
  | .oLock | .oLdCur | .oRc1 _ | .oRc2 | .oSlot _ | .oRc3 _ | .oWrRc _ _ | .oUnlock _ | .done => false

@[grind →] theorem isW_of_inW {p : Pc} (h : inW p = true) : isW p = true := by
  cases p <;> simp_all [inW, isW]

@[grind →] theorem isW_of_inflight {p : Pc} (h : inflight p = true) : isW p = true := by
  cases p <;> simp_all [inflight, isW]

/-- well-formed configurations: power-of-two capacity (what `muggle_ring_buffer_init` produces),
the documented no-lapping precondition as enforced by the harness's throttle, and the user
guarantee that comes with `MUGGLE_RING_BUFFER_FLAG_SINGLE_WRITER` -/
structure WF (c : Cfg) (e : Nat) : Prop where
  he   : e ≤ 32
  hcap : c.cap = 2 ^ e
  hlim : c.lim + 1 ≤ c.cap
  hsw  : c.wm = .single → c.nW ≤ 1

theorem WF.cap_pos {c : Cfg} {e : Nat} (wf : WF c e) : 0 < c.cap := by
  rw [wf.hcap]; exact Nat.pow_pos (by decide)

-- split a step into its leaf cases: every `if`/`match` of `stepSt` and of the loop heads
set_option hygiene false in
macro "step_split" : tactic => `(tactic|
  ((unfold stepSt at hs)
   <;> (simp only [finishWrite, writerNext, finishRead, readerNext, firstWritePc, firstReadPc, afterFutex] at hs)
   <;> (repeat' (split at hs))
   <;> (try (simp only [Option.some.injEq, reduceCtorEq] at hs))
   <;> (try subst hs)))

/-! ## A1: cursor, roles, exclusion -/

structure InvA1 (c : Cfg) (s : St) : Prop where
  cur   : s.cursor = s.written.length % c.cap
  role  : ∀ t, isW (s.pc t) = true → t < c.nW
  excl  : ∀ t u, inW (s.pc t) = true → inW (s.pc u) = true → t = u
  spin1 : c.wm = .lock → ∀ t, inW (s.pc t) = true → s.spin = 1
  modeS : ∀ t, s.pc t = .wSpin ∨ s.pc t = .wYield → c.wm = .lock
  locS  : ∀ t i, s.pc t = .wStCur i → i = s.written.length % c.cap

theorem invA1_init (c : Cfg) (e : Nat) (wf : WF c e) : InvA1 c (mkInit c) := by
  have hp : c.pre < c.cap ∨ c.pre = 0 := by
    unfold Cfg.pre; split
    · exact Or.inr rfl
    · exact Or.inl (Nat.mod_lt _ wf.cap_pos)
  refine ⟨?_, ?_, ?_, ?_, ?_, ?_⟩
  · simp only [mkInit, preMsgs, List.length_map, List.length_range]
    rw [wf.hcap, ringIdx_pow2]
  all_goals (intros; simp only [mkInit] at *; split at * <;> simp_all [isW, inW])

-- common preamble of the preservation proofs: arithmetic facts about the capacity
set_option hygiene false in
macro "step_pre" : tactic => `(tactic|
  (have hsw := wf.hsw
   have hcp := wf.cap_pos
   have hm := succ_mod_mod s.written.length c.cap
   have hml : s.written.length % c.cap < c.cap := Nat.mod_lt _ wf.cap_pos
   have hr : ∀ x, ringIdx x c.cap = x % c.cap := fun x => by rw [wf.hcap, ringIdx_pow2]))

theorem invA1_step_a {c : Cfg} {e : Nat} (wf : WF c e) {s s' : St} {t : Nat} (h : InvA1 c s)
    (hs : stepSt c s t = some s') :
    s'.cursor = s'.written.length % c.cap ∧ (∀ t, isW (s'.pc t) = true → t < c.nW) ∧
    (∀ t, s'.pc t = .wSpin ∨ s'.pc t = .wYield → c.wm = .lock) := by
  obtain ⟨h1, h2, h3, h4, h5, h6⟩ := h
  step_pre
  step_split
  all_goals (refine ⟨?_, ?_, ?_⟩ <;> grind)

theorem invA1_step_b {c : Cfg} {e : Nat} (wf : WF c e) {s s' : St} {t : Nat} (h : InvA1 c s)
    (hs : stepSt c s t = some s') :
    (∀ t u, inW (s'.pc t) = true → inW (s'.pc u) = true → t = u) ∧
    (c.wm = .lock → ∀ t, inW (s'.pc t) = true → s'.spin = 1) ∧
    (∀ t i, s'.pc t = .wStCur i → i = s'.written.length % c.cap) := by
  obtain ⟨h1, h2, h3, h4, h5, h6⟩ := h
  step_pre
  step_split
  all_goals (refine ⟨?_, ?_, ?_⟩ <;> grind)

theorem invA1_step {c : Cfg} {e : Nat} (wf : WF c e) {s s' : St} {t : Nat} (h : InvA1 c s)
    (hs : stepSt c s t = some s') : InvA1 c s' := by
  obtain ⟨a1, a2, a3⟩ := invA1_step_a wf h hs
  obtain ⟨b1, b2, b3⟩ := invA1_step_b wf h hs
  exact ⟨a1, a2, b1, b2, a3, b3⟩

/-! ## A2: slot contents -/

structure InvA2 (c : Cfg) (s : St) : Prop where
  locW : ∀ t i, s.pc t = .wSlot i → i = s.written.length % c.cap
  slot : ∀ t, (s.pc t = .wRdCur2 ∨ ∃ i, s.pc t = .wStCur i) →
           s.blocks (s.written.length % c.cap) = msgId t (s.wk t)
  blk  : ∀ i, i < s.written.length → s.written.length < i + c.cap →
           s.written[i]? = some (s.blocks (i % c.cap))

theorem invA2_init (c : Cfg) (e : Nat) (wf : WF c e) : InvA2 c (mkInit c) := by
  have hp : c.pre < c.cap ∨ c.pre = 0 := by
    unfold Cfg.pre; split
    · exact Or.inr rfl
    · exact Or.inl (Nat.mod_lt _ wf.cap_pos)
  refine ⟨?_, ?_, ?_⟩
  · intro t i h; simp only [mkInit] at h; split at h <;> simp at h
  · intro t h; simp only [mkInit] at h; split at h <;> simp at h
  · intro i hi _
    simp only [mkInit, preMsgs, List.length_map, List.length_range] at hi ⊢
    have : i % c.cap = i := Nat.mod_eq_of_lt (by omega)
    simp [this, hi]

theorem invA2_step_a {c : Cfg} {e : Nat} (wf : WF c e) {s s' : St} {t : Nat} (h : InvA1 c s)
    (g : InvA2 c s) (hs : stepSt c s t = some s') :
    (∀ t i, s'.pc t = .wSlot i → i = s'.written.length % c.cap) ∧
    (∀ t, (s'.pc t = .wRdCur2 ∨ ∃ i, s'.pc t = .wStCur i) →
           s'.blocks (s'.written.length % c.cap) = msgId t (s'.wk t)) := by
  obtain ⟨h1, h2, h3, h4, h5, h6⟩ := h
  obtain ⟨g1, g2, g3⟩ := g
  step_pre
  step_split
  all_goals (refine ⟨?_, ?_⟩ <;> grind)

theorem invA2_step_b {c : Cfg} {e : Nat} (wf : WF c e) {s s' : St} {t : Nat} (h : InvA1 c s)
    (g : InvA2 c s) (hs : stepSt c s t = some s') :
    ∀ i, i < s'.written.length → s'.written.length < i + c.cap →
           s'.written[i]? = some (s'.blocks (i % c.cap)) := by
  obtain ⟨h1, h2, h3, h4, h5, h6⟩ := h
  obtain ⟨g1, g2, g3⟩ := g
  step_pre
  have hne : ∀ j, j < s.written.length → s.written.length < j + c.cap →
      j % c.cap ≠ s.written.length % c.cap := by
    intro j h1 h2 h3
    have := pos_eq_of_mod_eq h3 (by omega) (by omega)
    omega
  have hb : ∀ m, s.blocks (s.written.length % c.cap) = m →
      ∀ i, i < (s.written ++ [m]).length → (s.written ++ [m]).length < i + c.cap →
        (s.written ++ [m])[i]? = some (s.blocks (i % c.cap)) := by
    intro m hm i hi hc
    simp only [List.length_append, List.length_singleton] at hi hc
    by_cases hlt : i < s.written.length
    · rw [List.getElem?_append_left hlt]; exact g3 i hlt (by omega)
    · have : i = s.written.length := by omega
      subst this
      simp [hm]
  step_split
  all_goals grind

theorem invA2_step {c : Cfg} {e : Nat} (wf : WF c e) {s s' : St} {t : Nat} (h : InvA1 c s)
    (g : InvA2 c s) (hs : stepSt c s t = some s') : InvA2 c s' :=
  ⟨(invA2_step_a wf h g hs).1, (invA2_step_a wf h g hs).2, invA2_step_b wf h g hs⟩

end MgProof.C02
