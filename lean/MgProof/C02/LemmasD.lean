import MgProof.C02.LemmasC
/-! Layer D: read-once mode. `read_mutex` excludes the readers, `read_cursor` counts the
consumed messages modulo capacity, the consumed messages in `read_mutex` order are a prefix of
the write order, and the throttle keeps the writers less than a capacity ahead of the
consumption point. -/
namespace MgProof.C02
open MgModel.Conc MgModel.C02

/-- pcs at which a read-once reader holds `read_mutex` -/
@[grind] def holder : Pc → Bool
  | .oLdCur | .oRc1 _ | .oRc2 | .oSlot _ | .oRc3 _ | .oWrRc _ _ | .oUnlock _
  | .rFwait _ | .rBlocked | .rWoken => true
  | .start | .thr | .wSpin | .wYield | .wRdCur1 | .wSlot _ | .wRdCur2 | .wStCur _ | .wUnlock | .wWake
  | .rLdCur | .rSlot | .oLock | .done => false

/-- pcs of a read-once reader inside `muggle_ring_buffer_read` -/
@[grind] def isOR : Pc → Bool
  | .oLock | .oLdCur | .oRc1 _ | .oRc2 | .oSlot _ | .oRc3 _ | .oWrRc _ _ | .oUnlock _
  | .rFwait _ | .rBlocked | .rWoken => true
  | .start | .thr | .wSpin | .wYield | .wRdCur1 | .wSlot _ | .wRdCur2 | .wStCur _ | .wUnlock | .wWake
  | .rLdCur | .rSlot | .done => false

structure InvD (c : Cfg) (s : St) : Prop where
  roleO : ∀ t, isOR (s.pc t) = true → c.nW ≤ t
  actO  : ∀ t, isOR (s.pc t) = true → s.rk t < c.nr
  noRd  : ∀ t, s.pc t ≠ .rLdCur ∧ s.pc t ≠ .rSlot
  mtx1  : ∀ t, holder (s.pc t) = true → s.rmtx = 1
  exclM : ∀ t u, holder (s.pc t) = true → holder (s.pc u) = true → t = u
  rc    : s.readCursor = s.delivered.length % c.cap
  dl    : s.delivered.map Prod.fst = s.written.take s.delivered.length
  dle   : s.delivered.length ≤ s.written.length
  td    : s.totalDone ≤ s.delivered.length
  tdU   : ∀ t m, s.pc t = .oUnlock m → s.totalDone < s.delivered.length
  nolapO : ∀ u, c.nW ≤ u → u < c.nT → s.rk u < c.nr → s.started ≤ s.totalDone + c.lim
  l1    : ∀ t v, s.pc t = .oRc1 v → v = s.delivered.length % c.cap ∨ s.delivered.length < s.written.length
  l2    : ∀ t, s.pc t = .oRc2 → s.delivered.length < s.written.length
  l3    : ∀ t i, s.pc t = .oSlot i → i = s.delivered.length % c.cap ∧ s.delivered.length < s.written.length
  l4    : ∀ t m, s.pc t = .oRc3 m → s.written[s.delivered.length]? = some m
  l5    : ∀ t m i, s.pc t = .oWrRc m i → s.written[s.delivered.length]? = some m ∧ i = s.delivered.length % c.cap

theorem pre_once {c : Cfg} (hm : c.rm = .once) : c.pre = 0 := by simp [Cfg.pre, hm]

theorem invD_init (c : Cfg) (hm : c.rm = .once) : InvD c (mkInit c) := by
  have hp := pre_once hm
  refine ⟨?_, ?_, ?_, ?_, ?_, ?_, ?_, ?_, ?_, ?_, ?_, ?_, ?_, ?_, ?_, ?_⟩
  all_goals (intros; simp only [mkInit, preMsgs, hp, List.length_map, List.length_range] at *)
  all_goals (first | omega | (simp; done) | (split at * <;> simp_all [isOR, holder]))

theorem invD_step_a {c : Cfg} (hm : c.rm = .once) {s s' : St} {t : Nat}
    (d : InvD c s) (hs : stepSt c s t = some s') :
    (∀ t, isOR (s'.pc t) = true → c.nW ≤ t) ∧ (∀ t, isOR (s'.pc t) = true → s'.rk t < c.nr) ∧
    (∀ t, s'.pc t ≠ .rLdCur ∧ s'.pc t ≠ .rSlot) := by
  have d1 := d.roleO; have d2 := d.actO; have d3 := d.noRd
  clear d
  step_split
  all_goals (refine ⟨?_, ?_, ?_⟩ <;> grind)

theorem invD_step_b {c : Cfg} (hm : c.rm = .once) {s s' : St} {t : Nat}
    (d : InvD c s) (hs : stepSt c s t = some s') :
    (∀ t, holder (s'.pc t) = true → s'.rmtx = 1) ∧
    (∀ t u, holder (s'.pc t) = true → holder (s'.pc u) = true → t = u) := by
  have d3 := d.noRd; have d4 := d.mtx1; have d5 := d.exclM
  clear d
  have hen : s.pc t = .oLock → s.rmtx = 0 := by
    intro h
    by_cases h0 : s.rmtx = 0
    · exact h0
    · simp [stepSt, St.enabled, h, h0] at hs
  step_split
  all_goals (refine ⟨?_, ?_⟩ <;> grind)

theorem invD_step_c {c : Cfg} {e : Nat} (wf : WF c e) (hm : c.rm = .once) {s s' : St} {t : Nat}
    (d : InvD c s) (hs : stepSt c s t = some s') :
    s'.readCursor = s'.delivered.length % c.cap ∧
    s'.delivered.map Prod.fst = s'.written.take s'.delivered.length ∧
    s'.delivered.length ≤ s'.written.length := by
  have hr : ∀ x, ringIdx x c.cap = x % c.cap := fun x => by rw [wf.hcap, ringIdx_pow2]
  have hd := succ_mod_mod s.delivered.length c.cap
  have hts := fun x => take_succ_of_getElem? (l := s.written) (k := s.delivered.length) (x := x)
  have hta := fun x => List.take_append_of_le_length (l₁ := s.written) (l₂ := [x]) d.dle
  have hmap := fun (x : Nat × Nat) => List.map_append (f := Prod.fst) (l₁ := s.delivered) (l₂ := [x])
  have hlt : ∀ m, s.written[s.delivered.length]? = some m → s.delivered.length < s.written.length := by
    intro m h
    have := (List.getElem?_eq_some_iff.mp h).1
    exact this
  have d6 := d.rc; have d7 := d.dl; have d8 := d.dle; have l5 := d.l5
  clear d
  step_split
  all_goals (refine ⟨?_, ?_, ?_⟩ <;> grind)

theorem invD_step_d {c : Cfg} (hm : c.rm = .once) {s s' : St} {t : Nat}
    (b : InvB c s) (d : InvD c s) (hs : stepSt c s t = some s') :
    s'.totalDone ≤ s'.delivered.length ∧
    (∀ t m, s'.pc t = .oUnlock m → s'.totalDone < s'.delivered.length) ∧
    (∀ u, c.nW ≤ u → u < c.nT → s'.rk u < c.nr → s'.started ≤ s'.totalDone + c.lim) := by
  have hcw : ∀ s1 : St, canWrite c s1 = true → ∀ u, c.nW ≤ u → u < c.nT → s1.rk u < c.nr →
      s1.started < s1.totalDone + c.lim :=
    fun s1 h u h1 h2 h3 => canWrite_spec_once hm h ⟨u, h1, h2, h3⟩
  have htl := step_tid_lt b hs
  have d5 := d.exclM; have d9 := d.td; have d10 := d.tdU; have d11 := d.nolapO
  have d1 := d.roleO; have d2 := d.actO; have d3 := d.noRd
  clear d b
  step_split
  all_goals (refine ⟨?_, ?_, ?_⟩ <;> grind)

theorem invD_step_e {c : Cfg} {e : Nat} (wf : WF c e) (hm : c.rm = .once) {s s' : St} {t : Nat}
    (a1 : InvA1 c s) (d : InvD c s) (hs : stepSt c s t = some s') :
    (∀ t v, s'.pc t = .oRc1 v → v = s'.delivered.length % c.cap ∨ s'.delivered.length < s'.written.length) ∧
    (∀ t, s'.pc t = .oRc2 → s'.delivered.length < s'.written.length) ∧
    (∀ t i, s'.pc t = .oSlot i → i = s'.delivered.length % c.cap ∧ s'.delivered.length < s'.written.length) := by
  have hcur := a1.cur
  have d5 := d.exclM; have d6 := d.rc; have d8 := d.dle
  have l1 := d.l1; have l2 := d.l2; have l3 := d.l3
  clear d a1
  step_split
  all_goals (refine ⟨?_, ?_, ?_⟩ <;> grind)

theorem invD_step_f {c : Cfg} {e : Nat} (wf : WF c e) (hm : c.rm = .once) {s s' : St} {t : Nat}
    (a2 : InvA2 c s) (b : InvB c s) (d : InvD c s) (hs : stepSt c s t = some s') :
    (∀ t m, s'.pc t = .oRc3 m → s'.written[s'.delivered.length]? = some m) ∧
    (∀ t m i, s'.pc t = .oWrRc m i →
      s'.written[s'.delivered.length]? = some m ∧ i = s'.delivered.length % c.cap) := by
  have hns : s.written.length ≤ s.started := by have := b.cntS; omega
  have hlim := wf.hlim
  have htl := step_tid_lt b hs
  have hblk := a2.blk s.delivered.length
  have hdl : s.delivered.length % c.cap < c.cap := Nat.mod_lt _ wf.cap_pos
  have hga : ∀ x m, s.written[s.delivered.length]? = some m →
      (s.written ++ [x])[s.delivered.length]? = some m := by
    intro x m h
    have hlt := (List.getElem?_eq_some_iff.mp h).1
    rw [List.getElem?_append_left hlt]; exact h
  have d1 := d.roleO; have d2 := d.actO; have d5 := d.exclM; have d6 := d.rc
  have d9 := d.td; have d11 := d.nolapO; have l3 := d.l3; have l4 := d.l4; have l5 := d.l5
  clear d a2 b
  step_split
  all_goals (refine ⟨?_, ?_⟩ <;> grind)

theorem invD_step {c : Cfg} {e : Nat} (wf : WF c e) (hm : c.rm = .once) {s s' : St} {t : Nat}
    (a1 : InvA1 c s) (a2 : InvA2 c s) (b : InvB c s) (d : InvD c s) (hs : stepSt c s t = some s') :
    InvD c s' := by
  obtain ⟨x1, x2, x3⟩ := invD_step_a hm d hs
  obtain ⟨x4, x5⟩ := invD_step_b hm d hs
  obtain ⟨x6, x7, x8⟩ := invD_step_c wf hm d hs
  obtain ⟨x9, x10, x11⟩ := invD_step_d hm b d hs
  obtain ⟨x12, x13, x14⟩ := invD_step_e wf hm a1 d hs
  obtain ⟨x15, x16⟩ := invD_step_f wf hm a2 b d hs
  exact ⟨x1, x2, x3, x4, x5, x6, x7, x8, x9, x10, x11, x12, x13, x14, x15, x16⟩

end MgProof.C02
