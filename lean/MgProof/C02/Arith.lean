import MgModel.C02.Ring
/-! Arithmetic and list facts used by the ring-buffer invariants. -/
namespace MgProof.C02
open MgModel.Conc MgModel.C02

@[grind =] theorem upd_apply {α : Type} (f : Nat → α) (i : Nat) (a : α) (j : Nat) :
    upd f i a j = if j = i then a else f j := rfl

@[grind =] theorem wakeAll_apply (pc : Nat → Pc) (i : Nat) :
    wakeAll pc i = if pc i = .rBlocked then .rWoken else pc i := rfl

@[grind →] theorem firstBlocked_blocked {pc : Nat → Pc} {k i r : Nat} (h : firstBlocked pc k i = some r) :
    pc r = .rBlocked := by
  induction k generalizing i with
  | zero => simp [firstBlocked] at h
  | succ k ih =>
    simp only [firstBlocked] at h
    split at h
    · injection h with h; subst h; assumption
    · exact ih h

/-- `MUGGLE_IDX_IN_POW_OF_2_RING` is `mod` for a power-of-two capacity -/
theorem ringIdx_pow2 (x e : Nat) : ringIdx x (2 ^ e) = x % 2 ^ e := by
  simp [ringIdx, Nat.and_two_pow_sub_one_eq_mod]

theorem succ_mod_mod (n c : Nat) : (n % c + 1) % c = (n + 1) % c := by
  rw [Nat.add_mod (n % c) 1 c, Nat.mod_mod, ← Nat.add_mod]

/-- two positions less than a capacity apart with the same slot are the same position -/
theorem pos_eq_of_mod_eq {a b c : Nat} (h : a % c = b % c) (hab : a ≤ b) (hbc : b < a + c) : a = b := by
  have h0 : (b - a) % c = 0 := Nat.sub_mod_eq_zero_of_mod_eq h.symm
  have hlt : b - a < c := by omega
  rw [Nat.mod_eq_of_lt hlt] at h0
  omega

/-- wrap of the 32-bit reader index is harmless: the capacity divides `2^32` -/
theorem idx_wrap (base j e : Nat) (he : e ≤ 32) :
    ((base + j) % 2 ^ 32) % 2 ^ e = (base % 2 ^ e + j) % 2 ^ e := by
  have hd : 2 ^ e ∣ 2 ^ 32 := Nat.pow_dvd_pow 2 he
  rw [Nat.mod_mod_of_dvd _ hd, Nat.mod_add_mod]

theorem mem_join {a b : List Nat} {m : Nat} : m ∈ join a b ↔ m ∈ a ∨ m ∈ b := by
  simp only [join, List.mem_append, List.mem_filter]
  constructor
  · rintro (h | ⟨h, _⟩)
    · exact Or.inl h
    · exact Or.inr h
  · rintro (h | h)
    · exact Or.inl h
    · by_cases ha : m ∈ a
      · exact Or.inl ha
      · exact Or.inr ⟨h, by simpa using ha⟩

theorem take_succ_of_getElem? {α : Type} {l : List α} {k : Nat} {x : α} (h : l[k]? = some x) :
    l.take (k + 1) = l.take k ++ [x] := by
  rw [List.take_add_one, h]; rfl

end MgProof.C02
