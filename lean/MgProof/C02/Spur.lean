import MgProof.C02.LemmasE
import MgProof.C02.LemmasG
/-! The spurious return of `futex_wait` (schedule flag `~`, `spurSt`): a reader parked in the
futex goes back to the top of its loop although nobody woke it. Every layer of the invariant is
preserved: the step only changes the pc of the parked reader from `rBlocked` to the pc a regular
wake-up would have led to. -/
namespace MgProof.C02
open MgModel.Conc MgModel.C02

theorem spur_eq {c : Cfg} {s s' : St} {t : Nat} (hs : spurSt c s t = some s') :
    s.pc t = .rBlocked ∧ s' = { s with pc := upd s.pc t (afterFutex c) } := by
  unfold spurSt at hs
  split at hs
  · simp only [Option.some.injEq] at hs
    exact ⟨by assumption, hs.symm⟩
  · simp at hs

theorem invA1_spur {c : Cfg} {s s' : St} {t : Nat} (h : InvA1 c s)
    (hs : spurSt c s t = some s') : InvA1 c s' := by
  obtain ⟨hb, rfl⟩ := spur_eq hs
  obtain ⟨h1, h2, h3, h4, h5, h6⟩ := h
  simp only [afterFutex]
  refine ⟨?_, ?_, ?_, ?_, ?_, ?_⟩ <;> (split <;> grind)

theorem invA2_spur {c : Cfg} {s s' : St} {t : Nat} (h : InvA2 c s)
    (hs : spurSt c s t = some s') : InvA2 c s' := by
  obtain ⟨hb, rfl⟩ := spur_eq hs
  obtain ⟨h1, h2, h3⟩ := h
  simp only [afterFutex]
  refine ⟨?_, ?_, ?_⟩ <;> (split <;> grind)

theorem invB_spur {c : Cfg} {s s' : St} {t : Nat} (h : InvB c s)
    (hs : spurSt c s t = some s') : InvB c s' := by
  obtain ⟨hb, rfl⟩ := spur_eq hs
  obtain ⟨h1, h2⟩ := h
  have hq : inflight (afterFutex c) = false := by unfold afterFutex; split <;> rfl
  have ht : t < c.nT := by
    apply Classical.byContradiction; intro hn
    have := h1 t (by omega); simp [this] at hb
  refine ⟨?_, ?_⟩
  · intro u hu
    have : u ≠ t := by omega
    simp only [upd_other _ _ _ _ this]
    exact h1 u hu
  · have := cnt_upd s.pc c.nT t (afterFutex c) ht
    rw [hq, hb] at this
    have hbf : inflight Pc.rBlocked = false := rfl
    rw [hbf] at this
    simp only [Bool.false_eq_true, if_false] at this
    simp only
    omega

theorem invE_spur {c : Cfg} {s s' : St} {t : Nat} (h : InvE c s)
    (hs : spurSt c s t = some s') : InvE c s' := by
  obtain ⟨hb, rfl⟩ := spur_eq hs
  obtain ⟨h1, h2, h3, h4, h5, h6, h7, h8, h9, h10⟩ := h
  simp only [afterFutex]
  refine ⟨?_, ?_, ?_, ?_, ?_, ?_, ?_, ?_, ?_, ?_⟩ <;> (split <;> grind)

theorem invC_spur {c : Cfg} (hm : c.rm ≠ .once) {s s' : St} {t : Nat} (h : InvC c s)
    (hs : spurSt c s t = some s') : InvC c s' := by
  obtain ⟨hb, rfl⟩ := spur_eq hs
  obtain ⟨h1, h2, h3, h4, h5, h6, h7⟩ := h
  have hq : afterFutex c = .rLdCur := by unfold afterFutex; split <;> simp_all
  rw [hq]
  refine ⟨?_, ?_, ?_, ?_, ?_, ?_, ?_⟩ <;> grind

theorem invD_spur {c : Cfg} (hm : c.rm = .once) {s s' : St} {t : Nat} (h : InvD c s)
    (hs : spurSt c s t = some s') : InvD c s' := by
  obtain ⟨hb, rfl⟩ := spur_eq hs
  have hq : afterFutex c = .oLdCur := by unfold afterFutex; simp [hm]
  rw [hq]
  obtain ⟨h1, h2, h3, h4, h5, h6, h7, h8, h9, h10, h11, h12, h13, h14, h15, h16⟩ := h
  refine ⟨?_, ?_, ?_, ?_, ?_, ?_, ?_, ?_, ?_, ?_, ?_, ?_, ?_, ?_, ?_, ?_⟩ <;> grind

theorem invG_spur {c : Cfg} {s s' : St} {t : Nat} (g : InvG c s)
    (hs : spurSt c s t = some s') : InvG c s' := by
  obtain ⟨hb, rfl⟩ := spur_eq hs
  obtain ⟨h1, h2, h3, h4, h5⟩ := g
  simp only [afterFutex]
  refine ⟨?_, ?_, ?_, ?_, ?_⟩ <;> (split <;> grind)

end MgProof.C02
