import MgProof.C02.Lemmas
/-! Layer B: the harness's throttle counter `started` equals the number of published messages
plus the number of write calls in flight; threads beyond `nT` never run. -/
namespace MgProof.C02
open MgModel.Conc MgModel.C02

/-- number of threads below `n` whose write call is in flight -/
def cnt (pc : Nat → Pc) : Nat → Nat
  | 0 => 0
  | n + 1 => cnt pc n + (if inflight (pc n) = true then 1 else 0)

theorem cnt_congr {pc pc' : Nat → Pc} (n : Nat) (h : ∀ i, i < n → inflight (pc' i) = inflight (pc i)) :
    cnt pc' n = cnt pc n := by
  induction n with
  | zero => rfl
  | succ n ih =>
    simp only [cnt]
    rw [ih (fun i hi => h i (by omega)), h n (by omega)]

theorem cnt_upd_ge (pc : Nat → Pc) (n t : Nat) (q : Pc) (h : n ≤ t) : cnt (upd pc t q) n = cnt pc n := by
  apply cnt_congr
  intro i hi
  have : i ≠ t := by omega
  simp [upd, this]

/-- changing the pc of one thread below `n` -/
theorem cnt_upd (pc : Nat → Pc) (n t : Nat) (q : Pc) (h : t < n) :
    cnt (upd pc t q) n + (if inflight (pc t) = true then 1 else 0) =
      cnt pc n + (if inflight q = true then 1 else 0) := by
  induction n with
  | zero => omega
  | succ n ih =>
    simp only [cnt]
    by_cases htn : t = n
    · subst htn
      rw [cnt_upd_ge pc t t q (Nat.le_refl _)]
      simp only [upd_same]
      omega
    · have := ih (by omega)
      have hne : upd pc t q n = pc n := by
        have : n ≠ t := fun h' => htn h'.symm
        simp [upd, this]
      rw [hne]
      omega

theorem cnt_wakeAll (pc : Nat → Pc) (n : Nat) : cnt (wakeAll pc) n = cnt pc n :=
  cnt_congr n (fun i _ => by simp only [wakeAll]; split <;> simp_all [inflight])

theorem firstBlocked_lt {pc : Nat → Pc} {k i r : Nat} (h : firstBlocked pc k i = some r) : r < i + k := by
  induction k generalizing i with
  | zero => simp [firstBlocked] at h
  | succ k ih =>
    simp only [firstBlocked] at h
    split at h
    · injection h with h; omega
    · have := ih h; omega

structure InvB (c : Cfg) (s : St) : Prop where
  dn  : ∀ t, c.nT ≤ t → s.pc t = .done
  cntS : s.started = s.written.length + cnt s.pc c.nT

theorem cnt_init (c : Cfg) (n : Nat) : cnt (fun t => if t < c.nT then Pc.start else Pc.done) n = 0 := by
  induction n with
  | zero => rfl
  | succ n ih => simp only [cnt, ih]; split <;> simp [inflight]

theorem invB_init (c : Cfg) : InvB c (mkInit c) := by
  refine ⟨?_, ?_⟩
  · intro t ht; simp only [mkInit]; split
    · omega
    · rfl
  · simp only [mkInit, cnt_init, preMsgs, List.length_map, List.length_range, Nat.add_zero]

theorem invB_step_dn {c : Cfg} {s s' : St} {t : Nat} (b : InvB c s)
    (hs : stepSt c s t = some s') : ∀ t, c.nT ≤ t → s'.pc t = .done := by
  obtain ⟨b1, b2⟩ := b
  have hfb : ∀ r, firstBlocked s.pc c.nT 0 = some r → r < c.nT := fun r h => by
    have := firstBlocked_lt h; omega
  step_split
  all_goals grind

/-- the stepping thread is a real thread -/
theorem step_tid_lt {c : Cfg} {s s' : St} {t : Nat} (b : InvB c s) (hs : stepSt c s t = some s') :
    t < c.nT := by
  by_cases h : t < c.nT
  · exact h
  · have := b.dn t (by omega)
    simp [stepSt, St.enabled, this] at hs

theorem invB_step_cnt {c : Cfg} {s s' : St} {t : Nat} (b : InvB c s)
    (hs : stepSt c s t = some s') : s'.started = s'.written.length + cnt s'.pc c.nT := by
  have ht := step_tid_lt b hs
  obtain ⟨b1, b2⟩ := b
  have hfb : ∀ r, firstBlocked s.pc c.nT 0 = some r → r < c.nT := fun r h => by
    have := firstBlocked_lt h; omega
  have hu := fun q => cnt_upd s.pc c.nT t q ht
  have hw := cnt_wakeAll s.pc c.nT
  have huw := fun q => cnt_upd (wakeAll s.pc) c.nT t q ht
  have hur := fun r q (hr : r < c.nT) => cnt_upd s.pc c.nT r q hr
  have hurt := fun r q q' (hr : r < c.nT) => cnt_upd (upd s.pc r q') c.nT t q ht
  step_split
  all_goals grind

theorem invB_step {c : Cfg} {s s' : St} {t : Nat} (b : InvB c s)
    (hs : stepSt c s t = some s') : InvB c s' :=
  ⟨invB_step_dn b hs, invB_step_cnt b hs⟩

end MgProof.C02
