import MgProof.C02.LemmasE
import MgProof.C02.Spur
/-! The combined invariant of the ring-buffer model, its preservation by every step, and the
lift to every reachable state (all schedules, all lengths, any number of writers and readers). -/
namespace MgProof.C02
open MgModel.Conc MgModel.C02

/-- read-once: what every reader was handed is its share of the consumption order -/
def GotD (s : St) : Prop :=
  ∀ t, s.got t = (s.delivered.filter (fun x => x.2 == t)).map Prod.fst

structure InvAll (c : Cfg) (s : St) : Prop where
  a1 : InvA1 c s
  a2 : InvA2 c s
  b  : InvB c s
  e  : InvE c s
  oob : s.oob = 0
  k  : c.rm ≠ .once → InvC c s
  d  : c.rm = .once → InvD c s ∧ GotD s

theorem ehyp_of_C {c : Cfg} {e : Nat} (wf : WF c e) (hm : c.rm ≠ .once) {s : St} (t : Nat)
    (a1 : InvA1 c s) (a2 : InvA2 c s) (b : InvB c s) (k : InvC c s) : EHyp c s t := by
  have hno : ∀ u, onceIn (s.pc u) = true → False := fun u h => by
    have := isOnce_of_onceIn h; rw [k.noOnce u] at this; exact absurd this (by decide)
  have hrp := rposOf_eq wf hm s t
  refine ⟨fun u v hu _ => (hno u hu).elim, ?_, ?_, ?_, ?_, ?_⟩
  · intro h; exact (hno t (by simp [h, onceIn])).elim
  · intro v h; exact (hno t (by simp [h, onceIn])).elim
  · intro h
    have hr : isRd (s.pc t) = true := by simp [h, isRd]
    have h1 := k.roleR t hr
    have h2 := k.act t hr
    have h3 : t < c.nT := by
      by_cases h3 : t < c.nT
      · exact h3
      · have := b.dn t (by omega); rw [this] at h; cases h
    have h4 := k.nolap t h1 h3 h2
    have h5 := k.rsl t h
    have h6 := b.cntS
    have h7 := wf.hlim
    rw [hrp]
    exact ⟨Nat.mod_lt _ wf.cap_pos, a2.blk _ h5 (by omega)⟩
  · intro _ hne
    have h1 := k.le t
    have h2 := a1.cur
    rw [hrp, h2] at hne
    by_cases h3 : c.pre + s.rk t = s.written.length
    · rw [h3] at hne; exact absurd rfl hne
    · omega
  · intro i h; exact (hno t (by simp [h, onceIn])).elim

theorem ehyp_of_D {c : Cfg} {e : Nat} (wf : WF c e) {s : St} (t : Nat)
    (a2 : InvA2 c s) (b : InvB c s) (d : InvD c s) : EHyp c s t := by
  refine ⟨fun u v hu hv => d.exclM u v (holder_of_onceIn hu) (holder_of_onceIn hv), fun _ => d.dle,
    fun _ _ => d.rc, ?_, ?_, ?_⟩
  · intro h; exact absurd h (d.noRd t).2
  · intro h; exact absurd h (d.noRd t).1
  · intro i h
    have hr : isOR (s.pc t) = true := by simp [h, isOR]
    have h1 := d.roleO t hr
    have h2 := d.actO t hr
    have h3 : t < c.nT := by
      by_cases h3 : t < c.nT
      · exact h3
      · have := b.dn t (by omega); rw [this] at h; cases h
    have h4 := d.nolapO t h1 h3 h2
    have h5 := d.l3 t i h
    have h6 := b.cntS
    have h7 := wf.hlim
    have h8 := d.td
    rw [h5.1]
    exact ⟨Nat.mod_lt _ wf.cap_pos, a2.blk _ h5.2 (by omega)⟩

theorem oob_step {c : Cfg} {e : Nat} (wf : WF c e) {s s' : St} {t : Nat}
    (a2 : InvA2 c s) (y : EHyp c s t) (h0 : s.oob = 0) (hs : stepSt c s t = some s') : s'.oob = 0 := by
  have hml : s.written.length % c.cap < c.cap := Nat.mod_lt _ wf.cap_pos
  have g1 := a2.locW; have y3 := y.rdv; have y5 := y.ov
  clear a2 y
  step_split
  all_goals grind

theorem gotD_step {c : Cfg} {s s' : St} {t : Nat} (d : InvD c s) (g : GotD s)
    (hs : stepSt c s t = some s') : GotD s' := by
  have d3 := d.noRd
  have hf : ∀ (m u : Nat), (s.delivered ++ [(m, t)]).filter (fun x => x.2 == u) =
      s.delivered.filter (fun x => x.2 == u) ++ (if t = u then [(m, t)] else []) := by
    intro m u
    rw [List.filter_append]
    by_cases h : t = u <;> simp [h]
  clear d
  unfold GotD at g ⊢
  step_split
  all_goals grind

theorem inv_init {c : Cfg} {e : Nat} (wf : WF c e) : InvAll c (mkInit c) :=
  ⟨invA1_init c e wf, invA2_init c e wf, invB_init c, invE_init c, rfl, fun _ => invC_init c,
   fun hm => ⟨invD_init c hm, fun _ => rfl⟩⟩

theorem inv_step {c : Cfg} {e : Nat} (wf : WF c e) {s s' : St} {t : Nat} (h : InvAll c s)
    (hs : stepSt c s t = some s') : InvAll c s' := by
  have y : EHyp c s t := by
    by_cases hm : c.rm = .once
    · exact ehyp_of_D wf t h.a2 h.b (h.d hm).1
    · exact ehyp_of_C wf hm t h.a1 h.a2 h.b (h.k hm)
  exact ⟨invA1_step wf h.a1 hs, invA2_step wf h.a1 h.a2 hs, invB_step h.b hs,
    invE_step wf h.a1 h.e y hs, oob_step wf h.a2 y h.oob hs,
    fun hm => invC_step wf hm h.a1 h.a2 h.b (h.k hm) hs,
    fun hm => ⟨invD_step wf hm h.a1 h.a2 h.b (h.d hm).1 hs, gotD_step (h.d hm).1 (h.d hm).2 hs⟩⟩

/-- a spurious return of `futex_wait` preserves the invariant -/
theorem inv_spur {c : Cfg} {s s' : St} {t : Nat} (h : InvAll c s)
    (hs : spurSt c s t = some s') : InvAll c s' := by
  have heq := (spur_eq hs).2
  refine ⟨invA1_spur h.a1 hs, invA2_spur h.a2 hs, invB_spur h.b hs, invE_spur h.e hs, ?_,
    fun hm => invC_spur hm (h.k hm) hs, fun hm => ⟨invD_spur hm (h.d hm).1 hs, ?_⟩⟩
  · rw [heq]; exact h.oob
  · have g := (h.d hm).2
    unfold GotD at g ⊢
    rw [heq]; exact g

/-- a step of the interleaving semantics is a spurious futex return or a regular step -/
theorem step_cases {c : Cfg} {s s' : St} {tok : Tok} {ev : List String}
    (hs : step c s tok = some (s', ev)) :
    spurSt c s tok.tid = some s' ∨ stepSt c s tok.tid = some s' := by
  simp only [step] at hs
  split at hs
  · simp only [Option.map_eq_some_iff] at hs
    obtain ⟨s1, hs1, heq⟩ := hs
    cases heq
    exact Or.inl hs1
  · simp only [Option.map_eq_some_iff] at hs
    obtain ⟨s1, hs1, heq⟩ := hs
    cases heq
    exact Or.inr hs1

/-- the invariant holds after every schedule (spurious futex returns included) -/
theorem inv_reach {c : Cfg} {e : Nat} (wf : WF c e) {s : St} (hr : Reach (step c) (mkInit c) s) :
    InvAll c s := by
  refine Reach.inv (InvAll c) (inv_init wf) ?_ s hr
  intro s tok s' ev h hs
  rcases step_cases hs with hs1 | hs1
  · exact inv_spur h hs1
  · exact inv_step wf h hs1

end MgProof.C02
