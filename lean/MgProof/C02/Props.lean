import MgProof.C02.Assemble
import MgProof.C02.LemmasG
import MgProof.C02.LemmasH
/-!
# C02 — ring buffer: one total write order; read `i` = `i`-th message; read-once exactly once; HB

Property theorems over the step model `MgModel.C02` (one step = one shared-memory access or
blocking primitive of the compiled `ring_buffer.c`, `spinlock.c`). Everything is quantified over

* every configuration `c` with `WF c e`: power-of-two capacity `2^e` (`e ≤ 32`, what
  `muggle_ring_buffer_init` produces), any number of writers and readers (`nW ≤ 1` only when the
  single-writer flag is used — the user guarantee that comes with the flag), any number of
  messages per writer and reads per reader, any 32-bit start index `base` (including values
  whose successors wrap `2^32`), any throttle limit `lim ≤ cap - 1` — the documented no-lapping
  precondition, enforced by the harness's throttle, which the model contains;
* every reader/writer mode (locked / single writer; wait, single-wait, busy-loop, read-once);
* every reachable state `Reach (step c) (mkInit c) s`, i.e. every schedule of every length.

`written` is the ghost list of messages in the order of the release stores of `cursor`.
-/
namespace MgProof.C02
open MgModel.Conc MgModel.C02

/-! ## Clause 1: a single total write order; `read i` returns exactly its `i`-th message -/

/-- **One total order / read `i` = `i`-th message** (wait, single-wait and busy-loop readers).
In every reachable state, what reader `t` has been handed by its first `rk t` calls
`read(base), read(base+1), …` is exactly the segment `written[pre], …, written[pre + rk t - 1]`
of the single write order (`pre = base mod cap` messages precede index `base`): no loss, no
duplicate, no reordering, no message of another position, for every reader. -/
theorem read_returns_ith_message {c : Cfg} {e : Nat} (wf : WF c e) (hm : c.rm ≠ .once) {s : St}
    (hr : Reach (step c) (mkInit c) s) (t : Nat) :
    s.got t = (s.written.drop c.pre).take (s.rk t) ∧ (s.got t).length = s.rk t := by
  have k := (inv_reach wf hr).k hm
  refine ⟨k.got t, ?_⟩
  rw [k.got t, List.length_take, List.length_drop]
  have := k.le t
  omega

/-- **Every reader sees the same order**: of two readers the one that has read less holds a
prefix of what the other one holds. -/
theorem readers_agree {c : Cfg} {e : Nat} (wf : WF c e) (hm : c.rm ≠ .once) {s : St}
    (hr : Reach (step c) (mkInit c) s) (t u : Nat) (h : s.rk t ≤ s.rk u) : s.got t <+: s.got u := by
  rw [(read_returns_ith_message wf hm hr t).1, (read_returns_ith_message wf hm hr u).1]
  exact List.take_prefix_take_left h

/-- **Blocking until it exists**: a read never returns a message that has not been published —
the number of messages handed to a reader never exceeds what `written` holds beyond `pre`; and a
reader that has decided to fetch its slot (`rSlot`) does so only when its message exists. -/
theorem read_only_after_written {c : Cfg} {e : Nat} (wf : WF c e) (hm : c.rm ≠ .once) {s : St}
    (hr : Reach (step c) (mkInit c) s) (t : Nat) :
    c.pre + s.rk t ≤ s.written.length ∧ (s.pc t = .rSlot → c.pre + s.rk t < s.written.length) :=
  ⟨((inv_reach wf hr).k hm).le t, ((inv_reach wf hr).k hm).rsl t⟩

/-- **Wrap of the 32-bit reader index is harmless** (a lemma, not an assumption): the slot the
reader looks at for its `j`-th call, computed by the C code from the wrapped 32-bit index
`(base + j) mod 2^32` with two maskings, is the slot of position `pre + j` of the write order. -/
theorem index_wrap_harmless {c : Cfg} {e : Nat} (wf : WF c e) (hm : c.rm ≠ .once) (s : St) (t : Nat) :
    rposOf c s t = (c.pre + s.rk t) % c.cap := rposOf_eq wf hm s t

/-- **No lapping is maintained** by the throttle: the writers (published + in flight) are never a
full capacity ahead of any unfinished reader, and the cursor is the number of published messages
modulo capacity. -/
theorem no_lapping {c : Cfg} {e : Nat} (wf : WF c e) (hm : c.rm ≠ .once) {s : St}
    (hr : Reach (step c) (mkInit c) s) (t : Nat) (h1 : c.nW ≤ t) (h2 : t < c.nT) (h3 : s.rk t < c.nr) :
    s.written.length < c.pre + s.rk t + c.cap ∧ s.cursor = s.written.length % c.cap := by
  have i := inv_reach wf hr
  have := (i.k hm).nolap t h1 h2 h3
  have := i.b.cntS
  have := wf.hlim
  exact ⟨by omega, i.a1.cur⟩

/-- **Writers exclude each other on the write position** (locked mode: through the inlined
spinlock; single-writer mode: by the user guarantee), and a slot store never leaves `[0, cap)`:
no out-of-bounds access (`oob` counts them) in any mode. -/
theorem writers_exclusive_and_in_bounds {c : Cfg} {e : Nat} (wf : WF c e) {s : St}
    (hr : Reach (step c) (mkInit c) s) :
    (∀ t u, inW (s.pc t) = true → inW (s.pc u) = true → t = u) ∧ s.oob = 0 :=
  ⟨(inv_reach wf hr).a1.excl, (inv_reach wf hr).oob⟩

theorem invG_reach {c : Cfg} {e : Nat} (wf : WF c e) (ok : IdsOK c) {s : St}
    (hr : Reach (step c) (mkInit c) s) : InvAll c s ∧ InvG c s := by
  refine Reach.inv (fun s => InvAll c s ∧ InvG c s) ⟨inv_init wf, invG_init c⟩ ?_ s hr
  intro s tok s' ev h hs
  rcases step_cases hs with hs1 | hs1
  · exact ⟨inv_spur h.1 hs1, invG_spur h.2 hs1⟩
  · exact ⟨inv_step wf h.1 hs1, invG_step ok h.1.a1 h.2 hs1⟩

/-- **All writers' messages form a single total order**: the write order `written` (order of the
release stores of `cursor`) contains every published message exactly once — the `pre` prefilled
messages and, for every writer `t`, its first `pub s t` messages (`pub` = calls of
`muggle_ring_buffer_write` whose cursor store has happened): nothing is lost (`complete`), nothing
is duplicated (`Nodup`), nothing else gets in (`only`). Needs the harness's message naming to be
injective (`IdsOK`: at most 100 messages per writer, fewer than 100 prefilled). -/
theorem write_order_total {c : Cfg} {e : Nat} (wf : WF c e) (ok : IdsOK c) {s : St}
    (hr : Reach (step c) (mkInit c) s) :
    s.written.Nodup ∧
    (∀ t k, k < pub s t → msgId t k ∈ s.written) ∧
    (∀ m, 1 ≤ m → m ≤ c.pre → m ∈ s.written) ∧
    (∀ m, m ∈ s.written → (1 ≤ m ∧ m ≤ c.pre) ∨
      (100 ≤ m ∧ m / 100 - 1 < c.nW ∧ m % 100 < pub s (m / 100 - 1))) := by
  have g := (invG_reach wf ok hr).2
  exact ⟨g.nd, g.cmp, g.pre, g.dec⟩

/-! ## Clause 2: read-once — each message to exactly one reader, collectively in write order -/

/-- **Read-once: collectively in write order without loss or duplication.** The messages consumed
so far, in `read_mutex` acquisition order (`delivered`, each with the reader that got it), are
exactly the first `delivered.length` messages of the write order: position `i` of the write order
is consumed exactly once, by the reader `delivered[i].2`. -/
theorem read_once_in_write_order {c : Cfg} {e : Nat} (wf : WF c e) (hm : c.rm = .once) {s : St}
    (hr : Reach (step c) (mkInit c) s) :
    s.delivered.map Prod.fst = s.written.take s.delivered.length ∧
    s.delivered.length ≤ s.written.length :=
  ⟨((inv_reach wf hr).d hm).1.dl, ((inv_reach wf hr).d hm).1.dle⟩

/-- **Read-once: each message goes to exactly one of the competing readers**: what reader `t`
holds is exactly its share of the consumption order, so the readers' results partition the
consumed prefix of the write order (an entry of `delivered` names one reader). -/
theorem read_once_each_to_one_reader {c : Cfg} {e : Nat} (wf : WF c e) (hm : c.rm = .once) {s : St}
    (hr : Reach (step c) (mkInit c) s) (t : Nat) :
    s.got t = (s.delivered.filter (fun x => x.2 == t)).map Prod.fst :=
  ((inv_reach wf hr).d hm).2 t

/-- **Read-once readers exclude each other** (`read_mutex`), and the shared consumer position
`read_cursor` is the number of consumed messages modulo capacity; the writers are never a full
capacity ahead of the consumption point. -/
theorem read_once_consumer_position {c : Cfg} {e : Nat} (wf : WF c e) (hm : c.rm = .once) {s : St}
    (hr : Reach (step c) (mkInit c) s) :
    (∀ t u, holder (s.pc t) = true → holder (s.pc u) = true → t = u) ∧
    s.readCursor = s.delivered.length % c.cap ∧
    ((∃ u, c.nW ≤ u ∧ u < c.nT ∧ s.rk u < c.nr) → s.written.length < s.delivered.length + c.cap) := by
  have i := inv_reach wf hr
  have d := (i.d hm).1
  refine ⟨d.exclM, d.rc, ?_⟩
  rintro ⟨u, h1, h2, h3⟩
  have := d.nolapO u h1 h2 h3
  have := d.td
  have := i.b.cntS
  have := wf.hlim
  omega

/-- **Read-once: no message is handed out twice** (by identity, not only by position): the consumed
messages are pairwise distinct. -/
theorem read_once_no_duplicates {c : Cfg} {e : Nat} (wf : WF c e) (ok : IdsOK c) (hm : c.rm = .once)
    {s : St} (hr : Reach (step c) (mkInit c) s) : (s.delivered.map Prod.fst).Nodup := by
  rw [(read_once_in_write_order wf hm hr).1]
  exact (write_order_total wf ok hr).1.sublist (List.take_sublist _ _)

/-! ## Clause 3: what the producer stored before writing is visible to every receiving reader -/

/-- **Payload visibility (happens-before).** `know t` is the set of messages whose payload thread
`t` is guaranteed to see (its own stores + everything joined through acquire operations from
release operations). No reader is ever handed a message outside `know` (`hbViol` counts such
hand-overs at the return of `muggle_ring_buffer_read`), in every mode: the release store of
`cursor` publishes all earlier messages (the spinlock hands the writers' knowledge on), the
reader's acquire load of `cursor` joins them. -/
theorem payload_visible {c : Cfg} {e : Nat} (wf : WF c e) {s : St}
    (hr : Reach (step c) (mkInit c) s) :
    s.hbViol = 0 ∧ (∀ m, m ∈ s.written → m ∈ s.relCursor) ∧
    (∀ t m, s.pc t = .oUnlock m → m ∈ s.know t) ∧
    (∀ t, s.pc t = .rSlot → ∀ m, s.written[c.pre + s.rk t]? = some m → m ∈ s.know t) := by
  have x := (inv_reach wf hr).e
  exact ⟨x.hb, x.wr, fun t m h => x.o3 t m (Or.inr (Or.inr h)), fun t h => (x.rd t h).2⟩

/-- The executable specification used by the driver (`specOk`, printed as `# spec ok=…`) holds in
every reachable state. -/
theorem specOk_reachable {c : Cfg} {e : Nat} (wf : WF c e) {s : St}
    (hr : Reach (step c) (mkInit c) s) : specOk c s = true := by
  have i := inv_reach wf hr
  simp only [specOk, Bool.and_eq_true, beq_iff_eq]
  refine ⟨⟨i.e.hb, i.oob⟩, ?_⟩
  split
  · rename_i hm
    simp only [onceOk, beq_iff_eq]
    exact ((i.d hm).1).dl
  · rename_i hm
    rw [List.all_eq_true]
    intro t _
    simp only [Bool.or_eq_true, Bool.not_eq_true', readerOk, beq_iff_eq]
    right
    have := read_returns_ith_message wf hm hr t
    rw [this.2]; exact this.1

/-! ## End to end: a run that has terminated -/

theorem invH_reach {c : Cfg} {e : Nat} (wf : WF c e) (ok : IdsOK c) {s : St}
    (hr : Reach (step c) (mkInit c) s) : (InvAll c s ∧ InvG c s) ∧ InvH c s := by
  refine Reach.inv (fun s => (InvAll c s ∧ InvG c s) ∧ InvH c s)
    ⟨⟨inv_init wf, invG_init c⟩, invH_init c⟩ ?_ s hr
  intro s tok s' ev h hs
  rcases step_cases hs with hs1 | hs1
  · exact ⟨⟨inv_spur h.1.1 hs1, invG_spur h.1.2 hs1⟩, invH_spur h.2 hs1⟩
  · exact ⟨⟨inv_step wf h.1.1 hs1, invG_step ok h.1.1.a1 h.1.2 hs1⟩, invH_step h.1.1 h.1.2 h.2 hs1⟩

/-- **A terminated run exchanged everything** (wait / single-wait / busy readers): when every thread
has finished, every message of every writer is in the write order exactly once and every reader
has been handed exactly the `nr` messages `written[pre], …, written[pre+nr-1]` it asked for. -/
theorem terminated_run_complete {c : Cfg} {e : Nat} (wf : WF c e) (ok : IdsOK c) (hm : c.rm ≠ .once)
    {s : St} (hr : Reach (step c) (mkInit c) s) (hdone : ∀ t, t < c.nT → s.pc t = .done) :
    s.written.Nodup ∧ (∀ t k, t < c.nW → k < c.nw → msgId t k ∈ s.written) ∧
    (∀ t, c.nW ≤ t → t < c.nT → s.got t = (s.written.drop c.pre).take c.nr) := by
  obtain ⟨⟨_, g⟩, h⟩ := invH_reach wf ok hr
  refine ⟨g.nd, ?_, ?_⟩
  · intro t k ht hk
    have hn : t < c.nT := by simp only [Cfg.nT]; omega
    have hd := hdone t hn
    have hw := (h.fin t hd hn).1 ht
    apply g.cmp
    simp only [pub, hd, published]
    simp; omega
  · intro t h1 h2
    have hd := hdone t h2
    have hrk := (h.fin t hd h2).2 h1
    rw [(read_returns_ith_message wf hm hr t).1, hrk]

/-- the hypothesis `WF.hcap` is what the real initialisation guarantees: a successful
`muggle_ring_buffer_init` (as modelled by `initRing`, compared with the real function on every
flag combination and on capacities incl. the `int` overflow edge) stores a power of two. -/
theorem init_capacity_pow2 {capreq flag cap : Nat} {w : WMode} {r : RMode}
    (h : initRing capreq flag = .ok (cap, w, r)) : ∃ e, e ≤ 32 ∧ cap = 2 ^ e := initRing_pow2 h

/-! ## Non-vacuity and the necessity of the precondition -/

/-- string-free runner used for the concrete witnesses below -/
def runSt (c : Cfg) : St → List Nat → St
  | s, [] => s
  | s, t :: ts => match stepSt c s t with
    | some s' => runSt c s' ts
    | none => s

theorem reach_runSt (c : Cfg) (s : St) (hr : Reach (step c) (mkInit c) s) (ts : List Nat) :
    Reach (step c) (mkInit c) (runSt c s ts) := by
  induction ts generalizing s with
  | nil => exact hr
  | cons t ts ih =>
    simp only [runSt]
    cases h : stepSt c s t with
    | none => exact hr
    | some s' =>
      exact ih s' (Reach.step (t := { tid := t }) (ev := stepEv c s t) hr (by simp [step, h]))

/-- capacity 2, locked writers, waiting readers, 1 writer × 2 messages, 1 reader × 2 reads,
start index `2^32 - 1` (the second read wraps the 32-bit index), throttle limit `cap - 1` -/
def exCfg : Cfg :=
  { cap := 2, wm := .lock, rm := .wait, nW := 1, nR := 1, nw := 2, nr := 2, base := 2 ^ 32 - 1, lim := 1 }

theorem exCfg_wf : WF exCfg 1 := ⟨by decide, by decide, by decide, by decide⟩

theorem exCfg_ids : IdsOK exCfg := ⟨by decide, by decide⟩

/-- the hypotheses are satisfiable and the theorems talk about non-trivial states: a schedule in
which the reader parks in the futex, is woken by the writer, and both messages are delivered
across the wrap of the 32-bit index. -/
example : ∃ s, Reach (step exCfg) (mkInit exCfg) s ∧ s.written = [1, 100, 101] ∧ s.got 1 = [100, 101] ∧
    s.pc 0 = .done ∧ s.pc 1 = .done :=
  ⟨runSt exCfg (mkInit exCfg) [0, 1, 1, 1, 0, 0, 0, 0, 0, 0, 0, 1, 1, 1, 1, 1, 0, 0, 0, 0, 0, 0, 0, 0, 1, 1, 1],
   reach_runSt _ _ Reach.init _, by decide, by decide, by decide, by decide⟩

/-- the same ring with the throttle opened to `lim = cap + 1`: outside the documented
precondition (not `WF`) -/
def lapCfg : Cfg := { exCfg with base := 0, nw := 3, nr := 1, lim := 3 }

/-- **The no-lapping precondition is necessary** (negation witness, ABA on `cursor == idx`): when
the writers may get a full capacity ahead, a reader that has seen its message published is
overtaken between its cursor load and its slot read and returns a *later* message — the reachable
state below violates the statement of `read_returns_ith_message`. -/
theorem lapping_breaks_order : ∃ s, Reach (step lapCfg) (mkInit lapCfg) s ∧
    s.got 1 ≠ (s.written.drop lapCfg.pre).take (s.rk 1) :=
  ⟨runSt lapCfg (mkInit lapCfg)
     [0, 1, 0, 0, 0, 0, 0, 0, 0, 1, 0, 0, 0, 0, 0, 0, 0, 0, 0, 0, 0, 0, 0, 0, 1],
   reach_runSt _ _ Reach.init _, by decide⟩

end MgProof.C02
