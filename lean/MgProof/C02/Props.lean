import MgModel.C02.Ring
