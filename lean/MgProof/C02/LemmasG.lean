import MgProof.C02.LemmasB
/-! Layer G: the write order contains every published message exactly once — no write is lost,
none is duplicated, and nothing else gets in. Messages are identified by the harness's naming
scheme (`msgId t k = (t+1)*100 + k`, prefilled messages `1..pre`), which is injective for at most
100 messages per writer and fewer than 100 prefilled messages (`IdsOK`; the harness enforces
`nw ≤ 99`, `cap ≤ 64`). -/
namespace MgProof.C02
open MgModel.Conc MgModel.C02

/-- the current message of the writer is published, `muggle_ring_buffer_write` has not returned -/
@[grind] def published : Pc → Bool
  | .wUnlock | .wWake => true
  | .start | .thr | .wSpin | .wYield | .wRdCur1 | .wSlot _ | .wRdCur2 | .wStCur _
  | .rLdCur | .rSlot | .rFwait _ | .rBlocked | .rWoken
  | .oLock | .oLdCur | .oRc1 _ | .oRc2 | .oSlot _ | .oRc3 _ | .oWrRc _ _ | .oUnlock _ | .done => false

/-- number of messages writer `t` has published -/
def pub (s : St) (t : Nat) : Nat := s.wk t + (if published (s.pc t) = true then 1 else 0)

@[grind =] theorem pub_def (s : St) (t : Nat) :
    pub s t = s.wk t + (if published (s.pc t) = true then 1 else 0) := rfl

@[grind =] theorem msgId_def (t k : Nat) : msgId t k = (t + 1) * 100 + k := rfl

structure IdsOK (c : Cfg) : Prop where
  hnw  : c.nw ≤ 100
  hpre : c.pre < 100

structure InvG (c : Cfg) (s : St) : Prop where
  wklt : ∀ t, (inflight (s.pc t) = true ∨ published (s.pc t) = true) → s.wk t < c.nw
  nd   : s.written.Nodup
  dec  : ∀ m, m ∈ s.written → (1 ≤ m ∧ m ≤ c.pre) ∨
           (100 ≤ m ∧ m / 100 - 1 < c.nW ∧ m % 100 < pub s (m / 100 - 1))
  cmp  : ∀ t k, k < pub s t → msgId t k ∈ s.written
  pre  : ∀ m, 1 ≤ m → m ≤ c.pre → m ∈ s.written

theorem preMsgs_mem (p m : Nat) : m ∈ preMsgs p ↔ 1 ≤ m ∧ m ≤ p := by
  simp only [preMsgs, List.mem_map, List.mem_range]
  constructor
  · rintro ⟨a, ha, rfl⟩; omega
  · intro h; exact ⟨m - 1, by omega, by omega⟩

theorem preMsgs_nodup (p : Nat) : (preMsgs p).Nodup := by
  have h : (preMsgs p).Pairwise (· < ·) := by
    unfold preMsgs
    rw [List.pairwise_map]
    exact List.pairwise_lt_range.imp (by intro a b h; omega)
  exact h.imp (by intro a b h; omega)

theorem invG_init (c : Cfg) : InvG c (mkInit c) := by
  refine ⟨?_, preMsgs_nodup _, ?_, ?_, ?_⟩
  · intro t h; simp only [mkInit] at h; split at h <;> simp [inflight, published] at h
  · intro m hm
    simp only [mkInit] at hm
    exact Or.inl ((preMsgs_mem _ _).mp hm)
  · intro t k hk
    simp only [pub, mkInit] at hk
    split at hk <;> simp [published] at hk
  · intro m h1 h2
    simp only [mkInit]
    exact (preMsgs_mem _ _).mpr ⟨h1, h2⟩

theorem invG_step_a {c : Cfg} {s s' : St} {t : Nat} (g : InvG c s)
    (hs : stepSt c s t = some s') :
    (∀ t, (inflight (s'.pc t) = true ∨ published (s'.pc t) = true) → s'.wk t < c.nw) ∧
    (∀ m, 1 ≤ m → m ≤ c.pre → m ∈ s'.written) := by
  have g1 := g.wklt; have g5 := g.pre
  clear g
  step_split
  all_goals (refine ⟨?_, ?_⟩ <;> grind)

theorem invG_step_b {c : Cfg} (ok : IdsOK c) {s s' : St} {t : Nat} (a1 : InvA1 c s) (g : InvG c s)
    (hs : stepSt c s t = some s') : s'.written.Nodup := by
  have hnw := ok.hnw; have hpre := ok.hpre
  have hnd : ∀ x, x ∉ s.written → (s.written ++ [x]).Nodup := by
    intro x hx
    rw [List.nodup_append]
    refine ⟨g.nd, by simp, ?_⟩
    intro a ha b hb
    simp only [List.mem_singleton] at hb
    subst hb
    intro h
    exact hx (h ▸ ha)
  have hnew : inflight (s.pc t) = true → msgId t (s.wk t) ∉ s.written := by
    intro hi hmem
    have h1 := g.wklt t (Or.inl hi)
    have hp : published (s.pc t) = false := by
      cases hpc : s.pc t <;> simp_all [inflight, published]
    rcases g.dec _ hmem with h | ⟨_, _, h⟩
    · simp only [msgId] at h; omega
    · simp only [msgId, pub] at h
      have e1 : ((t + 1) * 100 + s.wk t) / 100 - 1 = t := by omega
      have e2 : ((t + 1) * 100 + s.wk t) % 100 = s.wk t := by omega
      simp only [e1, e2] at h
      simp [hp] at h
  have g2 := g.nd
  clear g a1
  step_split
  all_goals grind

theorem invG_step_c {c : Cfg} (ok : IdsOK c) {s s' : St} {t : Nat} (a1 : InvA1 c s) (g : InvG c s)
    (hs : stepSt c s t = some s') :
    ∀ m, m ∈ s'.written → (1 ≤ m ∧ m ≤ c.pre) ∨
      (100 ≤ m ∧ m / 100 - 1 < c.nW ∧ m % 100 < pub s' (m / 100 - 1)) := by
  have hnw := ok.hnw
  have h2 := a1.role
  have g1 := g.wklt; have g3 := g.dec
  have e1 : s.wk t < 100 → ((t + 1) * 100 + s.wk t) / 100 - 1 = t := by omega
  have e2 : s.wk t < 100 → ((t + 1) * 100 + s.wk t) % 100 = s.wk t := by omega
  have e3 : 100 ≤ (t + 1) * 100 + s.wk t := by omega
  clear g a1
  step_split
  all_goals grind

theorem invG_step_d {c : Cfg} {s s' : St} {t : Nat} (g : InvG c s)
    (hs : stepSt c s t = some s') : ∀ t k, k < pub s' t → msgId t k ∈ s'.written := by
  have g4 := g.cmp
  clear g
  step_split
  all_goals grind

theorem invG_step {c : Cfg} (ok : IdsOK c) {s s' : St} {t : Nat} (a1 : InvA1 c s) (g : InvG c s)
    (hs : stepSt c s t = some s') : InvG c s' :=
  ⟨(invG_step_a g hs).1, invG_step_b ok a1 g hs, invG_step_c ok a1 g hs, invG_step_d g hs,
   (invG_step_a g hs).2⟩

end MgProof.C02
