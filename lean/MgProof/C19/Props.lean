import MgProof.C19.Lemmas
/-!
# C19 — property theorems (flow controller)

Statement (properties.jsonl): for any non-decreasing sequence of request times the
controller with limit `n` per window `t` (starting as if `n` requests had been
admitted `init_forward` seconds before creation) admits a request exactly when
fewer than `n` admitted requests lie within the preceding `t`; the forced-update
variant records every request and returns the same verdict computed over all
requests; the tick-based controller agrees with the nanosecond one.

Quantifiers: every `n ≥ 1`, `t > 0`, every `init_forward`, every unit, every
operation list of every length (mixing both call kinds), every non-decreasing
timeline that does not start before the virtual initial admissions.
-/
namespace MgProof.C19
open MgModel.C19

/-- the timeline of an operation list is non-decreasing and starts at or after `lo` -/
def Mono : Int → List Op → Prop
  | _, [] => True
  | lo, op :: ops => lo ≤ op.now ∧ Mono op.now ops

/-- One API call: the model never fails, returns the specified verdict, and keeps
the representation invariant. -/
theorem step_refines {s : FC} {hist : List Int} (inv : Inv s hist) (op : Op)
    (hb : Below hist op.now) :
    ∃ s', step s op = .ok (s', (specStep s.t s.n hist op).2) ∧
      Inv s' (specStep s.t s.n hist op).1 ∧ s'.t = s.t ∧ s'.n = s.n ∧
      Below (specStep s.t s.n hist op).1 op.now := by
  obtain ⟨a, _, ha, hchk⟩ := check_ok inv op.now
  have hw := window_iff (t := s.t) (now := op.now) inv.npos inv.hlen inv.sorted ha
  have hv : specVerdict s.t s.n hist op.now = decide (op.now - a ≥ s.t) := by
    unfold specVerdict
    by_cases h : op.now - a ≥ s.t
    · simp [h, hw.mpr h]
    · have : ¬ inWindow s.t op.now hist < s.n := fun h' => h (hw.mp h')
      simp [h, this]
  obtain ⟨s', hu, inv', ht, hn⟩ := update_inv inv hb
  have hb' : Below (hist ++ [op.now]) op.now := by
    intro x hx
    simp at hx
    rcases hx with hx | hx
    · exact hb x hx
    · omega
  cases op with
  | cau x =>
    simp only [Op.now] at *
    by_cases h : x - a ≥ s.t
    · refine ⟨s', ?_, ?_, ht, hn, ?_⟩
      · simp [step, checkAndUpdate, hchk, hu, specStep, hv, h, bind, Except.bind, pure, Except.pure]
      · simpa [specStep, hv, h] using inv'
      · simpa [specStep, hv, h] using hb'
    · refine ⟨s, ?_, ?_, rfl, rfl, ?_⟩
      · simp [step, checkAndUpdate, hchk, specStep, hv, h, bind, Except.bind, pure, Except.pure]
      · simpa [specStep, hv, h] using inv
      · simpa [specStep, hv, h] using hb
  | cfu x =>
    simp only [Op.now] at *
    refine ⟨s', ?_, ?_, ht, hn, ?_⟩
    · simp [step, checkAndForceUpdate, hchk, hu, specStep, hv, bind, Except.bind, pure, Except.pure]
    · simpa [specStep] using inv'
    · simpa [specStep] using hb'

/-- **Main refinement theorem.** From any state satisfying the invariant, any
operation list over a non-decreasing timeline runs without error and returns
exactly the specification's verdicts. -/
theorem run_refines (ops : List Op) : ∀ {s : FC} {hist : List Int} {lo : Int},
    Inv s hist → Below hist lo → Mono lo ops →
    ∃ s', run s ops = .ok (s', (specRun s.t s.n hist ops).2) ∧
      Inv s' (specRun s.t s.n hist ops).1 := by
  induction ops with
  | nil => intro s hist lo inv _ _; exact ⟨s, rfl, inv⟩
  | cons op ops ih =>
    intro s hist lo inv hb hm
    obtain ⟨hlo, hm'⟩ := hm
    have hb1 : Below hist op.now := fun a ha => Int.le_trans (hb a ha) hlo
    obtain ⟨s1, hs1, inv1, ht, hn, hb2⟩ := step_refines inv op hb1
    obtain ⟨s2, hs2, inv2⟩ := ih inv1 hb2 hm'
    refine ⟨s2, ?_, ?_⟩
    · simp only [run, specRun, hs1, bind, Except.bind, pure, Except.pure]
      rw [ht, hn] at hs2
      simp [hs2]
    · simp only [specRun]
      rw [ht, hn] at inv2
      exact inv2

/-- **C19, verdicts.** A controller created by `init` (any unit: nanoseconds or
ticks) answers every history of `check_and_update` / `check_and_force_update` calls
over a non-decreasing timeline with exactly the specified verdict "fewer than `n`
recorded admissions lie within the preceding `t`", where the recorded admissions
start as `n` virtual ones at `-init_forward`. -/
theorem flow_controller_verdicts {u tsec fwd : Int} {n : Nat} {s : FC}
    (h : init u tsec n fwd = some s) (ops : List Op) (hm : Mono (-fwd * u) ops) :
    ∃ s', run s ops = .ok (s', (specRun (tsec * u) n (List.replicate n (-fwd * u)) ops).2) := by
  obtain ⟨inv, ht, hn⟩ := inv_init h
  have hb : Below (List.replicate n (-fwd * u)) (-fwd * u) := by
    intro a ha
    rw [List.mem_replicate] at ha
    omega
  obtain ⟨s', hr, _⟩ := run_refines ops inv hb hm
  rw [ht, hn] at hr
  exact ⟨s', hr⟩

/-- `init` fails exactly on `n = 0` or a non-positive window. -/
theorem init_fails_iff (u tsec fwd : Int) (n : Nat) :
    init u tsec n fwd = none ↔ (n = 0 ∨ tsec ≤ 0) := by
  unfold init
  by_cases h1 : n = 0 <;> by_cases h2 : tsec ≤ 0 <;> simp [h1, h2]

/-! ### Spacing: no more than `n` admissions in any window -/

/-- admissions `n` apart in the record are at least `t` apart in time -/
def Spaced (t : Int) (n : Nat) (hist : List Int) : Prop :=
  ∀ i a b, hist[i]? = some a → hist[i + n]? = some b → b - a ≥ t

theorem spaced_append {t : Int} {n : Nat} {hist : List Int} {x a : Int}
    (hn : 0 < n) (hlen : n ≤ hist.length)
    (hs : Spaced t n hist) (ha : hist[hist.length - n]? = some a) (hx : x - a ≥ t) :
    Spaced t n (hist ++ [x]) := by
  intro i p q hp hq
  by_cases hi : i + n < hist.length
  · rw [List.getElem?_append_left hi] at hq
    rw [List.getElem?_append_left (by omega)] at hp
    exact hs i p q hp hq
  · by_cases hi2 : i + n = hist.length
    · have hi3 : i = hist.length - n := by omega
      rw [List.getElem?_append_left (by omega)] at hp
      rw [hi3] at hp
      rw [hp] at ha
      injection ha with ha
      rw [hi2] at hq
      simp at hq
      omega
    · rw [List.getElem?_eq_none (by simp; omega)] at hq
      simp at hq

/-- only `check_and_update` calls -/
def OnlyCau : List Op → Prop
  | [] => True
  | .cau _ :: ops => OnlyCau ops
  | .cfu _ :: _ => False

theorem spaced_run (ops : List Op) : ∀ {t : Int} {n : Nat} {hist : List Int} {lo : Int}
    {s : FC}, Inv s hist → s.t = t → s.n = n → Below hist lo → Mono lo ops → OnlyCau ops →
    Spaced t n hist → Spaced t n (specRun t n hist ops).1 := by
  induction ops with
  | nil => intros; assumption
  | cons op ops ih =>
    intro t n hist lo s inv ht hn hb hm hc hs
    cases op with
    | cfu x => simp [OnlyCau] at hc
    | cau x =>
      obtain ⟨hlo, hm'⟩ := hm
      have hb1 : Below hist x := fun a ha => Int.le_trans (hb a ha) hlo
      obtain ⟨s1, _, inv1, ht1, hn1, hb2⟩ := step_refines inv (.cau x) hb1
      subst ht hn
      simp only [specRun]
      refine ih inv1 ht1 hn1 hb2 hm' hc ?_
      simp only [specStep]
      by_cases hv : specVerdict s.t s.n hist x = true
      · simp only [hv, if_true]
        obtain ⟨a, _, ha, _⟩ := check_ok inv x
        have hw := window_iff (t := s.t) (now := x) inv.npos inv.hlen inv.sorted ha
        have : x - a ≥ s.t := hw.mp (by simpa [specVerdict] using hv)
        exact spaced_append inv.npos inv.hlen hs ha this
      · simp only [hv]
        exact hs

/-- **C19, rate bound.** With `check_and_update` only, any two recorded admissions
that are `n` positions apart are at least `t` apart in time — so any `n + 1`
admissions span at least `t`: no half-open interval of length `t` holds more than
`n` of them (the admitted list is non-decreasing, see `Inv.sorted`). -/
theorem flow_controller_rate_bound {u tsec fwd : Int} {n : Nat} {s : FC}
    (h : init u tsec n fwd = some s) (ops : List Op) (hm : Mono (-fwd * u) ops)
    (hc : OnlyCau ops) :
    Spaced (tsec * u) n (specRun (tsec * u) n (List.replicate n (-fwd * u)) ops).1 := by
  obtain ⟨inv, ht, hn⟩ := inv_init h
  have hb : Below (List.replicate n (-fwd * u)) (-fwd * u) := by
    intro a ha
    rw [List.mem_replicate] at ha
    omega
  refine spaced_run ops inv ht hn hb hm hc ?_
  intro i a b _ hb'
  rw [List.getElem?_eq_none (by simp)] at hb'
  simp at hb'

theorem spaced_drop {t : Int} {n : Nat} {l : List Int} (hs : Spaced t n l) (k : Nat) :
    Spaced t n (l.drop k) := by
  intro i a b ha hb
  rw [List.getElem?_drop] at ha hb
  exact hs (k + i) a b ha (by rw [Nat.add_assoc]; exact hb)

/-- in a non-decreasing list whose elements `n` apart are `≥ t` apart, any half-open
interval `[x, x+t)` contains at most `n` elements -/
theorem window_count_le {t : Int} {n : Nat} {l : List Int} (x : Int)
    (hsort : l.Pairwise (· ≤ ·)) (hs : Spaced t n l) :
    l.countP (fun a => decide (x ≤ a ∧ a < x + t)) ≤ n := by
  -- split off the elements below x
  have hsplit := List.takeWhile_append_dropWhile (p := fun a => decide (a < x)) (l := l)
  have hcount : l.countP (fun a => decide (x ≤ a ∧ a < x + t)) =
      (l.dropWhile (fun a => decide (a < x))).countP (fun a => decide (x ≤ a ∧ a < x + t)) := by
    conv => lhs; rw [← hsplit]
    rw [List.countP_append]
    have : (l.takeWhile (fun a => decide (a < x))).countP (fun a => decide (x ≤ a ∧ a < x + t)) = 0 := by
      rw [List.countP_eq_zero]
      intro a ha
      have hall := List.all_takeWhile (l := l) (p := fun a => decide (a < x))
      have := List.all_eq_true.mp hall a ha
      simp at this
      simp; omega
    omega
  rw [hcount]
  generalize hd : l.dropWhile (fun a => decide (a < x)) = d
  have hdrop : d = l.drop (l.takeWhile (fun a => decide (a < x))).length := by
    rw [← hd]
    have h : l.drop (l.takeWhile (fun a => decide (a < x))).length =
        (l.takeWhile (fun a => decide (a < x)) ++ l.dropWhile (fun a => decide (a < x))).drop
          (l.takeWhile (fun a => decide (a < x))).length := by rw [hsplit]
    rw [h, List.drop_left' rfl]
  have hds : Spaced t n d := by rw [hdrop]; exact spaced_drop hs _
  have hdsort : d.Pairwise (· ≤ ·) := by
    rw [hdrop]; exact List.Pairwise.sublist (List.drop_sublist _ _) hsort
  by_cases hlen : d.length ≤ n
  · exact Nat.le_trans List.countP_le_length hlen
  · have hlen' : n < d.length := by omega
    cases d with
    | nil => simp at hlen'
    | cons d0 ds =>
      have hd0 : x ≤ d0 := by
        have hne : l.dropWhile (fun a => decide (a < x)) ≠ [] := by rw [hd]; simp
        have := List.head_dropWhile_not (fun a => decide (a < x)) hne
        simp [hd] at this
        exact this
      conv => lhs; rw [← List.take_append_drop n (d0 :: ds)]
      rw [List.countP_append]
      have h1 : ((d0 :: ds).take n).countP (fun a => decide (x ≤ a ∧ a < x + t)) ≤ n := by
        refine Nat.le_trans List.countP_le_length ?_
        simp; omega
      have h2 : ((d0 :: ds).drop n).countP (fun a => decide (x ≤ a ∧ a < x + t)) = 0 := by
        rw [List.countP_eq_zero]
        intro b hb
        obtain ⟨j, hj⟩ := List.getElem?_of_mem hb
        rw [List.getElem?_drop] at hj
        have hc : (d0 :: ds)[n]? = some ((d0 :: ds)[n]) := List.getElem?_eq_getElem hlen'
        have hct : (d0 :: ds)[n] - d0 ≥ t := hds 0 d0 _ (by simp) (by simp)
        have hjlt : n + j < (d0 :: ds).length := by
          by_cases hge : n + j < (d0 :: ds).length
          · exact hge
          · rw [List.getElem?_eq_none (by omega)] at hj
            simp at hj
        rw [List.getElem?_eq_getElem hjlt] at hj
        injection hj with hj
        have hcb : (d0 :: ds)[n] ≤ b := by
          by_cases hj0 : j = 0
          · subst hj0; simp at hj; omega
          · have hlt : n < n + j := by omega
            have := List.pairwise_iff_getElem.mp hdsort n (n + j) hlen' hjlt hlt
            omega
        simp; omega
      omega

/-- **C19, rate bound (interval form).** With `check_and_update` only, no half-open
interval `[x, x + t)` of length `t` — wherever it starts — contains more than `n`
recorded admissions (the `n` virtual initial ones included). -/
theorem flow_controller_no_window_exceeds_n {u tsec fwd : Int} {n : Nat} {s : FC}
    (h : init u tsec n fwd = some s) (ops : List Op) (hm : Mono (-fwd * u) ops)
    (hc : OnlyCau ops) (x : Int) :
    (specRun (tsec * u) n (List.replicate n (-fwd * u)) ops).1.countP
      (fun a => decide (x ≤ a ∧ a < x + tsec * u)) ≤ n := by
  obtain ⟨inv, ht, hn⟩ := inv_init h
  have hb : Below (List.replicate n (-fwd * u)) (-fwd * u) := by
    intro a ha
    rw [List.mem_replicate] at ha
    omega
  obtain ⟨s', _, inv'⟩ := run_refines ops inv hb hm
  rw [ht, hn] at inv'
  exact window_count_le x inv'.sorted (flow_controller_rate_bound h ops hm hc)

/-! ### Unit independence: the tick-based controller agrees with the nanosecond one -/

def scaleFC (k : Int) (s : FC) : FC :=
  { s with arr := s.arr.map (k * ·), t := k * s.t }

def scaleOp (k : Int) : Op → Op
  | .cau x => .cau (k * x)
  | .cfu x => .cfu (k * x)

theorem init_scale (k u tsec fwd : Int) (n : Nat) :
    init (k * u) tsec n fwd = (init u tsec n fwd).map (scaleFC k) := by
  unfold init
  by_cases h1 : n = 0 <;> by_cases h2 : tsec ≤ 0 <;> simp [h1, h2, scaleFC]
  constructor
  · rw [Int.mul_left_comm, Int.neg_mul]
  · rw [Int.mul_left_comm]

theorem step_scale {k : Int} (hk : 0 < k) (s : FC) (op : Op) :
    step (scaleFC k s) (scaleOp k op) =
      (step s op).map (fun p => (scaleFC k p.1, p.2)) := by
  have hchk : ∀ x, check (scaleFC k s) (k * x) = check s x := by
    intro x
    unfold check scaleFC
    simp only [List.getElem?_map]
    cases s.arr[s.cursor]? with
    | none => rfl
    | some a =>
      simp only [Option.map]
      congr 1
      rw [← Int.mul_sub]
      by_cases h : x - a ≥ s.t
      · have : k * (x - a) ≥ k * s.t := Int.mul_le_mul_of_nonneg_left h (Int.le_of_lt hk)
        simp [h, this]
      · have h' : x - a < s.t := by omega
        have : k * (x - a) < k * s.t := Int.mul_lt_mul_of_pos_left h' hk
        have : ¬ k * (x - a) ≥ k * s.t := by omega
        simp [h, this]
  have hupd : ∀ x, update (scaleFC k s) (k * x) = (update s x).map (scaleFC k) := by
    intro x
    unfold update scaleFC
    by_cases h : s.cursor < s.arr.length
    · simp [h, Except.map, List.map_set]
    · simp [h, Except.map]
  cases op with
  | cau x =>
    simp only [step, scaleOp, checkAndUpdate, hchk, hupd]
    cases check s x with
    | error e => rfl
    | ok b =>
      cases b with
      | false => rfl
      | true =>
        cases update s x with
        | error e => rfl
        | ok s' => rfl
  | cfu x =>
    simp only [step, scaleOp, checkAndForceUpdate, hchk, hupd]
    cases check s x with
    | error e => rfl
    | ok b =>
      cases update s x with
      | error e => rfl
      | ok s' => rfl

/-- **C19, unit independence.** Scaling the unit, the window and the whole
timeline by any `k > 0` changes no verdict: the controller counting in ticks
(`k·u` per second) agrees with the controller counting in the base unit. Hence the
tick-based fast controller and the nanosecond controller, each a scaling of a
common base timeline, agree with each other. -/
theorem scale_invariant {k : Int} (hk : 0 < k) (ops : List Op) (s : FC) :
    run (scaleFC k s) (ops.map (scaleOp k)) =
      (run s ops).map (fun p => (scaleFC k p.1, p.2)) := by
  induction ops generalizing s with
  | nil => rfl
  | cons op ops ih =>
    simp only [List.map, run, step_scale hk]
    cases step s op with
    | error e => rfl
    | ok p =>
      obtain ⟨s1, b⟩ := p
      simp only [Except.map, bind, Except.bind]
      rw [ih]
      cases run s1 ops with
      | error e => rfl
      | ok q => rfl

/-! ### Non-vacuity: the hypotheses are met by a concrete, non-trivial history -/

example : ∃ s, init 1000000000 1 2 0 = some s ∧
    Mono (-0 * 1000000000) [.cau 0, .cau 1000000000, .cfu 1000000005, .cau 1999999999,
      .cau 2000000000] ∧
    (specRun (1 * 1000000000) 2 (List.replicate 2 (-0 * 1000000000))
      [.cau 0, .cau 1000000000, .cfu 1000000005, .cau 1999999999, .cau 2000000000]).2
      = [false, true, true, false, true] := by
  refine ⟨_, rfl, by simp [Mono, Op.now], by decide⟩

end MgProof.C19
