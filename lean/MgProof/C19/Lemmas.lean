import MgModel.C19.FlowCtl
/-! Helper lemmas for C19. Property theorems live in `Props.lean`. -/
namespace MgProof.C19
open MgModel.C19

/-- The representation invariant tying the C state (`arr`, `cursor`) to the
specification state `hist` (all recorded admissions, oldest first): the ring read
from `cursor` is exactly the last `n` recorded admissions, and `hist` is
non-decreasing. -/
structure Inv (s : FC) (hist : List Int) : Prop where
  npos   : 0 < s.n
  len    : s.arr.length = s.n
  cur    : s.cursor < s.n
  hlen   : s.n ≤ hist.length
  ring   : s.arr.drop s.cursor ++ s.arr.take s.cursor = hist.drop (hist.length - s.n)
  sorted : hist.Pairwise (· ≤ ·)

/-- every recorded admission is `≤ now` (the timeline is non-decreasing) -/
def Below (hist : List Int) (now : Int) : Prop := ∀ a ∈ hist, a ≤ now

theorem inv_init {u tsec fwd : Int} {n : Nat} {s : FC} (h : init u tsec n fwd = some s) :
    Inv s (List.replicate n (-fwd * u)) ∧ s.t = tsec * u ∧ s.n = n := by
  unfold init at h
  split at h
  · simp at h
  · split at h
    · simp at h
    · injection h with h
      subst h
      refine ⟨⟨by simp; omega, by simp, by simp; omega, by simp, by simp, ?_⟩, rfl, rfl⟩
      simp [List.pairwise_replicate]

theorem head_of_ring {s : FC} {hist : List Int} (inv : Inv s hist) :
    s.arr[s.cursor]? = (hist.drop (hist.length - s.n))[0]? := by
  have hc : s.cursor < s.arr.length := by rw [inv.len]; exact inv.cur
  rw [← inv.ring]
  have hd : (s.arr.drop s.cursor).length > 0 := by simp; omega
  rw [List.getElem?_append_left hd]
  simp

theorem check_ok {s : FC} {hist : List Int} (inv : Inv s hist) (now : Int) :
    ∃ a, s.arr[s.cursor]? = some a ∧ hist[hist.length - s.n]? = some a ∧
      check s now = .ok (decide (now - a ≥ s.t)) := by
  have hc : s.cursor < s.arr.length := by rw [inv.len]; exact inv.cur
  refine ⟨s.arr[s.cursor], by simp [hc], ?_, ?_⟩
  · have := head_of_ring inv
    rw [List.getElem?_eq_getElem hc] at this
    rw [this]; simp
  · unfold check; simp [hc]

/-- counting lemma: in a non-decreasing history bounded by `now`, fewer than `n`
admissions lie in the window iff the `n`-th most recent one is outside it. -/
theorem window_iff {hist : List Int} {n : Nat} {t now a : Int}
    (hn : 0 < n) (hlen : n ≤ hist.length) (hs : hist.Pairwise (· ≤ ·))
    (ha : hist[hist.length - n]? = some a) :
    inWindow t now hist < n ↔ now - a ≥ t := by
  unfold inWindow
  have hsplit : hist = hist.take (hist.length - n) ++ hist.drop (hist.length - n) := by simp
  have hdl : (hist.drop (hist.length - n)).length = n := by simp; omega
  have hd0 : (hist.drop (hist.length - n))[0]? = some a := by simpa using ha
  obtain ⟨rest, hrest⟩ : ∃ rest, hist.drop (hist.length - n) = a :: rest := by
    cases h : hist.drop (hist.length - n) with
    | nil => rw [h] at hd0; simp at hd0
    | cons x xs => rw [h] at hd0; simp at hd0; exact ⟨xs, by rw [hd0]⟩
  rw [hsplit, List.countP_append, hrest]
  rw [hsplit, hrest] at hs
  have hpre : ∀ x ∈ hist.take (hist.length - n), x ≤ a := by
    intro x hx
    exact (List.pairwise_append.mp hs).2.2 x hx a (by simp)
  have hpost : ∀ x ∈ rest, a ≤ x := by
    intro x hx
    have := (List.pairwise_append.mp hs).2.1
    exact (List.pairwise_cons.mp this).1 x hx
  have hrl : rest.length + 1 = n := by
    have := hdl; rw [hrest] at this; simpa using this
  constructor
  · intro hlt
    by_cases hw : now - a < t
    · -- then a and every later element is in the window: count ≥ n
      exfalso
      have hall : (a :: rest).countP (fun a => decide (now - a < t)) = (a :: rest).length := by
        rw [List.countP_eq_length]
        intro x hx
        simp at hx
        rcases hx with rfl | hx
        · simpa using hw
        · have := hpost x hx; simp; omega
      rw [hall] at hlt
      simp at hlt
      omega
    · omega
  · intro hge
    have hzero : (hist.take (hist.length - n)).countP (fun a => decide (now - a < t)) = 0 := by
      rw [List.countP_eq_zero]
      intro x hx
      have := hpre x hx
      simp; omega
    rw [hzero, List.countP_cons]
    have : rest.countP (fun a => decide (now - a < t)) ≤ rest.length := List.countP_le_length
    have hna : ¬ (now - a < t) := by omega
    simp [hna]
    omega

theorem ring_set (l : List Int) (c n : Nat) (x : Int) (hl : l.length = n) (hc : c < n) :
    (l.set c x).drop ((c+1)%n) ++ (l.set c x).take ((c+1)%n) = l.drop (c+1) ++ l.take c ++ [x] := by
  have hset : l.set c x = l.take c ++ x :: l.drop (c+1) := by
    rw [List.set_eq_take_append_cons_drop]; simp [hl, hc]
  have htl : (l.take c).length = c := by simp; omega
  by_cases hw : c + 1 < n
  · rw [Nat.mod_eq_of_lt hw, hset]
    have e : l.take c ++ x :: l.drop (c+1) = (l.take c ++ [x]) ++ l.drop (c+1) := by simp
    rw [e, List.drop_left' (by simp; omega), List.take_left' (by simp; omega)]
    simp
  · have he : c + 1 = n := by omega
    rw [he, Nat.mod_self, hset]
    have : l.drop n = [] := by simp; omega
    simp [this]; omega

theorem update_inv {s : FC} {hist : List Int} (inv : Inv s hist) {now : Int}
    (hb : Below hist now) :
    ∃ s', update s now = .ok s' ∧ Inv s' (hist ++ [now]) ∧ s'.t = s.t ∧ s'.n = s.n := by
  have hc : s.cursor < s.arr.length := by rw [inv.len]; exact inv.cur
  refine ⟨{ s with arr := s.arr.set s.cursor now, cursor := (s.cursor + 1) % s.n },
    by unfold update; simp [hc], ?_, rfl, rfl⟩
  have hmod : (s.cursor + 1) % s.n < s.n := Nat.mod_lt _ inv.npos
  refine ⟨inv.npos, by simp [inv.len], hmod, by simp; have := inv.hlen; omega, ?_, ?_⟩
  · -- ring
    show (s.arr.set s.cursor now).drop ((s.cursor + 1) % s.n) ++
         (s.arr.set s.cursor now).take ((s.cursor + 1) % s.n) =
         (hist ++ [now]).drop ((hist ++ [now]).length - s.n)
    have hR : (hist ++ [now]).drop ((hist ++ [now]).length - s.n) =
        (hist.drop (hist.length - s.n)).drop 1 ++ [now] := by
      have hl := inv.hlen
      have h1 : (hist ++ [now]).length - s.n = (hist.length - s.n) + 1 := by
        simp; omega
      rw [h1, List.drop_append_of_le_length (by omega), List.drop_drop]
    rw [hR, ← inv.ring, ring_set _ _ _ _ inv.len inv.cur]
    rw [List.drop_append_of_le_length (by simp; omega), List.drop_drop]
  · -- sorted
    rw [List.pairwise_append]
    refine ⟨inv.sorted, by simp, ?_⟩
    intro a ha b hb'
    simp at hb'
    subst hb'
    exact hb a ha

end MgProof.C19
