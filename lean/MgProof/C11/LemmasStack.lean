import MgModel.C11.Stack
import MgProof.C11.LemmasStore
/-! Helper lemmas for the stack: representation invariant, growth, per-call refinement. -/
namespace MgProof.C11.Stk
open MgModel.C11 MgModel.C11.Stk MgProof.C11

/-- **Representation invariant**: the C state holds the sequence `l` (last = top). -/
structure Inv (s : Stack) (l : List Val) : Prop where
  len   : s.nodes.length = s.capacity
  size  : s.top = l.length
  le    : s.top ≤ s.capacity
  pos   : 0 < s.capacity
  data  : ∀ i, i < l.length → s.nodes[i]? = some (l[i]?)

theorem Inv.cell {s : Stack} {l : List Val} (inv : Inv s l) {i : Nat} (h : i < l.length) :
    s.nodes[i]? = some (some l[i]) := by
  rw [inv.data i h]; simp [h]

theorem inv_init {c : Nat} {s : Stack} (h : init c = some s) : Inv s [] := by
  unfold init at h
  by_cases hv : capValid (if c = 0 then 8 else c) = true
  · simp [hv] at h
    subst h
    refine ⟨by simp, rfl, by simp, ?_, by simp⟩
    by_cases hc : c = 0 <;> simp [hc] <;> omega
  · simp [hv] at h

theorem ensureCapacity_inv {s : Stack} {l : List Val} (inv : Inv s l) (c : Nat) :
    ∃ s', ensureCapacity s c = .ok (s', decide (s.capacity ≥ c ∨ c < 2 ^ 31)) ∧ Inv s' l ∧
      s'.top = s.top ∧ (s.capacity ≥ c ∨ c < 2 ^ 31 → c ≤ s'.capacity) := by
  unfold ensureCapacity
  by_cases h1 : s.capacity ≥ c
  · exact ⟨s, by simp [h1, pure, Except.pure], inv, rfl, fun _ => h1⟩
  · by_cases h2 : c < 2 ^ 31
    · have hle : s.top ≤ c := by have := inv.le; omega
      obtain ⟨d, hd, hl, hp⟩ := copyLoop_spec s.nodes (List.replicate c none) s.top
        (by simpa using hle)
        (by intro i hi; exact ⟨l[i]'(by rw [← inv.size]; exact hi), inv.cell (by rw [← inv.size]; exact hi)⟩)
      refine ⟨{ s with nodes := d, capacity := c }, ?_, ?_, rfl, fun _ => by simp⟩
      · simp [h1, h2, capValid, hd, bind, Except.bind, pure, Except.pure]
      · refine ⟨by simpa using hl, inv.size, hle, by simp; omega, ?_⟩
        intro i hi
        have : i < s.top := by rw [inv.size]; exact hi
        simp only [hp i, this, if_true]
        exact inv.data i hi
    · refine ⟨s, ?_, inv, rfl, fun h => by omega⟩
      simp [h1, h2, capValid, pure, Except.pure]

theorem push_refines {s : Stack} {l : List Val} (inv : Inv s l) (hsmall : l.length < 2 ^ 30)
    (v : Val) :
    ∃ s', push s v = .ok (s', (specPush l v).2) ∧ Inv s' (specPush l v).1 := by
  have hgrow : ∃ s1, growIfFull s = .ok (s1, true) ∧ Inv s1 l ∧ s1.top = s.top ∧
      s1.top < s1.capacity := by
    unfold growIfFull
    by_cases h : s.top = s.capacity
    · obtain ⟨s', he, inv', hs, hc⟩ := ensureCapacity_inv inv (s.capacity * 2)
      have hv : s.capacity * 2 < 2 ^ 31 := by rw [← h, inv.size]; omega
      have hc' := hc (Or.inr hv)
      refine ⟨s', ?_, inv', hs, ?_⟩
      · simp [h] at he ⊢
        rw [he]; simp [hv]
      · have := inv.pos; omega
    · exact ⟨s, by simp [h, pure, Except.pure], inv, rfl, by have := inv.le; omega⟩
  obtain ⟨s1, hg, inv1, hs1, hlt⟩ := hgrow
  have hsz := inv1.size
  have hw : s1.top < s1.nodes.length := by rw [inv1.len]; exact hlt
  refine ⟨{ s1 with nodes := s1.nodes.set s1.top (some v), top := s1.top + 1 }, ?_, ?_⟩
  · unfold push specPush
    have hw' : l.length < s1.nodes.length := by omega
    simp [hg, wr, hw', hsz, bind, Except.bind, pure, Except.pure]
  · unfold specPush
    refine ⟨by simp [inv1.len], by simp [hsz], by simp; omega, inv1.pos, ?_⟩
    intro j hj
    simp only [List.length_append, List.length_singleton] at hj
    simp only [List.getElem?_set, List.getElem?_append]
    by_cases h1 : s1.top = j
    · rw [if_pos h1, if_pos (by omega), if_neg (by omega)]
      have : j - l.length = 0 := by omega
      simp [this]
    · rw [if_neg h1, if_pos (by omega)]
      exact inv1.data j (by omega)

theorem top_refines {s : Stack} {l : List Val} (inv : Inv s l) :
    Stk.top s = .ok (specTop l) := by
  unfold Stk.top specTop
  by_cases h : s.top = 0
  · have : l = [] := by have := inv.size; rw [h] at this; exact List.eq_nil_of_length_eq_zero this.symm
    simp [h, this, pure, Except.pure]
  · have hl : l.length - 1 < l.length := by have := inv.size; omega
    have hlast : l.getLast? = some l[l.length - 1] := by
      rw [List.getLast?_eq_getElem?]; simp [hl]
    have hsz := inv.size
    have hne : ¬ l = [] := by intro hh; simp [hh] at hl
    simp [hne, hlast, hsz, rd_ok (inv.cell hl), bind, Except.bind, pure, Except.pure]

theorem pop_refines {s : Stack} {l : List Val} (inv : Inv s l) (fr : Bool) :
    ∃ s', pop s fr = .ok (s', (specPop l fr).2) ∧ Inv s' (specPop l fr).1 := by
  unfold pop specPop
  by_cases h : s.top = 0
  · have : l = [] := by have := inv.size; rw [h] at this; exact List.eq_nil_of_length_eq_zero this.symm
    refine ⟨s, ?_, by simpa [this] using inv⟩
    cases fr <;> simp [h, this, pure, Except.pure]
  · have hsz := inv.size
    have hl : l.length - 1 < l.length := by omega
    have hlast : l.getLast? = some l[l.length - 1] := by
      rw [List.getLast?_eq_getElem?]; simp [hl]
    have hne : ¬ l = [] := by intro hh; simp [hh] at hl
    refine ⟨{ s with top := s.top - 1 }, ?_, ?_⟩
    · cases fr with
      | false => simp [hne, hsz, pure, Except.pure]
      | true =>
        simp [hne, hlast, hsz, rd_ok (inv.cell hl), bind, Except.bind, pure, Except.pure]
    · refine ⟨inv.len, by simp [hsz], by simp; have := inv.le; omega, inv.pos, ?_⟩
      intro j hj
      simp only [List.length_dropLast] at hj
      rw [List.getElem?_dropLast, if_pos hj]
      exact inv.data j (by omega)

theorem clear_refines {s : Stack} {l : List Val} (inv : Inv s l) (fr : Bool) :
    ∃ s', clear s fr = .ok (s', (specClear l fr).2) ∧ Inv s' (specClear l fr).1 := by
  unfold clear specClear
  refine ⟨{ s with top := 0 }, ?_, ⟨inv.len, rfl, Nat.zero_le _, inv.pos, by simp⟩⟩
  cases fr with
  | false => rfl
  | true =>
    simp only [if_true, inv.size, clearLoop_spec s.nodes l inv.data, bind, Except.bind, pure, Except.pure]

theorem contents_refines {s : Stack} {l : List Val} (inv : Inv s l) :
    contents s = .ok l := by
  unfold contents
  rw [mapM_ok (rd s.nodes) (fun i => l[i]?.getD 0) _ (by
    intro i hi
    have hi' : i < l.length := by rw [← inv.size]; simpa using hi
    rw [rd_ok (inv.cell hi')]; simp [hi'])]
  congr 1
  apply List.ext_getElem?
  intro j
  rw [inv.size]
  by_cases hj : j < l.length
  · simp [hj]
  · simp [hj]

end MgProof.C11.Stk
