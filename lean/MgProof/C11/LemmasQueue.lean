import MgModel.C11.Queue
import MgProof.C11.LemmasLL
/-! Per-call refinement lemmas for the queue (`queue.c`); the memory invariant is
the linked list's `MInv` (same layout: sentinels + heap nodes). -/
namespace MgProof.C11.Q
open MgModel.C11 MgModel.C11.Q MgProof.C11 MgProof.C11.Link
open MgProof.C11.LL (MInv ids path head_next tail_prev live_of_valOf split_path)

/-- **Representation invariant of the queue** -/
structure Inv (s : Queue) (l : Spec) : Prop where
  mem   : MInv s.mem l
  size  : s.size = l.length
  small : l.length < 2 ^ 64

theorem freeData_spec {s : Queue} {n : Ref} {v0 : Val} (hval : valOf s.mem n = some v0) (fr : Bool) :
    ∃ s1, freeData s n fr = .ok (s1, if fr ∧ v0 ≠ 0 then [v0] else []) ∧
      s1.pool = s.pool ∧ s1.size = s.size ∧ s1.mem.cells.length = s.mem.cells.length ∧
      (∀ q, nxt s1.mem q = nxt s.mem q) ∧ (∀ q, prv s1.mem q = prv s.mem q) ∧
      (∀ q, q ≠ n → valOf s1.mem q = valOf s.mem q) ∧ (∀ q, Live s1.mem q ↔ Live s.mem q) := by
  obtain ⟨c, hc, _, _, hcv⟩ := get_of_live (live_of_valOf hval)
  have hv : c.val = v0 := by rw [hval] at hcv; injection hcv
  by_cases h0 : v0 = 0
  · refine ⟨s, ?_, rfl, rfl, rfl, fun _ => rfl, fun _ => rfl, fun _ _ => rfl, fun _ => Iff.rfl⟩
    simp [freeData, hc, hv, h0, bind, Except.bind, pure, Except.pure]
  · obtain ⟨m1, h1, l1, n1, p1, v1, lv1⟩ := setVal_fn (live_of_valOf hval) (0 : Val)
    refine ⟨{ s with mem := m1 }, ?_, rfl, rfl, l1, n1, p1, fun q hq => by rw [v1]; simp [hq], lv1⟩
    cases fr <;> simp [freeData, hc, hv, h0, h1, bind, Except.bind, pure, Except.pure]

/-- the first cell after `head` -/
theorem first_of {m : DMem Val} {l : Spec} (inv : MInv m l) :
    ∃ n B, ids l ++ [Ref.tail] = n :: B ∧ m.head.next = some n := by
  cases hN : ids l ++ [Ref.tail] with
  | nil => simp at hN
  | cons n B =>
    have c' : Chain (nxt m) (prv m) ([] ++ Ref.head :: n :: B) := by
      simpa [path, hN] using inv.chain
    obtain ⟨h, _, _⟩ := chain_adj c'
    exact ⟨n, B, rfl, by rw [head_next, h]⟩

theorem enqueue_refines {s : Queue} {l : Spec} (inv : Inv s l) (v : Val)
    (hsmall : l.length + 1 < 2 ^ 64) :
    ∃ s', enqueue s v = .ok (s', .node s.mem.cells.length) ∧
      Inv s' (specEnqueue l (.node s.mem.cells.length) v) ∧
      s'.mem.cells.length = s.mem.cells.length + 1 := by
  obtain ⟨m2, a1, h2, c2, lv2, len2, v2, n2, p2⟩ := inv.mem.alloc_setVal v
  have hfresh := inv.mem.fresh
  obtain ⟨A, p, n', B, hP, hN, hpath⟩ := split_path l []
  have hn' : n' = Ref.tail ∧ B = [] := by simpa [ids] using hN.symm
  obtain ⟨rfl, rfl⟩ := hn'
  simp only [List.append_nil] at hpath
  rw [hpath] at c2
  obtain ⟨_, htp, _⟩ := chain_adj c2
  obtain ⟨m6, h6, c6, l6⟩ := linkAfter_spec c2 (by rw [← hpath]; exact hfresh) lv2
  have hminv := MInv.linked (L1 := l) (L2 := []) (v := v) (by simpa using inv.mem)
    (by simpa using hfresh) hP hN v2 c6 l6
  refine ⟨{ mem := m6, pool := s.pool.map Pool.alloc, size := s.size + 1 }, ?_, ?_,
    by simp only [l6.len, len2]⟩
  · simp [enqueue, a1, h2, tail_prev, htp, deref, h6, bind, Except.bind, pure, Except.pure]
  · exact ⟨by simpa [specEnqueue] using hminv, by simp [specEnqueue, inv.size], by
      simpa [specEnqueue] using hsmall⟩

theorem isEmpty_iff {s : Queue} {l : Spec} (inv : Inv s l) : isEmpty s = true ↔ l = [] := by
  obtain ⟨n, B, hN, hf⟩ := first_of inv.mem
  unfold isEmpty
  rw [hf]
  cases l with
  | nil =>
    have : n = Ref.tail := by simp [ids] at hN; exact hN.1.symm
    simp [this]
  | cons a l' =>
    have hn : n = a.1 := by simp [ids] at hN; exact hN.1.symm
    obtain ⟨i, hi⟩ := inv.mem.is_node (n := a.1) (by simp [ids])
    simp [hn, hi]

theorem dequeue_refines {s : Queue} {l : Spec} (inv : Inv s l) (fr : Bool) :
    ∃ s', dequeue s fr = .ok (s', (specDequeue l fr).2) ∧ Inv s' (specDequeue l fr).1 ∧
      s'.mem.cells.length = s.mem.cells.length := by
  cases l with
  | nil =>
    have he := (isEmpty_iff inv).mpr rfl
    exact ⟨s, by simp [dequeue, he, specDequeue, pure, Except.pure], by simpa [specDequeue] using inv, rfl⟩
  | cons a l' =>
    obtain ⟨n, v0⟩ := a
    have he : isEmpty s = false := by
      cases h : isEmpty s with
      | false => rfl
      | true => have := (isEmpty_iff inv).mp h; simp at this
    obtain ⟨n', B, hN, hf⟩ := first_of inv.mem
    have hn : n' = n := by simp [ids] at hN; exact hN.1.symm
    subst hn
    obtain ⟨i, rfl⟩ := inv.mem.is_node (n := n') (by simp [ids])
    have hval : valOf s.mem (.node i) = some v0 := inv.mem.vals _ _ (by simp)
    obtain ⟨s1, hfd, hpool, hsz, hlen, hn1', hp1', hv1', hl1'⟩ := freeData_spec hval fr
    obtain ⟨m4, m5, h4, h5, minv5, hlen5⟩ :=
      MInv.remove_node (L1 := []) (L2 := l') (by simpa using inv.mem) hn1' hp1' hv1' hl1' hlen
    refine ⟨{ mem := m5, pool := s1.pool.map Pool.free, size := (s1.size + 2 ^ 64 - 1) % 2 ^ 64 },
      ?_, ?_, hlen5⟩
    · simp only [dequeue, he, hf, deref, hfd, freeNode, h4, h5, bind, Except.bind, pure, Except.pure,
        specDequeue]
      rfl
    · have := inv.small
      have hs := inv.size
      simp only [List.length_cons] at this hs
      refine ⟨by simpa [specDequeue] using minv5, ?_, by simp [specDequeue]; omega⟩
      simp only [specDequeue, hsz, hs]
      omega

theorem front_refines {s : Queue} {l : Spec} (inv : Inv s l) :
    front s = .ok (specFront l) := by
  cases l with
  | nil =>
    have he := (isEmpty_iff inv).mpr rfl
    simp [front, he, specFront, pure, Except.pure]
  | cons a l' =>
    obtain ⟨n, v0⟩ := a
    have he : isEmpty s = false := by
      cases h : isEmpty s with
      | false => rfl
      | true => have := (isEmpty_iff inv).mp h; simp at this
    obtain ⟨n', B, hN, hf⟩ := first_of inv.mem
    have hn : n' = n := by simp [ids] at hN; exact hN.1.symm
    subst hn
    have hval : valOf s.mem n' = some v0 := inv.mem.vals _ _ (by simp)
    obtain ⟨c, hc, _, _, hcv⟩ := get_of_live (live_of_valOf hval)
    have hv : c.val = v0 := by rw [hval] at hcv; injection hcv
    simp [front, he, hf, deref, hc, hv, specFront, bind, Except.bind, pure, Except.pure]

theorem clearLoop_spec (fr : Bool) : ∀ (l : Spec) (s : Queue) (fuel : Nat) (node : Ref)
    (freed : List Val),
    MInv s.mem l → (ids l ++ [Ref.tail]).head? = some node → l.length < fuel →
    ∃ s', Q.clearLoop fr fuel s node freed =
        .ok (s', freed ++ (if fr then (l.map (·.2)).filter (· ≠ 0) else [])) ∧
      MInv s'.mem [] ∧ s'.mem.cells.length = s.mem.cells.length := by
  intro l
  induction l with
  | nil =>
    intro s fuel node freed inv hh hf
    have : node = Ref.tail := by simpa [ids] using hh.symm
    subst this
    cases fuel with
    | zero => omega
    | succ f =>
      refine ⟨s, ?_, inv, rfl⟩
      cases fr <;> simp [Q.clearLoop, pure, Except.pure]
  | cons a l ih =>
    intro s fuel node freed inv hh hf
    obtain ⟨n, v0⟩ := a
    have hn : node = n := by simpa [ids] using hh.symm
    subst hn
    obtain ⟨i, rfl⟩ := inv.is_node (n := node) (by simp [ids])
    cases fuel with
    | zero => omega
    | succ f =>
      cases hN : ids l ++ [Ref.tail] with
      | nil => simp at hN
      | cons nx B =>
        have c : Chain (nxt s.mem) (prv s.mem) ([Ref.head] ++ Ref.node i :: nx :: B) := by
          have := inv.chain
          simp only [path, ids, List.map_cons, List.cons_append] at this
          rw [show List.map (fun x => x.1) l = ids l from rfl, hN] at this
          simpa using this
        obtain ⟨hnn, _, _⟩ := chain_adj c
        obtain ⟨cn, hcn, hcnn, _, _⟩ := get_of_live (live_of_nxt hnn)
        have hval : valOf s.mem (.node i) = some v0 := inv.vals _ _ (by simp)
        obtain ⟨s1, hfd, hpool, hsz, hlen, hn1', hp1', hv1', hl1'⟩ := freeData_spec hval fr
        obtain ⟨m4, m5, h4, h5, minv5, hlen5⟩ :=
          MInv.remove_node (L1 := []) (L2 := l) (by simpa using inv) hn1' hp1' hv1' hl1' hlen
        have hfn : ∃ s2, freeNode s1 (.node i) = .ok s2 ∧ s2.mem = m5 := by
          refine ⟨{ mem := m5, pool := s1.pool.map Pool.free, size := (s1.size + 2 ^ 64 - 1) % 2 ^ 64 }, ?_, rfl⟩
          simp only [freeNode, h4, h5, bind, Except.bind, pure, Except.pure]
        obtain ⟨s2, hfn, hs2⟩ := hfn
        obtain ⟨s', hs', inv', hlen'⟩ := ih s2 f nx (freed ++ (if fr ∧ v0 ≠ 0 then [v0] else []))
          (by rw [hs2]; simpa using minv5) (by rw [hN]; rfl) (by simp at hf; omega)
        refine ⟨s', ?_, inv', by rw [hlen', hs2, hlen5]⟩
        have hne : Ref.node i ≠ Ref.tail := by intro h; cases h
        have hnx : cn.next = some nx := by rw [hcnn, hnn]
        have step : Q.clearLoop fr (f + 1) s (.node i) freed = Q.clearLoop fr f s2
            nx (freed ++ (if fr ∧ v0 ≠ 0 then [v0] else [])) := by
          simp only [Q.clearLoop, hne, if_false, hcn, hnx, deref, hfd, hfn, bind, Except.bind]
        have hlist : freed ++ (if fr ∧ v0 ≠ 0 then [v0] else []) ++
              (if fr then (l.map (·.2)).filter (· ≠ 0) else []) =
            freed ++ (if fr then (((Ref.node i, v0) :: l).map (·.2)).filter (· ≠ 0) else []) := by
          cases fr with
          | false => simp
          | true =>
            by_cases h0 : v0 = 0 <;> simp [h0]
        rw [step, hs', hlist]

theorem clear_refines {s : Queue} {l : Spec} (inv : Inv s l) (fr : Bool) :
    ∃ s', clear s fr = .ok (s', (specClear l fr).2) ∧ Inv s' (specClear l fr).1 ∧
      s'.mem.cells.length = s.mem.cells.length := by
  obtain ⟨n, B, hN, hf⟩ := first_of inv.mem
  obtain ⟨s', hs', inv', hlen'⟩ := clearLoop_spec fr l s (s.mem.cells.length + 1) n []
    inv.mem (by rw [hN]; rfl) (by have := inv.mem.length_le; omega)
  refine ⟨{ s' with size := 0 }, ?_, ⟨inv', rfl, by simp [specClear]⟩, hlen'⟩
  simp [clear, hf, deref, hs', specClear, bind, Except.bind, pure, Except.pure]

theorem toList_refines {s : Queue} {l : Spec} (inv : Inv s l) :
    toList s = .ok l ∧ toListRev s = .ok (ids l).reverse := by
  obtain ⟨⟨f, hf, hwf⟩, ⟨b, hb, hwb⟩⟩ := inv.mem.walks
  constructor
  · simp [toList, hf, deref, hwf, inv.mem.readCells, bind, Except.bind]
  · simp [toListRev, hb, deref, hwb, bind, Except.bind]

/-- the state after `muggle_queue_init` represents the empty queue -/
theorem inv_init {c : Nat} {s : Queue} (h : init c = some s) :
    Inv s [] ∧ s.mem.cells.length = 0 := by
  have hm : MInv emptyMem [] := by
    refine ⟨⟨by simp [path, ids], ?_⟩, by simp⟩
    simp [path, ids, Link.Links, nxt, prv, DMem.get, emptyMem]
  unfold init at h
  split at h
  · split at h
    · simp at h
    · injection h with h; subst h; exact ⟨⟨hm, rfl, by simp⟩, rfl⟩
  · injection h with h; subst h; exact ⟨⟨hm, rfl, by simp⟩, rfl⟩

end MgProof.C11.Q
