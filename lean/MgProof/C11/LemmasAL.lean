import MgModel.C11.ArrayList
import MgProof.C11.LemmasStore
/-! Helper lemmas for the array list: the two shifting loops, the representation
invariant and its preservation by growth. Property theorems are in `Props.lean`. -/
namespace MgProof.C11.AL
open MgModel.C11 MgModel.C11.AL MgProof.C11

/-- `shiftUp a hi cnt` moves the cells `hi-cnt … hi-1` one position up (the loop
`for (i = hi-1; i >= hi-cnt; i--) a[i+1] = a[i]`), leaving every other cell alone. -/
theorem shiftUp_spec (a : Store) (hi cnt : Nat) (hcnt : cnt ≤ hi) (hhi : hi < a.length ∨ cnt = 0)
    (hinit : ∀ j, hi - cnt ≤ j → j < hi → ∃ v, a[j]? = some (some v)) :
    ∃ r, shiftUp a hi cnt = .ok r ∧ r.length = a.length ∧
      ∀ j, r[j]? = if hi - cnt < j ∧ j ≤ hi then a[j - 1]? else a[j]? := by
  unfold shiftUp
  obtain ⟨r, h, hl, hp⟩ := foldlM_range_inv
    (fun a k => do let v ← rd a (hi - 1 - k); wr a (hi - 1 - k + 1) v)
    (fun k r => r.length = a.length ∧
      ∀ j, r[j]? = if hi - k < j ∧ j ≤ hi then a[j - 1]? else a[j]?)
    cnt a ⟨rfl, by intro j; rw [if_neg (by omega)]⟩
    (by
      intro k r hk ⟨hl, hp⟩
      have hlt : hi < a.length := by omega
      obtain ⟨v, hv⟩ := hinit (hi - 1 - k) (by omega) (by omega)
      have hrd : r[hi - 1 - k]? = some (some v) := by
        rw [hp, if_neg (by omega), hv]
      refine ⟨r.set (hi - 1 - k + 1) (some v), ?_, by simp [hl], ?_⟩
      · simp [rd_ok hrd, bind, Except.bind, wr, hl]; omega
      · intro j
        rw [List.getElem?_set]
        by_cases hj : hi - 1 - k + 1 = j
        · have hj' : j - 1 = hi - 1 - k := by omega
          rw [if_pos hj, if_pos (by omega), if_pos (by omega), hj', hv]
        · rw [if_neg hj, hp j]
          by_cases h1 : hi - k < j ∧ j ≤ hi
          · rw [if_pos h1, if_pos (by omega)]
          · rw [if_neg h1, if_neg (by omega)])
  exact ⟨r, h, hl, hp⟩

/-- `shiftDown a lo cnt` moves the cells `lo+1 … lo+cnt` one position down (the loop
`for (i = lo; i < lo+cnt; i++) a[i] = a[i+1]`). -/
theorem shiftDown_spec (a : Store) (lo cnt : Nat) (hlen : lo + cnt < a.length ∨ cnt = 0)
    (hinit : ∀ j, lo < j → j ≤ lo + cnt → ∃ v, a[j]? = some (some v)) :
    ∃ r, shiftDown a lo cnt = .ok r ∧ r.length = a.length ∧
      ∀ j, r[j]? = if lo ≤ j ∧ j < lo + cnt then a[j + 1]? else a[j]? := by
  unfold shiftDown
  obtain ⟨r, h, hl, hp⟩ := foldlM_range_inv
    (fun a k => do let v ← rd a (lo + k + 1); wr a (lo + k) v)
    (fun k r => r.length = a.length ∧
      ∀ j, r[j]? = if lo ≤ j ∧ j < lo + k then a[j + 1]? else a[j]?)
    cnt a ⟨rfl, by intro j; rw [if_neg (by omega)]⟩
    (by
      intro k r hk ⟨hl, hp⟩
      have hlt : lo + cnt < a.length := by omega
      obtain ⟨v, hv⟩ := hinit (lo + k + 1) (by omega) (by omega)
      have hrd : r[lo + k + 1]? = some (some v) := by
        rw [hp, if_neg (by omega), hv]
      refine ⟨r.set (lo + k) (some v), ?_, by simp [hl], ?_⟩
      · simp [rd_ok hrd, bind, Except.bind, wr, hl]; omega
      · intro j
        rw [List.getElem?_set]
        by_cases hj : lo + k = j
        · rw [if_pos hj, if_pos (by omega), if_pos (by omega), ← hj, hv]
        · rw [if_neg hj, hp j]
          by_cases h1 : lo ≤ j ∧ j < lo + k
          · rw [if_pos h1, if_pos (by omega)]
          · rw [if_neg h1, if_neg (by omega)])
  exact ⟨r, h, hl, hp⟩

/-- **Representation invariant**: the C state `s` holds the sequence `l`. -/
structure Inv (s : AL) (l : List Val) : Prop where
  len   : s.nodes.length = s.capacity
  size  : s.size = l.length
  le    : s.size ≤ s.capacity
  pos   : 0 < s.capacity
  data  : ∀ i, i < l.length → s.nodes[i]? = some (l[i]?)

theorem Inv.cell {s : AL} {l : List Val} (inv : Inv s l) {i : Nat} (h : i < l.length) :
    s.nodes[i]? = some (some l[i]) := by
  rw [inv.data i h]; simp [h]

/-- index normalisation: the C function computes exactly `normIndex` -/
theorem getIndex_eq (n : Nat) (i : Int) : getIndex n i = normIndex n i := by
  unfold getIndex normIndex
  by_cases h0 : i ≥ 0
  · have h0' : 0 ≤ i := h0
    simp only [h0, h0', if_true]
    by_cases h1 : i.toNat ≥ n
    · have : ¬ i < (n : Int) := by omega
      simp [h1, this]
    · have : i < (n : Int) := by omega
      simp [h1, this]
  · have h0' : ¬ 0 ≤ i := h0
    simp only [h0, h0', if_false]
    by_cases h1 : (-i).toNat > n
    · have : ¬ -i ≤ (n : Int) := by omega
      simp [h1, this]
    · have : -i ≤ (n : Int) := by omega
      simp [h1, this]

theorem normIndex_lt {n : Nat} {i : Int} {k : Nat} (h : normIndex n i = some k) : k < n := by
  unfold normIndex at h
  split at h
  · split at h
    · injection h with h; omega
    · simp at h
  · split at h
    · injection h with h; omega
    · simp at h

/-- the position decision of insert/append is `specPos` -/
theorem position_eq {s : AL} {l : List Val} (inv : Inv s l) (i : Int) :
    position s i = specPos l i := by
  unfold position specPos
  rw [getIndex_eq, inv.size]
  cases normIndex l.length i with
  | some k => rfl
  | none =>
    have : (l = []) ↔ l.length = 0 := by simp
    by_cases h : l.length = 0
    · have hl : l = [] := this.mpr h
      by_cases hi : i = 0 ∨ i = -1 <;> simp [h, hl, hi]
    · have hl : ¬ l = [] := fun hh => h (this.mp hh)
      simp [h, hl]

theorem specPos_le {l : List Val} {i : Int} {k : Nat} (h : specPos l i = some k) :
    k < l.length ∨ (l = [] ∧ k = 0) := by
  unfold specPos at h
  cases hn : normIndex l.length i with
  | some k' =>
    rw [hn] at h; injection h with h; subst h
    exact Or.inl (normIndex_lt hn)
  | none =>
    rw [hn] at h
    simp only at h
    split at h
    · rename_i hc; injection h with h; exact Or.inr ⟨hc.1, h.symm⟩
    · simp at h

theorem inv_init {c : Nat} {s : AL} (h : init c = some s) : Inv s [] := by
  unfold init at h
  by_cases hv : capValid (if c = 0 then 8 else c) = true
  · simp [hv] at h
    subst h
    refine ⟨by simp, rfl, by simp, ?_, by simp⟩
    by_cases hc : c = 0 <;> simp [hc] <;> omega
  · simp [hv] at h

/-- growth keeps the sequence; it succeeds iff the capacity suffices or the request is valid -/
theorem ensureCapacity_inv {s : AL} {l : List Val} (inv : Inv s l) (c : Nat) :
    ∃ s', ensureCapacity s c = .ok (s', decide (s.capacity ≥ c ∨ c < 2 ^ 31)) ∧ Inv s' l ∧
      s'.size = s.size ∧ s.capacity ≤ s'.capacity ∧
      (s.capacity ≥ c ∨ c < 2 ^ 31 → c ≤ s'.capacity) := by
  unfold ensureCapacity
  by_cases h1 : s.capacity ≥ c
  · exact ⟨s, by simp [h1, pure, Except.pure], inv, rfl, Nat.le_refl _, fun _ => h1⟩
  · by_cases h2 : c < 2 ^ 31
    · have hle : s.size ≤ c := by have := inv.le; omega
      obtain ⟨d, hd, hl, hp⟩ := copyLoop_spec s.nodes (List.replicate c none) s.size
        (by simpa using hle)
        (by intro i hi; exact ⟨l[i]'(by rw [← inv.size]; exact hi), inv.cell (by rw [← inv.size]; exact hi)⟩)
      refine ⟨{ s with nodes := d, capacity := c }, ?_, ?_, rfl, by simp; omega, fun _ => by simp⟩
      · simp [h1, h2, capValid, hd, bind, Except.bind, pure, Except.pure]
      · refine ⟨by simpa using hl, inv.size, hle, by simp; omega, ?_⟩
        intro i hi
        have : i < s.size := by rw [inv.size]; exact hi
        simp only [hp i, this, if_true]
        exact inv.data i hi
    · refine ⟨s, ?_, inv, rfl, Nat.le_refl _, fun h => by omega⟩
      simp [h1, h2, capValid, pure, Except.pure]

/-- the growth step of insert/append succeeds while fewer than `2^30` elements are stored -/
theorem growIfFull_inv {s : AL} {l : List Val} (inv : Inv s l) (hsmall : l.length < 2 ^ 30) :
    ∃ s', growIfFull s = .ok (s', true) ∧ Inv s' l ∧ s'.size = s.size ∧ s'.size < s'.capacity := by
  unfold growIfFull
  by_cases h : s.size = s.capacity
  · obtain ⟨s', he, inv', hs, _, hc⟩ := ensureCapacity_inv inv (s.capacity * 2)
    have hv : s.capacity * 2 < 2 ^ 31 := by rw [← h, inv.size]; omega
    have hc' := hc (Or.inr hv)
    refine ⟨s', ?_, inv', hs, ?_⟩
    · simp [h] at he ⊢
      rw [he]; simp [hv]
    · have := inv.pos; omega
  · refine ⟨s, by simp [h, pure, Except.pure], inv, rfl, ?_⟩
    have := inv.le; omega




/-- the common tail of insert/append: open a gap at `k` and store `v` there -/
theorem insertAt_inv {s : AL} {l : List Val} (inv : Inv s l) (hlt : s.size < s.capacity)
    {k : Nat} (hk : k ≤ l.length) (v : Val) :
    ∃ r nodes, shiftUp s.nodes s.size (s.size - k) = .ok r ∧ wr r k v = .ok nodes ∧
      Inv { s with nodes := nodes, size := s.size + 1 } (l.insertIdx k v) := by
  have hsz := inv.size
  obtain ⟨r, hr, hrl, hrp⟩ := shiftUp_spec s.nodes s.size (s.size - k) (by omega)
    (Or.inl (by rw [inv.len]; exact hlt))
    (by intro j h1 h2; exact ⟨l[j]'(by omega), inv.cell (by omega)⟩)
  have hkr : k < r.length := by rw [hrl, inv.len]; omega
  refine ⟨r, r.set k (some v), hr, by simp [wr, hkr], ?_⟩
  refine ⟨by simp [hrl, inv.len], by simp [List.length_insertIdx, hk, hsz], by simp; omega, inv.pos, ?_⟩
  intro j hj
  simp only [List.length_insertIdx, hk, if_true] at hj
  simp only [List.getElem?_set, List.getElem?_insertIdx, hrp j]
  by_cases h1 : k = j
  · subst h1
    simp [hkr, hk]
  · rw [if_neg h1]
    by_cases h2 : j < k
    · rw [if_neg (by omega), if_pos h2]; exact inv.data j (by omega)
    · rw [if_pos (by omega), if_neg h2, if_neg (by omega)]; exact inv.data (j - 1) (by omega)

theorem insert_refines {s : AL} {l : List Val} (inv : Inv s l) (hsmall : l.length < 2 ^ 30)
    (i : Int) (v : Val) :
    ∃ s', AL.insert s i v = .ok (s', (specInsert l i v).2) ∧ Inv s' (specInsert l i v).1 := by
  obtain ⟨s1, hg, inv1, hs1, hlt⟩ := growIfFull_inv inv hsmall
  have hpos := position_eq inv1 i
  unfold AL.insert specInsert
  simp only [hg, bind, Except.bind, hpos]
  cases hsp : specPos l i with
  | none => exact ⟨s1, by simp [pure, Except.pure], inv1⟩
  | some k =>
    have hk : k ≤ l.length := by
      rcases specPos_le hsp with h | ⟨_, h⟩ <;> omega
    obtain ⟨r, nodes, hr, hw, inv'⟩ := insertAt_inv inv1 hlt hk v
    exact ⟨_, by simp [hr, hw, pure, Except.pure], inv'⟩

theorem append_refines {s : AL} {l : List Val} (inv : Inv s l) (hsmall : l.length < 2 ^ 30)
    (i : Int) (v : Val) :
    ∃ s', AL.append s i v = .ok (s', (specAppend l i v).2) ∧ Inv s' (specAppend l i v).1 := by
  obtain ⟨s1, hg, inv1, hs1, hlt⟩ := growIfFull_inv inv hsmall
  have hpos := position_eq inv1 i
  unfold AL.append specAppend
  simp only [hg, bind, Except.bind, hpos]
  cases hsp : specPos l i with
  | none => exact ⟨s1, by simp [pure, Except.pure], inv1⟩
  | some k =>
    have hsz := inv1.size
    rcases specPos_le hsp with hk | ⟨hnil, hk0⟩
    · have hne : l ≠ [] := by intro h; simp [h] at hk
      have hs0 : s1.size ≠ 0 := by omega
      obtain ⟨r, nodes, hr, hw, inv'⟩ := insertAt_inv inv1 hlt (k := k + 1) (by omega) v
      have hc : s1.size - 1 - k = s1.size - (k + 1) := by omega
      refine ⟨{ s1 with nodes := nodes, size := s1.size + 1 }, ?_, by simpa [hne] using inv'⟩
      simp [hc, hr, hw, hs0, hne, pure, Except.pure]
    · subst hk0
      have hs0 : s1.size = 0 := by rw [hsz, hnil]; rfl
      obtain ⟨r, nodes, hr, hw, inv'⟩ := insertAt_inv inv1 hlt (k := 0) (by omega) v
      have hc : s1.size - 1 - 0 = s1.size - 0 := by omega
      simp only [hs0, Nat.sub_zero] at hr
      refine ⟨{ s1 with nodes := nodes, size := s1.size + 1 }, ?_, by simpa [hnil] using inv'⟩
      simp [hr, hw, hs0, hnil, pure, Except.pure]

theorem remove_refines {s : AL} {l : List Val} (inv : Inv s l) (i : Int) (fr : Bool) :
    ∃ s', AL.remove s i fr = .ok (s', (specRemove l i fr).2) ∧ Inv s' (specRemove l i fr).1 := by
  unfold AL.remove specRemove
  rw [getIndex_eq, inv.size]
  cases hn : normIndex l.length i with
  | none => exact ⟨s, by simp [pure, Except.pure], inv⟩
  | some k =>
    have hk := normIndex_lt hn
    have hsz := inv.size
    obtain ⟨r, hr, hrl, hrp⟩ := shiftDown_spec s.nodes k (s.size - 1 - k)
      (Or.inl (by rw [inv.len]; have := inv.le; omega))
      (by intro j h1 h2; exact ⟨l[j]'(by omega), inv.cell (by omega)⟩)
    have hd : (l.drop k).take 1 = [l[k]] := by
      rw [List.drop_eq_getElem_cons hk]; simp [List.take]
    refine ⟨{ s with nodes := r, size := s.size - 1 }, ?_, ?_⟩
    · rw [hsz] at hr
      cases fr with
      | false => simp [hr, hsz, bind, Except.bind, pure, Except.pure]
      | true => simp [hr, hsz, hd, rd_ok (inv.cell hk), bind, Except.bind, pure, Except.pure]
    · refine ⟨by simp [hrl, inv.len], by simp [List.length_eraseIdx, hk, hsz], by simp; have := inv.le; omega, inv.pos, ?_⟩
      intro j hj
      simp only [List.length_eraseIdx, hk, if_true] at hj
      simp only [List.getElem?_eraseIdx, hrp j]
      by_cases h1 : j < k
      · rw [if_neg (by omega), if_pos h1]; exact inv.data j (by omega)
      · rw [if_pos (by omega), if_neg h1]; exact inv.data (j + 1) (by omega)

theorem index_refines {s : AL} {l : List Val} (inv : Inv s l) (i : Int) :
    AL.index s i = .ok (specIndex l i) := by
  unfold AL.index specIndex
  rw [getIndex_eq, inv.size]
  cases hn : normIndex l.length i with
  | none => rfl
  | some k =>
    have hk := normIndex_lt hn
    simp [rd_ok (inv.cell hk), bind, Except.bind, pure, Except.pure, hk]

theorem clear_refines {s : AL} {l : List Val} (inv : Inv s l) (fr : Bool) :
    ∃ s', AL.clear s fr = .ok (s', (specClear l fr).2) ∧ Inv s' (specClear l fr).1 := by
  unfold AL.clear specClear
  refine ⟨{ s with size := 0 }, ?_, ⟨inv.len, rfl, Nat.zero_le _, inv.pos, by simp⟩⟩
  cases fr with
  | false => rfl
  | true =>
    simp only [if_true, inv.size, clearLoop_spec s.nodes l inv.data, bind, Except.bind, pure, Except.pure]

theorem contents_refines {s : AL} {l : List Val} (inv : Inv s l) :
    AL.contents s = .ok l := by
  unfold AL.contents
  rw [mapM_ok (rd s.nodes) (fun i => l[i]?.getD 0) _ (by
    intro i hi
    have hi' : i < l.length := by rw [← inv.size]; simpa using hi
    rw [rd_ok (inv.cell hi')]; simp [hi'])]
  congr 1
  apply List.ext_getElem?
  intro j
  rw [inv.size]
  by_cases hj : j < l.length
  · simp [hj]
  · simp [hj]


theorem find_refines {s : AL} {l : List Val} (inv : Inv s l) (i : Int) (v : Val) :
    AL.find s i v = .ok (specFind l i v) := by
  unfold AL.find specFind
  rw [getIndex_eq, inv.size]
  cases hn : normIndex l.length i with
  | none => rfl
  | some k =>
    have hk := normIndex_lt hn
    simp only
    obtain ⟨r, h, hp⟩ := foldlM_range_inv
      (findStep s.nodes k v)
      (fun m r => r = (((l.drop k).take m).idxOf? v).map (k + ·))
      (l.length - k) none (by simp)
      (by
        intro m r hm hp
        have hkm : k + m < l.length := by omega
        have htake : (l.drop k).take (m + 1) = (l.drop k).take m ++ [l[k + m]] := by
          rw [List.take_add_one]; simp [hkm]
        have hlen : ((l.drop k).take m).length = m := by simp; omega
        cases hr : ((l.drop k).take m).idxOf? v with
        | some j =>
          rw [hr] at hp; subst hp
          refine ⟨some (k + j), rfl, ?_⟩
          rw [htake]
          simp only [List.idxOf?] at hr ⊢
          rw [List.findIdx?_append, hr]; rfl
        | none =>
          rw [hr] at hp; subst hp
          refine ⟨if l[k + m] = v then some (k + m) else none, by simp only [findStep, Option.map, rd_ok (inv.cell hkm), bind, Except.bind, pure, Except.pure], ?_⟩
          rw [htake]
          simp only [List.idxOf?] at hr ⊢
          rw [List.findIdx?_append, hr, hlen]
          by_cases hx : l[k + m] = v
          · simp [hx, List.findIdx?_cons]
          · simp [hx, List.findIdx?_cons])
    rw [h, hp]
    have : (l.drop k).take (l.length - k) = l.drop k := by
      apply List.take_of_length_le; simp
    rw [this]
    cases (l.drop k).idxOf? v <;> rfl

theorem perm_eraseIdx (l : List Val) {k : Nat} (hk : k < l.length) :
    List.Perm l (l[k] :: l.eraseIdx k) := by
  have h1 : l = l.take k ++ l[k] :: l.drop (k + 1) := by
    rw [← List.drop_eq_getElem_cons hk]; simp
  rw [List.eraseIdx_eq_take_drop_succ]
  conv => lhs; rw [h1]
  exact List.perm_middle

/-- **Ownership (reference sequence).** If every remove / clear passes the callback,
the non-NULL data initially in the list or stored by the history are, as a
multiset, exactly those handed to the callback plus those still in the list: no
datum is released twice, none is dropped without the callback. -/
theorem spec_ownership (ops : List Op) : ∀ (l : List Val), AllFree ops →
    List.Perm ((l ++ stored ops (specRun l ops).2).filter (· ≠ 0))
      ((freedBy (specRun l ops).2 ++ (specRun l ops).1).filter (· ≠ 0)) := by
  induction ops with
  | nil => intro l _; simp [specRun, stored, freedBy]
  | cons op ops ih =>
    intro l hall
    cases op with
    | insert i v =>
      have ih' := ih (specInsert l i v).1 hall
      simp only [specRun, specStep]
      cases hp : specPos l i with
      | none =>
        simp only [specInsert, hp] at ih' ⊢
        simpa [stored, freedBy] using ih'
      | some k =>
        have hk : k ≤ l.length := by rcases specPos_le hp with h | ⟨_, h⟩ <;> omega
        simp only [specInsert, hp] at ih' ⊢
        simp only [stored, freedBy]
        refine List.Perm.trans (List.Perm.filter _ ?_) ih'
        have h1 : List.Perm (l ++ v :: stored ops (specRun (l.insertIdx k v) ops).2)
            (v :: (l ++ stored ops (specRun (l.insertIdx k v) ops).2)) := List.perm_middle
        refine h1.trans ?_
        have h2 := (List.perm_insertIdx v l hk).symm
        exact (List.Perm.append_right _ h2)
    | append i v =>
      have ih' := ih (specAppend l i v).1 hall
      simp only [specRun, specStep]
      cases hp : specPos l i with
      | none =>
        simp only [specAppend, hp] at ih' ⊢
        simpa [stored, freedBy] using ih'
      | some k =>
        by_cases hl : l = []
        · subst hl
          simp only [specAppend, hp, if_true] at ih' ⊢
          simpa [stored, freedBy] using ih'
        · have hk : k + 1 ≤ l.length := by
            rcases specPos_le hp with h | ⟨h, _⟩
            · omega
            · exact absurd h hl
          simp only [specAppend, hp, hl, if_false] at ih' ⊢
          simp only [stored, freedBy]
          refine List.Perm.trans (List.Perm.filter _ ?_) ih'
          have h1 : List.Perm (l ++ v :: stored ops (specRun (l.insertIdx (k + 1) v) ops).2)
              (v :: (l ++ stored ops (specRun (l.insertIdx (k + 1) v) ops).2)) := List.perm_middle
          refine h1.trans ?_
          have h2 := (List.perm_insertIdx v l hk).symm
          exact (List.Perm.append_right _ h2)
    | remove i fr =>
      obtain ⟨hfr, hall'⟩ := hall
      subst hfr
      have ih' := ih (specRemove l i true).1 hall'
      simp only [specRun, specStep]
      cases hn : normIndex l.length i with
      | none =>
        simp only [specRemove, hn] at ih' ⊢
        simpa [stored, freedBy] using ih'
      | some k =>
        have hk := normIndex_lt hn
        have hd : (l.drop k).take 1 = [l[k]] := by
          rw [List.drop_eq_getElem_cons hk]; simp [List.take]
        simp only [specRemove, hn, if_true, hd] at ih' ⊢
        simp only [stored, freedBy]
        have h1 : List.Perm (l ++ stored ops (specRun (l.eraseIdx k) ops).2)
            (l[k] :: (l.eraseIdx k ++ stored ops (specRun (l.eraseIdx k) ops).2)) :=
          List.Perm.append_right _ (perm_eraseIdx l hk)
        refine (List.Perm.filter _ h1).trans ?_
        have h2 : ([l[k]] ++ freedBy (specRun (l.eraseIdx k) ops).2 ++ (specRun (l.eraseIdx k) ops).1)
            = l[k] :: (freedBy (specRun (l.eraseIdx k) ops).2 ++ (specRun (l.eraseIdx k) ops).1) := by
          simp
        rw [h2, List.filter_cons, List.filter_cons]
        split
        · exact List.Perm.cons _ ih'
        · exact ih'
    | clear fr =>
      obtain ⟨hfr, hall'⟩ := hall
      subst hfr
      have ih' := ih [] hall'
      simp only [specRun, specStep, specClear, if_true, stored, freedBy]
      simp only [List.nil_append] at ih'
      rw [List.filter_append, List.append_assoc, List.filter_append, List.filter_filter]
      simp only [Bool.and_self]
      exact List.Perm.append_left _ ih'
    | get i => simpa [specRun, specStep, stored, freedBy] using ih l hall
    | find i v => simpa [specRun, specStep, stored, freedBy] using ih l hall
    | ensure c => simpa [specRun, specStep, stored, freedBy] using ih l hall
    | dump => simpa [specRun, specStep, stored, freedBy] using ih l hall

end MgProof.C11.AL
