import MgModel.C11.DMem
import MgProof.C11.LemmasLink
/-! Helper lemmas for C11: reading the `next`/`prev`/payload of a `DMem` after
`set…`, `alloc`, `free`; walking a chain. -/
namespace MgProof.C11
open MgModel.C11 MgProof.C11.Link

variable {α : Type}

/-- the cell behind `r` is allocated -/
def Live (m : DMem α) (r : Ref) : Prop := ∃ c, m.get r = .ok c

/-- `r->next` (`none` when NULL or not dereferenceable) -/
def nxt (m : DMem α) (r : Ref) : Option Ref :=
  match m.get r with
  | .ok c => c.next
  | .error _ => none

/-- `r->prev` -/
def prv (m : DMem α) (r : Ref) : Option Ref :=
  match m.get r with
  | .ok c => c.prev
  | .error _ => none

/-- payload of `r` -/
def valOf (m : DMem α) (r : Ref) : Option α :=
  match m.get r with
  | .ok c => some c.val
  | .error _ => none

theorem live_of_nxt {m : DMem α} {r x : Ref} (h : nxt m r = some x) : Live m r := by
  unfold nxt at h
  cases hg : m.get r with
  | ok c => exact ⟨c, hg⟩
  | error e => rw [hg] at h; simp at h

theorem live_of_prv {m : DMem α} {r x : Ref} (h : prv m r = some x) : Live m r := by
  unfold prv at h
  cases hg : m.get r with
  | ok c => exact ⟨c, hg⟩
  | error e => rw [hg] at h; simp at h

theorem live_node_lt {m : DMem α} {i : Nat} (h : Live m (.node i)) : i < m.cells.length := by
  obtain ⟨c, hc⟩ := h
  simp only [DMem.get] at hc
  cases hi : m.cells[i]? with
  | none => rw [hi] at hc; simp at hc
  | some o =>
    have := List.getElem?_eq_some_iff.mp hi
    exact this.1

/-- storing a cell: the stored cell is read back, every other cell is untouched -/
theorem set_spec {m : DMem α} {r : Ref} (hl : Live m r) (c : Cell α) :
    ∃ m', m.set r c = .ok m' ∧ m'.cells.length = m.cells.length ∧
      ∀ q, m'.get q = if q = r then .ok c else m.get q := by
  obtain ⟨c0, hc0⟩ := hl
  cases r with
  | head =>
    refine ⟨{ m with head := c }, rfl, rfl, ?_⟩
    intro q; cases q <;> simp [DMem.get]
  | tail =>
    refine ⟨{ m with tail := c }, rfl, rfl, ?_⟩
    intro q; cases q <;> simp [DMem.get]
  | node i =>
    simp only [DMem.get] at hc0
    cases hi : m.cells[i]? with
    | none => rw [hi] at hc0; simp at hc0
    | some o =>
      cases o with
      | none => rw [hi] at hc0; simp at hc0
      | some c1 =>
        have hlt : i < m.cells.length := (List.getElem?_eq_some_iff.mp hi).1
        refine ⟨{ m with cells := m.cells.set i (some c) }, by simp [DMem.set, hi], by simp, ?_⟩
        intro q
        cases q with
        | head => simp [DMem.get]
        | tail => simp [DMem.get]
        | node j =>
          by_cases hj : j = i
          · subst hj; simp [DMem.get, hlt]
          · have : ¬ i = j := fun h => hj h.symm
            simp [DMem.get, List.getElem?_set, hj, this]

theorem setNext_spec {m : DMem α} {r : Ref} {c : Cell α} (hc : m.get r = .ok c) (x : Option Ref) :
    ∃ m', m.setNext r x = .ok m' ∧ m'.cells.length = m.cells.length ∧
      ∀ q, m'.get q = if q = r then .ok { c with next := x } else m.get q := by
  obtain ⟨m', h, hl, hg⟩ := set_spec ⟨c, hc⟩ { c with next := x }
  exact ⟨m', by simp [DMem.setNext, hc, h, bind, Except.bind], hl, hg⟩

theorem setPrev_spec {m : DMem α} {r : Ref} {c : Cell α} (hc : m.get r = .ok c) (x : Option Ref) :
    ∃ m', m.setPrev r x = .ok m' ∧ m'.cells.length = m.cells.length ∧
      ∀ q, m'.get q = if q = r then .ok { c with prev := x } else m.get q := by
  obtain ⟨m', h, hl, hg⟩ := set_spec ⟨c, hc⟩ { c with prev := x }
  exact ⟨m', by simp [DMem.setPrev, hc, h, bind, Except.bind], hl, hg⟩

theorem setVal_spec {m : DMem α} {r : Ref} {c : Cell α} (hc : m.get r = .ok c) (v : α) :
    ∃ m', m.setVal r v = .ok m' ∧ m'.cells.length = m.cells.length ∧
      ∀ q, m'.get q = if q = r then .ok { c with val := v } else m.get q := by
  obtain ⟨m', h, hl, hg⟩ := set_spec ⟨c, hc⟩ { c with val := v }
  exact ⟨m', by simp [DMem.setVal, hc, h, bind, Except.bind], hl, hg⟩

/-- allocation: the new cell is `node cells.length`; nothing else changes -/
theorem alloc_spec (m : DMem α) (v : α) :
    (m.alloc v).2 = .node m.cells.length ∧
    (m.alloc v).1.cells.length = m.cells.length + 1 ∧
    (m.alloc v).1.get (.node m.cells.length) = .ok { prev := none, next := none, val := v } ∧
    ∀ q, q ≠ .node m.cells.length → (m.alloc v).1.get q = m.get q := by
  refine ⟨rfl, by simp [DMem.alloc], by simp [DMem.alloc, DMem.get], ?_⟩
  intro q hq
  cases q with
  | head => rfl
  | tail => rfl
  | node j =>
    have hj : j ≠ m.cells.length := fun h => hq (by rw [h])
    simp only [DMem.alloc, DMem.get, List.getElem?_append]
    by_cases h : j < m.cells.length
    · simp [h]
    · have h1 : m.cells[j]? = none := List.getElem?_eq_none (by omega)
      have h2 : ([some ({ prev := none, next := none, val := v } : Cell α)])[j - m.cells.length]? = none :=
        List.getElem?_eq_none (by simp; omega)
      simp [h, h1, h2]

/-- `free(node)`: the node becomes undereferenceable; nothing else changes -/
theorem free_spec {m : DMem α} {i : Nat} (hl : Live m (.node i)) :
    ∃ m', m.free (.node i) = .ok m' ∧ m'.cells.length = m.cells.length ∧
      m'.get (.node i) = .error .uaf ∧ ∀ q, q ≠ .node i → m'.get q = m.get q := by
  obtain ⟨c0, hc0⟩ := hl
  simp only [DMem.get] at hc0
  cases hi : m.cells[i]? with
  | none => rw [hi] at hc0; simp at hc0
  | some o =>
    cases o with
    | none => rw [hi] at hc0; simp at hc0
    | some c1 =>
      have hlt : i < m.cells.length := (List.getElem?_eq_some_iff.mp hi).1
      refine ⟨{ m with cells := m.cells.set i none }, by simp [DMem.free, hi], by simp, ?_, ?_⟩
      · simp [DMem.get, hlt]
      · intro q hq
        cases q with
        | head => rfl
        | tail => rfl
        | node j =>
          have : ¬ i = j := fun h => hq (by rw [h])
          simp [DMem.get, List.getElem?_set, this]

/-! ### the same facts at the level of the `next` / `prev` / payload functions -/

theorem live_iff_of_get {m m' : DMem α} {r : Ref} {c : Cell α}
    (hg : ∀ q, m'.get q = if q = r then .ok c else m.get q) (hl : Live m r) (q : Ref) :
    Live m' q ↔ Live m q := by
  unfold Live
  rw [hg q]
  by_cases h : q = r
  · subst h; simp; exact hl
  · simp [h]

/-- net effect of `r->next = x` -/
theorem setNext_fn {m : DMem α} {r : Ref} (hl : Live m r) (x : Option Ref) :
    ∃ m', m.setNext r x = .ok m' ∧ m'.cells.length = m.cells.length ∧
      (∀ q, nxt m' q = if q = r then x else nxt m q) ∧ (∀ q, prv m' q = prv m q) ∧
      (∀ q, valOf m' q = valOf m q) ∧ (∀ q, Live m' q ↔ Live m q) := by
  obtain ⟨c, hc⟩ := hl
  obtain ⟨m', h, hlen, hg⟩ := setNext_spec hc x
  refine ⟨m', h, hlen, ?_, ?_, ?_, live_iff_of_get hg ⟨c, hc⟩⟩ <;>
    (intro q
     by_cases hq : q = r
     · subst hq; simp [nxt, prv, valOf, hg q, hc]
     · simp [nxt, prv, valOf, hg q, hq])

/-- net effect of `r->prev = x` -/
theorem setPrev_fn {m : DMem α} {r : Ref} (hl : Live m r) (x : Option Ref) :
    ∃ m', m.setPrev r x = .ok m' ∧ m'.cells.length = m.cells.length ∧
      (∀ q, nxt m' q = nxt m q) ∧ (∀ q, prv m' q = if q = r then x else prv m q) ∧
      (∀ q, valOf m' q = valOf m q) ∧ (∀ q, Live m' q ↔ Live m q) := by
  obtain ⟨c, hc⟩ := hl
  obtain ⟨m', h, hlen, hg⟩ := setPrev_spec hc x
  refine ⟨m', h, hlen, ?_, ?_, ?_, live_iff_of_get hg ⟨c, hc⟩⟩ <;>
    (intro q
     by_cases hq : q = r
     · subst hq; simp [nxt, prv, valOf, hg q, hc]
     · simp [nxt, prv, valOf, hg q, hq])

/-- net effect of storing a payload -/
theorem setVal_fn {m : DMem α} {r : Ref} (hl : Live m r) (v : α) :
    ∃ m', m.setVal r v = .ok m' ∧ m'.cells.length = m.cells.length ∧
      (∀ q, nxt m' q = nxt m q) ∧ (∀ q, prv m' q = prv m q) ∧
      (∀ q, valOf m' q = if q = r then some v else valOf m q) ∧ (∀ q, Live m' q ↔ Live m q) := by
  obtain ⟨c, hc⟩ := hl
  obtain ⟨m', h, hlen, hg⟩ := setVal_spec hc v
  refine ⟨m', h, hlen, ?_, ?_, ?_, live_iff_of_get hg ⟨c, hc⟩⟩ <;>
    (intro q
     by_cases hq : q = r
     · subst hq; simp [nxt, prv, valOf, hg q, hc]
     · simp [nxt, prv, valOf, hg q, hq])

/-- net effect of allocating a node -/
theorem alloc_fn (m : DMem α) (v : α) :
    (m.alloc v).2 = .node m.cells.length ∧ ¬ Live m (.node m.cells.length) ∧
    Live (m.alloc v).1 (.node m.cells.length) ∧
    (m.alloc v).1.cells.length = m.cells.length + 1 ∧
    (∀ q, nxt (m.alloc v).1 q = if q = .node m.cells.length then none else nxt m q) ∧
    (∀ q, prv (m.alloc v).1 q = if q = .node m.cells.length then none else prv m q) ∧
    (∀ q, valOf (m.alloc v).1 q = if q = .node m.cells.length then some v else valOf m q) ∧
    (∀ q, q ≠ .node m.cells.length → (Live (m.alloc v).1 q ↔ Live m q)) := by
  obtain ⟨h1, h2, h3, h4⟩ := alloc_spec m v
  refine ⟨h1, fun h => Nat.lt_irrefl _ (live_node_lt h), ⟨_, h3⟩, h2, ?_, ?_, ?_, ?_⟩
  · intro q; by_cases hq : q = .node m.cells.length
    · subst hq; simp [nxt, h3]
    · simp [nxt, h4 q hq, hq]
  · intro q; by_cases hq : q = .node m.cells.length
    · subst hq; simp [prv, h3]
    · simp [prv, h4 q hq, hq]
  · intro q; by_cases hq : q = .node m.cells.length
    · subst hq; simp [valOf, h3]
    · simp [valOf, h4 q hq, hq]
  · intro q hq; unfold Live; rw [h4 q hq]

/-- net effect of freeing a node -/
theorem free_fn {m : DMem α} {i : Nat} (hl : Live m (.node i)) :
    ∃ m', m.free (.node i) = .ok m' ∧ m'.cells.length = m.cells.length ∧
      (∀ q, q ≠ .node i → nxt m' q = nxt m q) ∧ (∀ q, q ≠ .node i → prv m' q = prv m q) ∧
      (∀ q, q ≠ .node i → valOf m' q = valOf m q) ∧ ¬ Live m' (.node i) ∧
      (∀ q, q ≠ .node i → (Live m' q ↔ Live m q)) := by
  obtain ⟨m', h, hlen, hd, hg⟩ := free_spec hl
  refine ⟨m', h, hlen, ?_, ?_, ?_, ?_, ?_⟩
  · intro q hq; simp [nxt, hg q hq]
  · intro q hq; simp [prv, hg q hq]
  · intro q hq; simp [valOf, hg q hq]
  · rintro ⟨c, hc⟩; rw [hd] at hc; cases hc
  · intro q hq; unfold Live; rw [hg q hq]

theorem get_of_live {m : DMem α} {r : Ref} (hl : Live m r) :
    ∃ c, m.get r = .ok c ∧ c.next = nxt m r ∧ c.prev = prv m r ∧ some c.val = valOf m r := by
  obtain ⟨c, hc⟩ := hl
  exact ⟨c, hc, by simp [nxt, hc], by simp [prv, hc], by simp [valOf, hc]⟩

/-- **Walking a chain forwards** visits exactly the chain, in order. -/
theorem walkFwd_spec (m : DMem α) (pv : Ref → Option Ref) :
    ∀ (L : List Ref) (cur : Ref) (fuel : Nat), (L ++ [Ref.tail]).head? = some cur →
      Links (nxt m) pv (L ++ [Ref.tail]) → (L ++ [Ref.tail]).Nodup → L.length < fuel →
      m.walkFwd fuel cur = .ok L := by
  intro L
  induction L with
  | nil =>
    intro cur fuel hh _ _ hf
    simp at hh; subst hh
    cases fuel with
    | zero => omega
    | succ f => simp [DMem.walkFwd, pure, Except.pure]
  | cons a L ih =>
    intro cur fuel hh hl hnd hf
    simp at hh; subst hh
    cases fuel with
    | zero => omega
    | succ f =>
      have hne : a ≠ Ref.tail := by
        intro h; subst h
        simp at hnd
      cases hL : L ++ [Ref.tail] with
      | nil => simp at hL
      | cons b rest =>
        simp only [List.cons_append, hL] at hl hnd
        obtain ⟨h1, _, h3⟩ := hl
        obtain ⟨c, hc⟩ := live_of_nxt h1
        have hcn : c.next = some b := by simpa [nxt, hc] using h1
        have := ih b f (by rw [hL]; rfl) (by rw [hL]; exact h3)
          (by rw [hL]; exact (List.nodup_cons.mp hnd).2) (by simp at hf; omega)
        simp [DMem.walkFwd, hne, hc, hcn, this, bind, Except.bind, pure, Except.pure]

/-- **Walking a chain backwards** visits the chain in reverse. -/
theorem walkBwd_spec' (m : DMem α) (nx : Ref → Option Ref) :
    ∀ (R : List Ref) (cur : Ref) (fuel : Nat), (Ref.head :: R.reverse).getLast? = some cur →
      Links nx (prv m) (Ref.head :: R.reverse) → (Ref.head :: R.reverse).Nodup → R.length < fuel →
      m.walkBwd fuel cur = .ok R := by
  intro R
  induction R with
  | nil =>
    intro cur fuel hh _ _ hf
    simp at hh; subst hh
    cases fuel with
    | zero => omega
    | succ f => simp [DMem.walkBwd, pure]
  | cons a R ih =>
    intro cur fuel hh hl hnd hf
    have hrev : Ref.head :: (a :: R).reverse = (Ref.head :: R.reverse) ++ [a] := by simp
    rw [hrev] at hh hl hnd
    have hcur : cur = a := by rw [List.getLast?_concat] at hh; injection hh with hh; exact hh.symm
    subst hcur
    cases fuel with
    | zero => omega
    | succ f =>
      have hne : cur ≠ Ref.head := by
        intro h; subst h
        simp at hnd
      have hsplit : ∃ A p, Ref.head :: R.reverse = A ++ [p] :=
        ⟨(Ref.head :: R.reverse).dropLast, (Ref.head :: R.reverse).getLast (by simp),
          (List.dropLast_concat_getLast (by simp)).symm⟩
      obtain ⟨A, p, hAp⟩ := hsplit
      have hpath : (Ref.head :: R.reverse) ++ [cur] = A ++ p :: [cur] := by rw [hAp]; simp
      rw [hpath, links_append] at hl
      obtain ⟨hl1, _, h2, _⟩ := hl
      obtain ⟨c, hc⟩ := live_of_prv h2
      have hcp : c.prev = some p := by simpa [prv, hc] using h2
      have hlast : (Ref.head :: R.reverse).getLast? = some p := by rw [hAp]; simp
      have hnd' : (Ref.head :: R.reverse).Nodup := (List.nodup_append.mp hnd).1
      have := ih p f hlast (by rw [hAp]; exact hl1) hnd' (by simp at hf; omega)
      simp [DMem.walkBwd, hne, hc, hcp, this, bind, Except.bind, pure, Except.pure]

theorem walkBwd_spec (m : DMem α) (nx : Ref → Option Ref) (L : List Ref) (cur : Ref) (fuel : Nat)
    (hh : (Ref.head :: L).getLast? = some cur) (hl : Links nx (prv m) (Ref.head :: L))
    (hnd : (Ref.head :: L).Nodup) (hf : L.length < fuel) :
    m.walkBwd fuel cur = .ok L.reverse := by
  apply walkBwd_spec' m nx L.reverse cur fuel <;> simp [hh, hl, hnd, hf]

end MgProof.C11
