/-! Helper lemmas for C11: doubly linked chains over abstract `next`/`prev`
functions. `linked_list.c`, `queue.c` and `pointer_slot.c` each perform the same
four-pointer surgery (in different statement orders); these lemmas say what the
surgery does to the chain once its net effect on `next`/`prev` is known. -/
namespace MgProof.C11.Link
variable {ρ : Type}

/-- consecutive elements of the path point at each other -/
def Links (nx pv : ρ → Option ρ) : List ρ → Prop
  | a :: b :: rest => nx a = some b ∧ pv b = some a ∧ Links nx pv (b :: rest)
  | _ => True

theorem links_append (nx pv : ρ → Option ρ) (l1 : List ρ) (a : ρ) (l2 : List ρ) :
    Links nx pv (l1 ++ a :: l2) ↔ Links nx pv (l1 ++ [a]) ∧ Links nx pv (a :: l2) := by
  induction l1 with
  | nil => simp [Links]
  | cons x l1 ih =>
    cases l1 with
    | nil => simp [Links, and_assoc]
    | cons y l1' =>
      simp only [List.cons_append, Links] at ih ⊢
      rw [ih]
      constructor
      · rintro ⟨h1, h2, h3, h4⟩; exact ⟨⟨h1, h2, h3⟩, h4⟩
      · rintro ⟨⟨h1, h2, h3⟩, h4⟩; exact ⟨h1, h2, h3, h4⟩

/-- links only depend on `next` of all but the last and `prev` of all but the first -/
theorem links_congr {nx pv nx' pv' : ρ → Option ρ} (l : List ρ)
    (hn : ∀ x ∈ l.dropLast, nx' x = nx x) (hp : ∀ x ∈ l.tail, pv' x = pv x)
    (h : Links nx pv l) : Links nx' pv' l := by
  induction l with
  | nil => trivial
  | cons a l ih =>
    cases l with
    | nil => trivial
    | cons b rest =>
      obtain ⟨h1, h2, h3⟩ := h
      refine ⟨?_, ?_, ?_⟩
      · rw [hn a (by simp [List.dropLast])]; exact h1
      · rw [hp b (by simp)]; exact h2
      · apply ih
        · intro x hx; apply hn; simp only [List.dropLast_cons_cons]; exact List.mem_cons_of_mem _ hx
        · intro x hx; apply hp; simp only [List.tail_cons] at hx ⊢; exact List.mem_cons_of_mem _ hx
        · exact h3

/-- a duplicate-free, mutually linked path -/
structure Chain (nx pv : ρ → Option ρ) (path : List ρ) : Prop where
  nodup : path.Nodup
  links : Links nx pv path

theorem mem_of_mem_dropLast {l : List ρ} {x : ρ} (h : x ∈ l.dropLast) : x ∈ l :=
  List.dropLast_subset l h

theorem mem_of_mem_tail' {l : List ρ} {x : ρ} (h : x ∈ l.tail) : x ∈ l :=
  List.mem_of_mem_tail h

/-- a chain only depends on the `next`/`prev` of its own cells -/
theorem chain_congr {nx pv nx' pv' : ρ → Option ρ} {P : List ρ}
    (hn : ∀ x ∈ P, nx' x = nx x) (hp : ∀ x ∈ P, pv' x = pv x) (c : Chain nx pv P) :
    Chain nx' pv' P :=
  ⟨c.nodup, links_congr P (fun x hx => hn x (mem_of_mem_dropLast hx))
    (fun x hx => hp x (mem_of_mem_tail' hx)) c.links⟩

/-- **Insertion surgery.** If `p → n` are adjacent, `m` is new, and the net effect
of the pointer writes is `p.next = m`, `m.next = n`, `m.prev = p`, `n.prev = m` with
everything else unchanged, then `m` now sits between `p` and `n`. -/
theorem chain_insert {nx pv nx' pv' : ρ → Option ρ} {A B : List ρ} {p m n : ρ}
    (c : Chain nx pv (A ++ p :: n :: B)) (hm : m ∉ A ++ p :: n :: B)
    (h1 : nx' p = some m) (h2 : nx' m = some n)
    (h3 : ∀ x, x ≠ p → x ≠ m → nx' x = nx x)
    (h4 : pv' n = some m) (h5 : pv' m = some p)
    (h6 : ∀ x, x ≠ n → x ≠ m → pv' x = pv x) :
    Chain nx' pv' (A ++ p :: m :: n :: B) := by
  have hnd := c.nodup
  have hl := c.links
  rw [links_append] at hl
  obtain ⟨hl1, hl2⟩ := hl
  obtain ⟨_, _, hl3⟩ := hl2
  simp only [List.nodup_append, List.nodup_cons, List.mem_append, List.mem_cons, not_or] at hnd hm
  obtain ⟨hA, ⟨⟨hpn, hpB⟩, ⟨hnB, hB⟩⟩, hdisj⟩ := hnd
  obtain ⟨hmA, hmp, hmn, hmB⟩ := hm
  constructor
  · simp only [List.nodup_append, List.nodup_cons, List.mem_cons, not_or]
    refine ⟨hA, ⟨⟨fun h => hmp h.symm, hpn, hpB⟩, ⟨hmn, hmB⟩, hnB, hB⟩, ?_⟩
    intro a ha b hb
    rcases hb with hb | hb | hb
    · exact hdisj a ha b (by simp [hb])
    · subst hb; intro h; exact hmA (h ▸ ha)
    · exact hdisj a ha b (by simp [hb])
  · rw [links_append]
    refine ⟨?_, h1, h5, h2, h4, ?_⟩
    · refine links_congr _ ?_ ?_ hl1
      · intro x hx
        simp only [List.dropLast_concat] at hx
        apply h3
        · intro h; exact hdisj x hx p (by simp) h
        · intro h; exact hmA (h ▸ hx)
      · intro x hx
        have hx' := mem_of_mem_tail' hx
        simp only [List.mem_append, List.mem_singleton] at hx'
        apply h6
        · intro h; rcases hx' with hx' | hx'
          · exact hdisj x hx' n (by simp) h
          · exact hpn (hx' ▸ h)
        · intro h; rcases hx' with hx' | hx'
          · exact hmA (h ▸ hx')
          · exact hmp (h.symm.trans hx')
    · refine links_congr _ ?_ ?_ hl3
      · intro x hx
        have hx' := mem_of_mem_dropLast hx
        simp only [List.mem_cons] at hx'
        apply h3
        · intro h; rcases hx' with hx' | hx'
          · exact hpn (h ▸ hx')
          · exact hpB (h ▸ hx')
        · intro h; rcases hx' with hx' | hx'
          · exact hmn (h.symm.trans hx')
          · exact hmB (h ▸ hx')
      · intro x hx
        simp only [List.tail_cons] at hx
        apply h6
        · intro h; exact hnB (h ▸ hx)
        · intro h; exact hmB (h ▸ hx)

/-- **Removal surgery.** If `p → m → n` are consecutive and the net effect of the
pointer writes is `p.next = n`, `n.prev = p` with every cell other than `m`
unchanged, then the chain is the old one without `m`. -/
theorem chain_remove {nx pv nx' pv' : ρ → Option ρ} {A B : List ρ} {p m n : ρ}
    (c : Chain nx pv (A ++ p :: m :: n :: B))
    (h1 : nx' p = some n) (h3 : ∀ x, x ≠ p → x ≠ m → nx' x = nx x)
    (h4 : pv' n = some p) (h6 : ∀ x, x ≠ n → x ≠ m → pv' x = pv x) :
    Chain nx' pv' (A ++ p :: n :: B) := by
  have hnd := c.nodup
  have hl := c.links
  rw [links_append] at hl
  obtain ⟨hl1, hl2⟩ := hl
  obtain ⟨_, _, _, _, hl3⟩ := hl2
  simp only [List.nodup_append, List.nodup_cons, List.mem_cons, not_or] at hnd
  obtain ⟨hA, ⟨⟨hpm, hpn, hpB⟩, ⟨⟨hmn, hmB⟩, hnB, hB⟩⟩, hdisj⟩ := hnd
  constructor
  · simp only [List.nodup_append, List.nodup_cons, List.mem_cons, not_or]
    refine ⟨hA, ⟨⟨hpn, hpB⟩, hnB, hB⟩, ?_⟩
    intro a ha b hb
    rcases hb with hb | hb | hb
    · exact hdisj a ha b (by simp [hb])
    · exact hdisj a ha b (by simp [hb])
    · exact hdisj a ha b (by simp [hb])
  · rw [links_append]
    refine ⟨?_, h1, h4, ?_⟩
    · refine links_congr _ ?_ ?_ hl1
      · intro x hx
        simp only [List.dropLast_concat] at hx
        apply h3
        · intro h; exact hdisj x hx p (by simp) h
        · intro h; exact hdisj x hx m (by simp) h
      · intro x hx
        have hx' := mem_of_mem_tail' hx
        simp only [List.mem_append, List.mem_singleton] at hx'
        apply h6
        · intro h; rcases hx' with hx' | hx'
          · exact hdisj x hx' n (by simp) h
          · exact hpn (hx' ▸ h)
        · intro h; rcases hx' with hx' | hx'
          · exact hdisj x hx' m (by simp) h
          · exact hpm (hx' ▸ h)
    · refine links_congr _ ?_ ?_ hl3
      · intro x hx
        have hx' := mem_of_mem_dropLast hx
        simp only [List.mem_cons] at hx'
        apply h3
        · intro h; rcases hx' with hx' | hx'
          · exact hpn (h ▸ hx')
          · exact hpB (h ▸ hx')
        · intro h; rcases hx' with hx' | hx'
          · exact hmn (h ▸ hx')
          · exact hmB (h ▸ hx')
      · intro x hx
        simp only [List.tail_cons] at hx
        apply h6
        · intro h; exact hnB (h ▸ hx)
        · intro h; exact hmB (h ▸ hx)

end MgProof.C11.Link
