import MgModel.C11.PointerSlot
import MgProof.C11.LemmasSurgery
import MgProof.C11.LemmasStore
/-! Helper lemmas for the pointer slot: ring arithmetic (`& (capacity-1)` is `mod`,
counters wrapping at `2^32` are harmless because the capacity divides `2^32`), the
representation invariant, and basic consequences. -/
namespace MgProof.C11.PS
open MgModel.C11 MgModel.C11.PS MgProof.C11 MgProof.C11.Link

theorem ringIdx_eq (idx : BitVec 32) {k : Nat} (hk : k ≤ 31) :
    ringIdx idx (2 ^ k) = idx.toNat % 2 ^ k := by
  unfold ringIdx
  have h1 : (2:Nat) ^ k < 2 ^ 32 := Nat.pow_lt_pow_right (by omega) (by omega)
  have h0 : 0 < (2:Nat) ^ k := Nat.pow_pos (by omega)
  have hm : (BitVec.ofNat 32 (2 ^ k) - 1).toNat = 2 ^ k - 1 := by
    rw [BitVec.toNat_sub]
    simp only [BitVec.toNat_ofNat, BitVec.toNat_ofNat]
    rw [Nat.mod_eq_of_lt h1]
    generalize (2:Nat) ^ k = M at *
    simp
    omega
  rw [BitVec.toNat_and, hm, Nat.and_two_pow_sub_one_eq_mod]

theorem mod_add_ne {F d M : Nat} (h0 : 0 < d) (hd : d < M) : (F + d) % M ≠ F % M := by
  intro h
  have := Nat.sub_mod_eq_zero_of_mod_eq h
  rw [Nat.add_sub_cancel_left, Nat.mod_eq_of_lt hd] at this
  omega

/-- slot indices of the live entries, in insertion order -/
def idxs (l : Spec) : List Nat := l.map (·.1)
/-- the cells of the live entries -/
def refs (l : Spec) : List Ref := l.map (fun e => Ref.node e.1)
/-- the chain `head → live slots in insertion order → tail` -/
def ppath (l : Spec) : List Ref := Ref.head :: (refs l ++ [Ref.tail])

/-- **Representation invariant of the pointer slot.** `A`, `F` are the unbounded
(ghost) values of the two free-running counters; `fl` lists the free slot
descriptors in the order the ring will hand them out. -/
structure PInv (s : PS) (l : Spec) (A F : Nat) (fl : List Nat) : Prop where
  pow      : ∃ k, k ≤ 31 ∧ s.capacity = 2 ^ k
  cells_len : s.mem.cells.length = s.capacity
  pp_len   : s.ppSlots.length = s.capacity
  pp_lt    : ∀ j, j < s.capacity → ∃ x, s.ppSlots[j]? = some x ∧ x < s.capacity
  chain    : Chain (nxt s.mem) (prv s.mem) (ppath l)
  lt       : ∀ e ∈ l, e.1 < s.capacity
  slots    : ∀ i, i < s.capacity → ∃ sv, valOf s.mem (.node i) = some sv ∧ sv.slotIdx = i ∧
               ((sv.inUsed = 1 ∧ (i, sv.data) ∈ l) ∨ (sv.inUsed = 0 ∧ i ∉ idxs l))
  cnt      : A = F + l.length
  a_eq     : s.allocIndex.toNat = A % 2 ^ 32
  f_eq     : s.freeIndex.toNat = F % 2 ^ 32
  fl_len   : fl.length + l.length = s.capacity
  fl_nodup : fl.Nodup
  fl_ring  : ∀ j (h : j < fl.length), s.ppSlots[(A + j) % s.capacity]? = some fl[j]
  fl_mem   : ∀ i, i ∈ fl ↔ (i < s.capacity ∧ i ∉ idxs l)

theorem PInv.idxs_nodup {s : PS} {l : Spec} {A F : Nat} {fl : List Nat} (inv : PInv s l A F fl) :
    (idxs l).Nodup := by
  have h := inv.chain.nodup
  simp only [ppath, List.nodup_cons, List.nodup_append] at h
  have h2 := h.2.1
  unfold refs at h2
  unfold idxs
  rw [List.Nodup, List.pairwise_map] at h2 ⊢
  exact h2.imp (fun hab e => hab (by rw [e]))

theorem PInv.ring_pos {s : PS} {l : Spec} {A F : Nat} {fl : List Nat} (inv : PInv s l A F fl) :
    ringIdx s.allocIndex s.capacity = A % s.capacity ∧
    ringIdx s.freeIndex s.capacity = F % s.capacity := by
  obtain ⟨k, hk, hc⟩ := inv.pow
  have hd : 2 ^ k ∣ 2 ^ 32 := Nat.pow_dvd_pow 2 (by omega)
  rw [hc, ringIdx_eq _ hk, ringIdx_eq _ hk, inv.a_eq, inv.f_eq, Nat.mod_mod_of_dvd _ hd,
    Nat.mod_mod_of_dvd _ hd]
  exact ⟨rfl, rfl⟩

theorem PInv.cap_pos {s : PS} {l : Spec} {A F : Nat} {fl : List Nat} (inv : PInv s l A F fl) :
    0 < s.capacity := by
  obtain ⟨k, _, hc⟩ := inv.pow
  rw [hc]; exact Nat.pow_pos (by omega)

theorem live_of_valOf {m : DMem SlotVal} {r : Ref} {v : SlotVal} (h : valOf m r = some v) :
    Live m r := by
  unfold valOf at h
  cases hg : m.get r with
  | ok c => exact ⟨c, hg⟩
  | error e => rw [hg] at h; simp at h

/-- data stored under a live index is unique -/
theorem PInv.data_unique {s : PS} {l : Spec} {A F : Nat} {fl : List Nat} (inv : PInv s l A F fl)
    {i : Nat} {d1 d2 : Val} (h1 : (i, d1) ∈ l) (h2 : (i, d2) ∈ l) : d1 = d2 := by
  have hnd := inv.idxs_nodup
  unfold idxs at hnd
  rw [List.Nodup, List.pairwise_map] at hnd
  apply Classical.byContradiction
  intro hne
  obtain ⟨j1, hj1, e1⟩ := List.getElem_of_mem h1
  obtain ⟨j2, hj2, e2⟩ := List.getElem_of_mem h2
  have hj : j1 ≠ j2 := by
    intro h; subst h; rw [e1] at e2; injection e2 with _ h; exact hne h
  rcases Nat.lt_or_gt_of_ne hj with h | h
  · have := List.pairwise_iff_getElem.mp hnd j1 j2 hj1 hj2 h
    rw [e1, e2] at this; exact this rfl
  · have := List.pairwise_iff_getElem.mp hnd j2 j1 hj2 hj1 h
    rw [e1, e2] at this; exact this rfl

/-! ### `muggle_next_pow_of_2` on the requests of `muggle_pointer_slot_init` -/

/-- the top bit of a number in `[2^k, 2^(k+1))` -/
theorem testBit_top {y k : Nat} (h1 : 2 ^ k ≤ y) (h2 : y < 2 ^ (k + 1)) : y.testBit k = true := by
  rw [Nat.testBit_eq_decide_div_mod_eq]
  have : y / 2 ^ k = 1 := by
    have hp : 0 < 2 ^ k := Nat.pow_pos (by omega)
    apply Nat.div_eq_of_lt_le
    · simpa using h1
    · rw [Nat.pow_succ] at h2; omega
  simp [this]

/-- one smearing step `s ||| (s >>> n)` doubles the window of bits of `x` that are or-ed -/
theorem smear_step {x s n : Nat}
    (h : ∀ i, s.testBit i = true ↔ ∃ d, d < n ∧ x.testBit (i + d) = true) :
    ∀ i, (s ||| (s >>> n)).testBit i = true ↔ ∃ d, d < n + n ∧ x.testBit (i + d) = true := by
  intro i
  rw [Nat.testBit_or, Nat.testBit_shiftRight, Bool.or_eq_true, h, h]
  constructor
  · rintro (⟨d, hd, hb⟩ | ⟨d, hd, hb⟩)
    · exact ⟨d, by omega, hb⟩
    · exact ⟨n + d, by omega, by rw [← hb]; congr 1; omega⟩
  · rintro ⟨d, hd, hb⟩
    by_cases hdn : d < n
    · exact Or.inl ⟨d, hdn, hb⟩
    · exact Or.inr ⟨d - n, by omega, by rw [← hb]; congr 1; omega⟩

/-- **`muggle_next_pow_of_2`** returns the least power of two `≥ x` for `0 < x ≤ 2^31` -/
theorem nextPow2_spec {x : Nat} (h0 : 0 < x) (hx : x ≤ 2 ^ 31) :
    ∃ k, k ≤ 31 ∧ nextPow2 x = 2 ^ k ∧ x ≤ 2 ^ k := by
  have hne : x ≠ 0 := by omega
  have hlo := Nat.log2_self_le hne
  have hhi := @Nat.lt_log2_self x
  generalize x.log2 = k at hlo hhi
  have hk31 : k ≤ 31 := by
    apply Classical.byContradiction
    intro h
    have : 2 ^ 32 ≤ 2 ^ k := Nat.pow_le_pow_right (by omega) (by omega)
    omega
  by_cases hpow : x = 2 ^ k
  · refine ⟨k, hk31, ?_, by omega⟩
    have : isPow2 x = true := by
      unfold isPow2
      rw [hpow, Nat.and_two_pow_sub_one_eq_mod]
      simp
    unfold nextPow2
    rw [if_pos this, hpow]
  · have hgt : 2 ^ k < x := by omega
    have hk30 : k ≤ 30 := by
      apply Classical.byContradiction
      intro h
      have : 2 ^ 31 ≤ 2 ^ k := Nat.pow_le_pow_right (by omega) (by omega)
      omega
    have hnp : isPow2 x = false := by
      unfold isPow2
      have hb : (x &&& (x - 1)).testBit k = true := by
        rw [Nat.testBit_and, testBit_top hlo hhi, testBit_top (y := x - 1) (by omega) (by omega)]
        rfl
      cases hd : decide (x &&& (x - 1) = 0) with
      | false => rfl
      | true =>
        have : x &&& (x - 1) = 0 := by simpa using hd
        rw [this, Nat.zero_testBit] at hb
        cases hb
    have h1 : ∀ i, x.testBit i = true ↔ ∃ d, d < 1 ∧ x.testBit (i + d) = true := by
      intro i
      constructor
      · intro h; exact ⟨0, by omega, h⟩
      · rintro ⟨d, hd, hb⟩
        have : d = 0 := by omega
        subst this; exact hb
    have h2 := smear_step h1
    have h4 := smear_step h2
    have h8 := smear_step h4
    have h16 := smear_step h8
    have h32 := smear_step h16
    refine ⟨k + 1, by omega, ?_, by omega⟩
    have hs : ∀ s, (∀ i, s.testBit i = true ↔ ∃ d, d < 32 ∧ x.testBit (i + d) = true) →
        s = 2 ^ (k + 1) - 1 := by
      intro s hsp
      apply Nat.eq_of_testBit_eq
      intro i
      rw [Nat.testBit_two_pow_sub_one]
      by_cases hik : i < k + 1
      · have : s.testBit i = true := (hsp i).mpr ⟨k - i, by omega, by
          have : i + (k - i) = k := by omega
          rw [this]; exact testBit_top hlo hhi⟩
        simp [this, hik]
      · have : s.testBit i = false := by
          cases hb : s.testBit i with
          | false => rfl
          | true =>
            obtain ⟨d, _, hd⟩ := (hsp i).mp hb
            have : x < 2 ^ (i + d) :=
              Nat.lt_of_lt_of_le hhi (Nat.pow_le_pow_right (by omega) (by omega))
            rw [Nat.testBit_lt_two_pow this] at hd
            cases hd
        simp [this, hik]
    have hsm := hs _ h32
    have hlt : 2 ^ (k + 1) ≤ 2 ^ 31 := Nat.pow_le_pow_right (by omega) (by omega)
    have hpos : 0 < 2 ^ (k + 1) := Nat.pow_pos (by omega)
    simp only [nextPow2, hnp, Bool.false_eq_true, if_false]
    rw [hsm]
    have : 2 ^ (k + 1) - 1 + 1 = 2 ^ (k + 1) := by omega
    rw [this]
    apply Nat.mod_eq_of_lt
    omega

/-- the rounded capacity of `muggle_pointer_slot_init` for every request `≤ 2^31` -/
theorem roundCap_spec {req : Nat} (hreq : req ≤ 2 ^ 31) :
    ∃ k, k ≤ 31 ∧ roundCap req = 2 ^ k ∧ req ≤ 2 ^ k := by
  unfold roundCap
  by_cases h0 : req > 0
  · obtain ⟨k, hk, hp, hle⟩ := nextPow2_spec h0 hreq
    refine ⟨k, hk, ?_, hle⟩
    simp only [h0, if_true, hp]
    apply Nat.mod_eq_of_lt
    exact Nat.pow_lt_pow_right (by omega) (by omega)
  · obtain ⟨k, hk, hp, hle⟩ := nextPow2_spec (x := 1) (by omega) (by omega)
    refine ⟨k, hk, ?_, by omega⟩
    simp only [h0, if_false, hp]
    apply Nat.mod_eq_of_lt
    exact Nat.pow_lt_pow_right (by omega) (by omega)

end MgProof.C11.PS
