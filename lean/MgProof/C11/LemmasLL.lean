import MgModel.C11.LinkedList
import MgProof.C11.LemmasSurgery
import MgProof.C11.LemmasStore
/-! Helper lemmas for the linked list: representation invariant (the heap cells
form the chain `head → handles of l → tail`, each holding its datum), the split of
the chain at an insertion point, and the reference-sequence functions on a split. -/
namespace MgProof.C11.LL
open MgModel.C11 MgModel.C11.LL MgProof.C11 MgProof.C11.Link

/-- handles of a reference sequence -/
def ids (l : Spec) : List Ref := l.map (·.1)

/-- the chain of cells representing `l` -/
def path (l : Spec) : List Ref := Ref.head :: (ids l ++ [Ref.tail])

/-- **Representation invariant** (shared by linked list and queue: same memory layout) -/
structure MInv (m : DMem Val) (l : Spec) : Prop where
  chain : Chain (nxt m) (prv m) (path l)
  vals  : ∀ r v, (r, v) ∈ l → valOf m r = some v

theorem live_of_valOf {m : DMem Val} {r : Ref} {v : Val} (h : valOf m r = some v) : Live m r := by
  unfold valOf at h
  cases hg : m.get r with
  | ok c => exact ⟨c, hg⟩
  | error e => rw [hg] at h; simp at h

theorem ids_append (L1 L2 : Spec) : ids (L1 ++ L2) = ids L1 ++ ids L2 := by simp [ids]

theorem mem_ids {l : Spec} {r : Ref} (h : r ∈ ids l) : ∃ v, (r, v) ∈ l := by
  simp only [ids, List.mem_map] at h
  obtain ⟨⟨r', v⟩, hm, rfl⟩ := h
  exact ⟨v, hm⟩

theorem MInv.live {m : DMem Val} {l : Spec} (inv : MInv m l) {r : Ref} (h : r ∈ ids l) :
    Live m r := by
  obtain ⟨v, hv⟩ := mem_ids h
  exact live_of_valOf (inv.vals r v hv)

/-- a never-allocated node is not on the chain -/
theorem MInv.fresh {m : DMem Val} {l : Spec} (inv : MInv m l) :
    Ref.node m.cells.length ∉ path l := by
  intro h
  simp only [path, List.mem_cons, List.mem_append] at h
  rcases h with h | h | h | h
  · cases h
  · exact Nat.lt_irrefl _ (live_node_lt (inv.live h))
  · cases h
  · cases h

theorem MInv.ids_nodup {m : DMem Val} {l : Spec} (inv : MInv m l) : (ids l).Nodup := by
  have := inv.chain.nodup
  simp only [path, List.nodup_cons, List.nodup_append] at this
  exact this.2.1

/-- the chain split at the boundary between `L1` and `L2` -/
theorem split_path (L1 L2 : Spec) :
    ∃ A p n B, Ref.head :: ids L1 = A ++ [p] ∧ ids L2 ++ [Ref.tail] = n :: B ∧
      path (L1 ++ L2) = A ++ p :: n :: B := by
  have h1 : Ref.head :: ids L1 ≠ [] := by simp
  cases h2 : ids L2 ++ [Ref.tail] with
  | nil => simp at h2
  | cons n B =>
    refine ⟨(Ref.head :: ids L1).dropLast, (Ref.head :: ids L1).getLast h1, n, B,
      (List.dropLast_concat_getLast h1).symm, rfl, ?_⟩
    have e : path (L1 ++ L2) = (Ref.head :: ids L1) ++ (ids L2 ++ [Ref.tail]) := by
      simp [path, ids_append]
    rw [e, h2]
    conv => lhs; rw [← List.dropLast_concat_getLast h1]
    simp

/-- result of linking a fresh cell in at a split: the invariant for the sequence
with the new element at the boundary -/
theorem MInv.linked {m m2 m6 : DMem Val} {L1 L2 : Spec} {A B : List Ref} {p n nw : Ref} {v : Val}
    (inv : MInv m (L1 ++ L2)) (hnw : nw ∉ path (L1 ++ L2))
    (hP : Ref.head :: ids L1 = A ++ [p]) (hN : ids L2 ++ [Ref.tail] = n :: B)
    (hv2 : ∀ q, valOf m2 q = if q = nw then some v else valOf m q)
    (hc : Chain (nxt m6) (prv m6) (A ++ p :: nw :: n :: B)) (hl : Linked m2 m6) :
    MInv m6 (L1 ++ (nw, v) :: L2) := by
  constructor
  · have e : path (L1 ++ (nw, v) :: L2) = (Ref.head :: ids L1) ++ nw :: (ids L2 ++ [Ref.tail]) := by
      simp [path, ids]
    rw [e, hP, hN]
    simpa using hc
  · intro r x hx
    rw [hl.vals, hv2]
    simp only [List.mem_append, List.mem_cons] at hx
    have old : (r, x) ∈ L1 ++ L2 → (if r = nw then some v else valOf m r) = some x := by
      intro hm
      have hr : r ≠ nw := by
        intro h; subst h
        apply hnw
        simp only [path, List.mem_cons, List.mem_append]
        right; left
        simp only [ids, List.mem_map]
        exact ⟨(r, x), hm, rfl⟩
      simp [hr, inv.vals r x hm]
    rcases hx with hx | hx | hx
    · exact old (by simp [hx])
    · injection hx with h1 h2; subst h1; subst h2; simp
    · exact old (by simp [hx])

/-- alloc + store the datum: the chain is untouched, the new cell is live and fresh -/
theorem MInv.alloc_setVal {m : DMem Val} {l : Spec} (inv : MInv m l) (v : Val) :
    ∃ m2, (m.alloc 0).2 = .node m.cells.length ∧
      (m.alloc 0).1.setVal (.node m.cells.length) v = .ok m2 ∧
      Chain (nxt m2) (prv m2) (path l) ∧ Live m2 (.node m.cells.length) ∧
      m2.cells.length = m.cells.length + 1 ∧
      (∀ q, valOf m2 q = if q = .node m.cells.length then some v else valOf m q) ∧
      (∀ q, q ≠ .node m.cells.length → nxt m2 q = nxt m q) ∧
      (∀ q, q ≠ .node m.cells.length → prv m2 q = prv m q) := by
  obtain ⟨a1, _, a3, a4, a5, a6, a7, _⟩ := alloc_fn m (0 : Val)
  obtain ⟨m2, h2, l2, n2, p2, v2, lv2⟩ := setVal_fn a3 v
  have hfresh := inv.fresh
  refine ⟨m2, a1, h2, ?_, (lv2 _).mpr a3, by omega, ?_, ?_, ?_⟩
  · apply chain_congr _ _ inv.chain
    · intro x hx
      have : x ≠ .node m.cells.length := fun h => hfresh (h ▸ hx)
      rw [n2, a5]; simp [this]
    · intro x hx
      have : x ≠ .node m.cells.length := fun h => hfresh (h ▸ hx)
      rw [p2, a6]; simp [this]
  · intro q; rw [v2, a7]
    by_cases hq : q = .node m.cells.length <;> simp [hq]
  · intro q hq; rw [n2, a5]; simp [hq]
  · intro q hq; rw [p2, a6]; simp [hq]

/-! ### the reference-sequence functions on a decomposition `L1 ++ (n, v0) :: L2` -/

theorem insBefore_split {n : Ref} {x : Ref × Val} {v0 : Val} (L1 L2 : Spec) (h : n ∉ ids L1) :
    insBefore n x (L1 ++ (n, v0) :: L2) = L1 ++ x :: (n, v0) :: L2 := by
  induction L1 with
  | nil => simp [insBefore]
  | cons a L1 ih =>
    simp only [ids, List.map_cons, List.mem_cons, not_or] at h
    have ha : ¬ a.1 = n := fun e => h.1 e.symm
    simp only [List.cons_append, insBefore, ha, if_false]
    rw [ih (by simpa [ids] using h.2)]

theorem insAfter_split {n : Ref} {x : Ref × Val} {v0 : Val} (L1 L2 : Spec) (h : n ∉ ids L1) :
    insAfter n x (L1 ++ (n, v0) :: L2) = L1 ++ (n, v0) :: x :: L2 := by
  induction L1 with
  | nil => simp [insAfter]
  | cons a L1 ih =>
    simp only [ids, List.map_cons, List.mem_cons, not_or] at h
    have ha : ¬ a.1 = n := fun e => h.1 e.symm
    simp only [List.cons_append, insAfter, ha, if_false]
    rw [ih (by simpa [ids] using h.2)]

theorem succOf_split {n : Ref} {v0 : Val} (L1 L2 : Spec) (h : n ∉ ids L1) :
    succOf n (L1 ++ (n, v0) :: L2) = L2.head?.map (·.1) := by
  induction L1 with
  | nil => simp [succOf]
  | cons a L1 ih =>
    simp only [ids, List.map_cons, List.mem_cons, not_or] at h
    have ha : ¬ a.1 = n := fun e => h.1 e.symm
    simp only [List.cons_append, succOf, ha, if_false]
    exact ih (by simpa [ids] using h.2)

theorem dataOf_split {n : Ref} {v0 : Val} (L1 L2 : Spec) (h : n ∉ ids L1) :
    dataOf n (L1 ++ (n, v0) :: L2) = some v0 := by
  induction L1 with
  | nil => simp [dataOf]
  | cons a L1 ih =>
    simp only [ids, List.map_cons, List.mem_cons, not_or] at h
    have ha : ¬ a.1 = n := fun e => h.1 e.symm
    simp only [List.cons_append, dataOf, ha, if_false]
    exact ih (by simpa [ids] using h.2)

theorem predOf_none {n : Ref} (l : Spec) (a : Ref × Val) (h : n ∉ ids l) :
    predOf n (a :: l) = none := by
  induction l generalizing a with
  | nil => rfl
  | cons b l ih =>
    simp only [ids, List.map_cons, List.mem_cons, not_or] at h
    have hb : ¬ b.1 = n := fun e => h.1 e.symm
    simp only [predOf, hb, if_false]
    exact ih b (by simpa [ids] using h.2)

theorem predOf_split {n : Ref} {v0 : Val} (L1 L2 : Spec) (h : n ∉ ids L1) (h2 : n ∉ ids L2) :
    predOf n (L1 ++ (n, v0) :: L2) = L1.getLast?.map (·.1) := by
  induction L1 with
  | nil => simpa using predOf_none L2 (n, v0) h2
  | cons a L1 ih =>
    simp only [ids, List.map_cons, List.mem_cons, not_or] at h
    cases L1 with
    | nil => simp [predOf]
    | cons b L1' =>
      simp only [List.map_cons, List.mem_cons, not_or] at h
      have hb : ¬ b.1 = n := fun e => h.2.1 e.symm
      have := ih (by simp [ids]; exact ⟨h.2.1, by simpa [ids] using h.2.2⟩)
      simp only [List.cons_append, predOf, hb, if_false] at this ⊢
      rw [this]; simp

theorem filter_split {n : Ref} {v0 : Val} (L1 L2 : Spec) (h1 : n ∉ ids L1) (h2 : n ∉ ids L2) :
    (L1 ++ (n, v0) :: L2).filter (fun a => a.1 ≠ n) = L1 ++ L2 := by
  have f : ∀ L : Spec, n ∉ ids L → L.filter (fun a => a.1 ≠ n) = L := by
    intro L hL
    apply List.filter_eq_self.mpr
    intro a ha
    have : a.1 ≠ n := by
      intro e; apply hL; simp only [ids, List.mem_map]; exact ⟨a, ha, e⟩
    simpa using this
  rw [List.filter_append, List.filter_cons, f L1 h1, f L2 h2]
  simp

/-- a handle of the sequence decomposes it (uniquely, the handles being distinct) -/
theorem decompose {l : Spec} {n : Ref} (hn : n ∈ ids l) (hnd : (ids l).Nodup) :
    ∃ L1 v0 L2, l = L1 ++ (n, v0) :: L2 ∧ n ∉ ids L1 ∧ n ∉ ids L2 := by
  obtain ⟨v0, hv⟩ := mem_ids hn
  obtain ⟨L1, L2, rfl⟩ := List.append_of_mem hv
  refine ⟨L1, v0, L2, rfl, ?_, ?_⟩
  · intro h
    simp only [ids, List.map_append, List.map_cons, List.nodup_append] at hnd
    exact hnd.2.2 n (by simpa [ids] using h) n (by simp) rfl
  · intro h
    simp only [ids, List.map_append, List.map_cons, List.nodup_append, List.nodup_cons] at hnd
    exact hnd.2.1.1 (by simpa [ids] using h)

theorem head_next (m : DMem Val) : m.head.next = nxt m .head := by simp [nxt, DMem.get]
theorem tail_prev (m : DMem Val) : m.tail.prev = prv m .tail := by simp [prv, DMem.get]

/-- a handle of the sequence is a heap node -/
theorem MInv.is_node {m : DMem Val} {l : Spec} (inv : MInv m l) {n : Ref} (h : n ∈ ids l) :
    ∃ i, n = .node i := by
  have hnd := inv.chain.nodup
  simp only [path, List.nodup_cons, List.mem_append, List.mem_singleton, not_or,
    List.nodup_append] at hnd
  cases n with
  | head => exact absurd h hnd.1.1
  | tail => exact absurd rfl (hnd.2.2.2 _ h _ (by simp))
  | node i => exact ⟨i, rfl⟩

/-- the neighbours of the element `n` in the chain -/
theorem split_at (L1 L2 : Spec) (n : Ref) (v0 : Val) :
    ∃ A p n' B, Ref.head :: ids L1 = A ++ [p] ∧ ids L2 ++ [Ref.tail] = n' :: B ∧
      path (L1 ++ (n, v0) :: L2) = A ++ p :: n :: n' :: B ∧
      path (L1 ++ L2) = A ++ p :: n' :: B := by
  obtain ⟨A, p, n', B, hP, hN, hpath⟩ := split_path L1 L2
  refine ⟨A, p, n', B, hP, hN, ?_, hpath⟩
  have e : path (L1 ++ (n, v0) :: L2) = (Ref.head :: ids L1) ++ n :: (ids L2 ++ [Ref.tail]) := by
    simp [path, ids]
  rw [e, hP, hN]; simp

/-- **unlink + free of a list element** (shared by `remove`, `dequeue`, `clear`):
starting from any memory `m1` that differs from the represented one at most in the
payload of `n`, the two-pointer unlink and the `free` succeed and the memory then
represents the sequence without `n`. -/
theorem MInv.remove_node {m m1 : DMem Val} {L1 L2 : Spec} {i : Nat} {v0 : Val}
    (inv : MInv m (L1 ++ (Ref.node i, v0) :: L2))
    (hn1 : ∀ q, nxt m1 q = nxt m q) (hp1 : ∀ q, prv m1 q = prv m q)
    (hv1 : ∀ q, q ≠ .node i → valOf m1 q = valOf m q) (hl1 : ∀ q, Live m1 q ↔ Live m q)
    (hlen : m1.cells.length = m.cells.length) :
    ∃ m4 m5, m1.unlink (.node i) = .ok m4 ∧ m4.free (.node i) = .ok m5 ∧
      MInv m5 (L1 ++ L2) ∧ m5.cells.length = m.cells.length := by
  obtain ⟨A, p, n', B, hP, hN, hpath, hpath'⟩ := split_at L1 L2 (.node i) v0
  have c1 : Chain (nxt m1) (prv m1) (A ++ p :: Ref.node i :: n' :: B) := by
    rw [← hpath]
    exact chain_congr (fun x _ => hn1 x) (fun x _ => hp1 x) inv.chain
  obtain ⟨m4, h4, c4, l4, n4, p4⟩ := unlink_spec c1
  have hlive : Live m4 (.node i) := by
    rw [l4.live, hl1]
    exact inv.live (by simp [ids])
  obtain ⟨m5, h5, len5, n5, p5, v5, _, _⟩ := free_fn hlive
  have hnd := c1.nodup
  have hnotin : Ref.node i ∉ A ++ p :: n' :: B := by
    simp only [List.nodup_append, List.nodup_cons, List.mem_cons, List.mem_append, not_or] at hnd ⊢
    refine ⟨fun h => hnd.2.2 _ h _ (by simp) rfl, fun h => hnd.2.1.1.1 h.symm, hnd.2.1.2.1.1, hnd.2.1.2.1.2⟩
  refine ⟨m4, m5, h4, h5, ⟨?_, ?_⟩, by rw [len5, l4.len, hlen]⟩
  · rw [hpath']
    apply chain_congr _ _ c4
    · intro x hx; exact n5 x (fun h => hnotin (h ▸ hx))
    · intro x hx; exact p5 x (fun h => hnotin (h ▸ hx))
  · intro r x hx
    have hr : r ≠ .node i := by
      intro h; subst h
      apply hnotin
      rw [← hpath']
      simp only [path, List.mem_cons, List.mem_append]
      right; left
      simp only [ids, List.mem_map]
      exact ⟨_, hx, rfl⟩
    rw [v5 r hr, l4.vals, hv1 r hr]
    apply inv.vals
    simp only [List.mem_append, List.mem_cons] at hx ⊢
    rcases hx with hx | hx
    · exact Or.inl hx
    · exact Or.inr (Or.inr hx)

/-- the handles fit into the heap: there are at most `cells.length` of them -/
theorem MInv.length_le {m : DMem Val} {l : Spec} (inv : MInv m l) : l.length ≤ m.cells.length := by
  have h1 : (ids l).length ≤ ((List.range m.cells.length).map Ref.node).length := by
    apply List.Nodup.length_le_of_subset inv.ids_nodup
    intro r hr
    obtain ⟨i, rfl⟩ := inv.is_node hr
    simp only [List.mem_map, List.mem_range]
    exact ⟨i, live_node_lt (inv.live hr), rfl⟩
  simpa [ids] using h1

/-- reading back the cells of the chain gives the reference sequence -/
theorem MInv.readCells {m : DMem Val} {l : Spec} (inv : MInv m l) :
    (ids l).mapM m.readCell = .ok l := by
  rw [mapM_ok m.readCell (fun r => (r, (valOf m r).getD 0))]
  · congr 1
    simp only [ids, List.map_map]
    have : ∀ a ∈ l, ((fun r => (r, (valOf m r).getD 0)) ∘ fun x => x.fst) a = a := by
      intro a ha
      have := inv.vals a.1 a.2 ha
      simp [this]
    rw [List.map_congr_left this]; simp
  · intro r hr
    obtain ⟨c, hc, _, _, hv⟩ := get_of_live (inv.live hr)
    simp [DMem.readCell, hc, ← hv, bind, Except.bind, pure, Except.pure]

/-- **Traversal.** Walking `next` from the head yields exactly the reference
sequence (handles and data), walking `prev` from the tail its reverse. -/
theorem MInv.walks {m : DMem Val} {l : Spec} (inv : MInv m l) :
    (∃ first, m.head.next = some first ∧ m.walkFwd (m.cells.length + 1) first = .ok (ids l)) ∧
    (∃ last, m.tail.prev = some last ∧
      m.walkBwd (m.cells.length + 1) last = .ok (ids l).reverse) := by
  have c := inv.chain
  have hlen := inv.length_le
  constructor
  · cases hN : ids l ++ [Ref.tail] with
    | nil => simp at hN
    | cons n B =>
      have c' : Chain (nxt m) (prv m) ([] ++ Ref.head :: n :: B) := by
        simpa [path, hN] using c
      obtain ⟨h, _, _⟩ := chain_adj c'
      have hl : Links (nxt m) (prv m) (ids l ++ [Ref.tail]) := by
        have := c.links
        simp only [path] at this
        cases h' : ids l ++ [Ref.tail] with
        | nil => trivial
        | cons x xs => rw [h'] at this; exact this.2.2
      have hnd : (ids l ++ [Ref.tail]).Nodup := (List.nodup_cons.mp c.nodup).2
      exact ⟨n, by rw [head_next, h], walkFwd_spec m (prv m) (ids l) n (m.cells.length + 1)
        (by rw [hN]; rfl) hl hnd (by simp [ids]; omega)⟩
  · obtain ⟨A, p, n', B, hP, hN, hpath⟩ := split_path l []
    have hn' : n' = Ref.tail ∧ B = [] := by simpa [ids] using hN.symm
    obtain ⟨rfl, rfl⟩ := hn'
    simp only [List.append_nil] at hpath
    rw [hpath] at c
    obtain ⟨_, htp, _⟩ := chain_adj c
    have c2 : Chain (nxt m) (prv m) ((Ref.head :: ids l) ++ [Ref.tail]) := by
      rw [hP]; simpa using c
    have hl : Links (nxt m) (prv m) (Ref.head :: ids l) := by
      have := c.links
      rw [links_append] at this
      rw [hP]; exact this.1
    have hnd : (Ref.head :: ids l).Nodup := (List.nodup_append.mp c2.nodup).1
    exact ⟨p, by rw [tail_prev, htp], walkBwd_spec m (nxt m) (ids l) p (m.cells.length + 1)
      (by rw [hP]; simp) hl hnd (by simp [ids]; omega)⟩

end MgProof.C11.LL
