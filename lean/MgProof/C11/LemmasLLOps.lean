import MgProof.C11.LemmasLL
/-! Per-call refinement lemmas for the linked list (`linked_list.c`). -/
namespace MgProof.C11.LL
open MgModel.C11 MgModel.C11.LL MgProof.C11 MgProof.C11.Link

/-- **Representation invariant of the linked list** -/
structure Inv (s : LL) (l : Spec) : Prop where
  mem   : MInv s.mem l
  size  : s.size = l.length
  small : l.length < 2 ^ 64

theorem freeData_spec {s : LL} {n : Ref} {v0 : Val} (hval : valOf s.mem n = some v0) (fr : Bool) :
    ∃ s1, freeData s n fr = .ok (s1, if fr ∧ v0 ≠ 0 then [v0] else []) ∧
      s1.pool = s.pool ∧ s1.size = s.size ∧ s1.mem.cells.length = s.mem.cells.length ∧
      (∀ q, nxt s1.mem q = nxt s.mem q) ∧ (∀ q, prv s1.mem q = prv s.mem q) ∧
      (∀ q, q ≠ n → valOf s1.mem q = valOf s.mem q) ∧ (∀ q, Live s1.mem q ↔ Live s.mem q) := by
  obtain ⟨c, hc, _, _, hcv⟩ := get_of_live (live_of_valOf hval)
  have hv : c.val = v0 := by rw [hval] at hcv; injection hcv
  by_cases h0 : v0 = 0
  · refine ⟨s, ?_, rfl, rfl, rfl, fun _ => rfl, fun _ => rfl, fun _ _ => rfl, fun _ => Iff.rfl⟩
    simp [freeData, hc, hv, h0, bind, Except.bind, pure, Except.pure]
  · obtain ⟨m1, h1, l1, n1, p1, v1, lv1⟩ := setVal_fn (live_of_valOf hval) (0 : Val)
    refine ⟨{ s with mem := m1 }, ?_, rfl, rfl, l1, n1, p1, fun q hq => by rw [v1]; simp [hq], lv1⟩
    cases fr <;> simp [freeData, hc, hv, h0, h1, bind, Except.bind, pure, Except.pure]

theorem insert_refines {s : LL} {l : Spec} (inv : Inv s l) (node : Option Ref)
    (hnode : ∀ n, node = some n → n ∈ ids l) (v : Val) (hsmall : l.length + 1 < 2 ^ 64) :
    ∃ s', LL.insert s node v = .ok (s', .node s.mem.cells.length) ∧
      Ref.node s.mem.cells.length ∉ ids l ∧
      Inv s' (specInsert l node (.node s.mem.cells.length) v) := by
  obtain ⟨m2, a1, h2, c2, lv2, len2, v2, n2, p2⟩ := inv.mem.alloc_setVal v
  have hfresh := inv.mem.fresh
  have hnotin : Ref.node s.mem.cells.length ∉ ids l := by
    intro h; apply hfresh; simp [path, h]
  cases node with
  | none =>
    cases hN : ids l ++ [Ref.tail] with
    | nil => simp at hN
    | cons n B =>
      have hpath : path l = [] ++ Ref.head :: n :: B := by simp [path, hN]
      rw [hpath] at c2 hfresh
      obtain ⟨hhn, _, _⟩ := chain_adj c2
      obtain ⟨m6, h6, c6, l6⟩ := linkBefore_spec c2 hfresh lv2
      have hminv := MInv.linked (L1 := []) (L2 := l) (A := []) (p := Ref.head) (v := v)
        (by simpa using inv.mem) (by simpa [hpath] using hfresh) (by simp [ids]) hN v2 c6 l6
      refine ⟨{ mem := m6, pool := s.pool.map Pool.alloc, size := s.size + 1 }, ?_, hnotin, ?_⟩
      · simp [LL.insert, allocateNode, a1, h2, head_next, hhn, deref, h6, bind, Except.bind, pure,
          Except.pure]
      · exact ⟨by simpa [specInsert] using hminv, by simp [specInsert, inv.size], by
          simpa [specInsert] using hsmall⟩
  | some n =>
    obtain ⟨L1, v0, L2, rfl, hn1, hn2⟩ := decompose (hnode n rfl) inv.mem.ids_nodup
    obtain ⟨A, p, n', B, hP, hN, hpath⟩ := split_path L1 ((n, v0) :: L2)
    have hn' : n' = n := by simp [ids] at hN; exact hN.1.symm
    subst hn'
    rw [hpath] at c2
    obtain ⟨m6, h6, c6, l6⟩ := linkBefore_spec c2 (by rw [← hpath]; exact hfresh) lv2
    have hminv := MInv.linked (v := v) inv.mem hfresh hP hN v2 c6 l6
    refine ⟨{ mem := m6, pool := s.pool.map Pool.alloc, size := s.size + 1 }, ?_, hnotin, ?_⟩
    · simp [LL.insert, allocateNode, a1, h2, h6, bind, Except.bind, pure, Except.pure]
    · simp only [specInsert, insBefore_split L1 L2 hn1]
      exact ⟨hminv, by simp [inv.size]; omega, by simp at hsmall ⊢; omega⟩

theorem append_refines {s : LL} {l : Spec} (inv : Inv s l) (node : Option Ref)
    (hnode : ∀ n, node = some n → n ∈ ids l) (v : Val) (hsmall : l.length + 1 < 2 ^ 64) :
    ∃ s', LL.append s node v = .ok (s', .node s.mem.cells.length) ∧
      Ref.node s.mem.cells.length ∉ ids l ∧
      Inv s' (specAppend l node (.node s.mem.cells.length) v) := by
  obtain ⟨m2, a1, h2, c2, lv2, len2, v2, n2, p2⟩ := inv.mem.alloc_setVal v
  have hfresh := inv.mem.fresh
  have hnotin : Ref.node s.mem.cells.length ∉ ids l := by
    intro h; apply hfresh; simp [path, h]
  cases node with
  | none =>
    obtain ⟨A, p, n', B, hP, hN, hpath⟩ := split_path l []
    have hn' : n' = Ref.tail ∧ B = [] := by simpa [ids] using hN.symm
    obtain ⟨rfl, rfl⟩ := hn'
    simp only [List.append_nil] at hpath
    rw [hpath] at c2
    obtain ⟨_, htp, _⟩ := chain_adj c2
    obtain ⟨m6, h6, c6, l6⟩ := linkAfter_spec c2 (by rw [← hpath]; exact hfresh) lv2
    have hminv := MInv.linked (L1 := l) (L2 := []) (v := v) (by simpa using inv.mem)
      (by simpa using hfresh) hP hN v2 c6 l6
    refine ⟨{ mem := m6, pool := s.pool.map Pool.alloc, size := s.size + 1 }, ?_, hnotin, ?_⟩
    · simp [LL.append, allocateNode, a1, h2, tail_prev, htp, deref, h6, bind, Except.bind, pure,
        Except.pure]
    · exact ⟨by simpa [specAppend] using hminv, by simp [specAppend, inv.size], by
        simpa [specAppend] using hsmall⟩
  | some n =>
    obtain ⟨L1, v0, L2, rfl, hn1, hn2⟩ := decompose (hnode n rfl) inv.mem.ids_nodup
    obtain ⟨A, p, n', B, hP, hN, hpath⟩ := split_path (L1 ++ [(n, v0)]) L2
    have hp : p = n := by
      have : (Ref.head :: ids L1) ++ [n] = A ++ [p] := by simpa [ids] using hP
      have := List.append_inj_right' this rfl
      injection this with h; exact h.symm
    subst hp
    have hl : L1 ++ [(p, v0)] ++ L2 = L1 ++ (p, v0) :: L2 := by simp
    rw [hl] at hpath
    rw [hpath] at c2
    obtain ⟨m6, h6, c6, l6⟩ := linkAfter_spec c2 (by rw [← hpath]; exact hfresh) lv2
    have hminv := MInv.linked (L1 := L1 ++ [(p, v0)]) (L2 := L2) (v := v)
      (by rw [hl]; exact inv.mem) (by rw [hl]; exact hfresh) hP hN v2 c6 l6
    refine ⟨{ mem := m6, pool := s.pool.map Pool.alloc, size := s.size + 1 }, ?_, hnotin, ?_⟩
    · simp [LL.append, allocateNode, a1, h2, h6, bind, Except.bind, pure, Except.pure]
    · simp only [specAppend, insAfter_split L1 L2 hn1]
      refine ⟨by simpa using hminv, by simp [inv.size]; omega, by simp at hsmall ⊢; omega⟩

theorem next_refines {s : LL} {l : Spec} (inv : Inv s l) {n : Ref} (hn : n ∈ ids l) :
    LL.next s n = .ok (specNext l n) := by
  obtain ⟨L1, v0, L2, rfl, hn1, hn2⟩ := decompose hn inv.mem.ids_nodup
  obtain ⟨A, p, n', B, hP, hN, hpath, _⟩ := split_at L1 L2 n v0
  have c := inv.mem.chain
  rw [hpath] at c
  have c' : Chain (nxt s.mem) (prv s.mem) ((A ++ [p]) ++ n :: n' :: B) := by simpa using c
  obtain ⟨hnn, _, _⟩ := chain_adj c'
  obtain ⟨cn, hcn, hcnn, _, _⟩ := get_of_live (live_of_nxt hnn)
  simp only [LL.next, hcn, bind, Except.bind, pure, Except.pure, specNext, succOf_split L1 L2 hn1,
    hcnn, hnn]
  cases L2 with
  | nil =>
    have : n' = Ref.tail := (by simpa [ids] using hN.symm : n' = Ref.tail ∧ B = []).1
    simp [this]
  | cons b L2' =>
    have hb : n' = b.1 := by simp [ids] at hN; exact hN.1.symm
    obtain ⟨i, hi⟩ := inv.mem.is_node (n := b.1) (by simp [ids])
    simp [hb, hi]

theorem remove_refines {s : LL} {l : Spec} (inv : Inv s l) {n : Ref} (hn : n ∈ ids l) (fr : Bool) :
    ∃ s', LL.remove s n fr = .ok (s', (specRemove l n fr).2.1, (specRemove l n fr).2.2) ∧
      Inv s' (specRemove l n fr).1 := by
  have hnext := next_refines inv hn
  obtain ⟨L1, v0, L2, rfl, hn1, hn2⟩ := decompose hn inv.mem.ids_nodup
  obtain ⟨i, rfl⟩ := inv.mem.is_node hn
  have hval : valOf s.mem (.node i) = some v0 := inv.mem.vals _ _ (by simp)
  obtain ⟨s1, hfd, hpool, hsz, hlen, hn1', hp1', hv1', hl1'⟩ := freeData_spec hval fr
  obtain ⟨m4, m5, h4, h5, minv5, _⟩ := inv.mem.remove_node hn1' hp1' hv1' hl1' hlen
  refine ⟨{ mem := m5, pool := s1.pool.map Pool.free, size := (s1.size + 2 ^ 64 - 1) % 2 ^ 64 }, ?_, ?_⟩
  · simp only [LL.remove, hnext, hfd, freeNode, h4, h5, bind, Except.bind, pure, Except.pure,
      specRemove, specNext, dataOf_split L1 L2 hn1]
  · simp only [specRemove, filter_split L1 L2 hn1 hn2]
    have := inv.small
    have hs := inv.size
    simp only [List.length_append, List.length_cons] at this hs
    refine ⟨minv5, ?_, by simp; omega⟩
    simp only [hsz, hs, List.length_append]
    omega

theorem prev_refines {s : LL} {l : Spec} (inv : Inv s l) {n : Ref} (hn : n ∈ ids l) :
    LL.prev s n = .ok (specPrev l n) := by
  obtain ⟨L1, v0, L2, rfl, hn1, hn2⟩ := decompose hn inv.mem.ids_nodup
  obtain ⟨A, p, n', B, hP, hN, hpath, _⟩ := split_at L1 L2 n v0
  have c := inv.mem.chain
  rw [hpath] at c
  obtain ⟨_, hnp, _⟩ := chain_adj c
  obtain ⟨cn, hcn, _, hcnp, _⟩ := get_of_live (live_of_prv hnp)
  simp only [LL.prev, hcn, bind, Except.bind, pure, Except.pure, specPrev,
    predOf_split L1 L2 hn1 hn2, hcnp, hnp]
  rcases List.eq_nil_or_concat L1 with h | ⟨L1', b, h⟩
  · subst h
    have : p = Ref.head := by
      have : [Ref.head] = A ++ [p] := by simpa [ids] using hP
      have := List.append_inj_right' (s₁ := []) this rfl
      injection this with h; exact h.symm
    simp [this]
  · rw [List.concat_eq_append] at h
    subst h
    have hp : p = b.1 := by
      have : (Ref.head :: ids L1') ++ [b.1] = A ++ [p] := by simpa [ids] using hP
      have := List.append_inj_right' this rfl
      injection this with h; exact h.symm
    obtain ⟨j, hj⟩ := inv.mem.is_node (n := b.1) (by simp [ids])
    simp [hp, hj]

theorem first_refines {s : LL} {l : Spec} (inv : Inv s l) :
    LL.first s = l.head?.map (·.1) := by
  have c := inv.mem.chain
  cases l with
  | nil =>
    have c' : Chain (nxt s.mem) (prv s.mem) ([] ++ Ref.head :: Ref.tail :: []) := by
      simpa [path, ids] using c
    obtain ⟨h, _, _⟩ := chain_adj c'
    simp [LL.first, head_next, h]
  | cons a l' =>
    have c' : Chain (nxt s.mem) (prv s.mem) ([] ++ Ref.head :: a.1 :: (ids l' ++ [Ref.tail])) := by
      simpa [path, ids] using c
    obtain ⟨h, _, _⟩ := chain_adj c'
    obtain ⟨j, hj⟩ := inv.mem.is_node (n := a.1) (by simp [ids])
    simp [LL.first, head_next, h, hj]

theorem last_refines {s : LL} {l : Spec} (inv : Inv s l) :
    LL.last s = l.getLast?.map (·.1) := by
  have c := inv.mem.chain
  obtain ⟨A, p, n', B, hP, hN, hpath⟩ := split_path l []
  have hn' : n' = Ref.tail ∧ B = [] := by simpa [ids] using hN.symm
  obtain ⟨rfl, rfl⟩ := hn'
  simp only [List.append_nil] at hpath
  rw [hpath] at c
  obtain ⟨_, htp, _⟩ := chain_adj c
  rcases List.eq_nil_or_concat l with h | ⟨l', b, h⟩
  · subst h
    have : p = Ref.head := by
      have : [Ref.head] = A ++ [p] := by simpa [ids] using hP
      have := List.append_inj_right' (s₁ := []) this rfl
      injection this with h; exact h.symm
    simp [LL.last, tail_prev, htp, this]
  · rw [List.concat_eq_append] at h
    subst h
    have hp : p = b.1 := by
      have : (Ref.head :: ids l') ++ [b.1] = A ++ [p] := by simpa [ids] using hP
      have := List.append_inj_right' this rfl
      injection this with h; exact h.symm
    obtain ⟨j, hj⟩ := inv.mem.is_node (n := b.1) (by simp [ids])
    simp [LL.last, tail_prev, htp, hp, hj]

theorem toList_refines {s : LL} {l : Spec} (inv : Inv s l) :
    LL.toList s = .ok l ∧ LL.toListRev s = .ok (ids l).reverse := by
  obtain ⟨⟨f, hf, hwf⟩, ⟨b, hb, hwb⟩⟩ := inv.mem.walks
  constructor
  · simp [LL.toList, hf, deref, hwf, inv.mem.readCells, bind, Except.bind]
  · simp [LL.toListRev, hb, deref, hwb, bind, Except.bind]

end MgProof.C11.LL
