import MgProof.C11.LemmasLL
/-! Per-call refinement lemmas for the linked list (`linked_list.c`). -/
namespace MgProof.C11.LL
open MgModel.C11 MgModel.C11.LL MgProof.C11 MgProof.C11.Link

/-- **Representation invariant of the linked list** -/
structure Inv (s : LL) (l : Spec) : Prop where
  mem   : MInv s.mem l
  size  : s.size = l.length
  small : l.length < 2 ^ 64

theorem freeData_spec {s : LL} {n : Ref} {v0 : Val} (hval : valOf s.mem n = some v0) (fr : Bool) :
    ∃ s1, freeData s n fr = .ok (s1, if fr ∧ v0 ≠ 0 then [v0] else []) ∧
      s1.pool = s.pool ∧ s1.size = s.size ∧ s1.mem.cells.length = s.mem.cells.length ∧
      (∀ q, nxt s1.mem q = nxt s.mem q) ∧ (∀ q, prv s1.mem q = prv s.mem q) ∧
      (∀ q, q ≠ n → valOf s1.mem q = valOf s.mem q) ∧ (∀ q, Live s1.mem q ↔ Live s.mem q) := by
  obtain ⟨c, hc, _, _, hcv⟩ := get_of_live (live_of_valOf hval)
  have hv : c.val = v0 := by rw [hval] at hcv; injection hcv
  by_cases h0 : v0 = 0
  · refine ⟨s, ?_, rfl, rfl, rfl, fun _ => rfl, fun _ => rfl, fun _ _ => rfl, fun _ => Iff.rfl⟩
    simp [freeData, hc, hv, h0, bind, Except.bind, pure, Except.pure]
  · obtain ⟨m1, h1, l1, n1, p1, v1, lv1⟩ := setVal_fn (live_of_valOf hval) (0 : Val)
    refine ⟨{ s with mem := m1 }, ?_, rfl, rfl, l1, n1, p1, fun q hq => by rw [v1]; simp [hq], lv1⟩
    cases fr <;> simp [freeData, hc, hv, h0, h1, bind, Except.bind, pure, Except.pure]

theorem insert_refines {s : LL} {l : Spec} (inv : Inv s l) (node : Option Ref)
    (hnode : ∀ n, node = some n → n ∈ ids l) (v : Val) (hsmall : l.length + 1 < 2 ^ 64) :
    ∃ s', LL.insert s node v = .ok (s', .node s.mem.cells.length) ∧
      Ref.node s.mem.cells.length ∉ ids l ∧
      Inv s' (specInsert l node (.node s.mem.cells.length) v) ∧
      s'.mem.cells.length = s.mem.cells.length + 1 := by
  obtain ⟨m2, a1, h2, c2, lv2, len2, v2, n2, p2⟩ := inv.mem.alloc_setVal v
  have hfresh := inv.mem.fresh
  have hnotin : Ref.node s.mem.cells.length ∉ ids l := by
    intro h; apply hfresh; simp [path, h]
  cases node with
  | none =>
    cases hN : ids l ++ [Ref.tail] with
    | nil => simp at hN
    | cons n B =>
      have hpath : path l = [] ++ Ref.head :: n :: B := by simp [path, hN]
      rw [hpath] at c2 hfresh
      obtain ⟨hhn, _, _⟩ := chain_adj c2
      obtain ⟨m6, h6, c6, l6⟩ := linkBefore_spec c2 hfresh lv2
      have hminv := MInv.linked (L1 := []) (L2 := l) (A := []) (p := Ref.head) (v := v)
        (by simpa using inv.mem) (by simpa [hpath] using hfresh) (by simp [ids]) hN v2 c6 l6
      refine ⟨{ mem := m6, pool := s.pool.map Pool.alloc, size := s.size + 1 }, ?_, hnotin, ?_,
        by simp only [l6.len, len2]⟩
      · simp [LL.insert, allocateNode, a1, h2, head_next, hhn, deref, h6, bind, Except.bind, pure,
          Except.pure]
      · exact ⟨by simpa [specInsert] using hminv, by simp [specInsert, inv.size], by
          simpa [specInsert] using hsmall⟩
  | some n =>
    obtain ⟨L1, v0, L2, rfl, hn1, hn2⟩ := decompose (hnode n rfl) inv.mem.ids_nodup
    obtain ⟨A, p, n', B, hP, hN, hpath⟩ := split_path L1 ((n, v0) :: L2)
    have hn' : n' = n := by simp [ids] at hN; exact hN.1.symm
    subst hn'
    rw [hpath] at c2
    obtain ⟨m6, h6, c6, l6⟩ := linkBefore_spec c2 (by rw [← hpath]; exact hfresh) lv2
    have hminv := MInv.linked (v := v) inv.mem hfresh hP hN v2 c6 l6
    refine ⟨{ mem := m6, pool := s.pool.map Pool.alloc, size := s.size + 1 }, ?_, hnotin, ?_,
        by simp only [l6.len, len2]⟩
    · simp [LL.insert, allocateNode, a1, h2, h6, bind, Except.bind, pure, Except.pure]
    · simp only [specInsert, insBefore_split L1 L2 hn1]
      exact ⟨hminv, by simp [inv.size]; omega, by simp at hsmall ⊢; omega⟩

theorem append_refines {s : LL} {l : Spec} (inv : Inv s l) (node : Option Ref)
    (hnode : ∀ n, node = some n → n ∈ ids l) (v : Val) (hsmall : l.length + 1 < 2 ^ 64) :
    ∃ s', LL.append s node v = .ok (s', .node s.mem.cells.length) ∧
      Ref.node s.mem.cells.length ∉ ids l ∧
      Inv s' (specAppend l node (.node s.mem.cells.length) v) ∧
      s'.mem.cells.length = s.mem.cells.length + 1 := by
  obtain ⟨m2, a1, h2, c2, lv2, len2, v2, n2, p2⟩ := inv.mem.alloc_setVal v
  have hfresh := inv.mem.fresh
  have hnotin : Ref.node s.mem.cells.length ∉ ids l := by
    intro h; apply hfresh; simp [path, h]
  cases node with
  | none =>
    obtain ⟨A, p, n', B, hP, hN, hpath⟩ := split_path l []
    have hn' : n' = Ref.tail ∧ B = [] := by simpa [ids] using hN.symm
    obtain ⟨rfl, rfl⟩ := hn'
    simp only [List.append_nil] at hpath
    rw [hpath] at c2
    obtain ⟨_, htp, _⟩ := chain_adj c2
    obtain ⟨m6, h6, c6, l6⟩ := linkAfter_spec c2 (by rw [← hpath]; exact hfresh) lv2
    have hminv := MInv.linked (L1 := l) (L2 := []) (v := v) (by simpa using inv.mem)
      (by simpa using hfresh) hP hN v2 c6 l6
    refine ⟨{ mem := m6, pool := s.pool.map Pool.alloc, size := s.size + 1 }, ?_, hnotin, ?_,
        by simp only [l6.len, len2]⟩
    · simp [LL.append, allocateNode, a1, h2, tail_prev, htp, deref, h6, bind, Except.bind, pure,
        Except.pure]
    · exact ⟨by simpa [specAppend] using hminv, by simp [specAppend, inv.size], by
        simpa [specAppend] using hsmall⟩
  | some n =>
    obtain ⟨L1, v0, L2, rfl, hn1, hn2⟩ := decompose (hnode n rfl) inv.mem.ids_nodup
    obtain ⟨A, p, n', B, hP, hN, hpath⟩ := split_path (L1 ++ [(n, v0)]) L2
    have hp : p = n := by
      have : (Ref.head :: ids L1) ++ [n] = A ++ [p] := by simpa [ids] using hP
      have := List.append_inj_right' this rfl
      injection this with h; exact h.symm
    subst hp
    have hl : L1 ++ [(p, v0)] ++ L2 = L1 ++ (p, v0) :: L2 := by simp
    rw [hl] at hpath
    rw [hpath] at c2
    obtain ⟨m6, h6, c6, l6⟩ := linkAfter_spec c2 (by rw [← hpath]; exact hfresh) lv2
    have hminv := MInv.linked (L1 := L1 ++ [(p, v0)]) (L2 := L2) (v := v)
      (by rw [hl]; exact inv.mem) (by rw [hl]; exact hfresh) hP hN v2 c6 l6
    refine ⟨{ mem := m6, pool := s.pool.map Pool.alloc, size := s.size + 1 }, ?_, hnotin, ?_,
        by simp only [l6.len, len2]⟩
    · simp [LL.append, allocateNode, a1, h2, h6, bind, Except.bind, pure, Except.pure]
    · simp only [specAppend, insAfter_split L1 L2 hn1]
      refine ⟨by simpa using hminv, by simp [inv.size]; omega, by simp at hsmall ⊢; omega⟩

theorem next_refines {s : LL} {l : Spec} (inv : Inv s l) {n : Ref} (hn : n ∈ ids l) :
    LL.next s n = .ok (specNext l n) := by
  obtain ⟨L1, v0, L2, rfl, hn1, hn2⟩ := decompose hn inv.mem.ids_nodup
  obtain ⟨A, p, n', B, hP, hN, hpath, _⟩ := split_at L1 L2 n v0
  have c := inv.mem.chain
  rw [hpath] at c
  have c' : Chain (nxt s.mem) (prv s.mem) ((A ++ [p]) ++ n :: n' :: B) := by simpa using c
  obtain ⟨hnn, _, _⟩ := chain_adj c'
  obtain ⟨cn, hcn, hcnn, _, _⟩ := get_of_live (live_of_nxt hnn)
  simp only [LL.next, hcn, bind, Except.bind, pure, Except.pure, specNext, succOf_split L1 L2 hn1,
    hcnn, hnn]
  cases L2 with
  | nil =>
    have : n' = Ref.tail := (by simpa [ids] using hN.symm : n' = Ref.tail ∧ B = []).1
    simp [this]
  | cons b L2' =>
    have hb : n' = b.1 := by simp [ids] at hN; exact hN.1.symm
    obtain ⟨i, hi⟩ := inv.mem.is_node (n := b.1) (by simp [ids])
    simp [hb, hi]

theorem remove_refines {s : LL} {l : Spec} (inv : Inv s l) {n : Ref} (hn : n ∈ ids l) (fr : Bool) :
    ∃ s', LL.remove s n fr = .ok (s', (specRemove l n fr).2.1, (specRemove l n fr).2.2) ∧
      Inv s' (specRemove l n fr).1 ∧ s'.mem.cells.length = s.mem.cells.length := by
  have hnext := next_refines inv hn
  obtain ⟨L1, v0, L2, rfl, hn1, hn2⟩ := decompose hn inv.mem.ids_nodup
  obtain ⟨i, rfl⟩ := inv.mem.is_node hn
  have hval : valOf s.mem (.node i) = some v0 := inv.mem.vals _ _ (by simp)
  obtain ⟨s1, hfd, hpool, hsz, hlen, hn1', hp1', hv1', hl1'⟩ := freeData_spec hval fr
  obtain ⟨m4, m5, h4, h5, minv5, hlen5⟩ := inv.mem.remove_node hn1' hp1' hv1' hl1' hlen
  refine ⟨{ mem := m5, pool := s1.pool.map Pool.free, size := (s1.size + 2 ^ 64 - 1) % 2 ^ 64 }, ?_, ?_,
    hlen5⟩
  · simp only [LL.remove, hnext, hfd, freeNode, h4, h5, bind, Except.bind, pure, Except.pure,
      specRemove, specNext, dataOf_split L1 L2 hn1]
  · simp only [specRemove, filter_split L1 L2 hn1 hn2]
    have := inv.small
    have hs := inv.size
    simp only [List.length_append, List.length_cons] at this hs
    refine ⟨minv5, ?_, by simp; omega⟩
    simp only [hsz, hs, List.length_append]
    omega

theorem prev_refines {s : LL} {l : Spec} (inv : Inv s l) {n : Ref} (hn : n ∈ ids l) :
    LL.prev s n = .ok (specPrev l n) := by
  obtain ⟨L1, v0, L2, rfl, hn1, hn2⟩ := decompose hn inv.mem.ids_nodup
  obtain ⟨A, p, n', B, hP, hN, hpath, _⟩ := split_at L1 L2 n v0
  have c := inv.mem.chain
  rw [hpath] at c
  obtain ⟨_, hnp, _⟩ := chain_adj c
  obtain ⟨cn, hcn, _, hcnp, _⟩ := get_of_live (live_of_prv hnp)
  simp only [LL.prev, hcn, bind, Except.bind, pure, Except.pure, specPrev,
    predOf_split L1 L2 hn1 hn2, hcnp, hnp]
  rcases List.eq_nil_or_concat L1 with h | ⟨L1', b, h⟩
  · subst h
    have : p = Ref.head := by
      have : [Ref.head] = A ++ [p] := by simpa [ids] using hP
      have := List.append_inj_right' (s₁ := []) this rfl
      injection this with h; exact h.symm
    simp [this]
  · rw [List.concat_eq_append] at h
    subst h
    have hp : p = b.1 := by
      have : (Ref.head :: ids L1') ++ [b.1] = A ++ [p] := by simpa [ids] using hP
      have := List.append_inj_right' this rfl
      injection this with h; exact h.symm
    obtain ⟨j, hj⟩ := inv.mem.is_node (n := b.1) (by simp [ids])
    simp [hp, hj]

theorem first_refines {s : LL} {l : Spec} (inv : Inv s l) :
    LL.first s = l.head?.map (·.1) := by
  have c := inv.mem.chain
  cases l with
  | nil =>
    have c' : Chain (nxt s.mem) (prv s.mem) ([] ++ Ref.head :: Ref.tail :: []) := by
      simpa [path, ids] using c
    obtain ⟨h, _, _⟩ := chain_adj c'
    simp [LL.first, head_next, h]
  | cons a l' =>
    have c' : Chain (nxt s.mem) (prv s.mem) ([] ++ Ref.head :: a.1 :: (ids l' ++ [Ref.tail])) := by
      simpa [path, ids] using c
    obtain ⟨h, _, _⟩ := chain_adj c'
    obtain ⟨j, hj⟩ := inv.mem.is_node (n := a.1) (by simp [ids])
    simp [LL.first, head_next, h, hj]

theorem last_refines {s : LL} {l : Spec} (inv : Inv s l) :
    LL.last s = l.getLast?.map (·.1) := by
  have c := inv.mem.chain
  obtain ⟨A, p, n', B, hP, hN, hpath⟩ := split_path l []
  have hn' : n' = Ref.tail ∧ B = [] := by simpa [ids] using hN.symm
  obtain ⟨rfl, rfl⟩ := hn'
  simp only [List.append_nil] at hpath
  rw [hpath] at c
  obtain ⟨_, htp, _⟩ := chain_adj c
  rcases List.eq_nil_or_concat l with h | ⟨l', b, h⟩
  · subst h
    have : p = Ref.head := by
      have : [Ref.head] = A ++ [p] := by simpa [ids] using hP
      have := List.append_inj_right' (s₁ := []) this rfl
      injection this with h; exact h.symm
    simp [LL.last, tail_prev, htp, this]
  · rw [List.concat_eq_append] at h
    subst h
    have hp : p = b.1 := by
      have : (Ref.head :: ids l') ++ [b.1] = A ++ [p] := by simpa [ids] using hP
      have := List.append_inj_right' this rfl
      injection this with h; exact h.symm
    obtain ⟨j, hj⟩ := inv.mem.is_node (n := b.1) (by simp [ids])
    simp [LL.last, tail_prev, htp, hp, hj]

theorem toList_refines {s : LL} {l : Spec} (inv : Inv s l) :
    LL.toList s = .ok l ∧ LL.toListRev s = .ok (ids l).reverse := by
  obtain ⟨⟨f, hf, hwf⟩, ⟨b, hb, hwb⟩⟩ := inv.mem.walks
  constructor
  · simp [LL.toList, hf, deref, hwf, inv.mem.readCells, bind, Except.bind]
  · simp [LL.toListRev, hb, deref, hwb, bind, Except.bind]

/-- the loop of `clear`: every element is unlinked and freed, front to back; the
callback sees exactly the non-NULL data, in order -/
theorem clearLoop_spec (fr : Bool) : ∀ (l : Spec) (s : LL) (fuel : Nat) (node : Ref) (freed : List Val),
    MInv s.mem l → (ids l ++ [Ref.tail]).head? = some node → l.length < fuel →
    ∃ s', LL.clearLoop fr fuel s node freed =
        .ok (s', freed ++ (if fr then (l.map (·.2)).filter (· ≠ 0) else [])) ∧
      MInv s'.mem [] ∧ s'.mem.cells.length = s.mem.cells.length := by
  intro l
  induction l with
  | nil =>
    intro s fuel node freed inv hh hf
    have : node = Ref.tail := by simpa [ids] using hh.symm
    subst this
    cases fuel with
    | zero => omega
    | succ f =>
      refine ⟨s, ?_, inv, rfl⟩
      cases fr <;> simp [LL.clearLoop, pure, Except.pure]
  | cons a l ih =>
    intro s fuel node freed inv hh hf
    obtain ⟨n, v0⟩ := a
    have hn : node = n := by simpa [ids] using hh.symm
    subst hn
    obtain ⟨i, rfl⟩ := inv.is_node (n := node) (by simp [ids])
    cases fuel with
    | zero => omega
    | succ f =>
      -- the successor read before the node is freed
      cases hN : ids l ++ [Ref.tail] with
      | nil => simp at hN
      | cons nx B =>
        have c : Chain (nxt s.mem) (prv s.mem) ([Ref.head] ++ Ref.node i :: nx :: B) := by
          have := inv.chain
          simp only [path, ids, List.map_cons, List.cons_append] at this
          rw [show List.map (fun x => x.1) l = ids l from rfl, hN] at this
          simpa using this
        obtain ⟨hnn, _, _⟩ := chain_adj c
        obtain ⟨cn, hcn, hcnn, _, _⟩ := get_of_live (live_of_nxt hnn)
        have hval : valOf s.mem (.node i) = some v0 := inv.vals _ _ (by simp)
        obtain ⟨s1, hfd, hpool, hsz, hlen, hn1', hp1', hv1', hl1'⟩ := freeData_spec hval fr
        obtain ⟨m4, m5, h4, h5, minv5, hlen5⟩ :=
          MInv.remove_node (L1 := []) (L2 := l) (by simpa using inv) hn1' hp1' hv1' hl1' hlen
        have hfn : ∃ s2, freeNode s1 (.node i) = .ok s2 ∧ s2.mem = m5 := by
          refine ⟨{ mem := m5, pool := s1.pool.map Pool.free, size := (s1.size + 2 ^ 64 - 1) % 2 ^ 64 }, ?_, rfl⟩
          simp only [freeNode, h4, h5, bind, Except.bind, pure, Except.pure]
        obtain ⟨s2, hfn, hs2⟩ := hfn
        obtain ⟨s', hs', inv', hlen'⟩ := ih s2 f nx (freed ++ (if fr ∧ v0 ≠ 0 then [v0] else []))
          (by rw [hs2]; simpa using minv5) (by rw [hN]; rfl) (by simp at hf; omega)
        refine ⟨s', ?_, inv', by rw [hlen', hs2, hlen5]⟩
        have hne : Ref.node i ≠ Ref.tail := by intro h; cases h
        have hnx : cn.next = some nx := by rw [hcnn, hnn]
        have step : LL.clearLoop fr (f + 1) s (.node i) freed = LL.clearLoop fr f s2
            nx (freed ++ (if fr ∧ v0 ≠ 0 then [v0] else [])) := by
          simp only [LL.clearLoop, hne, if_false, hcn, hnx, deref, hfd, hfn, bind, Except.bind]
        have hlist : freed ++ (if fr ∧ v0 ≠ 0 then [v0] else []) ++
              (if fr then (l.map (·.2)).filter (· ≠ 0) else []) =
            freed ++ (if fr then (((Ref.node i, v0) :: l).map (·.2)).filter (· ≠ 0) else []) := by
          cases fr with
          | false => simp
          | true =>
            by_cases h0 : v0 = 0 <;> simp [h0]
        rw [step, hs', hlist]

theorem clear_refines {s : LL} {l : Spec} (inv : Inv s l) (fr : Bool) :
    ∃ s', LL.clear s fr = .ok (s', (specClear l fr).2) ∧ Inv s' (specClear l fr).1 ∧
      s'.mem.cells.length = s.mem.cells.length := by
  obtain ⟨⟨first, hf, _⟩, _⟩ := inv.mem.walks
  have hh : (ids l ++ [Ref.tail]).head? = some first := by
    have c := inv.mem.chain
    cases hN : ids l ++ [Ref.tail] with
    | nil => simp at hN
    | cons n B =>
      have c' : Chain (nxt s.mem) (prv s.mem) ([] ++ Ref.head :: n :: B) := by
        simpa [path, hN] using c
      obtain ⟨h, _, _⟩ := chain_adj c'
      rw [head_next, h] at hf
      injection hf with hf
      simp [hf]
  obtain ⟨s', hs', inv', hlen'⟩ := clearLoop_spec fr l s (s.mem.cells.length + 1) first []
    inv.mem hh (by have := inv.mem.length_le; omega)
  refine ⟨{ s' with size := 0 }, ?_, ⟨inv', rfl, by simp [specClear]⟩, hlen'⟩
  simp [LL.clear, hf, deref, hs', specClear, bind, Except.bind, pure, Except.pure]

theorem findLoop_spec (m : DMem Val) (data : Val) : ∀ (L pre : Spec) (fuel : Nat) (node : Ref),
    MInv m (pre ++ L) → (ids L ++ [Ref.tail]).head? = some node → L.length < fuel →
    findLoop m data fuel node = .ok ((L.find? (·.2 = data)).map (·.1)) := by
  intro L
  induction L with
  | nil =>
    intro pre fuel node inv hh hf
    have : node = Ref.tail := by simpa [ids] using hh.symm
    subst this
    cases fuel with
    | zero => omega
    | succ f => simp [findLoop, pure, Except.pure]
  | cons a L ih =>
    intro pre fuel node inv hh hf
    obtain ⟨n, v0⟩ := a
    have hn : node = n := by simpa [ids] using hh.symm
    subst hn
    obtain ⟨i, rfl⟩ := inv.is_node (n := node) (by simp [ids])
    cases fuel with
    | zero => omega
    | succ f =>
      cases hN : ids L ++ [Ref.tail] with
      | nil => simp at hN
      | cons nx B =>
        have c : Chain (nxt m) (prv m) ((Ref.head :: ids pre) ++ Ref.node i :: nx :: B) := by
          have := inv.chain
          simp only [path, ids, List.map_append, List.map_cons, List.append_assoc,
            List.cons_append] at this
          rw [show List.map (fun x => x.1) L = ids L from rfl, hN] at this
          simpa [ids] using this
        obtain ⟨hnn, _, _⟩ := chain_adj c
        obtain ⟨cn, hcn, hcnn, _, hcv⟩ := get_of_live (live_of_nxt hnn)
        have hval : valOf m (.node i) = some v0 := inv.vals _ _ (by simp)
        have hv : cn.val = v0 := by rw [hval] at hcv; injection hcv
        have hne : Ref.node i ≠ Ref.tail := by intro h; cases h
        by_cases hd : v0 = data
        · simp [findLoop, hcn, hv, hd, bind, Except.bind, pure, Except.pure]
        · have hnx : cn.next = some nx := by rw [hcnn, hnn]
          have := ih (pre ++ [(Ref.node i, v0)]) f nx (by simpa using inv) (by rw [hN]; rfl)
            (by simp at hf; omega)
          simp [findLoop, hcn, hv, hd, hnx, deref, this, bind, Except.bind]

theorem dropWhile_split {n : Ref} {v0 : Val} (L1 L2 : Spec) (h : n ∉ ids L1) :
    (L1 ++ (n, v0) :: L2).dropWhile (fun a => a.1 ≠ n) = (n, v0) :: L2 := by
  induction L1 with
  | nil => simp [List.dropWhile]
  | cons a L1 ih =>
    simp only [ids, List.map_cons, List.mem_cons, not_or] at h
    have ha : a.1 ≠ n := fun e => h.1 e.symm
    simp only [List.cons_append, List.dropWhile_cons, ha, ne_eq, not_false_eq_true, decide_true,
      if_true]
    exact ih (by simpa [ids] using h.2)

theorem find_refines {s : LL} {l : Spec} (inv : Inv s l) (node : Option Ref)
    (hnode : ∀ n, node = some n → n ∈ ids l) (v : Val) :
    LL.find s node v = .ok (specFind l node v) := by
  have hlen := inv.mem.length_le
  cases node with
  | none =>
    obtain ⟨⟨first, hf, _⟩, _⟩ := inv.mem.walks
    have hh : (ids l ++ [Ref.tail]).head? = some first := by
      have c := inv.mem.chain
      cases hN : ids l ++ [Ref.tail] with
      | nil => simp at hN
      | cons n B =>
        have c' : Chain (nxt s.mem) (prv s.mem) ([] ++ Ref.head :: n :: B) := by
          simpa [path, hN] using c
        obtain ⟨h, _, _⟩ := chain_adj c'
        rw [head_next, h] at hf
        injection hf with hf
        simp [hf]
    have := findLoop_spec s.mem v l [] (s.mem.cells.length + 1) first (by simpa using inv.mem) hh
      (by omega)
    simp [LL.find, hf, deref, this, specFind, bind, Except.bind]
  | some n =>
    obtain ⟨L1, v0, L2, rfl, hn1, hn2⟩ := decompose (hnode n rfl) inv.mem.ids_nodup
    have := findLoop_spec s.mem v ((n, v0) :: L2) L1 (s.mem.cells.length + 1) n inv.mem
      (by simp [ids]) (by simp at hlen ⊢; omega)
    have hd := dropWhile_split (v0 := v0) L1 L2 hn1
    simp only [LL.find, specFind, hd, this, bind, Except.bind, pure, Except.pure]

/-- a handle argument is acceptable iff it is NULL or names an element -/
theorem handleOk_iff {l : Spec} {n : Option Ref} :
    handleOk l n = true ↔ ∀ r, n = some r → r ∈ ids l := by
  cases n with
  | none => simp [handleOk]
  | some r => simp [handleOk, ids]

/-- insert-before / append-after add at most one element -/
theorem length_insBefore_le (n : Ref) (x : Ref × Val) (l : Spec) :
    (insBefore n x l).length ≤ l.length + 1 := by
  induction l with
  | nil => simp [insBefore]
  | cons a l ih => simp only [insBefore]; split <;> simp <;> omega

theorem length_insAfter_le (n : Ref) (x : Ref × Val) (l : Spec) :
    (insAfter n x l).length ≤ l.length + 1 := by
  induction l with
  | nil => simp [insAfter]
  | cons a l ih => simp only [insAfter]; split <;> simp <;> omega

/-- the state after `muggle_linked_list_init` represents the empty sequence -/
theorem inv_init {c : Nat} {s : LL} (h : init c = some s) : Inv s [] ∧ s.mem.cells.length = 0 := by
  have hm : MInv emptyMem [] := by
    refine ⟨⟨by simp [path, ids], ?_⟩, by simp⟩
    simp [path, ids, Link.Links, nxt, prv, DMem.get, emptyMem]
  unfold init at h
  split at h
  · split at h
    · simp at h
    · injection h with h; subst h; exact ⟨⟨hm, rfl, by simp⟩, rfl⟩
  · injection h with h; subst h; exact ⟨⟨hm, rfl, by simp⟩, rfl⟩

end MgProof.C11.LL
