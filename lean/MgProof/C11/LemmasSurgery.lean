import MgProof.C11.LemmasDMem
/-! Helper lemmas for C11: the pointer surgeries of `linked_list.c`, `queue.c` and
`pointer_slot.c`, statement by statement, on a `DMem` whose cells form a chain. -/
namespace MgProof.C11
open MgModel.C11 MgProof.C11.Link

variable {α : Type}

/-- adjacent cells of a chain point at each other -/
theorem chain_adj {nx pv : Ref → Option Ref} {A B : List Ref} {p n : Ref}
    (c : Chain nx pv (A ++ p :: n :: B)) : nx p = some n ∧ pv n = some p ∧ p ≠ n := by
  have hl := c.links
  rw [links_append] at hl
  obtain ⟨_, h1, h2, _⟩ := hl
  refine ⟨h1, h2, ?_⟩
  have hnd := c.nodup
  simp only [List.nodup_append, List.nodup_cons, List.mem_cons, not_or] at hnd
  exact hnd.2.1.1.1

/-- what the four statements of a link-in leave behind -/
structure Linked (m m' : DMem α) : Prop where
  len  : m'.cells.length = m.cells.length
  vals : ∀ q, valOf m' q = valOf m q
  live : ∀ q, Live m' q ↔ Live m q

/-- **insert-before surgery** (`muggle_linked_list_insert`):
`node->prev->next = new; new->prev = node->prev; new->next = node; node->prev = new` -/
theorem linkBefore_spec {m : DMem α} {A B : List Ref} {p n nw : Ref}
    (c : Chain (nxt m) (prv m) (A ++ p :: n :: B)) (hnw : nw ∉ A ++ p :: n :: B)
    (hlive : Live m nw) :
    ∃ m6, m.linkBefore n nw = .ok m6 ∧
      Chain (nxt m6) (prv m6) (A ++ p :: nw :: n :: B) ∧ Linked m m6 := by
  obtain ⟨hpn, hnp, hne⟩ := chain_adj c
  have hp_ne : p ≠ nw := by intro h; apply hnw; simp [h]
  have hn_ne : n ≠ nw := by intro h; apply hnw; simp [h]
  have hlp : Live m p := live_of_nxt hpn
  have hln : Live m n := live_of_prv hnp
  obtain ⟨cn, hcn, _, hcnp, _⟩ := get_of_live hln
  obtain ⟨m3, h3, l3, n3, p3, v3, lv3⟩ := setNext_fn hlp (some nw)
  obtain ⟨cn', hcn', _, hcnp', _⟩ := get_of_live ((lv3 n).mpr hln)
  obtain ⟨m4, h4, l4, n4, p4, v4, lv4⟩ := setPrev_fn ((lv3 nw).mpr hlive) (some p)
  obtain ⟨m5, h5, l5, n5, p5, v5, lv5⟩ := setNext_fn ((lv4 nw).mpr ((lv3 nw).mpr hlive)) (some n)
  obtain ⟨m6, h6, l6, n6, p6, v6, lv6⟩ :=
    setPrev_fn ((lv5 n).mpr ((lv4 n).mpr ((lv3 n).mpr hln))) (some nw)
  have e1 : cn.prev = some p := by rw [hcnp, hnp]
  have e2 : cn'.prev = some p := by rw [hcnp', p3, hnp]
  refine ⟨m6, by simp [DMem.linkBefore, hcn, e1, deref, h3, hcn', e2, h4, h5, h6, bind, Except.bind],
    ?_, ⟨by omega, fun q => by rw [v6, v5, v4, v3], fun q => by rw [lv6, lv5, lv4, lv3]⟩⟩
  apply chain_insert c hnw
  · rw [n6, n5, n4, n3]; simp [hp_ne]
  · rw [n6, n5]; simp
  · intro x hx1 hx2; rw [n6, n5, n4, n3]; simp [hx1, hx2]
  · rw [p6]; simp
  · rw [p6, p5, p4]; simp [hn_ne.symm]
  · intro x hx1 hx2; rw [p6, p5, p4, p3]; simp [hx1, hx2]

/-- **insert-after surgery** (`muggle_linked_list_append`, `muggle_queue_enqueue`):
`node->next->prev = new; new->next = node->next; new->prev = node; node->next = new` -/
theorem linkAfter_spec {m : DMem α} {A B : List Ref} {p n nw : Ref}
    (c : Chain (nxt m) (prv m) (A ++ p :: n :: B)) (hnw : nw ∉ A ++ p :: n :: B)
    (hlive : Live m nw) :
    ∃ m6, m.linkAfter p nw = .ok m6 ∧
      Chain (nxt m6) (prv m6) (A ++ p :: nw :: n :: B) ∧ Linked m m6 := by
  obtain ⟨hpn, hnp, hne⟩ := chain_adj c
  have hp_ne : p ≠ nw := by intro h; apply hnw; simp [h]
  have hn_ne : n ≠ nw := by intro h; apply hnw; simp [h]
  have hlp : Live m p := live_of_nxt hpn
  have hln : Live m n := live_of_prv hnp
  obtain ⟨cp, hcp, hcpn, _, _⟩ := get_of_live hlp
  obtain ⟨m3, h3, l3, n3, p3, v3, lv3⟩ := setPrev_fn hln (some nw)
  obtain ⟨cp', hcp', hcpn', _, _⟩ := get_of_live ((lv3 p).mpr hlp)
  obtain ⟨m4, h4, l4, n4, p4, v4, lv4⟩ := setNext_fn ((lv3 nw).mpr hlive) (some n)
  obtain ⟨m5, h5, l5, n5, p5, v5, lv5⟩ := setPrev_fn ((lv4 nw).mpr ((lv3 nw).mpr hlive)) (some p)
  obtain ⟨m6, h6, l6, n6, p6, v6, lv6⟩ :=
    setNext_fn ((lv5 p).mpr ((lv4 p).mpr ((lv3 p).mpr hlp))) (some nw)
  have e1 : cp.next = some n := by rw [hcpn, hpn]
  have e2 : cp'.next = some n := by rw [hcpn', n3, hpn]
  refine ⟨m6, by simp [DMem.linkAfter, hcp, e1, deref, h3, hcp', e2, h4, h5, h6, bind, Except.bind],
    ?_, ⟨by omega, fun q => by rw [v6, v5, v4, v3], fun q => by rw [lv6, lv5, lv4, lv3]⟩⟩
  apply chain_insert c hnw
  · rw [n6]; simp
  · rw [n6, n5, n4]; simp [hp_ne.symm]
  · intro x hx1 hx2; rw [n6, n5, n4, n3]; simp [hx1, hx2]
  · rw [p6, p5, p4, p3]; simp [hn_ne]
  · rw [p6, p5]; simp
  · intro x hx1 hx2; rw [p6, p5, p4, p3]; simp [hx1, hx2]

/-- **link-at-tail surgery** (`muggle_pointer_slot_insert`), with `n = tail`:
`k->prev = tail.prev; k->next = &tail; tail.prev->next = k; tail.prev = k` -/
theorem linkTail_spec {m : DMem α} {A : List Ref} {p nw : Ref}
    (c : Chain (nxt m) (prv m) (A ++ p :: [Ref.tail])) (hnw : nw ∉ A ++ p :: [Ref.tail])
    (hlive : Live m nw) :
    ∃ m6, m.linkTail nw = .ok m6 ∧
      Chain (nxt m6) (prv m6) (A ++ p :: nw :: [Ref.tail]) ∧ Linked m m6 := by
  obtain ⟨hpn, hnp, hne⟩ := chain_adj c
  have hp_ne : p ≠ nw := by intro h; apply hnw; simp [h]
  have hn_ne : Ref.tail ≠ nw := by intro h; apply hnw; simp [h]
  have hlp : Live m p := live_of_nxt hpn
  have hln : Live m Ref.tail := ⟨m.tail, rfl⟩
  have htp : ∀ m' : DMem α, m'.tail.prev = prv m' .tail := fun m' => by simp [prv, DMem.get]
  obtain ⟨m3, h3, l3, n3, p3, v3, lv3⟩ := setPrev_fn hlive (some p)
  obtain ⟨m4, h4, l4, n4, p4, v4, lv4⟩ := setNext_fn ((lv3 nw).mpr hlive) (some .tail)
  obtain ⟨m5, h5, l5, n5, p5, v5, lv5⟩ := setNext_fn ((lv4 p).mpr ((lv3 p).mpr hlp)) (some nw)
  obtain ⟨m6, h6, l6, n6, p6, v6, lv6⟩ :=
    setPrev_fn (r := Ref.tail) ⟨m5.tail, rfl⟩ (some nw)
  have e1 : m.tail.prev = some p := by rw [htp, hnp]
  have e2 : m4.tail.prev = some p := by rw [htp, p4, p3]; simp [hn_ne, hnp]
  refine ⟨m6, by simp [DMem.linkTail, e1, h3, h4, e2, deref, h5, h6, bind, Except.bind],
    ?_, ⟨by omega, fun q => by rw [v6, v5, v4, v3], fun q => by rw [lv6, lv5, lv4, lv3]⟩⟩
  apply chain_insert c hnw
  · rw [n6, n5]; simp
  · rw [n6, n5, n4]; simp [hp_ne.symm]
  · intro x hx1 hx2; rw [n6, n5, n4, n3]; simp [hx1, hx2]
  · rw [p6]; simp
  · rw [p6, p5, p4, p3]; simp [hn_ne.symm]
  · intro x hx1 hx2; rw [p6, p5, p4, p3]; simp [hx1, hx2]

/-- **unlink surgery** (`*_free_node`, `muggle_pointer_slot_remove`):
`node->prev->next = node->next; node->next->prev = node->prev` -/
theorem unlink_spec {m : DMem α} {A B : List Ref} {p x n : Ref}
    (c : Chain (nxt m) (prv m) (A ++ p :: x :: n :: B)) :
    ∃ m4, m.unlink x = .ok m4 ∧
      Chain (nxt m4) (prv m4) (A ++ p :: n :: B) ∧ Linked m m4 ∧
      (∀ q, q ≠ p → nxt m4 q = nxt m q) ∧ (∀ q, q ≠ n → prv m4 q = prv m q) := by
  obtain ⟨hpx, hxp, hne1⟩ := chain_adj c
  have c' : Chain (nxt m) (prv m) ((A ++ [p]) ++ x :: n :: B) := by simpa using c
  obtain ⟨hxn, hnx, hne2⟩ := chain_adj c'
  have hlp : Live m p := live_of_nxt hpx
  have hlx : Live m x := live_of_nxt hxn
  have hln : Live m n := live_of_prv hnx
  obtain ⟨cx, hcx, hcxn, hcxp, _⟩ := get_of_live hlx
  obtain ⟨m3, h3, l3, n3, p3, v3, lv3⟩ := setNext_fn hlp (some n)
  obtain ⟨cx', hcx', hcxn', hcxp', _⟩ := get_of_live ((lv3 x).mpr hlx)
  obtain ⟨m4, h4, l4, n4, p4, v4, lv4⟩ := setPrev_fn ((lv3 n).mpr hln) (some p)
  have e1 : cx.prev = some p := by rw [hcxp, hxp]
  have e2 : cx.next = some n := by rw [hcxn, hxn]
  have e3 : cx'.next = some n := by rw [hcxn', n3]; simp [hne1.symm, hxn]
  have e4 : cx'.prev = some p := by rw [hcxp', p3, hxp]
  refine ⟨m4, by simp [DMem.unlink, hcx, e1, e2, deref, h3, hcx', e3, e4, h4, bind, Except.bind], ?_,
    ⟨by omega, fun q => by rw [v4, v3], fun q => by rw [lv4, lv3]⟩, ?_, ?_⟩
  · apply chain_remove c
    · rw [n4, n3]; simp
    · intro q hq1 hq2; rw [n4, n3]; simp [hq1]
    · rw [p4]; simp
    · intro q hq1 hq2; rw [p4, p3]; simp [hq1]
  · intro q hq; rw [n4, n3]; simp [hq]
  · intro q hq; rw [p4, p3]; simp [hq]

end MgProof.C11
