import MgProof.C11.LemmasAL
import MgProof.C11.LemmasStack
import MgProof.C11.LemmasLLOps
import MgProof.C11.LemmasQueue
import MgProof.C11.LemmasPSOps
/-!
# C11 — property theorems (sequence containers and pointer slot)

Statement (properties.jsonl): array list, linked list, queue and stack behave as a
reference sequence for every operation history: positions (including negative
indices), insert-before / append-after, removal, clearing and growth beyond the
initial capacity (with and without the node pool) yield exactly the model's
contents and size, and invalid positions are rejected without effect. The pointer
slot, for every requested capacity, hands out indices unique among live entries,
resolves an index to its pointer until removed, refuses inserts when full and
double removals, and iterates live entries in insertion order.

Quantifiers of the theorems: every initial capacity, every operation list of every
length, every `int` index, every datum (including NULL), with and without the free
callback. The only size hypothesis is the one the C code itself enforces
(`MUGGLE_DS_CAP_IS_VALID`): fewer than `2^30` stored elements, so that doubling
the capacity stays below `2^31`.
-/
namespace MgProof.C11
open MgModel.C11

/-! ## Array list -/
namespace AL
open MgModel.C11.AL

/-- **Array list, one call.** In a state representing the sequence `l`, every API
call succeeds (no out-of-bounds access, no read of unwritten storage), returns
exactly what the reference sequence returns (node offset, success flag, the data
handed to the free callback, the contents) and ends in a state representing the
reference result. -/
theorem step_refines {s : AL} {l : List Val} (inv : Inv s l) (hsmall : l.length < 2 ^ 30)
    (op : Op) :
    ∃ s', step s op = .ok (s', (specStep l op).2) ∧ Inv s' (specStep l op).1 ∧
      (specStep l op).1.length ≤ l.length + 1 := by
  cases op with
  | insert i v =>
    obtain ⟨s', h, inv'⟩ := insert_refines inv hsmall i v
    refine ⟨s', by simp [step, specStep, h, bind, Except.bind, pure, Except.pure], inv', ?_⟩
    simp only [specStep, specInsert]
    cases specPos l i <;> simp [List.length_insertIdx] <;> split <;> omega
  | append i v =>
    obtain ⟨s', h, inv'⟩ := append_refines inv hsmall i v
    refine ⟨s', by simp [step, specStep, h, bind, Except.bind, pure, Except.pure], inv', ?_⟩
    simp only [specStep, specAppend]
    cases specPos l i with
    | none => simp
    | some k =>
      by_cases hl : l = []
      · simp [hl]
      · simp [hl, List.length_insertIdx]; split <;> omega
  | remove i fr =>
    obtain ⟨s', h, inv'⟩ := remove_refines inv i fr
    refine ⟨s', by simp [step, specStep, h, bind, Except.bind, pure, Except.pure], inv', ?_⟩
    simp only [specStep, specRemove]
    cases normIndex l.length i <;> simp [List.length_eraseIdx] <;> split <;> omega
  | get i =>
    exact ⟨s, by simp [step, specStep, index_refines inv, bind, Except.bind, pure, Except.pure], inv,
      by simp [specStep]⟩
  | find i v =>
    exact ⟨s, by simp [step, specStep, find_refines inv, bind, Except.bind, pure, Except.pure], inv,
      by simp [specStep]⟩
  | clear fr =>
    obtain ⟨s', h, inv'⟩ := clear_refines inv fr
    exact ⟨s', by simp [step, specStep, h, bind, Except.bind, pure, Except.pure], inv',
      by simp [specStep, specClear]⟩
  | ensure c =>
    obtain ⟨s', h, inv', _⟩ := ensureCapacity_inv inv c
    exact ⟨s', by simp [step, specStep, h, bind, Except.bind, pure, Except.pure], inv',
      by simp [specStep]⟩
  | dump =>
    exact ⟨s, by simp [step, specStep, contents_refines inv, inv.size, bind, Except.bind, pure,
      Except.pure], inv, by simp [specStep]⟩

/-- **Array list, every history.** From any state representing `l`, every operation
list (any length, any `int` indices, growth included) runs without error and
returns exactly the answers of the reference sequence; the final state represents
the reference result. -/
theorem run_refines (ops : List Op) : ∀ {s : AL} {l : List Val}, Inv s l →
    l.length + ops.length < 2 ^ 30 →
    ∃ s', run s ops = .ok (s', (specRun l ops).2) ∧ Inv s' (specRun l ops).1 := by
  induction ops with
  | nil => intro s l inv _; exact ⟨s, rfl, inv⟩
  | cons op ops ih =>
    intro s l inv hsmall
    simp only [List.length_cons] at hsmall
    obtain ⟨s1, h1, inv1, hlen⟩ := step_refines inv (by omega) op
    obtain ⟨s2, h2, inv2⟩ := ih inv1 (by omega)
    exact ⟨s2, by simp [run, specRun, h1, h2, bind, Except.bind, pure, Except.pure], by
      simpa [specRun] using inv2⟩

/-- **C11, array list.** A list created by `muggle_array_list_init` with any
capacity (`0` = default `8`; growth happens whenever `size = capacity`) behaves as
the empty reference sequence under every history. -/
theorem array_list_behaves_as_sequence {c : Nat} {s : AL} (h : init c = some s) (ops : List Op)
    (hsmall : ops.length < 2 ^ 30) :
    ∃ s', run s ops = .ok (s', (specRun [] ops).2) ∧ Inv s' (specRun [] ops).1 := by
  exact run_refines ops (inv_init h) (by simpa using hsmall)

/-- `init` refuses exactly the capacities `≥ 2^31` -/
theorem init_none_iff (c : Nat) : init c = none ↔ 2 ^ 31 ≤ c := by
  unfold init capValid
  by_cases hc : c = 0
  · simp [hc]
  · by_cases h : c < 2 ^ 31
    · simp [hc, h] <;> omega
    · simp [hc, h] <;> omega

/-- **Index normalisation.** `muggle_array_list_get_index` maps `0 ≤ i < n` to `i`,
`-n ≤ i < 0` to `n + i`, and rejects every other `int`. -/
theorem getIndex_spec (n : Nat) (i : Int) (k : Nat) :
    getIndex n i = some k ↔ (0 ≤ i ∧ i < n ∧ (k : Int) = i) ∨ (i < 0 ∧ -i ≤ n ∧ (k : Int) = n + i) := by
  rw [getIndex_eq]
  unfold normIndex
  by_cases h0 : 0 ≤ i
  · by_cases h1 : i < (n : Int)
    · simp [h0, h1] <;> omega
    · simp [h0, h1] <;> omega
  · by_cases h1 : -i ≤ (n : Int)
    · simp [h0, h1] <;> omega
    · simp [h0, h1] <;> omega

/-- **Invalid positions are rejected without effect.** If `i` addresses no element
(and is not the `0`/`-1` shortcut on an empty list), insert and append return NULL,
remove returns false and calls no callback, index returns NULL — and the state
still represents the same sequence (same contents, same size). -/
theorem invalid_position_rejected {s : AL} {l : List Val} (inv : Inv s l)
    (hsmall : l.length < 2 ^ 30) (i : Int) (v : Val) (fr : Bool) (hbad : specPos l i = none) :
    (∃ s', AL.insert s i v = .ok (s', none) ∧ Inv s' l) ∧
    (∃ s', AL.append s i v = .ok (s', none) ∧ Inv s' l) ∧
    AL.remove s i fr = .ok (s, false, []) ∧
    AL.index s i = .ok none := by
  have hn : normIndex l.length i = none := by
    unfold specPos at hbad
    cases h : normIndex l.length i with
    | none => rfl
    | some k => rw [h] at hbad; simp at hbad
  refine ⟨?_, ?_, ?_, ?_⟩
  · simpa [specInsert, hbad] using insert_refines inv hsmall i v
  · simpa [specAppend, hbad] using append_refines inv hsmall i v
  · unfold AL.remove; rw [getIndex_eq, inv.size, hn]; rfl
  · rw [index_refines inv]; simp [specIndex, hn]

/-- the pinned tree's `get_index` (before fixes/C11-array-list-int-min.patch) hits
signed-overflow UB for `INT_MIN` and agrees with the fixed one everywhere else -/
theorem getIndexOrig_int_min (n : Nat) : getIndexOrig n (-(2 : Int) ^ 31) = .error .ub := by
  unfold getIndexOrig; simp

theorem getIndexOrig_eq (n : Nat) (i : Int) (h : i ≠ -(2 : Int) ^ 31) :
    getIndexOrig n i = .ok (getIndex n i) := by
  unfold getIndexOrig
  by_cases h0 : i ≥ 0
  · simp [h0]
  · have : ¬ i = -(2 : Int) ^ 31 := h
    simp only [h0, this, if_false]

/-- **Ownership.** `clear` hands every non-NULL stored datum to the callback exactly
once, in order (and nothing without a callback). -/
theorem clear_frees_each_once {s : AL} {l : List Val} (inv : Inv s l) :
    ∃ s', AL.clear s true = .ok (s', l.filter (· ≠ 0)) ∧ Inv s' [] := by
  simpa [specClear] using clear_refines inv true

/-- **Ownership, every history.** On a list created by `init`, if every remove /
clear passes the free callback then, as multisets of non-NULL data, what the history
stored = what the callback received + what is still in the list at the end (the
callback log `freedBy rs` and the final contents being those of the C model's run):
nothing is released twice, nothing is dropped without the callback. -/
theorem array_list_ownership {c : Nat} {s : AL} (h : init c = some s) (ops : List Op)
    (hsmall : ops.length < 2 ^ 30) (hall : AllFree ops) :
    ∃ s' rs final, run s ops = .ok (s', rs) ∧ contents s' = .ok final ∧
      List.Perm ((stored ops rs).filter (· ≠ 0)) ((freedBy rs ++ final).filter (· ≠ 0)) := by
  obtain ⟨s', hr, inv'⟩ := array_list_behaves_as_sequence h ops hsmall
  refine ⟨s', _, _, hr, contents_refines inv', ?_⟩
  simpa using spec_ownership ops [] hall

/-! non-vacuity: a concrete history with growth, negative indices and a rejected position -/
example : ∃ s, init 1 = some s ∧
    (specRun [] [.append (-1) 5, .insert 0 6, .append (-1) 7, .insert 3 9, .remove (-3) true,
      .get (-1), .dump]).2
    = [.pos (some 0), .pos (some 0), .pos (some 2), .pos none, .removed true [6],
       .cell (some (1, 7)), .contents 2 [5, 7]] ∧
    (run s [.append (-1) 5, .insert 0 6, .append (-1) 7, .insert 3 9, .remove (-3) true,
        .get (-1), .dump]).toOption.map (fun p => (p.2, p.1.capacity))
      = some ([.pos (some 0), .pos (some 0), .pos (some 2), .pos none,
          .removed true [6], .cell (some (1, 7)), .contents 2 [5, 7]], 4) := by
  refine ⟨_, rfl, by decide, by decide⟩

end AL

/-! ## Stack -/
namespace Stk
open MgModel.C11.Stk

/-- **Stack, one call**: every call succeeds and answers as the reference sequence
(last element = top); the final state represents the reference result. -/
theorem step_refines {s : Stack} {l : List Val} (inv : Inv s l) (hsmall : l.length < 2 ^ 30)
    (op : Op) :
    ∃ s', step s op = .ok (s', (specStep l op).2) ∧ Inv s' (specStep l op).1 ∧
      (specStep l op).1.length ≤ l.length + 1 := by
  cases op with
  | push v =>
    obtain ⟨s', h, inv'⟩ := push_refines inv hsmall v
    exact ⟨s', by simp [step, specStep, h, bind, Except.bind, pure, Except.pure], inv',
      by simp [specStep, specPush]⟩
  | top =>
    exact ⟨s, by simp [step, specStep, top_refines inv, bind, Except.bind, pure, Except.pure], inv,
      by simp [specStep]⟩
  | pop fr =>
    obtain ⟨s', h, inv'⟩ := pop_refines inv fr
    exact ⟨s', by simp [step, specStep, h, bind, Except.bind, pure, Except.pure], inv',
      by simp [specStep, specPop]; omega⟩
  | clear fr =>
    obtain ⟨s', h, inv'⟩ := clear_refines inv fr
    exact ⟨s', by simp [step, specStep, h, bind, Except.bind, pure, Except.pure], inv',
      by simp [specStep, specClear]⟩
  | ensure c =>
    obtain ⟨s', h, inv', _⟩ := ensureCapacity_inv inv c
    exact ⟨s', by simp [step, specStep, h, bind, Except.bind, pure, Except.pure], inv',
      by simp [specStep]⟩
  | dump =>
    exact ⟨s, by simp [step, specStep, contents_refines inv, inv.size, bind, Except.bind, pure,
      Except.pure], inv, by simp [specStep]⟩

/-- **Stack, every history** (growth included). -/
theorem run_refines (ops : List Op) : ∀ {s : Stack} {l : List Val}, Inv s l →
    l.length + ops.length < 2 ^ 30 →
    ∃ s', run s ops = .ok (s', (specRun l ops).2) ∧ Inv s' (specRun l ops).1 := by
  induction ops with
  | nil => intro s l inv _; exact ⟨s, rfl, inv⟩
  | cons op ops ih =>
    intro s l inv hsmall
    simp only [List.length_cons] at hsmall
    obtain ⟨s1, h1, inv1, hlen⟩ := step_refines inv (by omega) op
    obtain ⟨s2, h2, inv2⟩ := ih inv1 (by omega)
    exact ⟨s2, by simp [run, specRun, h1, h2, bind, Except.bind, pure, Except.pure], by
      simpa [specRun] using inv2⟩

/-- **C11, stack.** A stack created by `muggle_stack_init` with any capacity behaves
as the empty reference sequence under every history of push / top / pop / clear /
ensure_capacity, with and without the free callback. -/
theorem stack_behaves_as_sequence {c : Nat} {s : Stack} (h : init c = some s) (ops : List Op)
    (hsmall : ops.length < 2 ^ 30) :
    ∃ s', run s ops = .ok (s', (specRun [] ops).2) ∧ Inv s' (specRun [] ops).1 :=
  run_refines ops (inv_init h) (by simpa using hsmall)

example : ∃ s, init 1 = some s ∧
    (run s [.push 4, .push 5, .push 0, .top, .pop true, .pop true, .dump]).toOption.map
      (fun p => (p.2, p.1.capacity))
      = some ([.pos (some 0), .pos (some 1), .pos (some 2), .cell (some (2, 0)), .freed [],
          .freed [5], .contents 1 [4]], 4) := ⟨_, rfl, by decide⟩

end Stk

/-! ## Linked list -/
namespace LL
open MgModel.C11.LL

/-- **Linked list, one call.** Whenever the reference side is defined (every handle
passed is an element of the sequence), the call succeeds on the heap model — no
NULL / freed-node dereference — and returns the reference answer; the new handle
of insert/append is the next fresh node. -/
theorem step_refines {s : LL} {l : Spec} {k : Nat} (inv : Inv s l) (hk : s.mem.cells.length = k)
    (hsmall : l.length + 1 < 2 ^ 64) (op : Op) {l' : Spec} {k' : Nat} {r : Res}
    (h : specStep l k op = some (l', k', r)) :
    ∃ s', step s op = .ok (s', r) ∧ Inv s' l' ∧ s'.mem.cells.length = k' ∧
      l'.length ≤ l.length + 1 := by
  subst hk
  cases op with
  | insert n v =>
    simp only [specStep] at h
    split at h
    · rename_i hok
      simp only [Option.some.injEq, Prod.mk.injEq] at h
      obtain ⟨h1, h2, h3⟩ := h
      obtain ⟨s', hs, _, inv', hlen⟩ := insert_refines inv n (handleOk_iff.mp hok) v hsmall
      subst h1 h2 h3
      refine ⟨s', by simp [step, hs, bind, Except.bind, pure, Except.pure], inv', hlen, ?_⟩
      cases n with
      | none => simp [specInsert]
      | some n => exact length_insBefore_le _ _ _
    · simp at h
  | append n v =>
    simp only [specStep] at h
    split at h
    · rename_i hok
      simp only [Option.some.injEq, Prod.mk.injEq] at h
      obtain ⟨h1, h2, h3⟩ := h
      obtain ⟨s', hs, _, inv', hlen⟩ := append_refines inv n (handleOk_iff.mp hok) v hsmall
      subst h1 h2 h3
      refine ⟨s', by simp [step, hs, bind, Except.bind, pure, Except.pure], inv', hlen, ?_⟩
      cases n with
      | none => simp [specAppend]
      | some n => exact length_insAfter_le _ _ _
    · simp at h
  | remove n fr =>
    simp only [specStep] at h
    split at h
    · rename_i hok
      simp only [Option.some.injEq, Prod.mk.injEq] at h
      obtain ⟨h1, h2, h3⟩ := h
      obtain ⟨s', hs, inv', hlen⟩ := remove_refines inv (handleOk_iff.mp hok n rfl) fr
      subst h1 h2 h3
      refine ⟨s', by simp [step, hs, bind, Except.bind, pure, Except.pure], inv', hlen, ?_⟩
      simp only [specRemove]
      exact Nat.le_succ_of_le (List.length_filter_le _ _)
    · simp at h
  | next n =>
    simp only [specStep] at h
    split at h
    · rename_i hok
      simp only [Option.some.injEq, Prod.mk.injEq] at h
      obtain ⟨h1, h2, h3⟩ := h
      subst h1 h2 h3
      exact ⟨s, by simp [step, next_refines inv (handleOk_iff.mp hok n rfl), bind, Except.bind, pure,
        Except.pure], inv, rfl, Nat.le_succ _⟩
    · simp at h
  | prev n =>
    simp only [specStep] at h
    split at h
    · rename_i hok
      simp only [Option.some.injEq, Prod.mk.injEq] at h
      obtain ⟨h1, h2, h3⟩ := h
      subst h1 h2 h3
      exact ⟨s, by simp [step, prev_refines inv (handleOk_iff.mp hok n rfl), bind, Except.bind, pure,
        Except.pure], inv, rfl, Nat.le_succ _⟩
    · simp at h
  | first =>
    simp only [specStep, Option.some.injEq, Prod.mk.injEq] at h
    obtain ⟨h1, h2, h3⟩ := h
    subst h1 h2 h3
    exact ⟨s, by simp [step, first_refines inv, pure, Except.pure], inv, rfl, Nat.le_succ _⟩
  | last =>
    simp only [specStep, Option.some.injEq, Prod.mk.injEq] at h
    obtain ⟨h1, h2, h3⟩ := h
    subst h1 h2 h3
    exact ⟨s, by simp [step, last_refines inv, pure, Except.pure], inv, rfl, Nat.le_succ _⟩
  | find n v =>
    simp only [specStep] at h
    split at h
    · rename_i hok
      simp only [Option.some.injEq, Prod.mk.injEq] at h
      obtain ⟨h1, h2, h3⟩ := h
      subst h1 h2 h3
      exact ⟨s, by simp [step, find_refines inv n (handleOk_iff.mp hok) v, bind, Except.bind, pure,
        Except.pure], inv, rfl, Nat.le_succ _⟩
    · simp at h
  | clear fr =>
    simp only [specStep, Option.some.injEq, Prod.mk.injEq] at h
    obtain ⟨h1, h2, h3⟩ := h
    obtain ⟨s', hs, inv', hlen⟩ := clear_refines inv fr
    subst h1 h2 h3
    exact ⟨s', by simp [step, hs, bind, Except.bind, pure, Except.pure], inv', hlen,
      by simp [specClear]⟩
  | dump =>
    simp only [specStep, Option.some.injEq, Prod.mk.injEq] at h
    obtain ⟨h1, h2, h3⟩ := h
    subst h1 h2 h3
    obtain ⟨hf, hb⟩ := toList_refines inv
    exact ⟨s, by simp [step, hf, hb, inv.size, ids, bind, Except.bind, pure, Except.pure], inv, rfl,
      Nat.le_succ _⟩

/-- **Linked list, every history.** For every operation list on which the
reference side is defined (only handles of current elements are passed), the heap
model runs without error and returns exactly the reference answers: handles,
neighbours, search results, callback data, and both traversals. -/
theorem run_refines (ops : List Op) : ∀ {s : LL} {l : Spec} {k : Nat} {l' : Spec} {k' : Nat}
    {rs : List Res}, Inv s l → s.mem.cells.length = k → l.length + ops.length < 2 ^ 64 →
    specRun l k ops = some (l', k', rs) →
    ∃ s', run s ops = .ok (s', rs) ∧ Inv s' l' ∧ s'.mem.cells.length = k' := by
  induction ops with
  | nil =>
    intro s l k l' k' rs inv hk _ h
    simp only [specRun, Option.some.injEq, Prod.mk.injEq] at h
    obtain ⟨h1, h2, h3⟩ := h
    subst h1 h2 h3
    exact ⟨s, rfl, inv, hk⟩
  | cons op ops ih =>
    intro s l k l' k' rs inv hk hsmall h
    simp only [List.length_cons] at hsmall
    simp only [specRun] at h
    cases h1 : specStep l k op with
    | none => rw [h1] at h; simp at h
    | some p1 =>
      obtain ⟨l1, k1, r⟩ := p1
      rw [h1] at h
      simp only at h
      cases h2 : specRun l1 k1 ops with
      | none => rw [h2] at h; simp at h
      | some p2 =>
        obtain ⟨l2, k2, rs2⟩ := p2
        rw [h2] at h
        simp only [Option.some.injEq, Prod.mk.injEq] at h
        obtain ⟨e1, e2, e3⟩ := h
        subst e1 e2 e3
        obtain ⟨s1, hs1, inv1, hk1, hlen⟩ := step_refines inv hk (by omega) op h1
        obtain ⟨s2, hs2, inv2, hk2⟩ := ih inv1 hk1 (by omega) h2
        exact ⟨s2, by simp [run, hs1, hs2, bind, Except.bind, pure, Except.pure], inv2, hk2⟩

/-- **C11, linked list.** A list created by `muggle_linked_list_init` — with a node
pool (`capacity > 0`) or without (`capacity = 0`) — behaves as the empty reference
sequence under every history of insert-before / append-after / remove / next /
prev / first / last / find / clear / traversal that only passes handles of current
elements. -/
theorem linked_list_behaves_as_sequence {c : Nat} {s : LL} (h : init c = some s) (ops : List Op)
    (hsmall : ops.length < 2 ^ 64) {l' : Spec} {k' : Nat} {rs : List Res}
    (hspec : specRun [] 0 ops = some (l', k', rs)) :
    ∃ s', run s ops = .ok (s', rs) ∧ Inv s' l' := by
  obtain ⟨inv, hk⟩ := inv_init h
  obtain ⟨s', hr, inv', _⟩ := run_refines ops inv hk (by simpa using hsmall) hspec
  exact ⟨s', hr, inv'⟩

example : ∃ s, init 2 = some s ∧
    specRun [] 0 [.insert none 4, .append (some (.node 0)) 5, .insert (some (.node 1)) 6,
      .remove (.node 0) true, .next (.node 2), .dump]
    = some ([(.node 2, 6), (.node 1, 5)], 3,
        [.node (.node 0), .node (.node 1), .node (.node 2), .removed (some (.node 2)) [4],
         .optNode (some (.node 1)), .contents 2 [(.node 2, 6), (.node 1, 5)] [.node 1, .node 2]]) ∧
    (run s [.insert none 4, .append (some (.node 0)) 5, .insert (some (.node 1)) 6,
      .remove (.node 0) true, .next (.node 2), .dump]).toOption.map (·.2)
    = some [.node (.node 0), .node (.node 1), .node (.node 2), .removed (some (.node 2)) [4],
         .optNode (some (.node 1)), .contents 2 [(.node 2, 6), (.node 1, 5)] [.node 1, .node 2]] :=
  ⟨_, rfl, by decide, by decide⟩

end LL

/-! ## Queue -/
namespace Q
open MgModel.C11.Q
open MgProof.C11.LL (MInv ids path)

/-- **Queue, one call**: enqueue / dequeue / front / clear / traversal succeed on
the heap model and answer as the FIFO reference sequence. -/
theorem step_refines {s : Queue} {l : Spec} (inv : Inv s l) (hsmall : l.length + 1 < 2 ^ 64)
    (op : Op) :
    ∃ s', step s op = .ok (s', (specStep l s.mem.cells.length op).2.2) ∧
      Inv s' (specStep l s.mem.cells.length op).1 ∧
      s'.mem.cells.length = (specStep l s.mem.cells.length op).2.1 ∧
      (specStep l s.mem.cells.length op).1.length ≤ l.length + 1 := by
  cases op with
  | enq v =>
    obtain ⟨s', hs, inv', hlen⟩ := enqueue_refines inv v hsmall
    exact ⟨s', by simp [step, specStep, hs, bind, Except.bind, pure, Except.pure], inv', hlen,
      by simp [specStep, specEnqueue]⟩
  | deq fr =>
    obtain ⟨s', hs, inv', hlen⟩ := dequeue_refines inv fr
    refine ⟨s', by simp [step, specStep, hs, bind, Except.bind, pure, Except.pure], inv', hlen, ?_⟩
    cases l with
    | nil => simp [specStep, specDequeue]
    | cons a l' => simp [specStep, specDequeue]; omega
  | front =>
    exact ⟨s, by simp [step, specStep, front_refines inv, bind, Except.bind, pure, Except.pure], inv,
      rfl, Nat.le_succ _⟩
  | clear fr =>
    obtain ⟨s', hs, inv', hlen⟩ := clear_refines inv fr
    exact ⟨s', by simp [step, specStep, hs, bind, Except.bind, pure, Except.pure], inv', hlen,
      by simp [specStep, specClear]⟩
  | dump =>
    obtain ⟨hf, hb⟩ := toList_refines inv
    exact ⟨s, by simp [step, specStep, hf, hb, inv.size, ids, bind, Except.bind, pure, Except.pure],
      inv, rfl, Nat.le_succ _⟩

/-- **Queue, every history.** -/
theorem run_refines (ops : List Op) : ∀ {s : Queue} {l : Spec}, Inv s l →
    l.length + ops.length < 2 ^ 64 →
    ∃ s', run s ops = .ok (s', (specRun l s.mem.cells.length ops).2.2) ∧
      Inv s' (specRun l s.mem.cells.length ops).1 := by
  induction ops with
  | nil => intro s l inv _; exact ⟨s, rfl, inv⟩
  | cons op ops ih =>
    intro s l inv hsmall
    simp only [List.length_cons] at hsmall
    obtain ⟨s1, h1, inv1, hk1, hlen⟩ := step_refines inv (by omega) op
    obtain ⟨s2, h2, inv2⟩ := ih inv1 (by omega)
    rw [hk1] at h2 inv2
    exact ⟨s2, by simp [run, specRun, h1, h2, bind, Except.bind, pure, Except.pure], by
      simpa [specRun] using inv2⟩

/-- **C11, queue.** A queue created by `muggle_queue_init`, with or without node
pool, is a FIFO: every history of enqueue / dequeue / front / clear returns exactly
the reference answers (front element, callback data, both traversals, size). -/
theorem queue_behaves_as_fifo {c : Nat} {s : Queue} (h : init c = some s) (ops : List Op)
    (hsmall : ops.length < 2 ^ 64) :
    ∃ s', run s ops = .ok (s', (specRun [] 0 ops).2.2) ∧ Inv s' (specRun [] 0 ops).1 := by
  obtain ⟨inv, hk⟩ := inv_init h
  have := run_refines ops inv (by simpa using hsmall)
  rwa [hk] at this

example : ∃ s, init 1 = some s ∧
    (run s [.enq 3, .enq 0, .enq 7, .front, .deq true, .deq true, .dump]).toOption.map (·.2)
    = some [.node (.node 0), .node (.node 1), .node (.node 2), .front (some (.node 0, 3)),
        .freed [3], .freed [], .contents 1 [(.node 2, 7)] [.node 2]] ∧
    (specRun [] 0 [.enq 3, .enq 0, .enq 7, .front, .deq true, .deq true, .dump]).2.2
    = [.node (.node 0), .node (.node 1), .node (.node 2), .front (some (.node 0, 3)),
        .freed [3], .freed [], .contents 1 [(.node 2, 7)] [.node 2]] :=
  ⟨_, rfl, by decide, by decide⟩

end Q

/-! ## Pointer slot -/
namespace PS
open MgModel.C11.PS

/-- the state `s` holds exactly the live entries `l` (in insertion order); the ghost
values of the invariant (`PInv`) are the unbounded counters and the free ring -/
def Inv (s : PS) (l : Spec) : Prop := ∃ A F fl, PInv s l A F fl

/-- **Every requested capacity** (`≤ 2^31`, not only powers of two) **and every
preset of the two 32-bit counters** (in particular `UINT_MAX`, `UINT_MAX - capacity`):
after `muggle_pointer_slot_init` (fixed code) the slot is empty, its capacity is the
least power of two `≥ max(request, 1)`, and the invariant holds. -/
theorem init_inv {req : Nat} (hreq : req ≤ 2 ^ 31) (start : BitVec 32) :
    Inv (init req start) [] ∧ ∃ k, k ≤ 31 ∧ (init req start).capacity = 2 ^ k ∧ req ≤ 2 ^ k := by
  obtain ⟨k, hk, hc, hle⟩ := roundCap_spec hreq
  have hinv : PInv (init req start) [] start.toNat start.toNat
      ((List.range (2 ^ k)).map (fun j => (start.toNat + j) % 2 ^ k)) := by
    have := inv_initWith hk start
    simpa [init, hc] using this
  exact ⟨⟨_, _, _, hinv⟩, k, hk, by simp [init, initWith, hc], hle⟩

/-- **Indices are unique among live entries; inserts are refused exactly when full.**
With fewer than `capacity` live entries an insert succeeds and returns an index
below the capacity that no live entry has; the new entry is appended (insertion
order). With `capacity` live entries it returns `MUGGLE_ERR_MEM_ALLOC` and changes
nothing. -/
theorem insert_spec {s : PS} {l : Spec} (inv : Inv s l) (data : Val) :
    (l.length < s.capacity → ∃ s' k, insert s data = .ok (s', some k) ∧ k < s.capacity ∧
        k ∉ idxs l ∧ Inv s' (l ++ [(k, data)]) ∧ s'.capacity = s.capacity) ∧
    (l.length = s.capacity → insert s data = .ok (s, none)) ∧
    l.length ≤ s.capacity := by
  obtain ⟨A, F, fl, pinv⟩ := inv
  obtain ⟨h1, h2⟩ := insert_refines pinv data
  refine ⟨?_, h2, by have := pinv.fl_len; omega⟩
  intro hlt
  obtain ⟨s', k, fl', hs, hk, hkl, pinv', hcap⟩ := h1 hlt
  exact ⟨s', k, hs, hk, hkl, ⟨_, _, _, pinv'⟩, hcap⟩

/-- **Removal; double removals and out-of-range indices are refused.** `remove idx`
answers `MUGGLE_ERR_BEYOND_RANGE` for `idx ≥ capacity`, `MUGGLE_ERR_MEM_DUPLICATE_FREE`
when `idx` is not live (both without any effect), and otherwise `0`, after which the
live entries are the old ones without `idx`, in the same order. -/
theorem remove_spec {s : PS} {l : Spec} (inv : Inv s l) (idx : Nat) :
    ∃ s', remove s idx = .ok (s', (specRemove s.capacity l idx).2) ∧
      Inv s' (specRemove s.capacity l idx).1 ∧ s'.capacity = s.capacity := by
  obtain ⟨A, F, fl, pinv⟩ := inv
  obtain ⟨s', F', fl', hs, pinv', hcap⟩ := remove_refines pinv idx
  exact ⟨s', hs, ⟨_, _, _, pinv'⟩, hcap⟩

/-- a second removal of the same index is refused and changes nothing -/
theorem double_remove_refused {s : PS} {l : Spec} (inv : Inv s l) (idx : Nat) :
    ∃ s', remove s idx = .ok (s', (specRemove s.capacity l idx).2) ∧
      ∃ s'', remove s' idx = .ok (s'', if idx ≥ s.capacity then .beyondRange else .dupFree) ∧
        Inv s'' (specRemove s.capacity l idx).1 := by
  obtain ⟨s', hs, inv', hcap⟩ := remove_spec inv idx
  obtain ⟨s'', hs', inv'', _⟩ := remove_spec inv' idx
  rw [hcap, specRemove_twice] at hs' inv''
  exact ⟨s', hs, s'', hs', inv''⟩

/-- **An index resolves to its pointer until removed.** `get idx` returns the datum
of the live entry `idx`, and NULL when `idx` is not live or out of range. -/
theorem get_spec {s : PS} {l : Spec} (inv : Inv s l) (idx : Nat) :
    get s idx = .ok (specGet l idx) := by
  obtain ⟨A, F, fl, pinv⟩ := inv
  exact get_refines pinv idx

theorem get_live {s : PS} {l : Spec} (inv : Inv s l) {idx : Nat} {d : Val} (h : (idx, d) ∈ l) :
    get s idx = .ok d := by
  obtain ⟨A, F, fl, pinv⟩ := inv
  rw [get_refines pinv idx]
  congr 1
  unfold specGet
  cases hf : l.find? (fun e => e.1 = idx) with
  | none =>
    rw [List.find?_eq_none] at hf
    exact absurd (by simp) (hf _ h)
  | some e =>
    have h1 := List.find?_some hf
    have h2 := List.mem_of_find?_eq_some hf
    obtain ⟨i, d'⟩ := e
    have : i = idx := by simpa using h1
    subst this
    exact pinv.data_unique h2 h

/-- **Iteration visits the live entries in insertion order.** -/
theorem iterate_spec {s : PS} {l : Spec} (inv : Inv s l) : iterate s = .ok l := by
  obtain ⟨A, F, fl, pinv⟩ := inv
  exact iterate_refines pinv

/-- one call conforms to the property and keeps the invariant -/
theorem step_conforms {s : PS} {l : Spec} (inv : Inv s l) (op : Op) :
    ∃ s' r l', step s op = .ok (s', r) ∧ Inv s' l' ∧ s'.capacity = s.capacity ∧
      ∀ ops rs lf, Conforms s.capacity l' ops rs lf → Conforms s.capacity l (op :: ops) (r :: rs) lf := by
  cases op with
  | insert v =>
    obtain ⟨h1, h2, hle⟩ := insert_spec inv v
    by_cases hlt : l.length < s.capacity
    · obtain ⟨s', k, hs, hk, hkl, inv', hcap⟩ := h1 hlt
      refine ⟨s', .inserted (some k), l ++ [(k, v)], by simp [step, hs, bind, Except.bind, pure,
        Except.pure], inv', hcap, ?_⟩
      intro ops rs lf hc
      refine ⟨?_, by simpa [specInsert] using hc⟩
      have : specLive l k = false := by
        cases h : specLive l k with
        | false => rfl
        | true => exact absurd ((specLive_iff _ _).mp h) hkl
      simp [specInsertOk, hlt, hk, this]
    · have hfull : l.length = s.capacity := by omega
      refine ⟨s, .inserted none, l, by simp [step, h2 hfull, bind, Except.bind, pure, Except.pure],
        inv, rfl, ?_⟩
      intro ops rs lf hc
      exact ⟨by simp [specInsertOk, hfull], by simpa [specInsert] using hc⟩
  | remove i =>
    obtain ⟨s', hs, inv', hcap⟩ := remove_spec inv i
    exact ⟨s', .removed (specRemove s.capacity l i).2, _,
      by simp [step, hs, bind, Except.bind, pure, Except.pure], inv', hcap,
      fun ops rs lf hc => by simp only [Conforms]; simpa using hc⟩
  | get i =>
    exact ⟨s, .got (specGet l i), l,
      by simp [step, get_spec inv i, bind, Except.bind, pure, Except.pure], inv, rfl,
      fun ops rs lf hc => by simp only [Conforms]; simpa using hc⟩
  | iter =>
    exact ⟨s, .entries l, l,
      by simp [step, iterate_spec inv, bind, Except.bind, pure, Except.pure], inv, rfl,
      fun ops rs lf hc => by simp only [Conforms]; simpa using hc⟩

/-- **Pointer slot, every history.** From any state holding the live entries `l`,
every operation list runs without error (no out-of-bounds slot access, no broken
link) and its answers conform to the property. -/
theorem run_conforms (ops : List Op) : ∀ {s : PS} {l : Spec}, Inv s l →
    ∃ s' rs l', run s ops = .ok (s', rs) ∧ Inv s' l' ∧ Conforms s.capacity l ops rs l' := by
  induction ops with
  | nil => intro s l inv; exact ⟨s, [], l, rfl, inv, rfl⟩
  | cons op ops ih =>
    intro s l inv
    obtain ⟨s1, r, l1, hs1, inv1, hcap, hconf⟩ := step_conforms inv op
    obtain ⟨s2, rs, l2, hs2, inv2, hc2⟩ := ih inv1
    rw [hcap] at hc2
    exact ⟨s2, r :: rs, l2, by simp [run, hs1, hs2, bind, Except.bind, pure, Except.pure], inv2,
      hconf ops rs l2 hc2⟩

/-- **C11, pointer slot.** For every requested capacity `≤ 2^31` (power of two or
not) and every starting value of the two 32-bit counters (so also across their
wrap-around at `2^32`), a slot created by the fixed `muggle_pointer_slot_init`
answers every history of insert / remove / get / iteration as the property demands:
indices unique among live entries, resolution until removal, refusal when full and
of double removals, iteration in insertion order. -/
theorem pointer_slot_conforms {req : Nat} (hreq : req ≤ 2 ^ 31) (start : BitVec 32)
    (ops : List Op) :
    ∃ s' rs l', run (init req start) ops = .ok (s', rs) ∧ Inv s' l' ∧
      Conforms (init req start).capacity [] ops rs l' :=
  run_conforms ops (init_inv hreq start).1

/-- **The pinned tree violates the property for non-power-of-two requests**
(`fixes/C11-pointer-slot-capacity.patch`): with the arrays sized by the request,
capacity 5 and six inserts reach `pp_slots[5]`, outside the 5-entry array. -/
theorem pointer_slot_npot_oob :
    run (initOrig 5) [.insert 1, .insert 2, .insert 3, .insert 4, .insert 5, .insert 6]
      = .error .oob := by rfl

/-- the same history on the fixed code: capacity 8, the sixth insert succeeds -/
example : (run (init 5) [.insert 1, .insert 2, .insert 3, .insert 4, .insert 5, .insert 6,
      .remove 2, .remove 2, .get 3, .iter]).toOption.map (·.2)
    = some [.inserted (some 0), .inserted (some 1), .inserted (some 2), .inserted (some 3),
        .inserted (some 4), .inserted (some 5), .removed .ok, .removed .dupFree, .got 4,
        .entries [(0, 1), (1, 2), (3, 4), (4, 5), (5, 6)]] := by decide

/-- counters preset to `UINT_MAX`: the wrap-around changes nothing -/
example : (run (init 2 (BitVec.ofNat 32 4294967295)) [.insert 7, .insert 8, .insert 9,
      .remove 1, .insert 9, .iter]).toOption.map (·.2)
    = some [.inserted (some 1), .inserted (some 0), .inserted none, .removed .ok,
        .inserted (some 1), .entries [(0, 8), (1, 9)]] := by decide

end PS
end MgProof.C11
