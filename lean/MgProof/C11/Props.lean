import MgModel.C11.ArrayList
namespace MgProof.C11
theorem stub : True := trivial
end MgProof.C11
