import MgProof.C11.LemmasAL
/-!
# C11 — property theorems (sequence containers and pointer slot)

Statement (properties.jsonl): array list, linked list, queue and stack behave as a
reference sequence for every operation history: positions (including negative
indices), insert-before / append-after, removal, clearing and growth beyond the
initial capacity (with and without the node pool) yield exactly the model's
contents and size, and invalid positions are rejected without effect. The pointer
slot, for every requested capacity, hands out indices unique among live entries,
resolves an index to its pointer until removed, refuses inserts when full and
double removals, and iterates live entries in insertion order.

Quantifiers of the theorems: every initial capacity, every operation list of every
length, every `int` index, every datum (including NULL), with and without the free
callback. The only size hypothesis is the one the C code itself enforces
(`MUGGLE_DS_CAP_IS_VALID`): fewer than `2^30` stored elements, so that doubling
the capacity stays below `2^31`.
-/
namespace MgProof.C11
open MgModel.C11

/-! ## Array list -/
namespace AL
open MgModel.C11.AL

/-- **Array list, one call.** In a state representing the sequence `l`, every API
call succeeds (no out-of-bounds access, no read of unwritten storage), returns
exactly what the reference sequence returns (node offset, success flag, the data
handed to the free callback, the contents) and ends in a state representing the
reference result. -/
theorem step_refines {s : AL} {l : List Val} (inv : Inv s l) (hsmall : l.length < 2 ^ 30)
    (op : Op) :
    ∃ s', step s op = .ok (s', (specStep l op).2) ∧ Inv s' (specStep l op).1 ∧
      (specStep l op).1.length ≤ l.length + 1 := by
  cases op with
  | insert i v =>
    obtain ⟨s', h, inv'⟩ := insert_refines inv hsmall i v
    refine ⟨s', by simp [step, specStep, h, bind, Except.bind, pure, Except.pure], inv', ?_⟩
    simp only [specStep, specInsert]
    cases specPos l i <;> simp [List.length_insertIdx] <;> split <;> omega
  | append i v =>
    obtain ⟨s', h, inv'⟩ := append_refines inv hsmall i v
    refine ⟨s', by simp [step, specStep, h, bind, Except.bind, pure, Except.pure], inv', ?_⟩
    simp only [specStep, specAppend]
    cases specPos l i with
    | none => simp
    | some k =>
      by_cases hl : l = []
      · simp [hl]
      · simp [hl, List.length_insertIdx]; split <;> omega
  | remove i fr =>
    obtain ⟨s', h, inv'⟩ := remove_refines inv i fr
    refine ⟨s', by simp [step, specStep, h, bind, Except.bind, pure, Except.pure], inv', ?_⟩
    simp only [specStep, specRemove]
    cases normIndex l.length i <;> simp [List.length_eraseIdx] <;> split <;> omega
  | get i =>
    exact ⟨s, by simp [step, specStep, index_refines inv, bind, Except.bind, pure, Except.pure], inv,
      by simp [specStep]⟩
  | find i v =>
    exact ⟨s, by simp [step, specStep, find_refines inv, bind, Except.bind, pure, Except.pure], inv,
      by simp [specStep]⟩
  | clear fr =>
    obtain ⟨s', h, inv'⟩ := clear_refines inv fr
    exact ⟨s', by simp [step, specStep, h, bind, Except.bind, pure, Except.pure], inv',
      by simp [specStep, specClear]⟩
  | ensure c =>
    obtain ⟨s', h, inv', _⟩ := ensureCapacity_inv inv c
    exact ⟨s', by simp [step, specStep, h, bind, Except.bind, pure, Except.pure], inv',
      by simp [specStep]⟩
  | dump =>
    exact ⟨s, by simp [step, specStep, contents_refines inv, inv.size, bind, Except.bind, pure,
      Except.pure], inv, by simp [specStep]⟩

/-- **Array list, every history.** From any state representing `l`, every operation
list (any length, any `int` indices, growth included) runs without error and
returns exactly the answers of the reference sequence; the final state represents
the reference result. -/
theorem run_refines (ops : List Op) : ∀ {s : AL} {l : List Val}, Inv s l →
    l.length + ops.length < 2 ^ 30 →
    ∃ s', run s ops = .ok (s', (specRun l ops).2) ∧ Inv s' (specRun l ops).1 := by
  induction ops with
  | nil => intro s l inv _; exact ⟨s, rfl, inv⟩
  | cons op ops ih =>
    intro s l inv hsmall
    simp only [List.length_cons] at hsmall
    obtain ⟨s1, h1, inv1, hlen⟩ := step_refines inv (by omega) op
    obtain ⟨s2, h2, inv2⟩ := ih inv1 (by omega)
    exact ⟨s2, by simp [run, specRun, h1, h2, bind, Except.bind, pure, Except.pure], by
      simpa [specRun] using inv2⟩

/-- **C11, array list.** A list created by `muggle_array_list_init` with any
capacity (`0` = default `8`; growth happens whenever `size = capacity`) behaves as
the empty reference sequence under every history. -/
theorem array_list_behaves_as_sequence {c : Nat} {s : AL} (h : init c = some s) (ops : List Op)
    (hsmall : ops.length < 2 ^ 30) :
    ∃ s', run s ops = .ok (s', (specRun [] ops).2) ∧ Inv s' (specRun [] ops).1 := by
  exact run_refines ops (inv_init h) (by simpa using hsmall)

/-- `init` refuses exactly the capacities `≥ 2^31` -/
theorem init_none_iff (c : Nat) : init c = none ↔ 2 ^ 31 ≤ c := by
  unfold init capValid
  by_cases hc : c = 0
  · simp [hc]
  · by_cases h : c < 2 ^ 31
    · simp [hc, h] <;> omega
    · simp [hc, h] <;> omega

/-- **Index normalisation.** `muggle_array_list_get_index` maps `0 ≤ i < n` to `i`,
`-n ≤ i < 0` to `n + i`, and rejects every other `int`. -/
theorem getIndex_spec (n : Nat) (i : Int) (k : Nat) :
    getIndex n i = some k ↔ (0 ≤ i ∧ i < n ∧ (k : Int) = i) ∨ (i < 0 ∧ -i ≤ n ∧ (k : Int) = n + i) := by
  rw [getIndex_eq]
  unfold normIndex
  by_cases h0 : 0 ≤ i
  · by_cases h1 : i < (n : Int)
    · simp [h0, h1] <;> omega
    · simp [h0, h1] <;> omega
  · by_cases h1 : -i ≤ (n : Int)
    · simp [h0, h1] <;> omega
    · simp [h0, h1] <;> omega

/-- **Invalid positions are rejected without effect.** If `i` addresses no element
(and is not the `0`/`-1` shortcut on an empty list), insert and append return NULL,
remove returns false and calls no callback, index returns NULL — and the state
still represents the same sequence (same contents, same size). -/
theorem invalid_position_rejected {s : AL} {l : List Val} (inv : Inv s l)
    (hsmall : l.length < 2 ^ 30) (i : Int) (v : Val) (fr : Bool) (hbad : specPos l i = none) :
    (∃ s', AL.insert s i v = .ok (s', none) ∧ Inv s' l) ∧
    (∃ s', AL.append s i v = .ok (s', none) ∧ Inv s' l) ∧
    AL.remove s i fr = .ok (s, false, []) ∧
    AL.index s i = .ok none := by
  have hn : normIndex l.length i = none := by
    unfold specPos at hbad
    cases h : normIndex l.length i with
    | none => rfl
    | some k => rw [h] at hbad; simp at hbad
  refine ⟨?_, ?_, ?_, ?_⟩
  · simpa [specInsert, hbad] using insert_refines inv hsmall i v
  · simpa [specAppend, hbad] using append_refines inv hsmall i v
  · unfold AL.remove; rw [getIndex_eq, inv.size, hn]; rfl
  · rw [index_refines inv]; simp [specIndex, hn]

/-- the pinned tree's `get_index` (before fixes/C11-array-list-int-min.patch) hits
signed-overflow UB for `INT_MIN` and agrees with the fixed one everywhere else -/
theorem getIndexOrig_int_min (n : Nat) : getIndexOrig n (-(2 : Int) ^ 31) = .error .ub := by
  unfold getIndexOrig; simp

theorem getIndexOrig_eq (n : Nat) (i : Int) (h : i ≠ -(2 : Int) ^ 31) :
    getIndexOrig n i = .ok (getIndex n i) := by
  unfold getIndexOrig
  by_cases h0 : i ≥ 0
  · simp [h0]
  · have : ¬ i = -(2 : Int) ^ 31 := h
    simp only [h0, this, if_false]

/-- **Ownership.** `clear` hands every non-NULL stored datum to the callback exactly
once, in order (and nothing without a callback). -/
theorem clear_frees_each_once {s : AL} {l : List Val} (inv : Inv s l) :
    ∃ s', AL.clear s true = .ok (s', l.filter (· ≠ 0)) ∧ Inv s' [] := by
  simpa [specClear] using clear_refines inv true

/-! non-vacuity: a concrete history with growth, negative indices and a rejected position -/
example : ∃ s, init 1 = some s ∧
    (specRun [] [.append (-1) 5, .insert 0 6, .append (-1) 7, .insert 3 9, .remove (-3) true,
      .get (-1), .dump]).2
    = [.pos (some 0), .pos (some 0), .pos (some 2), .pos none, .removed true [6],
       .cell (some (1, 7)), .contents 2 [5, 7]] ∧
    (run s [.append (-1) 5, .insert 0 6, .append (-1) 7, .insert 3 9, .remove (-3) true,
        .get (-1), .dump]).toOption.map (fun p => (p.2, p.1.capacity))
      = some ([.pos (some 0), .pos (some 0), .pos (some 2), .pos none,
          .removed true [6], .cell (some (1, 7)), .contents 2 [5, 7]], 4) := by
  refine ⟨_, rfl, by decide, by decide⟩

end AL
end MgProof.C11
