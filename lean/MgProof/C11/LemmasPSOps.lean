import MgProof.C11.LemmasPS
/-! Per-call refinement lemmas for the pointer slot (`pointer_slot.c`, fixed init). -/
namespace MgProof.C11.PS
open MgModel.C11 MgModel.C11.PS MgProof.C11 MgProof.C11.Link

theorem refs_append (L1 L2 : Spec) : refs (L1 ++ L2) = refs L1 ++ refs L2 := by simp [refs]
theorem mem_refs {l : Spec} {k : Nat} : Ref.node k ∈ refs l ↔ k ∈ idxs l := by
  simp only [refs, idxs, List.mem_map]
  constructor
  · rintro ⟨e, he, h⟩; injection h with h; exact ⟨e, he, h⟩
  · rintro ⟨e, he, h⟩; exact ⟨e, he, by rw [h]⟩

theorem decompose {l : Spec} {i : Nat} {d : Val} (hm : (i, d) ∈ l) (hnd : (idxs l).Nodup) :
    ∃ L1 L2, l = L1 ++ (i, d) :: L2 ∧ i ∉ idxs L1 ∧ i ∉ idxs L2 := by
  obtain ⟨L1, L2, rfl⟩ := List.append_of_mem hm
  refine ⟨L1, L2, rfl, ?_, ?_⟩
  · intro h
    simp only [idxs, List.map_append, List.map_cons, List.nodup_append] at hnd
    exact hnd.2.2 i (by simpa [idxs] using h) i (by simp) rfl
  · intro h
    simp only [idxs, List.map_append, List.map_cons, List.nodup_append, List.nodup_cons] at hnd
    exact hnd.2.1.1 (by simpa [idxs] using h)

theorem filter_split {i : Nat} {d : Val} (L1 L2 : Spec) (h1 : i ∉ idxs L1) (h2 : i ∉ idxs L2) :
    (L1 ++ (i, d) :: L2).filter (fun a => a.1 ≠ i) = L1 ++ L2 := by
  have f : ∀ L : Spec, i ∉ idxs L → L.filter (fun a => a.1 ≠ i) = L := by
    intro L hL
    apply List.filter_eq_self.mpr
    intro a ha
    have : a.1 ≠ i := by
      intro e; apply hL; simp only [idxs, List.mem_map]; exact ⟨a, ha, e⟩
    simpa using this
  rw [List.filter_append, List.filter_cons, f L1 h1, f L2 h2]
  simp

/-- the neighbours of slot `i` in the chain -/
theorem split_at (L1 L2 : Spec) (i : Nat) (d : Val) :
    ∃ A p n' B, ppath (L1 ++ (i, d) :: L2) = A ++ p :: Ref.node i :: n' :: B ∧
      ppath (L1 ++ L2) = A ++ p :: n' :: B := by
  have h1 : Ref.head :: refs L1 ≠ [] := by simp
  cases h2 : refs L2 ++ [Ref.tail] with
  | nil => simp at h2
  | cons n' B =>
    refine ⟨(Ref.head :: refs L1).dropLast, (Ref.head :: refs L1).getLast h1, n', B, ?_, ?_⟩
    · have e : ppath (L1 ++ (i, d) :: L2) =
          (Ref.head :: refs L1) ++ Ref.node i :: (refs L2 ++ [Ref.tail]) := by
        simp [ppath, refs]
      rw [e, h2]
      conv => lhs; rw [← List.dropLast_concat_getLast h1]
      simp
    · have e : ppath (L1 ++ L2) = (Ref.head :: refs L1) ++ (refs L2 ++ [Ref.tail]) := by
        simp [ppath, refs]
      rw [e, h2]
      conv => lhs; rw [← List.dropLast_concat_getLast h1]
      simp

theorem specLive_iff (l : Spec) (i : Nat) : specLive l i = true ↔ i ∈ idxs l := by
  simp [specLive, idxs]

theorem not_mem_ppath {l : Spec} {k : Nat} (h : k ∉ idxs l) : Ref.node k ∉ ppath l := by
  intro hm
  simp only [ppath, List.mem_cons, List.mem_append] at hm
  rcases hm with hm | hm | hm | hm
  · cases hm
  · exact h (mem_refs.mp hm)
  · cases hm
  · cases hm

/-- the chain split before `tail` -/
theorem split_tail (l : Spec) :
    ∃ A p, Ref.head :: refs l = A ++ [p] ∧ ppath l = A ++ p :: [Ref.tail] := by
  have h1 : Ref.head :: refs l ≠ [] := by simp
  refine ⟨(Ref.head :: refs l).dropLast, (Ref.head :: refs l).getLast h1,
    (List.dropLast_concat_getLast h1).symm, ?_⟩
  have e : ppath l = (Ref.head :: refs l) ++ [Ref.tail] := by simp [ppath]
  rw [e]
  conv => lhs; rw [← List.dropLast_concat_getLast h1]
  simp

theorem insert_refines {s : PS} {l : Spec} {A F : Nat} {fl : List Nat} (inv : PInv s l A F fl)
    (data : Val) :
    (l.length < s.capacity → ∃ s' k fl', PS.insert s data = .ok (s', some k) ∧ k < s.capacity ∧
        k ∉ idxs l ∧ PInv s' (l ++ [(k, data)]) (A + 1) F fl' ∧ s'.capacity = s.capacity) ∧
    (l.length = s.capacity → PS.insert s data = .ok (s, none)) := by
  obtain ⟨hpos, _⟩ := inv.ring_pos
  have hM := inv.cap_pos
  constructor
  · intro hlt
    cases hfl : fl with
    | nil => have := inv.fl_len; rw [hfl] at this; simp at this; omega
    | cons k t =>
      have hring0 := inv.fl_ring 0 (by rw [hfl]; simp)
      simp only [hfl, Nat.add_zero, List.getElem_cons_zero] at hring0
      obtain ⟨hkM, hkl⟩ := (inv.fl_mem k).mp (by rw [hfl]; simp)
      obtain ⟨sv, hsv, hidx, hused⟩ := inv.slots k hkM
      have hu0 : sv.inUsed = 0 := by
        rcases hused with ⟨_, hm⟩ | ⟨h0, _⟩
        · exact absurd (List.mem_map.mpr ⟨_, hm, rfl⟩) hkl
        · exact h0
      obtain ⟨c, hc, _, _, hcv⟩ := get_of_live (live_of_valOf hsv)
      have hcval : c.val = sv := by rw [hsv] at hcv; injection hcv
      obtain ⟨A', p, hP, hpath⟩ := split_tail l
      have ch := inv.chain
      rw [hpath] at ch
      have hfresh : Ref.node k ∉ A' ++ p :: [Ref.tail] := by rw [← hpath]; exact not_mem_ppath hkl
      obtain ⟨m6, h6, c6, l6⟩ := linkTail_spec ch hfresh (live_of_valOf hsv)
      have hsv6 : valOf m6 (.node k) = some sv := by rw [l6.vals]; exact hsv
      obtain ⟨c6', hc6, _, _, hcv6⟩ := get_of_live (live_of_valOf hsv6)
      have hcval6 : c6'.val = sv := by rw [hsv6] at hcv6; injection hcv6
      obtain ⟨m7, h7, l7, n7, p7, v7, lv7⟩ := setVal_fn (live_of_valOf hsv6)
        ({ slotIdx := k, inUsed := 1, data := data } : SlotVal)
      refine ⟨{ s with mem := m7, allocIndex := s.allocIndex + 1 }, k, t, ?_, hkM, hkl, ?_, rfl⟩
      · have hne : ¬ sv.inUsed = 1 := by omega
        simp [PS.insert, hpos, hring0, hc, hcval, hne, h6, hc6, hcval6, h7, hidx, bind, Except.bind,
          pure, Except.pure]
      · refine
          { pow := inv.pow, cells_len := by simp only [l7, l6.len]; exact inv.cells_len,
            pp_len := inv.pp_len, pp_lt := inv.pp_lt, chain := ?_, lt := ?_, slots := ?_,
            cnt := by have := inv.cnt; simp; omega, a_eq := ?_, f_eq := inv.f_eq,
            fl_len := by have := inv.fl_len; rw [hfl] at this; simp at this ⊢; omega,
            fl_nodup := by have := inv.fl_nodup; rw [hfl] at this; exact (List.nodup_cons.mp this).2,
            fl_ring := ?_, fl_mem := ?_ }
        · have e : ppath (l ++ [(k, data)]) = A' ++ p :: Ref.node k :: [Ref.tail] := by
            have : ppath (l ++ [(k, data)]) = (Ref.head :: refs l) ++ Ref.node k :: [Ref.tail] := by
              simp [ppath, refs]
            rw [this, hP]; simp
          rw [e]
          exact chain_congr (fun x _ => n7 x) (fun x _ => p7 x) c6
        · intro e he
          simp only [List.mem_append, List.mem_singleton] at he
          rcases he with he | he
          · exact inv.lt e he
          · subst he; exact hkM
        · intro i hi
          by_cases hik : i = k
          · subst hik
            refine ⟨{ slotIdx := i, inUsed := 1, data := data }, by rw [v7]; simp, rfl, Or.inl ⟨rfl, ?_⟩⟩
            simp
          · obtain ⟨svi, hsvi, hidxi, husedi⟩ := inv.slots i hi
            have hne : Ref.node i ≠ Ref.node k := by intro h; injection h with h; exact hik h
            refine ⟨svi, by rw [v7, l6.vals]; simp [hne, hsvi], hidxi, ?_⟩
            rcases husedi with ⟨h1, hm⟩ | ⟨h0, hn⟩
            · exact Or.inl ⟨h1, by simp [hm]⟩
            · refine Or.inr ⟨h0, ?_⟩
              simp only [idxs, List.map_append, List.mem_append, List.map_cons, List.map_nil,
                List.mem_singleton, not_or]
              exact ⟨hn, hik⟩
        · show (s.allocIndex + 1).toNat = (A + 1) % 2 ^ 32
          have := inv.a_eq
          rw [BitVec.toNat_add]
          show (s.allocIndex.toNat + 1) % 2 ^ 32 = (A + 1) % 2 ^ 32
          omega
        · intro j hj
          have := inv.fl_ring (j + 1) (by rw [hfl]; simp; omega)
          simp only [hfl, List.getElem_cons_succ] at this
          rw [← this]
          congr 2
          omega
        · intro i
          have hnd := inv.fl_nodup
          rw [hfl] at hnd
          have hkt : k ∉ t := (List.nodup_cons.mp hnd).1
          have hm := inv.fl_mem i
          rw [hfl] at hm
          simp only [List.mem_cons] at hm
          simp only [idxs, List.map_append, List.mem_append, List.map_cons, List.map_nil,
            List.mem_singleton, not_or]
          constructor
          · intro hit
            have := hm.mp (Or.inr hit)
            exact ⟨this.1, this.2, fun h => hkt (h ▸ hit)⟩
          · rintro ⟨h1, h2, h3⟩
            rcases hm.mpr ⟨h1, h2⟩ with h | h
            · exact absurd h h3
            · exact h
  · intro hfull
    have hfl : fl = [] := by
      have := inv.fl_len
      exact List.eq_nil_of_length_eq_zero (by omega)
    obtain ⟨x, hx, hxM⟩ := inv.pp_lt (A % s.capacity) (Nat.mod_lt _ hM)
    obtain ⟨sv, hsv, hidx, hused⟩ := inv.slots x hxM
    have hu1 : sv.inUsed = 1 := by
      rcases hused with ⟨h1, _⟩ | ⟨_, hn⟩
      · exact h1
      · have := (inv.fl_mem x).mpr ⟨hxM, hn⟩
        rw [hfl] at this; simp at this
    obtain ⟨c, hc, _, _, hcv⟩ := get_of_live (live_of_valOf hsv)
    have hcval : c.val = sv := by rw [hsv] at hcv; injection hcv
    simp [PS.insert, hpos, hx, hc, hcval, hu1, bind, Except.bind, pure, Except.pure]

theorem remove_refines {s : PS} {l : Spec} {A F : Nat} {fl : List Nat} (inv : PInv s l A F fl)
    (idx : Nat) :
    ∃ s' F' fl', PS.remove s idx = .ok (s', (specRemove s.capacity l idx).2) ∧
      PInv s' (specRemove s.capacity l idx).1 A F' fl' ∧ s'.capacity = s.capacity := by
  obtain ⟨_, hposF⟩ := inv.ring_pos
  have hM := inv.cap_pos
  by_cases hge : idx ≥ s.capacity
  · exact ⟨s, F, fl, by simp [PS.remove, specRemove, hge, pure, Except.pure],
      by simpa [specRemove, hge] using inv, rfl⟩
  · have hlt : idx < s.capacity := by omega
    obtain ⟨sv, hsv, hidx, hused⟩ := inv.slots idx hlt
    obtain ⟨c, hc, _, _, hcv⟩ := get_of_live (live_of_valOf hsv)
    have hcval : c.val = sv := by rw [hsv] at hcv; injection hcv
    rcases hused with ⟨hu1, hm⟩ | ⟨hu0, hn⟩
    · -- live entry
      obtain ⟨L1, L2, rfl, hn1, hn2⟩ := decompose hm inv.idxs_nodup
      have hlive : specLive (L1 ++ (idx, sv.data) :: L2) idx = true :=
        (specLive_iff _ _).mpr (by simp [idxs])
      obtain ⟨A', p, n', B, hpath, hpath'⟩ := split_at L1 L2 idx sv.data
      have ch := inv.chain
      rw [hpath] at ch
      obtain ⟨m4, h4, c4, l4, n4, p4⟩ := unlink_spec ch
      have hl4 : Live m4 (.node idx) := (l4.live _).mpr (live_of_valOf hsv)
      obtain ⟨m5, h5, len5, n5, p5, v5, lv5⟩ := setPrev_fn hl4 none
      obtain ⟨m6, h6, len6, n6, p6, v6, lv6⟩ := setNext_fn ((lv5 _).mpr hl4) none
      have hsv6 : valOf m6 (.node idx) = some sv := by rw [v6, v5, l4.vals]; exact hsv
      obtain ⟨c6, hc6, _, _, hcv6⟩ := get_of_live (live_of_valOf hsv6)
      have hcval6 : c6.val = sv := by rw [hsv6] at hcv6; injection hcv6
      obtain ⟨m7, h7, len7, n7, p7, v7, lv7⟩ := setVal_fn (live_of_valOf hsv6)
        ({ slotIdx := idx, inUsed := 0, data := 0 } : SlotVal)
      have hFlt : F % s.capacity < s.ppSlots.length := by
        rw [inv.pp_len]; exact Nat.mod_lt _ hM
      have hnotin : Ref.node idx ∉ A' ++ p :: n' :: B := by
        have hnd := ch.nodup
        simp only [List.nodup_append, List.nodup_cons, List.mem_cons, List.mem_append, not_or]
          at hnd ⊢
        exact ⟨fun h => hnd.2.2 _ h _ (by simp) rfl, fun h => hnd.2.1.1.1 h.symm,
          hnd.2.1.2.1.1, hnd.2.1.2.1.2⟩
      have hlen := inv.fl_len
      simp only [List.length_append, List.length_cons] at hlen
      refine ⟨⟨m7, s.ppSlots.set (F % s.capacity) idx, s.capacity, s.allocIndex, s.freeIndex + 1⟩,
        F + 1, fl ++ [idx], ?_, ?_, rfl⟩
      · have hne0 : ¬ sv.inUsed = 0 := by omega
        have hnge : ¬ s.ppSlots.length ≤ F % s.capacity := by omega
        simp [PS.remove, specRemove, hge, hlive, hc, hcval, hne0, hposF, hnge, h4, h5, h6, hc6,
          hcval6, hidx, h7, bind, Except.bind, pure, Except.pure]
      · simp only [specRemove, hge, if_false, hlive, if_true, filter_split L1 L2 hn1 hn2]
        refine
          { pow := inv.pow,
            cells_len := by simp only [len7, len6, len5, l4.len]; exact inv.cells_len,
            pp_len := by simp [inv.pp_len], pp_lt := ?_, chain := ?_, lt := ?_, slots := ?_,
            cnt := by have := inv.cnt; simp at this ⊢; omega, a_eq := inv.a_eq, f_eq := ?_,
            fl_len := by simp; omega,
            fl_nodup := ?_, fl_ring := ?_, fl_mem := ?_ }
        · intro j hj
          have hj' : j < s.capacity := hj
          show ∃ x, (s.ppSlots.set (F % s.capacity) idx)[j]? = some x ∧ x < s.capacity
          rw [List.getElem?_set]
          by_cases hjF : F % s.capacity = j
          · rw [if_pos hjF, if_pos hFlt]; exact ⟨idx, rfl, hlt⟩
          · rw [if_neg hjF]; exact inv.pp_lt j hj'
        · rw [hpath']
          apply chain_congr _ _ c4
          · intro x hx
            have : x ≠ Ref.node idx := fun h => hnotin (h ▸ hx)
            rw [n7, n6, n5]; simp [this]
          · intro x hx
            have : x ≠ Ref.node idx := fun h => hnotin (h ▸ hx)
            rw [p7, p6, p5]; simp [this]
        · intro e he
          apply inv.lt
          simp only [List.mem_append, List.mem_cons] at he ⊢
          rcases he with he | he
          · exact Or.inl he
          · exact Or.inr (Or.inr he)
        · intro i hi
          by_cases hik : i = idx
          · subst hik
            refine ⟨{ slotIdx := i, inUsed := 0, data := 0 }, by rw [v7]; simp, rfl, Or.inr ⟨rfl, ?_⟩⟩
            simp only [idxs, List.map_append, List.mem_append, not_or]
            exact ⟨hn1, hn2⟩
          · obtain ⟨svi, hsvi, hidxi, husedi⟩ := inv.slots i hi
            have hne : Ref.node i ≠ Ref.node idx := by intro h; injection h with h; exact hik h
            refine ⟨svi, by rw [v7, v6, v5, l4.vals]; simp [hne, hsvi], hidxi, ?_⟩
            rcases husedi with ⟨h1, hm'⟩ | ⟨h0, hn'⟩
            · refine Or.inl ⟨h1, ?_⟩
              simp only [List.mem_append, List.mem_cons] at hm' ⊢
              rcases hm' with h | h | h
              · exact Or.inl h
              · injection h with h _; exact absurd h hik
              · exact Or.inr h
            · refine Or.inr ⟨h0, ?_⟩
              simp only [idxs, List.map_append, List.map_cons, List.mem_append, List.mem_cons,
                not_or] at hn' ⊢
              exact ⟨hn'.1, hn'.2.2⟩
        · show (s.freeIndex + 1).toNat = (F + 1) % 2 ^ 32
          have := inv.f_eq
          rw [BitVec.toNat_add]
          show (s.freeIndex.toNat + 1) % 2 ^ 32 = (F + 1) % 2 ^ 32
          omega
        · rw [List.nodup_append]
          refine ⟨inv.fl_nodup, by simp, ?_⟩
          intro a ha b hb
          simp only [List.mem_singleton] at hb
          subst hb
          intro e; subst e
          exact ((inv.fl_mem a).mp ha).2 (by simp [idxs])
        · intro j hj
          simp only [List.length_append, List.length_singleton] at hj
          have hcnt := inv.cnt
          simp only [List.length_append, List.length_cons] at hcnt
          by_cases hjl : j < fl.length
          · have hne : (A + j) % s.capacity ≠ F % s.capacity := by
              have : A + j = F + (L1.length + (L2.length + 1) + j) := by omega
              rw [this]
              exact mod_add_ne (by omega) (by omega)
            rw [List.getElem?_set, if_neg (fun h => hne h.symm), inv.fl_ring j hjl]
            simp [List.getElem_append_left hjl]
          · have hj' : j = fl.length := by omega
            subst hj'
            have : (A + fl.length) % s.capacity = F % s.capacity := by
              have : A + fl.length = F + s.capacity := by omega
              rw [this, Nat.add_mod_right]
            rw [this, List.getElem?_set]
            simp [hFlt]
        · intro i
          simp only [List.mem_append, List.mem_singleton, idxs, List.map_append, not_or]
          have hm' := inv.fl_mem i
          simp only [idxs, List.map_append, List.map_cons, List.mem_append, List.mem_cons, not_or]
            at hm'
          constructor
          · rintro (h | h)
            · have := hm'.mp h; exact ⟨this.1, this.2.1, this.2.2.2⟩
            · subst h; exact ⟨hlt, hn1, hn2⟩
          · rintro ⟨h1, h2, h3⟩
            by_cases hik : i = idx
            · exact Or.inr hik
            · exact Or.inl (hm'.mpr ⟨h1, h2, hik, h3⟩)
    · -- not in use: duplicate free
      have hlive : specLive l idx = false := by
        cases h : specLive l idx with
        | false => rfl
        | true => exact absurd ((specLive_iff _ _).mp h) hn
      exact ⟨s, F, fl, by simp [PS.remove, specRemove, hge, hlive, hc, hcval, hu0, bind, Except.bind,
        pure, Except.pure], by simpa [specRemove, hge, hlive] using inv, rfl⟩

theorem get_refines {s : PS} {l : Spec} {A F : Nat} {fl : List Nat} (inv : PInv s l A F fl)
    (idx : Nat) : PS.get s idx = .ok (specGet l idx) := by
  have hnone : idx ∉ idxs l → specGet l idx = 0 := by
    intro hn
    have : l.find? (fun e => e.1 = idx) = none := by
      rw [List.find?_eq_none]
      intro e he hp
      apply hn
      simp only [idxs, List.mem_map]
      exact ⟨e, he, by simpa using hp⟩
    simp [specGet, this]
  by_cases hge : idx ≥ s.capacity
  · have hn : idx ∉ idxs l := by
      intro h
      simp only [idxs, List.mem_map] at h
      obtain ⟨e, he, rfl⟩ := h
      have := inv.lt e he
      omega
    simp [PS.get, hge, hnone hn, pure, Except.pure]
  · have hlt : idx < s.capacity := by omega
    obtain ⟨sv, hsv, hidx, hused⟩ := inv.slots idx hlt
    obtain ⟨c, hc, _, _, hcv⟩ := get_of_live (live_of_valOf hsv)
    have hcval : c.val = sv := by rw [hsv] at hcv; injection hcv
    rcases hused with ⟨hu1, hm⟩ | ⟨hu0, hn⟩
    · have hfind : ∃ d, l.find? (fun e => e.1 = idx) = some (idx, d) ∧ (idx, d) ∈ l := by
        cases hf : l.find? (fun e => e.1 = idx) with
        | none =>
          rw [List.find?_eq_none] at hf
          exact absurd (by simp) (hf _ hm)
        | some e =>
          have h1 := List.find?_some hf
          have h2 := List.mem_of_find?_eq_some hf
          obtain ⟨i, d⟩ := e
          have : i = idx := by simpa using h1
          subst this
          exact ⟨d, rfl, h2⟩
      obtain ⟨d, hf, hd⟩ := hfind
      have := inv.data_unique hm hd
      have hne : ¬ sv.inUsed = 0 := by omega
      simp [PS.get, hge, hc, hcval, hne, specGet, hf, this, bind, Except.bind, pure, Except.pure]
    · simp [PS.get, hge, hc, hcval, hu0, hnone hn, bind, Except.bind, pure, Except.pure]

theorem iterate_refines {s : PS} {l : Spec} {A F : Nat} {fl : List Nat} (inv : PInv s l A F fl) :
    PS.iterate s = .ok l := by
  have c := inv.chain
  cases hN : refs l ++ [Ref.tail] with
  | nil => simp at hN
  | cons n B =>
    have c' : Chain (nxt s.mem) (prv s.mem) ([] ++ Ref.head :: n :: B) := by
      simpa [ppath, hN] using c
    obtain ⟨h, _, _⟩ := chain_adj c'
    have hl : Links (nxt s.mem) (prv s.mem) (refs l ++ [Ref.tail]) := by
      have := c.links
      simp only [ppath] at this
      cases h' : refs l ++ [Ref.tail] with
      | nil => trivial
      | cons x xs => rw [h'] at this; exact this.2.2
    have hnd : (refs l ++ [Ref.tail]).Nodup := (List.nodup_cons.mp c.nodup).2
    have hlen : l.length ≤ s.mem.cells.length := by
      have := inv.fl_len; rw [inv.cells_len]; omega
    have hw := walkFwd_spec s.mem (prv s.mem) (refs l) n (s.mem.cells.length + 1)
      (by rw [hN]; rfl) hl hnd (by simp [refs]; omega)
    have hhead : s.mem.head.next = some n := by
      have : s.mem.head.next = nxt s.mem .head := by simp [nxt, DMem.get]
      rw [this, h]
    have hcells : (refs l).mapM s.mem.readCell =
        .ok ((refs l).map (fun r => (r, (valOf s.mem r).getD sentinel))) := by
      apply mapM_ok
      intro r hr
      simp only [refs, List.mem_map] at hr
      obtain ⟨e, he, rfl⟩ := hr
      obtain ⟨sv, hsv, _, _⟩ := inv.slots e.1 (inv.lt e he)
      obtain ⟨c, hc, _, _, hcv⟩ := get_of_live (live_of_valOf hsv)
      simp [DMem.readCell, hc, ← hcv, bind, Except.bind, pure, Except.pure]
    have hmap : ((refs l).map (fun r => (r, (valOf s.mem r).getD sentinel))).map
        (fun (x : Ref × SlotVal) => (x.2.slotIdx, x.2.data)) = l := by
      simp only [refs, List.map_map]
      have : ∀ e ∈ l, ((fun (x : Ref × SlotVal) => (x.2.slotIdx, x.2.data)) ∘
          (fun r => (r, (valOf s.mem r).getD sentinel)) ∘ fun e => Ref.node e.1) e = e := by
        intro e he
        obtain ⟨sv, hsv, hidx, hused⟩ := inv.slots e.1 (inv.lt e he)
        have hin : e.1 ∈ idxs l := by simp only [idxs, List.mem_map]; exact ⟨e, he, rfl⟩
        rcases hused with ⟨_, hm⟩ | ⟨_, hn⟩
        · have := inv.data_unique hm (show (e.1, e.2) ∈ l from he)
          simp [hsv, hidx, this]
        · exact absurd hin hn
      rw [List.map_congr_left this]; simp
    simp only [PS.iterate, hhead, deref, hw, hcells, bind, Except.bind, pure, Except.pure]
    congr 1

/-- a duplicate-free list of `M` numbers below `M` contains every number below `M` -/
theorem mem_of_nodup_full {fl : List Nat} {M : Nat} (hnd : fl.Nodup) (hlen : fl.length = M)
    (hlt : ∀ x ∈ fl, x < M) {i : Nat} (hi : i < M) : i ∈ fl := by
  apply Classical.byContradiction
  intro hn
  have h1 : (i :: fl).Nodup := List.nodup_cons.mpr ⟨hn, hnd⟩
  have h2 : (i :: fl) ⊆ List.range M := by
    intro x hx
    simp only [List.mem_cons] at hx
    rcases hx with rfl | hx
    · exact List.mem_range.mpr hi
    · exact List.mem_range.mpr (hlt x hx)
  have := List.Nodup.length_le_of_subset h1 h2
  simp at this
  omega

/-- **Initial state** (any power-of-two capacity, any preset of the two counters):
every slot is free and the ring hands them out starting at `start mod capacity`. -/
theorem inv_initWith {k : Nat} (hk : k ≤ 31) (start : BitVec 32) :
    PInv (initWith (2 ^ k) (2 ^ k) start) [] start.toNat start.toNat
      ((List.range (2 ^ k)).map (fun j => (start.toNat + j) % 2 ^ k)) := by
  have hM : 0 < 2 ^ k := Nat.pow_pos (by omega)
  generalize hMdef : 2 ^ k = M at *
  have hfl_nodup : ((List.range M).map (fun j => (start.toNat + j) % M)).Nodup := by
    rw [List.Nodup, List.pairwise_map]
    apply List.Pairwise.imp_of_mem _ List.pairwise_lt_range
    intro a b ha hb hab
    have ha' := List.mem_range.mp ha
    have hb' := List.mem_range.mp hb
    have : start.toNat + b = (start.toNat + a) + (b - a) := by omega
    rw [this]
    exact (mod_add_ne (by omega) (by omega)).symm
  refine
    { pow := ⟨k, hk, by simp [initWith, hMdef]⟩, cells_len := by simp [initWith],
      pp_len := by simp [initWith], pp_lt := ?_, chain := ?_, lt := by simp, slots := ?_,
      cnt := by simp, a_eq := ?_, f_eq := ?_, fl_len := by simp [initWith],
      fl_nodup := hfl_nodup, fl_ring := ?_, fl_mem := ?_ }
  · intro j hj
    have hj' : j < M := by simpa [initWith] using hj
    exact ⟨j, by simp only [initWith]; exact List.getElem?_range hj', hj⟩
  · refine ⟨by simp [ppath, refs], ?_⟩
    simp [ppath, refs, Links, nxt, prv, DMem.get, initWith]
  · intro i hi
    simp only [initWith] at hi
    refine ⟨{ slotIdx := i, inUsed := 0, data := 0 }, ?_, rfl, Or.inr ⟨rfl, by simp [idxs]⟩⟩
    simp [valOf, DMem.get, initWith, hi]
  · show start.toNat = start.toNat % 2 ^ 32
    rw [Nat.mod_eq_of_lt start.isLt]
  · show start.toNat = start.toNat % 2 ^ 32
    rw [Nat.mod_eq_of_lt start.isLt]
  · intro j hj
    simp only [List.length_map, List.length_range] at hj
    simp only [initWith, List.getElem_map, List.getElem_range]
    rw [List.getElem?_range (Nat.mod_lt _ hM)]
  · intro i
    simp only [initWith, idxs, List.map_nil, List.not_mem_nil, not_false_eq_true, and_true]
    constructor
    · intro h
      simp only [List.mem_map, List.mem_range] at h
      obtain ⟨j, _, rfl⟩ := h
      exact Nat.mod_lt _ hM
    · intro hi
      apply mem_of_nodup_full hfl_nodup (by simp) _ hi
      intro x hx
      simp only [List.mem_map, List.mem_range] at hx
      obtain ⟨j, _, rfl⟩ := hx
      exact Nat.mod_lt _ hM

theorem specLive_filter (l : Spec) (idx : Nat) :
    specLive (l.filter (fun a => a.1 ≠ idx)) idx = false := by
  cases h : specLive (l.filter (fun a => a.1 ≠ idx)) idx with
  | false => rfl
  | true =>
    have := (specLive_iff _ _).mp h
    simp only [idxs, List.mem_map, List.mem_filter] at this
    obtain ⟨e, ⟨_, he⟩, rfl⟩ := this
    simp at he

/-- on the reference side a second removal of the same index is refused -/
theorem specRemove_twice (cap : Nat) (l : Spec) (idx : Nat) :
    specRemove cap (specRemove cap l idx).1 idx =
      ((specRemove cap l idx).1, if idx ≥ cap then .beyondRange else .dupFree) := by
  by_cases hge : idx ≥ cap
  · simp [specRemove, hge]
  · by_cases hl : specLive l idx = true
    · have hf := specLive_filter l idx
      simp only [specRemove, hge, if_false, hl, if_true, hf]
      simp
    · have hl' : specLive l idx = false := by simpa using hl
      simp [specRemove, hge, hl']

end MgProof.C11.PS
