import MgModel.C11.Basic
/-! Helper lemmas for C11: the loop-invariant rule for `foldlM` over `List.range`
in the `Except` monad, and the loops over raw storage (`copyLoop`, `clearLoop`). -/
namespace MgProof.C11
open MgModel.C11

/-- **Loop-invariant rule.** If `P 0` holds initially and every iteration `k < n`
started in a state satisfying `P k` succeeds and re-establishes `P (k+1)`, the
whole loop succeeds in a state satisfying `P n`. -/
theorem foldlM_range_inv {σ ε : Type} (f : σ → Nat → Except ε σ) (P : Nat → σ → Prop)
    (n : Nat) (s0 : σ) (h0 : P 0 s0)
    (hstep : ∀ k s, k < n → P k s → ∃ s', f s k = .ok s' ∧ P (k + 1) s') :
    ∃ s', (List.range n).foldlM f s0 = .ok s' ∧ P n s' := by
  induction n with
  | zero => exact ⟨s0, rfl, h0⟩
  | succ n ih =>
    obtain ⟨s1, h1, p1⟩ := ih (fun k s hk hp => hstep k s (Nat.lt_succ_of_lt hk) hp)
    obtain ⟨s2, h2, p2⟩ := hstep n s1 (Nat.lt_succ_self n) p1
    refine ⟨s2, ?_, p2⟩
    rw [List.range_succ, List.foldlM_append, h1]
    simp [bind, Except.bind, h2, pure, Except.pure]

/-- a storage cell is initialised with `v` -/
theorem rd_ok {a : Store} {i : Nat} {v : Val} (h : a[i]? = some (some v)) : rd a i = .ok v := by
  simp [rd, h]

theorem wr_ok {a : Store} {i : Nat} (v : Val) (h : i < a.length) :
    wr a i v = .ok (a.set i (some v)) := by
  simp [wr, h]

/-- `mapM` of a function that succeeds on every element -/
theorem mapM_ok {α β ε : Type} (f : α → Except ε β) (g : α → β) (l : List α)
    (h : ∀ x ∈ l, f x = .ok (g x)) : l.mapM f = .ok (l.map g) := by
  induction l with
  | nil => rfl
  | cons x xs ih =>
    rw [List.mapM_cons, h x (by simp), ih (fun y hy => h y (by simp [hy]))]
    rfl

/-- the copy loop of `ensure_capacity`: the first `n` cells of `dst` become those of `src` -/
theorem copyLoop_spec (src dst : Store) (n : Nat) (hd : n ≤ dst.length)
    (hinit : ∀ i, i < n → ∃ v, src[i]? = some (some v)) :
    ∃ d, copyLoop src dst n = .ok d ∧ d.length = dst.length ∧
      ∀ j, d[j]? = if j < n then src[j]? else dst[j]? := by
  unfold copyLoop
  obtain ⟨d, h, hl, hp⟩ := foldlM_range_inv
    (fun d i => do let v ← rd src i; wr d i v)
    (fun k d => d.length = dst.length ∧ ∀ j, d[j]? = if j < k then src[j]? else dst[j]?)
    n dst ⟨rfl, by simp⟩
    (by
      intro k d hk ⟨hl, hp⟩
      obtain ⟨v, hv⟩ := hinit k hk
      refine ⟨d.set k (some v), ?_, by simp [hl], ?_⟩
      · simp [rd_ok hv, bind, Except.bind, wr, hl]; omega
      · intro j
        rw [List.getElem?_set]
        by_cases hjk : k = j
        · subst hjk; simp [hl, hv]; omega
        · simp [hjk, hp j]
          by_cases h1 : j < k
          · simp [h1, Nat.lt_succ_of_lt h1]
          · have : ¬ j < k + 1 := by omega
            simp [h1, this])
  exact ⟨d, h, hl, hp⟩

/-- the callback loop of `clear`: exactly the non-NULL data, in order, once each -/
theorem clearLoop_spec (a : Store) (l : List Val)
    (hdata : ∀ i, i < l.length → a[i]? = some (l[i]?)) :
    clearLoop a l.length = .ok (l.filter (· ≠ 0)) := by
  unfold clearLoop
  obtain ⟨fr, h, hp⟩ := foldlM_range_inv
    (fun fr i => do let v ← rd a i; pure (if v ≠ 0 then fr ++ [v] else fr))
    (fun k fr => fr = (l.take k).filter (· ≠ 0))
    l.length [] (by simp)
    (by
      intro k fr hk hp
      have hv : a[k]? = some (some l[k]) := by rw [hdata k hk]; simp [hk]
      refine ⟨_, by simp only [rd_ok hv, bind, Except.bind, pure, Except.pure]; rfl, ?_⟩
      rw [List.take_add_one, List.filter_append, ← hp]
      simp [hk]
      by_cases h0 : l[k] = 0 <;> simp [h0])
  rw [h, hp]; simp

end MgProof.C11
