import MgProof.C05.Lemmas
import MgModel.C05.TsPool
/-! Invariant of the repaired thread-safe pool model (`MgModel.C05.Ts.step`) for histories
that are legal so far (`illegal = 0`): the ring of free pointers between `alloc_idx` and
`free_idx` holds pairwise distinct blocks that are in the pool, `cached_free_pos` lies
between them, and the two spinlocks serialise allocators / freers. -/
namespace MgProof.C05.Ts
open MgModel.Conc MgModel.C05 MgModel.C05.Ts

/-- successor in the ring, without `%` -/
def nxt (C i : Nat) : Nat := if i + 1 = C then 0 else i + 1

/-- distance from `a` forward to `x` in the ring, in `1..C` -/
def dist (C a x : Nat) : Nat := if a < x then x - a else x + C - a

/-- slot `j` is one of the `c` slots starting at `a` -/
def valid (C a c j : Nat) : Prop := (a ≤ j ∧ j < a + c) ∨ j + C < a + c

/-- thread holds `alloc_spinlock` -/
def inA : Pc → Bool
  | .aRdIdx | .aRdCf _ | .aLdFi _ | .aWrCf _ _ _ | .aRdCf2 _ _ | .aRdPtr _ | .aWrIdx _ _ | .aUnlock _ => true
  | _ => false

/-- thread holds `free_spinlock` -/
def inF : Pc → Bool
  | .fRdFi _ | .fWrPtr _ _ | .fRdFi2 _ | .fStFi _ _ | .fUnlock => true
  | _ => false

/-- the value of `alloc_idx` the allocating thread has read -/
def heldIdx : Pc → Option Nat
  | .aRdCf x | .aLdFi x | .aWrCf x _ _ | .aRdCf2 x _ | .aRdPtr x | .aWrIdx x _ => some x
  | _ => none

/-- the block a thread is giving back -/
def freeBlk : Pc → Option Nat
  | .fLock b | .fYield b | .fRdFi b | .fWrPtr b _ | .fRdFi2 b | .fStFi b _ => some b
  | _ => none

/-- the part of the invariant about the shared data -/
structure DataC (k c : Nat) (s : St) : Prop where
  cap : s.cap = 2 ^ k
  dbl : s.g.double = 0
  spn : s.spuriousNull = 0
  own : ∀ b, s.g.owned b = true ↔ s.loc b = .client
  big : ∀ b, s.cap ≤ b → s.loc b = .pool
  cnt : c = poolCount s
  c1  : 1 ≤ c ∧ c ≤ s.cap
  ia  : s.allocIdx < s.cap
  fi  : s.freeIdx = if s.allocIdx + c < s.cap then s.allocIdx + c else s.allocIdx + c - s.cap
  icf : s.cachedFree < s.cap ∧ dist s.cap s.allocIdx s.cachedFree ≤ c
  vl  : ∀ j, j < s.cap → valid s.cap s.allocIdx c j → s.loc (s.ptrs j) = .pool ∧ s.ptrs j < s.cap
  inj : ∀ j j', j < s.cap → j' < s.cap → valid s.cap s.allocIdx c j → valid s.cap s.allocIdx c j' →
          s.ptrs j = s.ptrs j' → j = j'

/-- the part of the invariant about the threads' program counters -/
structure PcC (c : Nat) (s : St) : Prop where
  aex : ∀ t t', inA (s.pc t) = true → inA (s.pc t') = true → t = t'
  alk : s.alock = 0 → ∀ t, inA (s.pc t) = false
  aix : ∀ t x, heldIdx (s.pc t) = some x → x = s.allocIdx
  awc : ∀ t x f0 n, s.pc t = .aWrCf x f0 n →
          f0 < s.cap ∧ dist s.cap s.allocIdx f0 ≤ c ∧ n = dist s.cap s.allocIdx f0
  ar2s : ∀ t x n, s.pc t = .aRdCf2 x (some n) → n = dist s.cap s.allocIdx s.cachedFree
  ar2n : ∀ t x, s.pc t = .aRdCf2 x none → nxt s.cap s.allocIdx ≠ s.cachedFree
  arp : ∀ t x, s.pc t = .aRdPtr x → nxt s.cap s.allocIdx ≠ s.cachedFree
  awi : ∀ t x b, s.pc t = .aWrIdx x b → nxt s.cap s.allocIdx ≠ s.cachedFree ∧ b = s.ptrs s.allocIdx
  aul : ∀ t b, s.pc t = .aUnlock (some b) → s.loc b = .taken t
  tk  : ∀ b t, s.loc b = .taken t → s.pc t = .aUnlock (some b)
  fex : ∀ t t', inF (s.pc t) = true → inF (s.pc t') = true → t = t'
  flk : s.flock = 0 → ∀ t, inF (s.pc t) = false
  ffr : ∀ t b, freeBlk (s.pc t) = some b → s.loc b = .freeing t
  ffr' : ∀ t b, s.loc b = .freeing t → freeBlk (s.pc t) = some b
  fwp : ∀ t b f0, s.pc t = .fWrPtr b f0 → f0 = s.freeIdx
  fr2 : ∀ t b, s.pc t = .fRdFi2 b → s.ptrs s.freeIdx = b
  fst : ∀ t b v, s.pc t = .fStFi b v → s.ptrs s.freeIdx = b ∧ v = nxt s.cap s.freeIdx

def Legal (s : St) : Prop := s.g.illegal = 0

def Inv (k : Nat) (s : St) : Prop := Legal s → ∃ c, DataC k c s ∧ PcC c s

theorem nextPc_not (rest : List Op) : inA (nextPc rest) = false ∧ inF (nextPc rest) = false ∧
    heldIdx (nextPc rest) = none ∧ freeBlk (nextPc rest) = none ∧
    (∀ b, nextPc rest ≠ .aUnlock b) := by
  unfold nextPc; split <;> simp [inA, inF, heldIdx, freeBlk]

theorem ringIdx_nxt {k C x : Nat} (h : C = 2 ^ k) (hx : x < C) : ringIdx (x + 1) C = nxt C x := by
  subst h; rw [ringIdx_succ hx]; rfl

theorem poolCount_same {s s' : St} (h1 : s'.cap = s.cap) (h2 : s'.loc = s.loc) : poolCount s' = poolCount s := by
  unfold poolCount; rw [h1, h2]

theorem poolCount_upd {s s' : St} {b : Nat} {v : Loc} (h1 : s'.cap = s.cap) (h2 : s'.loc = upd s.loc b v)
    (hb : b < s.cap) :
    poolCount s' + (if s.loc b = .pool then 1 else 0) = poolCount s + (if v = .pool then 1 else 0) := by
  unfold poolCount; rw [h1, h2]
  have := countP_range_upd (fun l : Loc => l == .pool) s.loc b v s.cap hb
  simpa using this

/-- `poolCount` as a function of the two fields it reads -/
def poolCountOf (cap : Nat) (loc : Nat → Loc) : Nat := (List.range cap).countP fun b => loc b == .pool

theorem poolCount_eq (s : St) : poolCount s = poolCountOf s.cap s.loc := rfl

theorem poolCountOf_upd (cap : Nat) (loc : Nat → Loc) (b : Nat) (v : Loc) (hb : b < cap) :
    poolCountOf cap (upd loc b v) + (if loc b = .pool then 1 else 0)
      = poolCountOf cap loc + (if v = .pool then 1 else 0) := by
  unfold poolCountOf
  have := countP_range_upd (fun l : Loc => l == .pool) loc b v cap hb
  simpa using this

theorem poolCount_lt {s : St} {b : Nat} (hb : b < s.cap) (h : s.loc b ≠ .pool) : poolCount s < s.cap := by
  unfold poolCount
  exact countP_range_lt _ _ b hb (by simpa using h)

/-- a step that leaves the shared data alone keeps `DataC` -/
theorem DataC.frame {k c : Nat} {s s' : St} (d : DataC k c s) (h1 : s'.cap = s.cap)
    (h2 : s'.g.double = s.g.double) (h3 : s'.spuriousNull = s.spuriousNull) (h4 : s'.g.owned = s.g.owned)
    (h5 : s'.loc = s.loc) (h6 : s'.allocIdx = s.allocIdx) (h7 : s'.freeIdx = s.freeIdx)
    (h8 : s'.cachedFree = s.cachedFree) (h9 : s'.ptrs = s.ptrs) : DataC k c s' := by
  obtain ⟨d1, d2, d3, d4, d5, d6, d7, d8, d9, d10, d11, d12⟩ := d
  constructor
  · rw [h1]; exact d1
  · rw [h2]; exact d2
  · rw [h3]; exact d3
  · rw [h4, h5]; exact d4
  · rw [h1, h5]; exact d5
  · rw [poolCount_same h1 h5]; exact d6
  · rw [h1]; exact d7
  · rw [h1, h6]; exact d8
  · rw [h1, h6, h7]; exact d9
  · rw [h1, h6, h8]; exact d10
  · rw [h1, h5, h6, h9]; exact d11
  · rw [h1, h6, h9]; exact d12

/-- `free_idx` is a valid index -/
theorem DataC.fi_lt {k c : Nat} {s : St} (d : DataC k c s) : s.freeIdx < s.cap := by
  have h := d.fi; have := d.c1; have := d.ia
  split at h <;> omega

/-- `free_idx` is `c` slots after `alloc_idx` -/
theorem DataC.dist_fi {k c : Nat} {s : St} (d : DataC k c s) : dist s.cap s.allocIdx s.freeIdx = c := by
  have h := d.fi; have := d.c1; have := d.ia
  unfold dist
  split at h <;> split <;> omega

theorem dist_nxt {C a : Nat} (ha : a < C) : dist C a (nxt C a) = 1 := by
  have := ha
  unfold dist nxt; split <;> split <;> omega

/-- in a ring with `c < C` valid slots the slot at `free_idx` is not valid -/
theorem DataC.fi_invalid {k c : Nat} {s : St} (d : DataC k c s) (hc : c < s.cap) :
    ¬ valid s.cap s.allocIdx c s.freeIdx := by
  have h := d.fi; have := d.c1; have := d.ia
  unfold valid
  split at h <;> omega

theorem DataC.ai_valid {k c : Nat} {s : St} (d : DataC k c s) : valid s.cap s.allocIdx c s.allocIdx := by
  have := d.c1; unfold valid; omega

theorem dist_pos {C a x : Nat} (ha : a < C) : 1 ≤ dist C a x := by
  unfold dist; split <;> omega

theorem dist_le {C a x : Nat} (ha : a < C) (hx : x < C) : dist C a x ≤ C := by
  unfold dist; split <;> omega

theorem dist_eq_one {C a x : Nat} (ha : a < C) (hx : x < C) (h : dist C a x = 1) : x = nxt C a := by
  unfold dist at h; unfold nxt; split at h <;> split <;> omega

theorem dist_nxt_step {C a x : Nat} (ha : a < C) (hx : x < C) (h : x ≠ nxt C a) :
    dist C (nxt C a) x + 1 = dist C a x := by
  unfold nxt at h ⊢; unfold dist
  split at h <;> split <;> split <;> (try split) <;> omega

theorem nxt_lt {C a : Nat} (ha : a < C) : nxt C a < C := by
  unfold nxt; split <;> omega

/-- after handing out the slot at `a`, the remaining slots were valid before and are not `a` -/
theorem valid_nxt {C a c j : Nat} (ha : a < C) (hc1 : 1 ≤ c) (hc : c ≤ C) (hj : j < C)
    (h : valid C (nxt C a) (c - 1) j) : valid C a c j ∧ j ≠ a := by
  unfold valid nxt at *
  split at h <;> omega

/-- `free_idx` after handing out one slot -/
theorem fi_nxt {C a c f : Nat} (ha : a < C) (hc2 : 2 ≤ c) (hc : c ≤ C)
    (h : f = if a + c < C then a + c else a + c - C) :
    f = if nxt C a + (c - 1) < C then nxt C a + (c - 1) else nxt C a + (c - 1) - C := by
  unfold nxt
  split at h <;> split <;> split <;> omega

/-- publishing one more slot: the new valid slot is the old `free_idx` -/
theorem valid_succ {C a c f j : Nat} (ha : a < C) (hc1 : 1 ≤ c) (hc : c < C) (hj : j < C)
    (hf : f = if a + c < C then a + c else a + c - C)
    (h : valid C a (c + 1) j) : valid C a c j ∨ j = f := by
  unfold valid at *
  split at hf <;> omega

theorem fi_succ {C a c f : Nat} (ha : a < C) (hc1 : 1 ≤ c) (hc : c < C)
    (hf : f = if a + c < C then a + c else a + c - C) :
    nxt C f = if a + (c + 1) < C then a + (c + 1) else a + (c + 1) - C := by
  unfold nxt
  split at hf <;> split <;> split <;> omega


theorem heldIdx_inA {p : Pc} {x : Nat} (h : heldIdx p = some x) : inA p = true := by
  cases p <;> simp_all [heldIdx, inA]

/-- `DataC` when only `cached_free_pos` changes -/
theorem DataC.frame_cf {k c : Nat} {s s' : St} (d : DataC k c s) (h1 : s'.cap = s.cap)
    (h2 : s'.g.double = s.g.double) (h3 : s'.spuriousNull = s.spuriousNull) (h4 : s'.g.owned = s.g.owned)
    (h5 : s'.loc = s.loc) (h6 : s'.allocIdx = s.allocIdx) (h7 : s'.freeIdx = s.freeIdx)
    (h8 : s'.cachedFree < s.cap ∧ dist s.cap s.allocIdx s'.cachedFree ≤ c) (h9 : s'.ptrs = s.ptrs) :
    DataC k c s' := by
  obtain ⟨d1, d2, d3, d4, d5, d6, d7, d8, d9, d10, d11, d12⟩ := d
  constructor
  · rw [h1]; exact d1
  · rw [h2]; exact d2
  · rw [h3]; exact d3
  · rw [h4, h5]; exact d4
  · rw [h1, h5]; exact d5
  · rw [poolCount_same h1 h5]; exact d6
  · rw [h1]; exact d7
  · rw [h1, h6]; exact d8
  · rw [h1, h6, h7]; exact d9
  · rw [h1, h6]; exact h8
  · rw [h1, h5, h6, h9]; exact d11
  · rw [h1, h6, h9]; exact d12

end MgProof.C05.Ts
