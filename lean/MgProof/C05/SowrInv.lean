import MgProof.C05.Lemmas
import MgModel.C05.SowrPool
/-! Invariant of the sowr-pool model (`MgModel.C05.Sowr.step`) for histories that are legal so
far (`illegal = 0`) and respect the pool's contract (`misuse = 0`: one allocating thread, one
freeing thread). Blocks are numbered by allocation serial; serial `σ` lives at position
`σ % cap`; everything allocated before the release frontier is free again. -/
namespace MgProof.C05.Sowr
open MgModel.Conc MgModel.C05 MgModel.C05.Sowr

/-! ## modular arithmetic -/

/-- two numbers less than `C` apart are congruent only if equal -/
theorem mod_window {C x y : Nat} (h1 : x ≤ y) (h2 : y < x + C) (h : x % C = y % C) : x = y := by
  have h0 : (y - x) % C = 0 := Nat.sub_mod_eq_zero_of_mod_eq h.symm
  have : (y - x) % C = y - x := Nat.mod_eq_of_lt (by omega)
  omega

theorem pow_dvd_u32 {k : Nat} (hk : k ≤ 32) : 2 ^ k ∣ u32 := by
  have : u32 = 2 ^ 32 := by decide
  rw [this]; exact Nat.pow_dvd_pow 2 hk

theorem u32_pred_mod {k : Nat} (hk : k ≤ 32) : (u32 - 1) % 2 ^ k = 2 ^ k - 1 := by
  obtain ⟨q, hq⟩ := pow_dvd_u32 hk
  have hpos : 1 ≤ 2 ^ k := Nat.one_le_two_pow
  cases q with
  | zero => simp [u32] at hq
  | succ q =>
    rw [Nat.mul_succ] at hq
    have : u32 - 1 = (2 ^ k - 1) + 2 ^ k * q := by omega
    rw [this, Nat.add_mul_mod_self_left]
    exact Nat.mod_eq_of_lt (by omega)

/-- advancing the free-running 32-bit index keeps it congruent to the allocation count -/
theorem idx_succ_mod {k a N : Nat} (hk : k ≤ 32) (h : a % 2 ^ k = N % 2 ^ k) :
    ((a + 1) % u32) % 2 ^ k = (N + 1) % 2 ^ k := by
  rw [Nat.mod_mod_of_dvd _ (pow_dvd_u32 hk), Nat.add_mod, h, ← Nat.add_mod]

/-- what the allocator computes from `free_idx`: the position before the returned frontier -/
theorem cached_of_free_idx {k f r : Nat} (hk : k ≤ 32)
    (h : (r = 0 ∧ f = 0) ∨ (1 ≤ r ∧ 1 ≤ f ∧ f ≤ 2 ^ k ∧ f - 1 = (r - 1) % 2 ^ k)) :
    ringIdx ((f + u32 - 1) % u32) (2 ^ k) = (r + 2 ^ k - 1) % 2 ^ k := by
  have hpos : 1 ≤ 2 ^ k := Nat.one_le_two_pow
  have hle : 2 ^ k ≤ u32 := Nat.le_of_dvd (by decide) (pow_dvd_u32 hk)
  rw [ringIdx_eq_mod]
  rcases h with ⟨hr, hf⟩ | ⟨hr, hf1, hf2, hf3⟩
  · subst hr; subst hf
    have h1 : (0 + u32 - 1) % u32 = u32 - 1 := Nat.mod_eq_of_lt (by simp [u32])
    rw [h1, u32_pred_mod hk]
    have : 0 + 2 ^ k - 1 = 2 ^ k - 1 := by omega
    rw [this]; exact (Nat.mod_eq_of_lt (by omega)).symm
  · have h1 : f + u32 - 1 = (f - 1) + u32 := by omega
    have h2 : r + 2 ^ k - 1 = (r - 1) + 2 ^ k := by omega
    rw [h1, Nat.add_mod_right, Nat.mod_eq_of_lt (by omega : f - 1 < u32), h2, Nat.add_mod_right,
      Nat.mod_eq_of_lt (by omega : f - 1 < 2 ^ k), hf3]

/-! ## the invariant -/

/-- serial numbers below the frontier have been released by the freeing thread -/
def frontier (s : St) : Nat :=
  match s.pc s.freeTid with
  | .sSt _ sb => sb + 1
  | _ => s.nRet

structure Core (k rc : Nat) (s : St) : Prop where
  cap : s.cap = 2 ^ k ∧ k ≤ 32
  dbl : s.g.double = 0
  spn : s.spuriousNull = 0
  pos : s.allocIdx % s.cap = s.g.nextSerial % s.cap
  own : ∀ b, s.g.owned b = true →
          b < s.cap ∧ s.g.serial b < s.g.nextSerial ∧ s.g.serial b % s.cap = b ∧ frontier s ≤ s.g.serial b
  fr  : ∀ t b sb, s.pc t = .sSt b sb →
          t = s.freeTid ∧ b < s.cap ∧ sb % s.cap = b ∧ s.nRet ≤ sb ∧ sb < s.g.nextSerial
  al  : ∀ t, s.pc t = .sLd → t = s.allocTid
  rc  : rc ≤ s.nRet ∧ s.cachedFree = (rc + s.cap - 1) % s.cap ∧ s.g.nextSerial ≤ rc + s.cap - 1
  rn  : s.nRet ≤ s.g.nextSerial
  fi  : (s.nRet = 0 ∧ s.freeIdx = 0) ∨
        (1 ≤ s.nRet ∧ 1 ≤ s.freeIdx ∧ s.freeIdx ≤ s.cap ∧ s.freeIdx - 1 = (s.nRet - 1) % s.cap)

def Legal (s : St) : Prop := s.g.illegal = 0 ∧ s.misuse = 0

def Inv (k : Nat) (s : St) : Prop := Legal s → ∃ rc, Core k rc s

theorem nextPc_cases (rest : List Op) : nextPc rest = .done ∨ nextPc rest = .idle := by
  unfold nextPc; split <;> simp

theorem frontier_le {k rc : Nat} {s : St} (c : Core k rc s) : frontier s ≤ s.g.nextSerial := by
  unfold frontier
  split
  · rename_i b sb h
    have := (c.fr _ b sb h).2.2.2.2; omega
  · exact c.rn

theorem nret_le_frontier {k rc : Nat} {s : St} (c : Core k rc s) : s.nRet ≤ frontier s := by
  unfold frontier
  split
  · rename_i b sb h
    have := (c.fr _ b sb h).2.2.2.1; omega
  · exact Nat.le_refl _

/-- the block at the allocation position is not owned -/
theorem next_not_owned {k rc : Nat} {s : St} (c : Core k rc s) :
    s.g.owned (s.g.nextSerial % s.cap) = false := by
  cases h : s.g.owned (s.g.nextSerial % s.cap) with
  | false => rfl
  | true =>
    exfalso
    obtain ⟨_, h2, h3, h4⟩ := c.own _ h
    have h5 := nret_le_frontier c
    obtain ⟨r1, _, r3⟩ := c.rc
    have hpos : 1 ≤ s.cap := by rw [c.cap.1]; exact Nat.one_le_two_pow
    have := mod_window (C := s.cap) (Nat.le_of_lt h2) (by omega) h3
    omega

def notSt : Pc → Prop
  | .sSt _ _ => False
  | _ => True

/-- moving a thread between program counters that are not inside `free` keeps the frontier -/
theorem frontier_upd {s s' : St} {t : Nat} {q : Pc} (h1 : s'.pc = upd s.pc t q) (h2 : s'.freeTid = s.freeTid)
    (h3 : s'.nRet = s.nRet) (hold : notSt (s.pc t)) (hnew : notSt q) : frontier s' = frontier s := by
  unfold frontier
  rw [h1, h2, h3]
  by_cases e : s.freeTid = t
  · subst e
    simp only [upd_same]
    cases q <;> simp [notSt] at hnew <;> cases hp : s.pc s.freeTid <;> simp [hp, notSt] at hold ⊢
  · simp [upd, e]

/-- a step that changes only the program counter of a thread outside `free` (and ghost lists) -/
theorem Core.frame {k rc : Nat} {s s' : St} {t : Nat} {q : Pc} (c : Core k rc s)
    (e1 : s'.cap = s.cap) (e2 : s'.g.double = s.g.double) (e3 : s'.spuriousNull = s.spuriousNull)
    (e4 : s'.allocIdx = s.allocIdx) (e5 : s'.g.nextSerial = s.g.nextSerial) (e6 : s'.g.owned = s.g.owned)
    (e7 : s'.g.serial = s.g.serial) (e8 : s'.pc = upd s.pc t q) (e9 : s'.freeTid = s.freeTid)
    (e10 : s'.allocTid = s.allocTid) (e11 : s'.nRet = s.nRet) (e12 : s'.cachedFree = s.cachedFree)
    (e13 : s'.freeIdx = s.freeIdx) (hold : notSt (s.pc t)) (hnew : notSt q)
    (hld : q = .sLd → t = s.allocTid) : Core k rc s' := by
  have hf := frontier_upd e8 e9 e11 hold hnew
  obtain ⟨c1, c2, c3, c4, c5, c6, c7, c8, c9, c10⟩ := c
  constructor
  · rw [e1]; exact c1
  · rw [e2]; exact c2
  · rw [e3]; exact c3
  · rw [e1, e4, e5]; exact c4
  · intro b hb; rw [e6] at hb; rw [e1, e7, e5, hf]; exact c5 b hb
  · intro t' b sb h
    rw [e8] at h
    by_cases e : t' = t
    · subst e; simp only [upd_same] at h; subst h; simp [notSt] at hnew
    · simp only [upd, e, if_false] at h
      rw [e9, e1, e11, e5]; exact c6 t' b sb h
  · intro t' h
    rw [e8] at h
    by_cases e : t' = t
    · subst e; simp only [upd_same] at h; rw [e10]; exact hld h
    · simp only [upd, e, if_false] at h; rw [e10]; exact c7 t' h
  · rw [e11, e12, e1, e5]; exact c8
  · rw [e11, e5]; exact c9
  · rw [e11, e13, e1]; exact c10
/-- a successful allocation: the block at position `nextSerial % cap` is handed out -/
theorem Core.alloc {k rc : Nat} {s s' : St} {t : Nat} {q : Pc} (c : Core k rc s)
    (hne : ringIdx s.allocIdx s.cap ≠ s.cachedFree)
    (e1 : s'.cap = s.cap)
    (e2 : s'.g.double = if s.g.owned (ringIdx s.allocIdx s.cap) then s.g.double + 1 else s.g.double)
    (e3 : s'.spuriousNull = s.spuriousNull)
    (e4 : s'.allocIdx = (s.allocIdx + 1) % u32) (e5 : s'.g.nextSerial = s.g.nextSerial + 1)
    (e6 : s'.g.owned = upd s.g.owned (ringIdx s.allocIdx s.cap) true)
    (e7 : s'.g.serial = upd s.g.serial (ringIdx s.allocIdx s.cap) s.g.nextSerial)
    (e8 : s'.pc = upd s.pc t q) (e9 : s'.freeTid = s.freeTid)
    (e10 : s'.allocTid = s.allocTid) (e11 : s'.nRet = s.nRet) (e12 : s'.cachedFree = s.cachedFree)
    (e13 : s'.freeIdx = s.freeIdx) (hold : notSt (s.pc t)) (hnew : q = .done ∨ q = .idle) :
    Core k rc s' := by
  have hnew' : notSt q := by rcases hnew with h | h <;> subst h <;> trivial
  have hf := frontier_upd e8 e9 e11 hold hnew'
  have hfl := frontier_le c
  have hno := next_not_owned c
  obtain ⟨⟨hcap, hk⟩, c2, c3, c4, c5, c6, c7, c8, c9, c10⟩ := c
  have hp : ringIdx s.allocIdx s.cap = s.g.nextSerial % s.cap := by
    rw [hcap, ringIdx_eq_mod, ← hcap]; exact c4
  rw [hp] at hne e2 e6 e7
  have hpos : 1 ≤ s.cap := by rw [hcap]; exact Nat.one_le_two_pow
  constructor
  · rw [e1]; exact ⟨hcap, hk⟩
  · rw [e2, hno]; simpa using c2
  · rw [e3]; exact c3
  · rw [e1, e4, e5, hcap]; rw [hcap] at c4; exact idx_succ_mod hk c4
  · intro b hb
    rw [e6] at hb
    rw [e1, e7, e5, hf]
    by_cases e : b = s.g.nextSerial % s.cap
    · subst e
      simp only [upd_same]
      exact ⟨Nat.mod_lt _ (by omega), by omega, by first | rfl | trivial, hfl⟩
    · simp only [upd, e, if_false] at hb ⊢
      obtain ⟨h1, h2, h3, h4⟩ := c5 b hb
      exact ⟨h1, by omega, h3, h4⟩
  · intro t' b sb h
    rw [e8] at h
    by_cases e : t' = t
    · subst e; simp only [upd_same] at h; subst h; simp [notSt] at hnew'
    · simp only [upd, e, if_false] at h
      rw [e9, e1, e11, e5]
      obtain ⟨h1, h2, h3, h4, h5⟩ := c6 t' b sb h
      exact ⟨h1, h2, h3, h4, by omega⟩
  · intro t' h
    rw [e8] at h
    by_cases e : t' = t
    · subst e; simp only [upd_same] at h; rcases hnew with h' | h' <;> (rw [h'] at h; cases h)
    · simp only [upd, e, if_false] at h; rw [e10]; exact c7 t' h
  · rw [e11, e12, e1, e5]
    obtain ⟨r1, r2, r3⟩ := c8
    refine ⟨r1, r2, ?_⟩
    have : s.g.nextSerial ≠ rc + s.cap - 1 := by
      intro e; apply hne; rw [r2, e]
    omega
  · rw [e11, e5]; omega
  · rw [e11, e13, e1]; exact c10
end MgProof.C05.Sowr
