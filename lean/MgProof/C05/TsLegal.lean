import MgProof.C05.ClientLegal
import MgProof.C05.TsStep
/-! With well-formed client programs (no `X` operation) the ts-pool model never sees an illegal
free: the hypothesis `illegal = 0` of the safety theorems is then a consequence, not an assumption. -/
namespace MgProof.C05.Ts
open MgModel.Conc MgModel.C05 MgModel.C05.Ts

structure WF (k : Nat) (s : St) : Prop where
  wf  : ∀ t op, op ∈ s.prog t → wellFormed op = true
  gi  : GInv s.g
  il  : s.g.illegal = 0
  inv : Inv k s

theorem wf_step {k : Nat} {s s' : St} {tok : Tok} {ev : List String} (w : WF k s)
    (hs : step s tok = some (s', ev)) : WF k s' := by
  have inv' := step_inv w.inv hs
  obtain ⟨hw, gi, hi, inv⟩ := w
  unfold step at hs
  simp only [] at hs
  split at hs
  · simp at hs
  split at hs
  · simp at hs
  · -- idle
    split at hs
    · simp at hs
    rename_i op rest hprog
    have hwop : wellFormed op = true := hw tok.tid op (by rw [hprog]; simp)
    have hwrest : ∀ t op', op' ∈ upd s.prog tok.tid rest t → wellFormed op' = true := by
      intro t op' h
      simp only [upd] at h
      split at h
      · rename_i e; subst e; exact hw _ op' (by rw [hprog]; simp [h])
      · exact hw t op' h
    split at hs
    · rename_i hnone
      injection hs with hs; injection hs with hs _; subst hs
      have := beginOp_not_free (g := s.g) (t := tok.tid) (cap := s.cap) (op := op) (by intro b; rw [hnone]; simp)
      exact ⟨hwrest, by show GInv (beginOp s.g tok.tid s.cap op).1; rw [this]; exact gi,
        by show (beginOp s.g tok.tid s.cap op).1.illegal = 0; rw [this]; exact hi, inv'⟩
    · rename_i pb halloc
      injection hs with hs; injection hs with hs _; subst hs
      have := beginOp_not_free (g := s.g) (t := tok.tid) (cap := s.cap) (op := op) (by intro b; rw [halloc]; simp)
      exact ⟨hwrest, by show GInv (beginOp s.g tok.tid s.cap op).1; rw [this]; exact gi,
        by show (beginOp s.g tok.tid s.cap op).1.illegal = 0; rw [this]; exact hi, inv'⟩
    · rename_i b hfree
      injection hs with hs; injection hs with hs _; subst hs
      have r := beginOp_free gi hwop hfree
      have bo := beginOp_owned s.g tok.tid s.cap op
      have bi := beginOp_illegal s.g tok.tid s.cap op
      have hob : (beginOp s.g tok.tid s.cap op).1.owned b = true := by rw [bo]; exact r.ob
      obtain ⟨-, -, f3, -, -⟩ := freeBegin_false_owned (g := (beginOp s.g tok.tid s.cap op).1) (t := tok.tid) hob
      exact ⟨hwrest, gi.after_free r bo,
        by show (freeBegin false (beginOp s.g tok.tid s.cap op).1 tok.tid b).1.illegal = 0; rw [f3, bi]; exact hi,
        inv'⟩
  all_goals (try (injection hs with hs; injection hs with hs _; subst hs; exact ⟨hw, gi, hi, inv'⟩))
  all_goals (try (split at hs <;>
    (first | (simp at hs; done) | (injection hs with hs; injection hs with hs _; subst hs; exact ⟨hw, gi, hi, inv'⟩))))
  · -- aRdCf2: NULL branches
    rename_i a seen hpc
    split at hs
    · injection hs with hs; injection hs with hs _; subst hs; exact ⟨hw, gi, hi, inv'⟩
    · split at hs <;> (try split at hs) <;>
        (injection hs with hs; injection hs with hs _; subst hs; exact ⟨hw, gi, hi, inv'⟩)
  · -- aUnlock: the allocation returns
    rename_i res hpc
    injection hs with hs; injection hs with hs _; subst hs
    cases res with
    | none => exact ⟨hw, gi, hi, inv'⟩
    | some b =>
      obtain ⟨c, d, p⟩ := inv hi
      have hloc := p.aul tok.tid b hpc
      have hnot : s.g.owned b = false := by
        cases h : s.g.owned b with
        | false => rfl
        | true => have := (d.own b).mp h; rw [hloc] at this; cases this
      obtain ⟨-, -, a3, -, -⟩ := allocDone_some s.g tok.tid (s.pub tok.tid) b
      exact ⟨hw, gi.after_alloc hnot, by
        show (allocDone s.g tok.tid (s.pub tok.tid) (some b)).1.illegal = 0
        rw [a3]; exact hi, inv'⟩

theorem wf_init (k n : Nat) (progs : List (List Op))
    (h : ∀ p, p ∈ progs → ∀ op, op ∈ p → wellFormed op = true) : WF k (mkInit (2 ^ k) n progs) := by
  refine ⟨?_, GInv.init, rfl, init_inv k n progs⟩
  intro t op hop
  have hop' : op ∈ progs.getD t [] := hop
  by_cases ht : t < progs.length
  · have : progs.getD t [] = progs[t] := by simp [List.getD, ht]
    rw [this] at hop'
    exact h _ (List.getElem_mem ht) op hop'
  · have : progs.getD t [] = [] := by
      have hle : progs.length ≤ t := Nat.le_of_not_lt ht
      simp [List.getD, hle]
    rw [this] at hop'; simp at hop'

theorem reach_wf {k n : Nat} {progs : List (List Op)}
    (h : ∀ p, p ∈ progs → ∀ op, op ∈ p → wellFormed op = true) {s : St}
    (hr : Reach step (mkInit (2 ^ k) n progs) s) : WF k s :=
  Reach.inv (WF k) (wf_init k n progs h) (fun _ _ _ _ w hs => wf_step w hs) s hr

end MgProof.C05.Ts
