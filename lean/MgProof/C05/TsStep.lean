import MgProof.C05.TsStepSimple
import MgProof.C05.TsStepA
import MgProof.C05.TsStepF
/-! The invariant of the repaired ts-pool model holds in every reachable state. -/
namespace MgProof.C05.Ts
open MgModel.Conc MgModel.C05 MgModel.C05.Ts

/-- the start of an operation: operand choice, ownership ends when `free` is called -/
theorem step_inv_idle {k : Nat} {s s' : St} {tok : Tok} {ev : List String} (inv : Inv k s)
    (hs : step s tok = some (s', ev)) (hpc : s.pc tok.tid = .idle) : Inv k s' := by
  unfold step at hs
  simp only [hpc] at hs
  split at hs
  · simp at hs
  split at hs
  · simp at hs
  rename_i op rest hprog
  have bo := beginOp_owned s.g tok.tid s.cap op
  have bd := beginOp_double s.g tok.tid s.cap op
  have bi := beginOp_illegal s.g tok.tid s.cap op
  obtain ⟨n1, n2, n3, n4, n5⟩ := nextPc_not rest
  split at hs
  · -- no operand
    injection hs with hs; injection hs with hs _; subst hs
    intro hl'
    have hl : Legal s := by unfold Legal at hl' ⊢; simp only [bi] at hl'; exact hl'
    obtain ⟨c, d, p⟩ := inv hl
    refine ⟨c, d.frame rfl bd rfl bo rfl rfl rfl rfl rfl, ?_⟩
    obtain ⟨⟩ := p
    constructor <;> grind [inA, inF, heldIdx, freeBlk, upd]
  · -- allocation
    injection hs with hs; injection hs with hs _; subst hs
    intro hl'
    have hl : Legal s := by unfold Legal at hl' ⊢; simp only [bi] at hl'; exact hl'
    obtain ⟨c, d, p⟩ := inv hl
    refine ⟨c, d.frame rfl bd rfl bo rfl rfl rfl rfl rfl, ?_⟩
    obtain ⟨⟩ := p
    constructor <;> grind [inA, inF, heldIdx, freeBlk, upd]
  · -- free
    rename_i b hb
    injection hs with hs; injection hs with hs _; subst hs
    intro hl'
    obtain ⟨ho, hi0⟩ := freeBegin_legal hl'
    obtain ⟨f1, f2, f3, -, -⟩ := freeBegin_false_owned (g := (beginOp s.g tok.tid s.cap op).1) (t := tok.tid) ho
    have hl : Legal s := by unfold Legal; rw [← bi]; exact hi0
    obtain ⟨c, d, p⟩ := inv hl
    have hloc : s.loc b = .client := (d.own b).mp (by rw [← bo]; exact ho)
    have hbl : b < s.cap := by
      apply Decidable.byContradiction; intro h
      have := d.big b (by omega); rw [hloc] at this; cases this
    simp only [ho, if_true]
    refine ⟨c, ?_, ?_⟩
    · constructor
      · exact d.cap
      · show (freeBegin false (beginOp s.g tok.tid s.cap op).1 tok.tid b).1.double = 0
        rw [f2, bd]; exact d.dbl
      · exact d.spn
      · intro b'
        show (freeBegin false (beginOp s.g tok.tid s.cap op).1 tok.tid b).1.owned b' = true ↔
          upd s.loc b (.freeing tok.tid) b' = .client
        rw [f1, bo]
        have := d.own b'
        simp only [upd]; split <;> simp_all
      · intro b' hb'
        have hb'' : s.cap ≤ b' := hb'
        have := d.big b' hb''
        simp only [upd]; split
        · rename_i e; subst e; omega
        · exact this
      · show c = poolCountOf s.cap (upd s.loc b (.freeing tok.tid))
        have := poolCountOf_upd s.cap s.loc b (.freeing tok.tid) hbl
        simp [hloc] at this
        have h2 := d.cnt
        rw [poolCount_eq] at h2
        omega
      · exact d.c1
      · exact d.ia
      · exact d.fi
      · exact d.icf
      · intro j hj hv
        obtain ⟨h1, h2⟩ := d.vl j hj hv
        refine ⟨?_, h2⟩
        have : s.ptrs j ≠ b := by intro e; rw [e, hloc] at h1; cases h1
        simp only [upd, this, if_false]; exact h1
      · exact d.inj
    · obtain ⟨⟩ := p
      constructor <;> grind [inA, inF, heldIdx, freeBlk, upd]

theorem step_inv {k : Nat} {s s' : St} {tok : Tok} {ev : List String} (inv : Inv k s)
    (hs : step s tok = some (s', ev)) : Inv k s' := by
  cases hpc : s.pc tok.tid with
  | idle => exact step_inv_idle inv hs hpc
  | aLock => exact step_inv_aLock inv hs hpc
  | aYield => exact step_inv_aYield inv hs hpc
  | aRdIdx => exact step_inv_aRdIdx inv hs hpc
  | aRdCf a => exact step_inv_aRdCf inv hs hpc
  | aLdFi a => exact step_inv_aLdFi inv hs hpc
  | aWrCf a f n => exact step_inv_aWrCf inv hs hpc
  | aRdCf2 a seen => exact step_inv_aRdCf2 inv hs hpc
  | aRdPtr a => exact step_inv_aRdPtr inv hs hpc
  | aWrIdx a b => exact step_inv_aWrIdx inv hs hpc
  | aUnlock res => exact step_inv_aUnlock inv hs hpc
  | fLock b => exact step_inv_fLock inv hs hpc
  | fYield b => exact step_inv_fYield inv hs hpc
  | fRdFi b => exact step_inv_fRdFi inv hs hpc
  | fWrPtr b f => exact step_inv_fWrPtr inv hs hpc
  | fRdFi2 b => exact step_inv_fRdFi2 inv hs hpc
  | fStFi b v => exact step_inv_fStFi inv hs hpc
  | fUnlock => exact step_inv_fUnlock inv hs hpc
  | done =>
    unfold step at hs; simp only [hpc] at hs
    split at hs <;> simp at hs

theorem poolCount_init (cap n : Nat) (progs : List (List Op)) : poolCount (mkInit cap n progs) = cap := by
  unfold poolCount mkInit
  simp

theorem init_inv (k n : Nat) (progs : List (List Op)) : Inv k (mkInit (2 ^ k) n progs) := by
  intro _
  have hpos : 1 ≤ 2 ^ k := Nat.one_le_two_pow
  have np : ∀ t, nextPc (progs.getD t []) = .done ∨ nextPc (progs.getD t []) = .idle := by
    intro t; unfold nextPc; split <;> simp
  refine ⟨2 ^ k, ?_, ?_⟩
  · constructor
    · rfl
    · rfl
    · rfl
    · intro b; simp [mkInit]
    · intro b _; rfl
    · exact (poolCount_init _ _ _).symm
    · exact ⟨hpos, Nat.le_refl _⟩
    · show 0 < 2 ^ k; omega
    · simp [mkInit]
    · refine ⟨by show 0 < 2 ^ k; omega, ?_⟩
      show dist (2 ^ k) 0 0 ≤ 2 ^ k
      unfold dist; simp
    · intro j hj _
      exact ⟨rfl, hj⟩
    · intro j j' _ _ _ _ e
      exact e
  · constructor <;> simp only [mkInit] <;> grind [inA, inF, heldIdx, freeBlk]

/-- every state reachable by any schedule satisfies the invariant -/
theorem reach_inv {k n : Nat} {progs : List (List Op)} {s : St}
    (hr : Reach step (mkInit (2 ^ k) n progs) s) : Inv k s :=
  Reach.inv (Inv k) (init_inv k n progs) (fun _ _ _ _ inv hs => step_inv inv hs) s hr

end MgProof.C05.Ts
