import MgProof.C05.ClientLegal
import MgProof.C05.RingInv
/-! With well-formed client programs and the spin-locked entry point the ring-pool model never
sees an illegal free or a breach of the threading contract. -/
namespace MgProof.C05.Ring
open MgModel.Conc MgModel.C05 MgModel.C05.Ring

structure WF (s : St) : Prop where
  wf  : ∀ t op, op ∈ s.prog t → wellFormed op = true
  gi  : GInv s.g
  il  : s.g.illegal = 0
  ms  : s.misuse = 0
  lk  : s.locked = true
  inv : Inv s

theorem finish_wf {s : St} {t b : Nat} {evs : List String} (hw : ∀ t op, op ∈ s.prog t → wellFormed op = true)
    (gi : GInv s.g) (hi : s.g.illegal = 0) (hm : s.misuse = 0) (hl : s.locked = true)
    (hnot : s.g.owned b = false) (inv' : Inv (finish s t b evs).1) : WF (finish s t b evs).1 := by
  obtain ⟨-, -, a3, -, -⟩ := allocDone_some s.g t (s.pub t) b
  unfold finish at inv' ⊢
  exact ⟨hw, gi.after_alloc hnot, by
    show (allocDone s.g t (s.pub t) (some b)).1.illegal = 0
    rw [a3]; exact hi, hm, hl, inv'⟩

theorem wf_step {s s' : St} {tok : Tok} {ev : List String} (w : WF s)
    (hs : step s tok = some (s', ev)) : WF s' := by
  have inv' := step_inv w.inv hs
  obtain ⟨hw, gi, hi, hm, hl, inv⟩ := w
  have core := inv ⟨hi, hm⟩
  unfold step at hs
  simp only [] at hs
  split at hs
  · simp at hs
  split at hs
  · simp at hs
  · -- idle
    split at hs
    · simp at hs
    rename_i op rest hprog
    have hwop : wellFormed op = true := hw tok.tid op (by rw [hprog]; simp)
    have hwrest : ∀ t op', op' ∈ upd s.prog tok.tid rest t → wellFormed op' = true := by
      intro t op' h
      simp only [upd] at h
      split at h
      · rename_i e; subst e; exact hw _ op' (by rw [hprog]; simp [h])
      · exact hw t op' h
    split at hs
    · rename_i hnone
      injection hs with hs; injection hs with hs _; subst hs
      have := beginOp_not_free (g := s.g) (t := tok.tid) (cap := s.cap) (op := op) (by intro b; rw [hnone]; simp)
      exact ⟨hwrest, by show GInv (beginOp s.g tok.tid s.cap op).1; rw [this]; exact gi,
        by show (beginOp s.g tok.tid s.cap op).1.illegal = 0; rw [this]; exact hi, hm, hl, inv'⟩
    · rename_i pb halloc
      injection hs with hs; injection hs with hs _; subst hs
      have := beginOp_not_free (g := s.g) (t := tok.tid) (cap := s.cap) (op := op) (by intro b; rw [halloc]; simp)
      exact ⟨hwrest, by show GInv (beginOp s.g tok.tid s.cap op).1; rw [this]; exact gi,
        by show (beginOp s.g tok.tid s.cap op).1.illegal = 0; rw [this]; exact hi,
        by show (if s.locked = true ∨ tok.tid = s.allocTid then s.misuse else s.misuse + 1) = 0
           simp [hl, hm], hl, inv'⟩
    · rename_i b hfree
      injection hs with hs; injection hs with hs _; subst hs
      have r := beginOp_free gi hwop hfree
      have bo := beginOp_owned s.g tok.tid s.cap op
      have bi := beginOp_illegal s.g tok.tid s.cap op
      have hob : (beginOp s.g tok.tid s.cap op).1.owned b = true := by rw [bo]; exact r.ob
      obtain ⟨-, -, f3, -, -⟩ := freeBegin_false_owned (g := (beginOp s.g tok.tid s.cap op).1) (t := tok.tid) hob
      exact ⟨hwrest, gi.after_free r bo,
        by show (freeBegin false (beginOp s.g tok.tid s.cap op).1 tok.tid b).1.illegal = 0; rw [f3, bi]; exact hi,
        hm, hl, inv'⟩
  all_goals (try (injection hs with hs; injection hs with hs _; subst hs; exact ⟨hw, gi, hi, hm, hl, inv'⟩))
  all_goals (try (rename_i hpcx; first
    | (split at hs <;> (injection hs with hs; injection hs with hs _; subst hs; exact ⟨hw, gi, hi, hm, hl, inv'⟩))
    | (split at hs
       · simp at hs
       split at hs <;> (injection hs with hs; injection hs with hs _; subst hs; exact ⟨hw, gi, hi, hm, hl, inv'⟩))))
  all_goals (try (rename_i hpcx; split at hs
                  · injection hs with hs; injection hs with hs _; subst hs; exact ⟨hw, gi, hi, hm, hl, inv'⟩
                  · rename_i hnl; exact absurd hl hnl))
  · -- rUnlock: the allocation returns
    rename_i blk hpc
    injection hs with hs
    have e1 := congrArg Prod.fst hs
    simp only at e1; subst e1
    have hloc := core.tk2 blk tok.tid hpc
    have hnot : s.g.owned blk = false := by
      cases h : s.g.owned blk with
      | false => rfl
      | true => have := (core.own blk).mp h; rw [hloc] at this; cases this
    exact finish_wf (s := { s with wlock := 0 }) hw gi hi hm hl hnot inv'

theorem wf_init (cap n : Nat) (progs : List (List Op))
    (h : ∀ p, p ∈ progs → ∀ op, op ∈ p → wellFormed op = true) : WF (mkInit cap n true progs) := by
  refine ⟨?_, GInv.init, rfl, rfl, rfl, init_inv cap n true progs⟩
  intro t op hop
  have hop' : op ∈ progs.getD t [] := hop
  by_cases ht : t < progs.length
  · have : progs.getD t [] = progs[t] := by simp [List.getD, ht]
    rw [this] at hop'
    exact h _ (List.getElem_mem ht) op hop'
  · have : progs.getD t [] = [] := by
      have hle : progs.length ≤ t := Nat.le_of_not_lt ht
      simp [List.getD, hle]
    rw [this] at hop'; simp at hop'

theorem reach_wf {cap n : Nat} {progs : List (List Op)}
    (h : ∀ p, p ∈ progs → ∀ op, op ∈ p → wellFormed op = true) {s : St}
    (hr : Reach step (mkInit cap n true progs) s) : WF s :=
  Reach.inv WF (wf_init cap n progs h) (fun _ _ _ _ w hs => wf_step w hs) s hr

end MgProof.C05.Ring
