import MgProof.C05.SowrInv
/-! Every step of the sowr-pool model preserves the invariant. -/
namespace MgProof.C05.Sowr
open MgModel.Conc MgModel.C05 MgModel.C05.Sowr


theorem frontier_idle {s : St} (h : s.pc s.freeTid = .done ∨ s.pc s.freeTid = .idle) :
    frontier s = s.nRet := by
  unfold frontier; rcases h with h | h <;> rw [h]

theorem step_inv_sSt {k : Nat} {s s' : St} {tok : Tok} {b sb : Nat} {ev : List String} (inv : Inv k s)
    (hs : step s tok = some (s', ev)) (hpc : s.pc tok.tid = .sSt b sb) : Inv k s' := by
  intro hl'
  unfold step at hs
  simp only [hpc] at hs
  split at hs
  · simp at hs
  injection hs with hs; injection hs with hs _; subst hs
  obtain ⟨rc, c⟩ := inv hl'
  obtain ⟨ht, hb, hsb, hn, hN⟩ := c.fr tok.tid b sb hpc
  have hfront : frontier s = sb + 1 := by unfold frontier; rw [← ht, hpc]
  have hmax : max s.nRet (sb + 1) = sb + 1 := by omega
  have hq := nextPc_cases (s.prog tok.tid)
  refine ⟨rc, ?_⟩
  obtain ⟨c1, c2, c3, c4, c5, c6, c7, c8, c9, c10⟩ := c
  constructor
  · exact c1
  · exact c2
  · exact c3
  · exact c4
  · intro b' hb'
    have := c5 b' hb'
    rw [hfront] at this
    rw [frontier_idle (by
      show upd s.pc tok.tid (nextPc (s.prog tok.tid)) s.freeTid = .done ∨
        upd s.pc tok.tid (nextPc (s.prog tok.tid)) s.freeTid = .idle
      rw [← ht, upd_same]; exact hq)]
    show _ ∧ _ ∧ _ ∧ max s.nRet (sb + 1) ≤ _
    rw [hmax]; exact this
  · intro t' b' sb' h
    by_cases e : t' = tok.tid
    · subst e; simp only [upd_same] at h
      rcases hq with h' | h' <;> (rw [h'] at h; cases h)
    · simp only [upd, e, if_false] at h
      have := (c6 t' b' sb' h).1
      exact absurd (this.trans ht.symm) e
  · intro t' h
    by_cases e : t' = tok.tid
    · subst e; simp only [upd_same] at h
      rcases hq with h' | h' <;> (rw [h'] at h; cases h)
    · simp only [upd, e, if_false] at h; exact c7 t' h
  · obtain ⟨r1, r2, r3⟩ := c8
    exact ⟨by show rc ≤ max s.nRet (sb + 1); omega, r2, r3⟩
  · show max s.nRet (sb + 1) ≤ s.g.nextSerial; omega
  · right
    show 1 ≤ max s.nRet (sb + 1) ∧ 1 ≤ b + 1 ∧ b + 1 ≤ s.cap ∧ b + 1 - 1 = (max s.nRet (sb + 1) - 1) % s.cap
    rw [hmax]
    refine ⟨by omega, by omega, by omega, ?_⟩
    have : sb + 1 - 1 = sb := by omega
    rw [this, hsb]; omega


/-- the allocator refreshes `cached_free_pos` from `free_idx` -/
theorem Core.recache {k rc : Nat} {s : St} (c : Core k rc s) (cf : Nat)
    (hcf : cf = ringIdx ((s.freeIdx + u32 - 1) % u32) s.cap) :
    Core k s.nRet { s with cachedFree := cf } := by
  obtain ⟨⟨hcap, hk⟩, c2, c3, c4, c5, c6, c7, ⟨r1, r2, r3⟩, c9, c10⟩ := c
  have h1 : cf = (s.nRet + s.cap - 1) % s.cap := by
    rw [hcf]
    rw [hcap] at c10 ⊢
    exact cached_of_free_idx hk c10
  have h2 : s.g.nextSerial ≤ s.nRet + s.cap - 1 := by omega
  exact ⟨⟨hcap, hk⟩, c2, c3, c4, c5, c6, c7, ⟨Nat.le_refl _, h1, h2⟩, c9, c10⟩

theorem legal_of_allocOk {s : St} {t : Nat} {rest : List Op} {evs : List String}
    (h : Legal (allocOk s t rest evs).1) : Legal s := by
  unfold allocOk at h
  obtain ⟨_, _, a3, _, _⟩ := allocDone_some s.g t (s.pub t) (ringIdx s.allocIdx s.cap)
  unfold Legal at h ⊢
  simp only [a3] at h
  exact h

theorem allocOk_core {k rc : Nat} {s : St} {t : Nat} {rest : List Op} {evs : List String} (c : Core k rc s)
    (hne : ringIdx s.allocIdx s.cap ≠ s.cachedFree) (hold : notSt (s.pc t)) :
    Core k rc (allocOk s t rest evs).1 := by
  obtain ⟨a1, a2, a3, a4, a5⟩ := allocDone_some s.g t (s.pub t) (ringIdx s.allocIdx s.cap)
  unfold allocOk
  exact c.alloc (t := t) (q := nextPc rest) hne rfl a2 rfl rfl a5 a1 a4 rfl rfl rfl rfl rfl rfl hold
    (nextPc_cases rest)

theorem step_inv_sLd {k : Nat} {s s' : St} {tok : Tok} {ev : List String} (inv : Inv k s)
    (hs : step s tok = some (s', ev)) (hpc : s.pc tok.tid = .sLd) : Inv k s' := by
  intro hl'
  unfold step at hs
  simp only [hpc] at hs
  split at hs
  · simp at hs
  split at hs
  · -- the block at the allocation position is free
    rename_i hne
    injection hs with hs
    have e1 := congrArg Prod.fst hs
    simp only at e1; subst e1
    have hl1 := legal_of_allocOk hl'
    have hl : Legal s := ⟨hl1.1, hl1.2⟩
    obtain ⟨rc, c⟩ := inv hl
    exact ⟨s.nRet, allocOk_core (c.recache _ rfl) hne (by show notSt (s.pc tok.tid); rw [hpc]; trivial)⟩
  · rename_i heq
    have heq' : ringIdx s.allocIdx s.cap = ringIdx ((s.freeIdx + u32 - 1) % u32) s.cap :=
      Decidable.of_not_not heq
    split at hs
    · -- NULL with cap - 1 blocks outstanding
      injection hs with hs; injection hs with hs _; subst hs
      have hl : Legal s := ⟨hl'.1, hl'.2⟩
      obtain ⟨rc, c⟩ := inv hl
      refine ⟨s.nRet, ?_⟩
      exact (c.recache _ rfl).frame (t := tok.tid) (q := nextPc (s.prog tok.tid)) rfl rfl rfl rfl rfl rfl rfl rfl rfl rfl
        rfl rfl rfl (by show notSt (s.pc tok.tid); rw [hpc]; trivial)
        (by rcases nextPc_cases (s.prog tok.tid) with h | h <;> rw [h] <;> trivial)
        (by intro h; rcases nextPc_cases (s.prog tok.tid) with h' | h' <;> (rw [h'] at h; cases h))
    · -- NULL with fewer blocks outstanding: impossible
      rename_i hcond
      exfalso
      injection hs with hs; injection hs with hs _; subst hs
      have hl : Legal s := ⟨hl'.1, hl'.2⟩
      obtain ⟨rc, c⟩ := inv hl
      apply hcond
      left
      obtain ⟨r1, r2, r3⟩ := (c.recache _ rfl).rc
      have r2' : ringIdx ((s.freeIdx + u32 - 1) % u32) s.cap = (s.nRet + s.cap - 1) % s.cap := r2
      have r3' : s.g.nextSerial ≤ s.nRet + s.cap - 1 := r3
      have hp : ringIdx s.allocIdx s.cap = s.g.nextSerial % s.cap := by
        rw [c.cap.1, ringIdx_eq_mod, ← c.cap.1]; exact c.pos
      have hpos : 1 ≤ s.cap := by rw [c.cap.1]; exact Nat.one_le_two_pow
      have hrn := c.rn
      have := mod_window (C := s.cap) (x := s.g.nextSerial) (y := s.nRet + s.cap - 1) r3' (by omega)
        (by rw [← hp, heq', r2'])
      omega
theorem upd_self {α : Type} {f : Nat → α} {t : Nat} {a : α} (h : f t = a) : upd f t a = f := by
  funext j; simp only [upd]; split
  · rename_i e; subst e; exact h.symm
  · rfl

/-- `free(b)` is called by the freeing thread: `b` and everything allocated before it is released -/
theorem Core.freeBegin {k rc : Nat} {s s' : St} {t b : Nat} (c : Core k rc s)
    (hpc : s.pc t = .idle) (ht : t = s.freeTid) (hob : s.g.owned b = true)
    (e1 : s'.cap = s.cap) (e2 : s'.g.double = s.g.double) (e3 : s'.spuriousNull = s.spuriousNull)
    (e4 : s'.allocIdx = s.allocIdx) (e5 : s'.g.nextSerial = s.g.nextSerial)
    (e6 : ∀ i, s'.g.owned i = (s.g.owned i && !(s.g.owned i && decide (s.g.serial i ≤ s.g.serial b))))
    (e7 : s'.g.serial = s.g.serial) (e8 : s'.pc = upd s.pc t (.sSt b (s.g.serial b))) (e9 : s'.freeTid = s.freeTid)
    (e10 : s'.allocTid = s.allocTid) (e11 : s'.nRet = s.nRet) (e12 : s'.cachedFree = s.cachedFree)
    (e13 : s'.freeIdx = s.freeIdx) : Core k rc s' := by
  have hf : frontier s = s.nRet := frontier_idle (by rw [← ht, hpc]; exact Or.inr rfl)
  have hf' : frontier s' = s.g.serial b + 1 := by
    unfold frontier; rw [e8, e9, ← ht, upd_same]
  obtain ⟨c1, c2, c3, c4, c5, c6, c7, c8, c9, c10⟩ := c
  obtain ⟨b1, b2, b3, b4⟩ := c5 b hob
  rw [hf] at b4
  constructor
  · rw [e1]; exact c1
  · rw [e2]; exact c2
  · rw [e3]; exact c3
  · rw [e1, e4, e5]; exact c4
  · intro i hi
    rw [e6] at hi
    have hoi : s.g.owned i = true := by
      cases h : s.g.owned i <;> simp [h] at hi ⊢
    have hgt : ¬ s.g.serial i ≤ s.g.serial b := by
      intro h; simp [hoi, h] at hi
    obtain ⟨h1, h2, h3, h4⟩ := c5 i hoi
    rw [e1, e7, e5, hf']
    exact ⟨h1, h2, h3, by omega⟩
  · intro t' b' sb' h
    rw [e8] at h
    by_cases e : t' = t
    · subst e
      simp only [upd_same] at h
      injection h with hb hsb
      subst hb; subst hsb
      rw [e9, e1, e11, e5]
      exact ⟨ht, b1, b3, b4, b2⟩
    · simp only [upd, e, if_false] at h
      have := (c6 t' b' sb' h).1
      exact absurd (this.trans ht.symm) e
  · intro t' h
    rw [e8] at h
    by_cases e : t' = t
    · subst e; simp only [upd_same] at h; cases h
    · simp only [upd, e, if_false] at h; rw [e10]; exact c7 t' h
  · rw [e11, e12, e1, e5]; exact c8
  · rw [e11, e5]; exact c9
  · rw [e11, e13, e1]; exact c10

theorem step_inv_idle {k : Nat} {s s' : St} {tok : Tok} {ev : List String} (inv : Inv k s)
    (hs : step s tok = some (s', ev)) (hpc : s.pc tok.tid = .idle) : Inv k s' := by
  unfold step at hs
  simp only [hpc] at hs
  split at hs
  · simp at hs
  split at hs
  · simp at hs
  rename_i op rest hprog
  have bo := beginOp_owned s.g tok.tid s.cap op
  have bd := beginOp_double s.g tok.tid s.cap op
  have bi := beginOp_illegal s.g tok.tid s.cap op
  have bs := beginOp_serial s.g tok.tid s.cap op
  have bn := beginOp_nextSerial s.g tok.tid s.cap op
  have hidle : notSt (s.pc tok.tid) := by rw [hpc]; trivial
  split at hs
  · -- no operand
    injection hs with hs; injection hs with hs _; subst hs
    intro hl'
    have hl : Legal s := ⟨by rw [← bi]; exact hl'.1, hl'.2⟩
    obtain ⟨rc, c⟩ := inv hl
    refine ⟨rc, c.frame (t := tok.tid) (q := nextPc rest) rfl bd rfl rfl bn bo bs rfl rfl rfl rfl rfl rfl hidle ?_ ?_⟩
    · rcases nextPc_cases rest with h | h <;> rw [h] <;> trivial
    · intro h; rcases nextPc_cases rest with h' | h' <;> (rw [h'] at h; cases h)
  · -- allocation
    rename_i pb hb
    split at hs
    · -- fast path: the position differs from the cached free position
      rename_i hne
      injection hs with hs
      have e1 := congrArg Prod.fst hs
      simp only at e1; subst e1
      intro hl'
      have hl2 := legal_of_allocOk hl'
      have hm : (if tok.tid = s.allocTid then s.misuse else s.misuse + 1) = 0 := hl2.2
      have hat : tok.tid = s.allocTid ∧ s.misuse = 0 := by
        split at hm
        · rename_i h; exact ⟨h, hm⟩
        · omega
      have hl : Legal s := ⟨by rw [← bi]; exact hl2.1, hat.2⟩
      obtain ⟨rc, c⟩ := inv hl
      refine ⟨rc, allocOk_core (c.frame (t := tok.tid) (q := .idle) rfl bd rfl rfl bn bo bs (upd_self hpc).symm
        rfl rfl rfl rfl rfl hidle trivial (by intro h; cases h)) hne hidle⟩
    · -- slow path: go and load free_idx
      injection hs with hs; injection hs with hs _; subst hs
      intro hl'
      have hm : (if tok.tid = s.allocTid then s.misuse else s.misuse + 1) = 0 := hl'.2
      have hat : tok.tid = s.allocTid ∧ s.misuse = 0 := by
        split at hm
        · rename_i h; exact ⟨h, hm⟩
        · omega
      have hl : Legal s := ⟨by rw [← bi]; exact hl'.1, hat.2⟩
      obtain ⟨rc, c⟩ := inv hl
      exact ⟨rc, c.frame (t := tok.tid) (q := .sLd) rfl bd rfl rfl bn bo bs rfl rfl rfl rfl rfl rfl hidle trivial
        (fun _ => hat.1)⟩
  · -- free
    rename_i b hb
    injection hs with hs; injection hs with hs _; subst hs
    intro hl'
    obtain ⟨ho, hi0⟩ := freeBegin_legal hl'.1
    obtain ⟨f1, f2, f3, f4, f5⟩ := freeBegin_true_owned (g := (beginOp s.g tok.tid s.cap op).1) (t := tok.tid) ho
    have hm : (if tok.tid = s.freeTid then s.misuse else s.misuse + 1) = 0 := hl'.2
    have hft : tok.tid = s.freeTid ∧ s.misuse = 0 := by
      split at hm
      · rename_i h; exact ⟨h, hm⟩
      · omega
    have hl : Legal s := ⟨by rw [← bi]; exact hi0, hft.2⟩
    obtain ⟨rc, c⟩ := inv hl
    refine ⟨rc, c.freeBegin (t := tok.tid) (b := b) hpc hft.1 (by rw [← bo]; exact ho) rfl ?_ rfl rfl ?_ ?_ ?_ ?_
      rfl rfl rfl rfl rfl⟩
    · show (freeBegin true (beginOp s.g tok.tid s.cap op).1 tok.tid b).1.double = s.g.double
      rw [f2, bd]
    · show (freeBegin true (beginOp s.g tok.tid s.cap op).1 tok.tid b).1.nextSerial = s.g.nextSerial
      rw [f5, bn]
    · intro i
      show (freeBegin true (beginOp s.g tok.tid s.cap op).1 tok.tid b).1.owned i = _
      rw [f1, bo, bs]
    · show (freeBegin true (beginOp s.g tok.tid s.cap op).1 tok.tid b).1.serial = s.g.serial
      rw [f4, bs]
    · show upd s.pc tok.tid (Pc.sSt b ((beginOp s.g tok.tid s.cap op).1.serial b)) = _
      rw [bs]

theorem step_inv {k : Nat} {s s' : St} {tok : Tok} {ev : List String} (inv : Inv k s)
    (hs : step s tok = some (s', ev)) : Inv k s' := by
  cases hpc : s.pc tok.tid with
  | idle => exact step_inv_idle inv hs hpc
  | sLd => exact step_inv_sLd inv hs hpc
  | sSt b sb => exact step_inv_sSt inv hs hpc
  | done =>
    unfold step at hs; simp only [hpc] at hs
    split at hs <;> simp at hs

theorem init_inv (k base n : Nat) (progs : List (List Op)) (hk : k ≤ 32) (hb : 2 ^ k ∣ base) :
    Inv k (mkInit (2 ^ k) base n progs) := by
  intro _
  have hpos : 1 ≤ 2 ^ k := Nat.one_le_two_pow
  have np : ∀ t, nextPc (progs.getD t []) = .done ∨ nextPc (progs.getD t []) = .idle :=
    fun t => nextPc_cases _
  refine ⟨0, ?_⟩
  constructor
  · exact ⟨rfl, hk⟩
  · rfl
  · rfl
  · show (base % u32) % 2 ^ k = 0 % 2 ^ k
    rw [Nat.mod_mod_of_dvd _ (pow_dvd_u32 hk), Nat.zero_mod]
    exact Nat.mod_eq_zero_of_dvd hb
  · intro b h; simp [mkInit] at h
  · intro t b sb h
    have h' : nextPc (progs.getD t []) = .sSt b sb := h
    rcases np t with e | e <;> (rw [e] at h'; cases h')
  · intro t h
    have h' : nextPc (progs.getD t []) = .sLd := h
    rcases np t with e | e <;> (rw [e] at h'; cases h')
  · refine ⟨Nat.le_refl _, ?_, ?_⟩
    · show 2 ^ k - 1 = (0 + 2 ^ k - 1) % 2 ^ k
      rw [Nat.zero_add]; exact (Nat.mod_eq_of_lt (by omega)).symm
    · show 0 ≤ 0 + 2 ^ k - 1; omega
  · exact Nat.le_refl _
  · exact Or.inl ⟨rfl, rfl⟩

/-- every state reachable by any schedule satisfies the invariant -/
theorem reach_inv {k base n : Nat} {progs : List (List Op)} (hk : k ≤ 32) (hb : 2 ^ k ∣ base) {s : St}
    (hr : Reach step (mkInit (2 ^ k) base n progs) s) : Inv k s :=
  Reach.inv (Inv k) (init_inv k base n progs hk hb) (fun _ _ _ _ inv hs => step_inv inv hs) s hr

end MgProof.C05.Sowr
