import MgProof.C05.TsInv
/-! Steps of the ts-pool model that move one thread (and possibly a lock word) but leave the
shared data alone. -/
namespace MgProof.C05.Ts
open MgModel.Conc MgModel.C05 MgModel.C05.Ts

theorem step_inv_aLock {k : Nat} {s s' : St} {tok : Tok} {ev : List String} (inv : Inv k s)
    (hs : step s tok = some (s', ev)) (hpc : s.pc tok.tid = .aLock) : Inv k s' := by
  intro hl'
  unfold step at hs
  simp only [hpc] at hs
  split at hs
  · simp at hs
  split at hs <;>
  (injection hs with hs; injection hs with hs _; subst hs
   obtain ⟨c, d, p⟩ := inv hl'
   skip
   refine ⟨c, d.frame rfl rfl rfl rfl rfl rfl rfl rfl rfl, ?_⟩
   obtain ⟨⟩ := p
   constructor <;> grind [inA, inF, heldIdx, freeBlk, upd])

theorem step_inv_aYield {k : Nat} {s s' : St} {tok : Tok} {ev : List String} (inv : Inv k s)
    (hs : step s tok = some (s', ev)) (hpc : s.pc tok.tid = .aYield) : Inv k s' := by
  intro hl'
  unfold step at hs
  simp only [hpc] at hs
  split at hs
  · simp at hs
  (injection hs with hs; injection hs with hs _; subst hs
   obtain ⟨c, d, p⟩ := inv hl'
   skip
   refine ⟨c, d.frame rfl rfl rfl rfl rfl rfl rfl rfl rfl, ?_⟩
   obtain ⟨⟩ := p
   constructor <;> grind [inA, inF, heldIdx, freeBlk, upd])

theorem step_inv_aRdIdx {k : Nat} {s s' : St} {tok : Tok} {ev : List String} (inv : Inv k s)
    (hs : step s tok = some (s', ev)) (hpc : s.pc tok.tid = .aRdIdx) : Inv k s' := by
  intro hl'
  unfold step at hs
  simp only [hpc] at hs
  split at hs
  · simp at hs
  (injection hs with hs; injection hs with hs _; subst hs
   obtain ⟨c, d, p⟩ := inv hl'
   skip
   refine ⟨c, d.frame rfl rfl rfl rfl rfl rfl rfl rfl rfl, ?_⟩
   obtain ⟨⟩ := p
   constructor <;> grind [inA, inF, heldIdx, freeBlk, upd])

theorem step_inv_aRdCf {k : Nat} {s s' : St} {tok : Tok} {x : Nat} {ev : List String} (inv : Inv k s)
    (hs : step s tok = some (s', ev)) (hpc : s.pc tok.tid = .aRdCf x) : Inv k s' := by
  intro hl'
  unfold step at hs
  simp only [hpc] at hs
  split at hs
  · simp at hs
  split at hs <;>
  (injection hs with hs; injection hs with hs _; subst hs
   obtain ⟨c, d, p⟩ := inv hl'
   have hx : x = s.allocIdx := p.aix tok.tid x (by rw [hpc]; rfl)
   subst hx
   have hn := ringIdx_nxt d.cap d.ia
   refine ⟨c, d.frame rfl rfl rfl rfl rfl rfl rfl rfl rfl, ?_⟩
   obtain ⟨⟩ := p
   constructor <;> grind [inA, inF, heldIdx, freeBlk, upd])

theorem step_inv_aRdPtr {k : Nat} {s s' : St} {tok : Tok} {x : Nat} {ev : List String} (inv : Inv k s)
    (hs : step s tok = some (s', ev)) (hpc : s.pc tok.tid = .aRdPtr x) : Inv k s' := by
  intro hl'
  unfold step at hs
  simp only [hpc] at hs
  split at hs
  · simp at hs
  split at hs
  · simp at hs
  (injection hs with hs; injection hs with hs _; subst hs
   obtain ⟨c, d, p⟩ := inv hl'
   have hx : x = s.allocIdx := p.aix tok.tid x (by rw [hpc]; rfl)
   subst hx
   refine ⟨c, d.frame rfl rfl rfl rfl rfl rfl rfl rfl rfl, ?_⟩
   obtain ⟨⟩ := p
   constructor <;> grind [inA, inF, heldIdx, freeBlk, upd])

theorem step_inv_fLock {k : Nat} {s s' : St} {tok : Tok} {b : Nat} {ev : List String} (inv : Inv k s)
    (hs : step s tok = some (s', ev)) (hpc : s.pc tok.tid = .fLock b) : Inv k s' := by
  intro hl'
  unfold step at hs
  simp only [hpc] at hs
  split at hs
  · simp at hs
  split at hs <;>
  (injection hs with hs; injection hs with hs _; subst hs
   obtain ⟨c, d, p⟩ := inv hl'
   skip
   refine ⟨c, d.frame rfl rfl rfl rfl rfl rfl rfl rfl rfl, ?_⟩
   obtain ⟨⟩ := p
   constructor <;> grind [inA, inF, heldIdx, freeBlk, upd])

theorem step_inv_fYield {k : Nat} {s s' : St} {tok : Tok} {b : Nat} {ev : List String} (inv : Inv k s)
    (hs : step s tok = some (s', ev)) (hpc : s.pc tok.tid = .fYield b) : Inv k s' := by
  intro hl'
  unfold step at hs
  simp only [hpc] at hs
  split at hs
  · simp at hs
  (injection hs with hs; injection hs with hs _; subst hs
   obtain ⟨c, d, p⟩ := inv hl'
   skip
   refine ⟨c, d.frame rfl rfl rfl rfl rfl rfl rfl rfl rfl, ?_⟩
   obtain ⟨⟩ := p
   constructor <;> grind [inA, inF, heldIdx, freeBlk, upd])

theorem step_inv_fRdFi {k : Nat} {s s' : St} {tok : Tok} {b : Nat} {ev : List String} (inv : Inv k s)
    (hs : step s tok = some (s', ev)) (hpc : s.pc tok.tid = .fRdFi b) : Inv k s' := by
  intro hl'
  unfold step at hs
  simp only [hpc] at hs
  split at hs
  · simp at hs
  (injection hs with hs; injection hs with hs _; subst hs
   obtain ⟨c, d, p⟩ := inv hl'
   skip
   refine ⟨c, d.frame rfl rfl rfl rfl rfl rfl rfl rfl rfl, ?_⟩
   obtain ⟨⟩ := p
   constructor <;> grind [inA, inF, heldIdx, freeBlk, upd])

end MgProof.C05.Ts
