import MgProof.C05.TsInv
namespace MgProof.C05.Ts
open MgModel.Conc MgModel.C05 MgModel.C05.Ts

theorem step_inv_aLdFi {k : Nat} {s s' : St} {tok : Tok} {x : Nat} {ev : List String} (inv : Inv k s)
    (hs : step s tok = some (s', ev)) (hpc : s.pc tok.tid = .aLdFi x) : Inv k s' := by
  intro hl'
  unfold step at hs
  simp only [hpc] at hs
  split at hs
  · simp at hs
  injection hs with hs; injection hs with hs _; subst hs
  obtain ⟨c, d, p⟩ := inv hl'
  have h1 := d.fi_lt; have h2 := d.dist_fi; have h3 := d.cnt
  refine ⟨c, d.frame rfl rfl rfl rfl rfl rfl rfl rfl rfl, ?_⟩
  obtain ⟨⟩ := p
  constructor <;> grind [inA, inF, heldIdx, freeBlk, upd]

theorem step_inv_aWrCf {k : Nat} {s s' : St} {tok : Tok} {x f0 n : Nat} {ev : List String} (inv : Inv k s)
    (hs : step s tok = some (s', ev)) (hpc : s.pc tok.tid = .aWrCf x f0 n) : Inv k s' := by
  intro hl'
  unfold step at hs
  simp only [hpc] at hs
  split at hs
  · simp at hs
  injection hs with hs; injection hs with hs _; subst hs
  obtain ⟨c, d, p⟩ := inv hl'
  obtain ⟨w1, w2, w3⟩ := p.awc tok.tid x f0 n hpc
  refine ⟨c, d.frame_cf rfl rfl rfl rfl rfl rfl rfl ⟨w1, w2⟩ rfl, ?_⟩
  obtain ⟨⟩ := p
  constructor <;> grind [inA, inF, heldIdx, freeBlk, upd]

theorem step_inv_aRdCf2 {k : Nat} {s s' : St} {tok : Tok} {x : Nat} {seen : Option Nat} {ev : List String}
    (inv : Inv k s) (hs : step s tok = some (s', ev)) (hpc : s.pc tok.tid = .aRdCf2 x seen) : Inv k s' := by
  intro hl'
  unfold step at hs
  simp only [hpc] at hs
  split at hs
  · simp at hs
  split at hs
  · -- proceed
    injection hs with hs; injection hs with hs _; subst hs
    obtain ⟨c, d, p⟩ := inv hl'
    have hx : x = s.allocIdx := p.aix tok.tid x (by rw [hpc]; rfl)
    subst hx
    have hn := ringIdx_nxt d.cap d.ia
    refine ⟨c, d.frame rfl rfl rfl rfl rfl rfl rfl rfl rfl, ?_⟩
    obtain ⟨⟩ := p
    constructor <;> grind [inA, inF, heldIdx, freeBlk, upd]
  · rename_i hne
    cases seen with
    | none =>
      -- the fast path never sees `pos == cached_free_pos` again
      exfalso
      have hl : Legal s := by
        simp only [] at hs
        split at hs <;> (injection hs with hs; injection hs with hs _; subst hs; exact hl')
      obtain ⟨c, d, p⟩ := inv hl
      have hx : x = s.allocIdx := p.aix tok.tid x (by rw [hpc]; rfl)
      subst hx
      have hn := ringIdx_nxt d.cap d.ia
      have hcf : nxt s.cap s.allocIdx = s.cachedFree := by
        rw [← hn]; exact Decidable.of_not_not hne
      exact absurd hcf (p.ar2n tok.tid _ hpc)
    | some m =>
      simp only [] at hs
      split at hs
      · -- NULL, legitimately
        injection hs with hs; injection hs with hs _; subst hs
        obtain ⟨c, d, p⟩ := inv hl'
        refine ⟨c, d.frame rfl rfl rfl rfl rfl rfl rfl rfl rfl, ?_⟩
        obtain ⟨⟩ := p
        constructor <;> grind [inA, inF, heldIdx, freeBlk, upd]
      · -- NULL with more than the slack block in the pool: impossible
        rename_i hleg
        exfalso
        injection hs with hs; injection hs with hs _; subst hs
        have hl : Legal s := hl'
        obtain ⟨c, d, p⟩ := inv hl
        have hx : x = s.allocIdx := p.aix tok.tid x (by rw [hpc]; rfl)
        subst hx
        have hn := ringIdx_nxt d.cap d.ia
        have hcf : nxt s.cap s.allocIdx = s.cachedFree := by
          rw [← hn]; exact Decidable.of_not_not hne
        apply hleg
        have := p.ar2s tok.tid _ m hpc
        rw [← hcf, dist_nxt d.ia] at this
        subst this
        simp
/-- the commit of an allocation: `alloc_idx` advances, the block leaves the pool -/
theorem step_inv_aWrIdx {k : Nat} {s s' : St} {tok : Tok} {x b : Nat} {ev : List String} (inv : Inv k s)
    (hs : step s tok = some (s', ev)) (hpc : s.pc tok.tid = .aWrIdx x b) : Inv k s' := by
  intro hl'
  unfold step at hs
  simp only [hpc] at hs
  split at hs
  · simp at hs
  injection hs with hs; injection hs with hs _; subst hs
  obtain ⟨c, d, p⟩ := inv hl'
  have hx : x = s.allocIdx := p.aix tok.tid x (by rw [hpc]; rfl)
  subst hx
  have hn := ringIdx_nxt d.cap d.ia
  obtain ⟨hcf, hb⟩ := p.awi tok.tid _ b hpc
  subst hb
  obtain ⟨hbp, hbl⟩ := d.vl s.allocIdx d.ia d.ai_valid
  have hia := d.ia
  obtain ⟨hc1, hcC⟩ := d.c1
  obtain ⟨hcfl, hcfd⟩ := d.icf
  have hc2 : 2 ≤ c := by
    have h1 := dist_pos (C := s.cap) (x := s.cachedFree) hia
    have h2 : dist s.cap s.allocIdx s.cachedFree ≠ 1 := fun h => hcf (dist_eq_one hia hcfl h).symm
    omega
  rw [hn]
  refine ⟨c - 1, ?_, ?_⟩
  · constructor
    · exact d.cap
    · exact d.dbl
    · exact d.spn
    · intro b'
      have := d.own b'
      simp only [upd]; split
      · rename_i e; subst e; simp [hbp] at this ⊢; exact this
      · exact this
    · intro b' hb'
      have hb'' : s.cap ≤ b' := hb'
      have := d.big b' hb''
      simp only [upd]; split
      · rename_i e; subst e; omega
      · exact this
    · show c - 1 = poolCountOf s.cap (upd s.loc (s.ptrs s.allocIdx) (.taken tok.tid))
      have := poolCountOf_upd s.cap s.loc (s.ptrs s.allocIdx) (.taken tok.tid) hbl
      simp [hbp] at this
      have h2 := d.cnt
      rw [poolCount_eq] at h2
      omega
    · show 1 ≤ c - 1 ∧ c - 1 ≤ s.cap; omega
    · exact nxt_lt hia
    · exact fi_nxt hia hc2 hcC d.fi
    · refine ⟨hcfl, ?_⟩
      have := dist_nxt_step hia hcfl (Ne.symm hcf)
      show dist s.cap (nxt s.cap s.allocIdx) s.cachedFree ≤ c - 1
      omega
    · intro j hj hv
      obtain ⟨hv', hne⟩ := valid_nxt hia hc1 hcC hj hv
      obtain ⟨h1, h2⟩ := d.vl j hj hv'
      refine ⟨?_, h2⟩
      have : s.ptrs j ≠ s.ptrs s.allocIdx := fun e => hne (d.inj j s.allocIdx hj hia hv' d.ai_valid e)
      simp only [upd, this, if_false]; exact h1
    · intro j j' hj hj' hv hv' e
      exact d.inj j j' hj hj' (valid_nxt hia hc1 hcC hj hv).1 (valid_nxt hia hc1 hcC hj' hv').1 e
  · have hA := @heldIdx_inA
    obtain ⟨⟩ := p
    constructor <;> grind [inA, inF, heldIdx, freeBlk, upd]
/-- the allocation returns: the lock is released, the client owns the block -/
theorem step_inv_aUnlock {k : Nat} {s s' : St} {tok : Tok} {res : Option Nat} {ev : List String} (inv : Inv k s)
    (hs : step s tok = some (s', ev)) (hpc : s.pc tok.tid = .aUnlock res) : Inv k s' := by
  intro hl'
  unfold step at hs
  simp only [hpc] at hs
  split at hs
  · simp at hs
  injection hs with hs; injection hs with hs _; subst hs
  obtain ⟨n1, n2, n3, n4, n5⟩ := nextPc_not (s.prog tok.tid)
  cases res with
  | none =>
    obtain ⟨c, d, p⟩ := inv hl'
    refine ⟨c, d.frame rfl rfl rfl rfl rfl rfl rfl rfl rfl, ?_⟩
    obtain ⟨⟩ := p
    constructor <;> grind [inA, inF, heldIdx, freeBlk, upd]
  | some b =>
    obtain ⟨a1, a2, a3, -, -⟩ := allocDone_some s.g tok.tid (s.pub tok.tid) b
    have hl : Legal s := by
      unfold Legal at hl' ⊢; simp only [a3] at hl'; exact hl'
    obtain ⟨c, d, p⟩ := inv hl
    have hloc := p.aul tok.tid b hpc
    have hnot : s.g.owned b = false := by
      cases h : s.g.owned b with
      | false => rfl
      | true => have := (d.own b).mp h; rw [hloc] at this; cases this
    have hbl : b < s.cap := by
      apply Decidable.byContradiction; intro h
      have := d.big b (by omega); rw [hloc] at this; cases this
    refine ⟨c, ?_, ?_⟩
    · constructor
      · exact d.cap
      · show (allocDone s.g tok.tid (s.pub tok.tid) (some b)).1.double = 0
        rw [a2, hnot]; simpa using d.dbl
      · exact d.spn
      · intro b'
        show (allocDone s.g tok.tid (s.pub tok.tid) (some b)).1.owned b' = true ↔ upd s.loc b .client b' = .client
        rw [a1]
        have := d.own b'
        simp only [upd]; split <;> simp_all
      · intro b' hb'
        have hb'' : s.cap ≤ b' := hb'
        have := d.big b' hb''
        simp only [upd]; split
        · rename_i e; subst e; omega
        · exact this
      · show c = poolCountOf s.cap (upd s.loc b .client)
        have := poolCountOf_upd s.cap s.loc b .client hbl
        simp [hloc] at this
        have h2 := d.cnt
        rw [poolCount_eq] at h2
        omega
      · exact d.c1
      · exact d.ia
      · exact d.fi
      · exact d.icf
      · intro j hj hv
        obtain ⟨h1, h2⟩ := d.vl j hj hv
        refine ⟨?_, h2⟩
        have : s.ptrs j ≠ b := by intro e; rw [e, hloc] at h1; cases h1
        simp only [upd, this, if_false]; exact h1
      · exact d.inj
    · obtain ⟨⟩ := p
      constructor <;> grind [inA, inF, heldIdx, freeBlk, upd]
end MgProof.C05.Ts
