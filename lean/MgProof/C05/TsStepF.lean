import MgProof.C05.TsInv
/-! Steps of `muggle_ts_memory_pool_free` in the ts-pool model. -/
namespace MgProof.C05.Ts
open MgModel.Conc MgModel.C05 MgModel.C05.Ts

/-- a thread that is giving block `b` back proves the ring is not full -/
theorem not_full {k c : Nat} {s : St} {t b : Nat} (d : DataC k c s) (p : PcC c s)
    (h : freeBlk (s.pc t) = some b) : b < s.cap ∧ c < s.cap := by
  have hloc := p.ffr t b h
  have hbl : b < s.cap := by
    apply Decidable.byContradiction; intro hh
    have := d.big b (by omega); rw [hloc] at this; cases this
  refine ⟨hbl, ?_⟩
  have := poolCount_lt hbl (by rw [hloc]; simp)
  rw [← d.cnt] at this; exact this

/-- the freed pointer is written into the slot at `free_idx`, which is not a valid slot -/
theorem step_inv_fWrPtr {k : Nat} {s s' : St} {tok : Tok} {b f0 : Nat} {ev : List String} (inv : Inv k s)
    (hs : step s tok = some (s', ev)) (hpc : s.pc tok.tid = .fWrPtr b f0) : Inv k s' := by
  intro hl'
  unfold step at hs
  simp only [hpc] at hs
  split at hs
  · simp at hs
  split at hs
  · simp at hs
  injection hs with hs; injection hs with hs _; subst hs
  obtain ⟨c, d, p⟩ := inv hl'
  have hf : f0 = s.freeIdx := p.fwp tok.tid b f0 hpc
  subst hf
  obtain ⟨hbl, hcl⟩ := not_full d p (t := tok.tid) (b := b) (by rw [hpc]; rfl)
  have hinv := d.fi_invalid hcl
  have hav := d.ai_valid
  have hne : s.allocIdx ≠ s.freeIdx := fun e => hinv (e ▸ hav)
  refine ⟨c, ?_, ?_⟩
  · constructor
    · exact d.cap
    · exact d.dbl
    · exact d.spn
    · exact d.own
    · exact d.big
    · exact d.cnt
    · exact d.c1
    · exact d.ia
    · exact d.fi
    · exact d.icf
    · intro j hj hv
      have : j ≠ s.freeIdx := fun e => hinv (e ▸ hv)
      simp only [upd, this, if_false]
      exact d.vl j hj hv
    · intro j j' hj hj' hv hv'
      have h1 : j ≠ s.freeIdx := fun e => hinv (e ▸ hv)
      have h2 : j' ≠ s.freeIdx := fun e => hinv (e ▸ hv')
      simp only [upd, h1, h2, if_false]
      exact d.inj j j' hj hj' hv hv'
  · obtain ⟨⟩ := p
    constructor <;> grind [inA, inF, heldIdx, freeBlk, upd]

theorem step_inv_fRdFi2 {k : Nat} {s s' : St} {tok : Tok} {b : Nat} {ev : List String} (inv : Inv k s)
    (hs : step s tok = some (s', ev)) (hpc : s.pc tok.tid = .fRdFi2 b) : Inv k s' := by
  intro hl'
  unfold step at hs
  simp only [hpc] at hs
  split at hs
  · simp at hs
  injection hs with hs; injection hs with hs _; subst hs
  obtain ⟨c, d, p⟩ := inv hl'
  have hn := ringIdx_nxt d.cap d.fi_lt
  refine ⟨c, d.frame rfl rfl rfl rfl rfl rfl rfl rfl rfl, ?_⟩
  obtain ⟨⟩ := p
  constructor <;> grind [inA, inF, heldIdx, freeBlk, upd]

theorem step_inv_fUnlock {k : Nat} {s s' : St} {tok : Tok} {ev : List String} (inv : Inv k s)
    (hs : step s tok = some (s', ev)) (hpc : s.pc tok.tid = .fUnlock) : Inv k s' := by
  intro hl'
  unfold step at hs
  simp only [hpc] at hs
  split at hs
  · simp at hs
  injection hs with hs; injection hs with hs _; subst hs
  obtain ⟨n1, n2, n3, n4, n5⟩ := nextPc_not (s.prog tok.tid)
  obtain ⟨c, d, p⟩ := inv hl'
  refine ⟨c, d.frame rfl rfl rfl rfl rfl rfl rfl rfl rfl, ?_⟩
  obtain ⟨⟩ := p
  constructor <;> grind [inA, inF, heldIdx, freeBlk, upd]
/-- the freed block is published: `free_idx` advances (release), the block is in the pool again -/
theorem step_inv_fStFi {k : Nat} {s s' : St} {tok : Tok} {b v : Nat} {ev : List String} (inv : Inv k s)
    (hs : step s tok = some (s', ev)) (hpc : s.pc tok.tid = .fStFi b v) : Inv k s' := by
  intro hl'
  unfold step at hs
  simp only [hpc] at hs
  split at hs
  · simp at hs
  injection hs with hs; injection hs with hs _; subst hs
  obtain ⟨c, d, p⟩ := inv hl'
  obtain ⟨hptr, hv⟩ := p.fst tok.tid b v hpc
  subst hv
  have hloc := p.ffr tok.tid b (by rw [hpc]; rfl)
  obtain ⟨hbl, hcl⟩ := not_full d p (t := tok.tid) (b := b) (by rw [hpc]; rfl)
  have hia := d.ia
  obtain ⟨hc1, hcC⟩ := d.c1
  have hfl := d.fi_lt
  have hinv := d.fi_invalid hcl
  refine ⟨c + 1, ?_, ?_⟩
  · constructor
    · exact d.cap
    · exact d.dbl
    · exact d.spn
    · intro b'
      have := d.own b'
      simp only [upd]; split
      · rename_i e; subst e; simp [hloc] at this ⊢; exact this
      · exact this
    · intro b' hb'
      have hb'' : s.cap ≤ b' := hb'
      have := d.big b' hb''
      simp only [upd]; split
      · rfl
      · exact this
    · show c + 1 = poolCountOf s.cap (upd s.loc b .pool)
      have := poolCountOf_upd s.cap s.loc b .pool hbl
      simp [hloc] at this
      have h2 := d.cnt
      rw [poolCount_eq] at h2
      omega
    · show 1 ≤ c + 1 ∧ c + 1 ≤ s.cap; omega
    · exact d.ia
    · exact fi_succ hia hc1 hcl d.fi
    · obtain ⟨h1, h2⟩ := d.icf
      refine ⟨h1, ?_⟩
      show dist s.cap s.allocIdx s.cachedFree ≤ c + 1
      omega
    · intro j hj hv
      rcases valid_succ hia hc1 hcl hj d.fi hv with hv' | hjf
      · obtain ⟨h1, h2⟩ := d.vl j hj hv'
        refine ⟨?_, h2⟩
        simp only [upd]; split
        · rfl
        · exact h1
      · subst hjf
        show upd s.loc b .pool (s.ptrs s.freeIdx) = .pool ∧ s.ptrs s.freeIdx < s.cap
        rw [hptr]; simp [upd, hbl]
    · intro j j' hj hj' hv hv' e
      have e' : s.ptrs j = s.ptrs j' := e
      have key : ∀ i, i < s.cap → valid s.cap s.allocIdx c i → s.ptrs i ≠ b := by
        intro i hi hvi h
        have := (d.vl i hi hvi).1; rw [h, hloc] at this; cases this
      rcases valid_succ hia hc1 hcl hj d.fi hv with h1 | h1 <;>
        rcases valid_succ hia hc1 hcl hj' d.fi hv' with h2 | h2
      · exact d.inj j j' hj hj' h1 h2 e'
      · subst h2; rw [hptr] at e'; exact absurd e' (key j hj h1)
      · subst h1; rw [hptr] at e'; exact absurd e'.symm (key j' hj' h2)
      · rw [h1, h2]
  · have hA := @heldIdx_inA
    obtain ⟨⟩ := p
    constructor <;> grind [inA, inF, heldIdx, freeBlk, upd]
end MgProof.C05.Ts
