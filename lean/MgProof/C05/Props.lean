import MgProof.C05.TsStep
import MgProof.C05.TsLegal
import MgProof.C05.RingInv
import MgProof.C05.RingLegal
import MgProof.C05.SowrStep
import MgModel.C05.TsOrig
/-!
# C05 — concurrent memory pools never hand out a block that is still owned

Property theorems. All of them quantify over every schedule of every length
(`Conc.Reach step init s`: `s` is reachable from the initial state by some sequence of
steps, one step = one shared-memory access of one thread), every number of threads and
every client program (lists of `a p f g t u x X` operations, see `MgModel.C05.Client`).
Legal histories are recognised by ghost monitors of the models: `illegal = 0` (no free of a
block the caller does not own), `misuse = 0` (the pool's threading contract was respected).
`double` counts allocations that returned a block that was owned at that moment.
-/
namespace MgProof.C05
open MgModel.Conc MgModel.C05

/-! ## thread-safe pool (repaired algorithm, `fixes/C05-ts-pool-alloc-lock.patch`) -/

/-- **Clause 1, ts pool.** For every capacity `2^k`, every number of threads, every client
program and every schedule: as long as the history is legal, no allocation has returned a
block that was still owned (between the return of an allocation and the call of `free`). -/
theorem ts_no_double_handout (k n : Nat) (progs : List (List Op)) (s : Ts.St)
    (hr : Reach Ts.step (Ts.mkInit (2 ^ k) n progs) s) (hl : s.g.illegal = 0) :
    s.g.double = 0 := by
  obtain ⟨_, d, _⟩ := Ts.reach_inv hr hl
  exact d.dbl

/-- **Clause 1, ts pool, state form.** In every reachable legal state the blocks owned by
clients are exactly the blocks the pool regards as handed out (`loc = client`), the `c`
ring slots from `alloc_idx` hold pairwise distinct blocks, none of them owned. -/
theorem ts_ring_blocks_free_and_distinct (k n : Nat) (progs : List (List Op)) (s : Ts.St)
    (hr : Reach Ts.step (Ts.mkInit (2 ^ k) n progs) s) (hl : s.g.illegal = 0) :
    ∃ c, 1 ≤ c ∧ c ≤ s.cap ∧ c = Ts.poolCount s ∧
      (∀ j, j < s.cap → Ts.valid s.cap s.allocIdx c j → s.g.owned (s.ptrs j) = false ∧ s.ptrs j < s.cap) ∧
      (∀ j j', j < s.cap → j' < s.cap → Ts.valid s.cap s.allocIdx c j → Ts.valid s.cap s.allocIdx c j' →
        s.ptrs j = s.ptrs j' → j = j') := by
  obtain ⟨c, d, _⟩ := Ts.reach_inv hr hl
  refine ⟨c, d.c1.1, d.c1.2, d.cnt, ?_, d.inj⟩
  intro j hj hv
  obtain ⟨h1, h2⟩ := d.vl j hj hv
  refine ⟨?_, h2⟩
  cases h : s.g.owned (s.ptrs j) with
  | false => rfl
  | true => have := (d.own _).mp h; rw [h1] at this; cases this

/-- **Clause 2, ts pool (exhaustion only when exhausted).** `spuriousNull` counts allocations
that returned NULL although more than the one slack block was in the pool when `free_idx`
was loaded (the linearisation point of the failing allocation). It stays 0: NULL is only
reported when at most one block (the slack the ring keeps by design) is in the pool, i.e.
`cap - 1` blocks are outstanding. Hence a history that keeps at most `cap - 2` blocks
outstanding is never refused. -/
theorem ts_null_only_when_exhausted (k n : Nat) (progs : List (List Op)) (s : Ts.St)
    (hr : Reach Ts.step (Ts.mkInit (2 ^ k) n progs) s) (hl : s.g.illegal = 0) :
    s.spuriousNull = 0 := by
  obtain ⟨_, d, _⟩ := Ts.reach_inv hr hl
  exact d.spn

/-- **Clause 2, ts pool (freed blocks become allocatable).** The pool never loses a block:
the number of blocks in the pool's ring is `free_idx - alloc_idx` (cyclically, `cap` when
equal) and the two spinlocks are free whenever no thread is inside the pool, so a
sequential caller always finds the freed blocks again. -/
theorem ts_ring_accounts_for_pool (k n : Nat) (progs : List (List Op)) (s : Ts.St)
    (hr : Reach Ts.step (Ts.mkInit (2 ^ k) n progs) s) (hl : s.g.illegal = 0) :
    s.freeIdx = (if s.allocIdx + Ts.poolCount s < s.cap then s.allocIdx + Ts.poolCount s
                 else s.allocIdx + Ts.poolCount s - s.cap) ∧
    1 ≤ Ts.poolCount s := by
  obtain ⟨c, d, _⟩ := Ts.reach_inv hr hl
  have := d.cnt; subst this
  exact ⟨d.fi, d.c1.1⟩

/-- **Clause 1 + 2, ts pool, unconditional form.** If the client programs contain no malformed
operation (`X`: free of a block the thread does not hold), the history is legal by construction —
every `f g t u x` operation frees a block its thread owns — so for every schedule no block is
handed out twice and exhaustion is reported only when exhausted. -/
theorem ts_safe_for_wellformed_clients (k n : Nat) (progs : List (List Op))
    (hwf : ∀ p, p ∈ progs → ∀ op, op ∈ p → wellFormed op = true) (s : Ts.St)
    (hr : Reach Ts.step (Ts.mkInit (2 ^ k) n progs) s) :
    s.g.illegal = 0 ∧ s.g.double = 0 ∧ s.spuriousNull = 0 := by
  have w := Ts.reach_wf hwf hr
  obtain ⟨_, d, _⟩ := w.inv w.il
  exact ⟨w.il, d.dbl, d.spn⟩

/-- mutual exclusion of allocators (and of freers) in the repaired pool -/
theorem ts_allocators_serialised (k n : Nat) (progs : List (List Op)) (s : Ts.St)
    (hr : Reach Ts.step (Ts.mkInit (2 ^ k) n progs) s) (hl : s.g.illegal = 0) (t t' : Nat)
    (h : Ts.inA (s.pc t) = true) (h' : Ts.inA (s.pc t') = true) : t = t' := by
  obtain ⟨_, _, p⟩ := Ts.reach_inv hr hl
  exact p.aex t t' h h'

/-- non-vacuity: a legal reachable state of the ts pool (capacity 2, two threads): thread 1 was
refused while thread 0 held the only usable block, thread 0 freed it, thread 1 then got block 1
and `alloc_idx` has wrapped -/
example : ∃ s, Reach Ts.step (Ts.mkInit (2 ^ 1) 2 [[.a, .f], [.a, .a]]) s ∧ s.g.illegal = 0 ∧
    s.g.owned 1 = true ∧ s.g.owned 0 = false ∧ s.freeIdx = 1 ∧ s.allocIdx = 0 :=
  ⟨_, reach_runSched Ts.step _ _ Reach.init
      (List.replicate 8 { tid := 0 } ++ List.replicate 8 { tid := 1 } ++ List.replicate 7 { tid := 0 } ++
       List.replicate 10 { tid := 1 }), by decide, by decide, by decide, by decide, by decide⟩

/-! ## the original lock-free allocation is unsafe (negation witnesses) -/

/-- the interleaving found on the real code before the repair: thread 0 is preempted between
reading `ptrs[alloc_idx]` and its compare-exchange while thread 1 cycles the ring -/
def abaProgs : List (List Op) := [[.a], [.a, .a, .a, .g, .g, .a]]
def abaSched : List Tok :=
  List.replicate 4 { tid := 0 } ++ List.replicate 37 { tid := 1 } ++ [{ tid := 0 }]

/-- **The full safety statement is false for the original algorithm (ABA on the masked
`alloc_idx`).** Capacity 4, two threads, a legal history: block 0 is returned to thread 0
while thread 1 still owns it. -/
theorem ts_orig_double_handout_aba :
    ∃ s, Reach TsOrig.step (TsOrig.mkInit 4 2 abaProgs) s ∧ s.g.illegal = 0 ∧ s.g.double = 1 :=
  ⟨_, reach_runSched TsOrig.step _ _ Reach.init abaSched, by decide, by decide⟩

def staleProgs : List (List Op) := [[.a, .a], [.a, .a, .a, .f, .a, .f, .a]]
def staleSched : List Tok :=
  List.replicate 22 { tid := 1 } ++ List.replicate 4 { tid := 0 } ++ List.replicate 23 { tid := 1 } ++
  List.replicate 12 { tid := 0 }

/-- **Second witness (unsynchronised `cached_free_pos`).** Thread 0 stores a stale
`free_idx` into `cached_free_pos`; `alloc_idx` overtakes `free_idx` and block 2, owned by
thread 1, is handed out again. -/
theorem ts_orig_double_handout_stale_cache :
    ∃ s, Reach TsOrig.step (TsOrig.mkInit 4 2 staleProgs) s ∧ s.g.illegal = 0 ∧ s.g.double = 1 :=
  ⟨_, reach_runSched TsOrig.step _ _ Reach.init staleSched, by decide, by decide⟩

/-- so "every legal reachable state has `double = 0`" does NOT hold for the original algorithm -/
theorem ts_orig_not_safe :
    ¬ ∀ (n : Nat) (progs : List (List Op)) (s : TsOrig.St),
        Reach TsOrig.step (TsOrig.mkInit 4 n progs) s → s.g.illegal = 0 → s.g.double = 0 := by
  intro h
  obtain ⟨s, hr, hl, hd⟩ := ts_orig_double_handout_aba
  have := h 2 abaProgs s hr hl
  omega

/-! ## sowr pool (one allocating thread, one freeing thread) -/

/-- **Clause 1, sowr pool.** For every capacity `2^k`, every start value of the free-running
32-bit `alloc_idx` (a multiple of the capacity, so also across its wrap), every pair of
programs and every interleaving of the allocating and the freeing thread (the same thread may
do both: sequential histories): while the history is legal — every freed block is owned; a
free releases the block and every block allocated before it — and the pool's contract holds
(`misuse = 0`), no allocation returns a block that is still owned. -/
theorem sowr_no_double_handout (k base n : Nat) (progs : List (List Op)) (hk : k ≤ 32) (hb : 2 ^ k ∣ base)
    (s : Sowr.St) (hr : Reach Sowr.step (Sowr.mkInit (2 ^ k) base n progs) s)
    (hl : s.g.illegal = 0) (hm : s.misuse = 0) : s.g.double = 0 := by
  obtain ⟨_, c⟩ := Sowr.reach_inv hk hb hr ⟨hl, hm⟩
  exact c.dbl

/-- **Clause 2, sowr pool.** NULL is returned only when `cap - 1` blocks are outstanding
(allocated and not yet returned by a completed `free`) at the moment `free_idx` is loaded:
the usable capacity is `cap - 1` because allocation stops one block short of the last freed
position. A history that keeps at most `cap - 2` blocks outstanding is never refused. -/
theorem sowr_null_only_when_exhausted (k base n : Nat) (progs : List (List Op)) (hk : k ≤ 32)
    (hb : 2 ^ k ∣ base) (s : Sowr.St) (hr : Reach Sowr.step (Sowr.mkInit (2 ^ k) base n progs) s)
    (hl : s.g.illegal = 0) (hm : s.misuse = 0) : s.spuriousNull = 0 := by
  obtain ⟨_, c⟩ := Sowr.reach_inv hk hb hr ⟨hl, hm⟩
  exact c.spn

/-- **Clause 1, sowr pool, state form.** Owned blocks carry distinct allocation serials inside
the window of the last `cap - 1` allocations, each at position `serial % cap`; at most
`cap - 1` blocks are outstanding. -/
theorem sowr_owned_window (k base n : Nat) (progs : List (List Op)) (hk : k ≤ 32) (hb : 2 ^ k ∣ base)
    (s : Sowr.St) (hr : Reach Sowr.step (Sowr.mkInit (2 ^ k) base n progs) s)
    (hl : s.g.illegal = 0) (hm : s.misuse = 0) :
    s.g.nextSerial ≤ s.nRet + s.cap - 1 ∧
    ∀ b, s.g.owned b = true → b < s.cap ∧ s.g.serial b % s.cap = b ∧ s.nRet ≤ s.g.serial b ∧
      s.g.serial b < s.g.nextSerial := by
  obtain ⟨rc, c⟩ := Sowr.reach_inv hk hb hr ⟨hl, hm⟩
  obtain ⟨r1, _, r3⟩ := c.rc
  refine ⟨by omega, ?_⟩
  intro b hb'
  obtain ⟨h1, h2, h3, h4⟩ := c.own b hb'
  have := Sowr.nret_le_frontier c
  exact ⟨h1, h3, by omega, h2⟩

/-- non-vacuity: capacity 4, `alloc_idx` started 4 below the 2^32 wrap; the allocating thread
takes three blocks, the freeing thread frees the newest one (releasing all three), then
`alloc_idx` wraps -/
example : ∃ s, Reach Sowr.step (Sowr.mkInit (2 ^ 2) 4294967292 2 [[.p, .p, .p, .p, .p], [.u]]) s ∧
    s.g.illegal = 0 ∧ s.misuse = 0 ∧ s.allocIdx = 1 ∧ s.g.owned 3 = true ∧ s.g.owned 1 = false ∧ s.nRet = 3 :=
  ⟨_, reach_runSched Sowr.step _ _ Reach.init
      (List.replicate 3 { tid := 0 } ++ List.replicate 2 { tid := 1 } ++ List.replicate 3 { tid := 0 }),
    by decide, by decide, by decide, by decide, by decide, by decide⟩

/-! ## ring pool -/

/-- **Clause 1, ring pool.** One allocating thread calling `muggle_ring_memory_pool_alloc`
(`locked = false`, the contract monitored by `misuse`) or any number of threads calling
`muggle_ring_memory_pool_threadsafe_alloc` (`locked = true`), any number of freeing threads,
every schedule: no allocation returns a block that is still owned. -/
theorem ring_no_double_handout (cap n : Nat) (locked : Bool) (progs : List (List Op)) (s : Ring.St)
    (hr : Reach Ring.step (Ring.mkInit cap n locked progs) s) (hl : s.g.illegal = 0) (hm : s.misuse = 0) :
    s.g.double = 0 :=
  (Ring.reach_inv hr ⟨hl, hm⟩).dbl

/-- **Clause 1, ring pool, state form.** A block whose `in_use` flag is clear is in the pool
(or was just seen free by the one thread inside `alloc`); every owned block has its flag set,
so the allocator skips it. -/
theorem ring_owned_blocks_flagged (cap n : Nat) (locked : Bool) (progs : List (List Op)) (s : Ring.St)
    (hr : Reach Ring.step (Ring.mkInit cap n locked progs) s) (hl : s.g.illegal = 0) (hm : s.misuse = 0)
    (b : Nat) (ho : s.g.owned b = true) : s.inUse b ≠ 0 := by
  have c := Ring.reach_inv hr ⟨hl, hm⟩
  intro h0
  have hc := (c.own b).mp ho
  rcases c.use b h0 with h | ⟨t, h⟩ <;> (rw [hc] at h; cases h)

/-- **Clause 2, ring pool (never skips a free block).** The ring pool has no failure path
(the model's `alloc` only ever returns a block: exhaustion is never reported, the clause
"exhaustion only when exhausted" is vacuous). What can be said about progress: a probe fails
only on a block that is not in the pool — held by a client, inside `free`, or just taken. -/
theorem ring_probe_fails_only_on_busy (cap n : Nat) (locked : Bool) (progs : List (List Op)) (s : Ring.St)
    (hr : Reach Ring.step (Ring.mkInit cap n locked progs) s) (hl : s.g.illegal = 0) (hm : s.misuse = 0)
    (b : Nat) (hbusy : s.inUse b ≠ 0) : s.loc b ≠ .pool := by
  have c := Ring.reach_inv hr ⟨hl, hm⟩
  intro h
  exact hbusy (c.pf b h)

/- Not proved (`ring_alloc_terminates`, the remaining half of "served indefinitely" for the ring
pool): the index walk `alloc_idx ↦ (alloc_idx + 1) & (cap - 1)` visits every block within `cap`
probes, hence an allocation completes within `cap` probes after a moment at which some block is
in the pool and stays there. The walk is exercised by the correspondence (every ring run must
end `ok`), the missing piece is the induction over the probe loop in the step model. -/

/-- with the spin-locked entry point the program never breaks the threading contract: the
`misuse` monitor stays 0 for every program, so `ring_no_double_handout` needs no hypothesis on it -/
theorem ring_locked_no_misuse (cap n : Nat) (progs : List (List Op)) (s : Ring.St)
    (hr : Reach Ring.step (Ring.mkInit cap n true progs) s) : s.misuse = 0 ∧ s.locked = true := by
  refine Reach.inv (fun s => s.misuse = 0 ∧ s.locked = true) ⟨rfl, rfl⟩ ?_ s hr
  intro s t s' ev ⟨h1, h2⟩ hs
  unfold Ring.step at hs
  simp only [] at hs
  split at hs
  · simp at hs
  split at hs
  all_goals (try (simp at hs; done))
  all_goals (try (injection hs with hs; injection hs with hs _; subst hs; exact ⟨h1, h2⟩))
  all_goals (try (split at hs))
  all_goals (try (simp at hs; done))
  all_goals (try (split at hs))
  all_goals (try (simp at hs; done))
  all_goals (try (injection hs with hs; injection hs with hs _; subst hs; simp_all))

/-- **Clause 1, ring pool, unconditional form.** Spin-locked allocators, any number of threads,
well-formed client programs (no `X`), every schedule: the history is legal by construction and
no allocation returns a block that is still owned. -/
theorem ring_locked_safe_for_wellformed_clients (cap n : Nat) (progs : List (List Op))
    (hwf : ∀ p, p ∈ progs → ∀ op, op ∈ p → wellFormed op = true) (s : Ring.St)
    (hr : Reach Ring.step (Ring.mkInit cap n true progs) s) :
    s.g.illegal = 0 ∧ s.misuse = 0 ∧ s.g.double = 0 := by
  have w := Ring.reach_wf hwf hr
  exact ⟨w.il, w.ms, (w.inv ⟨w.il, w.ms⟩).dbl⟩

/-- non-vacuity: a legal reachable state of the ring pool (two spin-locked allocators) -/
example : ∃ s, Reach Ring.step (Ring.mkInit 2 2 true [[.a], [.a, .f]]) s ∧ s.g.illegal = 0 ∧ s.misuse = 0 ∧
    s.g.owned 0 = true ∧ s.inUse 1 = 0 :=
  ⟨_, reach_runSched Ring.step _ _ Reach.init
      ((List.replicate 10 { tid := 0 }) ++ (List.replicate 12 { tid := 1 })), by decide, by decide, by decide, by decide⟩

end MgProof.C05
