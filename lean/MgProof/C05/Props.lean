import MgProof.C05.Lemmas
import MgProof.C05.TsInv
import MgProof.C05.SowrInv
import MgProof.C05.RingInv
namespace MgProof.C05
end MgProof.C05
