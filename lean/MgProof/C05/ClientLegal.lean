import MgProof.C05.Lemmas
/-! The client layer never produces an illegal free on its own: with well-formed programs
(no `X` operation) every block a thread frees is one it owns. -/
namespace MgProof.C05
open MgModel.Conc MgModel.C05

/-- operations other than the malformed `X` -/
def wellFormed : Op → Bool
  | .X _ => false
  | _ => true

/-- the client's bookkeeping is consistent: every block in a thread's list or in the bag is
owned, and no block is listed twice -/
structure GInv (g : Ghost) : Prop where
  mo : ∀ t b, b ∈ g.mine t → g.owned b = true
  bo : ∀ b, b ∈ g.bag → g.owned b = true
  mn : ∀ t, (g.mine t).Nodup
  bn : g.bag.Nodup
  mm : ∀ t t' b, b ∈ g.mine t → b ∈ g.mine t' → t = t'
  mb : ∀ t b, b ∈ g.mine t → b ∉ g.bag

/-- what remains listed after the operand `b` was taken out -/
structure Removed (g g' : Ghost) (b : Nat) : Prop where
  ob : g.owned b = true
  m  : ∀ t x, x ∈ g'.mine t → x ∈ g.mine t ∧ x ≠ b
  bg : ∀ x, x ∈ g'.bag → x ∈ g.bag ∧ x ≠ b
  mn : ∀ t, (g'.mine t).Nodup
  bn : g'.bag.Nodup

theorem mine_remove {g : Ghost} (gi : GInv g) {t b : Nat} {r : List Nat} (hb : b ∈ g.mine t)
    (hr : ∀ x, x ∈ r → x ∈ g.mine t ∧ x ≠ b) (hrn : r.Nodup) :
    Removed g { g with mine := upd g.mine t r } b := by
  obtain ⟨mo, bo, mn, bn, mm, mb⟩ := gi
  refine ⟨mo t b hb, ?_, ?_, ?_, bn⟩
  · intro t' x hx
    simp only [upd] at hx
    split at hx
    · rename_i e; subst e; exact hr x hx
    · rename_i e
      refine ⟨hx, ?_⟩
      intro e'; subst e'
      exact e (mm _ _ _ hx hb)
  · intro x hx
    refine ⟨hx, ?_⟩
    intro e; subst e; exact mb t _ hb hx
  · intro t'; simp only [upd]; split
    · exact hrn
    · exact mn t'

theorem bag_remove {g : Ghost} (gi : GInv g) {b : Nat} {r : List Nat} (hb : b ∈ g.bag)
    (hr : ∀ x, x ∈ r → x ∈ g.bag ∧ x ≠ b) (hrn : r.Nodup) :
    Removed g { g with bag := r } b := by
  obtain ⟨mo, bo, mn, bn, mm, mb⟩ := gi
  refine ⟨bo b hb, ?_, hr, mn, hrn⟩
  intro t x hx
  refine ⟨hx, ?_⟩
  intro e; subst e; exact mb t _ hx hb

/-- the operand of a well-formed operation is an owned block that is listed nowhere else -/
theorem beginOp_free {g : Ghost} {t cap b : Nat} {op : Op} (gi : GInv g) (hw : wellFormed op = true)
    (h : (beginOp g t cap op).2 = .free b) : Removed g (beginOp g t cap op).1 b := by
  have mn := gi.mn; have bn := gi.bn
  unfold beginOp at h ⊢
  cases op with
  | a => simp at h
  | p => simp at h
  | f =>
    simp only at h ⊢
    split at h
    · simp at h
    · rename_i b' r hm
      simp only at h ⊢
      injection h with h; subst h
      have hn := mn t; rw [hm] at hn
      have hn' := List.nodup_cons.mp hn
      exact mine_remove gi (by rw [hm]; simp)
        (fun x hx => ⟨by rw [hm]; simp [hx], fun e => hn'.1 (e ▸ hx)⟩) hn'.2
  | g =>
    simp only at h ⊢
    split at h
    · simp at h
    · rename_i b' hm
      simp only at h ⊢
      injection h with h; subst h
      obtain ⟨ys, hys⟩ := List.getLast?_eq_some_iff.mp hm
      have hn := mn t; rw [hys] at hn
      obtain ⟨n1, _, n3⟩ := List.nodup_append.mp hn
      have hd : (g.mine t).dropLast = ys := by rw [hys, List.dropLast_concat]
      rw [hd]
      exact mine_remove gi (by rw [hys]; simp)
        (fun x hx => ⟨by rw [hys]; simp [hx], fun e => n3 x hx b' (by simp) e⟩) n1
  | t =>
    simp only at h ⊢
    split at h
    · simp at h
    · rename_i b' r hm
      simp only at h ⊢
      injection h with h; subst h
      have hn := bn; rw [hm] at hn
      have hn' := List.nodup_cons.mp hn
      exact bag_remove gi (by rw [hm]; simp)
        (fun x hx => ⟨by rw [hm]; simp [hx], fun e => hn'.1 (e ▸ hx)⟩) hn'.2
  | u =>
    simp only at h ⊢
    split at h
    · simp at h
    · rename_i b' hm
      simp only at h ⊢
      injection h with h; subst h
      exact bag_remove gi (List.mem_of_getLast? hm) (fun x hx => by simp at hx) List.nodup_nil
  | x k =>
    cases k with
    | none => simp at h
    | some k =>
      simp only at h ⊢
      split at h
      · rename_i hc
        simp only at h ⊢
        injection h with h; subst h
        simp only [hc, and_self, if_true]
        exact mine_remove gi hc.2
          (fun x hx => by
            have := (List.Nodup.mem_erase_iff (mn t)).mp hx
            exact ⟨this.2, this.1⟩) ((mn t).erase k)
      · simp at h
  | X k => simp [wellFormed] at hw

/-- an operation that does not start a free leaves the bookkeeping alone -/
theorem beginOp_not_free {g : Ghost} {t cap : Nat} {op : Op} (h : ∀ b, (beginOp g t cap op).2 ≠ .free b) :
    (beginOp g t cap op).1 = g := by
  unfold beginOp at h ⊢
  cases op with
  | a => rfl
  | p => rfl
  | f => simp only at h ⊢; split <;> simp_all
  | g => simp only at h ⊢; split <;> simp_all
  | t => simp only at h ⊢; split <;> simp_all
  | u => simp only at h ⊢; split <;> simp_all
  | x k => cases k <;> simp only at h ⊢ <;> (try split) <;> simp_all
  | X k => cases k <;> simp only at h ⊢ <;> (try split) <;> simp_all

theorem freeBegin_false_lists {g : Ghost} {t b : Nat} :
    (freeBegin false g t b).1.mine = g.mine ∧ (freeBegin false g t b).1.bag = g.bag := by
  unfold freeBegin; split <;> simp

/-- after `free(b)` was called with an owned, now unlisted block the bookkeeping is consistent -/
theorem GInv.after_free {g g' : Ghost} {t b : Nat} (gi : GInv g) (r : Removed g g' b)
    (ho : g'.owned = g.owned) : GInv (freeBegin false g' t b).1 := by
  obtain ⟨mo, bo, mn, bn, mm, mb⟩ := gi
  obtain ⟨rb, rm, rbg, rmn, rbn⟩ := r
  obtain ⟨l1, l2⟩ := freeBegin_false_lists (g := g') (t := t) (b := b)
  obtain ⟨f1, -, -, -, -⟩ := freeBegin_false_owned (g := g') (t := t) (b := b) (by rw [ho]; exact rb)
  constructor
  · intro t' x hx
    rw [l1] at hx
    obtain ⟨h1, h2⟩ := rm t' x hx
    rw [f1, ho]; simp only [upd, h2, if_false]; exact mo t' x h1
  · intro x hx
    rw [l2] at hx
    obtain ⟨h1, h2⟩ := rbg x hx
    rw [f1, ho]; simp only [upd, h2, if_false]; exact bo x h1
  · intro t'; rw [l1]; exact rmn t'
  · rw [l2]; exact rbn
  · intro t1 t2 x h1 h2
    rw [l1] at h1 h2
    exact mm t1 t2 x (rm t1 x h1).1 (rm t2 x h2).1
  · intro t' x hx hb
    rw [l1] at hx; rw [l2] at hb
    exact mb t' x (rm t' x hx).1 (rbg x hb).1

/-- an allocation that returns a block nobody owns keeps the bookkeeping consistent -/
theorem GInv.after_alloc {g : Ghost} {t b : Nat} {pb : Bool} (gi : GInv g) (hb : g.owned b = false) :
    GInv (allocDone g t pb (some b)).1 := by
  obtain ⟨mo, bo, mn, bn, mm, mb⟩ := gi
  have nm : ∀ t', b ∉ g.mine t' := fun t' h => by have := mo t' b h; simp [hb] at this
  have nb : b ∉ g.bag := fun h => by have := bo b h; simp [hb] at this
  unfold allocDone
  cases pb with
  | true =>
    simp only [if_true]
    constructor
    · intro t' x hx
      have := mo t' x hx
      simp only [upd]; split <;> simp_all
    · intro x hx
      simp only [List.mem_append, List.mem_singleton] at hx
      simp only [upd]
      rcases hx with h | h
      · have := bo x h; split <;> simp_all
      · simp [h]
    · exact mn
    · show (g.bag ++ [b]).Nodup
      rw [List.nodup_append]
      refine ⟨bn, by simp, ?_⟩
      intro a ha c hc e
      simp at hc; subst hc; subst e; exact nb ha
    · exact mm
    · intro t' x hx hb'
      simp only [List.mem_append, List.mem_singleton] at hb'
      rcases hb' with h | h
      · exact mb t' x hx h
      · subst h; exact nm t' hx
  | false =>
    simp only [Bool.false_eq_true, if_false]
    constructor
    · intro t' x hx
      simp only [upd] at hx ⊢
      split at hx
      · simp only [List.mem_append, List.mem_singleton] at hx
        rcases hx with h | h
        · rename_i e; subst e; have := mo _ x h; split <;> simp_all
        · simp [h]
      · have := mo t' x hx; split <;> simp_all
    · intro x hx
      have := bo x hx
      simp only [upd]; split <;> simp_all
    · intro t'
      simp only [upd]; split
      · rename_i e; subst e
        rw [List.nodup_append]
        refine ⟨mn _, by simp, ?_⟩
        intro a ha c hc e
        simp at hc; subst hc; subst e; exact nm _ ha
      · exact mn t'
    · exact bn
    · intro t1 t2 x h1 h2
      simp only [upd] at h1 h2
      split at h1 <;> split at h2
      · rename_i e1 e2; rw [e1, e2]
      · rename_i e1 e2
        simp only [List.mem_append, List.mem_singleton] at h1
        rcases h1 with h | h
        · subst e1; exact mm _ _ x h h2
        · subst h; exact absurd h2 (nm t2)
      · rename_i e1 e2
        simp only [List.mem_append, List.mem_singleton] at h2
        rcases h2 with h | h
        · subst e2; exact mm _ _ x h1 h
        · subst h; exact absurd h1 (nm t1)
      · exact mm t1 t2 x h1 h2
    · intro t' x hx hb'
      simp only [upd] at hx
      split at hx
      · simp only [List.mem_append, List.mem_singleton] at hx
        rcases hx with h | h
        · rename_i e; subst e; exact mb _ x h hb'
        · subst h; exact nb hb'
      · exact mb t' x hx hb'

theorem GInv.init : GInv {} := by
  constructor <;> simp

end MgProof.C05
