import MgModel.C05.TsPool
namespace MgProof.C05
end MgProof.C05
