import MgModel.C05.Client
/-! Helper lemmas shared by the three pool proofs: what the client layer does to the ghost
state, counting under a point update, index arithmetic of a power-of-two ring. -/
namespace MgProof.C05
open MgModel.Conc MgModel.C05

/-! ## client layer -/

theorem beginOp_owned (g : Ghost) (t cap : Nat) (op : Op) : (beginOp g t cap op).1.owned = g.owned := by
  unfold beginOp; split <;> (try split) <;> rfl
theorem beginOp_serial (g : Ghost) (t cap : Nat) (op : Op) : (beginOp g t cap op).1.serial = g.serial := by
  unfold beginOp; split <;> (try split) <;> rfl
theorem beginOp_nextSerial (g : Ghost) (t cap : Nat) (op : Op) :
    (beginOp g t cap op).1.nextSerial = g.nextSerial := by
  unfold beginOp; split <;> (try split) <;> rfl
theorem beginOp_double (g : Ghost) (t cap : Nat) (op : Op) : (beginOp g t cap op).1.double = g.double := by
  unfold beginOp; split <;> (try split) <;> rfl
theorem beginOp_illegal (g : Ghost) (t cap : Nat) (op : Op) : (beginOp g t cap op).1.illegal = g.illegal := by
  unfold beginOp; split <;> (try split) <;> rfl

/-- an operation starts an allocation exactly when it is `a` or `p` -/
theorem beginOp_alloc_iff (g : Ghost) (t cap : Nat) (op : Op) :
    (∃ pb, (beginOp g t cap op).2 = .alloc pb) ↔ op.isAlloc = true := by
  unfold beginOp; split <;> (try split) <;> simp [Op.isAlloc]

theorem freeBegin_illegal_mono (sw : Bool) (g : Ghost) (t b : Nat) :
    g.illegal ≤ (freeBegin sw g t b).1.illegal := by
  unfold freeBegin; split <;> (try split) <;> simp

/-- a free that keeps the history legal frees an owned block -/
theorem freeBegin_legal {sw : Bool} {g : Ghost} {t b : Nat} (h : (freeBegin sw g t b).1.illegal = 0) :
    g.owned b = true ∧ g.illegal = 0 := by
  unfold freeBegin at h
  split at h
  · simp at h
  · rename_i ho
    refine ⟨by simpa using ho, ?_⟩
    split at h <;> exact h

theorem freeBegin_false_owned {g : Ghost} {t b : Nat} (h : g.owned b = true) :
    (freeBegin false g t b).1.owned = upd g.owned b false ∧
    (freeBegin false g t b).1.double = g.double ∧
    (freeBegin false g t b).1.illegal = g.illegal ∧
    (freeBegin false g t b).1.serial = g.serial ∧
    (freeBegin false g t b).1.nextSerial = g.nextSerial := by
  unfold freeBegin; simp [h]

theorem freeBegin_true_owned {g : Ghost} {t b : Nat} (h : g.owned b = true) :
    (∀ i, (freeBegin true g t b).1.owned i = (g.owned i && !(g.owned i && decide (g.serial i ≤ g.serial b)))) ∧
    (freeBegin true g t b).1.double = g.double ∧
    (freeBegin true g t b).1.illegal = g.illegal ∧
    (freeBegin true g t b).1.serial = g.serial ∧
    (freeBegin true g t b).1.nextSerial = g.nextSerial := by
  unfold freeBegin; simp [h]

theorem allocDone_none (g : Ghost) (t : Nat) (pb : Bool) : (allocDone g t pb none).1 = g := rfl

theorem allocDone_some (g : Ghost) (t : Nat) (pb : Bool) (b : Nat) :
    (allocDone g t pb (some b)).1.owned = upd g.owned b true ∧
    (allocDone g t pb (some b)).1.double = (if g.owned b then g.double + 1 else g.double) ∧
    (allocDone g t pb (some b)).1.illegal = g.illegal ∧
    (allocDone g t pb (some b)).1.serial = upd g.serial b g.nextSerial ∧
    (allocDone g t pb (some b)).1.nextSerial = g.nextSerial + 1 := by
  unfold allocDone; cases pb <;> simp

/-! ## counting under a point update -/

theorem countP_range_upd {α : Type} (p : α → Bool) (f : Nat → α) (b : Nat) (v : α) (n : Nat) (hb : b < n) :
    (List.range n).countP (fun i => p (upd f b v i)) + (if p (f b) then 1 else 0)
      = (List.range n).countP (fun i => p (f i)) + (if p v then 1 else 0) := by
  induction n with
  | zero => omega
  | succ n ih =>
    simp only [List.range_succ, List.countP_append, List.countP_cons, List.countP_nil]
    by_cases hbn : b = n
    · subst hbn
      have hsame : (List.range b).countP (fun i => p (upd f b v i)) = (List.range b).countP (fun i => p (f i)) := by
        apply List.countP_congr
        intro i hi
        have : i ≠ b := by have := List.mem_range.mp hi; omega
        simp [upd, this]
      simp only [hsame, upd_same]
      omega
    · have hlt : b < n := by omega
      have := ih hlt
      have hn : upd f b v n = f n := by simp [upd]; omega
      simp only [hn]
      omega

theorem countP_range_le (p : Nat → Bool) (n : Nat) : (List.range n).countP p ≤ n := by
  have := List.countP_le_length (p := p) (l := List.range n)
  simpa using this

/-- if some index below `n` fails `p`, fewer than `n` indices satisfy it -/
theorem countP_range_lt (p : Nat → Bool) (n b : Nat) (hb : b < n) (hp : p b = false) :
    (List.range n).countP p < n := by
  induction n with
  | zero => omega
  | succ n ih =>
    simp only [List.range_succ, List.countP_append, List.countP_cons, List.countP_nil]
    by_cases hbn : b = n
    · subst hbn
      have := countP_range_le p b
      simp [hp]; omega
    · have := ih (by omega)
      split <;> omega

/-! ## ring index arithmetic -/

/-- `i & (cap - 1) = i % cap` for a power of two -/
theorem ringIdx_eq_mod (i k : Nat) : ringIdx i (2 ^ k) = i % 2 ^ k := by
  unfold ringIdx
  exact Nat.and_two_pow_sub_one_eq_mod i k

/-- successor in a power-of-two ring, without `%` -/
theorem ringIdx_succ {i k : Nat} (h : i < 2 ^ k) :
    ringIdx (i + 1) (2 ^ k) = if i + 1 = 2 ^ k then 0 else i + 1 := by
  rw [ringIdx_eq_mod]
  split
  · rename_i he; rw [he]; exact Nat.mod_self _
  · exact Nat.mod_eq_of_lt (by omega)

end MgProof.C05
