import MgProof.C05.Lemmas
import MgModel.C05.RingPool
/-! Invariant of the ring-pool model (`MgModel.C05.Ring.step`) for histories that are legal so
far (`illegal = 0`, `misuse = 0`). -/
namespace MgProof.C05.Ring
open MgModel.Conc MgModel.C05 MgModel.C05.Ring

/-- thread is inside `muggle_ring_memory_pool_alloc` (after taking the lock, if any) -/
def inAlloc : Pc → Bool
  | .r1 | .r2 _ | .w1 _ _ | .r3 _ | .w2 _ _ | .ld _ | .wIn _ | .rUnlock _ => true
  | _ => false

structure Core (s : St) : Prop where
  dbl : s.g.double = 0
  own : ∀ b, s.g.owned b = true ↔ s.loc b = .client
  use : ∀ b, s.inUse b = 0 → s.loc b = .pool ∨ ∃ t, s.loc b = .taken t
  tk  : ∀ b t, s.loc b = .taken t → s.pc t = .wIn b ∨ s.pc t = .rUnlock b
  tk1 : ∀ b t, s.pc t = .wIn b → s.loc b = .taken t
  tk2 : ∀ b t, s.pc t = .rUnlock b → s.loc b = .taken t
  ex  : ∀ t t', inAlloc (s.pc t) = true → inAlloc (s.pc t') = true → t = t'
  lk  : s.locked = true → s.wlock = 0 → ∀ t, inAlloc (s.pc t) = false
  sg  : s.locked = false → ∀ t, inAlloc (s.pc t) = true → t = s.allocTid
  fr  : ∀ b t, s.pc t = .fSt b → s.loc b = .freeing t
  ul  : ∀ b t, s.pc t = .rUnlock b → s.inUse b ≠ 0
  nl  : ∀ t, (s.pc t = .rLock ∨ s.pc t = .rYield) → s.locked = true
  pf  : ∀ b, s.loc b = .pool → s.inUse b = 0

def Legal (s : St) : Prop := s.g.illegal = 0 ∧ s.misuse = 0

def Inv (s : St) : Prop := Legal s → Core s

theorem nextPc_not (rest : List Op) : inAlloc (nextPc rest) = false ∧ (∀ b, nextPc rest ≠ .fSt b) ∧
    (∀ b, nextPc rest ≠ .wIn b) ∧ (∀ b, nextPc rest ≠ .rUnlock b) ∧ nextPc rest ≠ .rLock ∧
    nextPc rest ≠ .rYield := by
  unfold nextPc; split <;> simp [inAlloc]

/-- program counters whose step only moves the thread inside `alloc` (lock, index walk, flag load) -/
def simplePc : Pc → Bool
  | .rLock | .rYield | .r1 | .r2 _ | .w1 _ _ | .r3 _ | .w2 _ _ | .ld _ => true
  | _ => false

theorem step_inv_a {s s' : St} {tok : Tok} {ev : List String} (inv : Inv s)
    (hs : step s tok = some (s', ev)) (hpc : simplePc (s.pc tok.tid) = true) : Inv s' := by
  intro hl'
  unfold step at hs
  simp only [] at hs
  split at hs
  · simp at hs
  split at hs
  all_goals (try (rename_i hpc'; simp [hpc', simplePc] at hpc; done))
  · -- rLock
    split at hs <;>
    (injection hs with hs; injection hs with hs _; subst hs
     obtain ⟨c1,c2,c3,c4,c5,c5',c6,c7,c8,c9,c10,c11,c12⟩ := inv hl'
     constructor <;> grind [inAlloc, upd])
  · -- rYield
    injection hs with hs; injection hs with hs _; subst hs
    obtain ⟨c1,c2,c3,c4,c5,c5',c6,c7,c8,c9,c10,c11,c12⟩ := inv hl'
    constructor <;> grind [inAlloc, upd]
  · -- r1
    injection hs with hs; injection hs with hs _; subst hs
    obtain ⟨c1,c2,c3,c4,c5,c5',c6,c7,c8,c9,c10,c11,c12⟩ := inv hl'
    constructor <;> grind [inAlloc, upd]
  · -- r2
    injection hs with hs; injection hs with hs _; subst hs
    obtain ⟨c1,c2,c3,c4,c5,c5',c6,c7,c8,c9,c10,c11,c12⟩ := inv hl'
    constructor <;> grind [inAlloc, upd]
  · -- w1
    injection hs with hs; injection hs with hs _; subst hs
    obtain ⟨c1,c2,c3,c4,c5,c5',c6,c7,c8,c9,c10,c11,c12⟩ := inv hl'
    constructor <;> grind [inAlloc, upd]
  · -- r3
    injection hs with hs; injection hs with hs _; subst hs
    obtain ⟨c1,c2,c3,c4,c5,c5',c6,c7,c8,c9,c10,c11,c12⟩ := inv hl'
    constructor <;> grind [inAlloc, upd]
  · -- w2
    injection hs with hs; injection hs with hs _; subst hs
    obtain ⟨c1,c2,c3,c4,c5,c5',c6,c7,c8,c9,c10,c11,c12⟩ := inv hl'
    constructor <;> grind [inAlloc, upd]
  · -- ld: a clear flag means the block is in the pool (nobody else is inside alloc)
    split at hs
    · simp at hs
    split at hs <;>
    (injection hs with hs; injection hs with hs _; subst hs
     obtain ⟨c1,c2,c3,c4,c5,c5',c6,c7,c8,c9,c10,c11,c12⟩ := inv hl'
     constructor <;> grind [inAlloc, upd])

theorem finish_inv {s : St} {t b w : Nat} {iu : Nat → Nat} {evs : List String} (inv : Inv s)
    (hloc : Legal s → s.loc b = .taken t) (huse : Legal s → iu b ≠ 0) (hiu : ∀ b', b' ≠ b → iu b' = s.inUse b')
    (hpc : Legal s → inAlloc (s.pc t) = true) :
    Inv (finish { s with wlock := w, inUse := iu } t b evs).1 := by
  intro hl'
  unfold finish at hl' ⊢
  obtain ⟨a1, a2, a3, -, -⟩ := allocDone_some s.g t (s.pub t) b
  have hl : Legal s := by
    unfold Legal at hl' ⊢
    simp only [a3] at hl'
    exact hl'
  obtain ⟨c1,c2,c3,c4,c5,c5',c6,c7,c8,c9,c10,c11,c12⟩ := inv hl
  have hloc := hloc hl
  have huse := huse hl
  have hpc := hpc hl
  obtain ⟨n1, n2, n3, n4, n5, n6⟩ := nextPc_not (s.prog t)
  have hnot : s.g.owned b = false := by
    cases h : s.g.owned b with
    | false => rfl
    | true => have := (c2 b).mp h; rw [hloc] at this; cases this
  constructor
  · simp only [a2, hnot]; simpa using c1
  · intro b'; simp only [a1]; grind [upd]
  · grind [upd]
  · grind [upd]
  · grind [upd]
  · grind [upd, inAlloc]
  · grind [upd, inAlloc]
  · grind [upd, inAlloc]
  · grind [upd]
  · grind [upd]
  · grind [upd]
  · grind [upd]
  · grind [upd]

theorem step_inv_b {s s' : St} {tok : Tok} {ev : List String} (inv : Inv s)
    (hs : step s tok = some (s', ev)) (hpc : (∃ b, s.pc tok.tid = .wIn b) ∨ (∃ b, s.pc tok.tid = .rUnlock b) ∨ (∃ b, s.pc tok.tid = .fSt b)) : Inv s' := by
  unfold step at hs
  simp only [] at hs
  split at hs
  · simp at hs
  split at hs
  all_goals (try (rename_i hpc'; simp [hpc'] at hpc; done))
  · -- wIn
    rename_i blk hpc'
    split at hs
    · intro hl'
      injection hs with hs; injection hs with hs _; subst hs
      obtain ⟨c1,c2,c3,c4,c5,c5',c6,c7,c8,c9,c10,c11,c12⟩ := inv hl'
      constructor <;> grind [inAlloc, upd]
    · injection hs with hs; have h1 := congrArg Prod.fst hs; simp only at h1; subst h1
      have := @finish_inv s tok.tid blk s.wlock (upd s.inUse blk 1) [s!"T{tok.tid} w in_use[{blk}] 1"] inv
        (fun hl => (inv hl).tk1 blk tok.tid hpc') (fun _ => by simp) (by intro b' hb; simp [upd, hb])
        (fun _ => by rw [hpc']; rfl)
      exact this
  · -- rUnlock
    rename_i blk hpc'
    injection hs with hs; have h1 := congrArg Prod.fst hs; simp only at h1; subst h1
    have := @finish_inv s tok.tid blk 0 s.inUse [s!"T{tok.tid} st write_spinlock 0 rel"] inv
        (fun hl => (inv hl).tk2 blk tok.tid hpc') (fun hl => (inv hl).ul blk tok.tid hpc') (by intro b' hb; rfl)
        (fun _ => by rw [hpc']; rfl)
    exact this
  · -- fSt
    rename_i b hpc'
    intro hl'
    injection hs with hs; injection hs with hs _; subst hs
    obtain ⟨c1,c2,c3,c4,c5,c5',c6,c7,c8,c9,c10,c11,c12⟩ := inv hl'
    obtain ⟨n1, n2, n3, n4, n5, n6⟩ := nextPc_not (s.prog tok.tid)
    constructor <;> grind [inAlloc, upd]
theorem step_inv_idle {s s' : St} {tok : Tok} {ev : List String} (inv : Inv s)
    (hs : step s tok = some (s', ev)) (hpc : s.pc tok.tid = .idle) : Inv s' := by
  unfold step at hs
  simp only [hpc] at hs
  split at hs
  · simp at hs
  split at hs
  · simp at hs
  rename_i op rest hprog
  have bo := beginOp_owned s.g tok.tid s.cap op
  have bd := beginOp_double s.g tok.tid s.cap op
  have bi := beginOp_illegal s.g tok.tid s.cap op
  obtain ⟨n1, n2, n3, n4, n5, n6⟩ := nextPc_not rest
  split at hs
  · -- no operand
    injection hs with hs; injection hs with hs _; subst hs
    intro hl'
    have hl : Legal s := by
      unfold Legal at hl' ⊢; simp only [bi] at hl'; exact hl'
    obtain ⟨c1,c2,c3,c4,c5,c5',c6,c7,c8,c9,c10,c11,c12⟩ := inv hl
    constructor <;> grind [inAlloc, upd]
  · -- allocation
    injection hs with hs; injection hs with hs _; subst hs
    intro hl'
    have hl : Legal s ∧ (s.locked = false → tok.tid = s.allocTid) := by
      unfold Legal at hl' ⊢; simp only [bi] at hl'
      obtain ⟨h1, h2⟩ := hl'
      split at h2
      · rename_i hc; exact ⟨⟨h1, h2⟩, by grind⟩
      · omega
    obtain ⟨hl, hat⟩ := hl
    obtain ⟨c1,c2,c3,c4,c5,c5',c6,c7,c8,c9,c10,c11,c12⟩ := inv hl
    constructor <;> grind [inAlloc, upd]
  · -- free
    rename_i b hb
    injection hs with hs; injection hs with hs _; subst hs
    intro hl'
    obtain ⟨ho, hi0⟩ := freeBegin_legal hl'.1
    obtain ⟨f1, f2, f3, -, -⟩ := freeBegin_false_owned (g := (beginOp s.g tok.tid s.cap op).1) (t := tok.tid) ho
    have hl : Legal s := ⟨by rw [← bi]; exact hi0, hl'.2⟩
    obtain ⟨c1,c2,c3,c4,c5,c5',c6,c7,c8,c9,c10,c11,c12⟩ := inv hl
    simp only [ho, if_true]
    constructor
    · simp only [f2, bd]; exact c1
    · intro b'; simp only [f1, bo]; grind [upd]
    all_goals grind [inAlloc, upd]

theorem step_inv {s s' : St} {tok : Tok} {ev : List String} (inv : Inv s)
    (hs : step s tok = some (s', ev)) : Inv s' := by
  cases hpc : s.pc tok.tid with
  | idle => exact step_inv_idle inv hs hpc
  | wIn b => exact step_inv_b inv hs (Or.inl ⟨b, hpc⟩)
  | rUnlock b => exact step_inv_b inv hs (Or.inr (Or.inl ⟨b, hpc⟩))
  | fSt b => exact step_inv_b inv hs (Or.inr (Or.inr ⟨b, hpc⟩))
  | done =>
    unfold step at hs; simp only [hpc] at hs
    split at hs <;> simp at hs
  | _ => exact step_inv_a inv hs (by rw [hpc]; rfl)

theorem init_inv (cap n : Nat) (locked : Bool) (progs : List (List Op)) : Inv (mkInit cap n locked progs) := by
  intro _
  have np := fun t => nextPc_not (progs.getD t [])
  constructor <;> simp only [mkInit] <;> grind

/-- every state reachable by any schedule satisfies the invariant -/
theorem reach_inv {cap n : Nat} {locked : Bool} {progs : List (List Op)} {s : St}
    (hr : Reach step (mkInit cap n locked progs) s) : Inv s :=
  Reach.inv Inv (init_inv cap n locked progs) (fun _ _ _ _ inv hs => step_inv inv hs) s hr

end MgProof.C05.Ring
