import MgProof.C08.Main
import MgProof.C08.Crash
import MgProof.C08.HBStep3
/-!
# C08 — property theorems for the shared-memory ring buffer

Model: `MgModel.C08.step` (one step per shared-memory access of
`muggle/c/sync/shm_ring_buffer.c` at `-O0`, tied to the real object code by
checks/C08). All theorems quantify over

* every ring size `N ≥ 1` cache lines (a power of two is not needed),
* every number of threads and every client program list `progs` with `Client wt rt useLock progs`:
  every message has `n ≥ 1` bytes (any length, also far above half the ring), only thread `rt`
  fetches, and without the write lock only thread `wt` allocates (`wt = rt` is allowed: the
  sequential histories); with `useLock = true` any number of threads allocate under the lock,
* every schedule of every length (`Reach`): all interleavings at the granularity of one
  shared-memory access, including every schedule in which some thread never runs again
  (a crashed process) — no fairness is assumed anywhere.

The ghost fields mentioned below (`committed`, `delivered`, `pend`, the violation counters)
are defined in MgModel/C08/Ring.lean next to the step that updates them; the harness
computes the same values from its own observation of the real code and the two are compared
run by run.
-/
namespace MgProof.C08
open MgModel.Conc MgModel.C08

variable {wt rt N : Nat} {useLock : Bool} {progs : List (List Op)}

/-- **Clause 1 (exactly once, in commit order, exact length and bytes).**
In every reachable state the log of committed messages is the log of delivered messages
followed by the pending ones: what the reader has consumed is a prefix of what was committed,
message for message (`Msg` equality = header cell, `n_bytes`, `n_cachelines` as read from the
header by the reader, and the payload fill byte as read from the payload), nothing is skipped,
duplicated or reordered; the harness-style monitors never fired: every fetched message was the
oldest pending one (`fifoViol`) and every one of its payload bytes had the committed value
(`corrupt`). -/
theorem exactly_once_in_order_intact (hN : 1 ≤ N) (hc : Client wt rt useLock progs)
    (s : St) (hr : Reach step (mkInit N useLock progs).1 s) :
    s.committed = s.delivered ++ s.pend ∧ s.fifoViol = 0 ∧ s.corrupt = 0 := by
  have inv := reach_inv hN hc s hr
  exact ⟨by rw [inv.pend]; exact inv.log, inv.cnt.1, inv.cnt.2.2.2.1⟩

/-- **Clause 1, memory form.** Every committed, unconsumed message is intact in the shared memory:
its header cell holds exactly the committed length and cache-line count and every payload cell
holds the committed fill — whatever the writers are doing at that moment. -/
theorem pending_messages_intact_in_memory (hN : 1 ≤ N) (hc : Client wt rt useLock progs)
    (s : St) (hr : Reach step (mkInit N useLock progs).1 s) :
    ∀ m, m ∈ s.pend → MsgOk s m := by
  have inv := reach_inv hN hc s hr
  rw [inv.pend]; exact inv.msgs

/-- **Clause 1, at the return of `r_fetch`.** When `r_fetch` is about to return a message (program
counter `g3`, `nb` = the length it stored into `*n_bytes`), that message is the oldest pending one:
its header is the cell `cached_r_hdr` points to and `nb` is its committed length. -/
theorem fetch_returns_oldest_pending (hN : 1 ≤ N) (hc : Client wt rt useLock progs)
    (s : St) (hr : Reach step (mkInit N useLock progs).1 s) (t nb : Nat) (hpc : s.pc t = .g3 nb) :
    ∃ m rest, s.pend = m :: rest ∧ s.RH = some m.cell ∧ nb = m.nb ∧ MsgOk s m := by
  have inv := reach_inv hN hc s hr
  have h := (inv.thr t).r
  rw [hpc] at h
  obtain ⟨hRH, m, l, hq, hnb⟩ := h
  obtain ⟨hcell, hok, -⟩ := inv.head hq
  exact ⟨m, l ++ s.q2, by rw [inv.pend, hq]; rfl, by rw [hRH, hcell], hnb, hok⟩

/-- **Clause 1 (fetch reports "nothing" only when nothing is pending).** `noneViol` counts the
`NULL` returns of `r_fetch` for which a committed message was pending at the moment `r_fetch`
loaded `write_cursor` (its linearisation point; the reader sitting on the wrap marker while
`write_cursor = 0` is the "nothing pending" case of the second `return NULL`). It stays 0. -/
theorem fetch_none_only_when_nothing_pending (hN : 1 ≤ N) (hc : Client wt rt useLock progs)
    (s : St) (hr : Reach step (mkInit N useLock progs).1 s) : s.noneViol = 0 :=
  (reach_inv hN hc s hr).cnt.2.2.2.2.2.1

/-- **Clause 2 (the writer's region never overlaps unread data).** `overlapViol` counts, at every
return of `w_alloc_bytes`, the committed-unconsumed messages whose cells intersect the returned
region `[cell, cell + n_cachelines)`; `boundsViol` counts returned regions that leave the ring.
Both stay 0, and both cursors stay inside the ring. -/
theorem writer_region_never_overlaps_unread (hN : 1 ≤ N) (hc : Client wt rt useLock progs)
    (s : St) (hr : Reach step (mkInit N useLock progs).1 s) :
    s.overlapViol = 0 ∧ s.boundsViol = 0 ∧ s.W < s.N ∧ s.R < s.N := by
  have inv := reach_inv hN hc s hr
  have := inv.wle
  have := inv.rle
  exact ⟨inv.cnt.2.1, inv.cnt.2.2.1, by omega, by omega⟩

/-- **Clause 2, direct form.** While a writer fills the payload it was handed (program counter `p1`,
header cell `w`), the region `[w, w + n_cachelines)` lies inside the ring (one cell before the end
stays free for the marker) and is disjoint from every committed-unconsumed message — also from the
one the reader is parsing right now — and from a wrap marker the reader has not passed yet. -/
theorem writer_region_is_free (hN : 1 ≤ N) (hc : Client wt rt useLock progs)
    (s : St) (hr : Reach step (mkInit N useLock progs).1 s) (t w : Nat) (hpc : s.pc t = .p1 w) :
    w + (s.cur t).ncl + 1 ≤ s.N ∧
    (∀ m, m ∈ s.pend → m.cell + m.ncl ≤ w ∨ w + (s.cur t).ncl ≤ m.cell) ∧
    (∀ M, s.mark = some M → w + (s.cur t).ncl ≤ M) := by
  have inv := reach_inv hN hc s hr
  have h := (inv.thr t).w
  rw [hpc] at h
  obtain ⟨rfl, hcr, -⟩ := h
  have h1 := inv.crok.1
  refine ⟨by omega, ?_, ?_⟩
  · intro m hm
    rw [inv.pend] at hm
    have := inv.free (k := s.CR) inv.crok.1 inv.crok.2 hm
    omega
  · intro M hM
    have := inv.free_mark (k := s.CR) inv.crok.2 hM
    omega

/-- **Clause 3, the statement of the property, literally** ("a drained ring always accepts a message
of up to half its size"): whenever an allocation that started on a drained ring reaches the second
test of `w_alloc_cachelines` with a message of at most half the ring's bytes (`n ≤ 32·N`, i.e. up to
`N/2 + 3` cache lines with the overhead), `cached_remain` covers the request, so `NULL` is not
returned. **This is false for the code** (`no_wedge_literal_fails`); it is recorded in
known_findings.jsonl (`C08-no-wedge-literal-half-ring`) and checks/C08 probes it on the real code.
What is proved instead is `no_wedge_partial`: the same with `n_cachelines ≤ N/2 − 1`. -/
def no_wedge_literal : Prop :=
  ∀ (N wt rt : Nat) (useLock : Bool) (progs : List (List Op)), 1 ≤ N → Client wt rt useLock progs →
  ∀ s, Reach step (mkInit N useLock progs).1 s → ∀ t, s.pc t = .a2 → (s.cur t).drained = true →
  (s.cur t).n ≤ 32 * N → (s.cur t).ncl ≤ s.CR

/-- **Clause 3, what holds (partial).** `wedge` counts the allocations that failed although (a) the
ring was drained when the allocation started (everything committed had been consumed; sampled once
no other writer can commit any more) and (b) the request was at most `N/2 − 1` cache lines
*including* the overhead of `MUGGLE_SHM_RINGBUF_CAL_BYTES_CACHELINE` (`ncl + 1 ≤ N/2`). It stays 0 —
for every history of earlier requests, of any sizes. **Missing with respect to `no_wedge_literal`:**
requests of `N/2 … N/2 + 3` cache lines (messages of more than `64·(N/2 − 3) − 8` but at most `32·N`
bytes; every message when `N = 4`): the code refuses them at the middle cursor positions, for ever
(`no_wedge_literal_fails`, `half_ring_bound_is_tight`, `ring_of_four_wedges`), so the constant
`N/2 − 1` is exact and the missing part is not provable. -/
theorem no_wedge_partial (hN : 1 ≤ N) (hc : Client wt rt useLock progs)
    (s : St) (hr : Reach step (mkInit N useLock progs).1 s) : s.wedge = 0 :=
  (reach_inv hN hc s hr).cnt.2.2.2.2.1

/-- **Clause 3, direct form (partial, same bound).** At the second test of `w_alloc_cachelines`
(program counter `a2`, after `update_cached_remain`), an allocation that started on a drained ring
with a request of at most `N/2 − 1` cache lines finds `cached_remain ≥ request`: it does not return
`NULL`. This is `no_wedge_literal` with `ncl + 1 ≤ N/2` in place of `n ≤ 32·N`. -/
theorem drained_ring_accepts_partial (hN : 1 ≤ N) (hc : Client wt rt useLock progs)
    (s : St) (hr : Reach step (mkInit N useLock progs).1 s) (t : Nat) (hpc : s.pc t = .a2)
    (hd : (s.cur t).drained = true) (hk : (s.cur t).ncl + 1 ≤ s.N / 2) : (s.cur t).ncl ≤ s.CR := by
  have h := ((reach_inv hN hc s hr).thr t).w
  rw [hpc] at h
  exact h ⟨hd, hk⟩

/-- **Clause 4 (writer crash).** Take any reachable state `s` — the writers may be anywhere: between
the two header words, after the payload but before the commit store, between the marker and the
cursor reset, holding the write lock — and let only the reader `rt` (a thread that never
allocates) run from there, for any number of steps: nothing is committed any more, and what the
reader delivers in addition is exactly a prefix `d` of the messages that were pending at `s`, in
order, with exact length and bytes (`Msg` equality; `corrupt`, `fifoViol` stay 0): it never sees a
message that was not committed as a whole. -/
theorem writer_crash (hN : 1 ≤ N) (hc : Client wt rt useLock progs)
    (hro : ∀ op, op ∈ progs.getD rt [] → isFetch op = true)
    (s : St) (hr : Reach step (mkInit N useLock progs).1 s)
    (ts : List Tok) (hts : ∀ tok, tok ∈ ts → tok.tid = rt) :
    ∃ d, (runSched step s ts).1.delivered = s.delivered ++ d ∧ d ++ (runSched step s ts).1.pend = s.pend ∧
      (runSched step s ts).1.committed = s.committed ∧
      (runSched step s ts).1.corrupt = 0 ∧ (runSched step s ts).1.fifoViol = 0 := by
  have hp := reach_pure (N := N) (useLock := useLock) hro s hr
  obtain ⟨-, hcm, d, hd⟩ := reader_alone hp ts hts
  have hr' := reach_runSched step _ s hr ts
  obtain ⟨h1, h2, h3⟩ := exactly_once_in_order_intact hN hc _ hr'
  obtain ⟨g1, -, -⟩ := exactly_once_in_order_intact hN hc s hr
  refine ⟨d, hd, ?_, hcm, h3, h2⟩
  rw [hcm, hd, g1, List.append_assoc] at h1
  exact (List.append_cancel_left h1).symm

/-- **Memory safety of the modelled code.** `errs` counts the model's explicit error transitions:
a header / payload access outside `[0, N)`, an unsigned underflow (`r − w − 1`, `n − w − 1`,
`r − 1`, `cached_remain − n`), a `NULL` `cached_w_hdr` / `cached_r_hdr`, or parsing a cell that is
not a header as a header. None is reachable. -/
theorem no_model_error (hN : 1 ≤ N) (hc : Client wt rt useLock progs)
    (s : St) (hr : Reach step (mkInit N useLock progs).1 s) : s.errs = 0 :=
  (reach_inv hN hc s hr).cnt.2.2.2.2.2.2

/-- **Mechanism (release-store of `write_cursor` on commit / wrap, acquire-load in `r_fetch`; the
write lock for several writers).** `stale` counts the reads of a data cell — the reader's reads of
`n_bytes`, `n_cachelines` and of the payload, a writer's read-back of its own header in `w_move` —
whose latest write is not ordered before the read by happens-before (program order, the
release/acquire pair on `write_cursor`, release/acquire of the lock word), tracked with knowledge
sets as in C04. It stays 0: with the memory orders the code uses (they are part of every compared
trace event), whatever `r_fetch` parses was published before it loaded the cursor. -/
theorem no_stale_read (hN : 1 ≤ N) (hc : Client wt rt useLock progs)
    (s : St) (hr : Reach step (mkInit N useLock progs).1 s) : s.stale = 0 :=
  (reach_both hN hc s hr).2.stale

/-! ## the constants are exact (negative witnesses, by evaluation of the model) -/

private def seqSched (n : Nat) : List Tok := List.replicate n { tid := 0 }

/-- The literal reading "a drained ring accepts a message of up to half its size" does not hold for
this code, and `N/2 − 1` cache lines is the exact bound: on a ring of 8 cache lines a 57-byte message
needs 4 = N/2 lines; after one such message has been written and consumed (`committed = delivered`:
drained, both cursors at 4) the same request is refused — and will be refused for ever, because
neither side (`8 − 4 − 1` and `4 − 1`) has 4 lines. -/
theorem half_ring_bound_is_tight :
    let s := (runSched step (mkInit 8 false [[.alloc 57 true, .fetch, .alloc 57 true]]).1 (seqSched 60)).1
    s.committed.length = 1 ∧ s.delivered.length = 1 ∧ s.W = 4 ∧ s.R = 4 ∧ s.fails = 1 ∧ s.wedge = 0 := by
  decide

/-- … and a ring of 4 cache lines accepts exactly one message (3 lines, the minimum) in its life. -/
theorem ring_of_four_wedges :
    let s := (runSched step (mkInit 4 false [[.alloc 1 true, .fetch, .alloc 1 true]]).1 (seqSched 60)).1
    s.committed.length = 1 ∧ s.delivered.length = 1 ∧ s.W = 3 ∧ s.R = 3 ∧ s.fails = 1 ∧ s.wedge = 0 := by
  decide

/-- **The literal clause 3 is false for the code** (negation witness; the failing input of the known
finding `C08-no-wedge-literal-half-ring`): ring of 8 cache lines, one thread `a57 f a57`. After 30
steps the second allocation — started on a drained ring, 57 ≤ 256 bytes — stands at the second test
with `cached_remain = 3 < 4 = n_cachelines`: it returns `NULL`, and would for ever (both cursors
stay at 4: `8 − 4 − 1 = 3` lines on the right, `4 − 1 = 3` on the left). -/
theorem no_wedge_literal_fails : ¬ no_wedge_literal := by
  intro h
  have hc : Client 0 0 false [[.alloc 57 true, .fetch, .alloc 57 true]] := by
    refine ⟨?_, ?_, ?_⟩
    · intro t op h; rcases t with _ | t <;> simp at h <;> rcases h with rfl | rfl | rfl <;> simp [OpOk]
    · intro t ht op h; rcases t with _ | t <;> simp at h ht
    · intro _ t ht op h; rcases t with _ | t <;> simp at h ht
  have hr := reach_runSched step (mkInit 8 false [[.alloc 57 true, .fetch, .alloc 57 true]]).1 _
    Reach.init (seqSched 30)
  have := h 8 0 0 false _ (by decide) hc _ hr 0 (by decide) (by decide) (by decide)
  revert this
  decide

/-! ## non-vacuity -/

/-- the hypotheses are satisfiable: one writer, one reader, no lock -/
example : Client 0 1 false [[.alloc 5 true, .alloc 100 true, .alloc 60 true], [.fetch, .fetch, .fetch]] := by
  refine ⟨?_, ?_, ?_⟩
  · intro t op h; rcases t with _ | _ | t <;> simp at h <;> rcases h with rfl | rfl | rfl <;> simp [OpOk]
  · intro t ht op h; rcases t with _ | _ | t <;> simp at h ht <;> rcases h with rfl | rfl | rfl <;> simp [isFetch]
  · intro _ t ht op h; rcases t with _ | _ | t <;> simp at h ht <;> rcases h with rfl | rfl | rfl <;> simp [isFetch]

/-- … and two writers under the lock plus a reader -/
example : Client 0 2 true [[.alloc 5 true], [.alloc 1 false, .alloc 9 true], [.fetch, .fetch]] := by
  refine ⟨?_, ?_, by intro h; cases h⟩
  · intro t op h; rcases t with _ | _ | _ | t <;> simp at h <;> (try rcases h with rfl | rfl) <;> simp_all [OpOk]
  · intro t ht op h; rcases t with _ | _ | _ | t <;> simp at h ht <;> (try rcases h with rfl | rfl) <;> simp_all [isFetch]

/-- a reachable state in which the ring has wrapped and three messages went through:
the theorems talk about non-trivial states -/
example :
    let s := (runSched step (mkInit 8 false [[.alloc 5 true, .alloc 100 true, .fetch, .fetch, .alloc 60 true,
                                               .fetch]]).1 (seqSched 120)).1
    s.delivered.length = 3 ∧ s.committed = s.delivered ∧ s.R = 4 ∧ s.W = 4 := by
  decide

end MgProof.C08
