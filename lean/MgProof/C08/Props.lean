import MgProof.C08.Lemmas
namespace MgProof.C08
open MgModel.Conc MgModel.C08
end MgProof.C08
