import MgProof.C08.Lemmas
/-! Framing lemmas: what a step of one thread leaves alone, and starting the next operation. -/
namespace MgProof.C08
open MgModel.Conc MgModel.C08

theorem excl_upd {pc : Nat → Pc} {t : Nat} {p : Pc}
    (h : ∀ a b, wsec (pc a) = true → wsec (pc b) = true → a = b)
    (hp : wsec p = true → wsec (pc t) = true ∨ ∀ a, a ≠ t → wsec (pc a) = false) :
    ∀ a b, wsec (upd pc t p a) = true → wsec (upd pc t p b) = true → a = b := by
  intro a b ha hb
  simp only [upd] at ha hb
  by_cases h1 : a = t <;> by_cases h2 : b = t <;> simp only [h1, h2, if_true, if_false] at ha hb
  · exact h1.trans h2.symm
  · rcases hp ha with h3 | h3
    · exact h1 ▸ h t b h3 hb
    · simp [h3 b h2] at hb
  · rcases hp hb with h3 | h3
    · exact h2 ▸ h a t ha h3
    · simp [h3 a h1] at ha
  · exact h a b ha hb

theorem WInv_of_not_wsec {s : St} {t : Nat} {p : Pc} (h : wsec p = false) : WInv s t p := by
  cases p <;> simp [wsec] at h <;> trivial

theorem RInv_of_not_rsec {s : St} {p : Pc} (h : rsec p = false) : RInv s p := by
  cases p <;> simp [rsec] at h <;> trivial

/-- the fields `WInv … t'` reads -/
structure WEq (s s' : St) (t' : Nat) : Prop where
  N : s'.N = s.N
  W : s'.W = s.W
  CR : s'.CR = s.CR
  WH : s'.WH = s.WH
  R : s'.R = s.R
  mark : s'.mark = s.mark
  q1 : s'.q1 = s.q1
  q2 : s'.q2 = s.q2
  hb : s'.hb = s.hb
  hc : s'.hc = s.hc
  pb : s'.pb = s.pb
  cur : s'.cur t' = s.cur t'

theorem WInv.congr {s s' : St} {t' : Nat} {p : Pc} (e : WEq s s' t') (h : WInv s t' p) : WInv s' t' p := by
  obtain ⟨e1, e2, e3, e4, e5, e6, e7, e8, e9, e10, e11, e12⟩ := e
  cases p <;>
    simp only [WInv, Dh, Q0, Rv, Um, Built, CRmoved, e1, e2, e3, e4, e5, e6, e7, e8, e9, e10, e11, e12] at h ⊢ <;>
    exact h

/-- the fields `RInv` reads -/
structure REq (s s' : St) : Prop where
  R : s'.R = s.R
  RH : s'.RH = s.RH
  mark : s'.mark = s.mark
  q1 : s'.q1 = s.q1
  q2 : s'.q2 = s.q2
  rP0 : s'.rP0 = s.rP0
  rMk0 : s'.rMk0 = s.rMk0
  rcur : s'.rcur = s.rcur

theorem RInv.congr {s s' : St} {p : Pc} (e : REq s s') (h : RInv s p) : RInv s' p := by
  obtain ⟨e1, e2, e3, e4, e5, e6, e7, e8⟩ := e
  cases p <;> simp only [RInv, Fw, Held, e1, e2, e3, e4, e5, e6, e7, e8] at h ⊢ <;> exact h

/-- thread `t'` keeps its facts when the step of another thread leaves what they read alone -/
theorem ThrInv.other {wt rt : Nat} {s s' : St} {t' : Nat} (o : ThrInv wt rt s t')
    (hpc : s'.pc t' = s.pc t') (hprog : s'.prog t' = s.prog t') (hcur : s'.cur t' = s.cur t')
    (hul : s'.useLock = s.useLock) (hlock : wsec (s.pc t') = true → s.lock = 1 → s'.lock = 1)
    (hw : WInv s t' (s.pc t') → WInv s' t' (s.pc t'))
    (hr : RInv s (s.pc t') → RInv s' (s.pc t')) : ThrInv wt rt s' t' := by
  refine ⟨?_, ?_, ?_, ?_, ?_, ?_, ?_⟩
  · have := o.prog; unfold ProgOk at *; rw [hprog, hul]; exact this
  · rw [hpc]; intro h; have := o.cur h; unfold CurOk at *; rw [hcur]; exact this
  · rw [hpc, hul]; intro h; exact ⟨fun h2 => hlock h ((o.lk h).1 h2), (o.lk h).2⟩
  · rw [hpc, hul]; exact o.lku
  · rw [hpc]; exact o.rd
  · rw [hpc]; exact hw o.w
  · rw [hpc]; exact hr o.r

/-- the stepping thread: new program counter `p'` in the same section(s) as the old one -/
theorem ThrInv.self {wt rt : Nat} {s s' : St} {t : Nat} {p' : Pc} (ti : ThrInv wt rt s t)
    (hpc : s'.pc t = p') (hprog : s'.prog t = s.prog t) (hul : s'.useLock = s.useLock)
    (hcur : asec p' = true → CurOk s' t)
    (hws : wsec p' = true → wsec (s.pc t) = true ∧ (s.lock = 1 → s'.lock = 1))
    (hlku : (p' = .lk ∨ p' = .lkY ∨ p' = .unl) → s.useLock = true)
    (hrs : rsec p' = true → rsec (s.pc t) = true)
    (hw : WInv s' t p') (hr : RInv s' p') : ThrInv wt rt s' t := by
  refine ⟨?_, ?_, ?_, ?_, ?_, ?_, ?_⟩
  · have := ti.prog; unfold ProgOk at *; rw [hprog, hul]; exact this
  · rw [hpc]; exact hcur
  · rw [hpc, hul]; intro h
    have := hws h
    exact ⟨fun h2 => this.2 ((ti.lk this.1).1 h2), (ti.lk this.1).2⟩
  · rw [hpc, hul]; exact hlku
  · rw [hpc]; intro h; exact ti.rd (hrs h)
  · rw [hpc]; exact hw
  · rw [hpc]; exact hr

/-- nobody else is inside the write section while `t` is -/
theorem Inv.others_out {wt rt : Nat} {s : St} {t : Nat} (inv : Inv wt rt s) (h : wsec (s.pc t) = true)
    {t' : Nat} (ht : t' ≠ t) : wsec (s.pc t') = false := by
  cases h' : wsec (s.pc t') with
  | false => rfl
  | true => exact absurd (inv.excl t' t h' h) ht

theorem Inv.reader_unique {wt rt : Nat} {s : St} {t : Nat} (inv : Inv wt rt s) (h : rsec (s.pc t) = true)
    {t' : Nat} (ht : t' ≠ t) : rsec (s.pc t') = false := by
  cases h' : rsec (s.pc t') with
  | false => rfl
  | true => exact absurd (((inv.thr t').rd h').trans ((inv.thr t).rd h).symm) ht

/-! ## starting the next operation -/

/-- `Inv` except for thread `t`, which is between two operations -/
structure InvX (wt rt : Nat) (s : St) (t : Nat) : Prop where
  geo  : Geo s
  crok : CROk s
  rle  : s.R + 1 ≤ s.N
  msgs : ∀ m, m ∈ s.q1 ++ s.q2 → MsgOk s m
  log  : s.committed = s.delivered ++ (s.q1 ++ s.q2)
  cnt  : s.fifoViol = 0 ∧ s.overlapViol = 0 ∧ s.boundsViol = 0 ∧ s.corrupt = 0 ∧ s.wedge = 0 ∧
         s.noneViol = 0 ∧ s.errs = 0
  excl : ∀ a b, a ≠ t → b ≠ t → wsec (s.pc a) = true → wsec (s.pc b) = true → a = b
  thr  : ∀ t', t' ≠ t → ThrInv wt rt s t'
  prog : ProgOk wt rt s t

theorem drained_q0 {s : St} (hlog : s.committed = s.delivered ++ (s.q1 ++ s.q2))
    (h : s.drained = true) : Q0 s := by
  simp only [St.drained, hlog, List.length_append, beq_iff_eq] at h
  have h1 : s.q1.length = 0 := by omega
  have h2 : s.q2.length = 0 := by omega
  exact ⟨List.length_eq_zero_iff.mp h1, List.length_eq_zero_iff.mp h2⟩


theorem excl_of_x {pc : Nat → Pc} {t : Nat} {p : Pc}
    (h : ∀ a b, a ≠ t → b ≠ t → wsec (pc a) = true → wsec (pc b) = true → a = b)
    (hp : wsec p = true → ∀ a, a ≠ t → wsec (pc a) = false) :
    ∀ a b, wsec (upd pc t p a) = true → wsec (upd pc t p b) = true → a = b := by
  intro a b ha hb
  simp only [upd] at ha hb
  by_cases h1 : a = t <;> by_cases h2 : b = t <;> simp only [h1, h2, if_true, if_false] at ha hb
  · exact h1.trans h2.symm
  · simp [hp ha b h2] at hb
  · simp [hp hb a h1] at ha
  · exact h a b h1 h2 ha hb

theorem ProgOk.tail {wt rt : Nat} {s s' : St} {t : Nat} {op : Op} {rest : List Op}
    (h : ProgOk wt rt s t) (hp : s.prog t = op :: rest) (hp' : s'.prog t = rest)
    (hul : s'.useLock = s.useLock) : ProgOk wt rt s' t := by
  unfold ProgOk at *
  rw [hp', hul]
  rw [hp] at h
  exact ⟨fun o ho => h.1 o (List.mem_cons_of_mem _ ho),
         fun h1 o ho => h.2.1 h1 o (List.mem_cons_of_mem _ ho),
         fun h1 h2 o ho => h.2.2 h1 h2 o (List.mem_cons_of_mem _ ho)⟩

/-- a thread between two operations starts its next one (or finishes) -/
theorem beginOp_inv {wt rt : Nat} {s : St} {t : Nat} (x : InvX wt rt s t) :
    Inv wt rt (beginOp s t).1 := by
  unfold beginOp
  split
  · -- program finished
    rename_i hp
    refine ⟨x.geo, x.crok, x.rle, x.msgs, x.log, x.cnt, ?_, ?_⟩
    · exact excl_of_x x.excl (by simp [wsec])
    · intro t'
      by_cases h : t' = t
      · subst h
        exact ⟨x.prog, by simp [asec, wsec], by simp [wsec], by simp, by simp [rsec],
               by simp [WInv], by simp [RInv]⟩
      · exact (x.thr t' h).other (by simp [upd, h]) rfl rfl rfl (fun _ h => h) id id
  · rename_i op rest hp
    cases op with
    | fetch =>
      refine ⟨x.geo, x.crok, x.rle, x.msgs, x.log, x.cnt, ?_, ?_⟩
      · exact excl_of_x x.excl (by simp [wsec])
      · intro t'
        by_cases h : t' = t
        · subst h
          refine ⟨x.prog.tail hp (by simp) rfl, by simp [asec, wsec], by simp [wsec], by simp, ?_,
                  by simp [WInv], by simp [RInv]⟩
          intro _
          by_cases hr : t' = rt
          · exact hr
          · have := x.prog.2.1 hr .fetch (by simp [hp])
            simp [isFetch] at this
        · exact (x.thr t' h).other (by simp [upd, h]) (by simp [upd, h]) rfl rfl (fun _ h => h) id id
    | alloc n c =>
      have hn : 1 ≤ n := x.prog.1 (.alloc n c) (by simp [hp])
      have hwt : s.useLock = false → t = wt := by
        intro hu
        by_cases hw : t = wt
        · exact hw
        · have := x.prog.2.2 hu hw (.alloc n c) (by simp [hp])
          simp [isFetch] at this
      refine ⟨x.geo, x.crok, x.rle, x.msgs, x.log, x.cnt, ?_, ?_⟩
      · apply excl_of_x x.excl
        intro hw a ha
        cases hu : s.useLock with
        | true => simp [hu, wsec] at hw
        | false =>
          cases h' : wsec (s.pc a) with
          | false => rfl
          | true => exact absurd (((x.thr a ha).lk h').2 hu |>.trans (hwt hu).symm) ha
      · intro t'
        by_cases h : t' = t
        · subst h
          refine ⟨x.prog.tail hp (by simp) rfl, ?_, ?_, ?_, ?_, ?_, ?_⟩
          · intro _; simp [CurOk, hn]
          · simp only [upd_same]
            cases hu : s.useLock with
            | true => simp [wsec]
            | false => simp [wsec]; exact hwt hu
          · simp only [upd_same]
            cases hu : s.useLock <;> simp
          · simp only [upd_same]
            cases hu : s.useLock <;> simp [rsec]
          · simp only [upd_same]
            cases hu : s.useLock with
            | true => simp [WInv]
            | false =>
              simp only [WInv, Dh, Q0, upd_same, Bool.false_eq_true, if_false]
              intro hd
              exact drained_q0 x.log hd.1
          · simp only [upd_same]
            cases hu : s.useLock <;> simp [RInv]
        · refine (x.thr t' h).other (by simp [upd, h]) (by simp [upd, h]) (by simp [upd, h]) rfl
            (fun _ h => h) ?_ id
          exact WInv.congr ⟨rfl, rfl, rfl, rfl, rfl, rfl, rfl, rfl, rfl, rfl, rfl, by simp [upd, h]⟩

/-- leaving an allocation: drop the write lock if it is used, else start the next operation -/
theorem release_inv {wt rt : Nat} {s : St} {t : Nat} (x : InvX wt rt s t)
    (hl : s.useLock = true → s.lock = 1) (hw : s.useLock = false → t = wt) (hc : CurOk s t)
    (hoth : ∀ t', t' ≠ t → wsec (s.pc t') = false) : Inv wt rt (release s t).1 := by
  unfold release
  split
  · rename_i hu
    refine ⟨x.geo, x.crok, x.rle, x.msgs, x.log, x.cnt, ?_, ?_⟩
    · exact excl_of_x x.excl (fun _ => hoth)
    · intro t'
      by_cases h : t' = t
      · subst h
        exact ⟨x.prog, fun _ => hc, by simp [wsec]; exact ⟨hl, hw⟩, by simp [hu], by simp [rsec],
               by simp [WInv], by simp [RInv]⟩
      · exact (x.thr t' h).other (by simp [upd, h]) rfl rfl rfl (fun _ h => h) id id
  · exact beginOp_inv x


/-- a step of thread `t` that stays inside the write section -/
theorem wstep {wt rt : Nat} {s s' : St} {t : Nat} {p' : Pc} (inv : Inv wt rt s)
    (hin : wsec (s.pc t) = true) (hp' : wsec p' = true) (hunl : p' ≠ .unl)
    (hpc : s'.pc = upd s.pc t p') (hprog : s'.prog = s.prog) (hul : s'.useLock = s.useLock)
    (hlock : s'.lock = s.lock) (hcuro : ∀ t', t' ≠ t → s'.cur t' = s.cur t') (hcur : CurOk s' t)
    (geo : Geo s') (crok : CROk s') (rle : s'.R + 1 ≤ s'.N)
    (msgs : ∀ m, m ∈ s'.q1 ++ s'.q2 → MsgOk s' m)
    (log : s'.committed = s'.delivered ++ (s'.q1 ++ s'.q2))
    (cnt : s'.fifoViol = 0 ∧ s'.overlapViol = 0 ∧ s'.boundsViol = 0 ∧ s'.corrupt = 0 ∧ s'.wedge = 0 ∧
           s'.noneViol = 0 ∧ s'.errs = 0)
    (hr : ∀ p, RInv s p → RInv s' p) (hw : WInv s' t p') : Inv wt rt s' := by
  refine ⟨geo, crok, rle, msgs, log, cnt, ?_, ?_⟩
  · rw [hpc]; exact excl_upd inv.excl (fun _ => Or.inl hin)
  · intro t'
    by_cases h : t' = t
    · subst h
      refine (inv.thr t').self (by rw [hpc]; simp) (by rw [hprog]) hul (fun _ => hcur)
        (fun _ => ⟨hin, fun h => by rw [hlock]; exact h⟩) ?_ ?_ hw ?_
      · intro h
        rcases h with h | h | h
        · subst h; simp [wsec] at hp'
        · subst h; simp [wsec] at hp'
        · exact absurd h hunl
      · intro h; cases p' <;> simp [wsec, rsec] at hp' h
      · apply RInv_of_not_rsec; cases p' <;> simp [wsec, rsec] at hp' ⊢
    · refine (inv.thr t').other (by rw [hpc]; simp [upd, h]) (by rw [hprog]) (hcuro t' h) hul
        (fun _ h => by rw [hlock]; exact h) (fun _ => WInv_of_not_wsec (inv.others_out hin h)) (hr _)

/-- a step of thread `t` that stays inside the read section -/
theorem rstep {wt rt : Nat} {s s' : St} {t : Nat} {p' : Pc} (inv : Inv wt rt s)
    (hin : rsec (s.pc t) = true) (hp' : rsec p' = true)
    (hpc : s'.pc = upd s.pc t p') (hprog : s'.prog = s.prog) (hul : s'.useLock = s.useLock)
    (hlock : s'.lock = s.lock) (hcur : s'.cur = s.cur)
    (geo : Geo s') (crok : CROk s') (rle : s'.R + 1 ≤ s'.N)
    (msgs : ∀ m, m ∈ s'.q1 ++ s'.q2 → MsgOk s' m)
    (log : s'.committed = s'.delivered ++ (s'.q1 ++ s'.q2))
    (cnt : s'.fifoViol = 0 ∧ s'.overlapViol = 0 ∧ s'.boundsViol = 0 ∧ s'.corrupt = 0 ∧ s'.wedge = 0 ∧
           s'.noneViol = 0 ∧ s'.errs = 0)
    (hw : ∀ t' p, t' ≠ t → WInv s t' p → WInv s' t' p) (hr : RInv s' p') : Inv wt rt s' := by
  have hnw : wsec p' = false := by cases p' <;> simp [wsec, rsec] at hp' ⊢
  have hnw0 : wsec (s.pc t) = false := by
    generalize s.pc t = p at hin; cases p <;> simp [wsec, rsec] at hin ⊢
  refine ⟨geo, crok, rle, msgs, log, cnt, ?_, ?_⟩
  · rw [hpc]; exact excl_upd inv.excl (fun h => by rw [hnw] at h; cases h)
  · intro t'
    by_cases h : t' = t
    · subst h
      refine (inv.thr t').self (by rw [hpc]; simp) (by rw [hprog]) hul ?_ ?_ ?_ (fun _ => hin)
        (WInv_of_not_wsec hnw) hr
      · intro h; cases p' <;> simp [asec, wsec, rsec] at hp' h
      · intro h; rw [hnw] at h; cases h
      · intro h; rcases h with h | h | h <;> subst h <;> simp [rsec] at hp'
    · refine (inv.thr t').other (by rw [hpc]; simp [upd, h]) (by rw [hprog]) (by rw [hcur]) hul
        (fun _ h => by rw [hlock]; exact h) (hw t' _ h) (fun _ => RInv_of_not_rsec (inv.reader_unique hin h))


/-- a writer step that ends the allocation: the step's own effect gives `s1` (program counters
untouched), then `release` -/
theorem finish_w {wt rt : Nat} {s s1 : St} {t : Nat} (inv : Inv wt rt s)
    (hin : wsec (s.pc t) = true)
    (hpc : s1.pc = s.pc) (hprog : s1.prog = s.prog) (hul : s1.useLock = s.useLock)
    (hlock : s1.lock = s.lock) (hcur : s1.cur = s.cur)
    (geo : Geo s1) (crok : CROk s1) (rle : s1.R + 1 ≤ s1.N)
    (msgs : ∀ m, m ∈ s1.q1 ++ s1.q2 → MsgOk s1 m)
    (log : s1.committed = s1.delivered ++ (s1.q1 ++ s1.q2))
    (cnt : s1.fifoViol = 0 ∧ s1.overlapViol = 0 ∧ s1.boundsViol = 0 ∧ s1.corrupt = 0 ∧ s1.wedge = 0 ∧
           s1.noneViol = 0 ∧ s1.errs = 0)
    (hr : ∀ p, RInv s p → RInv s1 p) : Inv wt rt (release s1 t).1 := by
  have ti := inv.thr t
  have hoth : ∀ t', t' ≠ t → wsec (s1.pc t') = false := by
    intro t' h; rw [hpc]; exact inv.others_out hin h
  refine release_inv ⟨geo, crok, rle, msgs, log, cnt, ?_, ?_, ?_⟩ ?_ ?_ ?_ hoth
  · intro a b _ _ ha hb; rw [hpc] at ha hb; exact inv.excl a b ha hb
  · intro t' h
    exact (inv.thr t').other (by rw [hpc]) (by rw [hprog]) (by rw [hcur]) hul
      (fun _ h => by rw [hlock]; exact h) (fun _ => WInv_of_not_wsec (inv.others_out hin h)) (hr _)
  · have := ti.prog; unfold ProgOk at *; rw [hprog, hul]; exact this
  · rw [hul, hlock]; exact (ti.lk hin).1
  · rw [hul]; exact (ti.lk hin).2
  · have := ti.cur (by cases h : s.pc t <;> simp [h, asec, wsec] at hin ⊢)
    unfold CurOk at *; rw [hcur]; exact this

/-- a reader step that ends the fetch / the consumption: own effect `s1`, then `beginOp` -/
theorem finish_r {wt rt : Nat} {s s1 : St} {t : Nat} (inv : Inv wt rt s)
    (hin : rsec (s.pc t) = true)
    (hpc : s1.pc = s.pc) (hprog : s1.prog = s.prog) (hul : s1.useLock = s.useLock)
    (hlock : s1.lock = s.lock) (hcur : s1.cur = s.cur)
    (geo : Geo s1) (crok : CROk s1) (rle : s1.R + 1 ≤ s1.N)
    (msgs : ∀ m, m ∈ s1.q1 ++ s1.q2 → MsgOk s1 m)
    (log : s1.committed = s1.delivered ++ (s1.q1 ++ s1.q2))
    (cnt : s1.fifoViol = 0 ∧ s1.overlapViol = 0 ∧ s1.boundsViol = 0 ∧ s1.corrupt = 0 ∧ s1.wedge = 0 ∧
           s1.noneViol = 0 ∧ s1.errs = 0)
    (hw : ∀ t' p, t' ≠ t → WInv s t' p → WInv s1 t' p) : Inv wt rt (beginOp s1 t).1 := by
  have ti := inv.thr t
  refine beginOp_inv ⟨geo, crok, rle, msgs, log, cnt, ?_, ?_, ?_⟩
  · intro a b _ _ ha hb; rw [hpc] at ha hb; exact inv.excl a b ha hb
  · intro t' h
    exact (inv.thr t').other (by rw [hpc]) (by rw [hprog]) (by rw [hcur]) hul
      (fun _ h => by rw [hlock]; exact h) (hw t' _ h) (fun _ => RInv_of_not_rsec (inv.reader_unique hin h))
  · have := ti.prog; unfold ProgOk at *; rw [hprog, hul]; exact this

end MgProof.C08
