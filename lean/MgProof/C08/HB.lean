import MgProof.C08.Main
/-!
# C08 — happens-before: no read of the data area is stale

Every plain write of a data cell gets a fresh id (`cellW`, `nextW`); `know t` is the set of write
ids thread `t` is guaranteed to see; the release stores of `write_cursor` publish `know t` in
`relW`, the acquire load in `r_fetch` joins it (the write lock does the same through `relL`).
`stale` counts reads of a cell whose latest write is not in the reader's `know`. `HInv` shows it
stays 0: what the reader is about to parse was published before it loaded `write_cursor`.
-/
namespace MgProof.C08
open MgModel.Conc MgModel.C08

/-- thread `t` is guaranteed to see the header and the payload of `m` -/
def Seen (s : St) (t : Nat) (m : Msg) : Prop :=
  ∀ i, i < spanCells m.nb → s.cellW (m.cell + i) ∈ s.know t

def HW (s : St) (t : Nat) : Pc → Prop
  | .um3 _ _ | .um4 _ => s.cellW s.W ∈ s.know t
  | .p1 _ | .m1 | .m2 _ | .m3 _ | .m4 _ _ | .m5 _ | .m6 _ _ =>
    ∀ i, i < spanCells (s.cur t).n → s.cellW (s.W + i) ∈ s.know t
  | _ => True

/-- a fetch that loaded `w` from `write_cursor` sees whatever it may parse -/
def HK (s : St) (t w : Nat) : Prop :=
  (s.rMk0 = false → w ≠ s.R → ∃ m l, s.q1 = m :: l ∧ Seen s t m) ∧
  (s.rMk0 = true → (∀ m l, s.q1 = m :: l → Seen s t m) ∧ (∀ M, s.mark = some M → s.cellW M ∈ s.know t) ∧
                   (w ≠ 0 → ∃ m l, s.q2 = m :: l ∧ Seen s t m))

def HeadSeen (s : St) (t : Nat) : Prop := ∃ m l, s.q1 = m :: l ∧ Seen s t m

def HR (s : St) (t : Nat) : Pc → Prop
  | .f1 w | .f2 w | .f3 w _ | .f4 w | .f5 w _ => HK s t w
  | .g1 | .g2 _ | .g3 _ | .rp _ _ | .k2 | .k3 _ | .k4 | .k5 _ | .r1 | .r2 _ => HeadSeen s t
  | .k1 => ∃ m l, s.q2 = m :: l ∧ Seen s t m
  | _ => True

structure HInv (wt : Nat) (s : St) : Prop where
  stale : s.stale = 0
  pub  : ∀ m, m ∈ s.q1 ++ s.q2 → ∀ i, i < spanCells m.nb → s.cellW (m.cell + i) ∈ s.relW
  mrk  : ∀ M, s.mark = some M → s.cellW M ∈ s.relW
  relw : ∀ t, wsec (s.pc t) = true → s.relW ⊆ s.know t
  rel0 : s.useLock = false → s.relW ⊆ s.know wt
  rell : s.useLock = true → s.lock = 0 → s.relW ⊆ s.relL
  w    : ∀ t, HW s t (s.pc t)
  r    : ∀ t, HR s t (s.pc t)

theorem HW_of_not_wsec {s : St} {t : Nat} {p : Pc} (h : wsec p = false) : HW s t p := by
  cases p <;> simp [wsec] at h <;> trivial

theorem HR_of_not_rsec {s : St} {t : Nat} {p : Pc} (h : rsec p = false) : HR s t p := by
  cases p <;> simp [rsec] at h <;> trivial

/-- fields `HW … t'` reads -/
theorem HW.congr {s s' : St} {t' : Nat} {p : Pc}
    (e : s'.cellW = s.cellW ∧ s'.W = s.W ∧ s'.know t' = s.know t' ∧ s'.cur t' = s.cur t')
    (h : HW s t' p) : HW s' t' p := by
  obtain ⟨e1, e2, e3, e4⟩ := e
  cases p <;> simp only [HW, e1, e2, e3, e4] at h ⊢ <;> exact h

/-- fields `HR … t'` reads -/
theorem HR.congr {s s' : St} {t' : Nat} {p : Pc}
    (e : s'.cellW = s.cellW ∧ s'.R = s.R ∧ s'.know t' = s.know t' ∧ s'.q1 = s.q1 ∧ s'.q2 = s.q2 ∧
         s'.mark = s.mark ∧ s'.rMk0 = s.rMk0)
    (h : HR s t' p) : HR s' t' p := by
  obtain ⟨e1, e2, e3, e4, e5, e6, e7⟩ := e
  cases p <;> simp only [HR, HK, HeadSeen, Seen, e1, e2, e3, e4, e5, e6, e7] at h ⊢ <;> exact h

/-- the generic shape of a step of thread `t`: the global part is given for the new state, the other
threads keep their facts -/
theorem hstep {wt : Nat} {s s' : St} {t : Nat} {p' : Pc} (h : HInv wt s)
    (hpc : s'.pc = upd s.pc t p')
    (stale : s'.stale = 0)
    (pub : ∀ m, m ∈ s'.q1 ++ s'.q2 → ∀ i, i < spanCells m.nb → s'.cellW (m.cell + i) ∈ s'.relW)
    (mrk : ∀ M, s'.mark = some M → s'.cellW M ∈ s'.relW)
    (relw : wsec p' = true → s'.relW ⊆ s'.know t)
    (relwo : ∀ t', t' ≠ t → wsec (s.pc t') = true → s'.relW ⊆ s'.know t')
    (rel0 : s'.useLock = false → s'.relW ⊆ s'.know wt)
    (rell : s'.useLock = true → s'.lock = 0 → s'.relW ⊆ s'.relL)
    (hw : HW s' t p') (hwo : ∀ t', t' ≠ t → HW s t' (s.pc t') → HW s' t' (s.pc t'))
    (hr : HR s' t p') (hro : ∀ t', t' ≠ t → HR s t' (s.pc t') → HR s' t' (s.pc t')) : HInv wt s' := by
  refine ⟨stale, pub, mrk, ?_, rel0, rell, ?_, ?_⟩
  · intro t' ht'
    rw [hpc] at ht'
    by_cases e : t' = t
    · subst e; simp only [upd_same] at ht'; exact relw ht'
    · simp only [upd, e, if_false] at ht'; exact relwo t' e ht'
  · intro t'
    rw [hpc]
    by_cases e : t' = t
    · subst e; simp only [upd_same]; exact hw
    · simp only [upd, e, if_false]; exact hwo t' e (h.w t')
  · intro t'
    rw [hpc]
    by_cases e : t' = t
    · subst e; simp only [upd_same]; exact hr
    · simp only [upd, e, if_false]; exact hro t' e (h.r t')

/-- a step that leaves every happens-before field alone and moves `t` to `p'` -/
theorem hlocal {wt : Nat} {s s' : St} {t : Nat} {p' : Pc} (h : HInv wt s)
    (hpc : s'.pc = upd s.pc t p')
    (e : s'.stale = s.stale ∧ s'.q1 = s.q1 ∧ s'.q2 = s.q2 ∧ s'.cellW = s.cellW ∧ s'.relW = s.relW ∧
         s'.mark = s.mark ∧ s'.know = s.know ∧ s'.useLock = s.useLock ∧ s'.lock = s.lock ∧
         s'.relL = s.relL ∧ s'.W = s.W ∧ s'.R = s.R ∧ s'.cur = s.cur ∧ s'.rMk0 = s.rMk0)
    (hws : wsec p' = true → wsec (s.pc t) = true)
    (hw : HW s t p') (hr : HR s t p') : HInv wt s' := by
  obtain ⟨e1, e2, e3, e4, e5, e6, e7, e8, e9, e10, e11, e12, e13, e14⟩ := e
  refine hstep h hpc (by rw [e1]; exact h.stale) ?_ ?_ ?_ ?_ ?_ ?_ ?_ ?_ ?_ ?_
  · rw [e2, e3, e4, e5]; exact h.pub
  · rw [e6, e4, e5]; exact h.mrk
  · intro hp; rw [e5, e7]; exact h.relw t (hws hp)
  · intro t' _ hp; rw [e5, e7]; exact h.relw t' hp
  · rw [e8, e5, e7]; exact h.rel0
  · rw [e8, e9, e5, e10]; exact h.rell
  · exact HW.congr ⟨e4, e11, by rw [e7], by rw [e13]⟩ hw
  · intro t' _ hh; exact HW.congr ⟨e4, e11, by rw [e7], by rw [e13]⟩ hh
  · exact HR.congr ⟨e4, e12, by rw [e7], e2, e3, e6, e14⟩ hr
  · intro t' _ hh; exact HR.congr ⟨e4, e12, by rw [e7], e2, e3, e6, e14⟩ hh

end MgProof.C08
