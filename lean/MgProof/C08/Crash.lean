import MgProof.C08.Main
/-! The writer-crash clause: a thread that only fetches, running alone from any reachable
state (the writers take no further step, wherever they are), commits nothing and can only
append to `delivered`. -/
namespace MgProof.C08
open MgModel.Conc MgModel.C08

theorem beginOp_log (s : St) (t : Nat) :
    (beginOp s t).1.committed = s.committed ∧ (beginOp s t).1.delivered = s.delivered := by
  unfold beginOp; split
  · exact ⟨rfl, rfl⟩
  · split <;> exact ⟨rfl, rfl⟩

theorem beginOp_frame (s : St) (t : Nat) {t' : Nat} (h : t' ≠ t) :
    (beginOp s t).1.pc t' = s.pc t' ∧ (beginOp s t).1.prog t' = s.prog t' := by
  unfold beginOp; split
  · simp [upd, h]
  · split <;> simp [upd, h]

/-- thread `t` only ever fetches -/
def PureReader (t : Nat) (s : St) : Prop :=
  (∀ op, op ∈ s.prog t → isFetch op = true) ∧ asec (s.pc t) = false

theorem beginOp_pure {s : St} {t : Nat} (h : ∀ op, op ∈ s.prog t → isFetch op = true) :
    PureReader t (beginOp s t).1 := by
  unfold beginOp
  split
  · rename_i hp; exact ⟨by simp [hp], by simp [asec, wsec]⟩
  · rename_i op rest hp
    cases op with
    | fetch =>
      refine ⟨?_, by simp [asec, wsec]⟩
      intro o ho
      simp only [upd_same] at ho
      exact h o (by rw [hp]; exact List.mem_cons_of_mem _ ho)
    | alloc n c => have := h (.alloc n c) (by simp [hp]); simp [isFetch] at this

/-- a step of a pure reader commits nothing, stays a pure reader, and can only append to `delivered` -/
theorem reader_step {s s' : St} {tok : Tok} {ev : List String} (hp : PureReader tok.tid s)
    (hs : step s tok = some (s', ev)) :
    PureReader tok.tid s' ∧ s'.committed = s.committed ∧ ∃ d, s'.delivered = s.delivered ++ d := by
  obtain ⟨hprog, hpc⟩ := hp
  unfold step at hs
  simp only [] at hs
  split at hs
  · simp at hs
  · split at hs
    all_goals (first | (rename_i h; rw [h] at hpc; simp [asec, wsec] at hpc; done) | skip)
    all_goals (rename_i hpc')
    all_goals (repeat' (split at hs))
    all_goals (simp only [MgModel.C08.fail, Option.some.injEq, Prod.mk.injEq, reduceCtorEq] at hs)
    all_goals (try (obtain ⟨rfl, -⟩ := hs))
    all_goals (first
      | (exact ⟨⟨hprog, by simp [asec, wsec]⟩, rfl, [], by simp⟩)
      | (refine ⟨beginOp_pure hprog, (beginOp_log _ _).1, ?_⟩
         rw [(beginOp_log _ _).2]
         first
           | exact ⟨_, rfl⟩
           | exact ⟨[], (List.append_nil _).symm⟩))

/-- a step of one thread does not move another thread -/
theorem step_frame {s s' : St} {tok : Tok} {ev : List String} (hs : step s tok = some (s', ev))
    {t : Nat} (ht : t ≠ tok.tid) : s'.pc t = s.pc t ∧ s'.prog t = s.prog t := by
  unfold step at hs
  simp only [] at hs
  split at hs
  · simp at hs
  · split at hs
    all_goals (repeat' (split at hs))
    all_goals (simp only [MgModel.C08.fail, release, afterPayload, Option.some.injEq, Prod.mk.injEq, reduceCtorEq] at hs)
    all_goals (try (obtain ⟨rfl, -⟩ := hs))
    all_goals (repeat' split)
    all_goals (first
      | (constructor <;> simp [upd, ht, noteWrite] <;> done)
      | (constructor
         · rw [(beginOp_frame _ _ ht).1] <;> (try simp [noteWrite])
         · rw [(beginOp_frame _ _ ht).2] <;> (try simp [noteWrite])))


theorem PureReader.step {rt : Nat} {s s' : St} {tok : Tok} {ev : List String} (hp : PureReader rt s)
    (hs : step s tok = some (s', ev)) : PureReader rt s' := by
  by_cases h : rt = tok.tid
  · subst h; exact (reader_step hp hs).1
  · obtain ⟨e1, e2⟩ := step_frame hs h
    unfold PureReader at *
    rw [e1, e2]; exact hp

theorem prologue_pure {rt : Nat} {s : St} (hp : PureReader rt s) (ts : List Nat) :
    PureReader rt (prologue s ts).1 := by
  induction ts generalizing s with
  | nil => exact hp
  | cons t ts ih =>
    simp only [prologue]
    apply ih
    by_cases h : rt = t
    · subst h; exact beginOp_pure hp.1
    · obtain ⟨e1, e2⟩ := beginOp_frame s t h
      unfold PureReader at *
      rw [e1, e2]; exact hp

/-- a thread whose program contains only fetches stays a pure reader in every reachable state -/
theorem reach_pure {rt N : Nat} {useLock : Bool} {progs : List (List Op)}
    (hr : ∀ op, op ∈ progs.getD rt [] → isFetch op = true) :
    ∀ s, Reach step (mkInit N useLock progs).1 s → PureReader rt s := by
  apply Reach.inv
  · apply prologue_pure
    exact ⟨hr, by simp [mkBase, asec, wsec]⟩
  · intro s tok s' ev hp hs; exact hp.step hs

/-- the pure reader running alone: nothing is committed, `delivered` only grows -/
theorem reader_alone {rt : Nat} {s : St} (hp : PureReader rt s) (ts : List Tok)
    (hts : ∀ tok, tok ∈ ts → tok.tid = rt) :
    PureReader rt (runSched step s ts).1 ∧ (runSched step s ts).1.committed = s.committed ∧
    ∃ d, (runSched step s ts).1.delivered = s.delivered ++ d := by
  induction ts generalizing s with
  | nil => exact ⟨hp, rfl, [], by simp [runSched]⟩
  | cons tok ts ih =>
    simp only [runSched]
    cases h : step s tok with
    | none => exact ⟨hp, rfl, [], by simp⟩
    | some p =>
      obtain ⟨s1, ev⟩ := p
      have ht : tok.tid = rt := hts tok (by simp)
      subst ht
      obtain ⟨hp1, hc1, d1, hd1⟩ := reader_step hp h
      obtain ⟨hp2, hc2, d2, hd2⟩ := ih hp1 (fun t ht => hts t (List.mem_cons_of_mem _ ht))
      refine ⟨hp2, hc2.trans hc1, d1 ++ d2, ?_⟩
      rw [hd2, hd1, List.append_assoc]

end MgProof.C08
