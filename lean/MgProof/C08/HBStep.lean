import MgProof.C08.HB
/-! Every step preserves `HInv` (given `Inv`). -/
namespace MgProof.C08
open MgModel.Conc MgModel.C08

variable {wt rt : Nat} {s s' : St} {tok : Tok} {ev : List String}

/-- `HInv` except for thread `t`, which is between two operations -/
structure HInvX (wt : Nat) (s : St) (t : Nat) : Prop where
  stale : s.stale = 0
  pub  : ∀ m, m ∈ s.q1 ++ s.q2 → ∀ i, i < spanCells m.nb → s.cellW (m.cell + i) ∈ s.relW
  mrk  : ∀ M, s.mark = some M → s.cellW M ∈ s.relW
  relw : ∀ t', t' ≠ t → wsec (s.pc t') = true → s.relW ⊆ s.know t'
  rel0 : s.useLock = false → s.relW ⊆ s.know wt
  rell : s.useLock = true → s.lock = 0 → s.relW ⊆ s.relL
  w    : ∀ t', t' ≠ t → HW s t' (s.pc t')
  r    : ∀ t', t' ≠ t → HR s t' (s.pc t')

theorem beginOp_hinv {t : Nat} (x : HInvX wt s t) (hp : ProgOk wt rt s t) : HInv wt (beginOp s t).1 := by
  unfold beginOp
  split
  · refine ⟨x.stale, x.pub, x.mrk, ?_, x.rel0, x.rell, ?_, ?_⟩
    · intro t' ht'
      by_cases e : t' = t
      · subst e; simp [wsec] at ht'
      · simp only [upd, e, if_false] at ht'; exact x.relw t' e ht'
    · intro t'
      by_cases e : t' = t
      · subst e; simp [HW]
      · simp only [upd, e, if_false]; exact x.w t' e
    · intro t'
      by_cases e : t' = t
      · subst e; simp [HR]
      · simp only [upd, e, if_false]; exact x.r t' e
  · rename_i op rest hpr
    cases op with
    | fetch =>
      refine ⟨x.stale, x.pub, x.mrk, ?_, x.rel0, x.rell, ?_, ?_⟩
      · intro t' ht'
        by_cases e : t' = t
        · subst e; simp [wsec] at ht'
        · simp only [upd, e, if_false] at ht'; exact x.relw t' e ht'
      · intro t'
        by_cases e : t' = t
        · subst e; simp [HW]
        · simp only [upd, e, if_false]; exact x.w t' e
      · intro t'
        by_cases e : t' = t
        · subst e; simp [HR]
        · simp only [upd, e, if_false]; exact x.r t' e
    | alloc n c =>
      have hwt : s.useLock = false → t = wt := by
        intro hu
        by_cases hw : t = wt
        · exact hw
        · have := hp.2.2 hu hw (.alloc n c) (by simp [hpr])
          simp [isFetch] at this
      refine ⟨x.stale, x.pub, x.mrk, ?_, x.rel0, x.rell, ?_, ?_⟩
      · intro t' ht'
        by_cases e : t' = t
        · subst e
          simp only [upd_same] at ht'
          cases hu : s.useLock with
          | true => simp [hu, wsec] at ht'
          | false => have := hwt hu; subst this; exact x.rel0 hu
        · simp only [upd, e, if_false] at ht'; exact x.relw t' e ht'
      · intro t'
        by_cases e : t' = t
        · subst e; simp only [upd_same]; cases s.useLock <;> simp [HW]
        · simp only [upd, e, if_false]
          exact HW.congr (s := s) ⟨rfl, rfl, rfl, by simp [upd, e]⟩ (x.w t' e)
      · intro t'
        by_cases e : t' = t
        · subst e; simp only [upd_same]; cases s.useLock <;> simp [HR]
        · simp only [upd, e, if_false]; exact x.r t' e

theorem release_hinv {t : Nat} (x : HInvX wt s t) (hp : ProgOk wt rt s t) (hrel : s.relW ⊆ s.know t) :
    HInv wt (release s t).1 := by
  unfold release
  split
  · refine ⟨x.stale, x.pub, x.mrk, ?_, x.rel0, x.rell, ?_, ?_⟩
    · intro t' ht'
      by_cases e : t' = t
      · subst e; exact hrel
      · simp only [upd, e, if_false] at ht'; exact x.relw t' e ht'
    · intro t'
      by_cases e : t' = t
      · subst e; simp [HW]
      · simp only [upd, e, if_false]; exact x.w t' e
    · intro t'
      by_cases e : t' = t
      · subst e; simp [HR]
      · simp only [upd, e, if_false]; exact x.r t' e
  · exact beginOp_hinv x hp

theorem HInv.toX (h : HInv wt s) (t : Nat) : HInvX wt s t :=
  ⟨h.stale, h.pub, h.mrk, fun t' _ => h.relw t', h.rel0, h.rell, fun t' _ => h.w t', fun t' _ => h.r t'⟩

/-- local steps: nothing the happens-before invariant reads changes, the facts of the new program
counter follow from those of the old one -/
syntax "hb_local " ident ident ident ident ident : tactic
macro_rules
  | `(tactic| hb_local $h $ht $hpc $hs $tok) => `(tactic| (
      have hw0 := HInv.w $h (Tok.tid $tok)
      have hr0 := HInv.r $h (Tok.tid $tok)
      rw [$hpc:ident] at hw0 hr0
      simp only [step, $ht:ident, $hpc:ident, if_false] at $hs:ident
      repeat' (split at $hs:ident)
      all_goals (simp only [MgModel.C08.fail, Option.some.injEq, Prod.mk.injEq, reduceCtorEq] at $hs:ident)
      all_goals (obtain ⟨e, -⟩ := $hs; subst e)
      all_goals (refine hlocal $h rfl ⟨rfl, rfl, rfl, rfl, rfl, rfl, rfl, rfl, rfl, rfl, rfl, rfl, rfl, rfl⟩ ?_ ?_ ?_)
      all_goals (first
        | trivial
        | exact hw0
        | exact hr0
        | (intro _; rw [$hpc:ident]; rfl)
        | (split <;> first | trivial | exact hw0 | exact hr0)
        | (intro hh; exfalso; revert hh; (try split) <;> simp [wsec] <;> done))))

theorem hb_lkY (h : HInv wt s) (ht : ¬ tok.tid ≥ s.nthr) (hpc : s.pc tok.tid = .lkY)
    (hs : step s tok = some (s', ev)) : HInv wt s' := by
  hb_local h ht hpc hs tok

theorem hb_a1 (h : HInv wt s) (ht : ¬ tok.tid ≥ s.nthr) (hpc : s.pc tok.tid = .a1)
    (hs : step s tok = some (s', ev)) : HInv wt s' := by
  hb_local h ht hpc hs tok

theorem hb_u0 (h : HInv wt s) (ht : ¬ tok.tid ≥ s.nthr) (hpc : s.pc tok.tid = .u0)
    (hs : step s tok = some (s', ev)) : HInv wt s' := by
  hb_local h ht hpc hs tok

theorem hb_u1 {r : Nat} (h : HInv wt s) (ht : ¬ tok.tid ≥ s.nthr) (hpc : s.pc tok.tid = .u1 r)
    (hs : step s tok = some (s', ev)) : HInv wt s' := by
  hb_local h ht hpc hs tok

theorem hb_ug {r : Nat} (h : HInv wt s) (ht : ¬ tok.tid ≥ s.nthr) (hpc : s.pc tok.tid = .ug r)
    (hs : step s tok = some (s', ev)) : HInv wt s' := by
  hb_local h ht hpc hs tok

theorem hb_ugw {v : Nat} (h : HInv wt s) (ht : ¬ tok.tid ≥ s.nthr) (hpc : s.pc tok.tid = .ugw v)
    (hs : step s tok = some (s', ev)) : HInv wt s' := by
  hb_local h ht hpc hs tok

theorem hb_ul {r : Nat} (h : HInv wt s) (ht : ¬ tok.tid ≥ s.nthr) (hpc : s.pc tok.tid = .ul r)
    (hs : step s tok = some (s', ev)) : HInv wt s' := by
  hb_local h ht hpc hs tok

theorem hb_ulw {v : Nat} (h : HInv wt s) (ht : ¬ tok.tid ≥ s.nthr) (hpc : s.pc tok.tid = .ulw v)
    (hs : step s tok = some (s', ev)) : HInv wt s' := by
  hb_local h ht hpc hs tok

theorem hb_um1 {r : Nat} (h : HInv wt s) (ht : ¬ tok.tid ≥ s.nthr) (hpc : s.pc tok.tid = .um1 r)
    (hs : step s tok = some (s', ev)) : HInv wt s' := by
  hb_local h ht hpc hs tok

theorem hb_um5 {r : Nat} (h : HInv wt s) (ht : ¬ tok.tid ≥ s.nthr) (hpc : s.pc tok.tid = .um5 r)
    (hs : step s tok = some (s', ev)) : HInv wt s' := by
  hb_local h ht hpc hs tok

theorem hb_h1 (h : HInv wt s) (ht : ¬ tok.tid ≥ s.nthr) (hpc : s.pc tok.tid = .h1)
    (hs : step s tok = some (s', ev)) : HInv wt s' := by
  hb_local h ht hpc hs tok

theorem hb_m1 (h : HInv wt s) (ht : ¬ tok.tid ≥ s.nthr) (hpc : s.pc tok.tid = .m1)
    (hs : step s tok = some (s', ev)) : HInv wt s' := by
  hb_local h ht hpc hs tok

theorem hb_m3 {n : Nat} (h : HInv wt s) (ht : ¬ tok.tid ≥ s.nthr) (hpc : s.pc tok.tid = .m3 n)
    (hs : step s tok = some (s', ev)) : HInv wt s' := by
  hb_local h ht hpc hs tok

theorem hb_m4 {n cr : Nat} (h : HInv wt s) (ht : ¬ tok.tid ≥ s.nthr) (hpc : s.pc tok.tid = .m4 n cr)
    (hs : step s tok = some (s', ev)) : HInv wt s' := by
  hb_local h ht hpc hs tok

theorem hb_m5 {n : Nat} (h : HInv wt s) (ht : ¬ tok.tid ≥ s.nthr) (hpc : s.pc tok.tid = .m5 n)
    (hs : step s tok = some (s', ev)) : HInv wt s' := by
  hb_local h ht hpc hs tok

theorem hb_f2 {w : Nat} (h : HInv wt s) (ht : ¬ tok.tid ≥ s.nthr) (hpc : s.pc tok.tid = .f2 w)
    (hs : step s tok = some (s', ev)) : HInv wt s' := by
  hb_local h ht hpc hs tok

theorem hb_f3 {w r : Nat} (h : HInv wt s) (ht : ¬ tok.tid ≥ s.nthr) (hpc : s.pc tok.tid = .f3 w r)
    (hs : step s tok = some (s', ev)) : HInv wt s' := by
  hb_local h ht hpc hs tok

theorem hb_f4 {w : Nat} (h : HInv wt s) (ht : ¬ tok.tid ≥ s.nthr) (hpc : s.pc tok.tid = .f4 w)
    (hs : step s tok = some (s', ev)) : HInv wt s' := by
  hb_local h ht hpc hs tok

theorem hb_g1 (h : HInv wt s) (ht : ¬ tok.tid ≥ s.nthr) (hpc : s.pc tok.tid = .g1)
    (hs : step s tok = some (s', ev)) : HInv wt s' := by
  hb_local h ht hpc hs tok

theorem hb_g3 {nb : Nat} (h : HInv wt s) (ht : ¬ tok.tid ≥ s.nthr) (hpc : s.pc tok.tid = .g3 nb)
    (hs : step s tok = some (s', ev)) : HInv wt s' := by
  hb_local h ht hpc hs tok

theorem hb_k2 (h : HInv wt s) (ht : ¬ tok.tid ≥ s.nthr) (hpc : s.pc tok.tid = .k2)
    (hs : step s tok = some (s', ev)) : HInv wt s' := by
  hb_local h ht hpc hs tok

theorem hb_k3 {r : Nat} (h : HInv wt s) (ht : ¬ tok.tid ≥ s.nthr) (hpc : s.pc tok.tid = .k3 r)
    (hs : step s tok = some (s', ev)) : HInv wt s' := by
  hb_local h ht hpc hs tok

theorem hb_k4 (h : HInv wt s) (ht : ¬ tok.tid ≥ s.nthr) (hpc : s.pc tok.tid = .k4)
    (hs : step s tok = some (s', ev)) : HInv wt s' := by
  hb_local h ht hpc hs tok

theorem hb_r1 (h : HInv wt s) (ht : ¬ tok.tid ≥ s.nthr) (hpc : s.pc tok.tid = .r1)
    (hs : step s tok = some (s', ev)) : HInv wt s' := by
  hb_local h ht hpc hs tok

theorem hb_r3 {n : Nat} (h : HInv wt s) (ht : ¬ tok.tid ≥ s.nthr) (hpc : s.pc tok.tid = .r3 n)
    (hs : step s tok = some (s', ev)) : HInv wt s' := by
  hb_local h ht hpc hs tok

end MgProof.C08
