import MgProof.C08.StepW
/-! Writer-side steps, continued: wrap marker, header, payload, commit, unlock. -/
namespace MgProof.C08
open MgModel.Conc MgModel.C08

variable {wt rt : Nat} {s s' : St} {tok : Tok} {ev : List String}

/-- a store into cells `[a, a+k)` of the free region leaves every pending message intact -/
theorem msgs_frame (inv : Inv wt rt s) {a k : Nat} (ha : s.W ≤ a) (hk : a + k ≤ s.W + s.CR + 1)
    (hq1 : s'.q1 = s.q1) (hq2 : s'.q2 = s.q2)
    (hhb : ∀ i, (i < a ∨ a + k ≤ i) → s'.hb i = s.hb i)
    (hhc : ∀ i, (i < a ∨ a + k ≤ i) → s'.hc i = s.hc i)
    (hpb : ∀ i, (i < a ∨ a + k ≤ i) → s'.pb i = s.pb i) :
    ∀ m, m ∈ s'.q1 ++ s'.q2 → MsgOk s' m := by
  intro m hm
  rw [hq1, hq2] at hm
  have hf := inv.free (k := s.CR) inv.crok.1 inv.crok.2 hm
  exact (inv.msgs m hm).frame (a := a) (k := k) (by omega) hhb hhc hpb

/-- … and the pending wrap marker, if any -/
theorem geo_frame (inv : Inv wt rt s) {a k : Nat} (ha : s.W ≤ a) (hk : a + k ≤ s.W + s.CR + 1)
    (e : s'.mark = s.mark ∧ s'.R = s.R ∧ s'.W = s.W ∧ s'.q1 = s.q1 ∧ s'.q2 = s.q2 ∧ s'.N = s.N)
    (hhb : ∀ i, (i < a ∨ a + k ≤ i) → s'.hb i = s.hb i) : Geo s' := by
  obtain ⟨e1, e2, e3, e4, e5, e6⟩ := e
  have g := inv.geo
  unfold Geo at g ⊢
  rw [e1]
  cases hmk : s.mark with
  | none => simp only [hmk] at g ⊢; rw [e2, e3, e4, e5]; exact g
  | some M =>
    simp only [hmk] at g ⊢
    rw [e2, e3, e4, e5, e6]
    have := inv.free_mark (k := s.CR) inv.crok.2 hmk
    rw [hhb M (by omega)]
    exact g

theorem step_um1 {r : Nat} (inv : Inv wt rt s) (ht : ¬ tok.tid ≥ s.nthr) (hpc : s.pc tok.tid = .um1 r)
    (hs : step s tok = some (s', ev)) : Inv wt rt s' := by
  have ti := inv.thr tok.tid
  have hin : wsec (s.pc tok.tid) = true := by rw [hpc]; rfl
  have hw := ti.w; rw [hpc] at hw; simp only [WInv] at hw
  have hc := ti.cur (by rw [hpc]; rfl)
  simp only [step, ht, hpc, if_false, Option.some.injEq, Prod.mk.injEq] at hs
  obtain ⟨rfl, -⟩ := hs
  exact wlocal inv, hin, hc, ⟨rfl, hw⟩

theorem step_um2 {r w : Nat} (inv : Inv wt rt s) (ht : ¬ tok.tid ≥ s.nthr) (hpc : s.pc tok.tid = .um2 r w)
    (hs : step s tok = some (s', ev)) : Inv wt rt s' := by
  have ti := inv.thr tok.tid
  have hin : wsec (s.pc tok.tid) = true := by rw [hpc]; rfl
  have hw := ti.w; rw [hpc] at hw; simp only [WInv] at hw
  have hc := ti.cur (by rw [hpc]; rfl)
  obtain ⟨rfl, hum⟩ := hw
  have hwl := inv.wle
  have hnf : ¬ s.W ≥ s.N := by omega
  simp only [step, ht, hpc, if_false, hnf, noteWrite, Option.some.injEq, Prod.mk.injEq] at hs
  obtain ⟨rfl, -⟩ := hs
  have hout : ∀ (f : Nat → Option Nat) (v : Option Nat) (i : Nat), (i < s.W ∨ s.W + 1 ≤ i) → upd f s.W v i = f i := by
    intro f v i hi; simp [upd]; omega
  refine wstep inv hin rfl (by simp) rfl rfl rfl rfl (fun _ _ => rfl) hc ?_ inv.crok inv.rle ?_
    inv.log inv.cnt (fun _ h => h) ?_
  · exact geo_frame inv (a := s.W) (k := 1) (Nat.le_refl _) (by omega) ⟨rfl, rfl, rfl, rfl, rfl, rfl⟩ (hout _ _)
  · exact msgs_frame inv (a := s.W) (k := 1) (Nat.le_refl _) (by omega) rfl rfl (hout _ _) (fun _ _ => rfl) (hout _ _)
  · simp only [WInv, Um] at hum ⊢
    exact ⟨trivial, hum, by simp [upd]⟩

theorem step_um3 {r w : Nat} (inv : Inv wt rt s) (ht : ¬ tok.tid ≥ s.nthr) (hpc : s.pc tok.tid = .um3 r w)
    (hs : step s tok = some (s', ev)) : Inv wt rt s' := by
  have ti := inv.thr tok.tid
  have hin : wsec (s.pc tok.tid) = true := by rw [hpc]; rfl
  have hw := ti.w; rw [hpc] at hw; simp only [WInv] at hw
  have hc := ti.cur (by rw [hpc]; rfl)
  obtain ⟨rfl, hum, hb0⟩ := hw
  simp only [step, ht, hpc, if_false, noteWrite, Option.some.injEq, Prod.mk.injEq] at hs
  obtain ⟨rfl, -⟩ := hs
  have hout : ∀ (f : Nat → Option Nat) (v : Option Nat) (i : Nat), (i < s.W ∨ s.W + 1 ≤ i) → upd f s.W v i = f i := by
    intro f v i hi; simp [upd]; omega
  refine wstep inv hin rfl (by simp) rfl rfl rfl rfl (fun _ _ => rfl) hc ?_ inv.crok inv.rle ?_
    inv.log inv.cnt (fun _ h => h) ?_
  · exact geo_frame inv (a := s.W) (k := 1) (Nat.le_refl _) (by omega) ⟨rfl, rfl, rfl, rfl, rfl, rfl⟩ (fun _ _ => rfl)
  · exact msgs_frame inv (a := s.W) (k := 1) (Nat.le_refl _) (by omega) rfl rfl (fun _ _ => rfl) (hout _ _) (fun _ _ => rfl)
  · simp only [WInv, Um] at hum ⊢
    exact ⟨hum, hb0⟩

theorem step_um4 {r : Nat} (inv : Inv wt rt s) (ht : ¬ tok.tid ≥ s.nthr) (hpc : s.pc tok.tid = .um4 r)
    (hs : step s tok = some (s', ev)) : Inv wt rt s' := by
  have ti := inv.thr tok.tid
  have hin : wsec (s.pc tok.tid) = true := by rw [hpc]; rfl
  have hw := ti.w; rw [hpc] at hw; simp only [WInv, Um] at hw
  have hc := ti.cur (by rw [hpc]; rfl)
  obtain ⟨⟨h1, hmk, h3, h4, h5, h6⟩, hb0⟩ := hw
  simp only [step, ht, hpc, if_false, Option.some.injEq, Prod.mk.injEq] at hs
  obtain ⟨rfl, -⟩ := hs
  have g := inv.geo
  unfold Geo at g
  simp only [hmk] at g
  have hwl := inv.wle
  have hrl := inv.rle
  refine wstep inv hin rfl (by simp) rfl rfl rfl rfl (fun _ _ => rfl) hc ?_ ?_ inv.rle ?_
    inv.log inv.cnt (fun p h => RInv_wrap hmk h ⟨rfl, rfl, rfl, rfl, rfl, rfl, rfl, rfl⟩) ?_
  · unfold Geo
    simp only [g.2, chain]
    exact ⟨g.1, trivial, by omega, by omega, hb0, by omega⟩
  · unfold CROk; simp only []; exact ⟨by omega, fun _ => by omega⟩
  · exact inv.msgs
  · simp only [WInv]
    exact ⟨trivial, h3, by omega, fun _ => h4⟩

theorem step_um5 {r : Nat} (inv : Inv wt rt s) (ht : ¬ tok.tid ≥ s.nthr) (hpc : s.pc tok.tid = .um5 r)
    (hs : step s tok = some (s', ev)) : Inv wt rt s' := by
  have ti := inv.thr tok.tid
  have hin : wsec (s.pc tok.tid) = true := by rw [hpc]; rfl
  have hw := ti.w; rw [hpc] at hw; simp only [WInv] at hw
  have hc := ti.cur (by rw [hpc]; rfl)
  obtain ⟨h1, h2, h3, h4⟩ := hw
  have hnf : ¬ r = 0 := by omega
  simp only [step, ht, hpc, if_false, hnf, Option.some.injEq, Prod.mk.injEq] at hs
  obtain ⟨rfl, -⟩ := hs
  refine wstep inv hin rfl (by simp) rfl rfl rfl rfl (fun _ _ => rfl) hc (inv.geo :) ?_ (inv.rle :) (inv.msgs :)
    (inv.log :) (inv.cnt :) (fun _ h => h) ?_
  · unfold CROk; simp only []; exact ⟨by omega, fun hm => by have := h4 hm; omega⟩
  · simp only [WInv]; intro _; omega


theorem step_a2 (inv : Inv wt rt s) (ht : ¬ tok.tid ≥ s.nthr) (hpc : s.pc tok.tid = .a2)
    (hs : step s tok = some (s', ev)) : Inv wt rt s' := by
  have ti := inv.thr tok.tid
  have hin : wsec (s.pc tok.tid) = true := by rw [hpc]; rfl
  have hw := ti.w; rw [hpc] at hw; simp only [WInv, Dh] at hw
  have hc := ti.cur (by rw [hpc]; rfl)
  simp only [step, ht, hpc, if_false] at hs
  split at hs
  · rename_i hcr
    have hwd : ((s.cur tok.tid).drained && decide ((s.cur tok.tid).ncl + 1 ≤ s.N / 2)) = false := by
      cases hd : (s.cur tok.tid).drained with
      | false => simp
      | true =>
        simp only [Bool.true_and, decide_eq_false_iff_not]
        intro h2
        have := hw ⟨hd, h2⟩
        omega
    simp only [hwd, Bool.false_eq_true, if_false, Nat.add_zero, Option.some.injEq, Prod.mk.injEq] at hs
    obtain ⟨rfl, -⟩ := hs
    exact finish_w inv hin rfl rfl rfl rfl rfl (inv.geo :) (inv.crok :) (inv.rle :) (inv.msgs :) (inv.log :)
      (inv.cnt :) (fun _ h => h)
  · rename_i hcr
    simp only [Option.some.injEq, Prod.mk.injEq] at hs
    obtain ⟨rfl, -⟩ := hs
    exact wlocal inv, hin, hc, Nat.le_of_not_lt hcr

theorem step_h1 (inv : Inv wt rt s) (ht : ¬ tok.tid ≥ s.nthr) (hpc : s.pc tok.tid = .h1)
    (hs : step s tok = some (s', ev)) : Inv wt rt s' := by
  have ti := inv.thr tok.tid
  have hin : wsec (s.pc tok.tid) = true := by rw [hpc]; rfl
  have hw := ti.w; rw [hpc] at hw; simp only [WInv] at hw
  have hc := ti.cur (by rw [hpc]; rfl)
  simp only [step, ht, hpc, if_false, Option.some.injEq, Prod.mk.injEq] at hs
  obtain ⟨rfl, -⟩ := hs
  exact wlocal inv, hin, hc, ⟨rfl, hw⟩

theorem step_h2 {w : Nat} (inv : Inv wt rt s) (ht : ¬ tok.tid ≥ s.nthr) (hpc : s.pc tok.tid = .h2 w)
    (hs : step s tok = some (s', ev)) : Inv wt rt s' := by
  have ti := inv.thr tok.tid
  have hin : wsec (s.pc tok.tid) = true := by rw [hpc]; rfl
  have hw := ti.w; rw [hpc] at hw; simp only [WInv] at hw
  have hc := ti.cur (by rw [hpc]; rfl)
  obtain ⟨rfl, hcr⟩ := hw
  have hwl := inv.wle
  have hnf : ¬ s.W ≥ s.N := by omega
  simp only [step, ht, hpc, if_false, hnf, noteWrite, Option.some.injEq, Prod.mk.injEq] at hs
  obtain ⟨rfl, -⟩ := hs
  have hout : ∀ (f : Nat → Option Nat) (v : Option Nat) (i : Nat), (i < s.W ∨ s.W + 1 ≤ i) → upd f s.W v i = f i := by
    intro f v i hi; simp [upd]; omega
  refine wstep inv hin rfl (by simp) rfl rfl rfl rfl (fun _ _ => rfl) hc ?_ inv.crok inv.rle ?_
    inv.log inv.cnt (fun _ h => h) ?_
  · exact geo_frame inv (a := s.W) (k := 1) (Nat.le_refl _) (by omega) ⟨rfl, rfl, rfl, rfl, rfl, rfl⟩ (hout _ _)
  · exact msgs_frame inv (a := s.W) (k := 1) (Nat.le_refl _) (by omega) rfl rfl (hout _ _) (fun _ _ => rfl) (hout _ _)
  · simp only [WInv]
    exact ⟨trivial, hcr, by simp [upd]⟩

theorem step_h3 {w : Nat} (inv : Inv wt rt s) (ht : ¬ tok.tid ≥ s.nthr) (hpc : s.pc tok.tid = .h3 w)
    (hs : step s tok = some (s', ev)) : Inv wt rt s' := by
  have ti := inv.thr tok.tid
  have hin : wsec (s.pc tok.tid) = true := by rw [hpc]; rfl
  have hw := ti.w; rw [hpc] at hw; simp only [WInv] at hw
  have hc := ti.cur (by rw [hpc]; rfl)
  obtain ⟨rfl, hcr, hb⟩ := hw
  simp only [step, ht, hpc, if_false, noteWrite, Option.some.injEq, Prod.mk.injEq] at hs
  obtain ⟨rfl, -⟩ := hs
  have hout : ∀ (f : Nat → Option Nat) (v : Option Nat) (i : Nat), (i < s.W ∨ s.W + 1 ≤ i) → upd f s.W v i = f i := by
    intro f v i hi; simp [upd]; omega
  refine wstep inv hin rfl (by simp) rfl rfl rfl rfl (fun _ _ => rfl) hc ?_ inv.crok inv.rle ?_
    inv.log inv.cnt (fun _ h => h) ?_
  · exact geo_frame inv (a := s.W) (k := 1) (Nat.le_refl _) (by omega) ⟨rfl, rfl, rfl, rfl, rfl, rfl⟩ (fun _ _ => rfl)
  · exact msgs_frame inv (a := s.W) (k := 1) (Nat.le_refl _) (by omega) rfl rfl (fun _ _ => rfl) (hout _ _) (fun _ _ => rfl)
  · simp only [WInv]
    exact ⟨trivial, hcr, hb, by simp [upd]⟩

theorem no_overlap (inv : Inv wt rt s) {k : Nat} (hk : k ≤ s.CR) :
    (s.pend.filter (overlaps s.W k)).length = 0 := by
  rw [List.length_eq_zero_iff, List.filter_eq_nil_iff, inv.pend]
  intro m hm
  have := inv.free (k := s.CR) inv.crok.1 inv.crok.2 hm
  simp only [overlaps, Bool.and_eq_true, decide_eq_true_eq, not_and, Nat.not_lt]
  omega

theorem step_h4 {w : Nat} (inv : Inv wt rt s) (ht : ¬ tok.tid ≥ s.nthr) (hpc : s.pc tok.tid = .h4 w)
    (hs : step s tok = some (s', ev)) : Inv wt rt s' := by
  have ti := inv.thr tok.tid
  have hin : wsec (s.pc tok.tid) = true := by rw [hpc]; rfl
  have hw := ti.w; rw [hpc] at hw; simp only [WInv] at hw
  have hc := ti.cur (by rw [hpc]; rfl)
  obtain ⟨rfl, hcr, hb, hcc⟩ := hw
  have hn0 : ¬ (s.cur tok.tid).n = 0 := by have := hc.1; omega
  have hbv : ¬ s.W + (s.cur tok.tid).ncl > s.N := by have := inv.crok.1; omega
  have hov := no_overlap inv hcr
  have hsp := span_le (s.cur tok.tid).n
  have hncl := hc.2
  simp only [step, ht, hpc, if_false, hn0, hbv, hov, noteWrite, Nat.add_zero, Option.some.injEq, Prod.mk.injEq] at hs
  obtain ⟨rfl, -⟩ := hs
  have hcrok := inv.crok.1
  refine wstep inv hin rfl (by simp) rfl rfl rfl rfl (fun t' h => by simp [upd, h]) ?_ ?_ inv.crok inv.rle ?_
    inv.log inv.cnt (fun _ h => h) ?_
  · simpa [CurOk] using hc
  · refine geo_frame inv (a := s.W) (k := spanCells (s.cur tok.tid).n) (Nat.le_refl _) (by omega)
      ⟨rfl, rfl, rfl, rfl, rfl, rfl⟩ ?_
    intro i hi
    have : ¬ (s.W < i ∧ i < s.W + spanCells (s.cur tok.tid).n) := by omega
    simp only [this, if_false]
  · refine msgs_frame inv (a := s.W) (k := spanCells (s.cur tok.tid).n) (Nat.le_refl _) (by omega) rfl rfl ?_ ?_ ?_
    · intro i hi
      have : ¬ (s.W < i ∧ i < s.W + spanCells (s.cur tok.tid).n) := by omega
      simp only [this, if_false]
    · intro i hi
      have : ¬ (s.W < i ∧ i < s.W + spanCells (s.cur tok.tid).n) := by omega
      simp only [this, if_false]
    · intro i hi
      have : ¬ (s.W ≤ i ∧ i < s.W + spanCells (s.cur tok.tid).n) := by omega
      simp only [this, if_false]
  · simp only [WInv, Built, upd_same]
    have h1 : ¬ (s.W < s.W ∧ s.W < s.W + spanCells (s.cur tok.tid).n) := by omega
    refine ⟨trivial, hcr, trivial, trivial, ?_, ?_, ?_⟩
    · simp only [h1, if_false]; exact hb
    · simp only [h1, if_false]; exact hcc
    · intro i hi
      have : s.W ≤ s.W + i ∧ s.W + i < s.W + spanCells (s.cur tok.tid).n := by omega
      simp only [this, and_self, if_true]


theorem step_p1 {w : Nat} (inv : Inv wt rt s) (ht : ¬ tok.tid ≥ s.nthr) (hpc : s.pc tok.tid = .p1 w)
    (hs : step s tok = some (s', ev)) : Inv wt rt s' := by
  have ti := inv.thr tok.tid
  have hin : wsec (s.pc tok.tid) = true := by rw [hpc]; rfl
  have hw := ti.w; rw [hpc] at hw; simp only [WInv] at hw
  have hc := ti.cur (by rw [hpc]; rfl)
  obtain ⟨rfl, hcr, hbu⟩ := hw
  have hsp := span_le (s.cur tok.tid).n
  have hncl := hc.2
  have hn := hc.1
  have hcrok := inv.crok.1
  have hcell : (s.W * 64 + 8 + (s.cur tok.tid).n - 1) / 64 = s.W + (spanCells (s.cur tok.tid).n - 1) := by
    simp only [spanCells]; omega
  have hspos := span_pos (s.cur tok.tid).n
  have hnf : ¬ (s.W * 64 + 8 + (s.cur tok.tid).n - 1) / 64 ≥ s.N := by rw [hcell]; omega
  -- the byte is already there (bulk fill): the store changes nothing
  have hsame : ∀ i, upd s.pb ((s.W * 64 + 8 + (s.cur tok.tid).n - 1) / 64) (some (s.cur tok.tid).tag) i = s.pb i := by
    intro i
    simp only [upd]
    split
    · rename_i h; rw [h, hcell]; exact (hbu.2.2.2.2 _ (by omega)).symm
    · rfl
  cases hcm : (s.cur tok.tid).commit with
  | true =>
    -- commit follows
    simp only [step, ht, hpc, if_false, hnf, noteWrite, afterPayload, hcm, if_true, Option.some.injEq,
      Prod.mk.injEq] at hs
    obtain ⟨rfl, -⟩ := hs
    refine wstep inv hin rfl (by simp) rfl rfl rfl rfl (fun _ _ => rfl) hc ?_ inv.crok inv.rle ?_
      inv.log inv.cnt (fun _ h => h) ?_
    · exact geo_frame inv (a := s.W) (k := 0) (Nat.le_refl _) (by omega) ⟨rfl, rfl, rfl, rfl, rfl, rfl⟩ (fun _ _ => rfl)
    · exact msgs_frame inv (a := s.W) (k := 0) (Nat.le_refl _) (by omega) rfl rfl (fun _ _ => rfl) (fun _ _ => rfl)
        (fun i _ => hsame i)
    · simp only [WInv, Built]
      refine ⟨hcr, hbu.1, hbu.2.1, hbu.2.2.1, hbu.2.2.2.1, ?_⟩
      intro i hi; rw [hsame]; exact hbu.2.2.2.2 i hi
  | false =>
    -- allocation abandoned
    simp only [step, ht, hpc, if_false, hnf, noteWrite, afterPayload, hcm, Bool.false_eq_true] at hs
    generalize hrel : release _ tok.tid = rr at hs
    simp only [Option.some.injEq, Prod.mk.injEq] at hs
    obtain ⟨rfl, -⟩ := hs
    rw [← hrel]
    refine finish_w inv hin rfl rfl rfl rfl rfl ?_ inv.crok inv.rle ?_ inv.log inv.cnt (fun _ h => h)
    · exact geo_frame inv (a := s.W) (k := 0) (Nat.le_refl _) (by omega) ⟨rfl, rfl, rfl, rfl, rfl, rfl⟩ (fun _ _ => rfl)
    · exact msgs_frame inv (a := s.W) (k := 0) (Nat.le_refl _) (by omega) rfl rfl (fun _ _ => rfl) (fun _ _ => rfl)
        (fun i _ => hsame i)

theorem step_m1 (inv : Inv wt rt s) (ht : ¬ tok.tid ≥ s.nthr) (hpc : s.pc tok.tid = .m1)
    (hs : step s tok = some (s', ev)) : Inv wt rt s' := by
  have ti := inv.thr tok.tid
  have hin : wsec (s.pc tok.tid) = true := by rw [hpc]; rfl
  have hw := ti.w; rw [hpc] at hw; simp only [WInv] at hw
  have hc := ti.cur (by rw [hpc]; rfl)
  simp only [step, ht, hpc, if_false] at hs
  split at hs
  · rename_i hnone; rw [hw.2.2.1] at hnone; cases hnone
  · rename_i h hsome
    rw [hw.2.2.1] at hsome
    cases hsome
    simp only [Option.some.injEq, Prod.mk.injEq] at hs
    obtain ⟨rfl, -⟩ := hs
    exact wlocal inv, hin, hc, ⟨rfl, hw⟩

theorem step_m2 {h : Nat} (inv : Inv wt rt s) (ht : ¬ tok.tid ≥ s.nthr) (hpc : s.pc tok.tid = .m2 h)
    (hs : step s tok = some (s', ev)) : Inv wt rt s' := by
  have ti := inv.thr tok.tid
  have hin : wsec (s.pc tok.tid) = true := by rw [hpc]; rfl
  have hw := ti.w; rw [hpc] at hw; simp only [WInv] at hw
  have hc := ti.cur (by rw [hpc]; rfl)
  obtain ⟨rfl, hcr, hbu⟩ := hw
  have hwl := inv.wle
  have hnf : ¬ s.W ≥ s.N := by omega
  simp only [step, ht, hpc, if_false, hnf, hbu.2.2.2.1, Option.some.injEq, Prod.mk.injEq] at hs
  obtain ⟨rfl, -⟩ := hs
  exact wlocal inv, hin, hc, ⟨rfl, hcr, hbu⟩

theorem step_m3 {n : Nat} (inv : Inv wt rt s) (ht : ¬ tok.tid ≥ s.nthr) (hpc : s.pc tok.tid = .m3 n)
    (hs : step s tok = some (s', ev)) : Inv wt rt s' := by
  have ti := inv.thr tok.tid
  have hin : wsec (s.pc tok.tid) = true := by rw [hpc]; rfl
  have hw := ti.w; rw [hpc] at hw; simp only [WInv] at hw
  have hc := ti.cur (by rw [hpc]; rfl)
  simp only [step, ht, hpc, if_false, Option.some.injEq, Prod.mk.injEq] at hs
  obtain ⟨rfl, -⟩ := hs
  exact wlocal inv, hin, hc, ⟨hw.1, rfl, hw.2⟩

theorem step_m4 {n cr : Nat} (inv : Inv wt rt s) (ht : ¬ tok.tid ≥ s.nthr) (hpc : s.pc tok.tid = .m4 n cr)
    (hs : step s tok = some (s', ev)) : Inv wt rt s' := by
  have ti := inv.thr tok.tid
  have hin : wsec (s.pc tok.tid) = true := by rw [hpc]; rfl
  have hw := ti.w; rw [hpc] at hw; simp only [WInv] at hw
  have hc := ti.cur (by rw [hpc]; rfl)
  obtain ⟨rfl, rfl, hcr, hbu⟩ := hw
  have hnf : ¬ s.CR < (s.cur tok.tid).ncl := by omega
  simp only [step, ht, hpc, if_false, hnf, Option.some.injEq, Prod.mk.injEq] at hs
  obtain ⟨rfl, -⟩ := hs
  have h1 := inv.crok.1
  have h2 := inv.crok.2
  refine wstep inv hin rfl (by simp) rfl rfl rfl rfl (fun _ _ => rfl) hc (inv.geo :) ?_ (inv.rle :) (inv.msgs :)
    (inv.log :) (inv.cnt :) (fun _ h => h) ?_
  · unfold CROk; simp only []; exact ⟨by omega, fun hm => by have := h2 hm; omega⟩
  · simp only [WInv, CRmoved]
    exact ⟨trivial, ⟨by omega, fun hm => by have := h2 hm; omega⟩, hbu⟩

theorem step_m5 {n : Nat} (inv : Inv wt rt s) (ht : ¬ tok.tid ≥ s.nthr) (hpc : s.pc tok.tid = .m5 n)
    (hs : step s tok = some (s', ev)) : Inv wt rt s' := by
  have ti := inv.thr tok.tid
  have hin : wsec (s.pc tok.tid) = true := by rw [hpc]; rfl
  have hw := ti.w; rw [hpc] at hw; simp only [WInv] at hw
  have hc := ti.cur (by rw [hpc]; rfl)
  simp only [step, ht, hpc, if_false, Option.some.injEq, Prod.mk.injEq] at hs
  obtain ⟨rfl, -⟩ := hs
  exact wlocal inv, hin, hc, ⟨hw.1, rfl, hw.2⟩

theorem step_m6 {n w : Nat} (inv : Inv wt rt s) (ht : ¬ tok.tid ≥ s.nthr) (hpc : s.pc tok.tid = .m6 n w)
    (hs : step s tok = some (s', ev)) : Inv wt rt s' := by
  have ti := inv.thr tok.tid
  have hin : wsec (s.pc tok.tid) = true := by rw [hpc]; rfl
  have hw := ti.w; rw [hpc] at hw; simp only [WInv, CRmoved, Built] at hw
  have hc := ti.cur (by rw [hpc]; rfl)
  obtain ⟨rfl, rfl, ⟨hm1, hm2⟩, hcell, hWH, hhb, hhc, hpb⟩ := hw
  simp only [step, ht, hpc, if_false] at hs
  generalize hrel : release _ tok.tid = rr at hs
  simp only [Option.some.injEq, Prod.mk.injEq] at hs
  obtain ⟨rfl, -⟩ := hs
  rw [← hrel]
  have hn1 : 1 ≤ (s.cur tok.tid).ncl := by have := hc.2; simp only [calNcl] at this; omega
  have hmsg : MsgOk s { cell := (s.cur tok.tid).cell, nb := (s.cur tok.tid).n, ncl := (s.cur tok.tid).ncl,
                        tag := (s.cur tok.tid).tag } := by
    refine ⟨hc.1, hc.2, ?_, ?_, ?_⟩ <;> simp only [hcell]
    · exact hhb
    · exact hhc
    · exact hpb
  refine finish_w inv hin rfl rfl rfl rfl rfl ?_ ?_ inv.rle ?_ ?_ inv.cnt
    (fun p h => RInv_commit h ⟨rfl, rfl, rfl, rfl, rfl, rfl⟩ rfl rfl)
  · have g := inv.geo
    unfold Geo at g ⊢
    cases hmk : s.mark with
    | none =>
      simp only [hmk] at g
      simp only [Option.isSome_none, Bool.false_eq_true, if_false]
      exact ⟨chain_append g.1 _ hcell hn1, g.2⟩
    | some M =>
      simp only [hmk] at g
      have := hm2 (by simp [hmk])
      simp only [Option.isSome_some, if_true]
      exact ⟨g.1, chain_append g.2.1 _ hcell hn1, by omega, g.2.2.2⟩
  · unfold CROk; simp only []
    exact ⟨by omega, fun h => by have := hm2 h; omega⟩
  · cases hmk : s.mark with
    | none =>
      simp only [Option.isSome_none, Bool.false_eq_true, if_false]
      intro m hm
      rcases List.mem_append.mp hm with h | h
      · rcases List.mem_append.mp h with h | h
        · exact inv.msgs m (List.mem_append_left _ h)
        · simp only [List.mem_singleton] at h; subst h; exact hmsg
      · exact inv.msgs m (List.mem_append_right _ h)
    | some M =>
      simp only [Option.isSome_some, if_true]
      intro m hm
      rcases List.mem_append.mp hm with h | h
      · exact inv.msgs m (List.mem_append_left _ h)
      · rcases List.mem_append.mp h with h | h
        · exact inv.msgs m (List.mem_append_right _ h)
        · simp only [List.mem_singleton] at h; subst h; exact hmsg
  · have g := inv.geo
    unfold Geo at g
    cases hmk : s.mark with
    | none =>
      simp only [hmk] at g
      simp only [Option.isSome_none, Bool.false_eq_true, if_false, inv.log, g.2]
      simp
    | some M =>
      simp only [Option.isSome_some, if_true, inv.log]
      simp

theorem step_unl (inv : Inv wt rt s) (ht : ¬ tok.tid ≥ s.nthr) (hpc : s.pc tok.tid = .unl)
    (hs : step s tok = some (s', ev)) : Inv wt rt s' := by
  have ti := inv.thr tok.tid
  have hin : wsec (s.pc tok.tid) = true := by rw [hpc]; rfl
  simp only [step, ht, hpc, if_false] at hs
  generalize hrel : beginOp _ tok.tid = rr at hs
  simp only [Option.some.injEq, Prod.mk.injEq] at hs
  obtain ⟨rfl, -⟩ := hs
  rw [← hrel]
  refine beginOp_inv ⟨inv.geo, inv.crok, inv.rle, inv.msgs, inv.log, inv.cnt, ?_, ?_, ti.prog⟩
  · intro a b _ _ ha hb; exact inv.excl a b ha hb
  · intro t' h
    have hout := inv.others_out hin h
    exact (inv.thr t').other rfl rfl rfl rfl (fun h2 => by simp [hout] at h2) id id

end MgProof.C08
