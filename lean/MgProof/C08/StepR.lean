import MgProof.C08.Frame
/-! Reader-side steps of `MgModel.C08.step` preserve `Inv`. -/
namespace MgProof.C08
open MgModel.Conc MgModel.C08

variable {wt rt : Nat} {s s' : St} {tok : Tok} {ev : List String}

/-! ## stability of a writer's facts under the two reader steps that touch them -/

theorem WInv_consume {p : Pc} {t' : Nat} {m : Msg} {l : List Msg} (hq : s.q1 = m :: l) (h : WInv s t' p)
    (e : s'.N = s.N ∧ s'.W = s.W ∧ s'.CR = s.CR ∧ s'.WH = s.WH ∧ s'.mark = s.mark ∧ s'.q2 = s.q2 ∧
         s'.hb = s.hb ∧ s'.hc = s.hc ∧ s'.pb = s.pb ∧ s'.cur = s.cur)
    (eR : s.R ≤ s'.R) (eq1 : s'.q1 = l) : WInv s' t' p := by
  obtain ⟨e1, e2, e3, e4, e5, e6, e7, e8, e9, e10⟩ := e
  have hnq : ¬ Q0 s := by intro h0; rw [h0.1] at hq; cases hq
  simp only [Q0] at hnq
  cases p <;> simp only [WInv, Dh, Q0, Rv, Um, Built, CRmoved, e1, e2, e3, e4, e5, e6, e7, e8, e9, e10, eq1] at h ⊢ <;>
    (try exact h) <;> grind

theorem WInv_rwrap {p : Pc} {t' : Nat} (hk : s.q1 = [] ∧ s.mark = some s.R ∧ s.q2 ≠ []) (h : WInv s t' p)
    (e : s'.N = s.N ∧ s'.W = s.W ∧ s'.CR = s.CR ∧ s'.WH = s.WH ∧ s'.mark = none ∧ s'.q2 = [] ∧
         s'.hb = s.hb ∧ s'.hc = s.hc ∧ s'.pb = s.pb ∧ s'.cur = s.cur ∧ s'.R = 0 ∧ s'.q1 = s.q1 ++ s.q2) :
    WInv s' t' p := by
  obtain ⟨e1, e2, e3, e4, e5, e6, e7, e8, e9, e10, e11, e12⟩ := e
  obtain ⟨k1, k2, k3⟩ := hk
  have hnq : ¬ Q0 s := fun h0 => k3 h0.2
  simp only [Q0] at hnq
  cases p <;>
    simp only [WInv, Dh, Q0, Rv, Um, Built, CRmoved, e1, e2, e3, e4, e5, e6, e7, e8, e9, e10, e11, e12] at h ⊢ <;>
    (try exact h) <;> grind


/-- a reader step that only moves its own program counter (and fields no invariant reads) -/
macro "rlocal " inv:term ", " hin:term ", " hr:term : term =>
  `(rstep $inv $hin rfl rfl rfl rfl rfl rfl (Inv.geo $inv :) (Inv.crok $inv :)
      (Inv.rle $inv :) (Inv.msgs $inv :) (Inv.log $inv :) (Inv.cnt $inv :) (fun _ _ _ h => h) $hr)

theorem step_f0 (inv : Inv wt rt s) (ht : ¬ tok.tid ≥ s.nthr) (hpc : s.pc tok.tid = .f0)
    (hs : step s tok = some (s', ev)) : Inv wt rt s' := by
  have hin : rsec (s.pc tok.tid) = true := by rw [hpc]; rfl
  simp only [step, ht, hpc, if_false, Option.some.injEq, Prod.mk.injEq] at hs
  obtain ⟨rfl, -⟩ := hs
  refine rlocal inv, hin, ?_
  simp only [RInv, Fw, inv.pend]
  have g := inv.geo
  unfold Geo at g
  cases hmk : s.mark with
  | none =>
    simp only [hmk] at g
    refine ⟨?_, by simp, by simp, by simp, ?_⟩
    · intro h; rw [h] at g; rw [chain_self_nil g.1, g.2]; rfl
    · intro _ h; exact chain_ne_nil g.1 (fun e => h e.symm)
  | some M =>
    simp only [hmk] at g
    refine ⟨?_, by simp, ?_, ?_, by simp⟩
    · intro h; omega
    · intro _ h; rw [h] at g; rw [chain_self_nil g.2.1]; simp
    · intro _ h; exact chain_ne_nil g.2.1 (fun e => h e.symm)

theorem step_f1 {w : Nat} (inv : Inv wt rt s) (ht : ¬ tok.tid ≥ s.nthr) (hpc : s.pc tok.tid = .f1 w)
    (hs : step s tok = some (s', ev)) : Inv wt rt s' := by
  have ti := inv.thr tok.tid
  have hin : rsec (s.pc tok.tid) = true := by rw [hpc]; rfl
  have hr := ti.r; rw [hpc] at hr; simp only [RInv] at hr
  simp only [step, ht, hpc, if_false] at hs
  split at hs
  · rename_i hwr
    have h0 : s.rP0 = 0 := hr.1 hwr
    simp only [h0, if_true, Nat.add_zero] at hs
    generalize hrel : beginOp _ tok.tid = rr at hs
    simp only [Option.some.injEq, Prod.mk.injEq] at hs
    obtain ⟨rfl, -⟩ := hs
    rw [← hrel]
    exact finish_r inv hin rfl rfl rfl rfl rfl (inv.geo :) (inv.crok :) (inv.rle :) (inv.msgs :) (inv.log :)
      (inv.cnt :) (fun _ _ _ h => h)
  · rename_i hwr
    simp only [Option.some.injEq, Prod.mk.injEq] at hs
    obtain ⟨rfl, -⟩ := hs
    exact rlocal inv, hin, ⟨hwr, hr⟩

theorem step_f2 {w : Nat} (inv : Inv wt rt s) (ht : ¬ tok.tid ≥ s.nthr) (hpc : s.pc tok.tid = .f2 w)
    (hs : step s tok = some (s', ev)) : Inv wt rt s' := by
  have ti := inv.thr tok.tid
  have hin : rsec (s.pc tok.tid) = true := by rw [hpc]; rfl
  have hr := ti.r; rw [hpc] at hr; simp only [RInv] at hr
  simp only [step, ht, hpc, if_false, Option.some.injEq, Prod.mk.injEq] at hs
  obtain ⟨rfl, -⟩ := hs
  exact rlocal inv, hin, ⟨rfl, hr⟩

theorem step_f3 {w r : Nat} (inv : Inv wt rt s) (ht : ¬ tok.tid ≥ s.nthr) (hpc : s.pc tok.tid = .f3 w r)
    (hs : step s tok = some (s', ev)) : Inv wt rt s' := by
  have ti := inv.thr tok.tid
  have hin : rsec (s.pc tok.tid) = true := by rw [hpc]; rfl
  have hr := ti.r; rw [hpc] at hr; simp only [RInv] at hr
  obtain ⟨rfl, hr⟩ := hr
  simp only [step, ht, hpc, if_false, Option.some.injEq, Prod.mk.injEq] at hs
  obtain ⟨rfl, -⟩ := hs
  refine rstep inv hin rfl rfl rfl rfl rfl rfl (inv.geo :) (inv.crok :) (inv.rle :) (inv.msgs :) (inv.log :)
    (inv.cnt :) (fun t' p _ h => WInv.congr ⟨rfl, rfl, rfl, rfl, rfl, rfl, rfl, rfl, rfl, rfl, rfl, rfl⟩ h) ?_
  simp only [RInv, Fw] at hr ⊢
  exact ⟨trivial, hr⟩

theorem step_f4 {w : Nat} (inv : Inv wt rt s) (ht : ¬ tok.tid ≥ s.nthr) (hpc : s.pc tok.tid = .f4 w)
    (hs : step s tok = some (s', ev)) : Inv wt rt s' := by
  have ti := inv.thr tok.tid
  have hin : rsec (s.pc tok.tid) = true := by rw [hpc]; rfl
  have hr := ti.r; rw [hpc] at hr; simp only [RInv] at hr
  simp only [step, ht, hpc, if_false] at hs
  split at hs
  · rename_i hnone; rw [hr.1] at hnone; cases hnone
  · rename_i h hsome
    rw [hr.1] at hsome
    cases hsome
    simp only [Option.some.injEq, Prod.mk.injEq] at hs
    obtain ⟨rfl, -⟩ := hs
    exact rlocal inv, hin, ⟨rfl, hr⟩

/-- what the reader finds in the header word at the read cursor -/
theorem Inv.at_R (inv : Inv wt rt s) :
    (∃ m l, s.q1 = m :: l ∧ s.hb s.R = some m.nb ∧ 1 ≤ m.nb) ∨
    (s.q1 = [] ∧ s.mark = some s.R ∧ s.hb s.R = some 0) ∨ (s.q1 = [] ∧ s.mark = none) := by
  cases hq : s.q1 with
  | cons m l =>
    left
    have := inv.head hq
    exact ⟨m, l, rfl, this.1 ▸ this.2.1.2.2.1, this.2.1.1⟩
  | nil =>
    right
    have g := inv.geo
    unfold Geo at g
    cases hmk : s.mark with
    | none => right; exact ⟨rfl, rfl⟩
    | some M =>
      left
      simp only [hmk, hq, chain] at g
      rw [g.1]
      exact ⟨rfl, rfl, g.2.2.2.2.1⟩

theorem step_f5 {w h : Nat} (inv : Inv wt rt s) (ht : ¬ tok.tid ≥ s.nthr) (hpc : s.pc tok.tid = .f5 w h)
    (hs : step s tok = some (s', ev)) : Inv wt rt s' := by
  have ti := inv.thr tok.tid
  have hin : rsec (s.pc tok.tid) = true := by rw [hpc]; rfl
  have hr := ti.r; rw [hpc] at hr; simp only [RInv, Fw] at hr
  obtain ⟨rfl, hRH, hwr, f1, f2, f3, f4, f5⟩ := hr
  have hrl := inv.rle
  have hnf : ¬ s.R ≥ s.N := by omega
  simp only [step, ht, hpc, if_false, hnf] at hs
  rcases inv.at_R with ⟨m, l, hq, hhb, hnb⟩ | ⟨hq, hmk, hhb⟩ | ⟨hq, hmk⟩
  · -- a message
    have hne : ¬ m.nb = 0 := by omega
    simp only [hhb, ne_eq, hne, not_false_eq_true, if_true, Option.some.injEq, Prod.mk.injEq] at hs
    obtain ⟨rfl, -⟩ := hs
    refine rlocal inv, hin, ?_
    simp only [RInv, hq]
    exact ⟨hRH, by simp⟩
  · -- the wrap marker
    have hmk0 : s.rMk0 = true := by
      cases h : s.rMk0 with
      | true => rfl
      | false => exact absurd hq (f5 h hwr)
    simp only [hhb, ne_eq, not_true_eq_false, if_false] at hs
    split at hs
    · rename_i hw0
      have h0 : s.rP0 = 0 := by rw [f3 hmk0 hw0, hq]; rfl
      simp only [h0, if_true, Nat.add_zero] at hs
      generalize hrel : beginOp _ tok.tid = rr at hs
      simp only [Option.some.injEq, Prod.mk.injEq] at hs
      obtain ⟨rfl, -⟩ := hs
      rw [← hrel]
      exact finish_r inv hin rfl rfl rfl rfl rfl (inv.geo :) (inv.crok :) (inv.rle :) (inv.msgs :) (inv.log :)
        (inv.cnt :) (fun _ _ _ h => h)
    · rename_i hw0
      simp only [Option.some.injEq, Prod.mk.injEq] at hs
      obtain ⟨rfl, -⟩ := hs
      refine rlocal inv, hin, ?_
      simp only [RInv]
      exact ⟨hRH, hq, hmk, f4 hmk0 hw0⟩
  · -- impossible: nothing pending, no marker, yet w ≠ R
    exfalso
    cases h : s.rMk0 with
    | true => have := f2 h; simp [hmk] at this
    | false => exact absurd hq (f5 h hwr)

theorem step_g1 (inv : Inv wt rt s) (ht : ¬ tok.tid ≥ s.nthr) (hpc : s.pc tok.tid = .g1)
    (hs : step s tok = some (s', ev)) : Inv wt rt s' := by
  have ti := inv.thr tok.tid
  have hin : rsec (s.pc tok.tid) = true := by rw [hpc]; rfl
  have hr := ti.r; rw [hpc] at hr; simp only [RInv] at hr
  simp only [step, ht, hpc, if_false] at hs
  split at hs
  · rename_i hnone; rw [hr.1] at hnone; cases hnone
  · rename_i h hsome
    rw [hr.1] at hsome
    cases hsome
    simp only [Option.some.injEq, Prod.mk.injEq] at hs
    obtain ⟨rfl, -⟩ := hs
    exact rlocal inv, hin, ⟨rfl, hr⟩

theorem step_g2 {h : Nat} (inv : Inv wt rt s) (ht : ¬ tok.tid ≥ s.nthr) (hpc : s.pc tok.tid = .g2 h)
    (hs : step s tok = some (s', ev)) : Inv wt rt s' := by
  have ti := inv.thr tok.tid
  have hin : rsec (s.pc tok.tid) = true := by rw [hpc]; rfl
  have hr := ti.r; rw [hpc] at hr; simp only [RInv] at hr
  obtain ⟨rfl, hRH, hne⟩ := hr
  have hrl := inv.rle
  have hnf : ¬ s.R ≥ s.N := by omega
  simp only [step, ht, hpc, if_false, hnf] at hs
  rcases inv.at_R with ⟨m, l, hq, hhb, hnb⟩ | ⟨hq, -⟩ | ⟨hq, -⟩
  · simp only [hhb, Option.some.injEq, Prod.mk.injEq] at hs
    obtain ⟨rfl, -⟩ := hs
    refine rlocal inv, hin, ?_
    simp only [RInv]
    exact ⟨hRH, m, l, hq, rfl⟩
  · exact absurd hq hne
  · exact absurd hq hne

theorem step_g3 {nb : Nat} (inv : Inv wt rt s) (ht : ¬ tok.tid ≥ s.nthr) (hpc : s.pc tok.tid = .g3 nb)
    (hs : step s tok = some (s', ev)) : Inv wt rt s' := by
  have ti := inv.thr tok.tid
  have hin : rsec (s.pc tok.tid) = true := by rw [hpc]; rfl
  have hr := ti.r; rw [hpc] at hr; simp only [RInv] at hr
  obtain ⟨hRH, m, l, hq, rfl⟩ := hr
  have hnb := (inv.head hq).2.1.1
  simp only [step, ht, hpc, if_false] at hs
  split at hs
  · rename_i hnone; rw [hRH] at hnone; cases hnone
  · rename_i h hsome
    rw [hRH] at hsome
    cases hsome
    have hne : ¬ m.nb = 0 := by omega
    simp only [ne_eq, hne, not_false_eq_true, if_true, Option.some.injEq, Prod.mk.injEq] at hs
    obtain ⟨rfl, -⟩ := hs
    refine rlocal inv, hin, ?_
    simp only [RInv]
    exact ⟨trivial, hRH, m, l, hq, rfl⟩


theorem step_rp {h nb : Nat} (inv : Inv wt rt s) (ht : ¬ tok.tid ≥ s.nthr) (hpc : s.pc tok.tid = .rp h nb)
    (hs : step s tok = some (s', ev)) : Inv wt rt s' := by
  have ti := inv.thr tok.tid
  have hin : rsec (s.pc tok.tid) = true := by rw [hpc]; rfl
  have hr := ti.r; rw [hpc] at hr; simp only [RInv] at hr
  obtain ⟨rfl, hRH, m, l, hq, rfl⟩ := hr
  obtain ⟨hcell, ⟨hnb, hncl, hhb, hhc, hpb⟩, hend⟩ := inv.head hq
  have hsp := span_le m.nb
  have hspos := span_pos m.nb
  have hc : (s.R * 64 + 8 + m.nb - 1) / 64 = s.R + (spanCells m.nb - 1) := by
    simp only [spanCells]; omega
  have hnf : ¬ (s.R * 64 + 8 + m.nb - 1) / 64 ≥ s.N := by rw [hc]; omega
  have hpbc : s.pb ((s.R * 64 + 8 + m.nb - 1) / 64) = some m.tag := by
    rw [hc, ← hcell]; exact hpb _ (by omega)
  have hok : ((List.range (spanCells m.nb)).all fun i => s.pb (s.R + i) == some m.tag) = true := by
    rw [List.all_eq_true]
    intro i hi
    rw [← hcell, hpb i (List.mem_range.mp hi)]
    simp
  have hpend : s.pend = m :: (l ++ s.q2) := by rw [inv.pend, hq]; rfl
  simp only [step, ht, hpc, if_false, hnf, hpbc, hok, hpend, hcell, if_true, and_self, Nat.add_zero,
    Option.some.injEq, Prod.mk.injEq] at hs
  obtain ⟨rfl, -⟩ := hs
  refine rstep inv hin rfl rfl rfl rfl rfl rfl (inv.geo :) (inv.crok :) (inv.rle :) (inv.msgs :) (inv.log :)
    (inv.cnt :) (fun t' p _ h => WInv.congr ⟨rfl, rfl, rfl, rfl, rfl, rfl, rfl, rfl, rfl, rfl, rfl, rfl⟩ h) ?_
  simp only [RInv, Held]
  exact ⟨hRH, m, l, hq, hcell.symm, rfl, rfl⟩

theorem step_k1 (inv : Inv wt rt s) (ht : ¬ tok.tid ≥ s.nthr) (hpc : s.pc tok.tid = .k1)
    (hs : step s tok = some (s', ev)) : Inv wt rt s' := by
  have ti := inv.thr tok.tid
  have hin : rsec (s.pc tok.tid) = true := by rw [hpc]; rfl
  have hr := ti.r; rw [hpc] at hr; simp only [RInv] at hr
  obtain ⟨hRH, hq, hmk, hq2⟩ := hr
  simp only [step, ht, hpc, if_false, Option.some.injEq, Prod.mk.injEq] at hs
  obtain ⟨rfl, -⟩ := hs
  have g := inv.geo
  unfold Geo at g
  simp only [hmk, hq, chain] at g
  have hrl := inv.rle
  refine rstep inv hin rfl rfl rfl rfl rfl rfl ?_ ?_ ?_ ?_ ?_ (inv.cnt :)
    (fun t' p _ h => WInv_rwrap ⟨hq, hmk, hq2⟩ h ⟨rfl, rfl, rfl, rfl, rfl, rfl, rfl, rfl, rfl, rfl, rfl, rfl⟩) ?_
  · unfold Geo; simp only [hq, List.nil_append]; exact ⟨g.2.1, trivial⟩
  · unfold CROk; simp only []; exact ⟨inv.crok.1, fun h => by simp at h⟩
  · show 0 + 1 ≤ s.N; omega
  · intro m hm
    have : m ∈ s.q1 ++ s.q2 := by simpa using hm
    exact inv.msgs m this
  · show s.committed = s.delivered ++ (s.q1 ++ s.q2 ++ [])
    rw [List.append_nil]; exact inv.log
  · simp only [RInv, hq, List.nil_append]; exact hq2

theorem step_k2 (inv : Inv wt rt s) (ht : ¬ tok.tid ≥ s.nthr) (hpc : s.pc tok.tid = .k2)
    (hs : step s tok = some (s', ev)) : Inv wt rt s' := by
  have ti := inv.thr tok.tid
  have hin : rsec (s.pc tok.tid) = true := by rw [hpc]; rfl
  have hr := ti.r; rw [hpc] at hr; simp only [RInv] at hr
  simp only [step, ht, hpc, if_false, Option.some.injEq, Prod.mk.injEq] at hs
  obtain ⟨rfl, -⟩ := hs
  exact rlocal inv, hin, ⟨rfl, hr⟩

theorem step_k3 {r : Nat} (inv : Inv wt rt s) (ht : ¬ tok.tid ≥ s.nthr) (hpc : s.pc tok.tid = .k3 r)
    (hs : step s tok = some (s', ev)) : Inv wt rt s' := by
  have ti := inv.thr tok.tid
  have hin : rsec (s.pc tok.tid) = true := by rw [hpc]; rfl
  have hr := ti.r; rw [hpc] at hr; simp only [RInv] at hr
  obtain ⟨rfl, hr⟩ := hr
  simp only [step, ht, hpc, if_false, Option.some.injEq, Prod.mk.injEq] at hs
  obtain ⟨rfl, -⟩ := hs
  refine rstep inv hin rfl rfl rfl rfl rfl rfl (inv.geo :) (inv.crok :) (inv.rle :) (inv.msgs :) (inv.log :)
    (inv.cnt :) (fun t' p _ h => WInv.congr ⟨rfl, rfl, rfl, rfl, rfl, rfl, rfl, rfl, rfl, rfl, rfl, rfl⟩ h) ?_
  simp only [RInv]
  exact ⟨trivial, hr⟩

theorem step_k4 (inv : Inv wt rt s) (ht : ¬ tok.tid ≥ s.nthr) (hpc : s.pc tok.tid = .k4)
    (hs : step s tok = some (s', ev)) : Inv wt rt s' := by
  have ti := inv.thr tok.tid
  have hin : rsec (s.pc tok.tid) = true := by rw [hpc]; rfl
  have hr := ti.r; rw [hpc] at hr; simp only [RInv] at hr
  simp only [step, ht, hpc, if_false] at hs
  split at hs
  · rename_i hnone; rw [hr.1] at hnone; cases hnone
  · rename_i h hsome
    rw [hr.1] at hsome
    cases hsome
    simp only [Option.some.injEq, Prod.mk.injEq] at hs
    obtain ⟨rfl, -⟩ := hs
    exact rlocal inv, hin, ⟨rfl, hr⟩

theorem step_k5 {h : Nat} (inv : Inv wt rt s) (ht : ¬ tok.tid ≥ s.nthr) (hpc : s.pc tok.tid = .k5 h)
    (hs : step s tok = some (s', ev)) : Inv wt rt s' := by
  have ti := inv.thr tok.tid
  have hin : rsec (s.pc tok.tid) = true := by rw [hpc]; rfl
  have hr := ti.r; rw [hpc] at hr; simp only [RInv] at hr
  obtain ⟨rfl, hRH, hne⟩ := hr
  have hrl := inv.rle
  have hnf : ¬ s.R ≥ s.N := by omega
  simp only [step, ht, hpc, if_false, hnf] at hs
  rcases inv.at_R with ⟨m, l, hq, hhb, hnb⟩ | ⟨hq, -⟩ | ⟨hq, -⟩
  · have hne0 : ¬ m.nb = 0 := by omega
    simp only [hhb, ne_eq, hne0, not_false_eq_true, if_true, Option.some.injEq, Prod.mk.injEq] at hs
    obtain ⟨rfl, -⟩ := hs
    exact rlocal inv, hin, ⟨hRH, hne⟩
  · exact absurd hq hne
  · exact absurd hq hne

theorem step_r1 (inv : Inv wt rt s) (ht : ¬ tok.tid ≥ s.nthr) (hpc : s.pc tok.tid = .r1)
    (hs : step s tok = some (s', ev)) : Inv wt rt s' := by
  have ti := inv.thr tok.tid
  have hin : rsec (s.pc tok.tid) = true := by rw [hpc]; rfl
  have hr := ti.r; rw [hpc] at hr; simp only [RInv] at hr
  simp only [step, ht, hpc, if_false] at hs
  split at hs
  · rename_i hnone; rw [hr.1] at hnone; cases hnone
  · rename_i h hsome
    rw [hr.1] at hsome
    cases hsome
    simp only [Option.some.injEq, Prod.mk.injEq] at hs
    obtain ⟨rfl, -⟩ := hs
    exact rlocal inv, hin, ⟨rfl, hr.2⟩

theorem step_r2 {h : Nat} (inv : Inv wt rt s) (ht : ¬ tok.tid ≥ s.nthr) (hpc : s.pc tok.tid = .r2 h)
    (hs : step s tok = some (s', ev)) : Inv wt rt s' := by
  have ti := inv.thr tok.tid
  have hin : rsec (s.pc tok.tid) = true := by rw [hpc]; rfl
  have hr := ti.r; rw [hpc] at hr; simp only [RInv] at hr
  obtain ⟨rfl, hheld⟩ := hr
  obtain ⟨m, l, hq, h1, h2, h3⟩ := id hheld
  obtain ⟨hcell, ⟨hnb, hncl, hhb, hhc, hpb⟩, hend⟩ := inv.head hq
  have hrl := inv.rle
  have hnf : ¬ s.R ≥ s.N := by omega
  rw [hcell] at hhc
  simp only [step, ht, hpc, if_false, hnf, hhc, Option.some.injEq, Prod.mk.injEq] at hs
  obtain ⟨rfl, -⟩ := hs
  exact rlocal inv, hin, ⟨hheld, m, l, hq, rfl⟩

theorem step_r3 {n : Nat} (inv : Inv wt rt s) (ht : ¬ tok.tid ≥ s.nthr) (hpc : s.pc tok.tid = .r3 n)
    (hs : step s tok = some (s', ev)) : Inv wt rt s' := by
  have ti := inv.thr tok.tid
  have hin : rsec (s.pc tok.tid) = true := by rw [hpc]; rfl
  have hr := ti.r; rw [hpc] at hr; simp only [RInv] at hr
  simp only [step, ht, hpc, if_false, Option.some.injEq, Prod.mk.injEq] at hs
  obtain ⟨rfl, -⟩ := hs
  exact rlocal inv, hin, ⟨rfl, hr⟩

theorem step_r4 {n r : Nat} (inv : Inv wt rt s) (ht : ¬ tok.tid ≥ s.nthr) (hpc : s.pc tok.tid = .r4 n r)
    (hs : step s tok = some (s', ev)) : Inv wt rt s' := by
  have ti := inv.thr tok.tid
  have hin : rsec (s.pc tok.tid) = true := by rw [hpc]; rfl
  have hr := ti.r; rw [hpc] at hr; simp only [RInv, Held] at hr
  obtain ⟨rfl, ⟨m, l, hq, h1, h2, h3⟩, m', l', hq', rfl⟩ := hr
  rw [hq] at hq'
  cases hq'
  obtain ⟨hcell, hmok, hend⟩ := inv.head hq
  have hmeq : ({ s.rcur with ncl := m.ncl } : Msg) = m := by
    cases m; cases hrc : s.rcur; simp_all
  simp only [step, ht, hpc, if_false, hq, List.isEmpty_cons, Bool.false_eq_true, List.tail_cons, hmeq] at hs
  generalize hrel : beginOp _ tok.tid = rr at hs
  simp only [Option.some.injEq, Prod.mk.injEq] at hs
  obtain ⟨rfl, -⟩ := hs
  rw [← hrel]
  have g := inv.geo
  refine finish_r inv hin rfl rfl rfl rfl rfl ?_ ?_ ?_ ?_ ?_ (inv.cnt :)
    (fun t' p _ h => WInv_consume hq h ⟨rfl, rfl, rfl, rfl, rfl, rfl, rfl, rfl, rfl, rfl⟩ (Nat.le_add_right _ _) rfl)
  · unfold Geo at g ⊢
    cases hmk : s.mark with
    | none =>
      simp only [hmk, hq, chain] at g
      simp only []
      exact ⟨g.1.2.2, g.2⟩
    | some M =>
      simp only [hmk, hq, chain] at g
      simp only []
      have := g.1.2.1
      exact ⟨g.1.2.2, g.2.1, by omega, g.2.2.2⟩
  · unfold CROk; simp only []
    exact ⟨inv.crok.1, fun h => by have := inv.crok.2 h; omega⟩
  · exact hend
  · intro x hx
    exact inv.msgs x (by rw [hq]; exact List.mem_cons_of_mem _ hx)
  · show s.committed = s.delivered ++ [m] ++ (l ++ s.q2)
    rw [inv.log, hq]; simp

end MgProof.C08
