import MgProof.C08.HBStep
/-! `HInv`: the steps that write data cells, publish, acquire, or read. -/
namespace MgProof.C08
open MgModel.Conc MgModel.C08

variable {wt rt : Nat} {s s' : St} {tok : Tok} {ev : List String}

/-! ## frame: a write into the free region does not touch what is pending -/

theorem cells_frame (inv : Inv wt rt s) {a k : Nat} (ha : s.W ≤ a) (hk : a + k ≤ s.W + s.CR + 1)
    (hcw : ∀ j, (j < a ∨ a + k ≤ j) → s'.cellW j = s.cellW j)
    {m : Msg} (hm : m ∈ s.q1 ++ s.q2) {i : Nat} (hi : i < spanCells m.nb) :
    s'.cellW (m.cell + i) = s.cellW (m.cell + i) := by
  have hf := inv.free (k := s.CR) inv.crok.1 inv.crok.2 hm
  have hok := inv.msgs m hm
  have := span_le m.nb
  have := hok.2.1
  exact hcw _ (by omega)

theorem mark_frame (inv : Inv wt rt s) {a k : Nat} (_ha : s.W ≤ a) (hk : a + k ≤ s.W + s.CR + 1)
    (hcw : ∀ j, (j < a ∨ a + k ≤ j) → s'.cellW j = s.cellW j)
    {M : Nat} (hM : s.mark = some M) : s'.cellW M = s.cellW M := by
  have := inv.free_mark (k := s.CR) inv.crok.2 hM
  exact hcw _ (by omega)

theorem HR_frame (inv : Inv wt rt s) {a k t' : Nat} {p : Pc} (ha : s.W ≤ a) (hk : a + k ≤ s.W + s.CR + 1)
    (hcw : ∀ j, (j < a ∨ a + k ≤ j) → s'.cellW j = s.cellW j)
    (e : s'.R = s.R ∧ s'.know t' = s.know t' ∧ s'.q1 = s.q1 ∧ s'.q2 = s.q2 ∧ s'.mark = s.mark ∧
         s'.rMk0 = s.rMk0)
    (h : HR s t' p) : HR s' t' p := by
  obtain ⟨e1, e2, e3, e4, e5, e6⟩ := e
  have seen : ∀ m, m ∈ s.q1 ++ s.q2 → Seen s t' m → Seen s' t' m := by
    intro m hm hs i hi
    rw [cells_frame inv ha hk hcw hm hi, e2]; exact hs i hi
  have hd1 : ∀ m l, s.q1 = m :: l → m ∈ s.q1 ++ s.q2 := by intro m l h; simp [h]
  have hd2 : ∀ m l, s.q2 = m :: l → m ∈ s.q1 ++ s.q2 := by intro m l h; simp [h]
  have hk' : ∀ w, HK s t' w → HK s' t' w := by
    intro w ⟨k1, k2⟩
    refine ⟨?_, ?_⟩
    · rw [e6, e1, e3]; intro a b
      obtain ⟨m, l, hq, hs⟩ := k1 a b
      exact ⟨m, l, hq, seen m (hd1 m l hq) hs⟩
    · rw [e6, e3, e4, e5]; intro a
      obtain ⟨x1, x2, x3⟩ := k2 a
      refine ⟨fun m l hq => seen m (hd1 m l hq) (x1 m l hq), ?_, ?_⟩
      · intro M hM; rw [mark_frame inv ha hk hcw hM, e2]; exact x2 M hM
      · intro b
        obtain ⟨m, l, hq, hs⟩ := x3 b
        exact ⟨m, l, hq, seen m (hd2 m l hq) hs⟩
  have hh : HeadSeen s t' → HeadSeen s' t' := by
    intro ⟨m, l, hq, hs⟩
    exact ⟨m, l, by rw [e3]; exact hq, seen m (hd1 m l hq) hs⟩
  cases p <;> simp only [HR] at h ⊢ <;> first
    | trivial
    | exact hk' _ h
    | exact hh h
    | (obtain ⟨m, l, hq, hs⟩ := h; exact ⟨m, l, by rw [e4]; exact hq, seen m (hd2 m l hq) hs⟩)

/-- a writer step (thread `t` stays inside the write section): the other threads are not writers -/
theorem hb_wstep {t : Nat} {p' : Pc} (inv : Inv wt rt s) (h : HInv wt s) (hin : wsec (s.pc t) = true)
    (hpc : s'.pc = upd s.pc t p') (hp' : wsec p' = true)
    (stale : s'.stale = 0)
    (pub : ∀ m, m ∈ s'.q1 ++ s'.q2 → ∀ i, i < spanCells m.nb → s'.cellW (m.cell + i) ∈ s'.relW)
    (mrk : ∀ M, s'.mark = some M → s'.cellW M ∈ s'.relW)
    (relw : s'.relW ⊆ s'.know t)
    (rel0 : s'.useLock = false → s'.relW ⊆ s'.know wt)
    (rell : s'.useLock = true → s'.lock = 0 → s'.relW ⊆ s'.relL)
    (hw : HW s' t p') (hro : ∀ t', t' ≠ t → HR s t' (s.pc t') → HR s' t' (s.pc t')) : HInv wt s' := by
  refine hstep h hpc stale pub mrk (fun _ => relw) ?_ rel0 rell hw ?_ ?_ hro
  · intro t' ht' hw'; rw [inv.others_out hin ht'] at hw'; cases hw'
  · intro t' ht' _; exact HW_of_not_wsec (inv.others_out hin ht')
  · apply HR_of_not_rsec; cases p' <;> simp [wsec, rsec] at hp' ⊢

/-- a writer step that stores into cells `[a, a+k)` of the free region (`noteWrite`) -/
theorem hb_write {t a k : Nat} {p' : Pc} (inv : Inv wt rt s) (h : HInv wt s) (hin : wsec (s.pc t) = true)
    (ha : s.W ≤ a) (hk : a + k ≤ s.W + s.CR + 1)
    (hpc : s'.pc = upd s.pc t p') (hp' : wsec p' = true)
    (ecw : s'.cellW = fun i => if a ≤ i ∧ i < a + k then s.nextW else s.cellW i)
    (ekn : s'.know = upd s.know t (s.nextW :: s.know t))
    (e : s'.stale = s.stale ∧ s'.q1 = s.q1 ∧ s'.q2 = s.q2 ∧ s'.relW = s.relW ∧ s'.mark = s.mark ∧
         s'.useLock = s.useLock ∧ s'.lock = s.lock ∧ s'.relL = s.relL ∧ s'.R = s.R ∧ s'.rMk0 = s.rMk0)
    (hw : HW s' t p') : HInv wt s' := by
  obtain ⟨e1, e2, e3, e4, e5, e6, e7, e8, e9, e10⟩ := e
  have hcw : ∀ j, (j < a ∨ a + k ≤ j) → s'.cellW j = s.cellW j := by
    intro j hj; rw [ecw]; simp only []; rw [if_neg (by omega)]
  have hkn : ∀ t', s.know t' ⊆ s'.know t' := by
    intro t' x hx; rw [ekn]; simp only [upd]; split
    · rename_i e; subst e; exact List.mem_cons_of_mem _ hx
    · exact hx
  refine hb_wstep inv h hin hpc hp' (by rw [e1]; exact h.stale) ?_ ?_ ?_ ?_ ?_ hw ?_
  · rw [e2, e3, e4]; intro m hm i hi; rw [cells_frame inv ha hk hcw hm hi]; exact h.pub m hm i hi
  · rw [e5, e4]; intro M hM; rw [mark_frame inv ha hk hcw hM]; exact h.mrk M hM
  · rw [e4]; exact fun x hx => hkn t (h.relw t hin hx)
  · rw [e6, e4]; exact fun hu x hx => hkn wt (h.rel0 hu hx)
  · rw [e6, e7, e4, e8]; exact h.rell
  · intro t' ht' hh
    refine HR_frame inv ha hk hcw ⟨e9, ?_, e2, e3, e5, e10⟩ hh
    rw [ekn]; simp [upd, ht']


/-! ## writer steps -/

theorem hb_um2 {r w : Nat} (inv : Inv wt rt s) (h : HInv wt s) (ht : ¬ tok.tid ≥ s.nthr)
    (hpc : s.pc tok.tid = .um2 r w) (hs : step s tok = some (s', ev)) : HInv wt s' := by
  have hin : wsec (s.pc tok.tid) = true := by rw [hpc]; rfl
  have hw := (inv.thr tok.tid).w; rw [hpc] at hw; simp only [WInv] at hw
  obtain ⟨rfl, -⟩ := hw
  have hwl := inv.wle
  have hnf : ¬ s.W ≥ s.N := by omega
  simp only [step, ht, hpc, if_false, hnf, noteWrite, Option.some.injEq, Prod.mk.injEq] at hs
  obtain ⟨rfl, -⟩ := hs
  exact hb_write inv h hin (a := s.W) (k := 1) (Nat.le_refl _) (by omega) rfl rfl rfl rfl
    ⟨rfl, rfl, rfl, rfl, rfl, rfl, rfl, rfl, rfl, rfl⟩ (by simp [HW])

theorem hb_um3 {r w : Nat} (inv : Inv wt rt s) (h : HInv wt s) (ht : ¬ tok.tid ≥ s.nthr)
    (hpc : s.pc tok.tid = .um3 r w) (hs : step s tok = some (s', ev)) : HInv wt s' := by
  have hin : wsec (s.pc tok.tid) = true := by rw [hpc]; rfl
  have hw := (inv.thr tok.tid).w; rw [hpc] at hw; simp only [WInv] at hw
  obtain ⟨rfl, -⟩ := hw
  simp only [step, ht, hpc, if_false, noteWrite, Option.some.injEq, Prod.mk.injEq] at hs
  obtain ⟨rfl, -⟩ := hs
  exact hb_write inv h hin (a := s.W) (k := 1) (Nat.le_refl _) (by omega) rfl rfl rfl rfl
    ⟨rfl, rfl, rfl, rfl, rfl, rfl, rfl, rfl, rfl, rfl⟩ (by simp [HW, upd])

theorem hb_h2 {w : Nat} (inv : Inv wt rt s) (h : HInv wt s) (ht : ¬ tok.tid ≥ s.nthr)
    (hpc : s.pc tok.tid = .h2 w) (hs : step s tok = some (s', ev)) : HInv wt s' := by
  have hin : wsec (s.pc tok.tid) = true := by rw [hpc]; rfl
  have hw := (inv.thr tok.tid).w; rw [hpc] at hw; simp only [WInv] at hw
  obtain ⟨rfl, -⟩ := hw
  have hwl := inv.wle
  have hnf : ¬ s.W ≥ s.N := by omega
  simp only [step, ht, hpc, if_false, hnf, noteWrite, Option.some.injEq, Prod.mk.injEq] at hs
  obtain ⟨rfl, -⟩ := hs
  exact hb_write inv h hin (a := s.W) (k := 1) (Nat.le_refl _) (by omega) rfl rfl rfl rfl
    ⟨rfl, rfl, rfl, rfl, rfl, rfl, rfl, rfl, rfl, rfl⟩ (by simp [HW])

theorem hb_h3 {w : Nat} (inv : Inv wt rt s) (h : HInv wt s) (ht : ¬ tok.tid ≥ s.nthr)
    (hpc : s.pc tok.tid = .h3 w) (hs : step s tok = some (s', ev)) : HInv wt s' := by
  have hin : wsec (s.pc tok.tid) = true := by rw [hpc]; rfl
  have hw := (inv.thr tok.tid).w; rw [hpc] at hw; simp only [WInv] at hw
  obtain ⟨rfl, -⟩ := hw
  simp only [step, ht, hpc, if_false, noteWrite, Option.some.injEq, Prod.mk.injEq] at hs
  obtain ⟨rfl, -⟩ := hs
  exact hb_write inv h hin (a := s.W) (k := 1) (Nat.le_refl _) (by omega) rfl rfl rfl rfl
    ⟨rfl, rfl, rfl, rfl, rfl, rfl, rfl, rfl, rfl, rfl⟩ (by simp [HW])

theorem hb_h4 {w : Nat} (inv : Inv wt rt s) (h : HInv wt s) (ht : ¬ tok.tid ≥ s.nthr)
    (hpc : s.pc tok.tid = .h4 w) (hs : step s tok = some (s', ev)) : HInv wt s' := by
  have ti := inv.thr tok.tid
  have hin : wsec (s.pc tok.tid) = true := by rw [hpc]; rfl
  have hw := ti.w; rw [hpc] at hw; simp only [WInv] at hw
  have hc := ti.cur (by rw [hpc]; rfl)
  obtain ⟨rfl, hcr, -, -⟩ := hw
  have hn0 : ¬ (s.cur tok.tid).n = 0 := by have := hc.1; omega
  have hbv : ¬ s.W + (s.cur tok.tid).ncl > s.N := by have := inv.crok.1; omega
  have hov := no_overlap inv hcr
  have hsp := span_le (s.cur tok.tid).n
  have hncl := hc.2
  simp only [step, ht, hpc, if_false, hn0, hbv, hov, noteWrite, Nat.add_zero, Option.some.injEq, Prod.mk.injEq] at hs
  obtain ⟨rfl, -⟩ := hs
  refine hb_write inv h hin (a := s.W) (k := spanCells (s.cur tok.tid).n) (Nat.le_refl _) (by omega) rfl rfl rfl rfl
    ⟨rfl, rfl, rfl, rfl, rfl, rfl, rfl, rfl, rfl, rfl⟩ ?_
  simp only [HW, upd_same]
  intro i hi
  have : s.W ≤ s.W + i ∧ s.W + i < s.W + spanCells (s.cur tok.tid).n := by omega
  simp [this]


/-- a writer step that ends the allocation: own effect `s1` (program counters untouched), then `release` -/
theorem hfinish_w {t : Nat} {s1 : St} (inv : Inv wt rt s) (hin : wsec (s.pc t) = true)
    (hpc : s1.pc = s.pc) (hprog : s1.prog = s.prog) (hul : s1.useLock = s.useLock)
    (stale : s1.stale = 0)
    (pub : ∀ m, m ∈ s1.q1 ++ s1.q2 → ∀ i, i < spanCells m.nb → s1.cellW (m.cell + i) ∈ s1.relW)
    (mrk : ∀ M, s1.mark = some M → s1.cellW M ∈ s1.relW)
    (hrel : s1.relW ⊆ s1.know t)
    (rel0 : s1.useLock = false → s1.relW ⊆ s1.know wt)
    (rell : s1.useLock = true → s1.lock = 0 → s1.relW ⊆ s1.relL)
    (hro : ∀ t', t' ≠ t → HR s1 t' (s.pc t')) : HInv wt (release s1 t).1 := by
  refine release_hinv (rt := rt) ⟨stale, pub, mrk, ?_, rel0, rell, ?_, ?_⟩ ?_ hrel
  · intro t' ht' hw'; rw [hpc, inv.others_out hin ht'] at hw'; cases hw'
  · intro t' ht'; rw [hpc]; exact HW_of_not_wsec (inv.others_out hin ht')
  · intro t' ht'; rw [hpc]; exact hro t' ht'
  · have := (inv.thr t).prog; unfold ProgOk at *; rw [hprog, hul]; exact this

/-- a reader step that ends the fetch / the consumption: own effect `s1`, then `beginOp` -/
theorem hfinish_r {t : Nat} {s1 : St} (inv : Inv wt rt s) (h : HInv wt s) (hin : rsec (s.pc t) = true)
    (hpc : s1.pc = s.pc) (hprog : s1.prog = s.prog) (hul : s1.useLock = s.useLock)
    (e : s1.cellW = s.cellW ∧ s1.W = s.W ∧ s1.know = s.know ∧ s1.cur = s.cur ∧ s1.relW = s.relW ∧
         s1.relL = s.relL ∧ s1.lock = s.lock)
    (stale : s1.stale = 0)
    (pub : ∀ m, m ∈ s1.q1 ++ s1.q2 → ∀ i, i < spanCells m.nb → s1.cellW (m.cell + i) ∈ s1.relW)
    (mrk : ∀ M, s1.mark = some M → s1.cellW M ∈ s1.relW) : HInv wt (beginOp s1 t).1 := by
  obtain ⟨e1, e2, e3, e4, e5, e6, e7⟩ := e
  refine beginOp_hinv (rt := rt) ⟨stale, pub, mrk, ?_, ?_, ?_, ?_, ?_⟩ ?_
  · intro t' _ hw'; rw [hpc] at hw'; rw [e5, e3]; exact h.relw t' hw'
  · rw [hul, e5, e3]; exact h.rel0
  · rw [hul, e7, e5, e6]; exact h.rell
  · intro t' _; rw [hpc]; exact HW.congr ⟨e1, e2, by rw [e3], by rw [e4]⟩ (h.w t')
  · intro t' ht'; rw [hpc]; exact HR_of_not_rsec (inv.reader_unique hin ht')
  · have := (inv.thr t).prog; unfold ProgOk at *; rw [hprog, hul]; exact this

theorem hb_p1 {w : Nat} (inv : Inv wt rt s) (h : HInv wt s) (ht : ¬ tok.tid ≥ s.nthr)
    (hpc : s.pc tok.tid = .p1 w) (hs : step s tok = some (s', ev)) : HInv wt s' := by
  have ti := inv.thr tok.tid
  have hin : wsec (s.pc tok.tid) = true := by rw [hpc]; rfl
  have hw := ti.w; rw [hpc] at hw; simp only [WInv] at hw
  have hc := ti.cur (by rw [hpc]; rfl)
  have hh := h.w tok.tid; rw [hpc] at hh; simp only [HW] at hh
  obtain ⟨rfl, hcr, -⟩ := hw
  have hsp := span_le (s.cur tok.tid).n
  have hncl := hc.2
  have hn := hc.1
  have hcrok := inv.crok.1
  have hcell : (s.W * 64 + 8 + (s.cur tok.tid).n - 1) / 64 = s.W + (spanCells (s.cur tok.tid).n - 1) := by
    simp only [spanCells]; omega
  have hspos := span_pos (s.cur tok.tid).n
  have hnf : ¬ (s.W * 64 + 8 + (s.cur tok.tid).n - 1) / 64 ≥ s.N := by rw [hcell]; omega
  have hcells : ∀ i, i < spanCells (s.cur tok.tid).n →
      (if (s.W * 64 + 8 + (s.cur tok.tid).n - 1) / 64 ≤ s.W + i ∧
          s.W + i < (s.W * 64 + 8 + (s.cur tok.tid).n - 1) / 64 + 1 then s.nextW else s.cellW (s.W + i))
        ∈ s.nextW :: s.know tok.tid := by
    intro i hi
    split
    · exact List.mem_cons_self
    · exact List.mem_cons_of_mem _ (hh i hi)
  cases hcm : (s.cur tok.tid).commit with
  | true =>
    simp only [step, ht, hpc, if_false, hnf, noteWrite, afterPayload, hcm, if_true, Option.some.injEq,
      Prod.mk.injEq] at hs
    obtain ⟨rfl, -⟩ := hs
    refine hb_write inv h hin (a := (s.W * 64 + 8 + (s.cur tok.tid).n - 1) / 64) (k := 1) (by rw [hcell]; omega)
      (by rw [hcell]; omega) rfl rfl rfl rfl ⟨rfl, rfl, rfl, rfl, rfl, rfl, rfl, rfl, rfl, rfl⟩ ?_
    simp only [HW, upd_same]
    exact hcells
  | false =>
    simp only [step, ht, hpc, if_false, hnf, noteWrite, afterPayload, hcm, Bool.false_eq_true] at hs
    generalize hrel : release _ tok.tid = rr at hs
    simp only [Option.some.injEq, Prod.mk.injEq] at hs
    obtain ⟨rfl, -⟩ := hs
    rw [← hrel]
    have hcw : ∀ j, (j < (s.W * 64 + 8 + (s.cur tok.tid).n - 1) / 64 ∨
        (s.W * 64 + 8 + (s.cur tok.tid).n - 1) / 64 + 1 ≤ j) →
        (if (s.W * 64 + 8 + (s.cur tok.tid).n - 1) / 64 ≤ j ∧ j < (s.W * 64 + 8 + (s.cur tok.tid).n - 1) / 64 + 1
          then s.nextW else s.cellW j) = s.cellW j := by
      intro j hj; rw [if_neg (by omega)]
    refine hfinish_w inv hin rfl rfl rfl h.stale ?_ ?_ ?_ ?_ h.rell ?_
    · intro m hm i hi
      show (if _ then _ else _) ∈ s.relW
      rw [hcw _ (by
        have hf := inv.free (k := s.CR) inv.crok.1 inv.crok.2 hm
        have hok := inv.msgs m hm
        have := span_le m.nb
        have := hok.2.1
        rw [hcell]; omega)]
      exact h.pub m hm i hi
    · intro M hM
      show (if _ then _ else _) ∈ s.relW
      rw [hcw _ (by have := inv.free_mark (k := s.CR) inv.crok.2 hM; rw [hcell]; omega)]
      exact h.mrk M hM
    · intro x hx; simp only [upd_same]; exact List.mem_cons_of_mem _ (h.relw _ hin hx)
    · intro hu x hx
      simp only [upd]
      split
      · exact List.mem_cons_of_mem _ (by rename_i e; rw [← e]; exact h.rel0 hu hx)
      · exact h.rel0 hu hx
    · intro t' ht'
      refine HR_frame inv (a := (s.W * 64 + 8 + (s.cur tok.tid).n - 1) / 64) (k := 1) (by rw [hcell]; omega)
        (by rw [hcell]; omega) hcw ⟨rfl, by simp [upd, ht'], rfl, rfl, rfl, rfl⟩ (h.r t')

theorem hb_m2 {hh : Nat} (inv : Inv wt rt s) (h : HInv wt s) (ht : ¬ tok.tid ≥ s.nthr)
    (hpc : s.pc tok.tid = .m2 hh) (hs : step s tok = some (s', ev)) : HInv wt s' := by
  have ti := inv.thr tok.tid
  have hw := ti.w; rw [hpc] at hw; simp only [WInv] at hw
  obtain ⟨rfl, hcr, hbu⟩ := hw
  have hw0 := h.w tok.tid; rw [hpc] at hw0
  have hr0 := h.r tok.tid; rw [hpc] at hr0
  have hwl := inv.wle
  have hnf : ¬ s.W ≥ s.N := by omega
  have hst : staleRead s tok.tid s.W = 0 := by
    simp only [HW] at hw0
    have := hw0 0 (span_pos _)
    simp only [Nat.add_zero] at this
    simp [staleRead, this]
  simp only [step, ht, hpc, if_false, hnf, hbu.2.2.2.1, hst, Nat.add_zero, Option.some.injEq, Prod.mk.injEq] at hs
  obtain ⟨rfl, -⟩ := hs
  exact hlocal h rfl ⟨rfl, rfl, rfl, rfl, rfl, rfl, rfl, rfl, rfl, rfl, rfl, rfl, rfl, rfl⟩
    (by intro _; rw [hpc]; rfl) hw0 hr0


theorem hb_um4 {r : Nat} (inv : Inv wt rt s) (h : HInv wt s) (ht : ¬ tok.tid ≥ s.nthr)
    (hpc : s.pc tok.tid = .um4 r) (hs : step s tok = some (s', ev)) : HInv wt s' := by
  have ti := inv.thr tok.tid
  have hin : wsec (s.pc tok.tid) = true := by rw [hpc]; rfl
  have hw := ti.w; rw [hpc] at hw; simp only [WInv, Um] at hw
  obtain ⟨⟨-, hmk, -⟩, -⟩ := hw
  have hw0 := h.w tok.tid; rw [hpc] at hw0; simp only [HW] at hw0
  simp only [step, ht, hpc, if_false, Option.some.injEq, Prod.mk.injEq] at hs
  obtain ⟨rfl, -⟩ := hs
  have hsub := h.relw _ hin
  refine hb_wstep inv h hin rfl rfl h.stale ?_ ?_ (fun _ hx => hx) ?_ ?_ (by simp [HW]) ?_
  · intro m hm i hi; exact hsub (h.pub m hm i hi)
  · intro M hM; simp only [Option.some.injEq] at hM; subst hM; exact hw0
  · intro hu; have := (ti.lk hin).2 hu; subst this; exact fun _ hx => hx
  · intro hu hl; have := (ti.lk hin).1 hu; simp only [] at hl; omega
  · intro t' ht' hh
    have hf := (inv.thr t').r
    -- the reader cannot have seen a marker when it loaded the cursor: there was none
    have hnm : ∀ w, Fw s w → s.rMk0 = false := by
      intro w f
      cases hm : s.rMk0 with
      | false => rfl
      | true => have := f.2.1 hm; simp [hmk] at this
    generalize hp : s.pc t' = p at hh hf
    cases p <;> simp only [HR, HK, HeadSeen, RInv] at hh hf ⊢ <;> first
      | trivial
      | exact hh
      | (have hz := hnm _ (by first | exact hf | exact hf.2 | exact hf.2.2 | exact hf.2.2.2)
         exact ⟨hh.1, fun hc => by rw [hz] at hc; cases hc⟩)
      | (rw [hmk] at hf; simp at hf)

theorem hb_m6 {n w : Nat} (inv : Inv wt rt s) (h : HInv wt s) (ht : ¬ tok.tid ≥ s.nthr)
    (hpc : s.pc tok.tid = .m6 n w) (hs : step s tok = some (s', ev)) : HInv wt s' := by
  have ti := inv.thr tok.tid
  have hin : wsec (s.pc tok.tid) = true := by rw [hpc]; rfl
  have hw := ti.w; rw [hpc] at hw; simp only [WInv, Built] at hw
  obtain ⟨rfl, rfl, -, hcell, -⟩ := hw
  have hw0 := h.w tok.tid; rw [hpc] at hw0; simp only [HW] at hw0
  simp only [step, ht, hpc, if_false] at hs
  generalize hrel : release _ tok.tid = rr at hs
  simp only [Option.some.injEq, Prod.mk.injEq] at hs
  obtain ⟨rfl, -⟩ := hs
  rw [← hrel]
  have hsub := h.relw _ hin
  refine hfinish_w inv hin rfl rfl rfl h.stale ?_ ?_ (fun _ hx => hx) ?_ ?_ ?_
  · intro m hm i hi
    show s.cellW (m.cell + i) ∈ s.know tok.tid
    have : m ∈ s.q1 ++ s.q2 ∨ m = Msg.mk (s.cur tok.tid).cell (s.cur tok.tid).n (s.cur tok.tid).ncl
        (s.cur tok.tid).tag := by
      cases hmk : s.mark.isSome <;> simp only [hmk, if_true, if_false, Bool.false_eq_true] at hm <;>
        simp only [List.mem_append, List.mem_singleton] at hm ⊢ <;> grind
    rcases this with hm | rfl
    · exact hsub (h.pub m hm i hi)
    · simp only [hcell]; exact hw0 i hi
  · intro M hM; exact hsub (h.mrk M hM)
  · intro hu; have := (ti.lk hin).2 hu; subst this; exact fun _ hx => hx
  · intro hu hl; have := (ti.lk hin).1 hu; simp only [] at hl; omega
  · intro t' ht'
    have hh := h.r t'
    have hf := (inv.thr t').r
    generalize hp : s.pc t' = p at hh hf
    cases hmk : s.mark with
    | none =>
      have hnm : ∀ w, Fw s w → s.rMk0 = false := by
        intro w f
        cases hm : s.rMk0 with
        | false => rfl
        | true => have := f.2.1 hm; simp [hmk] at this
      simp only [Option.isSome_none, Bool.false_eq_true, if_false]
      cases p <;> simp only [HR, HK, HeadSeen, Seen, RInv, hmk] at hh hf ⊢ <;> first
        | trivial
        | (have hz := hnm _ (by first | exact hf | exact hf.2 | exact hf.2.2 | exact hf.2.2.2)
           refine ⟨fun a b => ?_, fun hc => by rw [hz] at hc; cases hc⟩
           obtain ⟨m, l, hq, hs⟩ := hh.1 a b
           exact ⟨m, l ++ [_], by rw [hq]; rfl, hs⟩)
        | (obtain ⟨m, l, hq, hs⟩ := hh; exact ⟨m, l ++ [_], by rw [hq]; rfl, hs⟩)
        | exact hh
    | some M =>
      simp only [Option.isSome_some, if_true]
      cases p <;> simp only [HR, HK, HeadSeen, Seen, hmk] at hh ⊢ <;> first
        | trivial
        | exact hh
        | (refine ⟨hh.1, fun hc => ?_⟩
           obtain ⟨x1, x2, x3⟩ := hh.2 hc
           refine ⟨x1, x2, fun b => ?_⟩
           obtain ⟨m, l, hq, hs⟩ := x3 b
           exact ⟨m, l ++ [_], by rw [hq]; rfl, hs⟩)
        | (obtain ⟨m, l, hq, hs⟩ := hh; exact ⟨m, l ++ [_], by rw [hq]; rfl, hs⟩)

end MgProof.C08
