import MgModel.C08.Ring
namespace MgProof.C08
open MgModel.Conc MgModel.C08
end MgProof.C08
