import MgModel.C08.Ring
/-!
# C08 — the invariant of the shared-memory ring buffer model

`Inv wt rt s` (below) is proved to hold in every state reachable from `mkInit`
(MgProof/C08/Main.lean) by showing that every step of `MgModel.C08.step` preserves it
(StepW.lean: writer-side steps, StepR.lean: reader-side steps).

Vocabulary
* `chain c l e`   the messages `l` lie back to back from cell `c` to cell `e`
* `MsgOk s m`     memory holds the header words and the payload fill of `m`
* `Geo s`         no marker pending: `q1` lies from `R` to `W`;
                  marker pending at `M`: `q1` from `R` to `M`, `q2` from `0` to `W`, `W < R`
* `CROk s`        `cached_remain` never promises cells that are not free
* `WInv`/`RInv`   what a thread knows at each program counter (values in C locals)
-/
namespace MgProof.C08
open MgModel.Conc MgModel.C08

/-! ## geometry -/

def chain : Nat → List Msg → Nat → Prop
  | c, [], e => c = e
  | c, m :: l, e => m.cell = c ∧ 1 ≤ m.ncl ∧ chain (c + m.ncl) l e

theorem chain_le {c e : Nat} {l : List Msg} (h : chain c l e) : c ≤ e := by
  induction l generalizing c with
  | nil => simp [chain] at h; omega
  | cons m l ih => simp only [chain] at h; have := ih h.2.2; omega

theorem chain_mem {c e : Nat} {l : List Msg} (h : chain c l e) {m : Msg} (hm : m ∈ l) :
    c ≤ m.cell ∧ m.cell + m.ncl ≤ e := by
  induction l generalizing c with
  | nil => cases hm
  | cons x l ih =>
    simp only [chain] at h
    rcases List.mem_cons.mp hm with rfl | hm
    · have := chain_le h.2.2; omega
    · have := ih h.2.2 hm; omega

theorem chain_append {c e : Nat} {l : List Msg} (h : chain c l e) (m : Msg) (hc : m.cell = e)
    (hn : 1 ≤ m.ncl) : chain c (l ++ [m]) (e + m.ncl) := by
  induction l generalizing c with
  | nil => simp only [chain] at h; subst h; simp [chain, hc, hn]
  | cons x l ih => simp only [chain] at h; exact ⟨h.1, h.2.1, ih h.2.2⟩

theorem chain_self_nil {c : Nat} {l : List Msg} (h : chain c l c) : l = [] := by
  cases l with
  | nil => rfl
  | cons m l => simp only [chain] at h; have := chain_le h.2.2; omega

theorem chain_ne_nil {c e : Nat} {l : List Msg} (h : chain c l e) (hne : c ≠ e) : l ≠ [] := by
  intro hl; subst hl; simp [chain] at h; exact hne h

/-! ## memory -/

def MsgOk (s : St) (m : Msg) : Prop :=
  1 ≤ m.nb ∧ m.ncl = calNcl m.nb ∧ s.hb m.cell = some m.nb ∧ s.hc m.cell = some m.ncl ∧
  ∀ i, i < spanCells m.nb → s.pb (m.cell + i) = some m.tag

theorem span_le (n : Nat) : spanCells n + 2 = calNcl n := by simp [spanCells, calNcl]
theorem span_pos (n : Nat) : 1 ≤ spanCells n := by simp [spanCells]; omega

def Geo (s : St) : Prop :=
  match s.mark with
  | none => chain s.R s.q1 s.W ∧ s.q2 = []
  | some M => chain s.R s.q1 M ∧ chain 0 s.q2 s.W ∧ s.W < s.R ∧ M + 1 ≤ s.N ∧
              s.hb M = some 0 ∧ s.N + 1 ≤ 2 * M

def CROk (s : St) : Prop :=
  s.W + s.CR + 1 ≤ s.N ∧ (s.mark.isSome → s.W + s.CR + 1 ≤ s.R)

/-! ## program counters -/

/-- inside `w_alloc` / `w_move` (the write lock, if used, is held) -/
def wsec : Pc → Bool
  | .a1 | .u0 | .u1 _ | .ug _ | .ugw _ | .ul _ | .ulw _ | .um1 _ | .um2 _ _ | .um3 _ _ | .um4 _
  | .um5 _ | .a2 | .h1 | .h2 _ | .h3 _ | .h4 _ | .p1 _ | .m1 | .m2 _ | .m3 _ | .m4 _ _ | .m5 _
  | .m6 _ _ | .unl => true
  | _ => false

/-- inside `r_fetch` / `r_move` -/
def rsec : Pc → Bool
  | .f0 | .f1 _ | .f2 _ | .f3 _ _ | .f4 _ | .f5 _ _ | .g1 | .g2 _ | .g3 _ | .rp _ _ | .k1 | .k2
  | .k3 _ | .k4 | .k5 _ | .r1 | .r2 _ | .r3 _ | .r4 _ _ => true
  | _ => false

/-- executing an allocation (its parameters in `cur` are meaningful) -/
def asec : Pc → Bool
  | .lk | .lkY => true
  | p => wsec p

def CurOk (s : St) (t : Nat) : Prop := 1 ≤ (s.cur t).n ∧ (s.cur t).ncl = calNcl (s.cur t).n

/-- the harness ghost says "drained" and the request is within the no-wedge bound -/
def Dh (s : St) (t : Nat) : Prop := (s.cur t).drained = true ∧ (s.cur t).ncl + 1 ≤ s.N / 2

def Q0 (s : St) : Prop := s.q1 = [] ∧ s.q2 = []

/-- the value `r` loaded from `read_cursor` some time ago -/
def Rv (s : St) (r : Nat) : Prop :=
  r + 1 ≤ s.N ∧ (s.mark.isSome → s.W < r ∧ r ≤ s.R) ∧ (s.mark = none → r ≤ s.W → r ≤ s.R)

/-- about to place the wrap marker -/
def Um (s : St) (t r : Nat) : Prop :=
  s.CR < (s.cur t).ncl ∧ s.mark = none ∧ (s.cur t).ncl + 1 ≤ r ∧ r ≤ s.R ∧ r ≤ s.W ∧
  s.N ≤ s.W + (s.cur t).ncl

/-- the header and the payload of the message being built are in place at `W` -/
def Built (s : St) (t : Nat) : Prop :=
  (s.cur t).cell = s.W ∧ s.WH = some s.W ∧ s.hb s.W = some (s.cur t).n ∧
  s.hc s.W = some (s.cur t).ncl ∧ ∀ i, i < spanCells (s.cur t).n → s.pb (s.W + i) = some (s.cur t).tag

/-- `cached_remain` already reduced by the message, cursor not yet advanced -/
def CRmoved (s : St) (t : Nat) : Prop :=
  s.W + (s.cur t).ncl + s.CR + 1 ≤ s.N ∧ (s.mark.isSome → s.W + (s.cur t).ncl + s.CR + 1 ≤ s.R)

def WInv (s : St) (t : Nat) : Pc → Prop
  | .a1 => Dh s t → Q0 s
  | .u0 => s.CR < (s.cur t).ncl ∧ (Dh s t → Q0 s)
  | .u1 r => s.CR < (s.cur t).ncl ∧ Rv s r ∧ (Dh s t → Q0 s ∧ r = s.R)
  | .ug r => s.CR < (s.cur t).ncl ∧ Rv s r ∧ s.W < r ∧ (Dh s t → Q0 s ∧ r = s.R)
  | .ugw v => s.W + v + 1 ≤ s.N ∧ (s.mark.isSome → s.W + v + 1 ≤ s.R) ∧ (Dh s t → (s.cur t).ncl ≤ v)
  | .ul r => s.CR < (s.cur t).ncl ∧ r ≤ s.W ∧ r ≤ s.R ∧ s.mark = none ∧ (Dh s t → Q0 s ∧ r = s.R)
  | .ulw v => s.W + v + 1 ≤ s.N ∧ s.mark = none ∧ (s.cur t).ncl ≤ v
  | .um1 r => Um s t r
  | .um2 r w => w = s.W ∧ Um s t r
  | .um3 r w => w = s.W ∧ Um s t r ∧ s.hb s.W = some 0
  | .um4 r => Um s t r ∧ s.hb s.W = some 0
  | .um5 r => s.W = 0 ∧ (s.cur t).ncl + 1 ≤ r ∧ r + 1 ≤ s.N ∧ (s.mark.isSome → r ≤ s.R)
  | .a2 => Dh s t → (s.cur t).ncl ≤ s.CR
  | .h1 => (s.cur t).ncl ≤ s.CR
  | .h2 w => w = s.W ∧ (s.cur t).ncl ≤ s.CR
  | .h3 w => w = s.W ∧ (s.cur t).ncl ≤ s.CR ∧ s.hb s.W = some (s.cur t).n
  | .h4 w => w = s.W ∧ (s.cur t).ncl ≤ s.CR ∧ s.hb s.W = some (s.cur t).n ∧
             s.hc s.W = some (s.cur t).ncl
  | .p1 w => w = s.W ∧ (s.cur t).ncl ≤ s.CR ∧ Built s t
  | .m1 => (s.cur t).ncl ≤ s.CR ∧ Built s t
  | .m2 h => h = s.W ∧ (s.cur t).ncl ≤ s.CR ∧ Built s t
  | .m3 n => n = (s.cur t).ncl ∧ (s.cur t).ncl ≤ s.CR ∧ Built s t
  | .m4 n cr => n = (s.cur t).ncl ∧ cr = s.CR ∧ (s.cur t).ncl ≤ s.CR ∧ Built s t
  | .m5 n => n = (s.cur t).ncl ∧ CRmoved s t ∧ Built s t
  | .m6 n w => n = (s.cur t).ncl ∧ w = s.W ∧ CRmoved s t ∧ Built s t
  | _ => True

/-- what `r_fetch` knows about the value `w` it loaded from `write_cursor` -/
def Fw (s : St) (w : Nat) : Prop :=
  (w = s.R → s.rP0 = 0) ∧ (s.rMk0 = true → s.mark.isSome) ∧
  (s.rMk0 = true → w = 0 → s.rP0 = s.q1.length) ∧ (s.rMk0 = true → w ≠ 0 → s.q2 ≠ []) ∧
  (s.rMk0 = false → w ≠ s.R → s.q1 ≠ [])

/-- the message the reader holds is the head of `q1` -/
def Held (s : St) : Prop :=
  ∃ m l, s.q1 = m :: l ∧ s.rcur.cell = m.cell ∧ s.rcur.nb = m.nb ∧ s.rcur.tag = m.tag

def RInv (s : St) : Pc → Prop
  | .f1 w => Fw s w
  | .f2 w => w ≠ s.R ∧ Fw s w
  | .f3 w r => r = s.R ∧ w ≠ s.R ∧ Fw s w
  | .f4 w => s.RH = some s.R ∧ w ≠ s.R ∧ Fw s w
  | .f5 w h => h = s.R ∧ s.RH = some s.R ∧ w ≠ s.R ∧ Fw s w
  | .g1 => s.RH = some s.R ∧ s.q1 ≠ []
  | .g2 h => h = s.R ∧ s.RH = some s.R ∧ s.q1 ≠ []
  | .g3 nb => s.RH = some s.R ∧ ∃ m l, s.q1 = m :: l ∧ nb = m.nb
  | .rp h nb => h = s.R ∧ s.RH = some s.R ∧ ∃ m l, s.q1 = m :: l ∧ nb = m.nb
  | .k1 => s.RH = some s.R ∧ s.q1 = [] ∧ s.mark = some s.R ∧ s.q2 ≠ []
  | .k2 => s.q1 ≠ []
  | .k3 r => r = s.R ∧ s.q1 ≠ []
  | .k4 => s.RH = some s.R ∧ s.q1 ≠ []
  | .k5 h => h = s.R ∧ s.RH = some s.R ∧ s.q1 ≠ []
  | .r1 => s.RH = some s.R ∧ Held s
  | .r2 h => h = s.R ∧ Held s
  | .r3 n => Held s ∧ ∃ m l, s.q1 = m :: l ∧ n = m.ncl
  | .r4 n r => r = s.R ∧ Held s ∧ ∃ m l, s.q1 = m :: l ∧ n = m.ncl
  | _ => True

/-! ## programs and roles -/

def OpOk : Op → Prop
  | .alloc n _ => 1 ≤ n
  | .fetch => True

def isFetch : Op → Bool
  | .fetch => true
  | _ => false

/-- thread `t` respects the roles: only `rt` fetches; without the write lock only `wt` allocates -/
def ProgOk (wt rt : Nat) (s : St) (t : Nat) : Prop :=
  (∀ op, op ∈ s.prog t → OpOk op) ∧
  (t ≠ rt → ∀ op, op ∈ s.prog t → isFetch op = false) ∧
  (s.useLock = false → t ≠ wt → ∀ op, op ∈ s.prog t → isFetch op = true)

structure ThrInv (wt rt : Nat) (s : St) (t : Nat) : Prop where
  prog : ProgOk wt rt s t
  cur  : asec (s.pc t) = true → CurOk s t
  lk   : wsec (s.pc t) = true → (s.useLock = true → s.lock = 1) ∧ (s.useLock = false → t = wt)
  lku  : (s.pc t = .lk ∨ s.pc t = .lkY ∨ s.pc t = .unl) → s.useLock = true
  rd   : rsec (s.pc t) = true → t = rt
  w    : WInv s t (s.pc t)
  r    : RInv s (s.pc t)

structure Inv (wt rt : Nat) (s : St) : Prop where
  geo  : Geo s
  crok : CROk s
  rle  : s.R + 1 ≤ s.N
  msgs : ∀ m, m ∈ s.q1 ++ s.q2 → MsgOk s m
  log  : s.committed = s.delivered ++ (s.q1 ++ s.q2)
  cnt  : s.fifoViol = 0 ∧ s.overlapViol = 0 ∧ s.boundsViol = 0 ∧ s.corrupt = 0 ∧ s.wedge = 0 ∧
         s.noneViol = 0 ∧ s.errs = 0
  excl : ∀ t t', wsec (s.pc t) = true → wsec (s.pc t') = true → t = t'
  thr  : ∀ t, ThrInv wt rt s t

/-! ## consequences used by several steps -/

theorem Inv.pend {wt rt : Nat} {s : St} (inv : Inv wt rt s) : s.pend = s.q1 ++ s.q2 := by
  simp [St.pend, inv.log]

theorem Inv.wle {wt rt : Nat} {s : St} (inv : Inv wt rt s) : s.W + 1 ≤ s.N := by
  have := inv.crok.1; omega

/-- every pending message lies inside the ring, away from the free region `[W, W+k)` whenever
`k` respects the bound `cached_remain` respects -/
theorem Inv.free {wt rt : Nat} {s : St} (inv : Inv wt rt s) {k : Nat}
    (hk : s.W + k + 1 ≤ s.N) (hk2 : s.mark.isSome → s.W + k + 1 ≤ s.R)
    {m : Msg} (hm : m ∈ s.q1 ++ s.q2) :
    m.cell + m.ncl ≤ s.W ∨ s.W + k < m.cell := by
  have g := inv.geo
  unfold Geo at g
  cases hmk : s.mark with
  | none =>
    simp only [hmk] at g
    rw [g.2, List.append_nil] at hm
    exact Or.inl (chain_mem g.1 hm).2
  | some M =>
    simp only [hmk] at g
    have h2 := hk2 (by simp [hmk])
    rcases List.mem_append.mp hm with h | h
    · have := (chain_mem g.1 h).1; right; omega
    · exact Or.inl (chain_mem g.2.1 h).2

/-- the marker cell is not in the free region either -/
theorem Inv.free_mark {wt rt : Nat} {s : St} (inv : Inv wt rt s) {k M : Nat}
    (hk2 : s.mark.isSome → s.W + k + 1 ≤ s.R) (hM : s.mark = some M) : s.W + k < M := by
  have g := inv.geo
  unfold Geo at g
  simp only [hM] at g
  have := chain_le g.1
  have := hk2 (by simp [hM])
  omega

/-- the head of `q1` starts at the read cursor -/
theorem Inv.head {wt rt : Nat} {s : St} (inv : Inv wt rt s) {m : Msg} {l : List Msg}
    (h : s.q1 = m :: l) : m.cell = s.R ∧ MsgOk s m ∧ s.R + m.ncl + 1 ≤ s.N := by
  have g := inv.geo
  have hm : MsgOk s m := inv.msgs m (by simp [h])
  unfold Geo at g
  cases hmk : s.mark with
  | none =>
    simp only [hmk, h, chain] at g
    have := chain_le g.1.2.2
    have := inv.wle
    exact ⟨g.1.1, hm, by omega⟩
  | some M =>
    simp only [hmk, h, chain] at g
    have := chain_le g.1.2.2
    exact ⟨g.1.1, hm, by omega⟩

end MgProof.C08
