import MgProof.C08.HBStep2
/-! `HInv`: lock, unlock, failed allocation, and the reader's steps that load, read or consume. -/
namespace MgProof.C08
open MgModel.Conc MgModel.C08

variable {wt rt : Nat} {s s' : St} {tok : Tok} {ev : List String}

theorem hb_lk (inv : Inv wt rt s) (h : HInv wt s) (ht : ¬ tok.tid ≥ s.nthr)
    (hpc : s.pc tok.tid = .lk) (hs : step s tok = some (s', ev)) : HInv wt s' := by
  have ti := inv.thr tok.tid
  have hu : s.useLock = true := ti.lku (by simp [hpc])
  simp only [step, ht, hpc, if_false] at hs
  split at hs
  · rename_i hl0
    simp only [Option.some.injEq, Prod.mk.injEq] at hs
    obtain ⟨rfl, -⟩ := hs
    have hkn : ∀ t', s.know t' ⊆ upd s.know tok.tid (kmerge (s.know tok.tid) s.relL) t' := by
      intro t' x hx; simp only [upd]; split
      · rename_i e; subst e; exact mem_kmerge_left _ hx
      · exact hx
    refine hstep h rfl h.stale h.pub h.mrk ?_ ?_ ?_ ?_ (by simp [HW]) ?_ (by simp [HR]) ?_
    · intro _ x hx; simp only [upd_same]; exact mem_kmerge_right _ (h.rell hu hl0 hx)
    · intro t' _ hw' x hx; exact hkn t' (h.relw t' hw' hx)
    · intro hu' x hx; exact hkn wt (h.rel0 hu' hx)
    · intro _ hl; simp only [] at hl; omega
    · intro t' ht' hh; exact HW.congr (s := s) ⟨rfl, rfl, by simp [upd, ht'], by simp [upd, ht']⟩ hh
    · intro t' ht' hh; exact HR.congr (s := s) ⟨rfl, rfl, by simp [upd, ht'], rfl, rfl, rfl, rfl⟩ hh
  · simp only [Option.some.injEq, Prod.mk.injEq] at hs
    obtain ⟨rfl, -⟩ := hs
    exact hlocal h rfl ⟨rfl, rfl, rfl, rfl, rfl, rfl, rfl, rfl, rfl, rfl, rfl, rfl, rfl, rfl⟩
      (by simp [wsec]) (by simp [HW]) (by simp [HR])

theorem hb_unl (inv : Inv wt rt s) (h : HInv wt s) (ht : ¬ tok.tid ≥ s.nthr)
    (hpc : s.pc tok.tid = .unl) (hs : step s tok = some (s', ev)) : HInv wt s' := by
  have ti := inv.thr tok.tid
  have hin : wsec (s.pc tok.tid) = true := by rw [hpc]; rfl
  simp only [step, ht, hpc, if_false] at hs
  generalize hrel : beginOp _ tok.tid = rr at hs
  simp only [Option.some.injEq, Prod.mk.injEq] at hs
  obtain ⟨rfl, -⟩ := hs
  rw [← hrel]
  refine beginOp_hinv (rt := rt) ⟨h.stale, h.pub, h.mrk, ?_, h.rel0, ?_, ?_, ?_⟩ ti.prog
  · intro t' ht' hw'; rw [inv.others_out hin ht'] at hw'; cases hw'
  · intro _ _; exact h.relw _ hin
  · intro t' ht'; exact HW_of_not_wsec (inv.others_out hin ht')
  · intro t' _; exact h.r t'

theorem hb_a2 (inv : Inv wt rt s) (h : HInv wt s) (ht : ¬ tok.tid ≥ s.nthr)
    (hpc : s.pc tok.tid = .a2) (hs : step s tok = some (s', ev)) : HInv wt s' := by
  have hin : wsec (s.pc tok.tid) = true := by rw [hpc]; rfl
  simp only [step, ht, hpc, if_false] at hs
  split at hs
  · generalize hrel : release _ tok.tid = rr at hs
    simp only [Option.some.injEq, Prod.mk.injEq] at hs
    obtain ⟨rfl, -⟩ := hs
    rw [← hrel]
    exact hfinish_w inv hin rfl rfl rfl h.stale h.pub h.mrk (h.relw _ hin) h.rel0 h.rell (fun t' _ => h.r t')
  · simp only [Option.some.injEq, Prod.mk.injEq] at hs
    obtain ⟨rfl, -⟩ := hs
    exact hlocal h rfl ⟨rfl, rfl, rfl, rfl, rfl, rfl, rfl, rfl, rfl, rfl, rfl, rfl, rfl, rfl⟩
      (by intro _; rw [hpc]; rfl) (by simp [HW]) (by simp [HR])

/-! ## reader steps -/

/-- a reader step (thread `t` stays inside the read section) that leaves the writers' fields alone -/
theorem hb_rstep {t : Nat} {p' : Pc} (inv : Inv wt rt s) (h : HInv wt s) (hin : rsec (s.pc t) = true)
    (hpc : s'.pc = upd s.pc t p') (hp' : rsec p' = true)
    (e : s'.cellW = s.cellW ∧ s'.W = s.W ∧ s'.cur = s.cur ∧ s'.relW = s.relW ∧ s'.relL = s.relL ∧
         s'.lock = s.lock ∧ s'.useLock = s.useLock)
    (hkn : ∀ t', s.know t' ⊆ s'.know t') (hkno : ∀ t', t' ≠ t → s'.know t' = s.know t')
    (stale : s'.stale = 0)
    (pub : ∀ m, m ∈ s'.q1 ++ s'.q2 → ∀ i, i < spanCells m.nb → s'.cellW (m.cell + i) ∈ s'.relW)
    (mrk : ∀ M, s'.mark = some M → s'.cellW M ∈ s'.relW)
    (hr : HR s' t p') : HInv wt s' := by
  obtain ⟨e1, e2, e3, e4, e5, e6, e7⟩ := e
  have hnw : wsec p' = false := by cases p' <;> simp [wsec, rsec] at hp' ⊢
  refine hstep h hpc stale pub mrk ?_ ?_ ?_ ?_ (HW_of_not_wsec hnw) ?_ hr ?_
  · intro hw'; rw [hnw] at hw'; cases hw'
  · intro t' _ hw' x hx; rw [e4] at hx; exact hkn t' (h.relw t' hw' hx)
  · intro hu x hx; rw [e4] at hx; rw [e7] at hu; exact hkn wt (h.rel0 hu hx)
  · rw [e7, e6, e4, e5]; exact h.rell
  · intro t' ht' hh; exact HW.congr ⟨e1, e2, hkno t' ht', by rw [e3]⟩ hh
  · intro t' ht' _; exact HR_of_not_rsec (inv.reader_unique hin ht')

theorem hb_f0 (inv : Inv wt rt s) (h : HInv wt s) (ht : ¬ tok.tid ≥ s.nthr)
    (hpc : s.pc tok.tid = .f0) (hs : step s tok = some (s', ev)) : HInv wt s' := by
  have hin : rsec (s.pc tok.tid) = true := by rw [hpc]; rfl
  simp only [step, ht, hpc, if_false, Option.some.injEq, Prod.mk.injEq] at hs
  obtain ⟨rfl, -⟩ := hs
  have hkn : ∀ t', s.know t' ⊆ upd s.know tok.tid (kmerge (s.know tok.tid) s.relW) t' := by
    intro t' x hx; simp only [upd]; split
    · rename_i e; subst e; exact mem_kmerge_left _ hx
    · exact hx
  refine hb_rstep inv h hin rfl rfl ⟨rfl, rfl, rfl, rfl, rfl, rfl, rfl⟩ hkn (fun t' ht' => by simp [upd, ht'])
    h.stale h.pub h.mrk ?_
  have seen : ∀ m, m ∈ s.q1 ++ s.q2 → ∀ i, i < spanCells m.nb →
      s.cellW (m.cell + i) ∈ upd s.know tok.tid (kmerge (s.know tok.tid) s.relW) tok.tid := by
    intro m hm i hi; simp only [upd_same]; exact mem_kmerge_right _ (h.pub m hm i hi)
  have g := inv.geo
  unfold Geo at g
  simp only [HR, HK, Seen]
  cases hmk : s.mark with
  | none =>
    simp only [hmk] at g
    refine ⟨fun _ hw => ?_, fun hc => by simp at hc⟩
    cases hq : s.q1 with
    | nil => rw [hq] at g; simp only [chain] at g; exact absurd g.1.symm hw
    | cons m l => exact ⟨m, l, rfl, seen m (by simp [hq])⟩
  | some M =>
    simp only [hmk] at g
    refine ⟨fun hc => by simp at hc, fun _ => ⟨?_, ?_, ?_⟩⟩
    · intro m l hq; exact seen m (by simp [hq])
    · intro M' hM'; cases hM'; simp only [upd_same]; exact mem_kmerge_right _ (h.mrk M hmk)
    · intro hw
      cases hq : s.q2 with
      | nil => rw [hq] at g; simp only [chain] at g; exact absurd g.2.1.symm hw
      | cons m l => exact ⟨m, l, rfl, seen m (by simp [hq])⟩


theorem hb_f1 {w : Nat} (inv : Inv wt rt s) (h : HInv wt s) (ht : ¬ tok.tid ≥ s.nthr)
    (hpc : s.pc tok.tid = .f1 w) (hs : step s tok = some (s', ev)) : HInv wt s' := by
  have hin : rsec (s.pc tok.tid) = true := by rw [hpc]; rfl
  have hr0 := h.r tok.tid; rw [hpc] at hr0
  simp only [step, ht, hpc, if_false] at hs
  split at hs
  · generalize hrel : beginOp _ tok.tid = rr at hs
    simp only [Option.some.injEq, Prod.mk.injEq] at hs
    obtain ⟨rfl, -⟩ := hs
    rw [← hrel]
    exact hfinish_r inv h hin rfl rfl rfl ⟨rfl, rfl, rfl, rfl, rfl, rfl, rfl⟩ h.stale h.pub h.mrk
  · simp only [Option.some.injEq, Prod.mk.injEq] at hs
    obtain ⟨rfl, -⟩ := hs
    exact hlocal h rfl ⟨rfl, rfl, rfl, rfl, rfl, rfl, rfl, rfl, rfl, rfl, rfl, rfl, rfl, rfl⟩
      (by simp [wsec]) (by simp [HW]) hr0

/-- the fetch in progress sees the cell at the read cursor, be it a header or the marker -/
theorem seen_at_R {t w : Nat} (inv : Inv wt rt s) (hk : HK s t w) (hf : Fw s w) (hwr : w ≠ s.R) :
    staleRead s t s.R = 0 ∧
    (∀ m l, s.q1 = m :: l → Seen s t m) ∧
    (s.q1 = [] → w ≠ 0 → ∃ m l, s.q2 = m :: l ∧ Seen s t m) := by
  obtain ⟨k1, k2⟩ := hk
  obtain ⟨f1, f2, f3, f4, f5⟩ := hf
  have hhead : ∀ m l, s.q1 = m :: l → Seen s t m := by
    intro m l hq
    cases hm : s.rMk0 with
    | false =>
      obtain ⟨m', l', hq', hs⟩ := k1 hm hwr
      rw [hq] at hq'; cases hq'; exact hs
    | true => exact (k2 hm).1 m l hq
  refine ⟨?_, hhead, ?_⟩
  · rcases inv.at_R with ⟨m, l, hq, -, -⟩ | ⟨hq, hmk, -⟩ | ⟨hq, hmk⟩
    · have := hhead m l hq 0 (span_pos _)
      rw [Nat.add_zero, (inv.head hq).1] at this
      simp [staleRead, this]
    · have hm : s.rMk0 = true := by
        cases hm : s.rMk0 with
        | true => rfl
        | false => exact absurd hq (f5 hm hwr)
      have := (k2 hm).2.1 s.R hmk
      simp [staleRead, this]
    · exfalso
      cases hm : s.rMk0 with
      | true => have := f2 hm; simp [hmk] at this
      | false => exact absurd hq (f5 hm hwr)
  · intro hq hw0
    have hm : s.rMk0 = true := by
      cases hm : s.rMk0 with
      | true => rfl
      | false => exact absurd hq (f5 hm hwr)
    exact (k2 hm).2.2 hw0

theorem hb_f5 {w hh : Nat} (inv : Inv wt rt s) (h : HInv wt s) (ht : ¬ tok.tid ≥ s.nthr)
    (hpc : s.pc tok.tid = .f5 w hh) (hs : step s tok = some (s', ev)) : HInv wt s' := by
  have hin : rsec (s.pc tok.tid) = true := by rw [hpc]; rfl
  have hr := (inv.thr tok.tid).r; rw [hpc] at hr; simp only [RInv] at hr
  obtain ⟨rfl, hRH, hwr, hf⟩ := hr
  have hr0 := h.r tok.tid; rw [hpc] at hr0; simp only [HR] at hr0
  obtain ⟨hst, hhead, hq2⟩ := seen_at_R inv hr0 hf hwr
  have hrl := inv.rle
  have hnf : ¬ s.R ≥ s.N := by omega
  simp only [step, ht, hpc, if_false, hnf, hst, Nat.add_zero] at hs
  rcases inv.at_R with ⟨m, l, hq, hhb, hnb⟩ | ⟨hq, hmk, hhb⟩ | ⟨hq, hmk⟩
  · have hne : ¬ m.nb = 0 := by omega
    simp only [hhb, ne_eq, hne, not_false_eq_true, if_true, Option.some.injEq, Prod.mk.injEq] at hs
    obtain ⟨rfl, -⟩ := hs
    exact hlocal h rfl ⟨h.stale.symm ▸ rfl, rfl, rfl, rfl, rfl, rfl, rfl, rfl, rfl, rfl, rfl, rfl, rfl, rfl⟩
      (by simp [wsec]) (by simp [HW]) ⟨m, l, hq, hhead m l hq⟩
  · simp only [hhb, ne_eq, not_true_eq_false, if_false] at hs
    split at hs
    · generalize hrel : beginOp _ tok.tid = rr at hs
      simp only [Option.some.injEq, Prod.mk.injEq] at hs
      obtain ⟨rfl, -⟩ := hs
      rw [← hrel]
      exact hfinish_r inv h hin rfl rfl rfl ⟨rfl, rfl, rfl, rfl, rfl, rfl, rfl⟩ h.stale h.pub h.mrk
    · rename_i hw0
      simp only [Option.some.injEq, Prod.mk.injEq] at hs
      obtain ⟨rfl, -⟩ := hs
      exact hlocal h rfl ⟨h.stale.symm ▸ rfl, rfl, rfl, rfl, rfl, rfl, rfl, rfl, rfl, rfl, rfl, rfl, rfl, rfl⟩
        (by simp [wsec]) (by simp [HW]) (hq2 hq hw0)
  · exfalso
    cases hm : s.rMk0 with
    | true => have := hf.2.1 hm; simp [hmk] at this
    | false => exact absurd hq (hf.2.2.2.2 hm hwr)

/-- a reader holding the head of `q1` reads its header cell without staleness -/
theorem head_fresh {t : Nat} (inv : Inv wt rt s) (hs : HeadSeen s t) : staleRead s t s.R = 0 := by
  obtain ⟨m, l, hq, hseen⟩ := hs
  have := hseen 0 (span_pos _)
  rw [Nat.add_zero, (inv.head hq).1] at this
  simp [staleRead, this]

theorem hb_g2 {hh : Nat} (inv : Inv wt rt s) (h : HInv wt s) (ht : ¬ tok.tid ≥ s.nthr)
    (hpc : s.pc tok.tid = .g2 hh) (hs : step s tok = some (s', ev)) : HInv wt s' := by
  have hr := (inv.thr tok.tid).r; rw [hpc] at hr; simp only [RInv] at hr
  obtain ⟨rfl, -, hne⟩ := hr
  have hr0 := h.r tok.tid; rw [hpc] at hr0; simp only [HR] at hr0
  have hst := head_fresh inv hr0
  have hrl := inv.rle
  have hnf : ¬ s.R ≥ s.N := by omega
  simp only [step, ht, hpc, if_false, hnf, hst, Nat.add_zero] at hs
  rcases inv.at_R with ⟨m, l, hq, hhb, hnb⟩ | ⟨hq, -⟩ | ⟨hq, -⟩
  · simp only [hhb, Option.some.injEq, Prod.mk.injEq] at hs
    obtain ⟨rfl, -⟩ := hs
    exact hlocal h rfl ⟨rfl, rfl, rfl, rfl, rfl, rfl, rfl, rfl, rfl, rfl, rfl, rfl, rfl, rfl⟩
      (by simp [wsec]) (by simp [HW]) hr0
  · exact absurd hq hne
  · exact absurd hq hne

theorem hb_k5 {hh : Nat} (inv : Inv wt rt s) (h : HInv wt s) (ht : ¬ tok.tid ≥ s.nthr)
    (hpc : s.pc tok.tid = .k5 hh) (hs : step s tok = some (s', ev)) : HInv wt s' := by
  have hr := (inv.thr tok.tid).r; rw [hpc] at hr; simp only [RInv] at hr
  obtain ⟨rfl, -, hne⟩ := hr
  have hr0 := h.r tok.tid; rw [hpc] at hr0; simp only [HR] at hr0
  have hst := head_fresh inv hr0
  have hrl := inv.rle
  have hnf : ¬ s.R ≥ s.N := by omega
  simp only [step, ht, hpc, if_false, hnf, hst, Nat.add_zero] at hs
  rcases inv.at_R with ⟨m, l, hq, hhb, hnb⟩ | ⟨hq, -⟩ | ⟨hq, -⟩
  · have hne0 : ¬ m.nb = 0 := by omega
    simp only [hhb, ne_eq, hne0, not_false_eq_true, if_true, Option.some.injEq, Prod.mk.injEq] at hs
    obtain ⟨rfl, -⟩ := hs
    exact hlocal h rfl ⟨h.stale.symm ▸ rfl, rfl, rfl, rfl, rfl, rfl, rfl, rfl, rfl, rfl, rfl, rfl, rfl, rfl⟩
      (by simp [wsec]) (by simp [HW]) hr0
  · exact absurd hq hne
  · exact absurd hq hne

theorem hb_r2 {hh : Nat} (inv : Inv wt rt s) (h : HInv wt s) (ht : ¬ tok.tid ≥ s.nthr)
    (hpc : s.pc tok.tid = .r2 hh) (hs : step s tok = some (s', ev)) : HInv wt s' := by
  have hr := (inv.thr tok.tid).r; rw [hpc] at hr; simp only [RInv] at hr
  obtain ⟨rfl, hheld⟩ := hr
  obtain ⟨m, l, hq, -⟩ := id hheld
  obtain ⟨hcell, ⟨-, -, -, hhc, -⟩, -⟩ := inv.head hq
  have hr0 := h.r tok.tid; rw [hpc] at hr0; simp only [HR] at hr0
  have hst := head_fresh inv hr0
  have hrl := inv.rle
  have hnf : ¬ s.R ≥ s.N := by omega
  rw [hcell] at hhc
  simp only [step, ht, hpc, if_false, hnf, hhc, hst, Nat.add_zero, Option.some.injEq, Prod.mk.injEq] at hs
  obtain ⟨rfl, -⟩ := hs
  exact hlocal h rfl ⟨rfl, rfl, rfl, rfl, rfl, rfl, rfl, rfl, rfl, rfl, rfl, rfl, rfl, rfl⟩
    (by simp [wsec]) (by simp [HW]) (by simp [HR])


theorem hb_rp {hh nb : Nat} (inv : Inv wt rt s) (h : HInv wt s) (ht : ¬ tok.tid ≥ s.nthr)
    (hpc : s.pc tok.tid = .rp hh nb) (hs : step s tok = some (s', ev)) : HInv wt s' := by
  have hin : rsec (s.pc tok.tid) = true := by rw [hpc]; rfl
  have hr := (inv.thr tok.tid).r; rw [hpc] at hr; simp only [RInv] at hr
  obtain ⟨rfl, hRH, m, l, hq, rfl⟩ := hr
  have hr0 := h.r tok.tid; rw [hpc] at hr0; simp only [HR] at hr0
  obtain ⟨hcell, ⟨hnb, hncl, hhb, hhc, hpb⟩, hend⟩ := inv.head hq
  have hsp := span_le m.nb
  have hspos := span_pos m.nb
  have hc : (s.R * 64 + 8 + m.nb - 1) / 64 = s.R + (spanCells m.nb - 1) := by
    simp only [spanCells]; omega
  have hnf : ¬ (s.R * 64 + 8 + m.nb - 1) / 64 ≥ s.N := by rw [hc]; omega
  have hpbc : s.pb ((s.R * 64 + 8 + m.nb - 1) / 64) = some m.tag := by
    rw [hc, ← hcell]; exact hpb _ (by omega)
  have hst : staleRead s tok.tid ((s.R * 64 + 8 + m.nb - 1) / 64) = 0 := by
    obtain ⟨m', l', hq', hseen⟩ := hr0
    rw [hq] at hq'; cases hq'
    have := hseen (spanCells m.nb - 1) (by omega)
    rw [hcell] at this
    rw [hc]
    simp [staleRead, this]
  simp only [step, ht, hpc, if_false, hnf, hpbc, hst, Nat.add_zero, Option.some.injEq, Prod.mk.injEq] at hs
  obtain ⟨rfl, -⟩ := hs
  exact hb_rstep inv h hin rfl rfl ⟨rfl, rfl, rfl, rfl, rfl, rfl, rfl⟩ (fun _ _ hx => hx) (fun _ _ => rfl)
    h.stale h.pub h.mrk (by simp only [HR]; exact hr0)

theorem hb_k1 (inv : Inv wt rt s) (h : HInv wt s) (ht : ¬ tok.tid ≥ s.nthr)
    (hpc : s.pc tok.tid = .k1) (hs : step s tok = some (s', ev)) : HInv wt s' := by
  have hin : rsec (s.pc tok.tid) = true := by rw [hpc]; rfl
  have hr := (inv.thr tok.tid).r; rw [hpc] at hr; simp only [RInv] at hr
  obtain ⟨-, hq, -, -⟩ := hr
  have hr0 := h.r tok.tid; rw [hpc] at hr0; simp only [HR] at hr0
  simp only [step, ht, hpc, if_false, Option.some.injEq, Prod.mk.injEq] at hs
  obtain ⟨rfl, -⟩ := hs
  refine hb_rstep inv h hin rfl rfl ⟨rfl, rfl, rfl, rfl, rfl, rfl, rfl⟩ (fun _ _ hx => hx) (fun _ _ => rfl)
    h.stale ?_ ?_ ?_
  · intro m hm; exact h.pub m (by simpa using hm)
  · intro M hM; cases hM
  · simp only [HR, HeadSeen, Seen, hq, List.nil_append]; exact hr0

theorem hb_r4 {n r : Nat} (inv : Inv wt rt s) (h : HInv wt s) (ht : ¬ tok.tid ≥ s.nthr)
    (hpc : s.pc tok.tid = .r4 n r) (hs : step s tok = some (s', ev)) : HInv wt s' := by
  have hin : rsec (s.pc tok.tid) = true := by rw [hpc]; rfl
  have hr := (inv.thr tok.tid).r; rw [hpc] at hr; simp only [RInv] at hr
  obtain ⟨rfl, -, m, l, hq, rfl⟩ := hr
  simp only [step, ht, hpc, if_false, hq, List.isEmpty_cons, Bool.false_eq_true, List.tail_cons] at hs
  generalize hrel : beginOp _ tok.tid = rr at hs
  simp only [Option.some.injEq, Prod.mk.injEq] at hs
  obtain ⟨rfl, -⟩ := hs
  rw [← hrel]
  refine hfinish_r inv h hin rfl rfl rfl ⟨rfl, rfl, rfl, rfl, rfl, rfl, rfl⟩ h.stale ?_ h.mrk
  intro x hx
  exact h.pub x (by rw [hq]; exact List.mem_cons_of_mem _ hx)

/-! ## all steps -/

theorem hb_step_inv (inv : Inv wt rt s) (h : HInv wt s) (hs : step s tok = some (s', ev)) : HInv wt s' := by
  by_cases ht : tok.tid ≥ s.nthr
  · simp [step, ht] at hs
  · cases hpc : s.pc tok.tid with
    | done => simp [step, ht, hpc] at hs
    | bad => simp [step, ht, hpc] at hs
    | lk => exact hb_lk inv h ht hpc hs
    | lkY => exact hb_lkY h ht hpc hs
    | a1 => exact hb_a1 h ht hpc hs
    | u0 => exact hb_u0 h ht hpc hs
    | u1 r => exact hb_u1 h ht hpc hs
    | ug r => exact hb_ug h ht hpc hs
    | ugw v => exact hb_ugw h ht hpc hs
    | ul r => exact hb_ul h ht hpc hs
    | ulw v => exact hb_ulw h ht hpc hs
    | um1 r => exact hb_um1 h ht hpc hs
    | um2 r w => exact hb_um2 inv h ht hpc hs
    | um3 r w => exact hb_um3 inv h ht hpc hs
    | um4 r => exact hb_um4 inv h ht hpc hs
    | um5 r => exact hb_um5 h ht hpc hs
    | a2 => exact hb_a2 inv h ht hpc hs
    | h1 => exact hb_h1 h ht hpc hs
    | h2 w => exact hb_h2 inv h ht hpc hs
    | h3 w => exact hb_h3 inv h ht hpc hs
    | h4 w => exact hb_h4 inv h ht hpc hs
    | p1 w => exact hb_p1 inv h ht hpc hs
    | m1 => exact hb_m1 h ht hpc hs
    | m2 hh => exact hb_m2 inv h ht hpc hs
    | m3 n => exact hb_m3 h ht hpc hs
    | m4 n cr => exact hb_m4 h ht hpc hs
    | m5 n => exact hb_m5 h ht hpc hs
    | m6 n w => exact hb_m6 inv h ht hpc hs
    | unl => exact hb_unl inv h ht hpc hs
    | f0 => exact hb_f0 inv h ht hpc hs
    | f1 w => exact hb_f1 inv h ht hpc hs
    | f2 w => exact hb_f2 h ht hpc hs
    | f3 w r => exact hb_f3 h ht hpc hs
    | f4 w => exact hb_f4 h ht hpc hs
    | f5 w hh => exact hb_f5 inv h ht hpc hs
    | g1 => exact hb_g1 h ht hpc hs
    | g2 hh => exact hb_g2 inv h ht hpc hs
    | g3 nb => exact hb_g3 h ht hpc hs
    | rp hh nb => exact hb_rp inv h ht hpc hs
    | k1 => exact hb_k1 inv h ht hpc hs
    | k2 => exact hb_k2 h ht hpc hs
    | k3 r => exact hb_k3 h ht hpc hs
    | k4 => exact hb_k4 h ht hpc hs
    | k5 hh => exact hb_k5 inv h ht hpc hs
    | r1 => exact hb_r1 h ht hpc hs
    | r2 hh => exact hb_r2 inv h ht hpc hs
    | r3 n => exact hb_r3 h ht hpc hs
    | r4 n r => exact hb_r4 inv h ht hpc hs

/-! ## initial state, reachable states -/

theorem base_hinv {N : Nat} {useLock : Bool} {progs : List (List Op)} :
    HInv wt (mkBase N progs.length useLock progs) := by
  refine ⟨rfl, ?_, ?_, ?_, ?_, ?_, ?_, ?_⟩
  · intro m hm; simp [mkBase] at hm
  · intro M hM; simp [mkBase] at hM
  · intro t hw; simp [mkBase, wsec] at hw
  · intro _ x hx; simp [mkBase] at hx
  · intro _ _ x hx; simp [mkBase] at hx
  · intro t; simp [mkBase, HW]
  · intro t; simp [mkBase, HR]

theorem prologue_both (inv : Inv wt rt s) (h : HInv wt s) (ts : List Nat) :
    Inv wt rt (prologue s ts).1 ∧ HInv wt (prologue s ts).1 := by
  induction ts generalizing s with
  | nil => exact ⟨inv, h⟩
  | cons t ts ih =>
    simp only [prologue]
    exact ih (beginOp_inv (inv.toX t)) (beginOp_hinv (h.toX t) (inv.thr t).prog)

/-- both invariants hold after every schedule of every length -/
theorem reach_both {N : Nat} {useLock : Bool} {progs : List (List Op)} (hN : 1 ≤ N)
    (hc : Client wt rt useLock progs) :
    ∀ s, Reach step (mkInit N useLock progs).1 s → Inv wt rt s ∧ HInv wt s :=
  Reach.inv (fun s => Inv wt rt s ∧ HInv wt s) (prologue_both (base_inv hN hc) base_hinv _)
    (fun _ _ _ _ ih hs => ⟨step_inv ih.1 hs, hb_step_inv ih.1 ih.2 hs⟩)

end MgProof.C08
