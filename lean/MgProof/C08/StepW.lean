import MgProof.C08.Frame
/-! Writer-side steps of `MgModel.C08.step` preserve `Inv`. -/
namespace MgProof.C08
open MgModel.Conc MgModel.C08

variable {wt rt : Nat} {s s' : St} {tok : Tok} {ev : List String}

/-! ## stability of the reader's facts under the two writer steps that touch them -/

theorem RInv_wrap {p : Pc} {M : Nat} (hm : s.mark = none) (h : RInv s p)
    (e : s'.R = s.R ∧ s'.RH = s.RH ∧ s'.mark = some M ∧ s'.q1 = s.q1 ∧ s'.q2 = s.q2 ∧ s'.rP0 = s.rP0 ∧
         s'.rMk0 = s.rMk0 ∧ s'.rcur = s.rcur) : RInv s' p := by
  obtain ⟨e1, e2, e3, e4, e5, e6, e7, e8⟩ := e
  cases p <;> simp only [RInv, Fw, Held, e1, e2, e3, e4, e5, e6, e7, e8] at h ⊢ <;>
    simp_all

theorem RInv_commit {p : Pc} {m : Msg} (h : RInv s p)
    (e : s'.R = s.R ∧ s'.RH = s.RH ∧ s'.mark = s.mark ∧ s'.rP0 = s.rP0 ∧ s'.rMk0 = s.rMk0 ∧ s'.rcur = s.rcur)
    (e1 : s'.q1 = if s.mark.isSome then s.q1 else s.q1 ++ [m])
    (e2 : s'.q2 = if s.mark.isSome then s.q2 ++ [m] else s.q2) : RInv s' p := by
  obtain ⟨f1, f2, f3, f4, f5, f6⟩ := e
  cases hmk : s.mark.isSome <;> simp only [hmk, if_true, if_false, Bool.false_eq_true] at e1 e2 <;>
  cases p <;> simp only [RInv, Fw, Held, f1, f2, f3, f4, f5, f6, e1, e2] at h ⊢ <;>
    (try exact h) <;> simp_all <;> grind


/-! ## memory frame -/

theorem MsgOk.frame {m : Msg} {a k : Nat} (h : MsgOk s m)
    (hd : m.cell + m.ncl ≤ a ∨ a + k ≤ m.cell)
    (hhb : ∀ i, (i < a ∨ a + k ≤ i) → s'.hb i = s.hb i)
    (hhc : ∀ i, (i < a ∨ a + k ≤ i) → s'.hc i = s.hc i)
    (hpb : ∀ i, (i < a ∨ a + k ≤ i) → s'.pb i = s.pb i) : MsgOk s' m := by
  obtain ⟨h1, h2, h3, h4, h5⟩ := h
  have hs := span_le m.nb
  refine ⟨h1, h2, ?_, ?_, ?_⟩
  · rw [hhb _ (by omega)]; exact h3
  · rw [hhc _ (by omega)]; exact h4
  · intro i hi; rw [hpb _ (by omega)]; exact h5 i hi

/-- a writer step that only moves its own program counter (and fields no invariant reads) -/
macro "wlocal " inv:term ", " hin:term ", " hc:term ", " hw:term : term =>
  `(wstep $inv $hin rfl (by simp) rfl rfl rfl rfl (fun _ _ => rfl) $hc (Inv.geo $inv :) (Inv.crok $inv :)
      (Inv.rle $inv :) (Inv.msgs $inv :) (Inv.log $inv :) (Inv.cnt $inv :) (fun _ h => h) $hw)

theorem step_lkY (inv : Inv wt rt s) (ht : ¬ tok.tid ≥ s.nthr) (hpc : s.pc tok.tid = .lkY)
    (hs : step s tok = some (s', ev)) : Inv wt rt s' := by
  have ti := inv.thr tok.tid
  simp only [step, ht, hpc, if_false, Option.some.injEq, Prod.mk.injEq] at hs
  obtain ⟨rfl, -⟩ := hs
  refine ⟨inv.geo, inv.crok, inv.rle, inv.msgs, inv.log, inv.cnt, ?_, ?_⟩
  · exact excl_upd inv.excl (by simp [wsec])
  · intro t'
    by_cases h : t' = tok.tid
    · subst h
      exact ti.self (p' := .lk) (by simp) rfl rfl (fun _ => ti.cur (by rw [hpc]; rfl)) (by simp [wsec])
        (fun _ => ti.lku (by simp [hpc])) (by simp [rsec]) (by simp [WInv]) (by simp [RInv])
    · exact (inv.thr t').other (by simp [upd, h]) rfl rfl rfl (fun _ h => h) id id

theorem step_lk (inv : Inv wt rt s) (ht : ¬ tok.tid ≥ s.nthr) (hpc : s.pc tok.tid = .lk)
    (hs : step s tok = some (s', ev)) : Inv wt rt s' := by
  have ti := inv.thr tok.tid
  have hu : s.useLock = true := ti.lku (by simp [hpc])
  have hc := ti.cur (by rw [hpc]; rfl)
  simp only [step, ht, hpc, if_false] at hs
  split at hs
  · rename_i hl0
    simp only [Option.some.injEq, Prod.mk.injEq] at hs
    obtain ⟨rfl, -⟩ := hs
    have hout : ∀ a, wsec (s.pc a) = false := by
      intro a
      cases h' : wsec (s.pc a) with
      | false => rfl
      | true => have := ((inv.thr a).lk h').1 hu; omega
    refine ⟨inv.geo, inv.crok, inv.rle, inv.msgs, inv.log, inv.cnt, ?_, ?_⟩
    · exact excl_upd inv.excl (fun _ => Or.inr (fun a _ => hout a))
    · intro t'
      by_cases h : t' = tok.tid
      · subst h
        refine ⟨ti.prog, ?_, ?_, by simp, by simp [rsec], ?_, by simp [RInv]⟩
        · intro _; simpa [CurOk] using hc
        · intro _; exact ⟨fun _ => rfl, fun h => by simp [hu] at h⟩
        · simp only [WInv, Dh, upd_same]
          intro hd
          exact drained_q0 inv.log hd.1
      · refine (inv.thr t').other (by simp [upd, h]) rfl (by simp [upd, h]) rfl (fun _ _ => rfl) ?_ id
        exact WInv.congr ⟨rfl, rfl, rfl, rfl, rfl, rfl, rfl, rfl, rfl, rfl, rfl, by simp [upd, h]⟩
  · simp only [Option.some.injEq, Prod.mk.injEq] at hs
    obtain ⟨rfl, -⟩ := hs
    refine ⟨inv.geo, inv.crok, inv.rle, inv.msgs, inv.log, inv.cnt, ?_, ?_⟩
    · exact excl_upd inv.excl (by simp [wsec])
    · intro t'
      by_cases h : t' = tok.tid
      · subst h
        exact ti.self (p' := .lkY) (by simp) rfl rfl (fun _ => hc) (by simp [wsec]) (fun _ => hu) (by simp [rsec])
          (by simp [WInv]) (by simp [RInv])
      · exact (inv.thr t').other (by simp [upd, h]) rfl rfl rfl (fun _ h => h) id id

theorem step_a1 (inv : Inv wt rt s) (ht : ¬ tok.tid ≥ s.nthr) (hpc : s.pc tok.tid = .a1)
    (hs : step s tok = some (s', ev)) : Inv wt rt s' := by
  have ti := inv.thr tok.tid
  have hin : wsec (s.pc tok.tid) = true := by rw [hpc]; rfl
  have hw := ti.w; rw [hpc] at hw; simp only [WInv] at hw
  have hc := ti.cur (by rw [hpc]; rfl)
  simp only [step, ht, hpc, if_false, Option.some.injEq, Prod.mk.injEq] at hs
  obtain ⟨rfl, -⟩ := hs
  by_cases hcr : s.CR < (s.cur tok.tid).ncl
  · simp only [hcr, if_true]
    exact wlocal inv, hin, hc, ⟨hcr, hw⟩
  · simp only [hcr, if_false]
    have : (s.cur tok.tid).ncl ≤ s.CR := Nat.le_of_not_lt hcr
    exact wlocal inv, hin, hc, this

theorem step_u0 (inv : Inv wt rt s) (ht : ¬ tok.tid ≥ s.nthr) (hpc : s.pc tok.tid = .u0)
    (hs : step s tok = some (s', ev)) : Inv wt rt s' := by
  have ti := inv.thr tok.tid
  have hin : wsec (s.pc tok.tid) = true := by rw [hpc]; rfl
  have hw := ti.w; rw [hpc] at hw; simp only [WInv] at hw
  have hc := ti.cur (by rw [hpc]; rfl)
  simp only [step, ht, hpc, if_false, Option.some.injEq, Prod.mk.injEq] at hs
  obtain ⟨rfl, -⟩ := hs
  refine wlocal inv, hin, hc, ⟨hw.1, ?_, fun hd => ⟨hw.2 hd, rfl⟩⟩
  have g := inv.geo
  unfold Geo at g
  refine ⟨inv.rle, ?_, fun _ _ => Nat.le_refl _⟩
  intro hm
  cases hmk : s.mark with
  | none => simp [hmk] at hm
  | some M => simp only [hmk] at g; exact ⟨g.2.2.1, Nat.le_refl _⟩

theorem step_u1 {r : Nat} (inv : Inv wt rt s) (ht : ¬ tok.tid ≥ s.nthr) (hpc : s.pc tok.tid = .u1 r)
    (hs : step s tok = some (s', ev)) : Inv wt rt s' := by
  have ti := inv.thr tok.tid
  have hin : wsec (s.pc tok.tid) = true := by rw [hpc]; rfl
  have hw := ti.w; rw [hpc] at hw; simp only [WInv] at hw
  have hc := ti.cur (by rw [hpc]; rfl)
  simp only [step, ht, hpc, if_false, Option.some.injEq, Prod.mk.injEq] at hs
  obtain ⟨rfl, -⟩ := hs
  obtain ⟨h1, ⟨h2, h3, h4⟩, h5⟩ := hw
  by_cases hgt : r > s.W
  · simp only [hgt, if_true]
    exact wlocal inv, hin, hc, ⟨h1, ⟨h2, h3, h4⟩, hgt, h5⟩
  · simp only [hgt, if_false]
    have hle : r ≤ s.W := Nat.le_of_not_lt hgt
    have hmk : s.mark = none := by
      cases hm : s.mark with
      | none => rfl
      | some M => have := (h3 (by simp [hm])).1; omega
    exact wlocal inv, hin, hc, ⟨h1, hle, h4 hmk hle, hmk, h5⟩

theorem step_ug {r : Nat} (inv : Inv wt rt s) (ht : ¬ tok.tid ≥ s.nthr) (hpc : s.pc tok.tid = .ug r)
    (hs : step s tok = some (s', ev)) : Inv wt rt s' := by
  have ti := inv.thr tok.tid
  have hin : wsec (s.pc tok.tid) = true := by rw [hpc]; rfl
  have hw := ti.w; rw [hpc] at hw; simp only [WInv] at hw
  have hc := ti.cur (by rw [hpc]; rfl)
  obtain ⟨h1, ⟨h2, h3, h4⟩, h5, h6⟩ := hw
  have hnf : ¬ r < s.W + 1 := by omega
  simp only [step, ht, hpc, if_false, hnf, Option.some.injEq, Prod.mk.injEq] at hs
  obtain ⟨rfl, -⟩ := hs
  refine wlocal inv, hin, hc, ?_
  simp only [WInv, Dh]
  refine ⟨by omega, fun hm => by have := (h3 hm).2; omega, ?_⟩
  -- drained: the marker is pending, the reader sits on it, and the marker is beyond the middle
  intro hd
  obtain ⟨⟨q1, q2⟩, hr⟩ := h6 hd
  have g := inv.geo
  unfold Geo at g
  cases hmk : s.mark with
  | none =>
    simp only [hmk, q1, chain] at g
    omega
  | some M =>
    simp only [hmk, q1, q2, chain] at g
    have := hd.2
    omega

theorem step_ugw {v : Nat} (inv : Inv wt rt s) (ht : ¬ tok.tid ≥ s.nthr) (hpc : s.pc tok.tid = .ugw v)
    (hs : step s tok = some (s', ev)) : Inv wt rt s' := by
  have ti := inv.thr tok.tid
  have hin : wsec (s.pc tok.tid) = true := by rw [hpc]; rfl
  have hw := ti.w; rw [hpc] at hw; simp only [WInv] at hw
  have hc := ti.cur (by rw [hpc]; rfl)
  simp only [step, ht, hpc, if_false, Option.some.injEq, Prod.mk.injEq] at hs
  obtain ⟨rfl, -⟩ := hs
  exact wstep inv hin rfl (by simp) rfl rfl rfl rfl (fun _ _ => rfl) hc (inv.geo :) ⟨hw.1, hw.2.1⟩ (inv.rle :)
    (inv.msgs :) (inv.log :) (inv.cnt :) (fun _ h => h) hw.2.2

theorem step_ul {r : Nat} (inv : Inv wt rt s) (ht : ¬ tok.tid ≥ s.nthr) (hpc : s.pc tok.tid = .ul r)
    (hs : step s tok = some (s', ev)) : Inv wt rt s' := by
  have ti := inv.thr tok.tid
  have hin : wsec (s.pc tok.tid) = true := by rw [hpc]; rfl
  have hw := ti.w; rw [hpc] at hw; simp only [WInv] at hw
  have hc := ti.cur (by rw [hpc]; rfl)
  obtain ⟨h1, h2, h3, h4, h5⟩ := hw
  have hwl := inv.wle
  have hnf : ¬ s.N < s.W + 1 := by omega
  simp only [step, ht, hpc, if_false, hnf] at hs
  split at hs
  · rename_i hright
    simp only [Option.some.injEq, Prod.mk.injEq] at hs
    obtain ⟨rfl, -⟩ := hs
    refine wlocal inv, hin, hc, ?_
    simp only [WInv]
    exact ⟨by omega, h4, hright⟩
  · rename_i hright
    split at hs
    · rename_i hleft
      simp only [Option.some.injEq, Prod.mk.injEq] at hs
      obtain ⟨rfl, -⟩ := hs
      refine wlocal inv, hin, hc, ?_
      simp only [WInv, Um]
      exact ⟨h1, h4, by omega, h3, h2, by omega⟩
    · rename_i hleft
      simp only [Option.some.injEq, Prod.mk.injEq] at hs
      obtain ⟨rfl, -⟩ := hs
      refine wlocal inv, hin, hc, ?_
      simp only [WInv, Dh]
      -- drained and within the bound: one of the two sides must have had room
      intro hd
      obtain ⟨⟨q1, q2⟩, hr⟩ := h5 hd
      have g := inv.geo
      unfold Geo at g
      simp only [h4, q1, chain] at g
      have := hd.2
      omega

theorem step_ulw {v : Nat} (inv : Inv wt rt s) (ht : ¬ tok.tid ≥ s.nthr) (hpc : s.pc tok.tid = .ulw v)
    (hs : step s tok = some (s', ev)) : Inv wt rt s' := by
  have ti := inv.thr tok.tid
  have hin : wsec (s.pc tok.tid) = true := by rw [hpc]; rfl
  have hw := ti.w; rw [hpc] at hw; simp only [WInv] at hw
  have hc := ti.cur (by rw [hpc]; rfl)
  simp only [step, ht, hpc, if_false, Option.some.injEq, Prod.mk.injEq] at hs
  obtain ⟨rfl, -⟩ := hs
  exact wstep inv hin rfl (by simp) rfl rfl rfl rfl (fun _ _ => rfl) hc (inv.geo :)
    ⟨hw.1, fun hm => by simp [hw.2.1] at hm⟩ (inv.rle :)
    (inv.msgs :) (inv.log :) (inv.cnt :) (fun _ h => h) (fun _ => hw.2.2)

end MgProof.C08
